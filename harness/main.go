//go:build verif

// harness: runs the REAL library in-process on the line protocol of /verif/lean/Driver.lean.
// One case per input line, one reply line per case. Panics are caught per operation, a watchdog
// ends the process with "TIMEOUT" (exit code 3) when one case hangs; the orchestrator restarts it.
package main

import (
	"bufio"
	"encoding/hex"
	"flag"
	"fmt"
	"os"
	"sort"
	"strconv"
	"strings"
	"time"

	"github.com/ReneBoedker/algobra/auxmath"
	"github.com/ReneBoedker/algobra/bivariate"
	"github.com/ReneBoedker/algobra/errors"
	"github.com/ReneBoedker/algobra/finitefield"
	"github.com/ReneBoedker/algobra/finitefield/binfield"
	"github.com/ReneBoedker/algobra/finitefield/conway"
	"github.com/ReneBoedker/algobra/finitefield/extfield"
	"github.com/ReneBoedker/algobra/finitefield/ff"
	"github.com/ReneBoedker/algobra/finitefield/primefield"
	"github.com/ReneBoedker/algobra/univariate"
)

var kinds = []struct {
	k    errors.Kind
	name string
}{
	{errors.Input, "Input"}, {errors.InputValue, "InputValue"}, {errors.InputIncompatible, "InputIncompatible"},
	{errors.InputTooLarge, "InputTooLarge"}, {errors.ArithmeticIncompat, "ArithmeticIncompat"},
	{errors.Parsing, "Parsing"}, {errors.Conversion, "Conversion"}, {errors.Overflow, "Overflow"},
	{errors.Internal, "Internal"},
}

func kindOf(err error) string {
	if err == nil {
		return "-"
	}
	for _, k := range kinds {
		if errors.Is(k.k, err) {
			return k.name
		}
	}
	return "Kindless"
}

func u(s string) uint {
	v, err := strconv.ParseUint(s, 10, 64)
	if err != nil {
		panic("bad uint " + s)
	}
	return uint(v)
}

func i64(s string) int {
	v, err := strconv.ParseInt(s, 10, 64)
	if err != nil {
		panic("bad int " + s)
	}
	return int(v)
}

func natsStr(l []uint) string {
	s := make([]string, len(l))
	for i, x := range l {
		s[i] = strconv.FormatUint(uint64(x), 10)
	}
	return strings.Join(s, ",")
}

func unhex(s string) string {
	if s == "EMPTY" {
		return ""
	}
	b, err := hex.DecodeString(s)
	if err != nil {
		panic("bad hex")
	}
	return string(b)
}

// ---------------------------------------------------------------------------------------------

func runAux(t []string) string {
	switch t[0] {
	case "pow":
		r, err := auxmath.Pow(u(t[1]), u(t[2]))
		if err != nil {
			return "err " + kindOf(err)
		}
		return "ok " + strconv.FormatUint(uint64(r), 10)
	case "gcd":
		return strconv.FormatUint(uint64(auxmath.Gcd(u(t[1]), u(t[2]))), 10)
	case "bsqrt":
		return strconv.FormatUint(uint64(auxmath.BoundSqrt(u(t[1]))), 10)
	case "blog2":
		return strconv.FormatUint(uint64(auxmath.BoundLog2(u(t[1]))), 10)
	case "fpp":
		p, n, err := auxmath.FactorizePrimePower(u(t[1]))
		if err != nil {
			return "err " + kindOf(err)
		}
		return fmt.Sprintf("ok %d %d", p, n)
	case "fact":
		f, e := auxmath.Factorize(u(t[1]))
		parts := make([]string, len(f))
		for i := range f {
			parts[i] = fmt.Sprintf("%d^%d", f[i], e[i])
		}
		return strings.Join(parts, " ")
	case "combin":
		n, k := i64(t[1]), i64(t[2])
		var out []string
		for ci := auxmath.NewCombinIter(n, k); ci.Active(); ci.Next() {
			cur := ci.Current()
			s := make([]string, len(cur))
			for i, x := range cur {
				s[i] = strconv.Itoa(x)
			}
			out = append(out, strings.Join(s, ","))
		}
		return strings.Join(out, ";")
	}
	return "bad-op"
}

// field descriptor of a Go field object, in the model's notation
func descOf(f ff.Field) string {
	switch v := f.(type) {
	case *primefield.Field:
		return fmt.Sprintf("P:%d", v.Char())
	case *binfield.Field:
		n := uint(0)
		for c := v.Card(); c > 1; c >>= 1 {
			n++
		}
		// conwayPoly = X^n + (X^n reduced): read it off the arithmetic
		red := v.ElementFromBits(1 << n).(*binfield.Element).AsBits()
		return fmt.Sprintf("B:%d:%d", n, (uint(1)<<n)^red)
	case *extfield.Field:
		p := v.Char()
		n := extDegOf(v)
		// a^n reduced gives the lower coefficients of the (monic) modulus, negated
		sl := make([]uint, n+1)
		sl[n] = 1
		low := v.ElementFromUnsignedSlice(sl).(*extfield.Element).AsSlice()
		coefs := make([]string, n+1)
		for i := uint(0); i < n; i++ {
			c := uint(0)
			if int(i) < len(low) {
				c = low[i].(*primefield.Element).Uint()
			}
			coefs[i] = strconv.FormatUint(uint64((p-c)%p), 10)
		}
		coefs[n] = "1"
		return fmt.Sprintf("E:%d:%d:%s", p, n, strings.Join(coefs, "."))
	}
	return "?"
}

// extension degree of an extension field: the least n with a^n expressible in lower powers
func extDegOf(v *extfield.Field) uint {
	for n := uint(1); n < 500; n++ {
		sl := make([]uint, n+1)
		sl[n] = 1
		if len(v.ElementFromUnsignedSlice(sl).(*extfield.Element).AsSlice()) <= int(n) {
			return n
		}
	}
	panic("extDegOf: no reduction found")
}

func runDefine(t []string) string {
	q := u(t[1])
	var f ff.Field
	var err error
	switch t[0] {
	case "any":
		f, err = finitefield.Define(q)
	case "prime":
		var pf *primefield.Field
		pf, err = primefield.Define(q)
		if err == nil {
			f = pf
		}
	case "bin":
		var bf *binfield.Field
		bf, err = binfield.Define(q)
		if err == nil {
			f = bf
		}
	case "ext":
		var ef *extfield.Field
		ef, err = extfield.Define(q)
		if err == nil {
			f = ef
		}
	}
	if err != nil {
		return "err " + kindOf(err)
	}
	return fmt.Sprintf("ok %s card=%d char=%d", descOf(f), f.Card(), f.Char())
}

func parseOrder(s string) bivariate.Order {
	p := strings.Split(s, ".")
	x := p[len(p)-1] == "1"
	switch p[0] {
	case "lex":
		return bivariate.Lex(x)
	case "deglex":
		return bivariate.DegLex(x)
	case "degrevlex":
		return bivariate.DegRevLex(x)
	case "wdeglex":
		return bivariate.WDegLex(u(p[1]), u(p[2]), x)
	case "wdegrevlex":
		return bivariate.WDegRevLex(u(p[1]), u(p[2]), x)
	}
	panic("bad order " + s)
}

// defineField builds the Go field for a model descriptor
func defineField(desc string) ff.Field {
	p := strings.Split(desc, ":")
	switch p[0] {
	case "P":
		f, err := primefield.Define(u(p[1]))
		if err != nil {
			panic("define: " + err.Error())
		}
		return f
	case "B":
		f, err := binfield.Define(uint(1) << u(p[1]))
		if err != nil {
			panic("define: " + err.Error())
		}
		if d := descOf(f); d != desc {
			panic("field descriptor mismatch: library has " + d)
		}
		return f
	case "E":
		q := uint(1)
		for i := uint(0); i < u(p[2]); i++ {
			q *= u(p[1])
		}
		f, err := extfield.Define(q)
		if err != nil {
			panic("define: " + err.Error())
		}
		if d := descOf(f); d != desc {
			panic("field descriptor mismatch: library has " + d)
		}
		return f
	}
	panic("bad field desc " + desc)
}

func encElem(e ff.Element) string {
	switch v := e.(type) {
	case *primefield.Element:
		return strconv.FormatUint(uint64(v.Uint()), 10)
	case *binfield.Element:
		return strconv.FormatUint(uint64(v.AsBits()), 10)
	case *extfield.Element:
		sl := v.AsSlice()
		s := make([]string, len(sl))
		for i, c := range sl {
			s[i] = strconv.FormatUint(uint64(c.(*primefield.Element).Uint()), 10)
		}
		return strings.Join(s, ",")
	}
	return "?"
}

func decElem(f ff.Field, s string) ff.Element {
	switch v := f.(type) {
	case *primefield.Field:
		x := u(s)
		if x >= v.Char() {
			panic("non-canonical prime element on the wire")
		}
		return v.ElementFromUnsigned(x)
	case *binfield.Field:
		return v.ElementFromBits(u(s))
	case *extfield.Field:
		parts := strings.Split(s, ",")
		sl := make([]uint, len(parts))
		for i, p := range parts {
			sl[i] = u(p)
		}
		return v.ElementFromUnsignedSlice(sl)
	}
	panic("decElem")
}

func hexOf(s string) string {
	if s == "" {
		return "EMPTY"
	}
	return hex.EncodeToString([]byte(s))
}

// runSetVar: a sequence of variable-name setter calls on one fresh ring / field
func runSetVar(t []string) string {
	res := func(err error) string {
		if err != nil {
			return "err " + kindOf(err)
		}
		return "ok"
	}
	var outs []string
	switch t[0] {
	case "u":
		f, _ := primefield.Define(7)
		r := univariate.DefRing(f)
		for _, h := range t[1:] {
			outs = append(outs, res(r.SetVarName(unhex(h))))
		}
		return strings.Join(outs, " ") + " ; " + hexOf(r.VarName()) + " ; " + hexOf(r.PolynomialFromUnsigned([]uint{1, 0, 3}).String())
	case "bin":
		f, _ := binfield.Define(8)
		for _, h := range t[1:] {
			outs = append(outs, res(f.SetVarName(unhex(h))))
		}
		return strings.Join(outs, " ") + " ; " + hexOf(f.VarName()) + " ; " + hexOf(f.ElementFromBits(6).String())
	case "b":
		f, _ := primefield.Define(7)
		r := bivariate.DefRing(f, bivariate.Lex(true))
		for _, h := range t[1:] {
			ps := strings.SplitN(h, ",", 2)
			if len(ps) < 2 {
				ps = append(ps, "")
			}
			outs = append(outs, res(r.SetVarNames([2]string{unhex(ps[0]), unhex(ps[1])})))
		}
		v := r.VarNames()
		p := r.PolynomialFromUnsigned(map[[2]uint]uint{{2, 1}: 3, {0, 1}: 1, {0, 0}: 5})
		return strings.Join(outs, " ") + " ; " + hexOf(v[0]) + "," + hexOf(v[1]) + " ; " + hexOf(p.String())
	}
	return "bad-op"
}

func runShape(t []string) string {
	f := defineField(t[0])
	switch t[1] {
	case "gen":
		return encElem(f.MultGenerator())
	case "elements":
		es := f.Elements()
		s := make([]string, len(es))
		for i, e := range es {
			s[i] = encElem(e)
		}
		sort.Strings(s)
		return strings.Join(s, " ")
	}
	return "bad-op"
}

func handle(line string) string {
	line = strings.TrimSpace(line)
	head, rest := line, ""
	if i := strings.Index(line, " | "); i >= 0 {
		head, rest = line[:i], line[i+3:]
	}
	t := strings.Fields(head)
	if len(t) == 0 {
		return "bad-op"
	}
	switch t[0] {
	case "aux":
		return runAux(t[1:])
	case "define":
		return runDefine(t[1:])
	case "conway":
		c, err := conway.Lookup(u(t[1]), u(t[2]))
		if err != nil {
			return "err " + kindOf(err)
		}
		// the returned list belongs to the caller: scribble over it and look the pair up again
		first := natsStr(c)
		for i := range c {
			c[i] = 0xdead
		}
		c2, err := conway.Lookup(u(t[1]), u(t[2]))
		if err != nil {
			return "err-second-lookup " + kindOf(err)
		}
		if natsStr(c2) != first {
			return "ok " + natsStr(c2) + " (second look-up; the first returned " + first + ")"
		}
		return "ok " + first
	case "conwayseq":
		// several look-ups in one process, in the given order (anything memoised between calls shows)
		var outs []string
		for i := 1; i+1 < len(t); i += 2 {
			c, err := conway.Lookup(u(t[i]), u(t[i+1]))
			if err != nil {
				outs = append(outs, "err "+kindOf(err))
			} else {
				outs = append(outs, "ok "+natsStr(c))
				for j := range c {
					c[j] = 0xdead
				}
			}
		}
		return strings.Join(outs, " ; ")
	case "conwayin":
		c, err := conway.LookupIn(u(t[2]), u(t[3]), unhex(t[1]))
		if err != nil {
			return "err " + kindOf(err)
		}
		return "ok " + natsStr(c)
	case "order":
		o := parseOrder(t[1])
		return strconv.Itoa(o([2]uint{u(t[2]), u(t[3])}, [2]uint{u(t[4]), u(t[5])}))
	case "setvar":
		return runSetVar(t[1:])
	case "shape":
		return runShape(t[1:])
	case "hist":
		return runHist(t[1:], rest)
	}
	return "bad-op"
}

func safeHandle(line string) (out string) {
	defer func() {
		if r := recover(); r != nil {
			msg := fmt.Sprint(r)
			if len(msg) > 120 {
				msg = msg[:120]
			}
			out = "PANIC " + strings.ReplaceAll(msg, "\n", " ")
		}
	}()
	return handle(line)
}

func main() {
	conc := flag.Bool("concurrent", false, "run the shared-object concurrency workload (C20) instead of the line protocol")
	gor := flag.Int("goroutines", 16, "goroutines of the concurrency workload")
	iters := flag.Int("iters", 25, "iterations per goroutine")
	flag.Parse()
	if *conc {
		runConcurrent(*gor, *iters)
		return
	}
	timeout := 20 * time.Second
	if s := os.Getenv("VERIF_OP_TIMEOUT_MS"); s != "" {
		if ms, err := strconv.Atoi(s); err == nil {
			timeout = time.Duration(ms) * time.Millisecond
		}
	}
	in := bufio.NewReaderSize(os.Stdin, 1<<20)
	out := bufio.NewWriterSize(os.Stdout, 1<<16)
	defer out.Flush()
	for {
		line, err := in.ReadString('\n')
		if len(line) > 0 {
			done := make(chan string, 1)
			go func(l string) { done <- safeHandle(l) }(line)
			select {
			case r := <-done:
				out.WriteString(r)
				out.WriteByte('\n')
				out.Flush()
			case <-time.After(timeout):
				out.WriteString("TIMEOUT\n")
				out.Flush()
				os.Exit(3)
			}
		}
		if err != nil {
			return
		}
	}
}
