//go:build verif

package main

import (
	"fmt"
	"sort"
	"strconv"
	"strings"

	"github.com/ReneBoedker/algobra/bivariate"
	"github.com/ReneBoedker/algobra/finitefield/binfield"
	"github.com/ReneBoedker/algobra/finitefield/extfield"
	"github.com/ReneBoedker/algobra/finitefield/ff"
	"github.com/ReneBoedker/algobra/finitefield/primefield"
	"github.com/ReneBoedker/algobra/univariate"
)

type hist struct {
	desc    string
	fields  []ff.Field // 0 = main field, 1 = a second, separately defined field object of the same kind
	foreign ff.Element
	ur      [4]*univariate.QuotientRing
	br      [3]*bivariate.QuotientRing
	ord     bivariate.Order

	extraRings []*bivariate.QuotientRing // rings created by `quotient` ops (home index 3)

	ek, uk, bk, ik []int // register keys in order of first assignment
	es             map[int]ff.Element
	us             map[int]*univariate.Polynomial
	bs             map[int]*bivariate.Polynomial
	is             map[int]*bivariate.Ideal
}

func fieldPtrOf(e ff.Element) interface{} {
	switch v := e.(type) {
	case *primefield.Element:
		return v.FieldPtr()
	case *binfield.Element:
		return v.FieldPtr()
	case *extfield.Element:
		return v.FieldPtr()
	}
	return nil
}

func (h *hist) field(i int) ff.Field {
	for len(h.fields) <= i {
		d := h.desc
		// `P:7,P:11`: field object k is defined from the k-th descriptor (further ones are twins of the first)
		if ds := strings.Split(d, ","); len(ds) > 1 {
			d = ds[0]
			if len(h.fields) < len(ds) {
				d = ds[len(h.fields)]
			}
		}
		parts := strings.Split(d, ":")
		if parts[0] == "B" && len(parts) == 4 {
			d = strings.Join(parts[:3], ":")
		}
		f := defineField(d)
		h.fields = append(h.fields, f)
	}
	return h.fields[i]
}

func (h *hist) isForeign(e ff.Element) bool {
	switch h.fields[0].(type) {
	case *primefield.Field:
		_, ok := e.(*primefield.Element)
		return !ok
	case *binfield.Field:
		_, ok := e.(*binfield.Element)
		return !ok
	case *extfield.Field:
		_, ok := e.(*extfield.Element)
		return !ok
	}
	return true
}

func (h *hist) showE(e ff.Element) string {
	if e == nil {
		return "nil"
	}
	if h.isForeign(e) {
		if e.Err() != nil {
			return "foreign!" + kindOf(e.Err())
		}
		return "foreign"
	}
	if e.Err() != nil {
		return "!" + kindOf(e.Err())
	}
	fp := fieldPtrOf(e)
	home := -1
	for i, f := range h.fields {
		if interface{}(f) == fp {
			home = i
		}
	}
	return strconv.Itoa(home) + "#" + encElem(e)
}

func (h *hist) encU(p *univariate.Polynomial) string {
	cs := p.Coefs()
	s := make([]string, len(cs))
	for i, c := range cs {
		s[i] = encElem(c)
		// accessor results belong to the caller: scribble over them (C16: no sharing with the polynomial)
		scribbleElem(c)
		cs[i] = nil
	}
	return strings.Join(s, "/")
}

func (h *hist) showU(p *univariate.Polynomial) string {
	if p == nil {
		return "nil"
	}
	if p.Err() != nil {
		return "!" + kindOf(p.Err())
	}
	home := -1
	for i, r := range h.ur {
		if r != nil && r == p.RingPtr() {
			home = i
		}
	}
	return strconv.Itoa(home) + "#" + h.encU(p)
}

func (h *hist) encB(p *bivariate.Polynomial) string {
	ds := p.SortedDegrees()
	s := make([]string, len(ds))
	for i, d := range ds {
		c := p.Coef(d)
		s[i] = fmt.Sprintf("%d:%d:%s", d[0], d[1], encElem(c))
		scribbleElem(c)
		ds[i] = [2]uint{^uint(0), ^uint(0)}
	}
	return strings.Join(s, "/")
}

func (h *hist) showB(p *bivariate.Polynomial) string {
	if p == nil {
		return "nil"
	}
	if p.Err() != nil {
		return "!" + kindOf(p.Err())
	}
	home := -1
	for i, r := range h.br {
		if r != nil && r == p.RingPtr() {
			home = i
		}
	}
	for _, r := range h.extraRings {
		if r == p.RingPtr() {
			home = 3
		}
	}
	return strconv.Itoa(home) + "#" + h.encB(p)
}

func encScr(e ff.Element) string {
	s := encElem(e)
	scribbleElem(e)
	return s
}

// Variadic arguments are passed as a prefix of a longer slice whose next entry is a sentinel: a callee that
// appends to its variadic parameter writes into the caller's slice (C16: arguments are left unchanged).
var sentinelU = &univariate.Polynomial{}
var sentinelB = &bivariate.Polynomial{}

func spreadU(gs []*univariate.Polynomial) []*univariate.Polynomial {
	all := make([]*univariate.Polynomial, len(gs)+1)
	copy(all, gs)
	all[len(gs)] = sentinelU
	return all[:len(gs)]
}

func clobberedU(gs []*univariate.Polynomial, orig []*univariate.Polynomial) bool {
	full := gs[:len(gs)+1]
	if full[len(gs)] != sentinelU {
		return true
	}
	for i := range orig {
		if gs[i] != orig[i] {
			return true
		}
	}
	return false
}

func spreadB(gs []*bivariate.Polynomial) []*bivariate.Polynomial {
	all := make([]*bivariate.Polynomial, len(gs)+1)
	copy(all, gs)
	all[len(gs)] = sentinelB
	return all[:len(gs)]
}

func clobberedB(gs []*bivariate.Polynomial, orig []*bivariate.Polynomial) bool {
	full := gs[:len(gs)+1]
	if full[len(gs)] != sentinelB {
		return true
	}
	for i := range orig {
		if gs[i] != orig[i] {
			return true
		}
	}
	return false
}

// scribbleElem changes an element in place the way a caller owning it might
func scribbleElem(e ff.Element) {
	if e == nil {
		return
	}
	defer func() { _ = recover() }()
	e.Add(e.Copy().SetUnsigned(1))
	e.Mult(e)
	e.SetNeg()
}

func (h *hist) showGens(gs []*bivariate.Polynomial) string {
	s := make([]string, len(gs))
	for i, g := range gs {
		s[i] = h.encB(g)
	}
	sort.Strings(s)
	return strings.Join(s, "|")
}

func (h *hist) snapshot() string {
	var parts []string
	for _, k := range h.ek {
		parts = append(parts, fmt.Sprintf("e%d=%s", k, h.showE(h.es[k])))
	}
	for _, k := range h.uk {
		parts = append(parts, fmt.Sprintf("p%d=%s", k, h.showU(h.us[k])))
	}
	for _, k := range h.bk {
		parts = append(parts, fmt.Sprintf("q%d=%s", k, h.showB(h.bs[k])))
	}
	for _, k := range h.ik {
		parts = append(parts, fmt.Sprintf("i%d=%s", k, h.showGens(h.is[k].Generators())))
	}
	return strings.Join(parts, " ")
}

func (h *hist) setE(k int, e ff.Element) {
	if _, ok := h.es[k]; !ok {
		h.ek = append(h.ek, k)
	}
	h.es[k] = e
}
func (h *hist) setU(k int, p *univariate.Polynomial) {
	if _, ok := h.us[k]; !ok {
		h.uk = append(h.uk, k)
	}
	h.us[k] = p
}
func (h *hist) setB(k int, p *bivariate.Polynomial) {
	if _, ok := h.bs[k]; !ok {
		h.bk = append(h.bk, k)
	}
	h.bs[k] = p
}
func (h *hist) setI(k int, id *bivariate.Ideal) {
	if _, ok := h.is[k]; !ok {
		h.ik = append(h.ik, k)
	}
	h.is[k] = id
}

func regNum(s string) int {
	n, err := strconv.Atoi(s[1:])
	if err != nil {
		panic("bad register " + s)
	}
	return n
}

func regNums(s string) []int {
	if s == "-" || s == "" {
		return nil
	}
	var out []int
	for _, p := range strings.Split(s, ",") {
		out = append(out, regNum(p))
	}
	return out
}

func atIdx(s string) int {
	if i := strings.Index(s, "@"); i >= 0 {
		n, _ := strconv.Atoi(s[i+1:])
		return n
	}
	return 0
}

func parseDeg(s string) [2]uint {
	p := strings.Split(s, ":")
	return [2]uint{u(p[0]), u(p[1])}
}

func (h *hist) decU(ring *univariate.QuotientRing, s string) *univariate.Polynomial {
	if s == "" || s == "-" {
		return ring.Polynomial(nil)
	}
	parts := strings.Split(s, "/")
	cs := make([]ff.Element, len(parts))
	for i, p := range parts {
		cs[i] = decElem(h.fields[0], p)
	}
	return ring.Polynomial(cs)
}

func (h *hist) decBmap(s string) map[[2]uint]ff.Element {
	m := map[[2]uint]ff.Element{}
	if s == "" || s == "-" {
		return m
	}
	for _, t := range strings.Split(s, "/") {
		p := strings.SplitN(t, ":", 3)
		m[[2]uint{u(p[0]), u(p[1])}] = decElem(h.fields[0], p[2])
	}
	return m
}

func newHist(fd, uSpec, bSpec string) *hist {
	h := &hist{desc: fd, es: map[int]ff.Element{}, us: map[int]*univariate.Polynomial{},
		bs: map[int]*bivariate.Polynomial{}, is: map[int]*bivariate.Ideal{}}
	h.field(0)
	switch h.fields[0].(type) {
	case *primefield.Field:
		f, _ := binfield.Define(4)
		h.foreign = f.One()
	default:
		f, _ := primefield.Define(5)
		h.foreign = f.One()
	}
	up := strings.Split(uSpec, ":")
	uVar := "X"
	if len(up) > 1 {
		uVar = unhex(up[1])
	}
	h.ur[0] = univariate.DefRing(h.fields[0])
	if err := h.ur[0].SetVarName(uVar); err != nil {
		panic("SetVarName: " + err.Error())
	}
	h.ur[2] = univariate.DefRing(h.fields[0])
	h.ur[2].SetVarName(uVar)
	if len(up) > 2 && up[2] != "-" {
		var gens []*univariate.Polynomial
		for _, g := range strings.Split(up[2], ";") {
			gens = append(gens, h.decU(h.ur[0], g))
		}
		id, err := h.ur[0].NewIdeal(gens...)
		if err != nil {
			panic("NewIdeal: " + err.Error())
		}
		qr, err := h.uQuotientTwice(h.ur[0], h.ur[0], id)
		if err != nil {
			panic("Quotient: " + err.Error())
		}
		h.ur[1] = qr
	}
	if len(up) > 3 && up[3] != "-" {
		var gens []*univariate.Polynomial
		for _, g := range strings.Split(up[3], ";") {
			gens = append(gens, h.decU(h.ur[0], g))
		}
		id, err := h.ur[0].NewIdeal(gens...)
		if err != nil {
			panic("NewIdeal: " + err.Error())
		}
		qr, err := h.uQuotientTwice(h.ur[0], h.ur[0], id)
		if err != nil {
			panic("Quotient: " + err.Error())
		}
		h.ur[3] = qr
	}
	bp := strings.SplitN(bSpec, ":", 5)
	ordS, vx, vy := "lex.1", "X", "Y"
	if len(bp) > 3 {
		ordS, vx, vy = bp[1], unhex(bp[2]), unhex(bp[3])
	}
	h.ord = parseOrder(ordS)
	h.br[0] = bivariate.DefRing(h.fields[0], h.ord)
	if err := h.br[0].SetVarNames([2]string{vx, vy}); err != nil {
		panic("SetVarNames: " + err.Error())
	}
	h.br[2] = bivariate.DefRing(h.fields[0], h.ord)
	h.br[2].SetVarNames([2]string{vx, vy})
	if len(bp) > 4 && bp[4] != "-" {
		var gens []*bivariate.Polynomial
		for _, g := range strings.Split(bp[4], ";") {
			gens = append(gens, h.br[0].Polynomial(h.decBmap(g)))
		}
		id, err := h.br[0].NewIdeal(gens...)
		if err != nil {
			panic("NewIdeal: " + err.Error())
		}
		qr, err := h.br[0].Quotient(id)
		if err != nil {
			panic("Quotient: " + err.Error())
		}
		h.br[1] = qr
	}
	if parts := strings.Split(strings.Split(fd, ",")[0], ":"); parts[0] == "B" && len(parts) == 4 {
		// binfield.SetVarName: the field variable is renamed AFTER the field and the rings of this history
		// have been used for parsing once (anything cached per field/ring must notice the new name)
		bf := h.fields[0].(*binfield.Field)
		_, _ = bf.ElementFromString("a + 1")
		_, _ = h.ur[0].PolynomialFromString("(a + 1)" + uVar + " + a")
		_, _ = h.br[0].PolynomialFromString("(a + 1)" + vx + vy + " + a")
		if err := bf.SetVarName(unhex(parts[3])); err != nil {
			panic("SetVarName: " + err.Error())
		}
	}
	// requests that are REFUSED leave nothing behind (round 10, C15-R10: a refused binfield.SetVarName("0") left a parser
	// compiled for the refused name): every history starts with refused renames of the field and of the univariate ring;
	// the model's setters return the unchanged name on refusal (Props/C17Names.lean)
	if bf, ok := h.fields[0].(*binfield.Field); ok {
		for _, bad := range []string{"0", "1", " 0 ", "", " \t"} {
			if err := bf.SetVarName(bad); err == nil {
				panic("binfield.SetVarName accepted the name " + strconv.Quote(bad))
			}
		}
	}
	for _, bad := range []string{"", " \t "} {
		if err := h.ur[0].SetVarName(bad); err == nil {
			panic("univariate SetVarName accepted the name " + strconv.Quote(bad))
		}
	}
	return h
}

// uQuotientTwice calls r.Quotient(id) and, when that succeeds, calls it a second time with the SAME ideal object
// (result discarded) and then looks at the ideal: Quotient is a value-returning operation (C16), so its argument must
// be unchanged — same generator, still an object of the ring `home` it was created in — and the first quotient ring
// must not notice the second call. (Round 9, C16-R9b: Ideal.Copy sharing the generator that Quotient re-labels.)
func (h *hist) uQuotientTwice(r, home *univariate.QuotientRing, id *univariate.Ideal) (*univariate.QuotientRing, error) {
	before := h.showU(id.Generator())
	qr, err := r.Quotient(id)
	if err != nil {
		return qr, err
	}
	if _, err2 := r.Quotient(id); err2 != nil {
		panic("CLOBBERED: a second Quotient with the same ideal object fails: " + kindOf(err2))
	}
	if after := h.showU(id.Generator()); after != before {
		panic("CLOBBERED: Quotient changed the generator of its ideal argument: " + before + " -> " + after)
	}
	if s := id.Generator().Plus(home.Zero()); s.Err() != nil {
		panic("CLOBBERED: after Quotient the generator of the ideal argument no longer belongs to its ring: " + kindOf(s.Err()))
	}
	if one := qr.One(); one.Times(one).Err() != nil {
		panic("CLOBBERED: the first quotient ring is disturbed by a second Quotient with the same ideal object")
	}
	return qr, nil
}

func ret(isRecv bool, s string) string {
	if isRecv {
		return "recv " + s
	}
	return "other " + s
}

func contains(l []string, s string) bool {
	for _, x := range l {
		if x == s {
			return true
		}
	}
	return false
}

func (h *hist) step(line string) (out string) {
	defer func() {
		if r := recover(); r != nil {
			msg := fmt.Sprint(r)
			if len(msg) > 100 {
				msg = msg[:100]
			}
			out = "PANIC " + strings.ReplaceAll(strings.ReplaceAll(msg, "\n", " "), "|", "/")
		}
	}()
	t := strings.Fields(line)
	if len(t) == 0 {
		return "bad-op"
	}
	arg := func(i int) string {
		if i < len(t) {
			return t[i]
		}
		return ""
	}
	if strings.Contains(t[0], "=") {
		eq := strings.SplitN(t[0], "=", 2)
		dstS, opAt := eq[0], eq[1]
		op := opAt
		if i := strings.Index(opAt, "@"); i >= 0 {
			op = opAt[:i]
		}
		idx := atIdx(opAt)
		k := dstS[0]
		dsts := regNums(dstS)
		dst := dsts[0]
		a0, a1, a2 := arg(1), arg(2), arg(3)
		switch {
		case op == "quorem" && k == 'p':
			var gs []*univariate.Polynomial
			for _, g := range t[2:] {
				gs = append(gs, h.us[regNum(g)])
			}
			sp := spreadU(gs)
			q, r, err := h.us[regNum(a0)].QuoRem(sp...)
			if clobberedU(sp, gs) {
				return "CLOBBERED the caller's argument slice"
			}
			if err != nil {
				return "err " + kindOf(err)
			}
			outs := append(q, r)
			var ss []string
			for i, o := range outs {
				if i < len(dsts) {
					h.setU(dsts[i], o)
				}
				ss = append(ss, h.encU(o))
			}
			return "ok " + strings.Join(ss, " ")
		case op == "spoly" && k == 'q':
			r, err := bivariate.SPolynomial(h.bs[regNum(a0)], h.bs[regNum(a1)])
			if err != nil {
				return "err " + kindOf(err)
			}
			h.setB(dst, r)
			return "ok " + h.showB(r)
		case op == "quorem" && k == 'q':
			var gs []*bivariate.Polynomial
			for _, g := range t[2:] {
				gs = append(gs, h.bs[regNum(g)])
			}
			sp := spreadB(gs)
			q, r, err := h.bs[regNum(a0)].QuoRem(sp...)
			if clobberedB(sp, gs) {
				return "CLOBBERED the caller's argument slice"
			}
			if err != nil {
				return "err " + kindOf(err)
			}
			outs := append(q, r)
			var ss []string
			for i, o := range outs {
				if i < len(dsts) {
					h.setB(dsts[i], o)
				}
				ss = append(ss, h.encB(o))
			}
			return "ok " + strings.Join(ss, " ")
		case op == "gens":
			gs := h.is[regNum(a0)].Generators()
			for i, g := range gs {
				if i < len(dsts) {
					h.setB(dsts[i], g)
				}
			}
			return "ok " + strconv.Itoa(len(gs))
		case k == 'e':
			switch {
			case strings.HasPrefix(op, "any"):
				// the generic constructor Field.Element(interface{})
				f := h.field(idx)
				var v interface{}
				items := []string{}
				if a0 != "-" && a0 != "" {
					items = strings.Split(a0, ".")
				}
				switch op {
				case "anyu":
					v = u(a0)
				case "anyi":
					v = i64(a0)
				case "anystr":
					v = unhex(a0)
				case "anysl":
					sl := make([]uint, len(items))
					for i, t := range items {
						sl[i] = u(t)
					}
					v = sl
				case "anyisl":
					sl := make([]int, len(items))
					for i, t := range items {
						sl[i] = i64(t)
					}
					v = sl
				case "anyf64":
					v = 1.5
				case "anyi32":
					v = int32(3)
				case "anyu8":
					v = uint8(3)
				case "anynil":
					v = nil
				case "anyelem":
					v = f.One()
				default:
					return "bad-op"
				}
				e, err := f.Element(v)
				if err != nil {
					return "err " + kindOf(err)
				}
				h.setE(dst, e)
				return "ok " + h.showE(e)
			case contains([]string{"u", "s", "enc", "str", "zero", "one", "gen", "foreign"}, op):
				f := h.field(idx)
				var e ff.Element
				switch op {
				case "u":
					e = f.ElementFromUnsigned(u(a0))
				case "s":
					e = f.ElementFromSigned(i64(a0))
				case "zero":
					e = f.Zero()
				case "one":
					e = f.One()
				case "gen":
					e = f.MultGenerator()
				case "enc":
					e = decElem(f, a0)
				case "foreign":
					e = h.foreign.Copy()
				case "str":
					var err error
					e, err = f.ElementFromString(unhex(a0))
					if err != nil {
						return "err " + kindOf(err)
					}
				}
				h.setE(dst, e)
				return "ok " + h.showE(e)
			case contains([]string{"plus", "minus", "times"}, op) && a0[0] == 'e':
				a, b := h.es[regNum(a0)], h.es[regNum(a1)]
				var r ff.Element
				switch op {
				case "plus":
					r = a.Plus(b)
				case "minus":
					r = a.Minus(b)
				case "times":
					r = a.Times(b)
				}
				h.setE(dst, r)
				return "ok " + h.showE(r)
			case contains([]string{"neg", "inv", "copy", "trace"}, op):
				a := h.es[regNum(a0)]
				var r ff.Element
				switch op {
				case "neg":
					r = a.Neg()
				case "inv":
					r = a.Inv()
				case "copy":
					r = a.Copy()
				case "trace":
					r = a.Trace()
				}
				h.setE(dst, r)
				return "ok " + h.showE(r)
			case op == "pow":
				r := h.es[regNum(a0)].Pow(u(a1))
				h.setE(dst, r)
				return "ok " + h.showE(r)
			case op == "eval":
				var r ff.Element
				if a0[0] == 'p' {
					r = h.us[regNum(a0)].Eval(h.es[regNum(a1)])
				} else {
					r = h.bs[regNum(a0)].Eval([2]ff.Element{h.es[regNum(a1)], h.es[regNum(a2)]})
				}
				h.setE(dst, r)
				return "ok " + h.showE(r)
			case op == "coef":
				var r ff.Element
				if a0[0] == 'p' {
					r = h.us[regNum(a0)].Coef(i64(a1))
				} else {
					r = h.bs[regNum(a0)].Coef(parseDeg(a1))
				}
				h.setE(dst, r)
				return "ok " + h.showE(r)
			case op == "lc":
				var r ff.Element
				if a0[0] == 'p' {
					r = h.us[regNum(a0)].Lc()
				} else {
					r = h.bs[regNum(a0)].Lc()
				}
				h.setE(dst, r)
				return "ok " + h.showE(r)
			}
		case k == 'p':
			switch {
			case contains([]string{"coefs", "nats", "ints", "str", "zero", "one", "regs", "ideal"}, op):
				R := h.ur[idx]
				var p *univariate.Polynomial
				switch op {
				case "regs":
					var cs []ff.Element
					for _, k := range regNums(a0) {
						cs = append(cs, h.es[k])
					}
					p = R.Polynomial(cs)
				case "ideal":
					var gs []*univariate.Polynomial
					for _, k := range regNums(a0) {
						gs = append(gs, h.us[k])
					}
					sp := spreadU(gs)
					id, err := R.NewIdeal(sp...)
					if clobberedU(sp, gs) {
						return "CLOBBERED the caller's argument slice"
					}
					if err != nil {
						return "err " + kindOf(err)
					}
					p = id.Generator()
				case "coefs":
					p = h.decU(R, a0)
				case "nats":
					var cs []uint
					if a0 != "" && a0 != "-" {
						for _, x := range strings.Split(a0, ",") {
							cs = append(cs, u(x))
						}
					}
					p = R.PolynomialFromUnsigned(cs)
				case "ints":
					var cs []int
					if a0 != "" && a0 != "-" {
						for _, x := range strings.Split(a0, ",") {
							cs = append(cs, i64(x))
						}
					}
					p = R.PolynomialFromSigned(cs)
				case "zero":
					p = R.Zero()
				case "one":
					p = R.One()
				case "str":
					var err error
					p, err = R.PolynomialFromString(unhex(a0))
					if err != nil {
						h.setU(dst, p)
						return "err " + kindOf(err)
					}
				}
				h.setU(dst, p)
				return "ok " + h.showU(p)
			case contains([]string{"plus", "minus", "times"}, op):
				a, b := h.us[regNum(a0)], h.us[regNum(a1)]
				var r *univariate.Polynomial
				switch op {
				case "plus":
					r = a.Plus(b)
				case "minus":
					r = a.Minus(b)
				case "times":
					r = a.Times(b)
				}
				h.setU(dst, r)
				return "ok " + h.showU(r)
			case contains([]string{"neg", "normalize", "copy", "lt"}, op):
				a := h.us[regNum(a0)]
				var r *univariate.Polynomial
				switch op {
				case "neg":
					r = a.Neg()
				case "normalize":
					r = a.Normalize()
				case "copy":
					r = a.Copy()
				case "lt":
					r = a.Lt()
				}
				h.setU(dst, r)
				return "ok " + h.showU(r)
			case op == "scale":
				r := h.us[regNum(a0)].Scale(h.es[regNum(a1)])
				h.setU(dst, r)
				return "ok " + h.showU(r)
			case op == "pow":
				r := h.us[regNum(a0)].Pow(u(a1))
				h.setU(dst, r)
				return "ok " + h.showU(r)
			case op == "gcd":
				var gs []*univariate.Polynomial
				for _, g := range t[1:] {
					gs = append(gs, h.us[regNum(g)])
				}
				sp := spreadU(gs[1:])
				r, err := univariate.Gcd(gs[0], sp...)
				if clobberedU(sp, gs[1:]) {
					return "CLOBBERED the caller's argument slice"
				}
				if err != nil {
					return "err " + kindOf(err)
				}
				h.setU(dst, r)
				return "ok " + h.showU(r)
			case op == "interp":
				var ps, vs []ff.Element
				for _, k := range regNums(a0) {
					ps = append(ps, h.es[k])
				}
				for _, k := range regNums(a1) {
					vs = append(vs, h.es[k])
				}
				r, err := h.ur[idx].Interpolate(ps, vs)
				if err != nil {
					return "err " + kindOf(err)
				}
				h.setU(dst, r)
				return "ok " + h.showU(r)
			}
		case k == 'q':
			switch {
			case contains([]string{"map", "nats", "ints", "str", "zero", "regs", "embed"}, op):
				var R *bivariate.QuotientRing
				if idx == 3 {
					// the ring made by the last successful `quotient` operation
					if len(h.extraRings) == 0 || op != "embed" {
						return "bad-op"
					}
					R = h.extraRings[len(h.extraRings)-1]
				} else {
					R = h.br[idx]
				}
				var p *bivariate.Polynomial
				switch op {
				case "embed":
					pp := strings.Split(a0, ":")
					p = h.bs[regNum(pp[0])].Copy()
					if err := p.EmbedIn(R, pp[1] == "1"); err != nil {
						return "err " + kindOf(err)
					}
				case "regs":
					m := map[[2]uint]ff.Element{}
					if a0 != "" && a0 != "-" {
						for _, tr := range strings.Split(a0, "/") {
							pp := strings.Split(tr, ":")
							m[[2]uint{u(pp[0]), u(pp[1])}] = h.es[regNum(pp[2])]
						}
					}
					p = R.Polynomial(m)
				case "map":
					p = R.Polynomial(h.decBmap(a0))
				case "nats":
					m := map[[2]uint]uint{}
					if a0 != "" && a0 != "-" {
						for _, tr := range strings.Split(a0, "/") {
							pp := strings.Split(tr, ":")
							m[[2]uint{u(pp[0]), u(pp[1])}] = u(pp[2])
						}
					}
					p = R.PolynomialFromUnsigned(m)
				case "ints":
					m := map[[2]uint]int{}
					if a0 != "" && a0 != "-" {
						for _, tr := range strings.Split(a0, "/") {
							pp := strings.Split(tr, ":")
							m[[2]uint{u(pp[0]), u(pp[1])}] = i64(pp[2])
						}
					}
					p = R.PolynomialFromSigned(m)
				case "zero":
					p = R.Zero()
				case "str":
					var err error
					p, err = R.PolynomialFromString(unhex(a0))
					if err != nil {
						h.setB(dst, p)
						return "err " + kindOf(err)
					}
				}
				h.setB(dst, p)
				return "ok " + h.showB(p)
			case contains([]string{"plus", "minus", "times"}, op):
				a, b := h.bs[regNum(a0)], h.bs[regNum(a1)]
				var r *bivariate.Polynomial
				switch op {
				case "plus":
					r = a.Plus(b)
				case "minus":
					r = a.Minus(b)
				case "times":
					r = a.Times(b)
				}
				h.setB(dst, r)
				return "ok " + h.showB(r)
			case contains([]string{"neg", "normalize", "copy", "lt"}, op):
				a := h.bs[regNum(a0)]
				var r *bivariate.Polynomial
				switch op {
				case "neg":
					r = a.Neg()
				case "normalize":
					r = a.Normalize()
				case "copy":
					r = a.Copy()
				case "lt":
					r = a.Lt()
				}
				h.setB(dst, r)
				return "ok " + h.showB(r)
			case op == "scale":
				r := h.bs[regNum(a0)].Scale(h.es[regNum(a1)])
				h.setB(dst, r)
				return "ok " + h.showB(r)
			case op == "pow":
				r := h.bs[regNum(a0)].Pow(u(a1))
				h.setB(dst, r)
				return "ok " + h.showB(r)
			case op == "rem":
				var gs []*bivariate.Polynomial
				for _, g := range t[2:] {
					gs = append(gs, h.bs[regNum(g)])
				}
				sp := spreadB(gs)
				r, err := h.bs[regNum(a0)].Rem(sp...)
				if clobberedB(sp, gs) {
					return "CLOBBERED the caller's argument slice"
				}
				if err != nil {
					return "err " + kindOf(err)
				}
				h.setB(dst, r)
				return "ok " + h.encB(r)
			case op == "interp":
				xs, ys, vs := regNums(a0), regNums(a1), regNums(a2)
				var pts [][2]ff.Element
				for i := range xs {
					pts = append(pts, [2]ff.Element{h.es[xs[i]], h.es[ys[i]]})
				}
				var vals []ff.Element
				for _, k := range vs {
					vals = append(vals, h.es[k])
				}
				r, err := h.br[idx].Interpolate(pts, vals)
				if err != nil {
					return "err " + kindOf(err)
				}
				h.setB(dst, r)
				return "ok " + h.showB(r)
			}
		case k == 'i':
			switch op {
			case "ideal":
				var gs []*bivariate.Polynomial
				for _, g := range t[1:] {
					gs = append(gs, h.bs[regNum(g)])
				}
				sp := spreadB(gs)
				id, err := h.br[idx].NewIdeal(sp...)
				if clobberedB(sp, gs) {
					return "CLOBBERED the caller's argument slice"
				}
				if err != nil {
					return "err " + kindOf(err)
				}
				h.setI(dst, id)
				return "ok " + h.showGens(id.Generators())
			case "icopy":
				id := h.is[regNum(a0)].Copy()
				h.setI(dst, id)
				return "ok " + flagsStr(id)
			case "groebner":
				id := h.is[regNum(a0)].GroebnerBasis()
				h.setI(dst, id)
				return "ok " + h.showGens(id.Generators())
			}
		}
		return "bad-op"
	}
	op := t[0]
	if i := strings.Index(op, "@"); i >= 0 {
		op = op[:i]
	}
	a0, a1, a2 := arg(1), arg(2), arg(3)
	if op == "uquot" {
		// uquot@k j:<gens>: ring k modulo an ideal created in ring j
		k := atIdx(t[0])
		ps := strings.SplitN(a0, ":", 2)
		j, _ := strconv.Atoi(ps[0])
		if h.ur[k] == nil || h.ur[j] == nil || len(ps) < 2 {
			return "bad-op"
		}
		var gens []*univariate.Polynomial
		for _, g := range strings.Split(ps[1], ";") {
			gens = append(gens, h.decU(h.ur[j], g))
		}
		id, err := h.ur[j].NewIdeal(gens...)
		if err != nil {
			return "err-ideal " + kindOf(err)
		}
		if _, err := h.uQuotientTwice(h.ur[k], h.ur[j], id); err != nil {
			return "err " + kindOf(err)
		}
		return "ok"
	}
	if op == "uireduce" {
		ps := strings.SplitN(a0, ":", 2)
		j, _ := strconv.Atoi(ps[0])
		if h.ur[j] == nil || len(ps) < 2 {
			return "bad-op"
		}
		var gens []*univariate.Polynomial
		for _, g := range strings.Split(ps[1], ";") {
			gens = append(gens, h.decU(h.ur[j], g))
		}
		id, err := h.ur[j].NewIdeal(gens...)
		if err != nil {
			return "err-ideal " + kindOf(err)
		}
		f := h.us[regNum(a1)]
		if err := id.Reduce(f); err != nil {
			return "err " + kindOf(err)
		}
		return "ok " + h.showU(f)
	}
	if op == "ireduce" {
		id, f := h.is[regNum(a0)], h.bs[regNum(a1)]
		if err := id.Reduce(f); err != nil {
			return "err " + kindOf(err)
		}
		return "ok " + h.showB(f)
	}
	if op == "tcheck" {
		// every element of field object k (with whatever tables it has) against field object 1 (a twin defined from
		// the same descriptor, never given tables): x*g, x^-1, x*1
		k := atIdx(t[0])
		f, twin := h.field(k), h.field(1)
		if k == 1 {
			return "bad-op"
		}
		es := f.Elements()
		g, tg, one := f.MultGenerator(), twin.MultGenerator(), f.One()
		bad := 0
		for _, e := range es {
			te := decElem(twin, encElem(e))
			if encElem(e.Times(g)) != encElem(te.Times(tg)) || encElem(e.Times(one)) != encElem(e) {
				bad++
				continue
			}
			if e.IsNonzero() && encElem(e.Inv()) != encElem(te.Inv()) {
				bad++
			}
		}
		return "ok " + strconv.Itoa(bad) + " of " + strconv.Itoa(len(es))
	}
	if op == "escr" {
		// Elements() is a value-returning accessor: whatever the caller does to the returned objects and to the
		// returned slice must not reach the field (e.g. its tables)
		f := h.field(atIdx(t[0]))
		es := f.Elements()
		n := len(es)
		for i, e := range es {
			scribbleElem(e)
			es[i] = nil
		}
		return "ok " + strconv.Itoa(n)
	}
	if op == "tables" {
		f := h.field(atIdx(t[0]))
		var mm []uint
		if a2 != "-" && a2 != "" {
			mm = append(mm, u(a2))
		}
		var err error
		switch v := f.(type) {
		case *primefield.Field:
			err = v.ComputeTables(a0 == "1", a1 == "1", mm...)
		case *extfield.Field:
			err = v.ComputeMultTable(mm...)
		}
		if err != nil {
			return "err " + kindOf(err)
		}
		return "ok"
	}
	if a0 == "" {
		return "bad-op"
	}
	switch a0[0] {
	case 'e':
		a := h.es[regNum(a0)]
		switch op {
		case "add", "sub", "mult":
			b := h.es[regNum(a1)]
			var r ff.Element
			switch op {
			case "add":
				r = a.Add(b)
			case "sub":
				r = a.Sub(b)
			case "mult":
				r = a.Mult(b)
			}
			return ret(r == a, h.showE(r))
		case "prod":
			r := a.Prod(h.es[regNum(a1)], h.es[regNum(a2)])
			return ret(r == a, h.showE(r))
		case "setneg":
			r := a.SetNeg()
			return ret(r == a, h.showE(r))
		case "setu":
			r := a.SetUnsigned(u(a1))
			return ret(r == a, h.showE(r))
		case "eq":
			return "eq " + strconv.FormatBool(a.Equal(h.es[regNum(a1)]))
		case "show":
			return fmt.Sprintf("show z=%v o=%v n=%d s=%s", a.IsZero(), a.IsOne(), a.NTerms(), a.String())
		}
	case 'p':
		a := h.us[regNum(a0)]
		switch op {
		case "add", "sub", "mult":
			b := h.us[regNum(a1)]
			var r *univariate.Polynomial
			switch op {
			case "add":
				r = a.Add(b)
			case "sub":
				r = a.Sub(b)
			case "mult":
				r = a.Mult(b)
			}
			return ret(r == a, h.showU(r))
		case "setneg":
			r := a.SetNeg()
			return ret(r == a, h.showU(r))
		case "setscale":
			r := a.SetScale(h.es[regNum(a1)])
			return ret(r == a, h.showU(r))
		case "setcoef":
			r := a.SetCoef(i64(a1), h.es[regNum(a2)])
			return ret(r == a, h.showU(r))
		case "setcoefp":
			// the exported SetCoefPtr with a fresh copy of the element (its documented pointer semantics then cannot
			// matter): must behave exactly like SetCoef
			r := a.SetCoefPtr(i64(a1), h.es[regNum(a2)].Copy())
			return ret(r == a, h.showU(r))
		case "inc":
			a.IncrementCoef(i64(a1), h.es[regNum(a2)])
			return ret(true, h.showU(a))
		case "dec":
			a.DecrementCoef(i64(a1), h.es[regNum(a2)])
			return ret(true, h.showU(a))
		case "setzero":
			a.SetZero()
			return ret(true, h.showU(a))
		case "embed":
			err := a.EmbedIn(h.ur[atIdx(a1)], a2 == "1")
			if err != nil {
				return "err " + kindOf(err)
			}
			return "ok " + h.showU(a)
		case "eq":
			return "eq " + strconv.FormatBool(a.Equal(h.us[regNum(a1)]))
		case "obs":
			ds := a.Degrees()
			ss := make([]string, len(ds))
			for i, d := range ds {
				ss[i] = strconv.Itoa(d)
			}
			return fmt.Sprintf("obs ld=%d lc=%s degs=%s n=%d z=%v o=%v m=%v s=%s", a.Ld(), encScr(a.Lc()),
				strings.Join(ss, ","), a.NTerms(), a.IsZero(), a.IsOne(), a.IsMonomial(), a.String())
		}
	case 'q':
		a := h.bs[regNum(a0)]
		switch op {
		case "add", "sub", "mult":
			b := h.bs[regNum(a1)]
			var r *bivariate.Polynomial
			switch op {
			case "add":
				r = a.Add(b)
			case "sub":
				r = a.Sub(b)
			case "mult":
				r = a.Mult(b)
			}
			return ret(r == a, h.showB(r))
		case "setscale":
			r := a.SetScale(h.es[regNum(a1)])
			return ret(r == a, h.showB(r))
		case "setcoef":
			a.SetCoef(parseDeg(a1), h.es[regNum(a2)])
			return ret(true, h.showB(a))
		case "setcoefp":
			a.SetCoefPtr(parseDeg(a1), h.es[regNum(a2)].Copy())
			return ret(true, h.showB(a))
		case "inc":
			a.IncrementCoef(parseDeg(a1), h.es[regNum(a2)])
			return ret(true, h.showB(a))
		case "dec":
			a.DecrementCoef(parseDeg(a1), h.es[regNum(a2)])
			return ret(true, h.showB(a))
		case "eq":
			return "eq " + strconv.FormatBool(a.Equal(h.bs[regNum(a1)]))
		case "obs":
			ld := a.Ld()
			return fmt.Sprintf("obs ld=%d:%d lc=%s z=%v m=%v lt=%s s=%s", ld[0], ld[1], encScr(a.Lc()),
				a.IsZero(), a.IsMonomial(), h.encB(a.Lt()), a.String())
		}
	case 'i':
		id := h.is[regNum(a0)]
		switch op {
		case "isgroebner":
			return "pred " + strconv.FormatBool(id.IsGroebner())
		case "isminimal":
			return "pred " + strconv.FormatBool(id.IsMinimal())
		case "isreduced":
			return "pred " + strconv.FormatBool(id.IsReduced())
		case "minimize":
			if err := id.MinimizeBasis(); err != nil {
				return "err " + kindOf(err)
			}
			return "ok"
		case "reducebasis":
			if err := id.ReduceBasis(); err != nil {
				return "err " + kindOf(err)
			}
			return "ok"
		case "quotient":
			if k := atIdx(t[0]); k != 0 {
				// quotient of a quotient ring (ring 1), or of a ring the ideal does not belong to (ring 2)
				if h.br[k] == nil {
					return "bad-op"
				}
				_, err := h.br[k].Quotient(id)
				if err != nil {
					return "err " + kindOf(err)
				}
				return "ok"
			}
			qr, err := h.br[0].Quotient(id)
			if err != nil {
				return "err " + kindOf(err)
			}
			h.extraRings = append(h.extraRings, qr)
			return "ok"
		case "obs":
			return "obs " + flagsStr(id) + " gens=" + h.showGens(id.Generators())
		}
	}
	return "bad-op"
}

func flagsStr(id *bivariate.Ideal) string {
	a, b, c := id.Flags()
	return fmt.Sprintf("flags=%d,%d,%d", a, b, c)
}

func runHist(t []string, rest string) string {
	if len(t) != 4 {
		return "bad-hist-header"
	}
	h := newHist(t[0], t[1], t[2])
	snap := t[3] == "1"
	var outs []string
	for _, op := range strings.Split(rest, "|") {
		op = strings.TrimSpace(op)
		if op == "" {
			continue
		}
		r := h.step(op)
		if snap {
			r += " ## " + h.safeSnapshot()
		}
		outs = append(outs, r)
	}
	res := strings.Join(outs, " | ")
	if !snap {
		res += " ## " + h.safeSnapshot()
	}
	return res
}

func (h *hist) safeSnapshot() (s string) {
	defer func() {
		if r := recover(); r != nil {
			s = "SNAPSHOT-PANIC"
		}
	}()
	return h.snapshot()
}
