module algobra-verif/harness

go 1.23

require github.com/ReneBoedker/algobra v0.0.0

replace github.com/ReneBoedker/algobra => /repo
