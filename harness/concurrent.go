//go:build verif

package main

import (
	"flag"
	"fmt"
	"math/rand"
	"os"
	"strconv"
	"strings"
	"sync"

	"github.com/ReneBoedker/algobra/bivariate"
	"github.com/ReneBoedker/algobra/finitefield"
	"github.com/ReneBoedker/algobra/finitefield/extfield"
	"github.com/ReneBoedker/algobra/finitefield/ff"
	"github.com/ReneBoedker/algobra/finitefield/primefield"
	"github.com/ReneBoedker/algobra/univariate"
)

// shared: objects constructed once (tables computed where applicable) and then only used
type shared struct {
	name  string
	f     ff.Field
	ur    *univariate.QuotientRing
	uq    *univariate.QuotientRing
	br    *bivariate.QuotientRing
	bq    *bivariate.QuotientRing
	bq2   *bivariate.QuotientRing // quotient by a principal ideal (a plane curve), nothing asked of its ideal before
	ops   []ff.Element           // shared error-free operands, used only as arguments
	upoly *univariate.Polynomial // shared operand
	bpoly *bivariate.Polynomial
}

func mkShared(q uint, tables bool) *shared {
	f, err := finitefield.Define(q)
	if err != nil {
		panic(err)
	}
	if tables {
		switch v := f.(type) {
		case *primefield.Field:
			if err := v.ComputeTables(true, true); err != nil {
				panic(err)
			}
		case *extfield.Field:
			if err := v.ComputeMultTable(); err != nil {
				panic(err)
			}
		}
	}
	s := &shared{name: fmt.Sprintf("GF(%d) tables=%v", q, tables), f: f}
	s.ur = univariate.DefRing(f)
	g := s.ur.PolynomialFromUnsigned([]uint{1, 1, 0, 1})
	id, err := s.ur.NewIdeal(g)
	if err != nil {
		panic(err)
	}
	s.uq, err = s.ur.Quotient(id)
	if err != nil {
		panic(err)
	}
	s.br = bivariate.DefRing(f, bivariate.WDegLex(2, 3, false))
	g1 := s.br.PolynomialFromUnsigned(map[[2]uint]uint{{2, 0}: 1, {0, 1}: 1})
	g2 := s.br.PolynomialFromUnsigned(map[[2]uint]uint{{1, 1}: 1, {0, 0}: 1})
	bid, err := s.br.NewIdeal(g1, g2)
	if err != nil {
		panic(err)
	}
	s.bq, err = s.br.Quotient(bid)
	if err != nil {
		panic(err)
	}
	curve := s.br.PolynomialFromUnsigned(map[[2]uint]uint{{0, 2}: 1, {3, 0}: 1, {0, 0}: 1})
	cid, err := s.br.NewIdeal(curve)
	if err != nil {
		panic(err)
	}
	s.bq2, err = s.br.Quotient(cid)
	if err != nil {
		panic(err)
	}
	for i := uint(0); i < 5; i++ {
		// no MultGenerator() here: the set-up must not warm anything that the goroutines' FIRST calls could write
		// (seeded change C20-R7b: the generator memoised in the shared Field)
		s.ops = append(s.ops, f.ElementFromUnsigned(i+1).Times(f.ElementFromUnsigned(i+2)))
	}
	s.upoly = s.ur.PolynomialFromUnsigned([]uint{3, 1, 4, 1, 5})
	s.bpoly = s.br.PolynomialFromUnsigned(map[[2]uint]uint{{1, 2}: 3, {2, 1}: 1, {0, 0}: 2})
	return s
}

// work performs a deterministic (seeded) computation over the shared objects and returns a digest
func work(s *shared, seed int64, iters int) string {
	rng := rand.New(rand.NewSource(seed))
	var sb strings.Builder
	f := s.f
	for it := 0; it < iters; it++ {
		a := f.ElementFromUnsigned(uint(rng.Intn(1000)))
		b := s.ops[rng.Intn(len(s.ops))]
		c := a.Plus(b).Times(b).Minus(a)
		if c.IsNonzero() {
			c = c.Inv().Pow(uint(rng.Intn(50)))
		}
		c.Add(b)
		c.Mult(b)
		if b.IsNonzero() {
			// division idiom: the inverse is modified in place
			d := b.Inv()
			d.Mult(a)
			d.Add(c)
			sb.WriteString(d.String())
			sb.WriteString(b.Times(b.Inv()).String())
		}
		sb.WriteString(c.String())
		sb.WriteString(c.Trace().String())
		if e, err := f.ElementFromString(c.String()); err == nil {
			sb.WriteString(e.String())
		}
		_ = f.RandElement()
		if it%4 == 0 {
			// the first calls of MultGenerator on the shared field come from the goroutines
			sb.WriteString(c.Times(f.MultGenerator()).String())
		}
		if it%8 == 0 && f.Card() <= 64 {
			sb.WriteString(strconv.Itoa(len(f.Elements())))
		}
		// univariate
		p := s.ur.PolynomialFromUnsigned([]uint{uint(rng.Intn(9)), uint(rng.Intn(9)), 1})
		p2 := p.Times(s.upoly).Plus(s.upoly)
		sb.WriteString(p2.String())
		sb.WriteString(p2.Eval(b).String())
		if pp, err := s.ur.PolynomialFromString(p2.String()); err == nil {
			sb.WriteString(pp.String())
		}
		qp := s.uq.PolynomialFromUnsigned([]uint{1, uint(rng.Intn(5)), 2, 3, 1, 1})
		sb.WriteString(qp.Times(qp).Pow(3).String())
		if qr, r, err := p2.QuoRem(p); err == nil {
			sb.WriteString(qr[0].String() + r.String())
		}
		pts := []ff.Element{f.ElementFromUnsigned(0), f.ElementFromUnsigned(1)}
		if ip, err := s.ur.Interpolate(pts, []ff.Element{a, b}); err == nil {
			sb.WriteString(ip.String())
		}
		// bivariate
		q := s.br.PolynomialFromUnsigned(map[[2]uint]uint{{1, 0}: uint(rng.Intn(7) + 1), {0, 2}: 1})
		q2 := q.Times(s.bpoly).Minus(s.bpoly)
		sb.WriteString(q2.String())
		sb.WriteString(q2.Eval([2]ff.Element{a, b}).String())
		if qq, err := s.br.PolynomialFromString(q2.String()); err == nil {
			sb.WriteString(qq.String())
		}
		qq := s.bq.PolynomialFromUnsigned(map[[2]uint]uint{{3, 1}: 1, {1, 2}: uint(rng.Intn(4) + 1), {0, 0}: 1})
		sb.WriteString(qq.Times(qq).String())
		qc := s.bq2.PolynomialFromUnsigned(map[[2]uint]uint{{1, 3}: 1, {2, 2}: uint(rng.Intn(4) + 1), {0, 0}: 1})
		sb.WriteString(qc.Times(qc).String())
		if r, err := q2.Rem(q); err == nil {
			sb.WriteString(r.String())
		}
	}
	return fmt.Sprintf("%x", fnv(sb.String()))
}

func fnv(s string) uint64 {
	h := uint64(14695981039346656037)
	for i := 0; i < len(s); i++ {
		h ^= uint64(s[i])
		h *= 1099511628211
	}
	return h
}

func runConcurrent(goroutines, iters int) {
	seed := int64(1)
	if s := os.Getenv("VERIF_SEED"); s != "" {
		if v, err := strconv.ParseInt(s, 10, 64); err == nil {
			seed = v
		}
	}
	cfgs := []struct {
		q      uint
		tables bool
	}{{7, false}, {7, true}, {8, false}, {9, false}, {9, true}, {65537, false}, {32, false}, {27, true}}
	bad := 0
	for _, c := range cfgs {
		// The concurrent phase comes FIRST and runs on freshly constructed objects: anything the library fills in
		// lazily on first use (in the shared objects or in package-level state) is then filled in by racing
		// goroutines. The sequential reference is computed afterwards on a second, equally fresh set of objects.
		s := mkShared(c.q, c.tables)
		got := make([]string, goroutines)
		var wg sync.WaitGroup
		for g := 0; g < goroutines; g++ {
			wg.Add(1)
			go func(g int) {
				defer wg.Done()
				defer func() {
					if r := recover(); r != nil {
						got[g] = fmt.Sprint("PANIC ", r)
					}
				}()
				got[g] = work(s, seed*1000+int64(g), iters)
			}(g)
		}
		wg.Wait()
		s2 := mkShared(c.q, c.tables)
		want := make([]string, goroutines)
		for g := 0; g < goroutines; g++ {
			want[g] = work(s2, seed*1000+int64(g), iters)
		}
		for g := range got {
			if got[g] != want[g] {
				fmt.Printf("MISMATCH %s goroutine %d: concurrent %s sequential %s\n", s.name, g, got[g], want[g])
				bad++
			}
		}
	}
	fmt.Printf("concurrent-done configs=%d goroutines=%d iters=%d mismatches=%d\n", len(cfgs), goroutines, iters, bad)
	if bad > 0 {
		os.Exit(1)
	}
}

func init() {
	// flags are parsed in main()
	_ = flag.CommandLine
}
