// extract: reads /repo's current working tree (go/parser, go/ast only) and regenerates
//   <out>/ConwayText.lean  — the value of the cpimport constant as string-literal chunks
//   <out>/Consts.lean      — constants, limit expressions, error kinds, regex pattern parts
//   <out>/Effects.lean     — per-function write effects (which struct fields are assigned through
//                            which receiver/parameter), closed under the static call graph
//   <facts>                — facts.json: normalised-AST hash of every function
// Usage: extract -repo /repo -out /verif/lean/Algobra/Gen -facts /verif/build/facts.json
package main

import (
	"bytes"
	"crypto/sha256"
	"encoding/hex"
	"encoding/json"
	"flag"
	"fmt"
	"go/ast"
	"go/constant"
	"go/parser"
	"go/printer"
	"go/token"
	"os"
	"path/filepath"
	"sort"
	"strconv"
	"strings"
)

var fset = token.NewFileSet()

type pkgInfo struct {
	dir   string
	name  string
	files map[string]*ast.File
}

var pkgDirs = []string{
	"auxmath", "errors", "finitefield", "finitefield/primefield", "finitefield/binfield",
	"finitefield/extfield", "finitefield/conway", "univariate", "bivariate",
}

func loadPkg(repo, dir string) *pkgInfo {
	pi := &pkgInfo{dir: dir, files: map[string]*ast.File{}}
	ents, err := os.ReadDir(filepath.Join(repo, dir))
	if err != nil {
		fatal("read dir %s: %v", dir, err)
	}
	for _, e := range ents {
		n := e.Name()
		if e.IsDir() || !strings.HasSuffix(n, ".go") || strings.HasSuffix(n, "_test.go") {
			continue
		}
		path := filepath.Join(repo, dir, n)
		src, err := os.ReadFile(path)
		if err != nil {
			fatal("%v", err)
		}
		// skip files guarded by the verif build tag (our own hooks)
		if bytes.Contains(src[:min(len(src), 200)], []byte("//go:build verif")) {
			continue
		}
		f, err := parser.ParseFile(fset, path, src, 0)
		if err != nil {
			fatal("parse %s: %v", path, err)
		}
		pi.files[n] = f
		pi.name = f.Name.Name
	}
	return pi
}

func fatal(format string, a ...interface{}) {
	fmt.Fprintf(os.Stderr, "extract: "+format+"\n", a...)
	os.Exit(2)
}

func src(n ast.Node) string {
	var b bytes.Buffer
	printer.Fprint(&b, fset, n)
	return strings.Join(strings.Fields(b.String()), " ")
}

func leanStr(s string) string {
	var b strings.Builder
	b.WriteByte('"')
	for _, r := range s {
		switch {
		case r == '"':
			b.WriteString("\\\"")
		case r == '\\':
			b.WriteString("\\\\")
		case r == '\n':
			b.WriteString("\\n")
		case r == '\t':
			b.WriteString("\\t")
		case r == '\r':
			b.WriteString("\\r")
		case r < 32 || r > 126:
			fmt.Fprintf(&b, "\\u{%x}", r)
		default:
			b.WriteRune(r)
		}
	}
	b.WriteByte('"')
	return b.String()
}

// ---------------------------------------------------------------------------------------------
// functions

type fn struct {
	pkg  *pkgInfo
	decl *ast.FuncDecl
	key  string // pkg.Recv.Name or pkg.Name
}

func recvType(d *ast.FuncDecl) string {
	if d.Recv == nil || len(d.Recv.List) == 0 {
		return ""
	}
	t := d.Recv.List[0].Type
	if s, ok := t.(*ast.StarExpr); ok {
		t = s.X
	}
	if id, ok := t.(*ast.Ident); ok {
		return id.Name
	}
	return src(t)
}

func allFuncs(pkgs []*pkgInfo) map[string]*fn {
	out := map[string]*fn{}
	for _, p := range pkgs {
		names := make([]string, 0, len(p.files))
		for n := range p.files {
			names = append(names, n)
		}
		sort.Strings(names)
		for _, n := range names {
			for _, d := range p.files[n].Decls {
				fd, ok := d.(*ast.FuncDecl)
				if !ok || fd.Body == nil {
					continue
				}
				key := p.name + "."
				if r := recvType(fd); r != "" {
					key += r + "."
				}
				key += fd.Name.Name
				out[key] = &fn{pkg: p, decl: fd, key: key}
			}
		}
	}
	return out
}

// ---------------------------------------------------------------------------------------------
// pattern parts: flatten a `+` concatenation into literal / expression parts

type part struct {
	lit  bool
	text string
}

func flatten(e ast.Expr, out *[]part) {
	switch v := e.(type) {
	case *ast.BinaryExpr:
		if v.Op == token.ADD {
			flatten(v.X, out)
			flatten(v.Y, out)
			return
		}
	case *ast.ParenExpr:
		flatten(v.X, out)
		return
	case *ast.BasicLit:
		if v.Kind == token.STRING {
			s, err := strconv.Unquote(v.Value)
			if err != nil {
				fatal("unquote %s", v.Value)
			}
			*out = append(*out, part{true, s})
			return
		}
	}
	*out = append(*out, part{false, src(e)})
}

func partsLean(ps []part) string {
	var b strings.Builder
	b.WriteString("[")
	for i, p := range ps {
		if i > 0 {
			b.WriteString(", ")
		}
		if p.lit {
			b.WriteString(".lit " + leanStr(p.text))
		} else {
			b.WriteString(".expr " + leanStr(p.text))
		}
	}
	b.WriteString("]")
	return b.String()
}

// first argument of the first call to regexp.Compile / regexp.MustCompile in the function
func compileArg(f *fn) []part {
	var res []part
	found := false
	ast.Inspect(f.decl.Body, func(n ast.Node) bool {
		if found {
			return false
		}
		c, ok := n.(*ast.CallExpr)
		if !ok {
			return true
		}
		s := src(c.Fun)
		if s == "regexp.Compile" || s == "regexp.MustCompile" {
			flatten(c.Args[0], &res)
			found = true
			return false
		}
		return true
	})
	if !found {
		return []part{{false, "<<no regexp.Compile call found>>"}}
	}
	return res
}

// all assignments `name := <expr>` / `name = <expr>` / `const name = <expr>` in the function, in source order
func assignsTo(f *fn, name string) [][]part {
	var res [][]part
	ast.Inspect(f.decl.Body, func(n ast.Node) bool {
		switch a := n.(type) {
		case *ast.AssignStmt:
			if len(a.Lhs) == 1 && len(a.Rhs) == 1 {
				if id, ok := a.Lhs[0].(*ast.Ident); ok && id.Name == name {
					var ps []part
					flatten(a.Rhs[0], &ps)
					res = append(res, ps)
				}
			}
		case *ast.ValueSpec:
			for i, id := range a.Names {
				if id.Name == name && i < len(a.Values) {
					var ps []part
					flatten(a.Values[i], &ps)
					res = append(res, ps)
				}
			}
		}
		return true
	})
	return res
}

// ---------------------------------------------------------------------------------------------
// constants

func evalConst(e ast.Expr) (constant.Value, bool) {
	switch v := e.(type) {
	case *ast.BasicLit:
		if v.Kind == token.INT {
			return constant.MakeFromLiteral(v.Value, token.INT, 0), true
		}
	case *ast.ParenExpr:
		return evalConst(v.X)
	case *ast.BinaryExpr:
		x, ok1 := evalConst(v.X)
		y, ok2 := evalConst(v.Y)
		if !ok1 || !ok2 {
			return nil, false
		}
		switch v.Op {
		case token.SHL:
			s, _ := constant.Uint64Val(y)
			return constant.Shift(x, token.SHL, uint(s)), true
		case token.ADD, token.SUB, token.MUL:
			return constant.BinaryOp(x, v.Op, y), true
		case token.QUO:
			return constant.BinaryOp(x, token.QUO_ASSIGN, y), true
		}
	case *ast.SelectorExpr:
		if src(v) == "bits.UintSize" {
			return constant.MakeInt64(64), true
		}
	}
	return nil, false
}

func findConst(p *pkgInfo, name string) (ast.Expr, bool) {
	for _, f := range p.files {
		for _, d := range f.Decls {
			gd, ok := d.(*ast.GenDecl)
			if !ok || gd.Tok != token.CONST {
				continue
			}
			for _, s := range gd.Specs {
				vs := s.(*ast.ValueSpec)
				for i, id := range vs.Names {
					if id.Name == name && i < len(vs.Values) {
						return vs.Values[i], true
					}
				}
			}
		}
	}
	return nil, false
}

// names of the constants of the const block whose first spec uses iota and has type `typ`
func iotaBlock(p *pkgInfo, typ string) []string {
	for _, f := range p.files {
		for _, d := range f.Decls {
			gd, ok := d.(*ast.GenDecl)
			if !ok || gd.Tok != token.CONST || len(gd.Specs) == 0 {
				continue
			}
			first := gd.Specs[0].(*ast.ValueSpec)
			if first.Type == nil || src(first.Type) != typ || len(first.Values) == 0 || src(first.Values[0]) != "iota" {
				continue
			}
			var names []string
			for _, s := range gd.Specs {
				vs := s.(*ast.ValueSpec)
				if len(vs.Values) > 0 && src(vs.Values[0]) != "iota" {
					names = append(names, "<<explicit value "+src(vs.Values[0])+">>")
					continue
				}
				for _, id := range vs.Names {
					names = append(names, id.Name)
				}
			}
			return names
		}
	}
	return nil
}

// condition expressions of all `if` statements in a function, in source order
func ifConds(f *fn) []string {
	var res []string
	ast.Inspect(f.decl.Body, func(n ast.Node) bool {
		if s, ok := n.(*ast.IfStmt); ok {
			res = append(res, src(s.Cond))
		}
		return true
	})
	return res
}

// value of a composite-literal field `field: <expr>` inside function f (first occurrence)
func kvValue(f *fn, field string) string {
	res := "<<not found>>"
	done := false
	ast.Inspect(f.decl.Body, func(n ast.Node) bool {
		if done {
			return false
		}
		if kv, ok := n.(*ast.KeyValueExpr); ok {
			if id, ok := kv.Key.(*ast.Ident); ok && id.Name == field {
				res = src(kv.Value)
				done = true
				return false
			}
		}
		return true
	})
	return res
}

func strList(xs []string) string {
	q := make([]string, len(xs))
	for i, x := range xs {
		q[i] = leanStr(x)
	}
	return "[" + strings.Join(q, ", ") + "]"
}

// ---------------------------------------------------------------------------------------------

func main() {
	repo := flag.String("repo", "/repo", "repository root")
	out := flag.String("out", "", "output directory for Gen/*.lean")
	facts := flag.String("facts", "", "output path of facts.json")
	flag.Parse()
	if *out == "" {
		fatal("-out required")
	}
	var pkgs []*pkgInfo
	byName := map[string]*pkgInfo{}
	for _, d := range pkgDirs {
		p := loadPkg(*repo, d)
		pkgs = append(pkgs, p)
		byName[p.name] = p
	}
	funcs := allFuncs(pkgs)
	get := func(key string) *fn {
		f, ok := funcs[key]
		if !ok {
			// a missing function is reported inside the generated file so that the Lean side fails
			// loudly (broken obligation) instead of the extractor aborting the whole run
			return &fn{key: key, decl: &ast.FuncDecl{Name: ast.NewIdent("missing"), Body: &ast.BlockStmt{}}}
		}
		return f
	}

	writeConway(*repo, byName["conway"], filepath.Join(*out, "ConwayText.lean"))
	writeConsts(byName, get, filepath.Join(*out, "Consts.lean"))
	writeEffects(pkgs, funcs, filepath.Join(*out, "Effects.lean"))
	writeCode(funcs, filepath.Join(*out, "Code.lean"))
	writeErrSites(funcs, filepath.Join(*out, "ErrSites.lean"))
	if *facts != "" {
		writeFacts(funcs, *facts)
	}
}

func writeFile(path, content string) {
	old, err := os.ReadFile(path)
	if err == nil && string(old) == content {
		return // keep mtime: lake does not rebuild
	}
	if err := os.WriteFile(path, []byte(content), 0o644); err != nil {
		fatal("%v", err)
	}
}

func writeConway(repo string, p *pkgInfo, path string) {
	e, ok := findConst(p, "cpimport")
	text := ""
	if ok {
		if bl, ok := e.(*ast.BasicLit); ok && bl.Kind == token.STRING {
			s, err := strconv.Unquote(bl.Value)
			if err != nil {
				fatal("cpimport unquote: %v", err)
			}
			text = s
		} else {
			text = "<<cpimport is not a string literal>>"
		}
	} else {
		text = "<<cpimport not found>>"
	}
	// split at line boundaries into chunks of about 48 KiB
	var chunks []string
	lines := strings.SplitAfter(text, "\n")
	var cur strings.Builder
	for _, l := range lines {
		if cur.Len()+len(l) > 48*1024 && cur.Len() > 0 {
			chunks = append(chunks, cur.String())
			cur.Reset()
		}
		cur.WriteString(l)
	}
	if cur.Len() > 0 {
		chunks = append(chunks, cur.String())
	}
	var b strings.Builder
	b.WriteString("-- GENERATED by /verif/extract from finitefield/conway/cpimport.go — do not edit\n")
	b.WriteString("namespace Algobra.Gen\n\n")
	for i, c := range chunks {
		fmt.Fprintf(&b, "def dbChunk%d : String := %s\n\n", i, leanStr(c))
	}
	b.WriteString("def dbChunks : List String := [")
	for i := range chunks {
		if i > 0 {
			b.WriteString(", ")
		}
		fmt.Fprintf(&b, "dbChunk%d", i)
	}
	b.WriteString("]\n\n/-- the database text, every chunk ends at a line boundary -/\ndef dbText : String := String.join dbChunks\n\nend Algobra.Gen\n")
	writeFile(path, b.String())
}

func writeConsts(pk map[string]*pkgInfo, get func(string) *fn, path string) {
	var b strings.Builder
	b.WriteString("-- GENERATED by /verif/extract from /repo's working tree — do not edit\n")
	b.WriteString("import Algobra.Model.Regex\nnamespace Algobra.Gen\nopen Algobra.Regex\n\n")
	num := func(name string, p *pkgInfo, c string) {
		e, ok := findConst(p, c)
		if ok {
			if v, ok := evalConst(e); ok {
				fmt.Fprintf(&b, "def %s : Nat := %s\n", name, v.ExactString())
				return
			}
		}
		fmt.Fprintf(&b, "def %s : Nat := 0 -- could not evaluate\n", name)
	}
	num("primeDefaultMaxMem", pk["primefield"], "DefaultMaxMem")
	num("extDefaultMaxMem", pk["extfield"], "DefaultMaxMem")
	fmt.Fprintf(&b, "def kindNames : List String := %s\n", strList(iotaBlock(pk["errors"], "Kind")))
	fmt.Fprintf(&b, "def primeDefineConds : List String := %s\n", strList(ifConds(get("primefield.Define"))))
	fmt.Fprintf(&b, "def binDefineConds : List String := %s\n", strList(ifConds(get("binfield.Define"))))
	fmt.Fprintf(&b, "def extDefineConds : List String := %s\n", strList(ifConds(get("extfield.Define"))))
	fmt.Fprintf(&b, "def ffDefineCases : List String := %s\n", strList(caseConds(get("finitefield.Define"))))
	fmt.Fprintf(&b, "def primeEstimateMemory : List String := %s\n", strList(returnsAndAssigns(get("primefield.estimateMemory"))))
	fmt.Fprintf(&b, "def extEstimateMemory : List String := %s\n", strList(returnsAndAssigns(get("extfield.estimateMemory"))))
	fmt.Fprintf(&b, "def binDefaultVarName : String := %s\n", leanStr(kvValue(get("binfield.Define"), "varName")))
	fmt.Fprintf(&b, "def uniDefaultVarName : String := %s\n", leanStr(kvValue(get("univariate.DefRing"), "varName")))
	fmt.Fprintf(&b, "def bivDefaultVarNames : String := %s\n", leanStr(kvValue(get("bivariate.DefRing"), "varNames")))
	fmt.Fprintf(&b, "def extVarNameCall : List String := %s\n", strList(callsTo(get("extfield.Define"), "polyRing.SetVarName")))
	b.WriteString("\n-- regular expressions (concatenations flattened; non-literal operands kept as source text)\n")
	fmt.Fprintf(&b, "def primeElemPattern : List Part := %s\n", partsLean(compileArg(get("primefield.Field.ElementFromString"))))
	fmt.Fprintf(&b, "def binElemPattern : List Part := %s\n", partsLean(compileArg(get("binfield.Field.ElementFromString"))))
	fmt.Fprintf(&b, "def uniPattern : List Part := %s\n", partsLean(compileArg(get("univariate.polynomialStringToMap"))))
	fmt.Fprintf(&b, "def bivPattern : List Part := %s\n", partsLean(compileArg(get("bivariate.polynomialStringToMap"))))
	for _, a := range assignsTo(get("bivariate.polynomialStringToMap"), "xOrY") {
		fmt.Fprintf(&b, "def bivXOrY : List Part := %s\n", partsLean(a))
		break
	}
	for _, pkgn := range []string{"binfield", "extfield"} {
		f := get(pkgn + ".Field.RegexElement")
		for _, nm := range []string{"termPattern", "moreTerms"} {
			as := assignsTo(f, nm)
			if len(as) > 0 {
				fmt.Fprintf(&b, "def %sRegex_%s : List Part := %s\n", pkgn[:3], nm, partsLean(as[0]))
			} else {
				fmt.Fprintf(&b, "def %sRegex_%s : List Part := [.expr \"<<missing>>\"]\n", pkgn[:3], nm)
			}
		}
		as := assignsTo(f, "pattern")
		for i := 0; i < 2; i++ {
			nm := []string{"parens", "noParens"}[i]
			if i < len(as) {
				fmt.Fprintf(&b, "def %sRegex_%s : List Part := %s\n", pkgn[:3], nm, partsLean(as[i]))
			} else {
				fmt.Fprintf(&b, "def %sRegex_%s : List Part := [.expr \"<<missing>>\"]\n", pkgn[:3], nm)
			}
		}
	}
	as := assignsTo(get("primefield.Field.RegexElement"), "pattern")
	if len(as) > 0 {
		fmt.Fprintf(&b, "def priRegex : List Part := %s\n", partsLean(as[0]))
	} else {
		b.WriteString("def priRegex : List Part := [.expr \"<<missing>>\"]\n")
	}
	// conway: the fmt.Sprintf format of the lookup pattern
	fmt.Fprintf(&b, "def conwayPatternCall : List String := %s\n", strList(callsTo(get("conway.lookupInternal"), "fmt.Sprintf")))
	b.WriteString("\nend Algobra.Gen\n")
	writeFile(path, b.String())
}

func caseConds(f *fn) []string {
	var res []string
	ast.Inspect(f.decl.Body, func(n ast.Node) bool {
		if c, ok := n.(*ast.CaseClause); ok {
			cond := "default"
			if len(c.List) > 0 {
				var cs []string
				for _, e := range c.List {
					cs = append(cs, src(e))
				}
				cond = strings.Join(cs, ", ")
			}
			body := ""
			for _, s := range c.Body {
				body += src(s) + ";"
			}
			res = append(res, cond+" => "+body)
		}
		return true
	})
	return res
}

func returnsAndAssigns(f *fn) []string {
	var res []string
	for _, s := range f.decl.Body.List {
		res = append(res, src(s))
	}
	return res
}

func callsTo(f *fn, name string) []string {
	var res []string
	ast.Inspect(f.decl.Body, func(n ast.Node) bool {
		if c, ok := n.(*ast.CallExpr); ok && src(c.Fun) == name {
			var as []string
			for _, a := range c.Args {
				as = append(as, src(a))
			}
			res = append(res, strings.Join(as, " ; "))
		}
		return true
	})
	return res
}

// ---------------------------------------------------------------------------------------------
// facts: hash of the normalised source of every function

func writeFacts(funcs map[string]*fn, path string) {
	m := map[string]string{}
	for k, f := range funcs {
		h := sha256.Sum256([]byte(src(f.decl)))
		m[k] = hex.EncodeToString(h[:8])
	}
	data, _ := json.MarshalIndent(m, "", " ")
	os.MkdirAll(filepath.Dir(path), 0o755)
	writeFile(path, string(data)+"\n")
}
