package main

import (
	"flag"
	"fmt"
	"go/ast"
	"go/token"
	"go/types"
	"sort"
	"strings"
)

// Syntactic write-effect extraction.
//
// For every function we record
//   direct writes:  (root, path) for each assignment / ++ / op= whose left-hand side is an access
//                   path (selectors, indexing, dereference) rooted at the receiver, a parameter, or
//                   a local that is an alias of one (assigned from a pure access path, a type
//                   assertion, a composite literal mentioning it, or a range over it);
//   calls:          callee name (method name, or pkg.Func / Func) with the roots of receiver and
//                   arguments.
// A fix-point then propagates "callee writes its parameter i" to the caller's parameter that the
// i-th actual is rooted at.
//
// TYPE-AWARE CALL RESOLUTION (go/types, typecheck.go): a static call or a method call on a concrete
// type resolves to its one callee; a call through an interface (ff.Element, ff.Field, error, …) to the
// method of that name of every named type OF THE REPOSITORY whose method set (T or *T) implements the
// interface; a call of a function value to every function literal (booked as its enclosing function) and
// plain function of the repository with an identical signature. Functions outside the repository appear
// in `calls` as "ext:pkg.Func" / "ext:pkg.Type.Method".
//
// FRESH OBJECTS: a composite literal / new / make creates a fresh object; writes to ITS fields are booked
// on no parameter. But a field of the literal that is initialised from an expression rooted at parameter
// p (`out := &T{coefs: f.coefs}`) keeps referring to p's memory: a write THROUGH that field
// (`out.coefs[i] = …`, or a callee writing `coefs[]` of its receiver `out`) is booked on p.
//
// ASSUMPTIONS (trusted; part of the base of C16Static / C20):
//  A1  only non-test files without the `verif` build tag are analysed; client code is not;
//  A2  results of calls are fresh objects (not aliases of the operands), and a callee does not store its
//      arguments into the objects it is given -- inherited from the previous extractor; in particular the
//      operand that an operation hands back when it already carries an error (hasErr) is not tracked;
//  A3  functions outside the repository (all listed in `calls` as "ext:…", the list is pinned by a Lean theorem)
//      write nothing reachable from their arguments -- except copy/delete and sort.Slice/Sort/…, which are
//      booked as element writes of their first argument; closures are analysed as part of their
//      enclosing function;
//  A4  a local that is assigned from a pure access path, a type assertion or a range over an access path
//      rooted at parameter p is an alias of p (flow-insensitively); re-binding a parameter name is ignored;
//  A5  a field of a fresh literal initialised from ANY expression rooted at p counts as referring to p
//      (also non-reference fields: the safe direction).

type write struct {
	param int    // 0 = receiver (or first parameter for plain functions: index counts receiver first)
	path  string // e.g. "val", "coefs[]", "*", "err"
}

type call struct {
	name  string                    // source text of the callee (documentation)
	keys  []string                  // resolved callees in the repository (type-based)
	ext   string                    // "ext:…" if the callee is (also) outside the repository
	roots []int                     // bitmask of root parameters of receiver (if method call) followed by each argument
	lits  []map[int]map[string]bool // per actual: fresh literal whose field f was initialised from parameter i
	paths []string                  // per actual: its access path below the root ("" = the root itself)
	meth  bool
}

// type information shared by all summaries
type typeCtx struct {
	tpkgs   []*typedPkg
	byPi    map[*pkgInfo]*typedPkg
	keyOf   map[*types.Func]string
	named   []*types.TypeName
	sigs    []sigEntry // plain functions and function literals, for calls of function values
	implMem map[string][]string
}

type sigEntry struct {
	sig *types.Signature
	key string
}

var tc *typeCtx

func buildTypeCtx(repo string, pkgs []*pkgInfo, funcs map[string]*fn) *typeCtx {
	t := &typeCtx{byPi: map[*pkgInfo]*typedPkg{}, keyOf: map[*types.Func]string{}, implMem: map[string][]string{}}
	t.tpkgs = typeCheckAll(repo, pkgs)
	for _, tp := range t.tpkgs {
		t.byPi[tp.pi] = tp
		sc := tp.tpkg.Scope()
		for _, n := range sc.Names() {
			if tn, ok := sc.Lookup(n).(*types.TypeName); ok && !tn.IsAlias() {
				t.named = append(t.named, tn)
			}
		}
	}
	keys := make([]string, 0, len(funcs))
	for k := range funcs {
		keys = append(keys, k)
	}
	sort.Strings(keys)
	for _, k := range keys {
		f := funcs[k]
		tp := t.byPi[f.pkg]
		if tp == nil {
			continue
		}
		if o, ok := tp.info.Defs[f.decl.Name].(*types.Func); ok {
			t.keyOf[o] = k
			sig := o.Type().(*types.Signature)
			if sig.Recv() == nil {
				t.sigs = append(t.sigs, sigEntry{sig, k})
			}
		}
		ast.Inspect(f.decl.Body, func(n ast.Node) bool {
			if fl, ok := n.(*ast.FuncLit); ok {
				if sig, ok := tp.info.TypeOf(fl).(*types.Signature); ok {
					t.sigs = append(t.sigs, sigEntry{sig, k})
				}
			}
			return true
		})
	}
	return t
}

// keys of the methods named `name` of the repository's named types that implement interface type `it`
func (t *typeCtx) implementers(it types.Type, name string) []string {
	mk := types.TypeString(it, nil) + "|" + name
	if r, ok := t.implMem[mk]; ok {
		return r
	}
	var out []string
	if iface, ok := it.Underlying().(*types.Interface); ok {
		for _, tn := range t.named {
			ty := tn.Type()
			if types.IsInterface(ty) {
				continue
			}
			var recv types.Type
			switch {
			case types.Implements(ty, iface):
				recv = ty
			case types.Implements(types.NewPointer(ty), iface):
				recv = types.NewPointer(ty)
			default:
				continue
			}
			o, _, _ := types.LookupFieldOrMethod(recv, true, tn.Pkg(), name)
			if f, ok := o.(*types.Func); ok {
				if k, ok := t.keyOf[f]; ok {
					out = append(out, k)
				}
			}
		}
	}
	sort.Strings(out)
	t.implMem[mk] = out
	return out
}

// functions outside the repository that write the elements of their first argument (booked like copy/delete)
var extWritesArg0 = map[string]bool{"ext:sort.Slice": true, "ext:sort.SliceStable": true, "ext:sort.Sort": true,
	"ext:sort.Stable": true, "ext:sort.Ints": true, "ext:sort.Strings": true, "ext:rand.Shuffle": true}

func extFuncName(f *types.Func) string {
	sig := f.Type().(*types.Signature)
	if r := sig.Recv(); r != nil {
		rt := r.Type()
		if p, ok := rt.(*types.Pointer); ok {
			rt = p.Elem()
		}
		if n, ok := rt.(*types.Named); ok {
			p := ""
			if n.Obj().Pkg() != nil {
				p = n.Obj().Pkg().Name() + "."
			}
			return "ext:" + p + n.Obj().Name() + "." + f.Name()
		}
		return "ext:" + f.Name()
	}
	if f.Pkg() != nil {
		return "ext:" + f.Pkg().Name() + "." + f.Name()
	}
	return "ext:" + f.Name()
}

// resolve the callee(s) of a call expression by type
func (t *typeCtx) resolve(info *types.Info, c *call, a *ast.CallExpr) {
	if tv, ok := info.Types[a.Fun]; ok && tv.IsType() {
		return // conversion
	}
	fun := ast.Unparen(a.Fun)
	pick := func(o types.Object) bool {
		f, ok := o.(*types.Func)
		if !ok {
			return false
		}
		if k, ok := t.keyOf[f]; ok {
			c.keys = []string{k}
			return true
		}
		sig := f.Type().(*types.Signature)
		if r := sig.Recv(); r != nil && types.IsInterface(r.Type()) {
			c.keys = t.implementers(r.Type(), f.Name())
			if f.Pkg() == nil || !t.isRepoPkg(f.Pkg()) {
				c.ext = extFuncName(f)
			}
			return true
		}
		c.ext = extFuncName(f)
		return true
	}
	switch f := fun.(type) {
	case *ast.Ident:
		if _, isBuiltin := info.ObjectOf(f).(*types.Builtin); isBuiltin {
			return
		}
		if pick(info.ObjectOf(f)) {
			return
		}
	case *ast.SelectorExpr:
		if sel, ok := info.Selections[f]; ok {
			if sel.Kind() == types.MethodVal && pick(sel.Obj()) {
				return
			}
		} else if pick(info.ObjectOf(f.Sel)) {
			return
		}
	case *ast.FuncLit:
		return // analysed in place
	}
	// a function value: every function literal / plain function with identical signature
	if sig, ok := info.TypeOf(fun).Underlying().(*types.Signature); ok {
		seen := map[string]bool{}
		for _, e := range t.sigs {
			if types.Identical(e.sig, sig) && !seen[e.key] {
				seen[e.key] = true
				c.keys = append(c.keys, e.key)
			}
		}
		sort.Strings(c.keys)
		c.ext = "dyn:" + strings.Join(strings.Fields(types.TypeString(sig, func(p *types.Package) string { return p.Name() })), "")
	}
}

func (t *typeCtx) isRepoPkg(p *types.Package) bool {
	for _, tp := range t.tpkgs {
		if tp.tpkg == p {
			return true
		}
	}
	return false
}

type summary struct {
	key      string
	recvType string
	params   []string // names, receiver first if any
	ptypes   []string
	exported bool
	direct   map[write]bool
	all      map[write]bool
	calls    []call
	// writes to struct fields keyed by the declared type of the root parameter: "Type.field"
	typed map[string]bool
}

func baseTypeName(e ast.Expr) string {
	switch v := e.(type) {
	case *ast.StarExpr:
		return baseTypeName(v.X)
	case *ast.Ident:
		return v.Name
	case *ast.SelectorExpr:
		return src(v)
	case *ast.ArrayType:
		return "[]" + baseTypeName(v.Elt)
	case *ast.Ellipsis:
		return "[]" + baseTypeName(v.Elt)
	}
	return src(e)
}

// root identifier and path of an access-path expression; ok=false if not a pure access path
func accessPath(e ast.Expr) (root string, path string, ok bool) {
	switch v := e.(type) {
	case *ast.Ident:
		return v.Name, "", true
	case *ast.ParenExpr:
		return accessPath(v.X)
	case *ast.SelectorExpr:
		r, p, ok := accessPath(v.X)
		if !ok {
			return "", "", false
		}
		if p != "" {
			p += "."
		}
		return r, p + v.Sel.Name, true
	case *ast.IndexExpr:
		r, p, ok := accessPath(v.X)
		return r, p + "[]", ok
	case *ast.StarExpr:
		r, p, ok := accessPath(v.X)
		return r, p + "*", ok
	case *ast.TypeAssertExpr:
		return accessPath(v.X)
	case *ast.UnaryExpr:
		if v.Op == token.AND {
			return accessPath(v.X)
		}
	case *ast.SliceExpr:
		return accessPath(v.X)
	}
	return "", "", false
}

// names of the package-level variables of a package (file-scope `var` declarations)
func pkgVars(pi *pkgInfo) map[string]bool {
	out := map[string]bool{}
	for _, f := range pi.files {
		for _, d := range f.Decls {
			gd, ok := d.(*ast.GenDecl)
			if !ok || gd.Tok != token.VAR {
				continue
			}
			for _, sp := range gd.Specs {
				if vs, ok := sp.(*ast.ValueSpec); ok {
					for _, n := range vs.Names {
						if n.Name != "_" {
							out[n.Name] = true
						}
					}
				}
			}
		}
	}
	return out
}

func summarize(f *fn) *summary {
	var info *types.Info
	if tp := tc.byPi[f.pkg]; tp != nil {
		info = tp.info
	}
	s := &summary{key: f.key, recvType: recvType(f.decl), direct: map[write]bool{}, all: map[write]bool{}, typed: map[string]bool{}}
	globals := pkgVars(f.pkg)
	// names bound inside the function shadow package-level variables
	locals := map[string]bool{}
	ast.Inspect(f.decl, func(n ast.Node) bool {
		switch a := n.(type) {
		case *ast.AssignStmt:
			if a.Tok == token.DEFINE {
				for _, l := range a.Lhs {
					if id, ok := l.(*ast.Ident); ok {
						locals[id.Name] = true
					}
				}
			}
		case *ast.ValueSpec:
			for _, n := range a.Names {
				locals[n.Name] = true
			}
		case *ast.RangeStmt:
			if a.Tok == token.DEFINE {
				for _, kv := range []ast.Expr{a.Key, a.Value} {
					if id, ok := kv.(*ast.Ident); ok {
						locals[id.Name] = true
					}
				}
			}
		case *ast.Field:
			for _, n := range a.Names {
				locals[n.Name] = true
			}
		}
		return true
	})
	// a write whose root is a package-level variable: shared by every goroutine of the process
	recordGlobal := func(root string) {
		if globals[root] && !locals[root] {
			s.typed["global:"+f.pkg.name+"."+root] = true
		}
	}
	s.exported = ast.IsExported(f.decl.Name.Name)
	addParam := func(fl *ast.FieldList) {
		if fl == nil {
			return
		}
		for _, fld := range fl.List {
			for _, n := range fld.Names {
				s.params = append(s.params, n.Name)
				s.ptypes = append(s.ptypes, baseTypeName(fld.Type))
			}
		}
	}
	addParam(f.decl.Recv)
	addParam(f.decl.Type.Params)
	idx := map[string]int{}
	for i, p := range s.params {
		idx[p] = i
	}
	// alias map: local name -> set of param indices
	alias := map[string]map[int]bool{}
	// local name -> (parameter -> fields of the fresh literal held by the local that were initialised from it)
	litAlias := map[string]map[int]map[string]bool{}
	firstComp := func(p string) string {
		f := strings.SplitN(strings.TrimLeft(p, "*"), ".", 2)[0]
		return strings.TrimSuffix(f, "[]")
	}
	var rootsOf func(e ast.Expr) map[int]bool
	rootsOf = func(e ast.Expr) map[int]bool {
		res := map[int]bool{}
		if r, p, ok := accessPath(e); ok {
			if i, ok := idx[r]; ok {
				res[i] = true
			}
			for i := range alias[r] {
				res[i] = true
			}
			if p != "" {
				// a field of a fresh literal that was initialised from a parameter
				for i, fs := range litAlias[r] {
					if fs[firstComp(p)] || fs["?"] {
						res[i] = true
					}
				}
			}
			return res
		}
		return res
	}
	// fresh literal: field -> parameters its initialiser is rooted at
	litOf := func(e ast.Expr) map[int]map[string]bool {
		if u, ok := e.(*ast.UnaryExpr); ok && u.Op == token.AND {
			e = u.X
		}
		cl, ok := e.(*ast.CompositeLit)
		if !ok {
			return nil
		}
		out := map[int]map[string]bool{}
		var visit func(cl *ast.CompositeLit, top string)
		visit = func(cl *ast.CompositeLit, top string) {
			for _, el := range cl.Elts {
				field, v := "?", el
				if kv, ok := el.(*ast.KeyValueExpr); ok {
					v = kv.Value
					if id, ok := kv.Key.(*ast.Ident); ok {
						field = id.Name
					}
				}
				if top != "" {
					field = top
				}
				inner := v
				if u, ok := inner.(*ast.UnaryExpr); ok && u.Op == token.AND {
					inner = u.X
				}
				if icl, ok := inner.(*ast.CompositeLit); ok {
					visit(icl, field) // nested literal: flattened into the outer field
					continue
				}
				for i := range rootsOf(v) {
					if out[i] == nil {
						out[i] = map[string]bool{}
					}
					out[i][field] = true
				}
			}
		}
		visit(cl, "")
		return out
	}
	// access path of an actual below its root parameter; below a local alias the path is unknown ("?")
	prefixOf := func(e ast.Expr) string {
		r, p, ok := accessPath(e)
		if !ok {
			return ""
		}
		if _, isParam := idx[r]; isParam || litAlias[r] != nil {
			return p
		}
		if p == "" {
			return "?"
		}
		return "?." + p
	}
	litRootsOf := func(e ast.Expr) map[int]map[string]bool {
		if l := litOf(e); l != nil {
			return l
		}
		if r, p, ok := accessPath(e); ok && p == "" {
			return litAlias[r]
		}
		return nil
	}
	// two passes so that aliases defined later in source order (loops) are seen
	for pass := 0; pass < 3; pass++ {
		ast.Inspect(f.decl.Body, func(n ast.Node) bool {
			switch a := n.(type) {
			case *ast.AssignStmt:
				if len(a.Lhs) == len(a.Rhs) || len(a.Rhs) == 1 {
					for i, l := range a.Lhs {
						id, ok := l.(*ast.Ident)
						if !ok {
							continue
						}
						if _, isParam := idx[id.Name]; isParam {
							continue // rebinding a parameter name: `a = tmp`
						}
						var rhs ast.Expr
						if len(a.Lhs) == len(a.Rhs) {
							rhs = a.Rhs[i]
						} else if i == 0 {
							rhs = a.Rhs[0]
						}
						if rhs == nil {
							continue
						}
						for p := range rootsOf(rhs) {
							if alias[id.Name] == nil {
								alias[id.Name] = map[int]bool{}
							}
							alias[id.Name][p] = true
						}
						for p, fs := range litRootsOf(rhs) {
							if litAlias[id.Name] == nil {
								litAlias[id.Name] = map[int]map[string]bool{}
							}
							if litAlias[id.Name][p] == nil {
								litAlias[id.Name][p] = map[string]bool{}
							}
							for f := range fs {
								litAlias[id.Name][p][f] = true
							}
						}
					}
				}
			case *ast.RangeStmt:
				for _, kv := range []ast.Expr{a.Key, a.Value} {
					if id, ok := kv.(*ast.Ident); ok && id.Name != "_" {
						for p := range rootsOf(a.X) {
							if alias[id.Name] == nil {
								alias[id.Name] = map[int]bool{}
							}
							alias[id.Name][p] = true
						}
					}
				}
			}
			return true
		})
	}
	record := func(lhs ast.Expr) {
		r, p, ok := accessPath(lhs)
		if ok {
			recordGlobal(r) // also a plain rebind `global = …`
		}
		if !ok || p == "" {
			return // plain variable rebind, or not an access path
		}
		targets := map[int]bool{}
		if i, ok := idx[r]; ok {
			targets[i] = true
		}
		for i := range alias[r] {
			targets[i] = true
		}
		// a write THROUGH a field of a fresh literal that was initialised from a parameter
		if fc := firstComp(p); strings.TrimLeft(p, "*") != fc {
			for i, fs := range litAlias[r] {
				if fs[fc] || fs["?"] {
					targets[i] = true
				}
			}
		}
		for i := range targets {
			s.direct[write{i, p}] = true
			first := strings.SplitN(strings.TrimLeft(p, "*"), ".", 2)[0]
			first = strings.TrimSuffix(first, "[]")
			if first == "" {
				first = "*"
			}
			s.typed[s.ptypes[i]+"."+first] = true
		}
	}
	ast.Inspect(f.decl.Body, func(n ast.Node) bool {
		switch a := n.(type) {
		case *ast.AssignStmt:
			for _, l := range a.Lhs {
				record(l)
			}
		case *ast.IncDecStmt:
			record(a.X)
		case *ast.CallExpr:
			c := call{name: src(a.Fun)}
			if info != nil {
				tc.resolve(info, &c, a)
			}
			if extWritesArg0[c.ext] && len(a.Args) > 0 {
				// sort.Slice & co permute the elements of their first argument
				record(&ast.IndexExpr{X: a.Args[0], Index: ast.NewIdent("_")})
			}
			switch fun := a.Fun.(type) {
			case *ast.SelectorExpr:
				// package-qualified function or method call
				if id, ok := fun.X.(*ast.Ident); ok && isPkgName(id.Name) {
					c.name = id.Name + "." + fun.Sel.Name
				} else {
					c.name = fun.Sel.Name
					c.meth = true
					rs := rootsOf(fun.X)
					c.roots = append(c.roots, encodeRoots(rs))
					c.lits = append(c.lits, litRootsOf(fun.X))
					c.paths = append(c.paths, prefixOf(fun.X))
				}
			case *ast.Ident:
				if fun.Name == "append" || fun.Name == "delete" || fun.Name == "copy" {
					if len(a.Args) > 0 && (fun.Name == "delete" || fun.Name == "copy") {
						// delete(m, k) / copy(dst, src) write through their first argument
						if r, p, ok := accessPath(a.Args[0]); ok {
							recordGlobal(r)
							fake := &ast.SelectorExpr{X: ast.NewIdent(r), Sel: ast.NewIdent("x")}
							_ = fake
							targets := map[int]bool{}
							if i, ok := idx[r]; ok {
								targets[i] = true
							}
							for i := range alias[r] {
								targets[i] = true
							}
							for i := range targets {
								pp := p + "[]"
								s.direct[write{i, pp}] = true
								first := strings.TrimSuffix(strings.SplitN(strings.TrimLeft(pp, "*"), ".", 2)[0], "[]")
								s.typed[s.ptypes[i]+"."+first] = true
							}
						}
					}
					return true
				}
				c.name = fun.Name
			case *ast.FuncLit:
				return true
			default:
				c.name = src(a.Fun)
			}
			for _, arg := range a.Args {
				c.roots = append(c.roots, encodeRoots(rootsOf(arg)))
				c.lits = append(c.lits, litRootsOf(arg))
				c.paths = append(c.paths, prefixOf(arg))
			}
			s.calls = append(s.calls, c)
		}
		return true
	})
	for w := range s.direct {
		s.all[w] = true
	}
	return s
}

var pkgNames = map[string]bool{"auxmath": true, "errors": true, "finitefield": true, "primefield": true,
	"binfield": true, "extfield": true, "conway": true, "univariate": true, "bivariate": true,
	"bits": true, "fmt": true, "strings": true, "strconv": true, "regexp": true, "rand": true, "sort": true, "time": true, "ff": true}

func isPkgName(s string) bool { return pkgNames[s] }

// the callee's write path below an actual with access path `prefix`; kept as first.?.last when long
func joinPath(prefix, path string) string {
	if prefix == "" {
		return path
	}
	full := prefix + "." + path
	comps := strings.Split(full, ".")
	if len(comps) > 3 {
		full = comps[0] + ".?." + comps[len(comps)-1]
	}
	return full
}

// roots encoded as bitmask over parameter indices (≤ 30 parameters)
func encodeRoots(rs map[int]bool) int {
	m := 0
	for i := range rs {
		m |= 1 << uint(i)
	}
	return m
}

func writeEffects(pkgs []*pkgInfo, funcs map[string]*fn, path string) {
	tc = buildTypeCtx(flag.Lookup("repo").Value.String(), pkgs, funcs)
	sums := map[string]*summary{}
	keys := make([]string, 0, len(funcs))
	for k, f := range funcs {
		sums[k] = summarize(f)
		keys = append(keys, k)
	}
	sort.Strings(keys)
	changed := true
	for iter := 0; changed && iter < 50; iter++ {
		changed = false
		for _, k := range keys {
			s := sums[k]
			for _, c := range s.calls {
				var cands []*summary
				for _, ck := range c.keys {
					if cs := sums[ck]; cs != nil {
						cands = append(cands, cs)
					}
				}
				for _, cs := range cands {
					for w := range cs.all {
						// position of the callee's parameter among the actuals
						pos := w.param
						if cs.recvType == "" && c.meth {
							continue
						}
						if cs.recvType != "" && !c.meth {
							continue
						}
						// variadic: clamp
						if pos >= len(c.roots) {
							if len(c.roots) == 0 {
								continue
							}
							pos = len(c.roots) - 1
						}
						mask := c.roots[pos]
						wpath := w.path
						if pos < len(c.paths) {
							wpath = joinPath(c.paths[pos], w.path)
						}
						for i := 0; i < len(s.params); i++ {
							if mask&(1<<uint(i)) != 0 {
								nw := write{i, wpath}
								if !s.all[nw] {
									s.all[nw] = true
									changed = true
								}
							}
						}
						// the actual is a fresh literal: only a write THROUGH a field that was initialised
						// from parameter i reaches i's memory
						if pos < len(c.lits) && c.lits[pos] != nil {
							tp := strings.TrimLeft(wpath, "*")
							fc := strings.TrimSuffix(strings.SplitN(tp, ".", 2)[0], "[]")
							if tp != fc {
								for i, fs := range c.lits[pos] {
									if fs[fc] || fs["?"] || fc == "?" {
										nw := write{i, wpath}
										if !s.all[nw] {
											s.all[nw] = true
											changed = true
										}
									}
								}
							}
						}
						// all further variadic actuals
						if w.param >= len(cs.params)-1 && strings.HasPrefix(cs.ptypes[len(cs.ptypes)-1], "[]") {
							for q := pos + 1; q < len(c.roots); q++ {
								for i := 0; i < len(s.params); i++ {
									if c.roots[q]&(1<<uint(i)) != 0 {
										nw := write{i, w.path}
										if !s.all[nw] {
											s.all[nw] = true
											changed = true
										}
									}
								}
							}
						}
					}
				}
			}
		}
	}
	var b strings.Builder
	b.WriteString("-- GENERATED by /verif/extract from /repo's working tree — do not edit\n")
	b.WriteString("namespace Algobra.Gen\n\n")
	b.WriteString("/-- one function: key, receiver type, exported?, parameter names (receiver first), parameter types,\n    may-write set as (parameter index, last path component), direct typed writes \"Type.field\",\n    keys of the possible callees resolved by TYPE (\"ext:…\" / \"dyn:…\" = outside the repository / function value) -/\n")
	b.WriteString("structure Fn where\n  key : String\n  recv : String\n  exported : Bool\n  params : List String\n  ptypes : List String\n  writes : List (Nat × String)\n  typed : List String\n  calls : List String\n\n")
	// chunk the list to keep each definition small
	const chunk = 40
	nchunks := 0
	for i := 0; i < len(keys); i += chunk {
		fmt.Fprintf(&b, "def effects%d : List Fn := [\n", nchunks)
		end := i + chunk
		if end > len(keys) {
			end = len(keys)
		}
		for j := i; j < end; j++ {
			s := sums[keys[j]]
			var ws []string
			seen := map[string]bool{}
			for w := range s.all {
				// keep the last component of the path (the field finally written)
				comps := strings.Split(strings.ReplaceAll(strings.ReplaceAll(w.path, "[]", ""), "*", ""), ".")
				last := comps[len(comps)-1]
				if last == "" {
					last = "*"
				}
				e := fmt.Sprintf("(%d, %s)", w.param, leanStr(last))
				if !seen[e] {
					seen[e] = true
					ws = append(ws, e)
				}
			}
			sort.Strings(ws)
			var ts []string
			for t := range s.typed {
				ts = append(ts, t)
			}
			sort.Strings(ts)
			cn := map[string]bool{}
			for _, c := range s.calls {
				for _, k := range c.keys {
					cn[k] = true
				}
				if c.ext != "" {
					cn[c.ext] = true
				}
			}
			var cs []string
			for c := range cn {
				cs = append(cs, c)
			}
			sort.Strings(cs)
			sep := ","
			if j == end-1 {
				sep = ""
			}
			fmt.Fprintf(&b, "  { key := %s, recv := %s, exported := %v, params := %s, ptypes := %s,\n    writes := [%s], typed := %s, calls := %s }%s\n",
				leanStr(s.key), leanStr(s.recvType), s.exported, strList(s.params), strList(s.ptypes),
				strings.Join(ws, ", "), strList(ts), strList(cs), sep)
		}
		b.WriteString("]\n\n")
		nchunks++
	}
	b.WriteString("def effects : List Fn := ")
	for i := 0; i < nchunks; i++ {
		if i > 0 {
			b.WriteString(" ++ ")
		}
		fmt.Fprintf(&b, "effects%d", i)
	}
	b.WriteString("\n\nend Algobra.Gen\n")
	writeFile(path, b.String())
}
