package main

import (
	"fmt"
	"go/ast"
	"go/token"
	"sort"
	"strings"
)

// Syntactic write-effect extraction.
//
// For every function we record
//   direct writes:  (root, path) for each assignment / ++ / op= whose left-hand side is an access
//                   path (selectors, indexing, dereference) rooted at the receiver, a parameter, or
//                   a local that is an alias of one (assigned from a pure access path, a type
//                   assertion, a composite literal mentioning it, or a range over it);
//   calls:          callee name (method name, or pkg.Func / Func) with the roots of receiver and
//                   arguments.
// A fix-point then propagates "callee writes its parameter i" to the caller's parameter that the
// i-th actual is rooted at. Method calls are resolved by *name* over all eight packages (no type
// information): an over-approximation of the callees, which is the safe direction for a may-write
// summary. Calls are assumed to return fresh objects (not aliases of their operands); this and
// function values / closures invoked indirectly are the stated unsound corners.

type write struct {
	param int    // 0 = receiver (or first parameter for plain functions: index counts receiver first)
	path  string // e.g. "val", "coefs[]", "*", "err"
}

type call struct {
	name  string
	roots []int // root parameter index of receiver (if method call) followed by each argument; -1 = none
	meth  bool
}

type summary struct {
	key      string
	recvType string
	params   []string // names, receiver first if any
	ptypes   []string
	exported bool
	direct   map[write]bool
	all      map[write]bool
	calls    []call
	// writes to struct fields keyed by the declared type of the root parameter: "Type.field"
	typed map[string]bool
}

func baseTypeName(e ast.Expr) string {
	switch v := e.(type) {
	case *ast.StarExpr:
		return baseTypeName(v.X)
	case *ast.Ident:
		return v.Name
	case *ast.SelectorExpr:
		return src(v)
	case *ast.ArrayType:
		return "[]" + baseTypeName(v.Elt)
	case *ast.Ellipsis:
		return "[]" + baseTypeName(v.Elt)
	}
	return src(e)
}

// root identifier and path of an access-path expression; ok=false if not a pure access path
func accessPath(e ast.Expr) (root string, path string, ok bool) {
	switch v := e.(type) {
	case *ast.Ident:
		return v.Name, "", true
	case *ast.ParenExpr:
		return accessPath(v.X)
	case *ast.SelectorExpr:
		r, p, ok := accessPath(v.X)
		if !ok {
			return "", "", false
		}
		if p != "" {
			p += "."
		}
		return r, p + v.Sel.Name, true
	case *ast.IndexExpr:
		r, p, ok := accessPath(v.X)
		return r, p + "[]", ok
	case *ast.StarExpr:
		r, p, ok := accessPath(v.X)
		return r, p + "*", ok
	case *ast.TypeAssertExpr:
		return accessPath(v.X)
	case *ast.UnaryExpr:
		if v.Op == token.AND {
			return accessPath(v.X)
		}
	case *ast.SliceExpr:
		return accessPath(v.X)
	}
	return "", "", false
}

// names of the package-level variables of a package (file-scope `var` declarations)
func pkgVars(pi *pkgInfo) map[string]bool {
	out := map[string]bool{}
	for _, f := range pi.files {
		for _, d := range f.Decls {
			gd, ok := d.(*ast.GenDecl)
			if !ok || gd.Tok != token.VAR {
				continue
			}
			for _, sp := range gd.Specs {
				if vs, ok := sp.(*ast.ValueSpec); ok {
					for _, n := range vs.Names {
						if n.Name != "_" {
							out[n.Name] = true
						}
					}
				}
			}
		}
	}
	return out
}

func summarize(f *fn) *summary {
	s := &summary{key: f.key, recvType: recvType(f.decl), direct: map[write]bool{}, all: map[write]bool{}, typed: map[string]bool{}}
	globals := pkgVars(f.pkg)
	// names bound inside the function shadow package-level variables
	locals := map[string]bool{}
	ast.Inspect(f.decl, func(n ast.Node) bool {
		switch a := n.(type) {
		case *ast.AssignStmt:
			if a.Tok == token.DEFINE {
				for _, l := range a.Lhs {
					if id, ok := l.(*ast.Ident); ok {
						locals[id.Name] = true
					}
				}
			}
		case *ast.ValueSpec:
			for _, n := range a.Names {
				locals[n.Name] = true
			}
		case *ast.RangeStmt:
			if a.Tok == token.DEFINE {
				for _, kv := range []ast.Expr{a.Key, a.Value} {
					if id, ok := kv.(*ast.Ident); ok {
						locals[id.Name] = true
					}
				}
			}
		case *ast.Field:
			for _, n := range a.Names {
				locals[n.Name] = true
			}
		}
		return true
	})
	// a write whose root is a package-level variable: shared by every goroutine of the process
	recordGlobal := func(root string) {
		if globals[root] && !locals[root] {
			s.typed["global:"+f.pkg.name+"."+root] = true
		}
	}
	s.exported = ast.IsExported(f.decl.Name.Name)
	addParam := func(fl *ast.FieldList) {
		if fl == nil {
			return
		}
		for _, fld := range fl.List {
			for _, n := range fld.Names {
				s.params = append(s.params, n.Name)
				s.ptypes = append(s.ptypes, baseTypeName(fld.Type))
			}
		}
	}
	addParam(f.decl.Recv)
	addParam(f.decl.Type.Params)
	idx := map[string]int{}
	for i, p := range s.params {
		idx[p] = i
	}
	// alias map: local name -> set of param indices
	alias := map[string]map[int]bool{}
	rootsOf := func(e ast.Expr) map[int]bool {
		res := map[int]bool{}
		if r, _, ok := accessPath(e); ok {
			if i, ok := idx[r]; ok {
				res[i] = true
			}
			for i := range alias[r] {
				res[i] = true
			}
			return res
		}
		if cl, ok := e.(*ast.CompositeLit); ok {
			for _, el := range cl.Elts {
				v := el
				if kv, ok := el.(*ast.KeyValueExpr); ok {
					v = kv.Value
				}
				if r, _, ok := accessPath(v); ok {
					if i, ok := idx[r]; ok {
						res[i] = true
					}
					for i := range alias[r] {
						res[i] = true
					}
				}
			}
		}
		if u, ok := e.(*ast.UnaryExpr); ok && u.Op == token.AND {
			if cl, ok := u.X.(*ast.CompositeLit); ok {
				return func() map[int]bool {
					r := map[int]bool{}
					for _, el := range cl.Elts {
						v := el
						if kv, ok := el.(*ast.KeyValueExpr); ok {
							v = kv.Value
						}
						if rr, _, ok := accessPath(v); ok {
							if i, ok := idx[rr]; ok {
								r[i] = true
							}
							for i := range alias[rr] {
								r[i] = true
							}
						}
					}
					return r
				}()
			}
		}
		return res
	}
	// two passes so that aliases defined later in source order (loops) are seen
	for pass := 0; pass < 3; pass++ {
		ast.Inspect(f.decl.Body, func(n ast.Node) bool {
			switch a := n.(type) {
			case *ast.AssignStmt:
				if len(a.Lhs) == len(a.Rhs) || len(a.Rhs) == 1 {
					for i, l := range a.Lhs {
						id, ok := l.(*ast.Ident)
						if !ok {
							continue
						}
						if _, isParam := idx[id.Name]; isParam {
							continue // rebinding a parameter name: `a = tmp`
						}
						var rhs ast.Expr
						if len(a.Lhs) == len(a.Rhs) {
							rhs = a.Rhs[i]
						} else if i == 0 {
							rhs = a.Rhs[0]
						}
						if rhs == nil {
							continue
						}
						for p := range rootsOf(rhs) {
							if alias[id.Name] == nil {
								alias[id.Name] = map[int]bool{}
							}
							alias[id.Name][p] = true
						}
					}
				}
			case *ast.RangeStmt:
				for _, kv := range []ast.Expr{a.Key, a.Value} {
					if id, ok := kv.(*ast.Ident); ok && id.Name != "_" {
						for p := range rootsOf(a.X) {
							if alias[id.Name] == nil {
								alias[id.Name] = map[int]bool{}
							}
							alias[id.Name][p] = true
						}
					}
				}
			}
			return true
		})
	}
	record := func(lhs ast.Expr) {
		r, p, ok := accessPath(lhs)
		if ok {
			recordGlobal(r) // also a plain rebind `global = …`
		}
		if !ok || p == "" {
			return // plain variable rebind, or not an access path
		}
		targets := map[int]bool{}
		if i, ok := idx[r]; ok {
			targets[i] = true
		}
		for i := range alias[r] {
			targets[i] = true
		}
		for i := range targets {
			s.direct[write{i, p}] = true
			first := strings.SplitN(strings.TrimLeft(p, "*"), ".", 2)[0]
			first = strings.TrimSuffix(first, "[]")
			if first == "" {
				first = "*"
			}
			s.typed[s.ptypes[i]+"."+first] = true
		}
	}
	ast.Inspect(f.decl.Body, func(n ast.Node) bool {
		switch a := n.(type) {
		case *ast.AssignStmt:
			for _, l := range a.Lhs {
				record(l)
			}
		case *ast.IncDecStmt:
			record(a.X)
		case *ast.CallExpr:
			c := call{}
			switch fun := a.Fun.(type) {
			case *ast.SelectorExpr:
				// package-qualified function or method call
				if id, ok := fun.X.(*ast.Ident); ok && isPkgName(id.Name) {
					c.name = id.Name + "." + fun.Sel.Name
				} else {
					c.name = fun.Sel.Name
					c.meth = true
					rs := rootsOf(fun.X)
					c.roots = append(c.roots, encodeRoots(rs))
				}
			case *ast.Ident:
				if fun.Name == "append" || fun.Name == "delete" || fun.Name == "copy" {
					if len(a.Args) > 0 && (fun.Name == "delete" || fun.Name == "copy") {
						// delete(m, k) / copy(dst, src) write through their first argument
						if r, p, ok := accessPath(a.Args[0]); ok {
							recordGlobal(r)
							fake := &ast.SelectorExpr{X: ast.NewIdent(r), Sel: ast.NewIdent("x")}
							_ = fake
							targets := map[int]bool{}
							if i, ok := idx[r]; ok {
								targets[i] = true
							}
							for i := range alias[r] {
								targets[i] = true
							}
							for i := range targets {
								pp := p + "[]"
								s.direct[write{i, pp}] = true
								first := strings.TrimSuffix(strings.SplitN(strings.TrimLeft(pp, "*"), ".", 2)[0], "[]")
								s.typed[s.ptypes[i]+"."+first] = true
							}
						}
					}
					return true
				}
				c.name = fun.Name
			default:
				return true
			}
			for _, arg := range a.Args {
				c.roots = append(c.roots, encodeRoots(rootsOf(arg)))
			}
			s.calls = append(s.calls, c)
		}
		return true
	})
	for w := range s.direct {
		s.all[w] = true
	}
	return s
}

var pkgNames = map[string]bool{"auxmath": true, "errors": true, "finitefield": true, "primefield": true,
	"binfield": true, "extfield": true, "conway": true, "univariate": true, "bivariate": true,
	"bits": true, "fmt": true, "strings": true, "strconv": true, "regexp": true, "rand": true, "sort": true, "time": true, "ff": true}

func isPkgName(s string) bool { return pkgNames[s] }

// roots encoded as bitmask over parameter indices (≤ 30 parameters)
func encodeRoots(rs map[int]bool) int {
	m := 0
	for i := range rs {
		m |= 1 << uint(i)
	}
	return m
}

func writeEffects(pkgs []*pkgInfo, funcs map[string]*fn, path string) {
	sums := map[string]*summary{}
	keys := make([]string, 0, len(funcs))
	for k, f := range funcs {
		sums[k] = summarize(f)
		keys = append(keys, k)
	}
	sort.Strings(keys)
	// name index
	byMeth := map[string][]*summary{}
	byFunc := map[string][]*summary{}
	for _, k := range keys {
		s := sums[k]
		parts := strings.Split(k, ".")
		name := parts[len(parts)-1]
		if s.recvType != "" {
			byMeth[name] = append(byMeth[name], s)
		} else {
			byFunc[parts[0]+"."+name] = append(byFunc[parts[0]+"."+name], s)
			byFunc[name] = append(byFunc[name], s) // unqualified call inside the same package
		}
	}
	changed := true
	for iter := 0; changed && iter < 50; iter++ {
		changed = false
		for _, k := range keys {
			s := sums[k]
			pkg := strings.Split(k, ".")[0]
			for _, c := range s.calls {
				var cands []*summary
				if c.meth {
					cands = byMeth[c.name]
				} else if strings.Contains(c.name, ".") {
					cands = byFunc[c.name]
				} else {
					for _, cs := range byFunc[c.name] {
						if strings.HasPrefix(cs.key, pkg+".") {
							cands = append(cands, cs)
						}
					}
				}
				for _, cs := range cands {
					for w := range cs.all {
						// position of the callee's parameter among the actuals
						pos := w.param
						if cs.recvType == "" && c.meth {
							continue
						}
						if cs.recvType != "" && !c.meth {
							continue
						}
						// variadic: clamp
						if pos >= len(c.roots) {
							if len(c.roots) == 0 {
								continue
							}
							pos = len(c.roots) - 1
						}
						mask := c.roots[pos]
						for i := 0; i < len(s.params); i++ {
							if mask&(1<<uint(i)) != 0 {
								nw := write{i, w.path}
								if !s.all[nw] {
									s.all[nw] = true
									changed = true
								}
							}
						}
						// all further variadic actuals
						if w.param >= len(cs.params)-1 && strings.HasPrefix(cs.ptypes[len(cs.ptypes)-1], "[]") {
							for q := pos + 1; q < len(c.roots); q++ {
								for i := 0; i < len(s.params); i++ {
									if c.roots[q]&(1<<uint(i)) != 0 {
										nw := write{i, w.path}
										if !s.all[nw] {
											s.all[nw] = true
											changed = true
										}
									}
								}
							}
						}
					}
				}
			}
		}
	}
	var b strings.Builder
	b.WriteString("-- GENERATED by /verif/extract from /repo's working tree — do not edit\n")
	b.WriteString("namespace Algobra.Gen\n\n")
	b.WriteString("/-- one function: key, receiver type, exported?, parameter names (receiver first), parameter types,\n    may-write set as (parameter index, last path component), direct typed writes \"Type.field\", callee names -/\n")
	b.WriteString("structure Fn where\n  key : String\n  recv : String\n  exported : Bool\n  params : List String\n  ptypes : List String\n  writes : List (Nat × String)\n  typed : List String\n  calls : List String\n\n")
	// chunk the list to keep each definition small
	const chunk = 40
	nchunks := 0
	for i := 0; i < len(keys); i += chunk {
		fmt.Fprintf(&b, "def effects%d : List Fn := [\n", nchunks)
		end := i + chunk
		if end > len(keys) {
			end = len(keys)
		}
		for j := i; j < end; j++ {
			s := sums[keys[j]]
			var ws []string
			seen := map[string]bool{}
			for w := range s.all {
				// keep the last component of the path (the field finally written)
				comps := strings.Split(strings.ReplaceAll(strings.ReplaceAll(w.path, "[]", ""), "*", ""), ".")
				last := comps[len(comps)-1]
				if last == "" {
					last = "*"
				}
				e := fmt.Sprintf("(%d, %s)", w.param, leanStr(last))
				if !seen[e] {
					seen[e] = true
					ws = append(ws, e)
				}
			}
			sort.Strings(ws)
			var ts []string
			for t := range s.typed {
				ts = append(ts, t)
			}
			sort.Strings(ts)
			cn := map[string]bool{}
			for _, c := range s.calls {
				cn[c.name] = true
			}
			var cs []string
			for c := range cn {
				cs = append(cs, c)
			}
			sort.Strings(cs)
			sep := ","
			if j == end-1 {
				sep = ""
			}
			fmt.Fprintf(&b, "  { key := %s, recv := %s, exported := %v, params := %s, ptypes := %s,\n    writes := [%s], typed := %s, calls := %s }%s\n",
				leanStr(s.key), leanStr(s.recvType), s.exported, strList(s.params), strList(s.ptypes),
				strings.Join(ws, ", "), strList(ts), strList(cs), sep)
		}
		b.WriteString("]\n\n")
		nchunks++
	}
	b.WriteString("def effects : List Fn := ")
	for i := 0; i < nchunks; i++ {
		if i > 0 {
			b.WriteString(" ++ ")
		}
		fmt.Fprintf(&b, "effects%d", i)
	}
	b.WriteString("\n\nend Algobra.Gen\n")
	writeFile(path, b.String())
}
