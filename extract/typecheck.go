package main

import (
	"go/ast"
	"go/build"
	"go/importer"
	"go/types"
	"os"
	"path/filepath"
	"sort"
	"strings"
)

// Type checking of the repository's packages (go/types, offline).
//
// The packages of the module are checked from the ASTs that loadPkg has parsed (same file selection:
// no _test.go files, no files guarded by the `verif` build tag); imports inside the module are
// resolved recursively by this importer, every other import (the standard library) by the "source"
// importer of go/importer, which type-checks $GOROOT/src and needs neither network nor export data.

type typedPkg struct {
	pi    *pkgInfo
	path  string
	tpkg  *types.Package
	info  *types.Info
	files []*ast.File
}

type repoImporter struct {
	repo    string
	module  string
	std     types.Importer
	pkgs    map[string]*typedPkg // by import path
	byDir   map[string]*pkgInfo  // by directory relative to the repository root
	loading map[string]bool
	errs    []string
}

func modulePath(repo string) string {
	data, err := os.ReadFile(filepath.Join(repo, "go.mod"))
	if err != nil {
		fatal("read go.mod: %v", err)
	}
	for _, l := range strings.Split(string(data), "\n") {
		l = strings.TrimSpace(l)
		if strings.HasPrefix(l, "module ") {
			return strings.TrimSpace(strings.TrimPrefix(l, "module "))
		}
	}
	fatal("no module line in go.mod")
	return ""
}

func newRepoImporter(repo string, pkgs []*pkgInfo) *repoImporter {
	build.Default.CgoEnabled = false
	ri := &repoImporter{repo: repo, module: modulePath(repo), std: importer.ForCompiler(fset, "source", nil),
		pkgs: map[string]*typedPkg{}, byDir: map[string]*pkgInfo{}, loading: map[string]bool{}}
	for _, p := range pkgs {
		ri.byDir[p.dir] = p
	}
	return ri
}

func (ri *repoImporter) Import(path string) (*types.Package, error) {
	if path == ri.module || strings.HasPrefix(path, ri.module+"/") {
		tp := ri.check(strings.TrimPrefix(strings.TrimPrefix(path, ri.module), "/"))
		return tp.tpkg, nil
	}
	return ri.std.Import(path)
}

func (ri *repoImporter) check(dir string) *typedPkg {
	path := ri.module
	if dir != "" {
		path += "/" + dir
	}
	if tp, ok := ri.pkgs[path]; ok {
		return tp
	}
	if ri.loading[path] {
		fatal("import cycle through %s", path)
	}
	ri.loading[path] = true
	pi := ri.byDir[dir]
	if pi == nil {
		pi = loadPkg(ri.repo, dir)
		ri.byDir[dir] = pi
	}
	names := make([]string, 0, len(pi.files))
	for n := range pi.files {
		names = append(names, n)
	}
	sort.Strings(names)
	var files []*ast.File
	for _, n := range names {
		files = append(files, pi.files[n])
	}
	info := &types.Info{
		Types:      map[ast.Expr]types.TypeAndValue{},
		Defs:       map[*ast.Ident]types.Object{},
		Uses:       map[*ast.Ident]types.Object{},
		Implicits:  map[ast.Node]types.Object{},
		Selections: map[*ast.SelectorExpr]*types.Selection{},
		Scopes:     map[ast.Node]*types.Scope{},
	}
	conf := types.Config{Importer: ri, Error: func(err error) { ri.errs = append(ri.errs, err.Error()) }}
	tpkg, _ := conf.Check(path, fset, files, info)
	tp := &typedPkg{pi: pi, path: path, tpkg: tpkg, info: info, files: files}
	ri.pkgs[path] = tp
	delete(ri.loading, path)
	return tp
}

// typeCheckAll checks the given packages (and, through their imports, every other package of the
// module they use, e.g. finitefield/ff); a type error aborts the extraction.
func typeCheckAll(repo string, pkgs []*pkgInfo) []*typedPkg {
	ri := newRepoImporter(repo, pkgs)
	for _, p := range pkgs {
		ri.check(p.dir)
	}
	if len(ri.errs) > 0 {
		n := len(ri.errs)
		if n > 10 {
			n = 10
		}
		fatal("the repository does not type-check:\n  %s", strings.Join(ri.errs[:n], "\n  "))
	}
	paths := make([]string, 0, len(ri.pkgs))
	for p := range ri.pkgs {
		paths = append(paths, p)
	}
	sort.Strings(paths)
	var out []*typedPkg
	for _, p := range paths {
		out = append(out, ri.pkgs[p])
	}
	return out
}
