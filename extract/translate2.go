package main

// translate2.go — helpers of the translator for slices with indexing (partial functions), struct values,
// `range` over a slice variable, `continue`, labelled `continue`, package-qualified calls.
// See the header comment of translate.go for the assumed Go semantics.

import (
	"fmt"
	"go/ast"
	"go/token"
	"sort"
	"strings"
)

func isSliceTy(ty string) bool {
	return ty == "[]uint" || ty == "[]int" || ty == "[][]uint" || ty == "[]ff.Element"
}

func elemTy(ty string) string { return strings.TrimPrefix(ty, "[]") }

// zero value of a Go type as a Lean term (used for `make` and as the never-taken default of a guarded read)
func zeroOf(ty string) string {
	switch ty {
	case "uint":
		return "(0 : Nat)"
	case "int":
		return "(0 : Int)"
	case "bool":
		return "false"
	case "[]uint":
		return "([] : List Nat)"
	case "[]int":
		return "([] : List Int)"
	case "[][]uint":
		return "([] : List (List Nat))"
	case "error":
		return "none"
	case "ff.Element":
		return "(none : Option Nat)"
	case "[]ff.Element":
		return "([] : List (Option Nat))"
	}
	return ""
}

func basicTy(ty string) bool {
	return ty == "uint" || ty == "int" || ty == "bool" || ty == "error" || isSliceTy(ty)
}

type sField struct{ name, ty string }

// fields of a struct type declared in the package, in declaration order
func structFields(p *pkgInfo, name string) []sField {
	if p == nil {
		return nil
	}
	var names []string
	for n := range p.files {
		names = append(names, n)
	}
	sort.Strings(names)
	for _, n := range names {
		for _, d := range p.files[n].Decls {
			gd, ok := d.(*ast.GenDecl)
			if !ok || gd.Tok != token.TYPE {
				continue
			}
			for _, sp := range gd.Specs {
				ts := sp.(*ast.TypeSpec)
				st, ok := ts.Type.(*ast.StructType)
				if !ok || ts.Name.Name != name {
					continue
				}
				var out []sField
				for _, f := range st.Fields.List {
					for _, fn := range f.Names {
						out = append(out, sField{fn.Name, src(f.Type)})
					}
					if len(f.Names) == 0 {
						out = append(out, sField{"", src(f.Type)})
					}
				}
				return out
			}
		}
	}
	return nil
}

// a struct all of whose fields have basic types is a Lean tuple of its fields (declaration order)
func (t *tr) structTuple(goTy string) ([]sField, bool) {
	fs := structFields(t.fn.pkg, strings.TrimPrefix(goTy, "*"))
	if len(fs) == 0 {
		return nil, false
	}
	for _, f := range fs {
		if !basicTy(f.ty) {
			return nil, false
		}
	}
	return fs, true
}

// Lean type of a Go type, with struct values as tuples
func (t *tr) leanTypeG(goTy string) string {
	if fs, ok := t.structTuple(goTy); ok {
		var tys []string
		for _, f := range fs {
			tys = append(tys, leanType(f.ty))
		}
		return strings.Join(tys, " × ")
	}
	return leanType(goTy)
}

// declared Go type (pointer stripped) of an expression rooted at the receiver or a parameter
func (t *tr) declType(e ast.Expr) string {
	switch v := e.(type) {
	case *ast.ParenExpr:
		return t.declType(v.X)
	case *ast.Ident:
		d := t.fn.decl
		var lists []*ast.FieldList
		if d.Recv != nil {
			lists = append(lists, d.Recv)
		}
		lists = append(lists, d.Type.Params)
		for _, fl := range lists {
			for _, f := range fl.List {
				for _, n := range f.Names {
					if n.Name == v.Name {
						return strings.TrimPrefix(src(f.Type), "*")
					}
				}
			}
		}
	case *ast.SelectorExpr:
		if bt := t.declType(v.X); bt != "" {
			for _, f := range structFields(t.fn.pkg, bt) {
				if f.name == v.Sel.Name {
					return strings.TrimPrefix(f.ty, "*")
				}
			}
		}
	}
	return ""
}

// guards ------------------------------------------------------------------------------------------

func (t *tr) addGuard(g string) {
	t.needPartial = true
	for _, x := range t.guards {
		if x == g {
			return
		}
	}
	t.guards = append(t.guards, g)
}

func (t *tr) takeGuards() []string {
	g := t.guards
	t.guards = nil
	return g
}

// the value of a run-time panic at the current position: the function returns `none`
func (t *tr) panicVal() string {
	if !t.partial {
		return "(unsupported)"
	}
	if t.retVar != "" {
		return "let " + t.retVar + " : Option (" + t.retTy + ") := some none; " + t.retTuple(t.results)
	}
	if t.isLoopBody {
		return t.fail("panic inside a loop without return slot")
	}
	return "none"
}

func (t *tr) wrapGuards(g []string, body string) string {
	if len(g) == 0 {
		return body
	}
	// runs of guards become one conditional; a bound call of a partial function becomes a match
	for i := len(g) - 1; i >= 0; {
		if strings.HasPrefix(g[i], "BIND:") {
			parts := strings.SplitN(g[i], ":", 3)
			body = "(match " + parts[2] + " with | some " + parts[1] + " => " + body + " | none => " + t.panicVal() + ")"
			i--
			continue
		}
		j := i
		for j >= 0 && !strings.HasPrefix(g[j], "BIND:") {
			j--
		}
		body = "(if " + strings.Join(g[j+1:i+1], " ∧ ") + " then " + body + " else " + t.panicVal() + ")"
		i = j
	}
	return body
}

// position of an index expression inside the slice `xs` (a Lean term), registering the bounds guard
func (t *tr) indexPos(xs string, idx ast.Expr) string {
	i := t.argExpr(idx)
	if t.typeOf(idx) == "int" {
		t.addGuard("(0 ≤ (" + i + " : Int) ∧ (" + i + " : Int) < Int.ofNat (List.length " + xs + "))")
		return "(Int.toNat " + i + ")"
	}
	t.addGuard("(" + i + " < List.length " + xs + ")")
	return i
}

// `xs[i]` for a slice xs
func (t *tr) sliceRead(v *ast.IndexExpr) string {
	xs := t.argExpr(v.X)
	pos := t.indexPos(xs, v.Index)
	return "(List.getD " + xs + " " + pos + " " + zeroOf(elemTy(t.typeOf(v.X))) + ")"
}

// base variable (identifier or mangled selector) and index list of an assignment target `b[i]`, `b[i][j]`
func (t *tr) indexTarget(e ast.Expr) (base ast.Expr, idx []ast.Expr) {
	for {
		ie, ok := e.(*ast.IndexExpr)
		if !ok {
			return e, idx
		}
		idx = append([]ast.Expr{ie.Index}, idx...)
		e = ie.X
	}
}

func stripIndex(e ast.Expr) ast.Expr {
	for {
		ie, ok := e.(*ast.IndexExpr)
		if !ok {
			return e
		}
		e = ie.X
	}
}

// `b[i] = rhs` / `b[i][j] = rhs` as the new value of b
func (t *tr) sliceSet(baseName, baseTy string, idx []ast.Expr, rhs string) string {
	switch len(idx) {
	case 1:
		pos := t.indexPos(baseName, idx[0])
		return "(List.set " + baseName + " " + pos + " " + rhs + ")"
	case 2:
		pos1 := t.indexPos(baseName, idx[0])
		row := "(List.getD " + baseName + " " + pos1 + " " + zeroOf(elemTy(baseTy)) + ")"
		pos2 := t.indexPos(row, idx[1])
		return "(List.set " + baseName + " " + pos1 + " (List.set " + row + " " + pos2 + " " + rhs + "))"
	}
	return t.fail("assignment through %d indices", len(idx))
}

// desugaring ----------------------------------------------------------------------------------------

func ident(s string) *ast.Ident { return ast.NewIdent(s) }

func intLit(s string) *ast.BasicLit { return &ast.BasicLit{Kind: token.INT, Value: s} }

// `for k, v := range X { body }` over a slice variable X:
//   rngN_len := len(X); for k := 0; k < rngN_len; k++ { v := X[k]; body }
func (t *tr) desugarRange(v *ast.RangeStmt) ([]ast.Stmt, bool) {
	switch v.X.(type) {
	case *ast.Ident, *ast.SelectorExpr:
	default:
		return nil, false
	}
	if v.Tok != token.DEFINE || !isSliceTy(t.typeOf(v.X)) {
		return nil, false
	}
	*t.rangeN++
	n := *t.rangeN
	key := fmt.Sprintf("rng%d_i", n)
	if v.Key != nil && src(v.Key) != "_" {
		key = src(v.Key)
	}
	xName, _ := mangle(v.X)
	for _, a := range assignedVars(t, v.Body.List) {
		if a == key || (v.Value != nil && a == xName) {
			return nil, false
		}
	}
	ln := fmt.Sprintf("rng%d_len", n)
	body := v.Body.List
	if v.Value != nil && src(v.Value) != "_" {
		bind := &ast.AssignStmt{Lhs: []ast.Expr{v.Value}, Tok: token.DEFINE, Rhs: []ast.Expr{&ast.IndexExpr{X: v.X, Index: ident(key)}}}
		body = append([]ast.Stmt{bind}, body...)
	}
	return []ast.Stmt{
		&ast.AssignStmt{Lhs: []ast.Expr{ident(ln)}, Tok: token.DEFINE, Rhs: []ast.Expr{&ast.CallExpr{Fun: ident("len"), Args: []ast.Expr{v.X}}}},
		&ast.ForStmt{
			Init: &ast.AssignStmt{Lhs: []ast.Expr{ident(key)}, Tok: token.DEFINE, Rhs: []ast.Expr{intLit("0")}},
			Cond: &ast.BinaryExpr{X: ident(key), Op: token.LSS, Y: ident(ln)},
			Post: &ast.IncDecStmt{X: ident(key), Tok: token.INC},
			Body: &ast.BlockStmt{List: body},
		},
	}, true
}

func isLoop(s ast.Stmt) bool {
	switch s.(type) {
	case *ast.ForStmt, *ast.RangeStmt:
		return true
	}
	return false
}

func hasContinueTo(n ast.Node, label string) bool {
	found := false
	ast.Inspect(n, func(m ast.Node) bool {
		if b, ok := m.(*ast.BranchStmt); ok && b.Tok == token.CONTINUE && b.Label != nil && b.Label.Name == label {
			found = true
		}
		return true
	})
	return found
}

// copy of a statement with every `continue label` replaced by `{ flag = true; break }`; only blocks and
// conditionals are entered (a `continue label` below a further loop is left alone and refused later)
func replaceContinue(s ast.Stmt, label, flag string) ast.Stmt {
	switch v := s.(type) {
	case *ast.BranchStmt:
		if v.Tok == token.CONTINUE && v.Label != nil && v.Label.Name == label {
			return &ast.BlockStmt{List: []ast.Stmt{
				&ast.AssignStmt{Lhs: []ast.Expr{ident(flag)}, Tok: token.ASSIGN, Rhs: []ast.Expr{ident("true")}},
				&ast.BranchStmt{Tok: token.BREAK},
			}}
		}
	case *ast.BlockStmt:
		out := &ast.BlockStmt{}
		for _, x := range v.List {
			out.List = append(out.List, replaceContinue(x, label, flag))
		}
		return out
	case *ast.IfStmt:
		out := &ast.IfStmt{Init: v.Init, Cond: v.Cond, Body: replaceContinue(v.Body, label, flag).(*ast.BlockStmt)}
		if v.Else != nil {
			out.Else = replaceContinue(v.Else, label, flag)
		}
		return out
	}
	return s
}

// body of the loop labelled `label`: an inner loop L (a statement of the body) containing `continue label`
// becomes   cntN := false; L[continue label ↦ {cntN = true; break}]; if cntN { continue }
func (t *tr) desugarLabelledContinue(body []ast.Stmt, label string) []ast.Stmt {
	var out []ast.Stmt
	for _, s := range body {
		if !isLoop(s) || !hasContinueTo(s, label) {
			out = append(out, s)
			continue
		}
		*t.rangeN++
		flag := fmt.Sprintf("cnt%d", *t.rangeN)
		var inner ast.Stmt
		switch l := s.(type) {
		case *ast.ForStmt:
			inner = &ast.ForStmt{Init: l.Init, Cond: l.Cond, Post: l.Post, Body: replaceContinue(l.Body, label, flag).(*ast.BlockStmt)}
		case *ast.RangeStmt:
			inner = &ast.RangeStmt{Key: l.Key, Value: l.Value, Tok: l.Tok, X: l.X, Body: replaceContinue(l.Body, label, flag).(*ast.BlockStmt)}
		}
		out = append(out,
			&ast.AssignStmt{Lhs: []ast.Expr{ident(flag)}, Tok: token.DEFINE, Rhs: []ast.Expr{ident("false")}},
			inner,
			&ast.IfStmt{Cond: ident(flag), Body: &ast.BlockStmt{List: []ast.Stmt{&ast.BranchStmt{Tok: token.CONTINUE}}}})
	}
	return out
}

// Lean type of a parameter of function type over words, `func(i, j uint) uint` ↦ `Nat → Nat → Nat`
func funcLeanType(e ast.Expr) (string, string, bool) {
	ft, ok := e.(*ast.FuncType)
	if !ok || ft.Results == nil || len(ft.Results.List) != 1 || len(ft.Results.List[0].Names) > 1 {
		return "", "", false
	}
	var tys []string
	for _, f := range ft.Params.List {
		ty := src(f.Type)
		if ty != "uint" && ty != "int" && ty != "bool" {
			return "", "", false
		}
		n := len(f.Names)
		if n == 0 {
			n = 1
		}
		for i := 0; i < n; i++ {
			tys = append(tys, leanType(ty))
		}
	}
	rt := src(ft.Results.List[0].Type)
	if rt != "uint" && rt != "int" && rt != "bool" {
		return "", "", false
	}
	return strings.Join(append(tys, leanType(rt)), " → "), rt, true
}

// `T{a: x, …}` for a struct of basic fields: the tuple of its fields, zero values for omitted fields
func (t *tr) structLit(cl *ast.CompositeLit, fs []sField) string {
	vals := map[string]string{}
	for _, el := range cl.Elts {
		kv, ok := el.(*ast.KeyValueExpr)
		if !ok {
			return t.fail("struct literal without field names %s", src(cl))
		}
		vals[src(kv.Key)] = t.expr(kv.Value)
	}
	var out []string
	for _, f := range fs {
		if v, ok := vals[f.name]; ok {
			out = append(out, v)
			delete(vals, f.name)
		} else {
			out = append(out, zeroOf(f.ty))
		}
	}
	if len(vals) > 0 {
		return t.fail("struct literal with unknown field %s", src(cl))
	}
	return t.retTuple(out)
}

// make([]T, n) / make([]T, n, n) for the indexed slice types: n zero values.  A signed length must be
// non-negative (Go panics otherwise); running out of memory is not modelled.
func (t *tr) makeSlice(c *ast.CallExpr) (string, bool) {
	if len(c.Args) < 2 || len(c.Args) > 3 || !isSliceTy(src(c.Args[0])) {
		return "", false
	}
	ty := src(c.Args[0])
	if len(c.Args) == 2 && ty == "[]uint" {
		return "", false // (the older translation of make([]uint, n) applies)
	}
	if bl, ok := c.Args[1].(*ast.BasicLit); ok && bl.Value == "0" && len(c.Args) == 3 {
		// make([]T, 0, c): the empty slice (the capacity is invisible; a signed c must be non-negative)
		if t.typeOf(c.Args[2]) == "int" {
			t.addGuard("(0 ≤ (" + t.argExpr(c.Args[2]) + " : Int))")
		}
		return zeroOf(ty), true
	}
	if len(c.Args) == 3 && src(c.Args[1]) != src(c.Args[2]) {
		return "", false
	}
	n := t.argExpr(c.Args[1])
	if t.typeOf(c.Args[1]) == "int" {
		t.addGuard("(0 ≤ (" + n + " : Int))")
		n = "(Int.toNat " + n + ")"
	}
	return "(List.replicate " + n + " " + zeroOf(elemTy(ty)) + ")", true
}

// aliasCheck refuses the uses of slices under which the value semantics of the translation (a slice is a
// Lean list) would differ from Go's reference semantics: a slice that is assigned through an index must be
// a receiver field or a local variable that only ever holds the result of `make`, and it may not be copied
// (`u := s`, `x.f = s`) or passed to a function other than len.
func aliasCheck(recv string, params map[string]bool, stmts []ast.Stmt) string {
	bases := map[string]ast.Expr{}
	for _, s := range stmts {
		ast.Inspect(s, func(n ast.Node) bool {
			var lhs []ast.Expr
			switch a := n.(type) {
			case *ast.AssignStmt:
				lhs = a.Lhs
			case *ast.IncDecStmt:
				lhs = []ast.Expr{a.X}
			}
			for _, l := range lhs {
				if _, ok := l.(*ast.IndexExpr); ok {
					b := stripIndex(l)
					if m, ok := mangle(b); ok {
						bases[m] = b
					} else {
						bases["?"] = b
					}
				}
			}
			return true
		})
	}
	if len(bases) == 0 {
		return ""
	}
	isMake := func(e ast.Expr) bool {
		c, ok := e.(*ast.CallExpr)
		return ok && src(c.Fun) == "make"
	}
	inB := func(e ast.Expr) (string, bool) {
		if p, ok := e.(*ast.ParenExpr); ok {
			e = p.X
		}
		m, ok := mangle(e)
		if !ok {
			return "", false
		}
		_, is := bases[m]
		return m, is
	}
	okAppend := map[*ast.CallExpr]bool{}
	for _, s := range stmts {
		ast.Inspect(s, func(n ast.Node) bool {
			if a, ok := n.(*ast.AssignStmt); ok && len(a.Lhs) == 1 && len(a.Rhs) == 1 && a.Tok == token.ASSIGN {
				if c, ok := a.Rhs[0].(*ast.CallExpr); ok && src(c.Fun) == "append" && len(c.Args) > 0 && src(c.Args[0]) == src(a.Lhs[0]) {
					okAppend[c] = true // `b = append(b, …)`: the old value of b is dead
				}
			}
			return true
		})
	}
	bad := ""
	for m, b := range bases {
		if m == "?" {
			return "assignment through an index of " + src(b)
		}
		if id, ok := b.(*ast.Ident); ok {
			if params[id.Name] {
				bad = "assignment through an index of the parameter " + id.Name
			}
		} else if rootIdent(b) != recv || recv == "" {
			bad = "assignment through an index of " + src(b)
		}
	}
	for _, s := range stmts {
		ast.Inspect(s, func(n ast.Node) bool {
			switch a := n.(type) {
			case *ast.AssignStmt:
				for i, r := range a.Rhs {
					if m, ok := inB(r); ok {
						bad = "slice " + m + " is copied and also assigned through an index"
					}
					if len(a.Lhs) == len(a.Rhs) {
						if id, ok := a.Lhs[i].(*ast.Ident); ok {
							if _, is := bases[id.Name]; is && !isMake(r) {
								bad = "slice " + id.Name + " is assigned through an index but does not come from make"
							}
						}
					}
				}
				if len(a.Lhs) != len(a.Rhs) {
					for _, l := range a.Lhs {
						if id, ok := l.(*ast.Ident); ok {
							if _, is := bases[id.Name]; is {
								bad = "slice " + id.Name + " is assigned through an index but does not come from make"
							}
						}
					}
				}
			case *ast.ValueSpec:
				for _, id := range a.Names {
					if _, is := bases[id.Name]; is {
						bad = "slice " + id.Name + " is assigned through an index but does not come from make"
					}
				}
			case *ast.RangeStmt:
				for _, l := range []ast.Expr{a.Key, a.Value} {
					if id, ok := l.(*ast.Ident); ok {
						if _, is := bases[id.Name]; is {
							bad = "slice " + id.Name + " is a range variable and assigned through an index"
						}
					}
				}
			case *ast.CallExpr:
				if f := src(a.Fun); f != "len" && !okAppend[a] {
					for _, x := range a.Args {
						if m, ok := inB(x); ok {
							bad = "slice " + m + " is passed to " + f + " and also assigned through an index"
						}
					}
				}
			case *ast.KeyValueExpr:
				// (a struct literal holding the slice: allowed, it is the returned value)
			}
			return true
		})
	}
	return bad
}

// ---------------------------------------------------------------------------------------------
// field elements as abstract values; calls of translated methods on the own receiver

const elemGo = "ff.Element"

// element methods that return a bool (all other element methods return an element)
var elemBoolMethods = map[string]bool{"IsZero": true, "IsOne": true, "IsNonzero": true}

// methodInfo describes a translated method for callers in the same package
type methodInfo struct {
	lean     string
	extra    []string          // extra parameters (receiver fields, method_M functions), in order
	extraTy  map[string]string // their Lean types
	extraGo  map[string]string // Go types of receiver-field parameters
	nArgs    int
	partial  bool
	retGo    string   // Go result type ("" for a mutator)
	assigned []string // receiver fields returned by a mutator (void method or `return f`)
	assTy    []string // their Go types
}

var methodReg = map[string]*methodInfo{}

func (t *tr) recvTypeName() string {
	return recvType(t.fn.decl)
}

// f.M(…) with f the receiver and M a translated method of the same type
func (t *tr) ownMethod(c *ast.CallExpr) (*methodInfo, bool) {
	sel, ok := c.Fun.(*ast.SelectorExpr)
	if !ok || t.recvName == "" || t.noOwn {
		return nil, false
	}
	id, ok := sel.X.(*ast.Ident)
	if !ok || id.Name != t.recvName {
		return nil, false
	}
	mi, ok := methodReg[t.fn.pkg.name+"."+t.recvTypeName()+"."+sel.Sel.Name]
	return mi, ok
}

// the Lean application of a translated method to the current state of the receiver
func (t *tr) ownCall(mi *methodInfo, c *ast.CallExpr) string {
	var args []string
	for _, e := range mi.extra {
		if !t.extraSet[e] {
			t.extraSet[e] = true
			t.extra = append(t.extra, e)
			t.extraTy[e] = mi.extraTy[e]
			if g, ok := mi.extraGo[e]; ok {
				t.types[e] = g
			}
		}
		args = append(args, e)
	}
	for _, a := range c.Args {
		args = append(args, t.argExpr(a))
	}
	return "(" + mi.lean + " " + strings.Join(args, " ") + ")"
}

// value of a call of a partial function inside an expression: bound before the statement
func (t *tr) bindPartial(e string) string {
	t.needPartial = true
	*t.rangeN++
	name := fmt.Sprintf("call%d", *t.rangeN)
	t.guards = append(t.guards, "BIND:"+name+":"+e)
	return name
}

// E.M(args) with E an element-valued expression (Option Nat): the method is the uninterpreted function
// method_M of the element's value; a nil element is a nil dereference (panic)
func (t *tr) elemMethod(c *ast.CallExpr) (val string, isBool bool, ok bool) {
	sel, isSel := c.Fun.(*ast.SelectorExpr)
	if !isSel || t.typeOf(sel.X) != elemGo {
		return "", false, false
	}
	recv := t.argExpr(sel.X)
	t.addGuard("(Option.isSome " + recv + " = true)")
	args := []string{"(Option.getD " + recv + " 0)"}
	tys := []string{"Nat"}
	for _, a := range c.Args {
		if t.typeOf(a) == elemGo {
			x := t.argExpr(a)
			t.addGuard("(Option.isSome " + x + " = true)")
			args = append(args, "(Option.getD "+x+" 0)")
			tys = append(tys, "Nat")
		} else if t.typeOf(a) == "int" {
			args = append(args, t.argExpr(a))
			tys = append(tys, "Int")
		} else {
			args = append(args, t.argExpr(a))
			tys = append(tys, "Nat")
		}
	}
	name := "method_" + sel.Sel.Name
	isBool = elemBoolMethods[sel.Sel.Name]
	res := "Nat"
	if isBool {
		res = "Bool"
	}
	ty := strings.Join(append(tys, res), " → ")
	if !t.extraSet[name] {
		t.extraSet[name] = true
		t.extra = append(t.extra, name)
		t.extraTy[name] = ty
	} else if t.extraTy[name] != ty {
		t.fail("method %s used at different types", name)
	}
	return "(" + name + " " + strings.Join(args, " ") + ")", isBool, true
}

// an expression whose evaluation may panic (used to respect the short-circuit evaluation of &&)
func (t *tr) mayPanic(e ast.Expr) bool {
	found := false
	ast.Inspect(e, func(n ast.Node) bool {
		switch v := n.(type) {
		case *ast.IndexExpr:
			if isSliceTy(t.typeOf(v.X)) {
				found = true
			}
		case *ast.SliceExpr:
			found = true
		case *ast.CallExpr:
			if sel, ok := v.Fun.(*ast.SelectorExpr); ok && t.typeOf(sel.X) == elemGo {
				found = true
			}
			if mi, ok := t.ownMethod(v); ok && mi.partial {
				found = true
			}
		}
		return true
	})
	return found
}

// `&T{field: …, val: X}` / `T{…}` for an object struct (not a tuple of basic fields) that has a `val`
// field: the object is represented by its value word X (the other fields are the context)
func (t *tr) objectLit(e ast.Expr) (ast.Expr, bool) {
	if p, ok := e.(*ast.ParenExpr); ok {
		e = p.X
	}
	if u, ok := e.(*ast.UnaryExpr); ok && u.Op == token.AND {
		e = u.X
	}
	cl, ok := e.(*ast.CompositeLit)
	if !ok {
		return nil, false
	}
	if _, isTuple := t.structTuple(src(cl.Type)); isTuple {
		return nil, false
	}
	hasVal := false
	for _, f := range structFields(t.fn.pkg, src(cl.Type)) {
		if f.name == "val" && f.ty == "uint" {
			hasVal = true
		}
	}
	if !hasVal {
		return nil, false
	}
	for _, el := range cl.Elts {
		if kv, ok := el.(*ast.KeyValueExpr); ok && src(kv.Key) == "val" {
			return kv.Value, true
		}
	}
	return nil, false
}

// every `return` of the body returns the receiver itself
func returnsOnlyRecv(d *ast.FuncDecl, recv string) bool {
	n, ok := 0, true
	ast.Inspect(d.Body, func(m ast.Node) bool {
		if _, isLit := m.(*ast.FuncLit); isLit {
			return false
		}
		if r, isRet := m.(*ast.ReturnStmt); isRet {
			n++
			if len(r.Results) != 1 || src(r.Results[0]) != recv {
				ok = false
			}
		}
		return true
	})
	return ok && n > 0
}
