package main

// translate.go — a small Go→Lean translator for the word-level code of the library.
//
// Supported subset (anything else makes the function come out as `unsupported "<reason>"`, which breaks
// the Lean build of the equivalence theorems rather than silently passing):
//   types       uint (Lean Nat, every + - * << truncated by w64 / wsub), int (Lean Int, results wrapped by
//               wrapInt), bool, [2]uint (pairs), error (Option Kind), func values (Lean functions)
//   statements  := and = (also op=, ++, --), if/else, tagless switch, return, for loops (translated to a
//               fuel-bounded local recursion: `loopN fuel state`), named results
//   expressions arithmetic, comparisons, && || !, indexing of [2]uint, composite literals [2]uint{…},
//               calls of translated functions, function literals, bits.Len / bits.OnesCount /
//               bits.UintSize, uint(…) / int(…) conversions, errors.New(op, errors.Kind, …), nil
//   selector expressions rooted at the receiver or a parameter (f.char, a.field.extDeg, f.Card()) are
//               treated as additional word parameters named by mangling (f_char, a_field_extDeg, f_Card);
//               assigned selectors (a.val ^= …) become mutable variables whose final values are returned
//               when the function returns its receiver.
//   slices      []uint is a Lean `List Nat` (a value): literals, make([]uint, n), append(s, x…) = s ++ [x…],
//               append(s, r...) = s ++ r, len; `for _, x := range []uint{e1, …}` (no break/continue) is
//               unrolled after evaluating the elements.  Also []int (`List Int`) and [][]uint
//               (`List (List Nat)`), make([]T, n, n) (n zero values; capacity = length only)
//   indexing    `s[i]` of a slice and `s[i] = e`, `s[i]++`, `s[i][j] = e` (List.getD / List.set) make the
//               function PARTIAL: Go panics when an index is out of range (or a signed make length is
//               negative).  The function is then translated with result type `Option …`; every statement
//               is preceded by the guards of the index expressions it evaluates (`0 ≤ i ∧ i < len` for an
//               int index, `i < len` for a uint index, evaluated in the state before the statement, as Go
//               evaluates operands before assigning) and yields `none` when a guard fails (inside a loop:
//               the loop's return slot gets `some none`).  The `getD` default is never reached under its
//               guard.  Refused: an indexing expression on the right of && / || (short-circuit), in a
//               loop condition, a switch case, a declaration, a function literal; calls of partial
//               functions other than `return self(…)`.  Which panic occurs first is not distinguished;
//               running out of memory in make is not modelled.  Slices are values; so that Go's reference
//               semantics cannot be observed, a function is refused (aliasCheck) when a slice assigned
//               through an index is a parameter, does not come from `make` (local) / is not a receiver
//               field, is copied (`u := s`) or passed to a function other than len, when a slice stored
//               through an index is not a fresh `make`, or when a row `t[i]` is copied into a variable.
//   structs     a struct of the package all of whose fields are words/ints/bools/slices is the tuple of
//               its fields in declaration order; `&T{f: e, …}` / `T{…}` is that tuple with zero values for
//               omitted fields (a pointer to a fresh value is the value); a receiver field of type
//               bool/int/slice is a parameter of that type
//   void methods  a method without results returns the final values of the receiver fields it assigns
//               (sorted by mangled name); assumes the receiver is reachable only through its own name
//   range       `for i := range s`, `for _, x := range s`, `for i, x := range s` over a slice variable or
//               field s: `rngN_len := len(s); for i := 0; i < rngN_len; i++ { x := s[i]; … }` (Go evaluates
//               the range expression once; refused when the body assigns the key, or — with a value
//               variable — assigns s)
//   continue    `continue` (own loop): the rest of the body is dropped, the post statement runs.
//               `continue L` inside a loop nested directly in the body of the loop labelled L:
//               `cntN := false; inner loop with {cntN = true; break} for continue L; if cntN { continue }`
//   qualified calls  `pkg.F(…)` of an already translated package-level function; the results of a callee
//               with recursion fuel are bound by projections (`let r := f loopFuel x; let a := r.1; …`), not
//               by a tuple pattern, so that unfolding the caller never forces the evaluation of the callee
//   suffix heads  in a suffix translation (suffixList) a slice bound in the skipped head by
//               `xs, … := f(…)` with f translated is a parameter `(xs : List …)` of the core
//   nil objects `var e *T` (no value): e is a local object whose nil value word is the uninterpreted
//               parameter `nil_T` (so nothing can be proved about a returned nil)
//   method chains  `x.M(a).P()` as a condition, x a local object: `method_P (method_M x a)` with an
//               uninterpreted `method_P : Nat → Bool`
//   elements    a value of the interface type ff.Element is `Option Nat`: `none` = nil, `some w` = an element
//               as an abstract VALUE word w; `[]ff.Element` is `List (Option Nat)`.  `E.M(args)` on an element
//               expression E is `method_M w args` with an uninterpreted function parameter (result Bool
//               for IsZero/IsOne/IsNonzero, else an element) under the guard E ≠ nil (nil dereference);
//               element arguments are passed as their values under the same guard.  The statement
//               `b[i].M(args)` (in-place mutation of the element object in slot i) sets slot i to
//               `some (method_M old args)`.  ASSUMPTIONS: element objects are not shared between slots /
//               polynomials / the caller (sharing is invisible to values); methods return non-nil elements;
//               an element obtained from outside (`return f.BaseField().Zero()`) is an uninterpreted
//               `Option Nat` parameter.
//   s[:n]       `List.take n s` under the guard 0 ≤ n ≤ len(s).  Go allows n up to the CAPACITY, which lists
//               do not have: here `none` means "panic, or a reslice into spare capacity (not modelled)";
//               `cap`, `s[a:b]`, `s[a:]`, three-index slices are refused.  `b = append(b, r...)` is `b ++ r`
//               (whether the backing array is reused is invisible).
//   own methods `f.M(args)` on the receiver, M an already translated method of the same type with word/int/
//               element arguments: its translation applied to the CURRENT values of the receiver fields it
//               reads; a partial callee is bound before the statement (`match … with | none => panic`); a
//               callee without results (or returning its receiver) is a statement that rebinds the
//               receiver fields it assigns.  A method returning its own receiver type returns the fields
//               it assigns.
//   object literals  `&T{field: f, val: X}` for an object struct with a `val uint` field (not a tuple struct) is the
//               value word X: as a returned `*T` it is X, as a returned ff.Element it is `some X`;
//               `a := &T{…}` makes a a local object (method statements as for `x := a.Copy()`).  A method
//               whose every `return` returns its receiver as an ff.Element returns the fields it assigns.
//               `make([]T, 0, c)` is the empty list (capacity invisible).  Suffix cores do not call
//               translated methods of the own receiver (they keep them as parameters, as before).
//   if A && B   with B possibly panicking: `if A { if B {S} else {T} } else {T}` (short-circuit evaluation)
//   division    `/` and `%` are Lean's total operations (x / 0 = 0): a Go division by zero (panic) is NOT
//               modelled, also not in partial functions
//   switch      `switch x { case a, b: … }` on a variable (no break/fallthrough)
//   loops       may be nested; `return` inside nested loops: every loop has its own return slot, filled
//               from the slot of the inner loop; `break` belongs to the innermost loop
//   recursion   a function that calls itself gets a recursion fuel as first argument:
//               `go_f : Nat → args → res`, `go_f 0 _ = default`, the body calls `self := go_f recFuel`;
//               callers pass `loopFuel`; a method calling itself on its own receiver likewise, with the
//               receiver fields it reads as fixed parameters in front of the fuel
//   local objects  `x := a.Copy()`, `x := a.field.One()` (a call rooted at an object parameter) makes x a
//               local object represented by its value word; `x.M(args)` as an expression is
//               `method_M x args`, as a statement `x := method_M x args`, with `method_M` an uninterpreted
//               function parameter (assumption: a method statement changes the value of its receiver
//               only, as a function of the values of receiver and arguments); object arguments are
//               passed as their `val` (a_val)
//   shadowing   a function in which a name is declared again in a nested scope is refused (the
//               continuation-passing translation into Lean `let`s would confuse the two variables)
//
// Control flow is translated by duplicating the continuation into both branches of a conditional, so no
// join points are needed (the functions are tiny).

import (
	"fmt"
	"go/ast"
	"go/token"
	"sort"
	"strings"
)

type tr struct {
	fn       *fn
	recvName string
	params   map[string]bool // declared parameters / results / locals
	extra    []string        // mangled selector parameters in order of first appearance
	extraSet map[string]bool
	extraTy  map[string]string // Lean type of an extra parameter (default Nat)
	assigned map[string]bool // mangled selectors that are assigned somewhere (mutable)
	results  []string        // named results
	resTypes []string
	loops    []string // emitted local loop definitions
	loopN    int
	failed   string
	known    map[string]string // Go function name -> Lean name (translated functions of the same package)
	brkVar   string            // name of the break flag while translating a loop body
	retVar   string            // name of the early-return slot while translating a loop body
	fnResults []string         // named results of the function (for bare `return` inside loops)
	retTy    string            // Lean type of the function result (tuple)
	vars     []string          // all variable names that may be live (for loop state)
	types    map[string]string // variable -> go type ("uint","int","bool","[2]uint","error","func")
	selfName string            // Go name of the function when it calls itself (translated with a recursion fuel)
	selfTy   string            // Lean type of `self` (the function one fuel level below)
	rangeN   *int              // counter of unrolled `range` statements (shared by sub-translators)
	methods  map[string]string // (unused)
	localObj map[string]bool   // local variables holding an object (`x := a.Copy()`), represented by the value word
	partial     bool        // the function may panic (slice indexing, make): its result type is `Option …`, a panic is `none`
	needPartial bool        // set when a construct that may panic is met (the function is then translated again with partial = true)
	guards      []string    // conditions under which the expressions of the current statement do not panic
	isLoopBody  bool        // translating the body of a loop (results = loop state)
	canContinue bool        // `continue` of the loop being translated is allowed
	contPost    []ast.Stmt  // its post statement
	loopLabel   string      // label of the `for` statement about to be translated
	noOwn       bool        // suffix cores keep methods of the own receiver as parameters (older translations)
}

func (t *tr) fail(format string, a ...interface{}) string {
	if t.failed == "" {
		t.failed = fmt.Sprintf(format, a...)
	}
	return "(unsupported)"
}

func mangle(e ast.Expr) (string, bool) {
	switch v := e.(type) {
	case *ast.Ident:
		return v.Name, true
	case *ast.SelectorExpr:
		if b, ok := mangle(v.X); ok {
			return b + "_" + v.Sel.Name, true
		}
	case *ast.CallExpr:
		if len(v.Args) == 0 {
			if s, ok := v.Fun.(*ast.SelectorExpr); ok {
				if b, ok := mangle(s.X); ok {
					return b + "_" + s.Sel.Name, true
				}
			}
		}
	case *ast.ParenExpr:
		return mangle(v.X)
	}
	return "", false
}

func rootIdent(e ast.Expr) string {
	switch v := e.(type) {
	case *ast.Ident:
		return v.Name
	case *ast.SelectorExpr:
		return rootIdent(v.X)
	case *ast.CallExpr:
		if s, ok := v.Fun.(*ast.SelectorExpr); ok {
			return rootIdent(s.X)
		}
	case *ast.ParenExpr:
		return rootIdent(v.X)
	}
	return ""
}

func (t *tr) selector(e ast.Expr) (string, bool) {
	r := rootIdent(e)
	if r == "" || !t.params[r] || (t.localObj != nil && t.localObj[r]) {
		return "", false // (observations of a local object depend on its current value: see localMethod)
	}
	m, ok := mangle(e)
	if !ok {
		return "", false
	}
	if !t.extraSet[m] {
		t.extraSet[m] = true
		t.extra = append(t.extra, m)
		// a field whose declared type is not a word (bool, int, slice) is a parameter of that type
		if ft := t.declType(e); ft != "uint" && basicTy(ft) && ft != "error" {
			if t.extraTy == nil {
				t.extraTy = map[string]string{}
			}
			t.extraTy[m] = leanType(ft)
			t.types[m] = ft
		}
	}
	return m, true
}

// selectorTyped registers a mangled selector parameter with an explicit Lean type
func (t *tr) selectorTyped(e ast.Expr, suffix, leanTy string) (string, bool) {
	r := rootIdent(e)
	if r == "" || !t.params[r] || (t.localObj != nil && t.localObj[r]) {
		return "", false // (observations of a local object depend on its current value: see localMethod)
	}
	m, ok := mangle(e)
	if !ok {
		return "", false
	}
	m += suffix
	if !t.extraSet[m] {
		t.extraSet[m] = true
		t.extra = append(t.extra, m)
		if t.extraTy == nil {
			t.extraTy = map[string]string{}
		}
		t.extraTy[m] = leanTy
	}
	return m, true
}

var kindLean = map[string]string{"Input": ".input", "InputValue": ".inputValue", "InputIncompatible": ".inputIncompatible",
	"InputTooLarge": ".inputTooLarge", "ArithmeticIncompat": ".arithmeticIncompat", "Parsing": ".parsing",
	"Conversion": ".conversion", "Overflow": ".overflow", "Internal": ".internal"}

// typeOf: a light-weight type guess used to choose word vs int arithmetic
func (t *tr) typeOf(e ast.Expr) string {
	switch v := e.(type) {
	case *ast.Ident:
		if ty, ok := t.types[v.Name]; ok {
			return ty
		}
		if v.Name == "true" || v.Name == "false" {
			return "bool"
		}
		return "uint"
	case *ast.BasicLit:
		return "untyped"
	case *ast.ParenExpr:
		return t.typeOf(v.X)
	case *ast.UnaryExpr:
		if v.Op == token.SUB {
			x := t.typeOf(v.X)
			if x == "untyped" {
				return "int"
			}
			return x
		}
		return t.typeOf(v.X)
	case *ast.BinaryExpr:
		switch v.Op {
		case token.EQL, token.NEQ, token.LSS, token.GTR, token.LEQ, token.GEQ, token.LAND, token.LOR:
			return "bool"
		}
		a, b := t.typeOf(v.X), t.typeOf(v.Y)
		if v.Op == token.SHL || v.Op == token.SHR {
			if a == "untyped" {
				return "uint"
			}
			return a
		}
		if a == "untyped" {
			return b
		}
		return a
	case *ast.CallExpr:
		switch src(v.Fun) {
		case "uint":
			return "uint"
		case "int":
			return "int"
		case "bits.Len", "bits.OnesCount", "len":
			return "int"
		case "append":
			if len(v.Args) > 0 {
				return t.typeOf(v.Args[0])
			}
		case "make":
			if len(v.Args) > 0 {
				return src(v.Args[0])
			}
		}
		if id, ok := v.Fun.(*ast.Ident); ok {
			if ty, ok := t.types["ret:"+id.Name]; ok {
				return ty
			}
		}
		if sel, ok := v.Fun.(*ast.SelectorExpr); ok && isPkgName(rootIdent(sel)) {
			if ty, ok := t.types["ret:"+src(sel)]; ok {
				return ty
			}
		}
		if mi, ok := t.ownMethod(v); ok && mi.retGo != "" {
			return mi.retGo
		}
		if sel, ok := v.Fun.(*ast.SelectorExpr); ok && t.typeOf(sel.X) == elemGo {
			if elemBoolMethods[sel.Sel.Name] {
				return "bool"
			}
			return elemGo
		}
		// call of a call (closure application in orders.go) yields int
		if _, ok := v.Fun.(*ast.CallExpr); ok {
			return "int"
		}
		if id, ok := v.Fun.(*ast.Ident); ok {
			if ty, ok := t.types[id.Name]; ok && ty == "func" {
				return "int"
			}
		}
		return "uint"
	case *ast.IndexExpr:
		if xt := t.typeOf(v.X); isSliceTy(xt) {
			return elemTy(xt)
		}
		return "uint"
	case *ast.SliceExpr:
		return t.typeOf(v.X)
	case *ast.SelectorExpr:
		if src(v) == "bits.UintSize" {
			return "untyped"
		}
		if ft := t.declType(v); basicTy(ft) {
			return ft
		}
		return "uint"
	case *ast.CompositeLit:
		if ty := src(v.Type); isSliceTy(ty) {
			return ty
		}
		return "[2]uint"
	}
	return "uint"
}

func (t *tr) expr(e ast.Expr) string {
	switch v := e.(type) {
	case *ast.BasicLit:
		if v.Kind == token.INT {
			return v.Value
		}
		return t.fail("literal %s", v.Value)
	case *ast.Ident:
		switch v.Name {
		case "true", "false":
			return v.Name
		case "nil":
			return "none"
		}
		return v.Name
	case *ast.ParenExpr:
		return "(" + t.expr(v.X) + ")"
	case *ast.SelectorExpr:
		if src(v) == "bits.UintSize" {
			return "64"
		}
		if m, ok := t.selector(v); ok {
			return m
		}
		return t.fail("selector %s", src(v))
	case *ast.IndexExpr:
		if isSliceTy(t.typeOf(v.X)) {
			return t.sliceRead(v)
		}
		if bl, ok := v.Index.(*ast.BasicLit); ok {
			if bl.Value == "0" {
				return "(" + t.expr(v.X) + ").1"
			}
			if bl.Value == "1" {
				return "(" + t.expr(v.X) + ").2"
			}
		}
		return t.fail("index %s", src(v))
	case *ast.CompositeLit:
		if src(v.Type) == "[2]uint" && len(v.Elts) == 2 {
			return "(" + t.expr(v.Elts[0]) + ", " + t.expr(v.Elts[1]) + ")"
		}
		if fs, ok := t.structTuple(src(v.Type)); ok {
			return t.structLit(v, fs)
		}
		if src(v.Type) == "[]uint" {
			var es []string
			for _, el := range v.Elts {
				if _, isKV := el.(*ast.KeyValueExpr); isKV {
					return t.fail("composite %s", src(v))
				}
				es = append(es, t.expr(el))
			}
			return "[" + strings.Join(es, ", ") + "]"
		}
		return t.fail("composite %s", src(v))
	case *ast.UnaryExpr:
		switch v.Op {
		case token.NOT:
			return "(!" + t.boolExpr(v.X) + ")"
		case token.SUB:
			return "(-" + t.expr(v.X) + ")"
		case token.AND:
			// `&T{…}`: a pointer to a fresh struct value is the value (no aliasing is possible in the subset)
			if cl, ok := v.X.(*ast.CompositeLit); ok {
				if fs, ok := t.structTuple(src(cl.Type)); ok {
					return t.structLit(cl, fs)
				}
			}
		}
		return t.fail("unary %s", src(v))
	case *ast.BinaryExpr:
		switch v.Op {
		case token.EQL, token.NEQ, token.LSS, token.GTR, token.LEQ, token.GEQ, token.LAND, token.LOR:
			return "(decide " + t.cond(v) + ")"
		}
		x, y := t.expr(v.X), t.expr(v.Y)
		ty := t.typeOf(v)
		if (v.Op == token.SHL || v.Op == token.SHR) && t.typeOf(v.Y) == "int" {
			y = "(Int.toNat " + y + ")"
		}
		if ty == "int" && v.Op != token.SHL && v.Op != token.SHR {
			switch v.Op {
			case token.ADD:
				return "(wrapInt (" + x + " + " + y + "))"
			case token.SUB:
				return "(wrapInt (" + x + " - " + y + "))"
			case token.MUL:
				return "(wrapInt (" + x + " * " + y + "))"
			case token.REM:
				return "(Int.tmod " + x + " " + y + ")"
			case token.QUO:
				return "(Int.tdiv " + x + " " + y + ")"
			}
			return t.fail("int op %s", src(v))
		}
		if ty == "untyped" {
			switch v.Op {
			case token.ADD:
				return "(" + x + " + " + y + ")"
			case token.SUB:
				return "(" + x + " - " + y + ")"
			case token.MUL:
				return "(" + x + " * " + y + ")"
			case token.QUO:
				return "(" + x + " / " + y + ")"
			case token.SHL:
				return "(" + x + " <<< " + y + ")"
			}
		}
		switch v.Op {
		case token.ADD:
			return "(w64 (" + x + " + " + y + "))"
		case token.SUB:
			return "(wsub " + x + " " + y + ")"
		case token.MUL:
			return "(w64 (" + x + " * " + y + "))"
		case token.QUO:
			return "(" + x + " / " + y + ")"
		case token.REM:
			return "(" + x + " % " + y + ")"
		case token.SHL:
			return "(w64 (" + x + " <<< " + y + "))"
		case token.SHR:
			return "(" + x + " >>> " + y + ")"
		case token.AND:
			return "(" + x + " &&& " + y + ")"
		case token.OR:
			return "(" + x + " ||| " + y + ")"
		case token.XOR:
			return "(" + x + " ^^^ " + y + ")"
		}
		return t.fail("binary %s", src(v))
	case *ast.CallExpr:
		f := src(v.Fun)
		switch f {
		case "uint":
			if t.typeOf(v.Args[0]) == "int" {
				return "(intToWord " + t.expr(v.Args[0]) + ")"
			}
			return t.expr(v.Args[0])
		case "int":
			if t.typeOf(v.Args[0]) == "uint" {
				return "(wordToInt " + t.expr(v.Args[0]) + ")"
			}
			return t.expr(v.Args[0])
		case "bits.Len":
			return "(Int.ofNat (bitLen " + t.expr(v.Args[0]) + "))"
		case "bits.OnesCount":
			return "(Int.ofNat (popCount " + t.expr(v.Args[0]) + "))"
		case "append":
			// append(s, x, y) = s ++ [x, y];  append(s, r...) = s ++ r   (slices are values: Lean lists)
			if len(v.Args) >= 1 && isSliceTy(t.typeOf(v.Args[0])) {
				if v.Ellipsis.IsValid() {
					if len(v.Args) == 2 {
						return "(" + t.expr(v.Args[0]) + " ++ " + t.argExpr(v.Args[1]) + ")"
					}
					return t.fail("append %s", src(v))
				}
				var es []string
				for _, a := range v.Args[1:] {
					es = append(es, t.expr(a))
				}
				return "(" + t.expr(v.Args[0]) + " ++ [" + strings.Join(es, ", ") + "])"
			}
			return t.fail("append %s", src(v))
		case "make":
			if mk, ok := t.makeSlice(v); ok {
				return mk
			}
			if len(v.Args) == 2 && src(v.Args[0]) == "[]uint" {
				if bl, ok := v.Args[1].(*ast.BasicLit); ok && bl.Value == "0" {
					return "([] : List Nat)"
				}
				if t.typeOf(v.Args[1]) == "int" {
					t.addGuard("(0 ≤ (" + t.argExpr(v.Args[1]) + " : Int))")
					return "(List.replicate (Int.toNat " + t.argExpr(v.Args[1]) + ") (0 : Nat))"
				}
				return "(List.replicate " + t.argExpr(v.Args[1]) + " (0 : Nat))"
			}
			return t.fail("make %s", src(v))
		case "len":
			if len(v.Args) == 1 && isSliceTy(t.typeOf(v.Args[0])) {
				return "(Int.ofNat (List.length " + t.argExpr(v.Args[0]) + "))"
			}
			return t.fail("len %s", src(v))
		case "errors.New":
			if len(v.Args) >= 2 {
				if k, ok := kindLean[strings.TrimPrefix(src(v.Args[1]), "errors.")]; ok {
					return "(some (Kind" + k + "))"
				}
			}
			return t.fail("errors.New %s", src(v))
		}
		// a method without arguments called on a freshly built object, `(&Element{field: a.field, val: X}).reduce()`:
		// an uninterpreted function of the object's `val`
		if len(v.Args) == 0 {
			if sel, ok := v.Fun.(*ast.SelectorExpr); ok {
				var lit ast.Expr = sel.X
				if pe, ok := lit.(*ast.ParenExpr); ok {
					lit = pe.X
				}
				if ue, ok := lit.(*ast.UnaryExpr); ok && ue.Op == token.AND {
					lit = ue.X
				}
				if cl, ok := lit.(*ast.CompositeLit); ok {
					for _, el := range cl.Elts {
						if kv, ok := el.(*ast.KeyValueExpr); ok && src(kv.Key) == "val" {
							name := "new_" + src(cl.Type) + "_" + sel.Sel.Name
							if !t.extraSet[name] {
								t.extraSet[name] = true
								t.extra = append(t.extra, name)
								if t.extraTy == nil {
									t.extraTy = map[string]string{}
								}
								t.extraTy[name] = "Nat → Nat"
							}
							return "(" + name + " " + t.argExpr(kv.Value) + ")"
						}
					}
				}
			}
		}
		if mi, ok := t.ownMethod(v); ok {
			// a translated method of the same type called on the own receiver, in its current state
			if mi.retGo == "" {
				return t.fail("mutating method %s called inside an expression", src(v.Fun))
			}
			if mi.partial {
				return t.bindPartial(t.ownCall(mi, v))
			}
			return t.ownCall(mi, v)
		}
		if val, isBool, ok := t.elemMethod(v); ok {
			if isBool {
				return val
			}
			return "(some " + val + ")"
		}
		if sel, ok := v.Fun.(*ast.SelectorExpr); ok && t.selfName != "" && t.recvName != "" && sel.Sel.Name == t.selfName {
			// a method calling itself on its own receiver
			if id, ok := sel.X.(*ast.Ident); ok && id.Name == t.recvName {
				var args []string
				for _, a := range v.Args {
					args = append(args, t.argExpr(a))
				}
				return "(self " + strings.Join(args, " ") + ")"
			}
		}
		if sel, ok := v.Fun.(*ast.SelectorExpr); ok && isPkgName(rootIdent(sel)) {
			// package-qualified call of a translated function
			if ln, ok := t.known[src(sel)]; ok {
				var args []string
				for _, a := range v.Args {
					args = append(args, t.argExpr(a))
				}
				return "(" + ln + " " + strings.Join(args, " ") + ")"
			}
		}
		if m, recv, ok := t.localMethod(v); ok {
			// `x.M(args)` on a local object variable x (represented by its value word): an uninterpreted
			// function of the current value of x and the arguments
			margs := append([]string{recv}, t.methodArgs(v.Args)...)
			t.registerMethod(m, len(margs))
			return "(" + m + " " + strings.Join(margs, " ") + ")"
		}
		// selector call without arguments on a parameter: a field-like observation
		if len(v.Args) == 0 {
			if m, ok := t.selector(v); ok {
				return m
			}
		}
		var args []string
		for _, a := range v.Args {
			args = append(args, t.argExpr(a))
		}
		if sel, ok := v.Fun.(*ast.SelectorExpr); ok && len(v.Args) > 0 {
			// (only for object parameters / the receiver: a method of a local variable depends on its current value)
			if r := rootIdent(sel); r != "" && t.params[r] && !isPkgName(r) && t.types[r] == "object" {
				var tys []string
				for _, a := range v.Args {
					if t.typeOf(a) == "int" {
						tys = append(tys, "Int")
					} else {
						tys = append(tys, "Nat")
					}
				}
				if m, ok := t.selectorTyped(sel, "", strings.Join(tys, " → ")+" → Nat"); ok {
					return "(" + m + " " + strings.Join(args, " ") + ")"
				}
			}
		}
		switch fun := v.Fun.(type) {
		case *ast.Ident:
			name := fun.Name
			if t.selfName != "" && name == t.selfName && !t.params[name] {
				return "(self " + strings.Join(args, " ") + ")"
			}
			if ln, ok := t.known[name]; ok {
				name = ln
			} else if !t.params[name] && t.types[name] != "func" {
				return t.fail("call of untranslated function %s", name)
			}
			return "(" + name + " " + strings.Join(args, " ") + ")"
		case *ast.CallExpr, *ast.ParenExpr, *ast.FuncLit:
			return "(" + t.expr(fun) + " " + strings.Join(args, " ") + ")"
		}
		return t.fail("call %s", src(v))
	case *ast.FuncLit:
		return t.funcLit(v)
	case *ast.SliceExpr:
		// `s[:n]`: the first n entries; Go allows n up to the CAPACITY, which lists do not have: the
		// guard is n ≤ len, so `none` here means "panic, or a reslice into spare capacity (not modelled)"
		if v.Low == nil && v.High != nil && !v.Slice3 && isSliceTy(t.typeOf(v.X)) {
			xs := t.argExpr(v.X)
			n := t.argExpr(v.High)
			if t.typeOf(v.High) == "int" {
				t.addGuard("(0 ≤ (" + n + " : Int) ∧ (" + n + " : Int) ≤ Int.ofNat (List.length " + xs + "))")
				return "(List.take (Int.toNat " + n + ") " + xs + ")"
			}
			t.addGuard("(" + n + " ≤ List.length " + xs + ")")
			return "(List.take " + n + " " + xs + ")"
		}
		return t.fail("slice expression %s", src(v))
	}
	return t.fail("expression %s", src(e))
}

// localMethod recognises `x.M(…)` where x is a local variable holding an object as a word (`x := a.Copy()`)
func (t *tr) localMethod(c *ast.CallExpr) (name, recv string, ok bool) {
	sel, isSel := c.Fun.(*ast.SelectorExpr)
	if !isSel {
		return "", "", false
	}
	id, isId := sel.X.(*ast.Ident)
	if !isId || !t.params[id.Name] || t.types[id.Name] != "uint" || isPkgName(id.Name) || t.localObj == nil || !t.localObj[id.Name] {
		return "", "", false
	}
	return "method_" + sel.Sel.Name, id.Name, true
}

// arguments of a method of a local object: words, or objects (parameters / receiver) given by their `val`
func (t *tr) methodArgs(args []ast.Expr) []string {
	var out []string
	for _, a := range args {
		if id, ok := a.(*ast.Ident); ok && t.types[id.Name] == "object" {
			if m, ok := t.selector(&ast.SelectorExpr{X: id, Sel: ast.NewIdent("val")}); ok {
				out = append(out, m)
				continue
			}
		}
		out = append(out, t.argExpr(a))
	}
	return out
}

func (t *tr) registerMethod(m string, arity int) {
	ty := strings.TrimSuffix(strings.Repeat("Nat → ", arity+1), " → ")
	if !t.extraSet[m] {
		t.extraSet[m] = true
		t.extra = append(t.extra, m)
		t.extraTy[m] = ty
	} else if t.extraTy[m] != ty {
		t.fail("method %s used with different numbers of arguments", m)
	}
}

func (t *tr) argExpr(e ast.Expr) string {
	s := t.expr(e)
	if strings.HasPrefix(s, "(") || !strings.ContainsAny(s, " -") {
		return s
	}
	return "(" + s + ")"
}

// boolean-valued Go expression as a Lean Bool
func (t *tr) boolExpr(e ast.Expr) string {
	switch v := e.(type) {
	case *ast.Ident:
		return v.Name
	case *ast.SelectorExpr:
		if t.declType(v) == "bool" {
			if m, ok := t.selector(v); ok {
				return m
			}
		}
	case *ast.ParenExpr:
		return "(" + t.boolExpr(v.X) + ")"
	case *ast.UnaryExpr:
		if v.Op == token.NOT {
			return "(!" + t.boolExpr(v.X) + ")"
		}
	}
	return "(decide " + t.cond(e) + ")"
}

// condition as a Lean Prop (decidable)
func (t *tr) cond(e ast.Expr) string {
	switch v := e.(type) {
	case *ast.ParenExpr:
		return "(" + t.cond(v.X) + ")"
	case *ast.Ident:
		return "(" + v.Name + " = true)"
	case *ast.SelectorExpr:
		if t.declType(v) == "bool" {
			if m, ok := t.selector(v); ok {
				return "(" + m + " = true)"
			}
		}
	case *ast.CallExpr:
		if mi, ok := t.ownMethod(v); ok && mi.retGo == "bool" {
			return "(" + t.expr(v) + " = true)"
		}
		if sel, ok := v.Fun.(*ast.SelectorExpr); ok && t.typeOf(sel.X) == elemGo && elemBoolMethods[sel.Sel.Name] {
			return "(" + t.expr(v) + " = true)"
		}
		// a boolean observation of the result of a method of a local object (`e.Pow(k).IsOne()`):
		// an uninterpreted function `method_IsOne : Nat → Bool` of the resulting object's value
		if sel, ok := v.Fun.(*ast.SelectorExpr); ok && len(v.Args) == 0 {
			if inner, ok := sel.X.(*ast.CallExpr); ok {
				if _, _, ok := t.localMethod(inner); ok {
					name := "method_" + sel.Sel.Name
					if !t.extraSet[name] {
						t.extraSet[name] = true
						t.extra = append(t.extra, name)
						t.extraTy[name] = "Nat → Bool"
					} else if t.extraTy[name] != "Nat → Bool" {
						return t.fail("method %s used at different types", name)
					}
					return "(" + name + " " + t.argExpr(inner) + " = true)"
				}
			}
		}
		// a boolean observation of a parameter object (`bb.IsZero()`): an uninterpreted Bool parameter
		if len(v.Args) == 0 {
			if m, ok := t.selectorTyped(v, "", "Bool"); ok {
				return "(" + m + " = true)"
			}
		}
	case *ast.UnaryExpr:
		if v.Op == token.NOT {
			return "(¬ " + t.cond(v.X) + ")"
		}
	case *ast.BinaryExpr:
		switch v.Op {
		case token.LAND, token.LOR:
			x := t.cond(v.X)
			n := len(t.guards)
			y := t.cond(v.Y)
			if len(t.guards) > n {
				return t.fail("expression that may panic on the right of && / ||")
			}
			if v.Op == token.LAND {
				return "(" + x + " ∧ " + y + ")"
			}
			return "(" + x + " ∨ " + y + ")"
		case token.EQL, token.NEQ, token.LSS, token.GTR, token.LEQ, token.GEQ:
			op := map[token.Token]string{token.EQL: "=", token.NEQ: "≠", token.LSS: "<", token.GTR: ">", token.LEQ: "≤", token.GEQ: "≥"}[v.Op]
			// pointer tests of a table/field of a parameter: an uninterpreted Bool parameter
			if id, ok := v.Y.(*ast.Ident); ok && id.Name == "nil" && (v.Op == token.EQL || v.Op == token.NEQ) && t.typeOf(v.X) != "error" {
				if m, ok := t.selectorTyped(v.X, "_nonnil", "Bool"); ok {
					if v.Op == token.NEQ {
						return "(" + m + " = true)"
					}
					return "(" + m + " = false)"
				}
			}
			x, y := t.expr(v.X), t.expr(v.Y)
			// comparison of an int-typed expression with an untyped literal stays in Int
			if t.typeOf(v.X) == "int" || t.typeOf(v.Y) == "int" {
				return "((" + x + " : Int) " + op + " " + y + ")"
			}
			if t.typeOf(v.X) == "error" || t.typeOf(v.Y) == "error" {
				return "((" + x + " : Option Kind) " + op + " " + y + ")"
			}
			return "(" + x + " " + op + " " + y + ")"
		}
	}
	return t.fail("condition %s", src(e))
}

func leanType(goType string) string {
	switch goType {
	case "uint":
		return "Nat"
	case "int":
		return "Int"
	case "bool":
		return "Bool"
	case "[2]uint":
		return "(Nat × Nat)"
	case "error":
		return "(Option Kind)"
	case "Order":
		return "((Nat × Nat) → (Nat × Nat) → Int)"
	case "[]uint":
		return "(List Nat)"
	case "[]int":
		return "(List Int)"
	case "[][]uint":
		return "(List (List Nat))"
	case "ff.Element":
		return "(Option Nat)"
	case "[]ff.Element":
		return "(List (Option Nat))"
	}
	return "Nat"
}

func (t *tr) funcLit(f *ast.FuncLit) string {
	if t.extraTy == nil {
		t.extraTy = map[string]string{}
	}
	sub := &tr{fn: t.fn, params: map[string]bool{}, extraSet: t.extraSet, extraTy: t.extraTy, assigned: t.assigned, known: t.known, types: map[string]string{}, rangeN: t.rangeN, methods: t.methods, localObj: t.localObj, selfName: t.selfName, selfTy: t.selfTy}
	for k, v := range t.params {
		sub.params[k] = v
	}
	for k, v := range t.types {
		sub.types[k] = v
	}
	sub.extra = t.extra
	var ps []string
	for _, fld := range f.Type.Params.List {
		for _, n := range fld.Names {
			ps = append(ps, "("+n.Name+" : "+leanType(src(fld.Type))+")")
			sub.params[n.Name] = true
			sub.types[n.Name] = src(fld.Type)
		}
	}
	body := sub.funcBody(f.Type, f.Body)
	t.extra = sub.extra
	t.loops = append(t.loops, sub.loops...)
	if sub.failed != "" && t.failed == "" {
		t.failed = sub.failed
	}
	if sub.needPartial || len(sub.guards) > 0 {
		t.fail("function literal that may panic")
	}
	return "(fun " + strings.Join(ps, " ") + " => " + body + ")"
}

// funcBody translates a body given its signature (named results initialised to zero values)
func (t *tr) funcBody(ft *ast.FuncType, body *ast.BlockStmt) string {
	t.results = nil
	t.resTypes = nil
	var pre []string
	if ft.Results != nil {
		for _, fld := range ft.Results.List {
			ty := src(fld.Type)
			if len(fld.Names) == 0 {
				t.resTypes = append(t.resTypes, ty)
			}
			for _, n := range fld.Names {
				t.results = append(t.results, n.Name)
				t.resTypes = append(t.resTypes, ty)
				t.params[n.Name] = true
				t.types[n.Name] = ty
				zero := map[string]string{"uint": "0", "int": "0", "bool": "false", "[2]uint": "((0 : Nat), (0 : Nat))", "error": "none", "[]uint": "[]"}[ty]
				if zero == "" {
					zero = "0"
				}
				pre = append(pre, fmt.Sprintf("let %s : %s := %s; ", n.Name, leanType(ty), zero))
			}
		}
	}
	if ft.Results == nil && t.recvName != "" {
		// a method without results: its result is the final value of the receiver fields it assigns
		t.results = t.assignedSorted()
	}
	return strings.Join(pre, "") + t.stmts(body.List, nil)
}

func (t *tr) assignedSorted() []string {
	var as []string
	for a := range t.assigned {
		as = append(as, a)
	}
	sort.Strings(as)
	return as
}

// the value a function (not a loop body) returns: wrapped in `some` when the function may panic
func (t *tr) final(v string) string {
	if t.partial && !t.isLoopBody {
		return "some " + v
	}
	return v
}

// `return f(args)` with f a function that may panic (here: the function itself)
func (t *tr) partialTailCall(v *ast.ReturnStmt) (string, bool) {
	if !t.partial || t.selfName == "" || len(v.Results) != 1 {
		return "", false
	}
	c, ok := v.Results[0].(*ast.CallExpr)
	if !ok {
		return "", false
	}
	s := t.expr(c)
	if strings.HasPrefix(s, "(self ") {
		return s, true
	}
	return "", false
}

func (t *tr) retTuple(vals []string) string {
	if len(vals) == 1 {
		return vals[0]
	}
	return "(" + strings.Join(vals, ", ") + ")"
}

// stmts translates a statement list; `k` is the continuation (statements after the enclosing block)
func (t *tr) stmts(list []ast.Stmt, k []ast.Stmt) string {
	if len(list) == 0 {
		if k == nil {
			// falling off the end: return the named results
			if len(t.results) > 0 {
				return t.final(t.retTuple(t.results))
			}
			return t.fail("missing return")
		}
		return t.stmts(k, nil)
	}
	s, rest := list[0], list[1:]
	if len(t.guards) > 0 {
		return t.fail("pending guards at a statement boundary")
	}
	cont := func(extra []ast.Stmt) []ast.Stmt { return append(append([]ast.Stmt{}, extra...), append(append([]ast.Stmt{}, rest...), k...)...) }
	switch v := s.(type) {
	case *ast.ReturnStmt:
		if t.retVar != "" {
			// early return from inside a loop: store the value, leave the loop
			if tc, ok := t.partialTailCall(v); ok {
				return t.wrapGuards(t.takeGuards(), "let "+t.retVar+" : Option ("+t.retTy+") := some "+tc+"; "+t.retTuple(t.results))
			}
			var vals []string
			for _, r := range v.Results {
				vals = append(vals, t.expr(r))
			}
			if len(v.Results) == 0 {
				vals = t.fnResults
			}
			rv := t.retTuple(vals)
			if t.partial {
				rv = "(some " + rv + ")"
			}
			return t.wrapGuards(t.takeGuards(), "let "+t.retVar+" : Option ("+t.retTy+") := some "+rv+"; "+t.retTuple(t.results))
		}
		if len(v.Results) == 0 {
			return t.final(t.retTuple(t.results))
		}
		if tc, ok := t.partialTailCall(v); ok {
			return t.wrapGuards(t.takeGuards(), tc)
		}
		var vals []string
		for i, r := range v.Results {
			// returning the receiver: its (possibly assigned) word state
			if id, ok := r.(*ast.Ident); ok && id.Name == t.recvName {
				var as []string
				for a := range t.assigned {
					as = append(as, a)
				}
				sort.Strings(as)
				if len(as) > 0 {
					vals = append(vals, t.retTuple(as))
					continue
				}
			}
			if len(v.Results) == len(t.resTypes) && !t.isLoopBody {
				// an object (literal with a `val` field, local object, result of a translated method
				// returning a pointer) is its value word; as an ff.Element it is a non-nil element
				obj, isObj := "", false
				if x, ok := t.objectLit(r); ok {
					obj, isObj = t.argExpr(x), true
				} else if id, ok := r.(*ast.Ident); ok && t.localObj[id.Name] {
					obj, isObj = id.Name, true
				} else if c, ok := r.(*ast.CallExpr); ok {
					if mi, own := t.ownMethod(c); own && strings.HasPrefix(mi.retGo, "*") && !mi.partial {
						obj, isObj = t.ownCall(mi, c), true
					}
				}
				if isObj {
					if t.resTypes[i] == elemGo {
						obj = "(some " + obj + ")"
					}
					vals = append(vals, obj)
					continue
				}
			}
			if c, ok := r.(*ast.CallExpr); ok && len(v.Results) == 1 && len(t.resTypes) == 1 && t.resTypes[0] == elemGo && len(c.Args) == 0 {
				if _, own := t.ownMethod(c); !own && t.typeOf(c) != elemGo {
					// an element obtained from outside (`f.BaseField().Zero()`): an uninterpreted, possibly nil, element
					if m, ok := t.selectorTyped(c, "", "(Option Nat)"); ok {
						vals = append(vals, m)
						continue
					}
				}
			}
			vals = append(vals, t.expr(r))
		}
		return t.wrapGuards(t.takeGuards(), t.final(t.retTuple(vals)))
	case *ast.AssignStmt:
		if len(v.Lhs) > 1 && len(v.Rhs) == 1 {
			if _, isCall := v.Rhs[0].(*ast.CallExpr); isCall {
				var names []string
				for i, l := range v.Lhs {
					id, ok := l.(*ast.Ident)
					if !ok {
						return t.fail("assignment target %s", src(l))
					}
					nm := id.Name
					if nm == "_" {
						nm = fmt.Sprintf("_unused%d", i)
					} else {
						t.params[nm] = true
						if i == len(v.Lhs)-1 && (nm == "err" || nm == "er") {
							t.types[nm] = "error"
						} else if rts := t.callResultTypes(v.Rhs[0]); len(rts) == len(v.Lhs) {
							t.types[nm] = rts[i]
						} else if _, ok := t.types[nm]; !ok {
							t.types[nm] = "uint"
						}
					}
					names = append(names, nm)
				}
				rhs := t.expr(v.Rhs[0])
				g := t.takeGuards()
				if t.calleeHasFuel(v.Rhs[0]) {
					// results of a function with recursion fuel are bound by projections, not by a pattern:
					// unfolding the caller must not force the evaluation of `callee loopFuel …`
					tup := "res_" + strings.ReplaceAll(src(v.Rhs[0].(*ast.CallExpr).Fun), ".", "_")
					out := "let " + tup + " := " + rhs + "; "
					for i, nm := range names {
						proj := strings.Repeat(".2", i)
						if i < len(names)-1 {
							proj += ".1"
						}
						out += "let " + nm + " := " + tup + proj + "; "
					}
					return t.wrapGuards(g, out+t.stmts(rest, k))
				}
				return t.wrapGuards(g, "let ("+strings.Join(names, ", ")+") := "+rhs+"; "+t.stmts(rest, k))
			}
		}
		if len(v.Lhs) != len(v.Rhs) {
			return t.fail("assignment %s", src(v))
		}
		// parallel assignment: evaluate all right-hand sides first
		var names, vals []string
		for i := range v.Lhs {
			var name string
			var idxs []ast.Expr
			if ie, ok := v.Lhs[i].(*ast.IndexExpr); ok && isSliceTy(t.typeOf(ie.X)) && len(v.Lhs) == 1 {
				// `b[i] = e`, `b[i][j] = e`: the slice variable b gets a new value (List.set), guarded by the bounds
				base, ix := t.indexTarget(ie)
				idxs = ix
				if id, ok := base.(*ast.Ident); ok {
					name = id.Name
				} else if m, ok := t.selector(base); ok {
					name = m
					t.assigned[m] = true
				} else {
					return t.fail("assignment target %s", src(v.Lhs[i]))
				}
			} else if id, ok := v.Lhs[i].(*ast.Ident); ok {
				name = id.Name
			} else if m, ok := t.selector(v.Lhs[i]); ok {
				name = m
				t.assigned[m] = true
			} else {
				return t.fail("assignment target %s", src(v.Lhs[i]))
			}
			if x, ok := t.objectLit(v.Rhs[i]); ok && v.Tok == token.DEFINE && len(v.Lhs) == 1 {
				// `a := &T{…, val: X}`: a local object, represented by its value word
				if id, ok := v.Lhs[0].(*ast.Ident); ok {
					val := t.expr(x)
					t.localObj[id.Name] = true
					t.types[id.Name] = "uint"
					t.params[id.Name] = true
					g := t.takeGuards()
					return t.wrapGuards(g, "let "+id.Name+" : Nat := "+val+"; "+t.stmts(rest, k))
				}
			}
			if _, isIdx := v.Rhs[i].(*ast.IndexExpr); isIdx && isSliceTy(t.typeOf(v.Rhs[i])) {
				return t.fail("a row of a slice of slices is copied (aliasing)")
			}
			rhs := t.expr(v.Rhs[i])
			if v.Tok != token.ASSIGN && v.Tok != token.DEFINE {
				// op=
				op := map[token.Token]token.Token{token.ADD_ASSIGN: token.ADD, token.SUB_ASSIGN: token.SUB, token.MUL_ASSIGN: token.MUL,
					token.QUO_ASSIGN: token.QUO, token.REM_ASSIGN: token.REM, token.SHL_ASSIGN: token.SHL, token.SHR_ASSIGN: token.SHR,
					token.XOR_ASSIGN: token.XOR, token.AND_ASSIGN: token.AND, token.OR_ASSIGN: token.OR}[v.Tok]
				rhs = t.expr(&ast.BinaryExpr{X: v.Lhs[i], Op: op, Y: v.Rhs[i]})
			}
			if idxs != nil {
				if c, isCall := v.Rhs[i].(*ast.CallExpr); isSliceTy(t.typeOf(v.Lhs[i])) && !(isCall && src(c.Fun) == "make") {
					return t.fail("a slice stored through an index must come from make (aliasing)")
				}
				rhs = t.sliceSet(name, t.types[name], idxs, rhs)
			}
			if v.Tok == token.DEFINE {
				if c, isCall := v.Rhs[i].(*ast.CallExpr); isCall {
					if r := rootIdent(c); r != "" && t.types[r] == "object" {
						t.localObj[name] = true
					}
				}
				ty := t.typeOf(v.Rhs[i])
				if _, isFn := v.Rhs[i].(*ast.FuncLit); isFn {
					ty = "func"
				}
				if ty == "untyped" {
					ty = "int"
				}
				t.types[name] = ty
				t.params[name] = true
			}
			names = append(names, name)
			vals = append(vals, rhs)
		}
		if len(names) == 1 {
			ann := ""
			if ty, ok := t.types[names[0]]; ok && (ty == "uint" || ty == "int" || ty == "bool" || ty == "[2]uint" || ty == "error" || isSliceTy(ty)) {
				ann = " : " + leanType(ty)
			} else if strings.Contains(names[0], "_") && t.extraSet[names[0]] {
				ann = " : Nat"
			}
			g := t.takeGuards()
			return t.wrapGuards(g, "let "+names[0]+ann+" := "+vals[0]+"; "+t.stmts(rest, k))
		}
		g := t.takeGuards()
		return t.wrapGuards(g, "let ("+strings.Join(names, ", ")+") := ("+strings.Join(vals, ", ")+"); "+t.stmts(rest, k))
	case *ast.IncDecStmt:
		op := token.ADD
		if v.Tok == token.DEC {
			op = token.SUB
		}
		as := &ast.AssignStmt{Lhs: []ast.Expr{v.X}, Tok: token.ASSIGN, Rhs: []ast.Expr{&ast.BinaryExpr{X: v.X, Op: op, Y: &ast.BasicLit{Kind: token.INT, Value: "1"}}}}
		return t.stmts(append([]ast.Stmt{as}, rest...), k)
	case *ast.DeclStmt:
		gd, ok := v.Decl.(*ast.GenDecl)
		if !ok {
			return t.fail("decl %s", src(v))
		}
		out := ""
		for _, sp := range gd.Specs {
			vs, ok := sp.(*ast.ValueSpec)
			if !ok {
				return t.fail("decl %s", src(v))
			}
			for i, n := range vs.Names {
				ty := "uint"
				if vs.Type != nil {
					ty = src(vs.Type)
				}
				if i < len(vs.Values) {
					if bl, ok := vs.Values[i].(*ast.BasicLit); ok && bl.Kind == token.STRING {
						continue // string constants (operation names) are irrelevant
					}
				}
				t.types[n.Name] = ty
				t.params[n.Name] = true
				val := "0"
				if i < len(vs.Values) {
					val = t.expr(vs.Values[i])
				} else if strings.HasPrefix(ty, "*") {
					// `var e *T`: a local object variable; the value word standing for the nil pointer is an
					// uninterpreted parameter (a theorem about the translation holds whatever it is)
					t.types[n.Name] = "uint"
					t.localObj[n.Name] = true
					val = "nil_" + strings.TrimPrefix(ty, "*")
					if !t.extraSet[val] {
						t.extraSet[val] = true
						t.extra = append(t.extra, val)
					}
				} else if isSliceTy(ty) {
					val = zeroOf(ty)
				}
				out += "let " + n.Name + " : " + leanType(ty) + " := " + val + "; "
			}
		}
		if len(t.guards) > 0 {
			return t.fail("declaration that may panic")
		}
		return out + t.stmts(rest, k)
	case *ast.BlockStmt:
		return t.stmts(v.List, cont(nil))
	case *ast.IfStmt:
		pre := ""
		if v.Init != nil {
			// if x := e; cond { … }: bind first
			return t.stmts(append([]ast.Stmt{v.Init, &ast.IfStmt{Cond: v.Cond, Body: v.Body, Else: v.Else}}, rest...), k)
		}
		if be, ok := v.Cond.(*ast.BinaryExpr); ok && be.Op == token.LAND && t.mayPanic(be.Y) {
			// `if A && B` with B possibly panicking: B is evaluated (and guarded) only when A holds
			inner := &ast.IfStmt{Cond: be.Y, Body: v.Body, Else: v.Else}
			outer := &ast.IfStmt{Cond: be.X, Body: &ast.BlockStmt{List: []ast.Stmt{inner}}, Else: v.Else}
			return t.stmts(append([]ast.Stmt{outer}, rest...), k)
		}
		thenS := t.stmts(v.Body.List, cont(nil))
		var elseS string
		switch e := v.Else.(type) {
		case nil:
			elseS = t.stmts(rest, k)
		case *ast.BlockStmt:
			elseS = t.stmts(e.List, cont(nil))
		case *ast.IfStmt:
			elseS = t.stmts([]ast.Stmt{e}, cont(nil))
		}
		condS := t.cond(v.Cond)
		return t.wrapGuards(t.takeGuards(), pre+"(if "+condS+" then "+thenS+" else "+elseS+")")
	case *ast.SwitchStmt:
		if v.Init != nil {
			return t.fail("switch with init")
		}
		if v.Tag != nil {
			// `switch x { case a, b: … }` on a variable: the cases are the tests x == a, x == b
			if _, ok := v.Tag.(*ast.Ident); !ok {
				return t.fail("switch with a tag that is not a variable")
			}
		}
		bad := false
		ast.Inspect(v.Body, func(n ast.Node) bool {
			if b, ok := n.(*ast.BranchStmt); ok && (b.Tok == token.BREAK || b.Tok == token.FALLTHROUGH) {
				bad = true
			}
			return true
		})
		if bad {
			return t.fail("switch with break/fallthrough")
		}
		// tagless switch: first matching case
		var chain func(i int) string
		clauses := v.Body.List
		var deflt *ast.CaseClause
		var conds []*ast.CaseClause
		for _, c := range clauses {
			cc := c.(*ast.CaseClause)
			if len(cc.List) == 0 {
				deflt = cc
			} else {
				conds = append(conds, cc)
			}
		}
		chain = func(i int) string {
			if i == len(conds) {
				if deflt != nil {
					return t.stmts(deflt.Body, cont(nil))
				}
				return t.stmts(rest, k)
			}
			var cs []string
			for _, e := range conds[i].List {
				if v.Tag != nil {
					e = &ast.BinaryExpr{X: v.Tag, Op: token.EQL, Y: e}
				}
				cs = append(cs, t.cond(e))
			}
			if len(t.guards) > 0 {
				return t.fail("switch case that may panic")
			}
			return "(if " + strings.Join(cs, " ∨ ") + " then " + t.stmts(conds[i].Body, cont(nil)) + " else " + chain(i+1) + ")"
		}
		return chain(0)
	case *ast.ForStmt:
		return t.forLoop(v, "", rest, k)
	case *ast.LabeledStmt:
		if fs, ok := v.Stmt.(*ast.ForStmt); ok {
			return t.forLoop(fs, v.Label.Name, rest, k)
		}
		return t.fail("labelled statement %s", v.Label.Name)
	case *ast.RangeStmt:
		// `for _, x := range []uint{e1, …, en} { body }` without break/continue: the elements are evaluated
		// first (temporaries), then the body is unrolled once per element
		if ds, ok := t.desugarRange(v); ok {
			return t.stmts(ds, cont(nil))
		}
		cl, isLit := v.X.(*ast.CompositeLit)
		val, isId := v.Value.(*ast.Ident)
		if !isLit || !isId || src(cl.Type) != "[]uint" || v.Tok != token.DEFINE || (v.Key != nil && src(v.Key) != "_") {
			return t.fail("range statement %s", src(v.X))
		}
		bad := false
		ast.Inspect(v.Body, func(n ast.Node) bool {
			if _, ok := n.(*ast.BranchStmt); ok {
				bad = true
			}
			return true
		})
		if bad {
			return t.fail("range body with break/continue")
		}
		*t.rangeN++
		var pre, blocks []ast.Stmt
		for i, el := range cl.Elts {
			tmp := ast.NewIdent(fmt.Sprintf("rng%d_%d", *t.rangeN, i))
			pre = append(pre, &ast.AssignStmt{Lhs: []ast.Expr{tmp}, Tok: token.DEFINE, Rhs: []ast.Expr{el}})
			bind := &ast.AssignStmt{Lhs: []ast.Expr{val}, Tok: token.DEFINE, Rhs: []ast.Expr{tmp}}
			blocks = append(blocks, &ast.BlockStmt{List: append([]ast.Stmt{bind}, v.Body.List...)})
		}
		return t.stmts(append(pre, blocks...), cont(nil))
	case *ast.BranchStmt:
		if v.Tok == token.BREAK && t.brkVar != "" && v.Label == nil {
			return "let " + t.brkVar + " : Bool := true; " + t.retTuple(t.results)
		}
		if v.Tok == token.CONTINUE && t.canContinue && (v.Label == nil || v.Label.Name == t.loopLabel) {
			// `continue`: the rest of the body is dropped, the post statement runs
			return t.stmts(t.contPost, nil)
		}
		return t.fail("branch statement %s", src(v))
	case *ast.ExprStmt:
		// `x.M(args)` as a statement on a local object variable x: the method may change x (and only x);
		// x becomes an uninterpreted function of its old value and the arguments
		if c, ok := v.X.(*ast.CallExpr); ok {
			if mi, ok := t.ownMethod(c); ok && mi.retGo == "" {
				// a mutating method of the own receiver: the fields it assigns get their new values
				call := t.ownCall(mi, c)
				if mi.partial {
					call = t.bindPartial(call)
				}
				for _, a := range mi.assigned {
					t.assigned[a] = true
				}
				g := t.takeGuards()
				lhs := mi.assigned[0]
				if len(mi.assigned) > 1 {
					lhs = "(" + strings.Join(mi.assigned, ", ") + ")"
				}
				return t.wrapGuards(g, "let "+lhs+" := "+call+"; "+t.stmts(rest, k))
			}
			if sel, ok := c.Fun.(*ast.SelectorExpr); ok {
				if ie, ok := sel.X.(*ast.IndexExpr); ok && t.typeOf(ie) == elemGo && !elemBoolMethods[sel.Sel.Name] {
					// `b[i].M(args)`: the element object in slot i is changed in place; as a VALUE, slot i
					// becomes method_M (old value) args   (element objects shared between slots or
					// polynomials are not modelled)
					val, _, _ := t.elemMethod(c)
					as := &ast.AssignStmt{Lhs: []ast.Expr{ie}, Tok: token.ASSIGN, Rhs: []ast.Expr{ident("elem_tmp")}}
					t.types["elem_tmp"] = elemGo
					g0 := t.guards
					t.guards = nil
					body := t.stmts(append([]ast.Stmt{as}, rest...), k)
					return t.wrapGuards(g0, "let elem_tmp : Option Nat := some "+val+"; "+body)
				}
			}
			if m, recv, ok := t.localMethod(c); ok {
				margs := append([]string{recv}, t.methodArgs(c.Args)...)
				t.registerMethod(m, len(margs))
				return "let " + recv + " : Nat := (" + m + " " + strings.Join(margs, " ") + "); " + t.stmts(rest, k)
			}
		}
		return t.fail("expression statement %s", src(v))
	}
	return t.fail("statement %s", src(s))
}

// variables assigned inside a statement list (syntactically)
func assignedVars(t *tr, list []ast.Stmt) []string {
	set := map[string]bool{}
	for _, s := range list {
		ast.Inspect(s, func(n ast.Node) bool {
			switch a := n.(type) {
			case *ast.AssignStmt:
				if a.Tok == token.DEFINE {
					return true
				}
				for _, l := range a.Lhs {
					l = stripIndex(l) // (`b[i] = e` assigns the slice variable b)
					if id, ok := l.(*ast.Ident); ok {
						set[id.Name] = true
					} else if m, ok := mangle(l); ok {
						set[m] = true
					}
				}
			case *ast.IncDecStmt:
				x := stripIndex(a.X)
				if id, ok := x.(*ast.Ident); ok {
					set[id.Name] = true
				} else if m, ok := mangle(x); ok {
					set[m] = true
				}
			case *ast.ExprStmt:
				if c, ok := a.X.(*ast.CallExpr); ok {
					if _, recv, ok := t.localMethod(c); ok {
						set[recv] = true
					}
				}
			}
			return true
		})
	}
	var out []string
	for v := range set {
		out = append(out, v)
	}
	sort.Strings(out)
	return out
}

// for loops: `for init; cond; post { body }` without break/continue/return inside the body.
// Emitted as   let rec-free:  loopN (fuel) (state) := match fuel with | 0 => state | f+1 => if cond then loopN f (body;post) else state
// as a separate top-level definition (structural recursion on fuel); the call site passes `loopFuel`.
func (t *tr) forLoop(v *ast.ForStmt, label string, rest, k []ast.Stmt) string {
	if v.Init != nil {
		// translate init, then the loop
		var loop ast.Stmt = &ast.ForStmt{Cond: v.Cond, Post: v.Post, Body: v.Body}
		if label != "" {
			loop = &ast.LabeledStmt{Label: ident(label), Stmt: loop}
		}
		return t.stmts(append([]ast.Stmt{v.Init}, loop), append(append([]ast.Stmt{}, rest...), k...))
	}
	if v.Init == nil && label != "" {
		// labelled `continue` from a loop nested directly in the body: see desugarLabelledContinue
		v = &ast.ForStmt{Cond: v.Cond, Post: v.Post, Body: &ast.BlockStmt{List: t.desugarLabelledContinue(v.Body.List, label)}}
	}
	bad := false
	hasBreak := false
	hasRet := t.partial // (a panic leaves the loop like a `return`)
	var walk func(n ast.Node, depth int)
	walk = func(n ast.Node, depth int) {
		ast.Inspect(n, func(m ast.Node) bool {
			switch b := m.(type) {
			case *ast.ReturnStmt:
				hasRet = true // (at any depth: an inner loop hands its return slot to the enclosing loop)
			case *ast.FuncLit:
				bad = true
			case *ast.ForStmt:
				if m == n {
					return true
				}
				walk(b, depth+1)
				return false
			case *ast.RangeStmt:
				if _, isLit := b.X.(*ast.CompositeLit); isLit {
					return true // unrolled (its body may not contain break/continue)
				}
				walk(b.Body, depth+1)
				return false
			case *ast.BranchStmt:
				if b.Tok == token.BREAK && b.Label == nil {
					if depth == 0 {
						hasBreak = true
					}
				} else if b.Tok == token.CONTINUE && depth == 0 && (b.Label == nil || b.Label.Name == label) {
					// translated by dropping the continuation
				} else if b.Tok == token.CONTINUE && depth > 0 && b.Label == nil {
					// belongs to an inner loop
				} else {
					bad = true
				}
			}
			return true
		})
	}
	walk(v.Body, 0)
	if bad || (hasRet && t.retTy == "") {
		return t.fail("loop with continue/labelled break/closure/return from a nested loop (or return without known result type)")
	}

	pre := ""
	body := append([]ast.Stmt{}, v.Body.List...)
	if v.Post != nil {
		body = append(body, v.Post)
	}
	state := assignedVars(t, body)
	if len(state) == 0 {
		return t.fail("loop without state")
	}
	// locals defined inside the body are not part of the state (the function has no shadowing, see
	// `shadowing`, so such a name cannot also be a variable of an enclosing scope)
	bodyLocals := definedIn(body)
	var st []string
	for _, s := range state {
		if bodyLocals[s] {
			continue
		}
		if t.params[s] || t.extraSet[s] || t.assigned[s] {
			st = append(st, s)
		} else if _, ok := t.types[s]; ok {
			st = append(st, s)
		}
	}
	state = st
	for _, s := range state {
		if strings.Contains(s, "_") && !t.params[s] {
			t.assigned[s] = true
			if !t.extraSet[s] {
				t.extraSet[s] = true
				t.extra = append(t.extra, s)
			}
		}
	}
	t.loopN++
	name := fmt.Sprintf("%s_loop%d", t.fn.leanName(), t.loopN)
	brk := ""
	if hasBreak {
		brk = fmt.Sprintf("brk%d", t.loopN)
		t.types[brk] = "bool"
		t.params[brk] = true
		state = append(state, brk)
	}
	ret := ""
	if hasRet {
		ret = fmt.Sprintf("ret%d", t.loopN)
		t.types[ret] = "retslot"
		t.params[ret] = true
		state = append(state, ret)
	}
	visible := map[string]bool{}
	for n := range t.params {
		visible[n] = true
	}
	// loop body as a function of the state returning the new state
	sub := *t
	sub.results = state
	sub.loops = nil
	sub.brkVar = brk
	sub.retVar = ret
	sub.isLoopBody = true
	sub.canContinue = true
	sub.loopLabel = label
	sub.contPost = nil
	if v.Post != nil {
		sub.contPost = []ast.Stmt{v.Post}
	}
	sub.guards = nil
	bodyS := sub.stmts(body, nil)
	if sub.needPartial {
		t.needPartial = true
	}
	t.extra = sub.extra
	t.loopN = sub.loopN
	t.loops = append(t.loops, sub.loops...)
	if sub.failed != "" && t.failed == "" {
		t.failed = sub.failed
	}
	condS := "True"
	if v.Cond != nil {
		condS = t.cond(v.Cond)
		if len(t.guards) > 0 {
			return t.fail("loop condition that may panic")
		}
	}
	if hasBreak {
		condS = "(" + condS + " ∧ " + brk + " = false)"
	}
	if hasRet {
		condS = "(" + condS + " ∧ " + ret + ".isNone = true)"
	}
	// free variables of the loop: word parameters / locals / mangled selectors occurring in it
	occurs := map[string]bool{}
	collect := func(n ast.Node) {
		ast.Inspect(n, func(m ast.Node) bool {
			switch e := m.(type) {
			case *ast.Ident:
				occurs[e.Name] = true
			case *ast.SelectorExpr:
				if mm, ok := mangle(e); ok {
					occurs[mm] = true
				}
			case *ast.ReturnStmt:
				if len(e.Results) == 0 {
					for _, r := range t.fnResults {
						occurs[r] = true
					}
				}
			case *ast.CallExpr:
				if mm, ok := mangle(e); ok {
					occurs[mm] = true
				}
				if sel, ok := e.Fun.(*ast.SelectorExpr); ok && t.typeOf(sel.X) == elemGo {
					occurs["method_"+sel.Sel.Name] = true
				}
				if mi, ok := t.ownMethod(e); ok {
					for _, x := range mi.extra {
						occurs[x] = true
					}
				}
				if sel, ok := e.Fun.(*ast.SelectorExpr); ok && len(e.Args) == 0 {
					if inner, ok := sel.X.(*ast.CallExpr); ok {
						if _, _, ok := t.localMethod(inner); ok {
							occurs["method_"+sel.Sel.Name] = true
						}
					}
				}
				if mm, _, ok := t.localMethod(e); ok {
					occurs[mm] = true
					for _, a := range e.Args {
						if id, ok := a.(*ast.Ident); ok && t.types[id.Name] == "object" {
							occurs[id.Name+"_val"] = true
						}
					}
				}
			}
			return true
		})
	}
	if v.Cond != nil {
		collect(v.Cond)
	}
	for _, s := range body {
		collect(s)
	}
	var free []string
	inState := map[string]bool{}
	for _, s := range state {
		inState[s] = true
	}
	// names introduced inside the body are locals of the body, never parameters of the loop
	for n := range bodyLocals {
		inState[n] = true
	}
	var cand []string
	for n := range occurs {
		cand = append(cand, n)
	}
	sort.Strings(cand)
	for _, n := range cand {
		if inState[n] || t.isKnownFunc(n) {
			continue
		}
		if t.extraSet[n] {
			free = append(free, n)
			continue
		}
		ty, hasTy := t.types[n]
		if visible[n] && hasTy && (ty == "uint" || ty == "int" || ty == "bool" || ty == "[2]uint" || isSliceTy(ty) || (ty == "func" && t.extraTy[n] != "")) {
			free = append(free, n)
		}
	}
	selfArg := ""
	if t.selfName != "" && occurs[t.selfName] && !inState[t.selfName] {
		selfArg = "self"
	}
	var params []string
	if selfArg != "" {
		params = append(params, "(self : "+t.selfTy+")")
		free = append([]string{selfArg}, free...)
	}
	for _, f := range free {
		if f == selfArg {
			continue
		}
		ty := leanType(t.types[f])
		if t.extraTy != nil && t.extraTy[f] != "" {
			ty = t.extraTy[f]
		}
		params = append(params, "("+f+" : "+ty+")")
	}
	stTypes := make([]string, len(state))
	for i, s := range state {
		stTypes[i] = leanType(t.types[s])
		if t.types[s] == "retslot" {
			stTypes[i] = "Option (" + t.retTy + ")"
		}
	}
	stTuple := t.retTuple(state)
	stType := strings.Join(stTypes, " × ")
	def := fmt.Sprintf("def %s %s : Nat → %s → %s\n  | 0, st => st\n  | fuel + 1, %s =>\n    if %s then %s fuel (%s) else %s\n",
		name, strings.Join(params, " "), stType, stType, stTuple, condS, strings.TrimSpace(name+" "+strings.Join(free, " ")), bodyS, stTuple)
	t.loops = append(t.loops, def)
	call := "(" + strings.TrimSpace(name+" "+strings.Join(free, " ")) + " loopFuel " + stTuple + ")"
	init := ""
	if hasBreak {
		init = "let " + brk + " : Bool := false; "
	}
	if hasRet {
		init += "let " + ret + " : Option (" + t.retTy + ") := none; "
		outer := "v"
		if t.retVar != "" {
			// inside the body of an enclosing loop: hand the value to its return slot and leave its body
			outer = "let " + t.retVar + " : Option (" + t.retTy + ") := some v; " + t.retTuple(t.results)
		}
		return pre + init + "let " + stTuple + " := " + call + "; (match " + ret + " with | some v => " + outer + " | none => " + t.stmts(rest, k) + ")"
	}
	return pre + init + "let " + stTuple + " := " + call + "; " + t.stmts(rest, k)
}

// names declared (`:=`, `var`, range variables) anywhere inside a statement list
func definedIn(list []ast.Stmt) map[string]bool {
	set := map[string]bool{}
	for _, s := range list {
		ast.Inspect(s, func(n ast.Node) bool {
			switch a := n.(type) {
			case *ast.AssignStmt:
				if a.Tok == token.DEFINE {
					for _, l := range a.Lhs {
						if id, ok := l.(*ast.Ident); ok {
							set[id.Name] = true
						}
					}
				}
			case *ast.RangeStmt:
				if a.Tok == token.DEFINE {
					for _, l := range []ast.Expr{a.Key, a.Value} {
						if id, ok := l.(*ast.Ident); ok {
							set[id.Name] = true
						}
					}
				}
			case *ast.ValueSpec:
				for _, id := range a.Names {
					set[id.Name] = true
				}
			}
			return true
		})
	}
	return set
}

// shadowing reports a name that is declared in a scope nested inside another scope declaring the same
// name (the translation of blocks by continuation into Lean `let`s would confuse the two variables).
func shadowing(ft *ast.FuncType, recv *ast.FieldList, body *ast.BlockStmt) string {
	found := ""
	type scope map[string]bool
	var stack []scope
	declare := func(name string) {
		if name == "_" || found != "" {
			return
		}
		for _, sc := range stack[:len(stack)-1] {
			if sc[name] {
				found = name
			}
		}
		stack[len(stack)-1][name] = true
	}
	fields := func(fl *ast.FieldList) {
		if fl == nil {
			return
		}
		for _, f := range fl.List {
			for _, n := range f.Names {
				declare(n.Name)
			}
		}
	}
	var stmt func(s ast.Stmt)
	var exprs func(n ast.Node)
	block := func(list []ast.Stmt) {
		stack = append(stack, scope{})
		for _, s := range list {
			stmt(s)
		}
		stack = stack[:len(stack)-1]
	}
	exprs = func(n ast.Node) {
		if n == nil {
			return
		}
		ast.Inspect(n, func(m ast.Node) bool {
			if fl, ok := m.(*ast.FuncLit); ok {
				stack = append(stack, scope{})
				fields(fl.Type.Params)
				fields(fl.Type.Results)
				block(fl.Body.List)
				stack = stack[:len(stack)-1]
				return false
			}
			return true
		})
	}
	stmt = func(s ast.Stmt) {
		switch v := s.(type) {
		case nil:
		case *ast.AssignStmt:
			for _, r := range v.Rhs {
				exprs(r)
			}
			if v.Tok == token.DEFINE {
				for _, l := range v.Lhs {
					if id, ok := l.(*ast.Ident); ok {
						declare(id.Name)
					}
				}
			}
		case *ast.DeclStmt:
			if gd, ok := v.Decl.(*ast.GenDecl); ok {
				for _, sp := range gd.Specs {
					if vs, ok := sp.(*ast.ValueSpec); ok {
						for _, e := range vs.Values {
							exprs(e)
						}
						for _, id := range vs.Names {
							declare(id.Name)
						}
					}
				}
			}
		case *ast.BlockStmt:
			block(v.List)
		case *ast.IfStmt:
			stack = append(stack, scope{})
			stmt(v.Init)
			exprs(v.Cond)
			block(v.Body.List)
			if v.Else != nil {
				stmt(v.Else)
			}
			stack = stack[:len(stack)-1]
		case *ast.ForStmt:
			stack = append(stack, scope{})
			stmt(v.Init)
			exprs(v.Cond)
			stmt(v.Post)
			block(v.Body.List)
			stack = stack[:len(stack)-1]
		case *ast.RangeStmt:
			stack = append(stack, scope{})
			exprs(v.X)
			if v.Tok == token.DEFINE {
				for _, l := range []ast.Expr{v.Key, v.Value} {
					if id, ok := l.(*ast.Ident); ok {
						declare(id.Name)
					}
				}
			}
			block(v.Body.List)
			stack = stack[:len(stack)-1]
		case *ast.SwitchStmt:
			stack = append(stack, scope{})
			stmt(v.Init)
			exprs(v.Tag)
			for _, c := range v.Body.List {
				cc := c.(*ast.CaseClause)
				for _, e := range cc.List {
					exprs(e)
				}
				block(cc.Body)
			}
			stack = stack[:len(stack)-1]
		default:
			exprs(s)
		}
	}
	stack = append(stack, scope{})
	fields(recv)
	fields(ft.Params)
	fields(ft.Results)
	for _, s := range body.List {
		stmt(s)
	}
	return found
}

// result types of a call of a translated function (or of the function itself)
func (t *tr) callResultTypes(e ast.Expr) []string {
	c, ok := e.(*ast.CallExpr)
	if !ok {
		return nil
	}
	if sel, ok := c.Fun.(*ast.SelectorExpr); ok && isPkgName(rootIdent(sel)) {
		if rts, ok := t.types["rets:"+src(sel)]; ok {
			return strings.Split(rts, ",")
		}
	}
	id, ok := c.Fun.(*ast.Ident)
	if !ok {
		return nil
	}
	if rts, ok := t.types["rets:"+id.Name]; ok {
		return strings.Split(rts, ",")
	}
	return nil
}

// a call of an already translated function that has a recursion fuel (callers pass `loopFuel`)
func (t *tr) calleeHasFuel(e ast.Expr) bool {
	c, ok := e.(*ast.CallExpr)
	if !ok {
		return false
	}
	name := ""
	switch f := c.Fun.(type) {
	case *ast.Ident:
		name = f.Name
	case *ast.SelectorExpr:
		if isPkgName(rootIdent(f)) {
			name = src(f)
		}
	}
	return name != "" && strings.HasSuffix(t.known[name], " loopFuel")
}

func callsItself(f *fn) bool {
	recursive := false
	if f.decl.Recv == nil {
		ast.Inspect(f.decl.Body, func(n ast.Node) bool {
			if c, ok := n.(*ast.CallExpr); ok {
				if id, ok := c.Fun.(*ast.Ident); ok && id.Name == f.decl.Name.Name {
					recursive = true
				}
			}
			return true
		})
	} else if len(f.decl.Recv.List) > 0 && len(f.decl.Recv.List[0].Names) > 0 {
		// a method calling itself on its own receiver
		recv := f.decl.Recv.List[0].Names[0].Name
		ast.Inspect(f.decl.Body, func(n ast.Node) bool {
			if c, ok := n.(*ast.CallExpr); ok {
				if sel, ok := c.Fun.(*ast.SelectorExpr); ok && sel.Sel.Name == f.decl.Name.Name {
					if id, ok := sel.X.(*ast.Ident); ok && id.Name == recv {
						recursive = true
					}
				}
			}
			return true
		})
	}
	return recursive
}

func resultTypes(ft *ast.FuncType) []string {
	var out []string
	if ft.Results == nil {
		return nil
	}
	for _, fld := range ft.Results.List {
		n := len(fld.Names)
		if n == 0 {
			n = 1
		}
		for i := 0; i < n; i++ {
			out = append(out, src(fld.Type))
		}
	}
	return out
}

func (t *tr) isKnownFunc(n string) bool {
	_, ok := t.known[n]
	return ok
}

func (f *fn) leanName() string {
	return "go_" + strings.ReplaceAll(f.key, ".", "_")
}

func newTr(f *fn, known map[string]string, retTypes map[string]string) *tr {
	t := &tr{fn: f, params: map[string]bool{}, extraSet: map[string]bool{}, extraTy: map[string]string{}, assigned: map[string]bool{}, known: known, types: map[string]string{}, rangeN: new(int), methods: map[string]string{}, localObj: map[string]bool{}}
	for k, v := range retTypes {
		if strings.HasPrefix(k, "rets:") {
			t.types[k] = v
		} else {
			t.types["ret:"+k] = v
		}
	}
	if name := shadowing(f.decl.Type, f.decl.Recv, f.decl.Body); name != "" {
		t.fail("variable %s is declared again in a nested scope", name)
	}
	return t
}

// translateFn returns the Lean definitions (loops first) for one function.  A function in which a
// construct that may panic is met (slice indexing, make with a signed length) is translated a second
// time as a partial function: result type `Option …`, `none` = run-time panic.
func translateFn(f *fn, known map[string]string, retTypes map[string]string) string {
	out, need := translateFnMode(f, known, retTypes, false)
	if need {
		out, _ = translateFnMode(f, known, retTypes, true)
	}
	return out
}

func translateFnMode(f *fn, known map[string]string, retTypes map[string]string, partial bool) (string, bool) {
	t := newTr(f, known, retTypes)
	t.partial = partial
	var ps, pTys []string
	if f.decl.Recv != nil && len(f.decl.Recv.List) > 0 && len(f.decl.Recv.List[0].Names) > 0 {
		t.recvName = f.decl.Recv.List[0].Names[0].Name
		t.params[t.recvName] = true
		t.types[t.recvName] = "object"
	}
	for _, fld := range f.decl.Type.Params.List {
		ty := src(fld.Type)
		for _, n := range fld.Names {
			t.params[n.Name] = true
			t.types[n.Name] = ty
			pTys = append(pTys, leanType(ty))
			if ty == "uint" || ty == "int" || ty == "bool" || ty == "[2]uint" || ty == "Order" || isSliceTy(ty) || ty == elemGo {
				ps = append(ps, "("+n.Name+" : "+leanType(ty)+")")
			} else {
				t.types[n.Name] = "object"
			}
		}
	}
	// pre-scan: selectors that are assigned are mutable state and must be parameters too
	ast.Inspect(f.decl.Body, func(n ast.Node) bool {
		switch a := n.(type) {
		case *ast.AssignStmt:
			for _, l := range a.Lhs {
				l = stripIndex(l)
				if _, isId := l.(*ast.Ident); !isId {
					if m, ok := t.selector(l); ok {
						t.assigned[m] = true
					}
				}
			}
		case *ast.IncDecStmt:
			if _, isIdx := a.X.(*ast.IndexExpr); isIdx {
				if m, ok := t.selector(stripIndex(a.X)); ok {
					t.assigned[m] = true
				}
			}
		case *ast.ExprStmt:
			if c, ok := a.X.(*ast.CallExpr); ok {
				if mi, ok := t.ownMethod(c); ok && mi.retGo == "" {
					t.ownCall(mi, &ast.CallExpr{Fun: c.Fun}) // (registers the receiver fields as parameters)
					for _, x := range mi.assigned {
						t.assigned[x] = true
					}
				}
				if sel, ok := c.Fun.(*ast.SelectorExpr); ok {
					if ie, ok := sel.X.(*ast.IndexExpr); ok {
						if m, ok := t.selector(stripIndex(ie)); ok && t.types[m] == "[]"+elemGo {
							t.assigned[m] = true
						}
					}
				}
			}
		}
		return true
	})
	returnsRecv := t.recvName != "" && f.decl.Type.Results != nil && len(f.decl.Type.Results.List) == 1 &&
		len(f.decl.Type.Results.List[0].Names) == 0 && len(t.assigned) > 0 &&
		(src(f.decl.Type.Results.List[0].Type) == "*"+recvType(f.decl) ||
			(src(f.decl.Type.Results.List[0].Type) == elemGo && returnsOnlyRecv(f.decl, t.recvName)))
	if returnsRecv {
		// a method returning its receiver: the final values of the receiver fields it assigns
		var rts []string
		for _, a := range t.assignedSorted() {
			rts = append(rts, leanType(t.types[a]))
		}
		t.retTy = strings.Join(rts, " × ")
	} else if f.decl.Type.Results != nil {
		var rts []string
		for _, fld := range f.decl.Type.Results.List {
			n := len(fld.Names)
			if n == 0 {
				n = 1
			}
			for i := 0; i < n; i++ {
				rts = append(rts, t.leanTypeG(src(fld.Type)))
			}
			for _, nm := range fld.Names {
				t.fnResults = append(t.fnResults, nm.Name)
			}
		}
		t.retTy = strings.Join(rts, " × ")
	} else if t.recvName != "" && len(t.assigned) > 0 {
		// a method without results: the final values of the receiver fields it assigns
		var rts []string
		for _, a := range t.assignedSorted() {
			rts = append(rts, leanType(t.types[a]))
		}
		t.fnResults = t.assignedSorted()
		t.retTy = strings.Join(rts, " × ")
	}
	{
		ps := map[string]bool{}
		for _, fld := range f.decl.Type.Params.List {
			for _, n := range fld.Names {
				ps[n.Name] = true
			}
		}
		if msg := aliasCheck(t.recvName, ps, f.decl.Body.List); msg != "" {
			t.fail("%s", msg)
		}
	}
	voidRetTy := t.retTy
	if partial {
		t.retTy = "Option (" + t.retTy + ")"
	}
	// a function that calls itself is translated with a recursion fuel as its first argument
	recursive := callsItself(f)
	if recursive {
		t.selfName = f.decl.Name.Name
		t.selfTy = strings.Join(append(append([]string{}, pTys...), t.retTy), " → ")
		t.types["rets:"+t.selfName] = strings.Join(resultTypes(f.decl.Type), ",")
		if rts := resultTypes(f.decl.Type); len(rts) == 1 {
			t.types["ret:"+t.selfName] = rts[0]
		}
	}
	body := t.funcBody(f.decl.Type, f.decl.Body)
	if recursive && ((len(t.extra) > 0 && t.recvName == "") || len(ps) != len(pTys)) {
		t.fail("recursive function with object parameters")
	}
	if len(t.guards) > 0 {
		t.fail("pending guards at the end of the body")
	}
	if t.needPartial && !partial {
		return "", true
	}
	var extra []string
	for _, e := range t.extra {
		ty := "Nat"
		if t.extraTy != nil && t.extraTy[e] != "" {
			ty = t.extraTy[e]
		}
		extra = append(extra, "("+e+" : "+ty+")")
	}
	var b strings.Builder
	if t.failed != "" {
		fmt.Fprintf(&b, "/-- %s: NOT TRANSLATED (%s) -/\ndef %s : Unsupported := ⟨%s⟩\n\n", f.key, strings.ReplaceAll(t.failed, "-/", "- /"), f.leanName(), leanStr(t.failed))
		return b.String(), false
	}
	for _, l := range t.loops {
		b.WriteString(l)
		b.WriteString("\n")
	}
	retTy := ""
	if returnsRecv {
		retTy = " : " + t.retTy
	} else if f.decl.Type.Results != nil {
		var rts []string
		for _, fld := range f.decl.Type.Results.List {
			n := len(fld.Names)
			if n == 0 {
				n = 1
			}
			for i := 0; i < n; i++ {
				ty := src(fld.Type)
				if ty == "*Element" {
					rts = append(rts, "Nat")
				} else {
					rts = append(rts, t.leanTypeG(ty))
				}
			}
		}
		retTy = " : " + strings.Join(rts, " × ")
		if partial {
			retTy = " : Option (" + strings.Join(rts, " × ") + ")"
		}
	} else if voidRetTy != "" {
		retTy = " : " + t.retTy
	}
	if recursive {
		var names, binders []string
		for _, fld := range f.decl.Type.Params.List {
			for _, n := range fld.Names {
				names = append(names, n.Name)
				binders = append(binders, "(x_"+n.Name+" : "+leanType(src(fld.Type))+")")
			}
		}
		wild := strings.TrimSuffix(strings.Repeat("_, ", len(names)), ", ")
		// (a method: the receiver fields it reads are fixed parameters in front of the fuel)
		fixed, fixedArgs := "", ""
		if len(extra) > 0 {
			fixed = " " + strings.Join(extra, " ")
			fixedArgs = " " + strings.Join(t.extra, " ")
		}
		fmt.Fprintf(&b, "/-- translated from %s (calls itself: the first argument bounds the recursion depth; `default` when it is used up) -/\ndef %s%s : Nat → %s\n  | 0, %s => default\n  | recFuel + 1, %s =>\n    let self : %s := (fun %s => %s%s recFuel %s);\n    %s\n\n",
			f.key, f.leanName(), fixed, t.selfTy, wild, strings.Join(names, ", "), t.selfTy, strings.Join(binders, " "), f.leanName(), fixedArgs,
			"x_"+strings.Join(names, " x_"), body)
		return b.String(), false
	}
	if f.decl.Recv != nil {
		mi := &methodInfo{lean: f.leanName(), extra: append([]string{}, t.extra...), extraTy: map[string]string{}, extraGo: map[string]string{},
			nArgs: len(ps), partial: partial}
		for _, e := range t.extra {
			ty := "Nat"
			if t.extraTy[e] != "" {
				ty = t.extraTy[e]
			}
			mi.extraTy[e] = ty
			if g, ok := t.types[e]; ok {
				mi.extraGo[e] = g
			}
		}
		if f.decl.Type.Results == nil || returnsRecv {
			mi.assigned = t.assignedSorted()
			for _, a := range mi.assigned {
				mi.assTy = append(mi.assTy, t.types[a])
			}
		} else if rts := resultTypes(f.decl.Type); len(rts) == 1 {
			mi.retGo = rts[0]
		}
		if len(ps) == len(pTys) && (mi.retGo != "" || len(mi.assigned) > 0) {
			methodReg[f.key] = mi
		}
	}
	doc := ""
	if partial {
		doc = " (may panic: `none` = run-time panic, index out of range or negative length)"
	}
	fmt.Fprintf(&b, "/-- translated from %s%s -/\ndef %s %s%s :=\n  %s\n\n", f.key, doc, f.leanName(), strings.TrimSpace(strings.Join(append(extra, ps...), " ")), retTy, body)
	return b.String(), false
}

// functions translated, in dependency order
var translateList = []string{
	"auxmath.BoundSqrt", "auxmath.boundLog2", "auxmath.Pow", "auxmath.Gcd", "auxmath.FactorizePrimePower",
	"bivariate.swap", "bivariate.Lex", "bivariate.degCompare", "bivariate.WDegLex", "bivariate.WDegRevLex",
	"bivariate.DegLex", "bivariate.DegRevLex", "bivariate.addDegs", "bivariate.subtractDegs",
	"binfield.bitQuoRem", "binfield.bitProd", "binfield.Element.reduce",
	"primefield.estimateMemory", "extfield.estimateMemory",
	"auxmath.Factorize",
	"auxmath.NewCombinIter", "auxmath.CombinIter.Current", "auxmath.CombinIter.Active", "auxmath.CombinIter.Next",
	"primefield.table.lookup",
	"univariate.Polynomial.Ld", "univariate.Polynomial.coefPtr", "univariate.Polynomial.Coef", "univariate.Polynomial.coefIsZero",
	"univariate.Polynomial.reslice", "univariate.Polynomial.IsZero", "univariate.Polynomial.IsOne",
	"univariate.Polynomial.SetCoefPtr", "univariate.Polynomial.IncrementCoef", "univariate.Polynomial.DecrementCoef",
	"univariate.Polynomial.removeCoef",
	"univariate.Polynomial.Degrees", "univariate.Polynomial.NTerms", "univariate.Polynomial.IsMonomial",
	"binfield.Field.ElementFromBits", "binfield.Field.ElementFromUnsigned", "binfield.Field.ElementFromSigned",
	"binfield.Element.NTerms", "binfield.Element.SetUnsigned",
	"primefield.Field.element", "primefield.Field.ElementFromUnsigned", "primefield.Element.SetUnsigned",
	"primefield.Element.Uint", "primefield.Element.NTerms",
}

func writeCode(funcs map[string]*fn, path string) {
	var b strings.Builder
	b.WriteString("-- GENERATED by /verif/extract (translate.go) from /repo's working tree — do not edit\n")
	b.WriteString("import Algobra.Model.Word\nimport Algobra.Model.Errors\nset_option linter.unusedVariables false\nnamespace Algobra.Gen.Code\nopen Algobra\n\n")
	b.WriteString("/-- marker type of a function the translator could not handle -/\nstructure Unsupported where\n  reason : String\n\n")
	b.WriteString("/-- fuel of translated `for` loops: more rounds than any loop over machine words can make -/\ndef loopFuel : Nat := 2 ^ 64\n\n")
	known := map[string]string{}
	retTypes := map[string]string{}
	for _, key := range translateList {
		f, ok := funcs[key]
		if !ok {
			fmt.Fprintf(&b, "/-- %s: function not found in the source -/\ndef go_%s : Unsupported := ⟨\"missing\"⟩\n\n", key, strings.ReplaceAll(key, ".", "_"))
			continue
		}
		b.WriteString(translateFn(f, known, retTypes))
		parts := strings.Split(key, ".")
		known[parts[len(parts)-1]] = f.leanName()
		if callsItself(f) {
			known[parts[len(parts)-1]] = f.leanName() + " loopFuel"
		}
		if len(parts) == 2 {
			// package-qualified name, for calls from other packages
			known[key] = known[parts[1]]
			retTypes["rets:"+key] = strings.Join(resultTypes(f.decl.Type), ",")
			if f.decl.Type.Results != nil && len(f.decl.Type.Results.List) == 1 {
				retTypes[key] = src(f.decl.Type.Results.List[0].Type)
			}
		}
		if f.decl.Type.Results != nil && len(f.decl.Type.Results.List) == 1 {
			retTypes[parts[len(parts)-1]] = src(f.decl.Type.Results.List[0].Type)
		}
		retTypes["rets:"+parts[len(parts)-1]] = strings.Join(resultTypes(f.decl.Type), ",")
	}
	for _, sp := range suffixList {
		f, ok := funcs[sp.key]
		if !ok {
			fmt.Fprintf(&b, "/-- %s: function not found in the source -/\ndef go_%s_%s : Unsupported := ⟨\"missing\"⟩\n\n", sp.key, strings.ReplaceAll(sp.key, ".", "_"), sp.name)
			continue
		}
		b.WriteString(translateSuffix(f, sp, known, retTypes))
	}
	b.WriteString("end Algobra.Gen.Code\n")
	writeFile(path, b.String())
}

// ---------------------------------------------------------------------------------------------
// suffix extraction: translate the statements of a method from the first top-level statement whose
// source starts with `from` to the end of the body; `return <receiver>` returns the assigned selectors.
// Used for the arithmetic cores of methods whose heads are type assertions and error checks.

type suffixSpec struct {
	key  string // function key
	from string // prefix of the normalised source of the first statement of the suffix
	name string // Lean name suffix
}

var suffixList = []suffixSpec{
	{"primefield.Element.Add", "if a.field.addTable != nil", "core"},
	{"primefield.Element.Sub", "if a.val >= bb.val", "core"},
	{"primefield.Element.Prod", "if bb.IsZero() || cc.IsZero()", "core"},
	{"primefield.Element.SetNeg", "a.val = ", "core"},
	{"primefield.Element.Inv", "r0 := a.field.char", "core"},
	{"primefield.Field.ElementFromSigned", "val %= int(f.char)", "core"},
	{"binfield.Element.Add", "a.val ^= bb.val", "core"},
	{"binfield.Element.Prod", "res := uint(0)", "core"},
	{"binfield.Element.Inv", "r0 := a.field.conwayPoly", "core"},
	{"binfield.Element.Pow", "if a.IsZero()", "core"},
	{"primefield.Element.Pow", "if a.IsZero()", "core"},
	{"binfield.Element.Trace", "out := a.Copy()", "core"},
	{"primefield.newTable", "t := make([][]uint", "core"},
	{"primefield.Field.MultGenerator", "var e *Element", "core"},
}

func translateSuffix(f *fn, spec suffixSpec, known map[string]string, retTypes map[string]string) string {
	out, need := translateSuffixMode(f, spec, known, retTypes, false)
	if need {
		out, _ = translateSuffixMode(f, spec, known, retTypes, true)
	}
	return out
}

func translateSuffixMode(f *fn, spec suffixSpec, known map[string]string, retTypes map[string]string, partial bool) (string, bool) {
	t := newTr(f, known, retTypes)
	t.partial = partial
	t.noOwn = true
	if partial {
		// result type of a suffix that may panic (objects are value words)
		var rts []string
		for _, rt := range resultTypes(f.decl.Type) {
			if rt == elemGo {
				rts = append(rts, "Nat") // (in a suffix core an object is its value word)
			} else {
				rts = append(rts, t.leanTypeG(rt))
			}
		}
		t.retTy = "Option (" + strings.Join(rts, " × ") + ")"
	}
	name := f.leanName() + "_" + spec.name
	var ps []string
	if f.decl.Recv != nil && len(f.decl.Recv.List) > 0 && len(f.decl.Recv.List[0].Names) > 0 {
		t.recvName = f.decl.Recv.List[0].Names[0].Name
		t.params[t.recvName] = true
		t.types[t.recvName] = "object"
	}
	for _, fld := range f.decl.Type.Params.List {
		ty := src(fld.Type)
		for _, n := range fld.Names {
			t.params[n.Name] = true
			t.types[n.Name] = ty
			if ty == "uint" || ty == "int" || ty == "bool" || ty == "[2]uint" {
				ps = append(ps, "("+n.Name+" : "+leanType(ty)+")")
			} else if lt, rt, ok := funcLeanType(fld.Type); ok {
				// a parameter of function type over words
				ps = append(ps, "("+n.Name+" : "+lt+")")
				t.types[n.Name] = "func"
				t.types["ret:"+n.Name] = rt
				t.extraTy[n.Name] = lt
			} else {
				t.types[n.Name] = "object"
			}
		}
	}
	// locals bound in the skipped head by type assertions (`bb, ok := b.(*Element)`) are objects too
	start := -1
	for i, s := range f.decl.Body.List {
		if strings.HasPrefix(src(s), spec.from) {
			start = i
			break
		}
		ast.Inspect(s, func(n ast.Node) bool {
			if a, ok := n.(*ast.AssignStmt); ok && a.Tok == token.DEFINE {
				var rts []string
				if len(a.Rhs) == 1 {
					rts = t.callResultTypes(a.Rhs[0])
				}
				for i, l := range a.Lhs {
					if id, ok := l.(*ast.Ident); ok && id.Name != "_" {
						t.params[id.Name] = true
						t.types[id.Name] = "object"
						if len(rts) == len(a.Lhs) && isSliceTy(rts[i]) {
							// a slice returned by a translated function in the skipped head: a parameter
							t.types[id.Name] = rts[i]
							ps = append(ps, "("+id.Name+" : "+leanType(rts[i])+")")
						}
					}
				}
			}
			return true
		})
	}
	var b strings.Builder
	if start < 0 {
		fmt.Fprintf(&b, "/-- %s: statement starting with %q not found -/\ndef %s : Unsupported := ⟨\"suffix start not found\"⟩\n\n", f.key, spec.from, name)
		return b.String(), false
	}
	stmts := f.decl.Body.List[start:]
	{
		ps := map[string]bool{}
		for _, fld := range f.decl.Type.Params.List {
			for _, n := range fld.Names {
				ps[n.Name] = true
			}
		}
		if msg := aliasCheck(t.recvName, ps, stmts); msg != "" {
			t.fail("%s", msg)
		}
	}
	for _, s := range stmts {
		ast.Inspect(s, func(n ast.Node) bool {
			if a, ok := n.(*ast.AssignStmt); ok {
				for _, l := range a.Lhs {
					l = stripIndex(l)
					if _, isId := l.(*ast.Ident); !isId {
						if m, ok := t.selector(l); ok {
							t.assigned[m] = true
						}
					}
				}
			}
			return true
		})
	}
	saved := f.decl.Name.Name
	_ = saved
	t.fn = &fn{pkg: f.pkg, decl: f.decl, key: f.key + "_" + spec.name}
	body := t.stmts(stmts, nil)
	if t.needPartial && !partial {
		return "", true
	}
	if t.failed != "" {
		fmt.Fprintf(&b, "/-- %s (suffix from %q): NOT TRANSLATED (%s) -/\ndef %s : Unsupported := ⟨%s⟩\n\n", f.key, spec.from, strings.ReplaceAll(t.failed, "-/", "- /"), name, leanStr(t.failed))
		return b.String(), false
	}
	var extra []string
	for _, e := range t.extra {
		ty := "Nat"
		if t.extraTy[e] != "" {
			ty = t.extraTy[e]
		}
		extra = append(extra, "("+e+" : "+ty+")")
	}
	for _, l := range t.loops {
		b.WriteString(l)
		b.WriteString("\n")
	}
	doc, rty := "", ""
	if partial {
		doc = " (may panic: `none` = run-time panic, index out of range or negative length)"
		rty = " : " + t.retTy
	}
	fmt.Fprintf(&b, "/-- translated from %s, statements from `%s` to the end of the body%s -/\ndef %s %s%s :=\n  %s\n\n", f.key, spec.from, doc, name,
		strings.TrimSpace(strings.Join(append(extra, ps...), " ")), rty, body)
	return b.String(), false
}
