module algobra-verif/extract

go 1.23
