#!/bin/sh
# Build the whole framework offline from files on disk: extractor, regenerated Gen/*.lean, the Lean package
# (model, proofs, property theorems, driver executable) and the Go harness (plain and race-enabled).
set -e
cd "$(dirname "$0")/.."
export GOFLAGS=-mod=mod GOPROXY=off GOSUMDB=off GOTOOLCHAIN=local
mkdir -p build evidence replays
python3 - <<'PY'
import sys
sys.path.insert(0, "tools")
import common
common.regenerate()
common.build_harness()
try:
    common.build_harness(race=True)
except Exception as e:
    print("warning: race-enabled harness not built:", e)
PY
cd lean
# all property modules that exist, plus the driver
mods=$(ls Algobra/Props/*.lean 2>/dev/null | sed 's#/#.#g; s#\.lean$##')
lake build algobra_model $mods
