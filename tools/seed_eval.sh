#!/bin/sh
# seed_eval.sh <worktree> <patch.diff> <check ids...>
# Preliminary evaluation of a seeded change WITHOUT touching /repo or /verif: works in a scratch copy of /verif
# (${VSEED:-/tmp/vseed}) against the scratch worktree. The confirmed run registered in seeded/<id>/meta.json is made with
# tools/run_seeded.py against /repo itself.
set -e
WT=$1; PATCH=$2; shift 2
mkdir -p ${VSEED:-/tmp/vseed}
rsync -a --delete --exclude .git --exclude replays --exclude evidence /verif/ ${VSEED:-/tmp/vseed}/
mkdir -p ${VSEED:-/tmp/vseed}/replays ${VSEED:-/tmp/vseed}/evidence
git -C $WT checkout -q -- . && git -C $WT apply $PATCH
for c in "$@"; do
  echo "--- $c"
  (cd ${VSEED:-/tmp/vseed} && VERIF_REPO=$WT timeout 1200 python3 tools/check.py $c quick; echo "exit=$?") 2>&1 | tail -4
done
git -C $WT checkout -q -- .
