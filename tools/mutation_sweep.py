#!/usr/bin/env python3
"""mutation_sweep.py <n> [seed] — how many simple mechanical changes of the library do the checks report?

A measuring instrument for the checks (never registered in MANIFEST.json, never touches /repo or /verif's state):
works in a scratch git worktree of /repo and a scratch copy of /verif under /tmp/mm.

For each of n sampled mutation points (tools/mutator: operator swaps, literal changes, negated conditions, deleted
statements; non-test .go files without the data file and the verif hooks):
  1. apply it in the worktree; `go build ./...` must succeed (else: nocompile),
  2. the library's own test suite must still pass (else: killed by the suite — not interesting here),
  3. run the quick checks of the properties that concern the package until one prints VIOLATION (caught by Cxx);
     a check that does not end within its time limit counts as caught (hang); none: SURVIVED.
Results: /verif/mutation/results.jsonl (one object per mutant) and a summary on stdout. Survivors need a human look:
many are equivalent mutants (no behaviour change), some are outside every property, the rest are holes in the
generators.
"""
import json, os, random, subprocess, sys, time, shutil

REPO = "/repo"
VERIF = os.path.dirname(os.path.dirname(os.path.abspath(__file__)))
MM = "/tmp/mm"
WT = os.path.join(MM, "wt")
SV = os.path.join(MM, "verif")
ENV = dict(os.environ, GOFLAGS="-mod=mod", GOPROXY="off", GOSUMDB="off", GOTOOLCHAIN="local")

CHECKS = {
    "auxmath": ["C19", "C03", "C14"],
    "errors": ["C17"],
    "finitefield": ["C03"],
    "finitefield/primefield": ["C01", "C02", "C03", "C17", "C18", "C16", "C15"],
    "finitefield/binfield": ["C01", "C02", "C03", "C15", "C17", "C16"],
    "finitefield/extfield": ["C01", "C02", "C03", "C18", "C15", "C17", "C16"],
    "finitefield/conway": ["C04", "C03"],
    "univariate": ["C05", "C06", "C07", "C14", "C15", "C16", "C17"],
    "bivariate": ["C08", "C09", "C10", "C11", "C12", "C13", "C14", "C15", "C16", "C17"],
}


def sh(cmd, cwd=None, timeout=None, env=None):
    try:
        p = subprocess.run(cmd, cwd=cwd, capture_output=True, text=True, timeout=timeout, env=env or ENV)
        return p.returncode, p.stdout + p.stderr
    except subprocess.TimeoutExpired:
        return -9, "TIMEOUT"


def main():
    n = int(sys.argv[1]) if len(sys.argv) > 1 else 50
    seed = int(sys.argv[2]) if len(sys.argv) > 2 else 1
    os.makedirs(MM, exist_ok=True)
    if not os.path.exists(WT):
        subprocess.check_call(["git", "-C", REPO, "worktree", "add", "-q", "--detach", WT, "HEAD"])
    sh(["git", "-C", WT, "checkout", "-q", "--", "."])
    head = subprocess.check_output(["git", "-C", REPO, "rev-parse", "HEAD"], text=True).strip()
    sh(["git", "-C", WT, "checkout", "-q", "--detach", head])      # the committed state of /repo, never its working tree
    subprocess.check_call(["rsync", "-a", "--delete", "--exclude", ".git", "--exclude", "replays", "--exclude", "mutation",
                           VERIF + "/", SV + "/"])
    os.makedirs(os.path.join(SV, "replays"), exist_ok=True)
    mut = os.path.join(MM, "mutator")
    subprocess.check_call(["go", "build", "-o", mut, "."], cwd=os.path.join(VERIF, "tools", "mutator"), env=ENV)
    files = subprocess.check_output(["git", "-C", WT, "ls-files", "*.go"], text=True).split()
    files = [f for f in files if not f.endswith("_test.go") and "export_verif" not in f and "cpimport" not in f and not f.endswith("doc.go")]
    points = []
    for f in files:
        rc, out = sh([mut, "-list", os.path.join(WT, f)])
        for line in out.splitlines():
            k, _, desc = line.partition("\t")
            points.append((f, int(k), desc))
    rng = random.Random(seed)
    rng.shuffle(points)
    os.makedirs(os.path.join(VERIF, "mutation"), exist_ok=True)
    outp = os.path.join(VERIF, "mutation", "results.jsonl")
    done = set()
    if os.path.exists(outp):
        for l in open(outp):
            d = json.loads(l)
            done.add((d["file"], d["k"]))
    tally = {}
    taken = 0
    for (f, k, desc) in points:
        if taken >= n:
            break
        if (f, k) in done:
            continue
        taken += 1
        rec = {"file": f, "k": k, "desc": desc, "seed": seed}
        t0 = time.time()
        sh(["git", "-C", WT, "checkout", "-q", "--", "."])
        rc, src = sh([mut, "-apply", str(k), os.path.join(WT, f)])
        open(os.path.join(WT, f), "w").write(src)
        try:
            rc, out = sh(["go", "build", "./..."], cwd=WT, timeout=300)
            if rc != 0:
                rec["outcome"] = "nocompile"
            else:
                rc, out = sh(["go", "test", "-vet=off", "-count=1", "-timeout", "120s", "./..."], cwd=WT, timeout=400)
                if rc != 0:
                    rec["outcome"] = "killed-by-suite"
                else:
                    pkg = os.path.dirname(f)
                    rec["outcome"] = "SURVIVED"
                    rec["checks_run"] = []
                    for c in CHECKS.get(pkg, []):
                        rc, out = sh([sys.executable, "tools/check.py", c, "quick"], cwd=SV, timeout=600,
                                     env=dict(ENV, VERIF_REPO=WT, VERIF_SEED="1"))
                        rec["checks_run"].append(c)
                        if rc == -9:
                            rec["outcome"] = "caught"; rec["by"] = c; rec["how"] = "check did not end within 600 s (hang)"
                            break
                        vio = [l for l in out.splitlines() if l.startswith("VIOLATION")]
                        if vio:
                            rec["outcome"] = "caught"; rec["by"] = c
                            rec["how"] = "no-failing-input-found" if vio[0].rstrip().endswith("no-failing-input-found") else "failing input"
                            break
        finally:
            sh(["git", "-C", WT, "checkout", "-q", "--", "."])
        rec["wall_s"] = round(time.time() - t0, 1)
        tally[rec["outcome"]] = tally.get(rec["outcome"], 0) + 1
        with open(outp, "a") as fh:
            fh.write(json.dumps(rec) + "\n")
        print("%-16s %-38s %s %s" % (rec["outcome"], f + "#" + str(k), rec.get("by", ""), desc[:70]), flush=True)
    print("summary:", tally)


if __name__ == "__main__":
    main()
