"""Shared machinery of the checks: regenerate, build, run both sides, compare, evidence."""
import json, os, re, subprocess, sys, time, random, hashlib, shutil
from concurrent.futures import ThreadPoolExecutor

VERIF = os.path.dirname(os.path.dirname(os.path.abspath(__file__)))
REPO = os.environ.get("VERIF_REPO", "/repo")
BUILD = os.path.join(VERIF, "build")
LEAN = os.path.join(VERIF, "lean")
GEN = os.path.join(LEAN, "Algobra", "Gen")
MODEL_BIN = os.path.join(LEAN, ".lake", "build", "bin", "algobra_model")
HARNESS_BIN = os.path.join(BUILD, "harness")
EXTRACT_BIN = os.path.join(BUILD, "extract")
NPROC = int(os.environ.get("VERIF_JOBS", str(os.cpu_count() or 4)))

GOENV = dict(os.environ, GOFLAGS="-mod=mod", GOPROXY="off", GOSUMDB="off", GOTOOLCHAIN="local",
             CGO_ENABLED=os.environ.get("CGO_ENABLED", "0"))


def log(*a):
    print(*a, file=sys.stderr, flush=True)


def sh(cmd, cwd=None, env=None, timeout=None, check=True):
    p = subprocess.run(cmd, cwd=cwd, env=env, stdout=subprocess.PIPE, stderr=subprocess.STDOUT,
                       text=True, timeout=timeout)
    if check and p.returncode != 0:
        raise RuntimeError("command failed: %s\n%s" % (" ".join(cmd), p.stdout[-4000:]))
    return p


# --------------------------------------------------------------------------------------------
# build steps

def build_extract():
    os.makedirs(BUILD, exist_ok=True)
    src = os.path.join(VERIF, "extract")
    newest = max(os.path.getmtime(os.path.join(src, f)) for f in os.listdir(src))
    if not os.path.exists(EXTRACT_BIN) or os.path.getmtime(EXTRACT_BIN) < newest:
        sh(["go", "build", "-o", EXTRACT_BIN, "."], cwd=src, env=GOENV)


def regenerate():
    """(T1) rewrite Gen/*.lean and facts.json from /repo's working tree"""
    build_extract()
    sh([EXTRACT_BIN, "-repo", REPO, "-out", GEN, "-facts", os.path.join(BUILD, "facts.json")])


def build_harness(race=False):
    out = HARNESS_BIN + ("_race" if race else "")
    src = os.path.join(VERIF, "harness")
    with open(os.path.join(src, "go.mod"), "w") as f:
        f.write("module algobra-verif/harness\n\ngo 1.23\n\nrequire github.com/ReneBoedker/algobra v0.0.0\n\n"
                "replace github.com/ReneBoedker/algobra => %s\n" % REPO)
    gosum = os.path.join(REPO, "go.sum")
    if os.path.exists(gosum):
        shutil.copy(gosum, os.path.join(src, "go.sum"))
    cmd = ["go", "build", "-tags", "verif", "-o", out]
    env = dict(GOENV)
    if race:
        cmd.insert(2, "-race")
        env["CGO_ENABLED"] = "1"
    p = sh(cmd + ["."], cwd=src, env=env, check=False)
    if p.returncode != 0:
        raise RuntimeError("harness does not build against the working tree:\n" + p.stdout[-3000:])
    return out


def lake_build(targets, timeout=3600):
    """returns (ok, log)"""
    p = sh(["lake", "build"] + targets, cwd=LEAN, timeout=timeout, check=False)
    return p.returncode == 0, p.stdout


# --------------------------------------------------------------------------------------------
# running cases

def _run_chunk(binary, lines, env=None, restart_on=3, stall_s=None):
    """feed lines to a line-protocol process; restart it after a TIMEOUT exit, a crash, or when it
    produces no reply for `stall_s` seconds (that case is answered `fuel-exhausted (stalled)`)"""
    import threading
    out = []
    i = 0
    stall_s = stall_s or float(os.environ.get("VERIF_STALL_S", "45"))
    slow = 0
    while i < len(lines):
        if slow >= int(os.environ.get("VERIF_MAX_SLOW", "3")):
            # three cases of this chunk ran into the time cap already: the rest is not run (inconclusive); the
            # capped cases themselves are reported
            out.extend(["SKIPPED (three earlier cases of this chunk hit the time cap)"] * (len(lines) - i))
            break
        data = "\n".join(lines[i:]) + "\n"
        p = subprocess.Popen([binary], stdin=subprocess.PIPE, stdout=subprocess.PIPE, stderr=subprocess.PIPE,
                             text=True, env=env)
        got = []
        last = [time.time()]
        done = threading.Event()

        def feeder():
            try:
                p.stdin.write(data)
                p.stdin.close()
            except Exception:
                pass

        def reader():
            for line in p.stdout:
                if not line.endswith("\n"):
                    break          # a reply cut off by the end of the process is not a reply
                got.append(line.rstrip("\n"))
                last[0] = time.time()
            done.set()

        tf = threading.Thread(target=feeder, daemon=True); tf.start()
        tr = threading.Thread(target=reader, daemon=True); tr.start()
        stalled = False
        while not done.wait(0.2):
            if time.time() - last[0] > stall_s:
                stalled = True
                p.kill()
                break
        tr.join(5)
        p.wait()
        out.extend(got)
        i += len(got)
        slow += sum(1 for r in got if r.startswith("TIMEOUT"))
        if i >= len(lines):
            break
        if stalled:
            slow += 1
            out.append("fuel-exhausted (stalled: no reply within %ds)" % int(stall_s))
            i += 1
        elif p.returncode == restart_on:
            continue
        else:
            err = ""
            try:
                err = p.stderr.read().strip().replace("\n", " ")[:200]
            except Exception:
                pass
            out.append("CRASH rc=%s %s" % (p.returncode, err))
            i += 1
    return out[:len(lines)]


def run_both(lines, go_env=None, go_bin=None, jobs=None):
    """run all case lines on the Go harness and on the Lean model; returns (go_out, model_out)"""
    if not lines:
        return [], []
    jobs = jobs or NPROC
    n = max(1, min(jobs, len(lines) // 8 + 1))
    chunks = [lines[k::n] for k in range(n)]
    env = dict(os.environ)
    env.update(go_env or {})
    env.setdefault("GOMEMLIMIT", "3GiB")
    gb = go_bin or HARNESS_BIN
    with ThreadPoolExecutor(max_workers=2 * n) as ex:
        gf = [ex.submit(_run_chunk, gb, c, env) for c in chunks]
        mf = [ex.submit(_run_chunk, MODEL_BIN, c, None) for c in chunks]
        gouts = [f.result() for f in gf]
        mouts = [f.result() for f in mf]
    go = [None] * len(lines)
    mo = [None] * len(lines)
    for k in range(n):
        for j, idx in enumerate(range(k, len(lines), n)):
            go[idx] = gouts[k][j] if j < len(gouts[k]) else "MISSING"
            mo[idx] = mouts[k][j] if j < len(mouts[k]) else "MISSING"
    return [canon(x) for x in go], [canon(x) for x in mo]


_ERR_RET = re.compile(r"(^| \| )(recv|other) ((?:foreign)?!)")


def canon(reply):
    """canonicalise a reply line before comparison: WHICH object carries a returned error is documented
    pointer behaviour of erroneous operands ("its error is wrapped and the same element is returned"), two
    registers may hold that same erroneous object, and the property speaks about success only — so
    `recv !Kind` / `other !Kind` are compared as `ret !Kind`."""
    return _ERR_RET.sub(lambda m: m.group(1) + "ret " + m.group(3), reply)


def run_model(lines):
    return [canon(x) for x in _run_chunk(MODEL_BIN, lines)] if lines else []


def run_go(lines, go_env=None):
    env = dict(os.environ)
    env.update(go_env or {})
    return [canon(x) for x in _run_chunk(HARNESS_BIN, lines, env)] if lines else []


# --------------------------------------------------------------------------------------------
# Conway database as the *generators* see it (only used to build field descriptors; the tie of the
# database itself is Gen/ConwayText.lean)

_conway = None


def conway_db():
    global _conway
    if _conway is None:
        txt = open(os.path.join(REPO, "finitefield/conway/cpimport.go")).read()
        _conway = {}
        for m in re.finditer(r"\[(\d+),(\d+),\[([0-9,]*)\]\]", txt):
            key = (int(m.group(1)), int(m.group(2)))
            if key not in _conway:
                _conway[key] = [int(x) for x in m.group(3).split(",")]
    return _conway


def field_desc(p, n, force_ext=False):
    """model notation of the field finitefield.Define(p^n) returns (or extfield.Define with force_ext)"""
    if p == 2 and not force_ext:
        cs = conway_db()[(2, n)]
        return "B:%d:%d" % (n, sum(c << i for i, c in enumerate(cs)))
    if n == 1 and not force_ext:
        return "P:%d" % p
    cs = conway_db()[(p, n)]
    return "E:%d:%d:%s" % (p, n, ".".join(map(str, cs)))


def desc_card(desc):
    t = desc.split(",")[0].split(":")
    if t[0] == "P":
        return int(t[1])
    if t[0] == "B":
        return 2 ** int(t[1])
    return int(t[1]) ** int(t[2])


def rand_elem(desc, rng, special=0.3):
    """canonical wire encoding of a random element; extremes with probability `special`"""
    t = desc.split(",")[0].split(":")
    if t[0] == "P":
        p = int(t[1])
        if rng.random() < special:
            return str(rng.choice([0, 1 % p, p - 1, (p - 1) // 2, 2 % p]))
        return str(rng.randrange(p))
    if t[0] == "B":
        n = int(t[1])
        if rng.random() < special:
            return str(rng.choice([0, 1, 2 ** n - 1, 2 ** (n - 1), 2 % (2 ** n)]))
        return str(rng.randrange(2 ** n))
    p, n = int(t[1]), int(t[2])
    if rng.random() < special:
        cs = rng.choice([[0], [1], [p - 1], [p - 1] * n, [0] * (n - 1) + [1], [0, 1][:n] or [0]])
    else:
        cs = [rng.randrange(p) for _ in range(n)]
    cs = list(cs)
    while len(cs) > 1 and cs[-1] == 0:
        cs.pop()
    return ",".join(map(str, cs))


def hexs(s):
    return s.encode().hex()


# --------------------------------------------------------------------------------------------
# evidence / results

class Result:
    def __init__(self, pid, tier, seed):
        self.pid, self.tier, self.seed = pid, tier, seed
        self.t0 = time.time()
        self.violations = []      # (replay_path, tail)
        self.known = []           # strings
        self.cov = {}
        self.notes = []

    def violation(self, replay_text, tail=""):
        os.makedirs(os.path.join(VERIF, "replays"), exist_ok=True)
        k = len(self.violations)
        path = os.path.join(VERIF, "replays", "%s-%d-%d.txt" % (self.pid, self.seed, k))
        with open(path, "w") as f:
            f.write(replay_text if replay_text.endswith("\n") else replay_text + "\n")
        self.violations.append((path, tail))

    def finish(self, level, coverage, assumptions):
        ev = {
            "property_id": self.pid, "tier": self.tier, "seed": self.seed, "level": level,
            "coverage": coverage, "assumptions": assumptions,
            "wall_s": round(time.time() - self.t0, 2), "violations": len(self.violations),
        }
        os.makedirs(os.path.join(VERIF, "evidence"), exist_ok=True)
        with open(os.path.join(VERIF, "evidence", self.pid + ".json"), "w") as f:
            json.dump(ev, f, indent=1, sort_keys=True)
            f.write("\n")
        for k in self.known:
            print("KNOWN-FINDING: property=%s %s" % (self.pid, k))
        for path, tail in self.violations[:20]:
            print("VIOLATION property=%s replay=%s%s" % (self.pid, path, (" " + tail) if tail else ""))
        sys.stdout.flush()
        return 1 if self.violations else 0
