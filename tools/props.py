"""Per-property extras: additional checks beyond the generic correspondence, and evidence notes."""
import os, re, random, subprocess, time
import common
from common import *
import gen as G

EXTRA = {}
NOTES = {}


# ---------------------------------------------------------------------------------------------
# C15: the oracle is the round trip on the implementation side

def extra_C15(res, tier, seed, cov):
    rng = random.Random(seed * 1000003 + 15)
    lines = G.gen_C15(rng, tier)
    go = run_go(lines)
    rng2 = random.Random(seed * 7 + 1)
    phase2, meta = [], []
    for l, g in zip(lines, go):
        if g.startswith(("PANIC", "TIMEOUT", "CRASH")):
            continue
        head = l.partition(" | ")[0]
        hdr = head.split()
        desc = hdr[1]
        uvar = bytes.fromhex(hdr[2].split(":")[1]).decode()
        bparts = hdr[3].split(":")
        bnames = (bytes.fromhex(bparts[2]).decode(), bytes.fromhex(bparts[3]).decode())
        body, _, snap = g.rpartition(" ## ")
        regs = dict(kv.split("=", 1) for kv in snap.split() if "=" in kv)
        segs = body.split(" | ")
        ops = l.partition(" | ")[2].split(" | ")
        h = G.H(rng2, desc, uspec=hdr[2], bspec=hdr[3])
        printed = {"e": [], "p": [], "q": []}
        for op, seg in zip(ops, segs):
            t = op.split()
            if t[0] in ("show", "obs") and " s=" in seg:
                s = seg.split(" s=", 1)[1]
                reg = t[1]
                val = regs.get(reg, "")
                if "#" not in val:
                    continue
                enc = val.split("#", 1)[1]
                printed[reg[0]].append((enc, s))
        # build the re-parse history
        k = 0
        eregs = []
        for enc, s in printed["e"]:
            a = h.newe(); h.ops.append("%s=enc@0 %s" % (a, enc))
            b = h.newe(); h.ops.append("%s=str@0 %s" % (b, hexs(s)))
            h.ops.append("eq %s %s" % (a, b))
            eregs.append((a, s))
        if desc[0] in "BE" and len(eregs) >= 2:
            # elements of binary and extension fields are sums of terms: the joined text of two printed elements (and
            # of an element with itself: repeated terms) parses to their sum
            for (a1, s1), (a2, s2) in [(eregs[0], eregs[1]), (eregs[0], eregs[0]), (eregs[-1], eregs[0])]:
                c = h.newe(); h.ops.append("%s=str@0 %s" % (c, hexs(s1 + " + " + s2)))
                d = h.newe(); h.ops.append("%s=plus %s %s" % (d, a1, a2))
                h.ops.append("eq %s %s" % (c, d))
        for kind, ctor, names in (("p", "coefs", [uvar]), ("q", "map", list(bnames))):
            new = h.newu if kind == "p" else h.newb
            items = printed[kind]
            regs2 = []
            for enc, s in items:
                a = new(); h.ops.append("%s=%s@0 %s" % (a, ctor, enc or "-"))
                b = new(); h.ops.append("%s=str@0 %s" % (b, hexs(s)))
                h.ops.append("eq %s %s" % (a, b))
                d = G.decorate(rng2, s, names)
                c = new(); h.ops.append("%s=str@0 %s" % (c, hexs(d)))
                h.ops.append("eq %s %s" % (a, c))
                regs2.append((a, s))
            if len(regs2) >= 2:
                (a1, s1), (a2, s2) = regs2[0], regs2[1]
                c = new(); h.ops.append("%s=str@0 %s" % (c, hexs(s1 + " + " + s2)))
                d = new(); h.ops.append("%s=plus %s %s" % (d, a1, a2))
                h.ops.append("eq %s %s" % (c, d))
        if h.ops:
            phase2.append(h.line())
    go2, mo2 = run_both(phase2)
    bad_rt, dis = 0, 0
    for l, g, m in zip(phase2, go2, mo2):
        ops = l.partition(" | ")[2].split(" | ")
        segs = g.rpartition(" ## ")[0].split(" | ")
        failed = [i for i, (o, sg) in enumerate(zip(ops, segs)) if o.startswith("eq ") and sg != "eq true"]
        perr = [i for i, (o, sg) in enumerate(zip(ops, segs)) if "=str@" in o and not sg.startswith("ok")]
        if failed or perr or g.startswith(("PANIC", "TIMEOUT", "CRASH")):
            bad_rt += 1
            if bad_rt <= 3:
                i = (failed + perr + [0])[0]
                res.violation("property: C15\nkind: round trip fails on the implementation (parse(print x) is not Equal to x)\ncase: %s\nimplementation: %s\nfailing op #%d: %s -> %s\n" % (
                    l, g, i, ops[i] if i < len(ops) else "?", segs[i] if i < len(segs) else "?"))
        elif g != m:
            dis += 1
            if dis <= 3:
                res.violation("property: C15\nkind: correspondence (model vs implementation) disagreement in the re-parse phase\ncase: %s\nimplementation: %s\nmodel: %s\n" % (l, g, m))
    cov["roundtrip_histories"] = len(phase2)
    cov["roundtrip_checks"] = sum(l.count("| eq ") for l in phase2)
    cov["roundtrip_failures"] = bad_rt
    cov["roundtrip_model_disagreements"] = dis
    cov["evaluations"] = cov.get("evaluations", 0) + len(phase2)
    if phase2:
        cov.setdefault("samples", []).append({"roundtrip_case": phase2[0][:500], "implementation": go2[0][:300]})


EXTRA["C15"] = extra_C15


# ---------------------------------------------------------------------------------------------
# C13: counting clause on the implementation (normal-form monomials = common zeros). The clause is a theorem about
# the model (Props/C13Count.lean); this oracle evaluates both counts from the implementation's own replies.

def extra_C13(res, tier, seed, cov):
    rng = random.Random(seed * 1000003 + 13)
    qs = [(2, 1), (3, 1), (2, 2), (5, 1)] + ([(7, 1), (2, 3), (3, 2)] if tier == "thorough" else [])
    lines, metas = [], []
    for (p, n) in qs:
        q = p ** n
        desc = field_desc(p, n)
        encs = G.enum_encs(desc)
        one = encs[1]
        for rep in range(6 if tier == "thorough" else 3):
            order = rng.choice(G.ORDERS)
            extras = []
            for _ in range(rng.randrange(0, 3)):
                terms = {}
                for _ in range(rng.randrange(1, 4)):
                    terms[(rng.randrange(0, 3), rng.randrange(0, 3))] = rand_elem(desc, rng, special=0)
                extras.append("/".join("%d:%d:%s" % (k[0], k[1], v) for k, v in terms.items()))
            # X^q - X, Y^q - Y (the additive inverse of one is encoded through the model-independent `ints` constructor
            # below; in the generator list we need an encoding: -1 = p-1 in the prime subfield)
            minus1 = str(p - 1) if desc[0] != "B" else "1"
            gens = ["%d:0:%s/1:0:%s" % (q, one, minus1), "0:%d:%s/0:1:%s" % (q, one, minus1)] + extras
            h = G.H(rng, desc, bspec=G.bspec(rng, order=order, gens=";".join(gens)))
            mons = []
            for i in range(q):
                for j in range(q):
                    r = h.newb(); h.ops.append("%s=map@1 %d:%d:%s" % (r, i, j, one)); mons.append((i, j))
            es = [h.elem(e) for e in encs]
            gregs = []
            for g in extras:
                r = h.newb(); h.ops.append("%s=map@0 %s" % (r, g)); gregs.append(r)
            evs = []
            for x in es:
                for y in es:
                    for g in gregs:
                        h.ops.append("%s=eval %s %s %s" % (h.newe(), g, x, y))
                    evs.append((x, y))
            lines.append(h.line()); metas.append((q, len(mons), len(es), len(gregs), one))
    go = run_go(lines, go_env={"VERIF_OP_TIMEOUT_MS": "60000"})
    checked = bad = 0
    for l, g, (q, nm, ne, ng, one) in zip(lines, go, metas):
        if g.startswith(("PANIC", "TIMEOUT", "CRASH", "fuel")):
            continue
        segs = g.rpartition(" ## ")[0].split(" | ")
        ops = l.partition(" | ")[2].split(" | ")
        if len(segs) < len(ops):
            continue
        std = 0
        for o, sg in zip(ops[:nm], segs[:nm]):
            enc = o.split()[1]
            if sg == "ok 1#" + enc:
                std += 1
        evseg = segs[nm + ne + ng:]
        zeros = 0
        for k in range(ne * ne):
            vals = evseg[k * ng:(k + 1) * ng]
            if all(v.split("#")[-1] in ("0",) for v in vals):
                zeros += 1
        checked += 1
        if std != zeros:
            bad += 1
            if bad <= 3:
                res.violation("property: C13\nkind: counting clause fails on the implementation: %d normal-form monomials but %d common zeros (ideal contains the field equations of GF(%d))\ncase: %s\nimplementation: %s\n" % (std, zeros, q, l, g[:1500]))
    cov["counting_cases"] = checked
    cov["counting_failures"] = bad
    cov["evaluations"] = cov.get("evaluations", 0) + len(lines)


EXTRA["C13"] = extra_C13


# ---------------------------------------------------------------------------------------------
# C20: supporting validation under the race detector (testing, labelled as such)

def extra_C20(res, tier, seed, cov):
    t0 = time.time()
    try:
        race_bin = build_harness(race=True)
    except Exception as e:
        res.violation("property: C20\nkind: race-enabled harness does not build\n%s\n" % e, "no-failing-input-found")
        return
    rounds = 12 if tier == "thorough" else 3
    total_g = 0
    for r in range(rounds):
        env = dict(os.environ, VERIF_SEED=str(seed * 100 + r), GORACE="halt_on_error=0 log_path=" + os.path.join(BUILD, "race_%d" % r))
        p = subprocess.run([race_bin, "-concurrent", "-goroutines", "16", "-iters", "60" if tier == "thorough" else "25"],
                           stdout=subprocess.PIPE, stderr=subprocess.PIPE, text=True, env=env, timeout=1200)
        out = p.stdout.strip().splitlines()
        total_g += 16
        racelogs = [f for f in os.listdir(BUILD) if f.startswith("race_%d" % r)]
        mism = [l for l in out if l.startswith("MISMATCH") or l.startswith("PANIC")]
        if racelogs or mism or p.returncode != 0:
            txt = "property: C20\nkind: concurrent run under the race detector (16 goroutines over shared fields/rings/ideals)\nseed: %s\nreturncode: %d\n" % (env["VERIF_SEED"], p.returncode)
            for f in racelogs[:2]:
                txt += "race report (%s):\n%s\n" % (f, open(os.path.join(BUILD, f)).read()[:4000])
            txt += "\n".join(mism[:10]) + "\n" + p.stderr[-2000:]
            res.violation(txt)
            for f in racelogs:
                os.remove(os.path.join(BUILD, f))
            break
        cov.setdefault("race_runs", []).append(out[-1] if out else "")
    cov["race_goroutine_runs"] = total_g
    cov["race_wall_s"] = round(time.time() - t0, 1)
    cov["evaluations"] = cov.get("evaluations", 0) + total_g
    cov["distinct_nontrivial"] = max(cov.get("distinct_nontrivial", 0), total_g)


EXTRA["C20"] = extra_C20


# ---------------------------------------------------------------------------------------------
# C04: when a table theorem no longer checks, search for the entry and exhibit the failure in the real arithmetic

def _factor(n):
    """prime factors of n < 2^64 (trial division + Pollard rho)"""
    import math, random as _r
    fs = set()

    def isprime(m):
        if m < 2:
            return False
        for q in (2, 3, 5, 7, 11, 13, 17, 19, 23, 29, 31, 37):
            if m % q == 0:
                return m == q
        d, s2 = m - 1, 0
        while d % 2 == 0:
            d //= 2; s2 += 1
        for a in (2, 3, 5, 7, 11, 13, 17, 19, 23, 29, 31, 37):
            x = pow(a, d, m)
            if x in (1, m - 1):
                continue
            for _ in range(s2 - 1):
                x = x * x % m
                if x == m - 1:
                    break
            else:
                return False
        return True

    def rho(m):
        if m % 2 == 0:
            return 2
        while True:
            c = _r.randrange(1, m); x = y = 2; d = 1
            while d == 1:
                x = (x * x + c) % m; y = (y * y + c) % m; y = (y * y + c) % m
                d = math.gcd(abs(x - y), m)
            if d != m:
                return d

    def go(m):
        if m == 1:
            return
        if isprime(m):
            fs.add(m); return
        d = rho(m)
        go(d); go(m // d)

    for q in (2, 3, 5, 7, 11, 13):
        while n % q == 0:
            fs.add(q); n //= q
    go(n)
    return sorted(fs)


def search_C04(res):
    """entries whose text differs from the committed Gen/ConwayText.lean are the candidates; for each with
    p^n < 2^64 the generator's order is tested in the implementation's own arithmetic"""
    try:
        old = subprocess.run(["git", "-C", VERIF, "show", "HEAD:lean/Algobra/Gen/ConwayText.lean"], capture_output=True, text=True).stdout
        if not old:     # a scratch copy of /verif without its history (tools/seed_eval.sh)
            old = subprocess.run(["git", "-C", "/verif", "show", "HEAD:lean/Algobra/Gen/ConwayText.lean"], capture_output=True, text=True).stdout
        new = open(os.path.join(GEN, "ConwayText.lean")).read()
    except Exception as e:
        return 0
    pat = re.compile(r"\[(\d+),(\d+),\[([0-9,]*)\]\]")
    olds = {(m.group(1), m.group(2)): m.group(3) for m in pat.finditer(old)}
    cands = [(int(m.group(1)), int(m.group(2)), m.group(3)) for m in pat.finditer(new) if olds.get((m.group(1), m.group(2))) != m.group(3)]
    found = 0
    for (p, n, cs) in cands[:20]:
        if p ** n >= 2 ** 64 or p >= 2 ** 32:
            continue
        q = p ** n
        desc = "B:%d:%d" % (n, sum(int(c) << i for i, c in enumerate(cs.split(",")))) if p == 2 else (
            "P:%d" % p if n == 1 else "E:%d:%d:%s" % (p, n, ".".join(cs.split(","))))
        ops = ["e0=gen@0", "e1=pow e0 %d" % (q - 1)]
        rs = _factor(q - 1)
        for r in rs:
            ops.append("%s=pow e0 %d" % ("e%d" % (len(ops)), (q - 1) // r))
        line = "hist %s U:58:- B:lex.1:58:59:- 0 | %s" % (desc, " | ".join(ops))
        g = run_go([line])[0]
        segs = g.rpartition(" ## ")[0].split(" | ")
        one = segs[1].split("#")[-1] if len(segs) > 1 else "?"
        bad = [r for r, sg in zip(rs, segs[2:]) if sg.split("#")[-1] == one]
        if g.startswith("PANIC") or "descriptor mismatch" in g:
            continue
        if bad or not segs[1].startswith("ok"):
            found += 1
            res.violation("property: C04\nkind: database entry (%d,%d) changed and is not primitive: in the implementation's own arithmetic the generator a of GF(%d^%d) satisfies a^((q-1)/r) = 1 for r in %s\ncase: %s\nimplementation: %s\nentry now: [%d,%d,[%s]]\nentry at the last verified state: [%s]\n" % (
                p, n, p, n, bad, line, g[:600], p, n, cs, olds.get((str(p), str(n)))))
    return found


NOTES["C20"] = ["the Lean theorems are about the regenerated syntactic effect table (which struct fields are assigned where) and an abstract footprint semantics; absence of data races in the compiled program additionally rests on the soundness of that extraction and on the race detector's sampling of schedules (supporting test, not a proof)"]
NOTES["C15"] = ["parsers are modelled by a regex engine over the regenerated pattern fragments; the round-trip oracle is evaluated on the implementation; theorems cover the classes named in Props/C15.lean"]
NOTES["C13"] = ["the counting clause (normal-form monomials = common zeros) is a theorem (Props/C13Count.lean); the correspondence run additionally compares the two counts on implementation outputs"]
