"""Per-property extras: additional checks beyond the generic correspondence, and evidence notes."""
import os, re, random, subprocess, time
import common
from common import *
import gen as G

EXTRA = {}
NOTES = {}


# ---------------------------------------------------------------------------------------------
# C15: the oracle is the round trip on the implementation side

def extra_C15(res, tier, seed, cov):
    rng = random.Random(seed * 1000003 + 15)
    lines = G.gen_C15(rng, tier)
    go = run_go(lines)
    rng2 = random.Random(seed * 7 + 1)
    phase2, meta = [], []
    for l, g in zip(lines, go):
        if g.startswith(("PANIC", "TIMEOUT", "CRASH")):
            continue
        head = l.partition(" | ")[0]
        hdr = head.split()
        desc = hdr[1]
        uvar = bytes.fromhex(hdr[2].split(":")[1]).decode()
        bparts = hdr[3].split(":")
        bnames = (bytes.fromhex(bparts[2]).decode(), bytes.fromhex(bparts[3]).decode())
        body, _, snap = g.rpartition(" ## ")
        regs = dict(kv.split("=", 1) for kv in snap.split() if "=" in kv)
        segs = body.split(" | ")
        ops = l.partition(" | ")[2].split(" | ")
        h = G.H(rng2, desc, uspec=hdr[2], bspec=hdr[3])
        printed = {"e": [], "p": [], "q": []}
        for op, seg in zip(ops, segs):
            t = op.split()
            if t[0] in ("show", "obs") and " s=" in seg:
                s = seg.split(" s=", 1)[1]
                reg = t[1]
                val = regs.get(reg, "")
                if "#" not in val:
                    continue
                enc = val.split("#", 1)[1]
                printed[reg[0]].append((enc, s))
        # build the re-parse history
        k = 0
        for enc, s in printed["e"]:
            a = h.newe(); h.ops.append("%s=enc@0 %s" % (a, enc))
            b = h.newe(); h.ops.append("%s=str@0 %s" % (b, hexs(s)))
            h.ops.append("eq %s %s" % (a, b))
        for kind, ctor, names in (("p", "coefs", [uvar]), ("q", "map", list(bnames))):
            new = h.newu if kind == "p" else h.newb
            items = printed[kind]
            regs2 = []
            for enc, s in items:
                a = new(); h.ops.append("%s=%s@0 %s" % (a, ctor, enc or "-"))
                b = new(); h.ops.append("%s=str@0 %s" % (b, hexs(s)))
                h.ops.append("eq %s %s" % (a, b))
                d = G.decorate(rng2, s, names)
                c = new(); h.ops.append("%s=str@0 %s" % (c, hexs(d)))
                h.ops.append("eq %s %s" % (a, c))
                regs2.append((a, s))
            if len(regs2) >= 2:
                (a1, s1), (a2, s2) = regs2[0], regs2[1]
                c = new(); h.ops.append("%s=str@0 %s" % (c, hexs(s1 + " + " + s2)))
                d = new(); h.ops.append("%s=plus %s %s" % (d, a1, a2))
                h.ops.append("eq %s %s" % (c, d))
        if h.ops:
            phase2.append(h.line())
    go2, mo2 = run_both(phase2)
    bad_rt, dis = 0, 0
    for l, g, m in zip(phase2, go2, mo2):
        ops = l.partition(" | ")[2].split(" | ")
        segs = g.rpartition(" ## ")[0].split(" | ")
        failed = [i for i, (o, sg) in enumerate(zip(ops, segs)) if o.startswith("eq ") and sg != "eq true"]
        perr = [i for i, (o, sg) in enumerate(zip(ops, segs)) if "=str@" in o and not sg.startswith("ok")]
        if failed or perr or g.startswith(("PANIC", "TIMEOUT", "CRASH")):
            bad_rt += 1
            if bad_rt <= 3:
                i = (failed + perr + [0])[0]
                res.violation("property: C15\nkind: round trip fails on the implementation (parse(print x) is not Equal to x)\ncase: %s\nimplementation: %s\nfailing op #%d: %s -> %s\n" % (
                    l, g, i, ops[i] if i < len(ops) else "?", segs[i] if i < len(segs) else "?"))
        elif g != m:
            dis += 1
            if dis <= 3:
                res.violation("property: C15\nkind: correspondence (model vs implementation) disagreement in the re-parse phase\ncase: %s\nimplementation: %s\nmodel: %s\n" % (l, g, m))
    cov["roundtrip_histories"] = len(phase2)
    cov["roundtrip_checks"] = sum(l.count("| eq ") for l in phase2)
    cov["roundtrip_failures"] = bad_rt
    cov["roundtrip_model_disagreements"] = dis
    cov["evaluations"] = cov.get("evaluations", 0) + len(phase2)
    if phase2:
        cov.setdefault("samples", []).append({"roundtrip_case": phase2[0][:500], "implementation": go2[0][:300]})


EXTRA["C15"] = extra_C15


# ---------------------------------------------------------------------------------------------
# C20: supporting validation under the race detector (testing, labelled as such)

def extra_C20(res, tier, seed, cov):
    t0 = time.time()
    try:
        race_bin = build_harness(race=True)
    except Exception as e:
        res.violation("property: C20\nkind: race-enabled harness does not build\n%s\n" % e, "no-failing-input-found")
        return
    rounds = 12 if tier == "thorough" else 3
    total_g = 0
    for r in range(rounds):
        env = dict(os.environ, VERIF_SEED=str(seed * 100 + r), GORACE="halt_on_error=0 log_path=" + os.path.join(BUILD, "race_%d" % r))
        p = subprocess.run([race_bin, "-concurrent", "-goroutines", "16", "-iters", "60" if tier == "thorough" else "25"],
                           stdout=subprocess.PIPE, stderr=subprocess.PIPE, text=True, env=env, timeout=1200)
        out = p.stdout.strip().splitlines()
        total_g += 16
        racelogs = [f for f in os.listdir(BUILD) if f.startswith("race_%d" % r)]
        mism = [l for l in out if l.startswith("MISMATCH") or l.startswith("PANIC")]
        if racelogs or mism or p.returncode != 0:
            txt = "property: C20\nkind: concurrent run under the race detector (16 goroutines over shared fields/rings/ideals)\nseed: %s\nreturncode: %d\n" % (env["VERIF_SEED"], p.returncode)
            for f in racelogs[:2]:
                txt += "race report (%s):\n%s\n" % (f, open(os.path.join(BUILD, f)).read()[:4000])
            txt += "\n".join(mism[:10]) + "\n" + p.stderr[-2000:]
            res.violation(txt)
            for f in racelogs:
                os.remove(os.path.join(BUILD, f))
            break
        cov.setdefault("race_runs", []).append(out[-1] if out else "")
    cov["race_goroutine_runs"] = total_g
    cov["race_wall_s"] = round(time.time() - t0, 1)
    cov["evaluations"] = cov.get("evaluations", 0) + total_g
    cov["distinct_nontrivial"] = max(cov.get("distinct_nontrivial", 0), total_g)


EXTRA["C20"] = extra_C20

NOTES["C20"] = ["the Lean theorems are about the regenerated syntactic effect table (which struct fields are assigned where) and an abstract footprint semantics; absence of data races in the compiled program additionally rests on the soundness of that extraction and on the race detector's sampling of schedules (supporting test, not a proof)"]
NOTES["C15"] = ["parsers are modelled by a regex engine over the regenerated pattern fragments; the round-trip oracle is evaluated on the implementation; theorems cover the classes named in Props/C15.lean"]
NOTES["C13"] = ["the counting clause (normal-form monomials = common zeros) is checked by the correspondence run only and is labelled a test"]
