"""Per-property extras: additional checks beyond the generic correspondence, and evidence notes."""
EXTRA = {}
NOTES = {}
