// mutator: mechanical source mutations of one Go file (std-lib only).
//
//	mutator -list  file.go          number and description of the mutation points
//	mutator -apply k file.go        the file with the k-th mutation applied (stdout)
//
// Used by tools/mutation_sweep.py to measure how many simple, compiling, test-passing changes of the library the
// checks report. It is a measuring instrument for the checks, not a check.
package main

import (
	"bytes"
	"flag"
	"fmt"
	"go/ast"
	"go/parser"
	"go/printer"
	"go/token"
	"os"
	"strconv"
	"strings"
)

type mutation struct {
	desc  string
	apply func()
}

var swaps = map[token.Token][]token.Token{
	token.LSS: {token.LEQ}, token.LEQ: {token.LSS}, token.GTR: {token.GEQ}, token.GEQ: {token.GTR},
	token.EQL: {token.NEQ}, token.NEQ: {token.EQL},
	token.ADD: {token.SUB}, token.SUB: {token.ADD}, token.MUL: {token.ADD}, token.QUO: {token.MUL}, token.REM: {token.QUO},
	token.LAND: {token.LOR}, token.LOR: {token.LAND},
	token.SHL: {token.SHR}, token.SHR: {token.SHL}, token.XOR: {token.OR}, token.AND: {token.OR}, token.OR: {token.AND},
}

var assignSwaps = map[token.Token]token.Token{
	token.ADD_ASSIGN: token.SUB_ASSIGN, token.SUB_ASSIGN: token.ADD_ASSIGN, token.XOR_ASSIGN: token.OR_ASSIGN,
	token.MUL_ASSIGN: token.ADD_ASSIGN, token.QUO_ASSIGN: token.MUL_ASSIGN, token.REM_ASSIGN: token.QUO_ASSIGN,
	token.SHL_ASSIGN: token.SHR_ASSIGN, token.SHR_ASSIGN: token.SHL_ASSIGN,
}

func main() {
	list := flag.Bool("list", false, "list mutation points")
	applyK := flag.Int("apply", -1, "apply the k-th mutation")
	flag.Parse()
	path := flag.Arg(0)
	fset := token.NewFileSet()
	f, err := parser.ParseFile(fset, path, nil, parser.ParseComments)
	if err != nil {
		fmt.Fprintln(os.Stderr, err)
		os.Exit(2)
	}
	var muts []mutation
	pos := func(n ast.Node) string { return strconv.Itoa(fset.Position(n.Pos()).Line) }
	fname := ""
	for _, d := range f.Decls {
		fd, ok := d.(*ast.FuncDecl)
		if !ok || fd.Body == nil {
			continue
		}
		fname = fd.Name.Name
		fn := fname
		ast.Inspect(fd.Body, func(n ast.Node) bool {
			switch v := n.(type) {
			case *ast.BinaryExpr:
				for _, to := range swaps[v.Op] {
					v, from, to := v, v.Op, to
					// string concatenation: leave alone (a `-` on strings does not compile anyway)
					muts = append(muts, mutation{fn + ":" + pos(v) + " binary " + from.String() + " -> " + to.String(), func() { v.Op = to }})
				}
			case *ast.BasicLit:
				if v.Kind == token.INT {
					if x, err := strconv.ParseUint(v.Value, 0, 64); err == nil && x < 1<<32 {
						v, old := v, v.Value
						nv := strconv.FormatUint(x+1, 10)
						if x == 1 {
							nv = "0"
						}
						muts = append(muts, mutation{fn + ":" + pos(v) + " literal " + old + " -> " + nv, func() { v.Value = nv }})
					}
				}
			case *ast.Ident:
				if v.Name == "true" || v.Name == "false" {
					v, old := v, v.Name
					nv := "true"
					if old == "true" {
						nv = "false"
					}
					muts = append(muts, mutation{fn + ":" + pos(v) + " " + old + " -> " + nv, func() { v.Name = nv }})
				}
			case *ast.UnaryExpr:
				if v.Op == token.NOT {
					u := v
					muts = append(muts, mutation{fn + ":" + pos(u) + " drop !", func() { u.X = &ast.UnaryExpr{Op: token.NOT, X: &ast.ParenExpr{X: u.X}} }})
				}
			case *ast.IfStmt:
				muts = append(muts, mutation{fn + ":" + pos(v) + " negate if-condition", func() { v.Cond = &ast.UnaryExpr{Op: token.NOT, X: &ast.ParenExpr{X: v.Cond}} }})
			case *ast.IncDecStmt:
				muts = append(muts, mutation{fn + ":" + pos(v) + " ++ <-> --", func() {
					if v.Tok == token.INC {
						v.Tok = token.DEC
					} else {
						v.Tok = token.INC
					}
				}})
			case *ast.AssignStmt:
				if to, ok := assignSwaps[v.Tok]; ok {
					v, from := v, v.Tok
					muts = append(muts, mutation{fn + ":" + pos(v) + " assign-op " + from.String() + " -> " + to.String(), func() { v.Tok = to }})
				}
			case *ast.BlockStmt:
				for i, s := range v.List {
					del := false
					switch st := s.(type) {
					case *ast.ExprStmt:
						del = true
					case *ast.AssignStmt:
						del = st.Tok != token.DEFINE
					case *ast.IncDecStmt:
						del = true
					}
					if del {
						v, i, s := v, i, s
						var b bytes.Buffer
						printer.Fprint(&b, fset, s)
						txt := strings.Join(strings.Fields(b.String()), " ")
						if len(txt) > 60 {
							txt = txt[:60]
						}
						muts = append(muts, mutation{fn + ":" + pos(s) + " delete statement `" + txt + "`", func() { v.List[i] = &ast.EmptyStmt{Semicolon: s.Pos(), Implicit: false} }})
					}
				}
			}
			return true
		})
	}
	if *list {
		for i, m := range muts {
			fmt.Printf("%d\t%s\n", i, m.desc)
		}
		return
	}
	if *applyK < 0 || *applyK >= len(muts) {
		fmt.Fprintln(os.Stderr, "no such mutation")
		os.Exit(2)
	}
	muts[*applyK].apply()
	var out bytes.Buffer
	if err := printer.Fprint(&out, fset, f); err != nil {
		fmt.Fprintln(os.Stderr, err)
		os.Exit(2)
	}
	os.Stdout.Write(out.Bytes())
}
