module algobra-verif/mutator

go 1.23
