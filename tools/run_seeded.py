#!/usr/bin/env python3
"""run_seeded.py <seeded dir> [check ids...]
Apply <dir>/patch.diff to /repo (git apply), run the quick checks named in meta.json ("checks") or on the
command line, record verdicts in <dir>/result.json, and undo the change (git checkout -- .) whatever happens."""
import json, os, subprocess, sys, time

REPO = "/repo"
VERIF = os.path.dirname(os.path.dirname(os.path.abspath(__file__)))


def main():
    d = os.path.abspath(sys.argv[1])
    meta_path = os.path.join(d, "meta.json")
    meta = json.load(open(meta_path)) if os.path.exists(meta_path) else {}
    checks = sys.argv[2:] or meta.get("checks") or [meta.get("property")]
    st = subprocess.run(["git", "-C", REPO, "status", "--porcelain"], capture_output=True, text=True).stdout.strip()
    if st:
        print("refusing: /repo is not clean:\n" + st)
        return 2
    patch = os.path.join(d, "patch.diff")
    # evidence/<id>.json describes runs on the unchanged tree: keep what is there and put it back afterwards
    saved = {}
    for c in checks:
        ep = os.path.join(VERIF, "evidence", c + ".json")
        if os.path.exists(ep):
            saved[ep] = open(ep).read()
    subprocess.check_call(["git", "-C", REPO, "apply", patch])
    results = {}
    try:
        for c in checks:
            t0 = time.time()
            p = subprocess.run([sys.executable, os.path.join(VERIF, "tools", "check.py"), c, "quick"], cwd=VERIF,
                               capture_output=True, text=True, env=dict(os.environ, VERIF_SEED=os.environ.get("VERIF_SEED", "1")))
            lines = [l for l in p.stdout.splitlines() if l.startswith("VIOLATION")]
            replay = ""
            if lines:
                rp = lines[0].split("replay=")[1].split()[0]
                try:
                    replay = open(rp).read()[:1500]
                except Exception:
                    pass
            results[c] = {"exit": p.returncode, "violations": lines[:5], "first_replay": replay, "wall_s": round(time.time() - t0, 1)}
            print(c, "exit", p.returncode, lines[:1])
    finally:
        subprocess.check_call(["git", "-C", REPO, "checkout", "--", "."])
        subprocess.run(["git", "-C", REPO, "clean", "-fdq"], check=False)
        # bring Gen/*.lean back to the unchanged tree
        subprocess.run([sys.executable, "-c", "import sys; sys.path.insert(0, '%s/tools'); import common; common.regenerate(); common.lake_build(['algobra_model']); common.build_harness(); import check; check.regen_certs_if_db_changed()" % VERIF])
        for ep, txt in saved.items():
            open(ep, "w").write(txt)
    json.dump(results, open(os.path.join(d, "result.json"), "w"), indent=1)
    return 0


if __name__ == "__main__":
    sys.exit(main())
