"""Seeded case generators, one profile per property. Every random choice comes from one PRNG."""
import random
from common import field_desc, desc_card, rand_elem, hexs, conway_db

SMALL_Q = [(2, 1), (3, 1), (5, 1), (7, 1), (11, 1), (13, 1), (17, 1), (31, 1), (2, 2), (2, 3), (2, 4), (2, 5),
           (3, 2), (3, 3), (5, 2), (7, 2), (3, 4), (5, 3), (11, 2)]
MID_Q = [(251, 1), (257, 1), (65521, 1), (65537, 1), (2, 8), (2, 12), (2, 16), (3, 5), (3, 7), (5, 4), (7, 3),
         (13, 3), (127, 2), (251, 2)]
BIG_Q_ALL = [(2147483647, 1), (2147483659, 1), (4294967291, 1), (2, 20), (2, 31), (2, 32), (3, 20), (3, 40),
         (131, 8), (65521, 2), (65521, 4), (5, 27), (7, 22), (257, 7), (4294967291, 2)]

BIG_Q = [(p, n) for (p, n) in BIG_Q_ALL if n == 1 or (p, n) in conway_db()]


def ext_variants(pool):
    """the same cardinalities through extfield.Define explicitly (prime and binary cardinalities too)"""
    return [field_desc(p, n, force_ext=True) for (p, n) in pool if (p, n) in conway_db() and p ** n < 2 ** 64 and p < 2 ** 32]


def fields(pool):
    return [field_desc(p, n) for (p, n) in pool]


def pick_field(rng, small=0.6, mid=0.3):
    r = rng.random()
    pool = SMALL_Q if r < small else (MID_Q if r < small + mid else BIG_Q)
    p, n = rng.choice(pool)
    if rng.random() < 0.15 and (p, n) in conway_db():
        return field_desc(p, n, force_ext=True)
    return field_desc(p, n)


HDR_DEFAULT = "U:58:- B:lex.1:58:59:-"

ORDERS = ["lex.1", "lex.0", "deglex.1", "deglex.0", "degrevlex.1", "degrevlex.0",
          "wdeglex.2.3.1", "wdeglex.0.1.0", "wdeglex.3.0.1", "wdegrevlex.2.3.1", "wdegrevlex.1.4.0", "wdegrevlex.5.2.1"]


class H:
    """builder of one history line with register bookkeeping"""

    def __init__(self, rng, desc, uspec="U:58:-", bspec="B:lex.1:58:59:-", snap=False):
        self.rng, self.desc, self.uspec, self.bspec, self.snap = rng, desc, uspec, bspec, snap
        self.ops = []
        self.ne = self.nu = self.nb = self.ni = 0
        self.card = desc_card(desc)

    def line(self):
        return "hist %s %s %s %d | %s" % (self.desc, self.uspec, self.bspec, 1 if self.snap else 0, " | ".join(self.ops))

    # registers
    def newe(self):
        self.ne += 1
        return "e%d" % (self.ne - 1)

    def newu(self):
        self.nu += 1
        return "p%d" % (self.nu - 1)

    def newb(self):
        self.nb += 1
        return "q%d" % (self.nb - 1)

    def newi(self):
        self.ni += 1
        return "i%d" % (self.ni - 1)

    def anye(self):
        return "e%d" % self.rng.randrange(self.ne)

    def anyu(self):
        return "p%d" % self.rng.randrange(self.nu)

    def anyb(self):
        return "q%d" % self.rng.randrange(self.nb)

    def elem(self, enc=None, fld=0):
        r = self.newe()
        self.ops.append("%s=enc@%d %s" % (r, fld, enc if enc is not None else rand_elem(self.desc, self.rng)))
        return r

    def upoly(self, deg=None, ring=0, sparse=False):
        rng = self.rng
        if deg is None:
            deg = rng.choice([0, 0, 1, 2, 3, 4, 5, 7, 10, 16])
        cs = [rand_elem(self.desc, rng, special=0.2) for _ in range(deg + 1)]
        if sparse:
            zero = rand_elem(self.desc, random.Random(0), special=0)  # not used
            cs = [c if rng.random() < 0.3 or i == deg else self.zero() for i, c in enumerate(cs)]
        r = self.newu()
        self.ops.append("%s=coefs@%d %s" % (r, ring, "/".join(cs)))
        return r

    def zero(self):
        return "0"

    def one(self):
        return "1"

    def bpoly(self, nterms=None, box=5, ring=0):
        rng = self.rng
        if nterms is None:
            nterms = rng.choice([0, 1, 1, 2, 2, 3, 4, 6])
        m = {}
        for _ in range(nterms):
            m[(rng.randrange(box), rng.randrange(box))] = rand_elem(self.desc, rng, special=0.2)
        r = self.newb()
        self.ops.append("%s=map@%d %s" % (r, ring, "/".join("%d:%d:%s" % (x, y, c) for (x, y), c in m.items()) or "-"))
        return r


def maybe_tables(h, rng, prob=0.35):
    """with probability `prob` request arithmetic tables first (prime fields p <= 1021, extension fields q <= 4096)"""
    d = h.desc
    if d[0] == "B":
        return
    q = desc_card(d)
    if (d[0] == "P" and q <= 1021) or (d[0] == "E" and q <= 4096):
        if rng.random() < prob:
            h.ops.append("tables@0 1 1 -")


def exps(rng, q):
    c = [0, 1, 2, 3, q - 2, q - 1, q, q + 1, 2 * (q - 1), 3 * (q - 1) + 1, 2 ** 63, 2 ** 64 - 1, 2 ** 64 - 2, 2 ** 32,
         rng.randrange(2 ** 64), rng.randrange(2 ** 64), rng.randrange(1, 200), (q - 1) * rng.randrange(1, 1000)]
    return [e for e in c if 0 <= e < 2 ** 64]


# ---------------------------------------------------------------------------------------------
# C19

def gen_C19(rng, tier):
    L = []
    big = tier == "thorough"
    for a in range(0, 40):
        for n in range(0, 70 if big else 20):
            L.append("aux pow %d %d" % (a, n))
    words = [0, 1, 2, 3, 2 ** 16, 2 ** 31, 2 ** 32 - 1, 2 ** 32, 2 ** 32 + 1, 2 ** 63 - 1, 2 ** 63, 2 ** 63 + 1, 2 ** 64 - 1]
    for a in words + [rng.randrange(2 ** 64) for _ in range(20)]:
        for n in words + [4, 5, 8, 16, 21, 22, 32, 63, 64, 65, 2 ** 62, 2 ** 61 + 1, 6148914691236517206]:
            L.append("aux pow %d %d" % (a, n))
    for _ in range(4000 if big else 800):
        b = rng.randrange(1, 65)
        a = rng.randrange(2 ** (b - 1), 2 ** b)
        n = rng.choice([rng.randrange(0, 70), 64 // b, 64 // b + 1, max(0, 63 // b), rng.randrange(2 ** 64),
                        (2 ** 64 // b) + rng.randrange(3), (2 ** 64 + 63) // b])
        L.append("aux pow %d %d" % (a, n % 2 ** 64))
        L.append("aux blog2 %d" % a)
    for a in range(0, 300):
        L.append("aux bsqrt %d" % a)
        L.append("aux blog2 %d" % a)
    for a in [2 ** 64 - 1, 2 ** 64 - 59, (2 ** 32 - 1) ** 2, (2 ** 32 - 1) ** 2 + 1, 2 ** 64 - 2 ** 33 + 2, 2 ** 63, 2 ** 63 - 1, 2 ** 62,
              2 ** 62 + 1, 2 ** 32, 2 ** 32 - 1, 2 ** 32 + 1] + [2 ** k for k in range(0, 64)] + [2 ** k - 1 for k in range(1, 65)] + [2 ** k + 1 for k in range(1, 64)]:
        L.append("aux bsqrt %d" % a)
        L.append("aux blog2 %d" % a)
    for _ in range(1500):
        a = rng.randrange(2 ** rng.randrange(1, 65))
        L.append("aux bsqrt %d" % a)
        b = rng.randrange(2 ** rng.randrange(1, 65))
        L.append("aux gcd %d %d" % (a, b))
        g = rng.randrange(1, 2 ** 20)
        L.append("aux gcd %d %d" % ((a * g) % 2 ** 64, (b * g) % 2 ** 64))
    for a in range(0, 60):
        for b in range(0, 60):
            L.append("aux gcd %d %d" % (a, b))
    top = 20000 if big else 4000
    for q in range(0, top):
        L.append("aux fpp %d" % q)
        L.append("aux fact %d" % q)
    # values >= 2^63 are boxed big numbers in the compiled model: a full trial division up to 2^32 then
    # costs minutes, so such cases (large least prime factor AND >= 2^63) run in the thorough tier only
    primes32 = [4294967291, 4294967279, 4294967231, 4294967197, 65521, 65537, 2147483647, 3037000493]
    for p in primes32:
        for k in (1, 2):
            if p ** k < 2 ** 63 or (big and p == 4294967291):
                L.append("aux fpp %d" % p ** k)
                L.append("aux fact %d" % p ** k)
        L.append("aux fact %d" % (p * 3))
        L.append("aux fpp %d" % (p * 3 % 2 ** 64))
    for p in [2, 3, 5, 7, 11, 13, 17, 31]:
        k = 1
        while p ** k < 2 ** 64:
            for r in (3, 5, 7, 11, 13, 17, 19, 23):
                if r > p and p ** k * r < 2 ** 64 and (k >= 10 or big) and k % 2 == 0:
                    L.append("aux fpp %d" % (p ** k * r))
                    L.append("aux fact %d" % (p ** k * r))
            k += 1
    for p in [2, 3, 5, 7, 11, 13, 251, 257, 65521]:
        k = 1
        while p ** k < 2 ** 64:
            L.append("aux fpp %d" % p ** k)
            L.append("aux fact %d" % p ** k)
            if p ** k * 2 < 2 ** 64:
                L.append("aux fpp %d" % (p ** k * 2))
            k += 1
    # a few expensive 64-bit primes / semiprimes
    heavy = [2 ** 61 - 1, 3037000493 * 3037000453, 18446744073709551557, 2 ** 64 - 1]
    for q in heavy[: (4 if big else 2)]:
        L.append("aux fpp %d" % q)
        L.append("aux fact %d" % q)
    for _ in range(400 if big else 100):
        q = rng.randrange(2 ** rng.randrange(20, 45))
        L.append("aux fpp %d" % q)
        L.append("aux fact %d" % q)
    nmax = 12 if big else 9
    for n in range(0, nmax + 1):
        for k in range(0, n + 1):
            L.append("aux combin %d %d" % (n, k))
    return L


# ---------------------------------------------------------------------------------------------
# C03 / C04

def prime_powers_near(limit, count):
    out = []
    for p in [2, 3, 5, 7, 11, 13, 17, 19, 23, 29, 31, 37]:
        k = 1
        while p ** (k + 1) <= limit:
            k += 1
        out.append(p ** k)
        if k > 1:
            out.append(p ** (k - 1))
    return out[:count]


def gen_C03(rng, tier):
    L = []
    big = tier == "thorough"
    for which in ["any", "prime", "bin", "ext"]:
        for q in range(0, 2 ** 12 if big else 600):
            L.append("define %s %d" % (which, q))
        special = [2 ** 32 - 5, 2 ** 32 - 1, 2 ** 32, 2 ** 32 + 1, 2 ** 32 + 15, 2 ** 33, 2 ** 40, 2 ** 63, 2 ** 64 - 1,
                   4294967291, 4294967291 ** 2, 3 ** 40, 3 ** 20, 131 ** 8, 65521 ** 4, 65537 ** 2, 4294967311,
                   4294967311 * 3, 2 ** 31, 2 ** 16, 2 ** 17, 5 ** 27, 7 ** 22, 109987, 109987 ** 2, 109987 ** 3, 110017,
                   110017 ** 2, 2 ** 41 - 1, 6700417 * 641]
        special += prime_powers_near(2 ** 64 - 1, 12) + prime_powers_near(2 ** 32, 12)
        # composites that fool the usual primality short-cuts (round 9, C03-R9: Miller–Rabin with bases 2, 3, 5, 7 is wrong
        # for exactly one number below 2^32): strong pseudoprimes to the first k prime bases, Carmichael numbers, Fermat and
        # Euler pseudoprimes to base 2, Lucas / strong Lucas pseudoprimes, squares and products of neighbouring primes at 2^16
        special += [2047, 1373653, 25326001, 3215031751, 3277, 4033, 4681, 8321, 15841, 29341, 42799, 49141, 52633, 65281, 74665,
                    80581, 85489, 88357, 90751, 1194649, 12327121, 561, 1105, 1729, 2465, 2821, 6601, 8911, 10585, 15841, 29341,
                    41041, 46657, 52633, 62745, 63973, 75361, 101101, 115921, 126217, 162401, 172081, 188461, 252601, 278545,
                    294409, 314821, 334153, 340561, 399001, 410041, 449065, 488881, 512461, 4294438337 if False else 4293001441,
                    341, 645, 1387, 1905, 2701, 4369, 4371, 323, 377, 1159, 1829, 3827, 5459, 5777, 10877, 16109, 18971,
                    65519 * 65521, 65521 * 65537, 65537 * 65539, 65521 ** 2, 65519 ** 2, 4295098369 - 2 * 65537 - 2 * 65536,
                    3215031751 * 3, 2152302898747, 3474749660383, 341550071728321]
        if not big:
            special = [q for q in special if q != 4294967291 ** 2]   # >= 2^63 with a 32-bit least factor: minutes in the model
        for q in special:
            if q < 2 ** 64:
                L.append("define %s %d" % (which, q))
        for _ in range(300 if big else 60):
            L.append("define %s %d" % (which, rng.randrange(2 ** rng.randrange(2, 40))))
    # database-driven: every (p,n) of a sample with p^n < 2^64
    keys = [k for k in conway_db() if k[0] ** k[1] < 2 ** 64]
    rng.shuffle(keys)
    for (p, n) in keys[: (3000 if big else 300)]:
        L.append("define any %d" % p ** n)
        L.append("define ext %d" % p ** n)
    # shape of small fields
    small = [(p, n) for (p, n) in conway_db() if p ** n <= (2 ** 13 if big else 2 ** 10)]
    rng.shuffle(small)
    for (p, n) in small[: (400 if big else 80)]:
        for d in {field_desc(p, n), field_desc(p, n, force_ext=True)}:
            L.append("shape %s gen" % d)
            L.append("shape %s elements" % d)
    for p in [17, 41, 43, 71, 73, 97, 257, 65537, 65521, 2147483647, 4294967291]:
        L.append("shape P:%d gen" % p)
    # the objects a field hands out are values: a generator / identity modified in place must not change
    # what the next call returns
    for (p, n) in small[:60] + [(5, 1), (7, 1), (11, 1), (13, 1), (31, 1), (101, 1)]:
        for d in sorted({field_desc(p, n)} | ({field_desc(p, n, force_ext=True)} if (p, n) in conway_db() else set())):
            L.append("hist %s %s 1 | e0=gen@0 | mult e0 e0 | e1=gen@0 | setu e1 1 | e2=gen@0 | e3=one@0 | add e3 e3 | e4=one@0 | e5=zero@0 | add e5 e4 | e6=zero@0 | eq e0 e2" % (d, HDR_DEFAULT))
    return L


def gen_C04(rng, tier):
    L = []
    big = tier == "thorough"
    db = conway_db()
    keys = list(db.keys())
    sample = keys if big else ([k for k in keys if k[0] == 2] + rng.sample(keys, 2500))
    for (p, n) in sample:
        L.append("conway %d %d" % (p, n))
    # absent pairs, adversarial neighbours
    absent = []
    for (p, n) in rng.sample(keys, 400 if big else 150):
        for (pp, nn) in [(p, n + 1), (p, n - 1), (int(str(p)[1:] or 0), n), (int(str(p)[:-1] or 0), n), (p * 10 + 1, n),
                         (p, int(str(n) + "0")), (p + 1, n), (int("1" + str(p)), n), (p, n * 10 + 1)]:
            if pp >= 0 and nn >= 0:
                absent.append((pp, nn))
    for (p, n) in absent:
        L.append("conway %d %d" % (p, n))
    hi = [k for k in keys if k[1] >= 200]
    lo = [k for k in keys if k[1] < 60]
    for _ in range(60 if big else 25):
        seq = []
        for _ in range(12):
            r = rng.random()
            if r < 0.35 and hi:
                pp, nn = rng.choice(hi)
                seq.append((pp, nn))
                # keys that collide with it under common packings of (p, n) into one word
                for (p2, n2) in [(pp + 1, nn - 256), (pp + 1, nn % 256), (pp, nn % 256), (3, nn - 256), (3, nn % 256), (5, nn % 128)]:
                    if n2 >= 1 and rng.random() < 0.5:
                        seq.append((p2, n2))
            elif r < 0.6:
                # (round 10, C04-R10) a present pair, then absent pairs that collide with it when (p, n) is packed into one
                # word with 8, 16 or 32 bits per component, or when a component is truncated to that width
                pp, nn = rng.choice(lo)
                seq.append((pp, nn))
                for W in (8, 16, 32):
                    k = rng.randrange(1, 4)
                    for (p2, n2) in [(pp + (k << W), nn), (pp, nn + (k << W)), (pp - k, nn + (k << W)), (pp + (1 << W), nn + (1 << W))]:
                        if p2 >= 0 and n2 >= 1 and p2 < 2 ** 64 and n2 < 2 ** 64 and rng.random() < 0.5:
                            seq.append((p2, n2))
            elif r < 0.85:
                seq.append(rng.choice(lo))
            else:
                seq.append(rng.choice(absent))
        rng.shuffle(seq) if rng.random() < 0.3 else None
        if seq and rng.random() < 0.6:
            # the same pair again (the harness overwrites every list it was given before the next look-up)
            k0 = rng.choice(seq); seq.insert(rng.randrange(len(seq) + 1), k0); seq.append(k0)
        L.append("conwayseq " + " ".join("%d %d" % k for k in seq[:40]))
    for (p, n) in [(0, 0), (1, 1), (2, 0), (4, 2), (6, 1), (2, 410), (109987, 1), (109987, 2), (109988, 1),
                   (2 ** 64 - 1, 1), (3, 2 ** 64 - 1)]:
        L.append("conway %d %d" % (p, n))
    # hand-made texts through the LookupIn hook: anchoring and malformed entries
    texts = [
        "[3,2,[2,2,1]],\n[13,2,[2,12,1]],\n[31,2,[3,29,1]],\n",
        "[13,2,[2,12,1]],\n[3,2,[2,2,1]],\n",
        "x[3,2,[1,1]],[3,2,[2,2,1]],",
        "[3,2,[2,2,1],[3,2,[1,0,1]]],",
        "[3,2,[]],[3,2,[2,2,1]]",
        "[3,2,[2,x,1]],",
        "[3,2,[2,2,1]",
        "[[3,2,[2,2,1]]]",
        "[3,2,[2,2,99999999999999999999]],",
        "",
    ]
    for t in texts:
        for (p, n) in [(3, 2), (13, 2), (31, 2), (1, 2), (3, 1), (3, 22)]:
            L.append("conwayin %s %d %d" % (hexs(t) or "00"[:0] or "", p, n) if t else "conwayin 0a %d %d" % (p, n))
    return L


# ---------------------------------------------------------------------------------------------
# C09 orders

def gen_C09(rng, tier):
    L = []
    big = tier == "thorough"
    orders = list(ORDERS)
    for wx in range(0, 4):
        for wy in range(0, 4):
            for x in (0, 1):
                orders.append("wdeglex.%d.%d.%d" % (wx, wy, x))
                if wx > 0 and wy > 0:
                    orders.append("wdegrevlex.%d.%d.%d" % (wx, wy, x))
    orders = sorted(set(orders))
    box = 5 if big else 4
    pts = [(a, b) for a in range(box) for b in range(box)]
    for o in orders:
        for a in pts:
            for b in pts:
                L.append("order %s %d %d %d %d" % (o, a[0], a[1], b[0], b[1]))
        for _ in range(200 if big else 40):
            a = (rng.randrange(2 ** 31), rng.randrange(2 ** 31))
            b = rng.choice([(rng.randrange(2 ** 31), rng.randrange(2 ** 31)), (a[1], a[0]), (a[0] + 1, max(a[1] - 1, 0)), a])
            L.append("order %s %d %d %d %d" % (o, a[0], a[1], b[0], b[1]))
    huge = [0, 1, 2 ** 31, 2 ** 32, 2 ** 62, 2 ** 63 - 1, 2 ** 63, 2 ** 63 + 1, 2 ** 64 - 1]
    for o in ["lex.1", "lex.0", "deglex.1", "degrevlex.0", "wdeglex.1.0.1", "wdegrevlex.1.1.1", "wdeglex.1048576.1.1", "wdegrevlex.3.1048576.0"]:
        t = o.split(".")
        wx, wy = (int(t[1]), int(t[2])) if t[0].startswith("wdeg") else (1, 1)
        for a0 in huge:
            for b0 in huge:
                for (a, b) in [((a0, 0), (b0, 0)), ((0, a0), (b0, 0)), ((a0, 1), (b0, 2)), ((a0, 0), (0, 0)), ((0, 0), (0, b0))]:
                    if t[0] == "lex" or (a[0] * wx + a[1] * wy < 2 ** 64 and b[0] * wx + b[1] * wy < 2 ** 64):
                        L.append("order %s %d %d %d %d" % (o, a[0], a[1], b[0], b[1]))
    # leading data / sorted degrees through polynomials
    for _ in range(600 if big else 150):
        desc = pick_field(rng, small=0.9, mid=0.1)
        h = H(rng, desc, bspec="B:%s:58:59:-" % rng.choice(orders))
        qs = []
        for _ in range(3):
            q = h.bpoly(nterms=rng.randrange(0, 9), box=6)
            h.ops.append("obs %s" % q)
            qs.append(q)
        one = h.elem("1")
        for _ in range(4):
            q = rng.choice(qs)
            # move a term: remove one monomial and create another (term count unchanged), or add/sub
            k = rng.random()
            if k < 0.4:
                c = h.newe(); d1 = (rng.randrange(6), rng.randrange(6))
                h.ops.append("%s=coef %s %d:%d" % (c, q, d1[0], d1[1]))
                h.ops.append("dec %s %d:%d %s" % (q, d1[0], d1[1], c))
                h.ops.append("inc %s %d:%d %s" % (q, rng.randrange(7), rng.randrange(7), one))
            elif k < 0.7:
                h.ops.append("%s %s %s" % (rng.choice(["add", "sub"]), q, rng.choice(qs)))
            else:
                h.ops.append("setcoef %s %d:%d %s" % (q, rng.randrange(7), rng.randrange(7), rng.choice([one, h.elem()])))
            h.ops.append("obs %s" % q)
        L.append(h.line())
    return L


# ---------------------------------------------------------------------------------------------
# element arithmetic: C01, C02

def all_fields_for_elems(tier):
    pools = SMALL_Q + MID_Q + BIG_Q
    out = fields(pools) + ext_variants(SMALL_Q + MID_Q)[:12]
    # every binary degree
    out += [field_desc(2, n) for n in range(1, 33)]
    return sorted(set(out))


def cross_field_prod_cases(rng, n, tables=False):
    """Prod with a receiver that belongs to ANOTHER field of the same implementation (another degree / another
    characteristic): the receiver becomes the product in the operands' field"""
    L = []
    pairs = [((2, 3), (2, 4)), ((2, 8), (2, 5)), ((2, 2), (2, 12)), ((3, 2), (3, 3)), ((5, 2), (5, 3)), ((3, 3), (7, 2)), ((7, 1), (11, 1)), ((251, 1), (5, 1))]
    for _ in range(n):
        (a, b) = rng.choice(pairs)
        if rng.random() < 0.5:
            a, b = b, a
        d0, d1 = field_desc(*a), field_desc(*b)
        h = H(rng, d0 + "," + d1, snap=True)
        x, y = h.elem(rand_elem(d0, rng)), h.elem(rand_elem(d0, rng))
        o1 = h.newe(); h.ops.append("%s=enc@1 %s" % (o1, rand_elem(d1, rng)))
        o2 = h.newe(); h.ops.append("%s=enc@1 %s" % (o2, rand_elem(d1, rng, special=0)))
        if tables:
            h.ops.append("tables@%d %d 1 -" % (rng.randrange(2), rng.randrange(2)))
        h.ops.append("prod %s %s %s" % (o1, x, y))              # receiver of field 1, operands of field 0
        h.ops.append("%s=times %s %s" % (h.newe(), o1, x))       # it now lives in field 0
        c = h.newe(); h.ops.append("%s=copy %s" % (c, x))
        h.ops.append("prod %s %s %s" % (c, o2, o2))              # the other way round
        h.ops.append("%s=times %s %s" % (h.newe(), c, o2))
        h.ops.append("prod %s %s %s" % (o2, x, o2))              # mixed operands: an error, whatever the receiver
        L.append(h.line())
    return L


def gen_C01(rng, tier):
    L = []
    big = tier == "thorough"
    reps = 12 if big else 3
    L += cross_field_prod_cases(rng, 150 if big else 40)
    for desc in all_fields_for_elems(tier):
        q = desc_card(desc)
        # exhaustive pairs for tiny fields
        if q <= (64 if big else 16):
            h = H(rng, desc)
            elems = []
            # enumerate via encodings
            encs = enum_encs(desc)
            for e in encs:
                elems.append(h.elem(e))
            for a in elems:
                for b in elems:
                    for op in ("plus", "minus", "times"):
                        h.ops.append("%s=%s %s %s" % (h.newe(), op, a, b))
            for a in elems:
                h.ops.append("%s=neg %s" % (h.newe(), a))
                h.ops.append("show %s" % a)
            L.append(h.line())
        for _ in range(reps):
            h = H(rng, desc)
            maybe_tables(h, rng)
            regs = [h.elem() for _ in range(4)]
            if rng.random() < 0.6:
                # a product (sum, difference) is changed in place by its owner; the same request again gives the same
                # answer (with tables the result must not share storage with a table entry)
                for _ in range(2):
                    x, y = rng.choice(regs), rng.choice(regs)
                    op1 = rng.choice(["times", "times", "plus", "minus"])
                    r1 = h.newe(); h.ops.append("%s=%s %s %s" % (r1, op1, x, y))
                    h.ops.append(rng.choice(["setneg %s" % r1, "add %s %s" % (r1, rng.choice(regs)), "sub %s %s" % (r1, rng.choice(regs)), "mult %s %s" % (r1, rng.choice(regs))]))
                    r2 = h.newe(); h.ops.append("%s=%s %s %s" % (r2, op1, x, y))
                    h.ops.append("%s=times %s %s" % (h.newe(), r2, rng.choice(regs)))
            for _ in range(14):
                a, b = rng.choice(regs), rng.choice(regs)
                k = rng.random()
                if k < 0.4:
                    r = h.newe()
                    h.ops.append("%s=%s %s %s" % (r, rng.choice(["plus", "minus", "times"]), a, b))
                    regs.append(r)
                elif k < 0.7:
                    h.ops.append("%s %s %s" % (rng.choice(["add", "sub", "mult"]), a, b))
                elif k < 0.8:
                    h.ops.append("prod %s %s %s" % (a, b, rng.choice(regs)))
                elif k < 0.87:
                    r = h.newe()
                    h.ops.append("%s=neg %s" % (r, a))
                    regs.append(r)
                elif k < 0.92:
                    h.ops.append("setneg %s" % a)
                elif k < 0.96:
                    h.ops.append("eq %s %s" % (a, b))
                else:
                    h.ops.append("show %s" % a)
            # results at the edges of the representation: products / sums / differences congruent to
            # small negatives and small positives (prime fields: computed with Python's modular inverse)
            if desc[0] == "P" and q > 3:
                for _ in range(3):
                    a = rng.randrange(1, q)
                    k = rng.choice([1, 1, 2, 3, q - 1, q - 2])       # target residue -k resp. k
                    b = (-k * pow(a, -1, q)) % q
                    ra, rb = h.elem(str(a)), h.elem(str(b))
                    h.ops.append("%s=times %s %s" % (h.newe(), ra, rb))
                    h.ops.append("%s=times %s %s" % (h.newe(), rb, ra))
                    rc = h.elem(str((-k - a) % q))
                    h.ops.append("%s=plus %s %s" % (h.newe(), ra, rc))
                    rd = h.elem(str((a + k) % q))
                    h.ops.append("%s=minus %s %s" % (h.newe(), ra, rd))
                    c2 = h.newe(); h.ops.append("%s=copy %s" % (c2, ra)); h.ops.append("mult %s %s" % (c2, rb))
            # constructors
            h.ops.append("%s=u@0 %d" % (h.newe(), rng.choice([0, 1, q - 1, q, q + 1, 2 ** 64 - 1, rng.randrange(2 ** 64)]) % 2 ** 64))
            h.ops.append("%s=s@0 %d" % (h.newe(), rng.choice([0, -1, 1, -(2 ** 63), 2 ** 63 - 1, -rng.randrange(2 ** 63), rng.randrange(2 ** 63)])))
            h.ops.append("setu %s %d" % (rng.choice(regs), rng.randrange(2 ** 64)))
            # the generic constructor Element(interface{}) and the slice constructors behind it
            h.ops.append("%s=anyu@0 %d" % (h.newe(), rng.choice([0, q - 1, q, 2 ** 64 - 1, rng.randrange(2 ** 64)]) % 2 ** 64))
            h.ops.append("%s=anyi@0 %d" % (h.newe(), rng.choice([0, -1, -(2 ** 63), 2 ** 63 - 1, -rng.randrange(2 ** 63)])))
            nsl = rng.choice([0, 1, 2, 3, 5, 9])
            h.ops.append("%s=anysl@0 %s" % (h.newe(), ".".join(str(rng.choice([0, 1, 2, q, 2 ** 64 - 1, rng.randrange(2 ** 64)]) % 2 ** 64) for _ in range(nsl)) or "-"))
            h.ops.append("%s=anyisl@0 %s" % (h.newe(), ".".join(str(rng.choice([0, -1, 1, -(2 ** 63), 2 ** 63 - 1, rng.randrange(-50, 50)])) for _ in range(nsl)) or "-"))
            r = h.newe(); h.ops.append("%s=anysl@0 %s" % (r, ".".join(str(rng.randrange(0, 7)) for _ in range(rng.randrange(1, 6)))))
            if desc[0] == "E":
                h.ops.append("%s=plus %s %s" % (h.newe(), r, regs[0]))
            L.append(h.line())
    return L


def enum_encs(desc):
    t = desc.split(":")
    if t[0] == "P":
        return [str(i) for i in range(int(t[1]))]
    if t[0] == "B":
        return [str(i) for i in range(2 ** int(t[1]))]
    p, n = int(t[1]), int(t[2])
    out = []
    for k in range(p ** n):
        cs = []
        x = k
        for _ in range(n):
            cs.append(x % p)
            x //= p
        while len(cs) > 1 and cs[-1] == 0:
            cs.pop()
        out.append(",".join(map(str, cs)))
    return out


def gen_C02(rng, tier):
    L = []
    big = tier == "thorough"
    for desc in all_fields_for_elems(tier):
        q = desc_card(desc)
        if q <= (4096 if big else 128):
            h = H(rng, desc)
            maybe_tables(h, rng, prob=0.5)
            for e in enum_encs(desc):
                a = h.elem(e)
                i = h.newe()
                h.ops.append("%s=inv %s" % (i, a))
                h.ops.append("%s=times %s %s" % (h.newe(), a, i))
                h.ops.append("%s=trace %s" % (h.newe(), a))
                for n in (0, 1, q - 2 if q > 2 else 0, q - 1, q, q + 1):
                    h.ops.append("%s=pow %s %d" % (h.newe(), a, n))
            L.append(h.line())
        for _ in range(10 if big else 3):
            h = H(rng, desc)
            maybe_tables(h, rng, prob=0.5)
            for _ in range(4):
                a = h.elem()
                i = h.newe()
                h.ops.append("%s=inv %s" % (i, a))
                h.ops.append("%s=times %s %s" % (h.newe(), a, i))
                t1 = h.newe()
                h.ops.append("%s=trace %s" % (t1, a))
                b = h.elem()
                s = h.newe()
                h.ops.append("%s=plus %s %s" % (s, a, b))
                h.ops.append("%s=trace %s" % (h.newe(), s))
                fr = h.newe()
                h.ops.append("%s=pow %s %d" % (fr, a, int(desc.split(":")[1]) if desc[0] != "B" else 2))
                h.ops.append("%s=trace %s" % (h.newe(), fr))
                for n in rng.sample(exps(rng, q), 6):
                    h.ops.append("%s=pow %s %d" % (h.newe(), a, n))
            L.append(h.line())
    return L


# ---------------------------------------------------------------------------------------------
# univariate: C05 C06 C07

def poly_fields(rng, tier):
    return pick_field(rng, small=0.7, mid=0.25)


def gen_C05(rng, tier):
    L = []
    n = 1500 if tier == "thorough" else 250
    for _ in range(n):
        desc = poly_fields(rng, tier)
        h = H(rng, desc)
        ps = [h.upoly(sparse=rng.random() < 0.3) for _ in range(3)]
        es = [h.elem() for _ in range(2)]
        es.append(h.elem("0"))
        es.append(h.elem("1"))
        if rng.random() < 0.3:
            # forced cancellation of leading terms: g = -f + low
            r = h.newu(); h.ops.append("%s=neg %s" % (r, ps[0])); ps.append(r)
            low = h.upoly(deg=rng.choice([0, 1]))
            r2 = h.newu(); h.ops.append("%s=plus %s %s" % (r2, r, low)); ps.append(r2)
        if rng.random() < 0.15:
            r = h.newu()
            h.ops.append("%s=nats@0 %s" % (r, ",".join(str(rng.randrange(2 ** 64)) for _ in range(rng.randrange(0, 6)))))
            ps.append(r)
            r = h.newu()
            h.ops.append("%s=ints@0 %s" % (r, ",".join(str(rng.randrange(-2 ** 63, 2 ** 63)) for _ in range(rng.randrange(0, 6))) or "-"))
            ps.append(r)
            r = h.newu()
            h.ops.append("%s=%s@0" % (r, rng.choice(["zero", "one"])))
            ps.append(r)
        if rng.random() < 0.35:
            # constructor from element objects, some of them repeated; then in-place operations on the
            # polynomial and on the elements (a constructor that keeps the caller's objects shows here)
            regs = [rng.choice(es[:2] + [h.elem()]) for _ in range(rng.randrange(1, 5))]
            r = h.newu(); h.ops.append("%s=regs@0 %s" % (r, ",".join(regs))); ps.append(r)
            h.ops.append("%s %s %s" % (rng.choice(["setscale", "setscale"]), r, rng.choice(es[:2])))
            h.ops.append("setneg %s" % r)
            h.ops.append("add %s %s" % (r, rng.choice(ps)))
            h.ops.append("add %s %s" % (regs[0], es[1]))
            h.ops.append("obs %s" % r)
        if rng.random() < 0.3:
            # zero the receiver in place, then grow it again (stale storage must not come back)
            a0 = rng.choice(ps)
            h.ops.append(rng.choice(["setzero %s" % a0, "setscale %s %s" % (a0, es[2]), "sub %s %s" % (a0, a0)]))
            h.ops.append(rng.choice(["add %s %s" % (a0, rng.choice(ps)), "inc %s %d %s" % (a0, rng.randrange(1, 6), es[3]),
                                     "setcoef %s %d %s" % (a0, rng.randrange(1, 6), es[0])]))
            h.ops.append("obs %s" % a0)
        for _ in range(12):
            a, b = rng.choice(ps), rng.choice(ps)
            k = rng.random()
            if k < 0.3:
                r = h.newu(); h.ops.append("%s=%s %s %s" % (r, rng.choice(["plus", "minus", "times"]), a, b)); ps.append(r)
            elif k < 0.5:
                h.ops.append("%s %s %s" % (rng.choice(["add", "sub", "mult"]), a, b))
            elif k < 0.58:
                r = h.newu(); h.ops.append("%s=%s %s" % (r, rng.choice(["neg", "normalize", "copy", "lt"]), a)); ps.append(r)
            elif k < 0.66:
                r = h.newu(); h.ops.append("%s=scale %s %s" % (r, a, rng.choice(es))); ps.append(r)
            elif k < 0.72:
                h.ops.append("setscale %s %s" % (a, rng.choice(es)))
            elif k < 0.78:
                r = h.newu(); h.ops.append("%s=pow %s %d" % (r, a, rng.choice([0, 1, 2, 3, 4, 5]))); ps.append(r)
            elif k < 0.86:
                r = h.newe(); h.ops.append("%s=eval %s %s" % (r, a, rng.choice(es))); es.append(r)
            elif k < 0.9:
                h.ops.append("%s %s %d %s" % (rng.choice(["setcoef", "inc", "dec"]), a, rng.choice([0, 1, 2, 5, 9, 20]), rng.choice(es)))
            elif k < 0.93:
                r = h.newe(); h.ops.append("%s=%s %s%s" % (r, *rng.choice([("coef", a, " %d" % rng.randrange(0, 12)), ("lc", a, "")]))); es.append(r)
            elif k < 0.95:
                h.ops.append("setneg %s" % a)
            elif k < 0.97:
                h.ops.append("eq %s %s" % (a, b))
            else:
                h.ops.append("obs %s" % a)
        for p in rng.sample(ps, min(3, len(ps))):
            h.ops.append("obs %s" % p)
        L.append(h.line())
    # evaluation homomorphism on every point of small fields
    for desc in fields(SMALL_Q[:12]):
        h = H(rng, desc)
        f, g = h.upoly(deg=4), h.upoly(deg=3)
        s = h.newu(); h.ops.append("%s=plus %s %s" % (s, f, g))
        t = h.newu(); h.ops.append("%s=times %s %s" % (t, f, g))
        for e in enum_encs(desc):
            x = h.elem(e)
            for p in (f, g, s, t):
                h.ops.append("%s=eval %s %s" % (h.newe(), p, x))
        L.append(h.line())
    return L


def gen_C06(rng, tier):
    L = []
    n = 1200 if tier == "thorough" else 200
    for _ in range(n):
        desc = poly_fields(rng, tier)
        h = H(rng, desc)
        f = h.upoly(deg=rng.choice([0, 1, 3, 5, 8, 12, 20]))
        k = rng.choice([1, 1, 1, 2, 3, 4])
        gs = []
        for _ in range(k):
            g = h.upoly(deg=rng.choice([0, 1, 1, 2, 3, 6, 14]))
            # make sure the divisor is nonzero: add X^d with coefficient one on top
            one = h.elem("1")
            h.ops.append("inc %s %d %s" % (g, rng.choice([0, 1, 2, 7]), one))
            gs.append(g)
        if rng.random() < 0.2:
            gs.append(gs[0])
        if rng.random() < 0.1:
            gs[0] = f
        dsts = [h.newu() for _ in range(len(gs) + 1)]
        h.ops.append("%s=quorem %s %s" % (",".join(dsts), f, " ".join(gs)))
        # gcd, with common factor
        c = h.upoly(deg=rng.choice([0, 1, 2]))
        a = h.newu(); h.ops.append("%s=times %s %s" % (a, f, c))
        b = h.newu(); h.ops.append("%s=times %s %s" % (b, gs[0], c))
        h.ops.append("%s=gcd %s %s" % (h.newu(), a, b))
        h.ops.append("%s=gcd %s %s %s" % (h.newu(), a, b, f))
        h.ops.append("%s=gcd %s" % (h.newu(), a))
        L.append(h.line())
    return L


def umod_spec(rng, desc, ngens=None):
    """generators of a modulus of degree >= 1: product with a common factor so that gcd has degree >= 1"""
    d = rng.choice([1, 1, 2, 2, 3, 4, 6])
    def rp(deg):
        cs = [rand_elem(desc, rng, special=0.1) for _ in range(deg)] + [rand_elem(desc, rng, special=0.0)]
        if cs[-1] in ("0",):
            cs[-1] = "1"
        return cs
    g = rp(d)
    if rng.random() < 0.25:
        # a modulus that is not squarefree: X^m, or (X + c)^2 over prime fields (nilpotent residues exist)
        if desc[0] == "P" and rng.random() < 0.5:
            pch = int(desc.split(":")[1]); c = rng.randrange(pch)
            g = [str(c * c % pch), str(2 * c % pch), "1"]; d = 2
        else:
            d = rng.choice([2, 3, 4, 5]); g = ["0"] * d + ["1"]
    return "U:%s:%s" % (hexs(rng.choice(["X", "x", "T", "a" if desc[0] == "P" else "z"])), "/".join(g)), d


def gen_C07(rng, tier):
    L = []
    n = 1200 if tier == "thorough" else 220
    for _ in range(n):
        desc = pick_field(rng, small=0.75, mid=0.25)
        uspec, d = umod_spec(rng, desc)
        second = None
        if rng.random() < 0.35:
            u2, d2 = umod_spec(rng, desc)
            uspec = uspec + ":" + u2.split(":")[2]
            second = d2
        h = H(rng, desc, uspec=uspec)
        ps = []
        if second is not None:
            # embedding with reduction between two quotient rings of the same ring
            src1 = h.upoly(deg=rng.choice([max(d - 1, 0), d, 2 * d]), ring=1)
            cp = h.newu(); h.ops.append("%s=copy %s" % (cp, src1))
            h.ops.append("embed %s @3 1" % cp)
            h.ops.append("obs %s" % cp)
            back = h.newu(); h.ops.append("%s=copy %s" % (back, cp)); h.ops.append("embed %s @1 1" % back)
            cp2 = h.newu(); h.ops.append("%s=copy %s" % (cp2, src1)); h.ops.append("embed %s @3 0" % cp2); h.ops.append("embed %s @3 1" % cp2)
            h.ops.append("%s=plus %s %s" % (h.newu(), cp, cp2))
        for _ in range(3):
            ps.append(h.upoly(deg=rng.choice([0, d - 1, d, d + 1, 2 * d, 3 * d]), ring=1))
        r = h.newu(); h.ops.append("%s=nats@1 %s" % (r, ",".join(str(rng.randrange(2 ** 64)) for _ in range(rng.randrange(1, 3 * d + 2))))); ps.append(r)
        r = h.newu(); h.ops.append("%s=ints@1 %s" % (r, ",".join(str(rng.randrange(-99, 99)) for _ in range(rng.randrange(1, 3 * d + 2))))); ps.append(r)
        # embed with reduction
        r = h.upoly(deg=rng.choice([d, 2 * d + 1]), ring=0)
        h.ops.append("embed %s @1 1" % r); ps.append(r)
        es = [h.elem() for _ in range(2)]
        # the variable itself and small powers of it (nilpotent when the modulus is a power)
        x = h.newu(); h.ops.append("%s=nats@1 0,1" % x); ps.append(x)
        for n in (2, 3, 4, 5, 6, 7):
            if rng.random() < 0.5:
                h.ops.append("%s=pow %s %d" % (h.newu(), rng.choice([x, ps[0]]), n))
        # constructor from (repeated) element objects, degree >= deg g, then in-place use of both
        regs = [rng.choice(es) for _ in range(rng.randrange(d, 2 * d + 2))]
        rr = h.newu(); h.ops.append("%s=regs@1 %s" % (rr, ",".join(regs))); ps.append(rr)
        rr2 = h.newu(); h.ops.append("%s=regs@1 %s" % (rr2, ",".join(regs[:d + 1]))); ps.append(rr2)
        h.ops.append("obs %s" % rr)
        for _ in range(rng.randrange(4, 25)):
            a, b = rng.choice(ps), rng.choice(ps)
            k = rng.random()
            if k < 0.35:
                r = h.newu(); h.ops.append("%s=%s %s %s" % (r, rng.choice(["plus", "minus", "times", "times"]), a, b)); ps.append(r)
            elif k < 0.6:
                h.ops.append("%s %s %s" % (rng.choice(["add", "sub", "mult", "mult"]), a, b))
            elif k < 0.75:
                r = h.newu(); h.ops.append("%s=pow %s %d" % (r, a, rng.choice([0, 1, 2, 3, 5, 8, 13, 2 ** 31, 2 ** 62, 2 ** 63 - 1, 2 ** 63, 2 ** 63 + 1, 2 ** 64 - 2, 2 ** 64 - 1]))); ps.append(r)
            elif k < 0.85:
                r = h.newu(); h.ops.append("%s=scale %s %s" % (r, a, rng.choice(es))); ps.append(r)
            elif k < 0.95:
                h.ops.append("eq %s %s" % (a, b))
            else:
                h.ops.append("obs %s" % a)
        L.append(h.line())
    return L


# ---------------------------------------------------------------------------------------------
# bivariate: C08 C10 C11 C12 C13

def bspec(rng, order=None, names=("X", "Y"), gens="-"):
    return "B:%s:%s:%s:%s" % (order or rng.choice(ORDERS), hexs(names[0]), hexs(names[1]), gens)


def overflow_cases(rng, n):
    """exponent overflow in ANY pair of terms of a product (not only in the leading terms), for every order"""
    L = []
    for _ in range(n):
        desc = pick_field(rng, small=0.9, mid=0.1)
        h = H(rng, desc, bspec=bspec(rng))
        def _poly(bigpos):
            terms = {}
            nt = rng.randrange(1, 4)
            for i in range(nt):
                dx, dy = rng.randrange(0, 4), rng.randrange(0, 4)
                if i == bigpos:
                    bigv = rng.choice([2 ** 63, 2 ** 63 - 1, 2 ** 63 + 1, 2 ** 62, 2 ** 64 - 1, 2 ** 64 - 2, 2 ** 32])
                    if rng.random() < 0.5:
                        dx = bigv
                    else:
                        dy = bigv
                terms[(dx, dy)] = rand_elem(desc, rng, special=0)
            return "/".join("%d:%d:%s" % (k[0], k[1], v) for k, v in terms.items())
        f = h.newb(); h.ops.append("%s=map@0 %s" % (f, _poly(rng.randrange(0, 3))))
        g = h.newb(); h.ops.append("%s=map@0 %s" % (g, _poly(rng.choice([0, 1, 2, 5]))))
        for (a, b) in [(f, f), (f, g), (g, f)]:
            r = h.newb(); h.ops.append("%s=times %s %s" % (r, a, b)); h.ops.append("obs %s" % r)
        r = h.newb(); h.ops.append("%s=pow %s %d" % (r, f, rng.choice([2, 2, 3]))); h.ops.append("obs %s" % r)
        c = h.newb(); h.ops.append("%s=copy %s" % (c, f)); h.ops.append("mult %s %s" % (c, g)); h.ops.append("obs %s" % c)
        L.append(h.line())
    return L


def gen_C08(rng, tier):
    L = []
    n = 1500 if tier == "thorough" else 250
    for _ in range(n):
        desc = pick_field(rng, small=0.75, mid=0.2)
        h = H(rng, desc, bspec=bspec(rng))
        qs = [h.bpoly() for _ in range(3)]
        es = [h.elem(), h.elem(), h.elem("0"), h.elem("1")]
        if rng.random() < 0.25:
            # setting an EXISTING term to zero removes it (SetCoef and the exported SetCoefPtr alike), setting it to another value
            # replaces it; then the polynomial is used again (a surviving mutant of the third mechanical sweep)
            c1, c2 = rand_elem(desc, rng, special=0), rand_elem(desc, rng, special=0)
            c1 = c1 if c1 != "0" else "1"; c2 = c2 if c2 != "0" else "1"
            d1, d2 = "%d:%d" % (rng.randrange(3), rng.randrange(1, 3)), "%d:0" % rng.randrange(3, 5)
            t = h.newb(); h.ops.append("%s=map@0 %s:%s/%s:%s" % (t, d1, c1, d2, c2)); qs.append(t)
            op_ = rng.choice(["setcoef", "setcoefp"])
            h.ops.append("%s %s %s %s" % (op_, t, rng.choice([d1, d2]), es[2])); h.ops.append("obs %s" % t)
            h.ops.append("%s %s %s %s" % (rng.choice(["setcoef", "setcoefp"]), t, d1, rng.choice(es[:2]))); h.ops.append("obs %s" % t)
            r = h.newb(); h.ops.append("%s=plus %s %s" % (r, t, t)); qs.append(r)
        if rng.random() < 0.2:
            # (round 10, C08-R10) a polynomial built from element OBJECTS, one object under two exponents; then in-place
            # arithmetic on the polynomial and on the element: the polynomial owns its coefficients
            e_ = rng.choice(es[:2])
            rq = h.newb(); h.ops.append("%s=regs@0 %s" % (rq, "/".join("%d:%d:%s" % (i, rng.randrange(3), x) for i, x in enumerate([e_, e_, rng.choice(es)])))); qs.append(rq)
            h.ops.append("%s %s %s" % (rng.choice(["add", "sub"]), rq, h.bpoly(nterms=1)))
            h.ops.append("obs %s" % rq)
            h.ops.append("add %s %s" % (e_, es[3])); h.ops.append("obs %s" % rq)
            h.ops.append("setscale %s %s" % (rq, es[0])); h.ops.append("obs %s" % rq)
        if rng.random() < 0.3:
            r = h.newb(); h.ops.append("%s=neg %s" % (r, qs[0])); qs.append(r)
            t = h.bpoly(nterms=1)
            r2 = h.newb(); h.ops.append("%s=plus %s %s" % (r2, r, t)); qs.append(r2)
            r3 = h.newb(); h.ops.append("%s=plus %s %s" % (r3, qs[0], r2)); qs.append(r3)
        if rng.random() < 0.15:
            r = h.newb()
            h.ops.append("%s=nats@0 %s" % (r, "/".join("%d:%d:%d" % (i, rng.randrange(4), rng.randrange(2 ** 64)) for i in range(3))))
            qs.append(r)
            r = h.newb()
            h.ops.append("%s=ints@0 %s" % (r, "/".join("%d:%d:%d" % (rng.randrange(4), i, rng.randrange(-50, 50)) for i in range(3))))
            qs.append(r)
        if rng.random() < 0.05:
            # huge exponents: overflow detection in products
            r = h.newb(); h.ops.append("%s=nats@0 %d:%d:1/0:0:1" % (r, 2 ** 63 + rng.randrange(5), rng.randrange(3))); qs.append(r)
        for _ in range(12):
            a, b = rng.choice(qs), rng.choice(qs)
            k = rng.random()
            if k < 0.3:
                r = h.newb(); h.ops.append("%s=%s %s %s" % (r, rng.choice(["plus", "minus", "times"]), a, b)); qs.append(r)
            elif k < 0.5:
                h.ops.append("%s %s %s" % (rng.choice(["add", "sub", "mult"]), a, b))
            elif k < 0.58:
                r = h.newb(); h.ops.append("%s=%s %s" % (r, rng.choice(["neg", "normalize", "copy", "lt"]), a)); qs.append(r)
            elif k < 0.66:
                r = h.newb(); h.ops.append("%s=scale %s %s" % (r, a, rng.choice(es))); qs.append(r)
            elif k < 0.72:
                h.ops.append("setscale %s %s" % (a, rng.choice(es)))
            elif k < 0.77:
                r = h.newb(); h.ops.append("%s=pow %s %d" % (r, a, rng.choice([0, 1, 2, 3]))); qs.append(r)
            elif k < 0.85:
                r = h.newe(); h.ops.append("%s=eval %s %s %s" % (r, a, rng.choice(es), rng.choice(es))); es.append(r)
            elif k < 0.9:
                h.ops.append("%s %s %d:%d %s" % (rng.choice(["setcoef", "inc", "dec"]), a, rng.randrange(4), rng.randrange(4), rng.choice(es)))
            elif k < 0.93:
                r = h.newe(); h.ops.append("%s=coef %s %d:%d" % (r, a, rng.randrange(4), rng.randrange(4))); es.append(r)
            elif k < 0.96:
                h.ops.append("eq %s %s" % (a, b))
            else:
                h.ops.append("obs %s" % a)
        for q in rng.sample(qs, min(3, len(qs))):
            h.ops.append("obs %s" % q)
        L.append(h.line())
    # powers whose exponents come close to the machine word: the result is representable (d*n < 2^64) although an
    # intermediate square of the square-and-multiply loop is not; and genuine overflows next to them
    for _ in range(150 if tier == "thorough" else 40):
        desc = pick_field(rng, small=0.9, mid=0.1)
        h = H(rng, desc, bspec=bspec(rng))
        n = rng.choice([1, 2, 2, 3, 3, 4, 5, 7, 2 ** 20 + 1, 2 ** 31, 2 ** 62, 2 ** 63, 2 ** 63 + 1])
        top = (2 ** 64 - 1) // n
        d = max(0, top - rng.choice([0, 0, 1, 2, rng.randrange(1000)])) if rng.random() < 0.7 else top + rng.choice([1, 2, 5])
        d = min(d, 2 ** 64 - 1)
        e = rng.choice([0, 1, rng.randrange(0, 4)])
        if rng.random() < 0.5:
            d, e = e, d
        c = rand_elem(desc, rng, special=0)
        terms = ["%d:%d:%s" % (d, e, c)]
        if n <= 3 and rng.random() < 0.6:
            terms.append("%d:%d:%s" % (rng.randrange(2), rng.randrange(2) + 2, rand_elem(desc, rng, special=0)))
        f = h.newb(); h.ops.append("%s=map@0 %s" % (f, "/".join(terms)))
        r = h.newb(); h.ops.append("%s=pow %s %d" % (r, f, n))
        h.ops.append("obs %s" % r)
        if rng.random() < 0.3:
            r2 = h.newb(); h.ops.append("%s=times %s %s" % (r2, f, f)); h.ops.append("obs %s" % r2)
        L.append(h.line())
    L += overflow_cases(rng, 200 if tier == "thorough" else 50)
    for desc in fields(SMALL_Q[:9]):
        h = H(rng, desc, bspec=bspec(rng))
        f, g = h.bpoly(nterms=5, box=4), h.bpoly(nterms=4, box=3)
        s = h.newb(); h.ops.append("%s=plus %s %s" % (s, f, g))
        t = h.newb(); h.ops.append("%s=times %s %s" % (t, f, g))
        pts = [h.elem(e) for e in enum_encs(desc)]
        for x in pts:
            for y in pts:
                for p in (f, g, s, t):
                    h.ops.append("%s=eval %s %s %s" % (h.newe(), p, x, y))
        L.append(h.line())
    return L


def nonzero_bpoly(h, rng, box=4, nterms=None):
    q = h.bpoly(nterms=nterms if nterms is not None else rng.choice([1, 1, 2, 3]), box=box)
    one = h.elem("1")
    h.ops.append("inc %s %d:%d %s" % (q, rng.randrange(box), rng.randrange(box), one))
    # the increment may cancel a term; add a second distinct monomial to be safe
    h.ops.append("inc %s %d:%d %s" % (q, box, 0, one))
    return q


def gen_C10(rng, tier):
    L = []
    n = 1000 if tier == "thorough" else 200
    for _ in range(n):
        desc = pick_field(rng, small=0.8, mid=0.2)
        h = H(rng, desc, bspec=bspec(rng))
        f = h.bpoly(nterms=rng.choice([0, 1, 3, 5, 8]), box=7)
        gs = [nonzero_bpoly(h, rng) for _ in range(rng.choice([1, 1, 2, 3]))]
        if rng.random() < 0.2:
            gs.append(gs[0])
        dsts = [h.newb() for _ in range(len(gs) + 1)]
        h.ops.append("%s=quorem %s %s" % (",".join(dsts), f, " ".join(gs)))
        h.ops.append("%s=rem %s %s" % (h.newb(), f, " ".join(gs)))
        L.append(h.line())
    return L


def small_ideal(h, rng, ngens=None):
    ngens = ngens or rng.choice([1, 2, 2, 3])
    gs = []
    for _ in range(ngens):
        q = h.bpoly(nterms=rng.choice([1, 2, 2, 3]), box=rng.choice([2, 3, 3, 4]))
        gs.append(q)
    # at least one nonzero generator
    one = h.elem("1")
    h.ops.append("inc %s %d:%d %s" % (gs[0], rng.randrange(3), rng.randrange(3), one))
    h.ops.append("inc %s %d:%d %s" % (gs[0], 3, 1, one))
    if rng.random() < 0.2:
        gs.append(gs[0])
    return gs


def spoly_cases(rng, n):
    """the exported S-polynomial function: value, zero operands (InputValue), other rings, erroneous operands"""
    L = []
    for _ in range(n):
        desc = field_desc(*rng.choice(SMALL_Q[:14]))
        h = H(rng, desc, bspec=bspec(rng), snap=True)
        f = nonzero_bpoly(h, rng, box=4); g = nonzero_bpoly(h, rng, box=4)
        z = h.newb(); h.ops.append("%s=zero@0" % z)
        o = h.bpoly(nterms=2, box=3, ring=2)
        bad = h.newb(); h.ops.append("%s=plus %s %s" % (bad, f, o))
        pairs = [(f, g), (g, f), (f, f), (z, f), (f, z), (z, z), (f, o), (o, f), (bad, f), (f, bad), (o, o)]
        rng.shuffle(pairs)
        for (a, b) in pairs[:rng.randrange(4, 9)]:
            r = h.newb(); h.ops.append("%s=spoly %s %s" % (r, a, b))
        h.ops.append("obs %s" % f); h.ops.append("obs %s" % g)
        L.append(h.line())
    return L


def gen_C11(rng, tier):
    L = []
    n = 700 if tier == "thorough" else 150
    L += spoly_cases(rng, 120 if tier == "thorough" else 30)
    for _ in range(n):
        desc = field_desc(*rng.choice(SMALL_Q[:14]))
        h = H(rng, desc, bspec=bspec(rng))
        if rng.random() < 0.3:
            # leading monomials that are pure powers of one variable (coprime-looking pairs), and the
            # predicates asked on the fresh object before the basis is computed
            one = h.elem("1")
            gs = []
            for _ in range(2):
                g = h.bpoly(nterms=rng.choice([1, 2]), box=2)
                v = rng.choice([0, 1])
                h.ops.append("inc %s %s %s" % (g, "%d:0" % rng.randrange(2, 5) if v == 0 else "0:%d" % rng.randrange(2, 5), one))
                gs.append(g)
        else:
            gs = small_ideal(h, rng)
        i0 = h.newi(); h.ops.append("%s=ideal@0 %s" % (i0, " ".join(gs)))
        if rng.random() < 0.4:
            h.ops.append("%s %s" % (rng.choice(["isgroebner", "isminimal", "isreduced", "minimize", "reducebasis"]), i0))
        i1 = h.newi(); h.ops.append("%s=groebner %s" % (i1, i0))
        h.ops.append("obs %s" % i0)
        h.ops.append("obs %s" % i1)
        h.ops.append("isgroebner %s" % i1)
        L.append(h.line())
    # (round 10, C11-R10) textbook ideals with HUGE exponents: <X^e + Y, X^e*Y + 1> and relatives with e around 2^16, 2^31,
    # 2^32 (products of exponents that wrap around to 0), every order; the predicate is asked on a FRESH ideal made of
    # the returned generators as well (an independent re-check that does not trust the flag)
    for e in [2 ** 16, 2 ** 31, 2 ** 32, 2 ** 32 + 1, 2 ** 33, 3 * 2 ** 31]:
        for shape in (0, 1, 2):
            desc = field_desc(*rng.choice(SMALL_Q[:6]))
            h = H(rng, desc, bspec=bspec(rng, order=rng.choice(["lex.1", "lex.0", "deglex.1", "degrevlex.0", "wdeglex.1.1.1"]) if shape < 2 else None))
            c = rand_elem(desc, rng, special=0)
            c = c if c not in ("0",) else "1"
            if shape == 0:
                f = h.newb(); h.ops.append("%s=map@0 %d:0:1/0:1:1" % (f, e))
                g = h.newb(); h.ops.append("%s=map@0 %d:1:1/0:0:%s" % (g, e, c))
            elif shape == 1:
                f = h.newb(); h.ops.append("%s=map@0 0:%d:1/1:0:1" % (f, e))
                g = h.newb(); h.ops.append("%s=map@0 1:%d:1/0:0:%s" % (g, e, c))
            else:
                f = h.newb(); h.ops.append("%s=map@0 %d:1:1/0:0:%s" % (f, e, c))
                g = h.newb(); h.ops.append("%s=map@0 %d:2:1/1:0:1" % (g, e))
            i0 = h.newi(); h.ops.append("%s=ideal@0 %s %s" % (i0, f, g))
            i1 = h.newi(); h.ops.append("%s=groebner %s" % (i1, i0))
            h.ops.append("obs %s" % i1)
            h.ops.append("isgroebner %s" % i1)
            L.append(h.line())
    return L


def gen_C12(rng, tier):
    L = []
    n = 700 if tier == "thorough" else 150
    for _ in range(n):
        desc = field_desc(*rng.choice(SMALL_Q[:12]))
        h = H(rng, desc, bspec=bspec(rng))
        gs = small_ideal(h, rng)
        ids = []
        i0 = h.newi(); h.ops.append("%s=ideal@0 %s" % (i0, " ".join(gs))); ids.append(i0)
        if rng.random() < 0.5:
            # a second generating set of the same ideal: shuffled and augmented with a combination
            c = h.newb(); h.ops.append("%s=plus %s %s" % (c, gs[0], gs[-1]))
            g2 = list(gs) + [c]
            rng.shuffle(g2)
            i1 = h.newi(); h.ops.append("%s=ideal@0 %s" % (i1, " ".join(g2))); ids.append(i1)
        for _ in range(rng.randrange(3, 12)):
            a = rng.choice(ids)
            k = rng.random()
            if k < 0.2:
                r = h.newi(); h.ops.append("%s=groebner %s" % (r, a)); ids.append(r)
            elif k < 0.3:
                r = h.newi(); h.ops.append("%s=icopy %s" % (r, a)); ids.append(r)
            elif k < 0.6:
                h.ops.append("%s %s" % (rng.choice(["isgroebner", "isminimal", "isreduced"]), a))
            elif k < 0.85:
                h.ops.append("%s %s" % (rng.choice(["minimize", "reducebasis"]), a))
            else:
                h.ops.append("obs %s" % a)
        for a in ids:
            h.ops.append("obs %s" % a)
        # canonical reduced bases of all ideals
        for a in ids:
            r = h.newi(); h.ops.append("%s=groebner %s" % (r, a))
            h.ops.append("reducebasis %s" % r)
            h.ops.append("obs %s" % r)
        L.append(h.line())
    return L


def field_eqs(desc):
    q = desc_card(desc)
    minus1 = {"P": lambda: str(q - 1), "B": lambda: "1", "E": lambda: str(int(desc.split(":")[1]) - 1)}[desc[0]]()
    return ["%d:0:1/1:0:%s" % (q, minus1), "0:%d:1/0:1:%s" % (q, minus1)]


def gen_C13(rng, tier):
    L = []
    n = 400 if tier == "thorough" else 90
    # quotient rings by an ideal that contains 1: zero is the only normal form, also for `Pow(0)` and the constant 1
    for _ in range(80 if tier == "thorough" else 20):
        desc = field_desc(*rng.choice(SMALL_Q[:9]))
        c = rand_elem(desc, rng, special=0)
        while c == "0":
            c = rand_elem(desc, rng, special=0)
        gens = rng.choice(["0:0:%s" % c, "1:1:1/0:0:1;1:0:1", "0:1:1;0:1:1/0:0:%s" % c, "2:0:1/0:0:1;2:0:1"])
        h = H(rng, desc, bspec=bspec(rng, gens=gens), snap=True)
        qs = [h.bpoly(nterms=rng.choice([1, 2, 3]), box=3, ring=1) for _ in range(2)]
        r = h.newb(); h.ops.append("%s=nats@1 0:0:1" % r); qs.append(r)
        b0 = h.bpoly(nterms=2, box=3, ring=0)
        e1 = h.newb(); h.ops.append("%s=embed@1 %s:1" % (e1, b0)); qs.append(e1)
        for a in qs[:3]:
            for n_ in (0, 1, 2):
                h.ops.append("%s=pow %s %d" % (h.newb(), a, n_))
            h.ops.append("%s=times %s %s" % (h.newb(), a, rng.choice(qs)))
            h.ops.append("%s=plus %s %s" % (h.newb(), a, rng.choice(qs)))
        z = h.newb(); h.ops.append("%s=zero@1" % z)
        h.ops.append("eq %s %s" % (qs[0], z)); h.ops.append("obs %s" % qs[2])
        L.append(h.line())
    # quotient rings made in mid-history from an ideal OBJECT, whatever has been asked of / done to it before
    for _ in range(200 if tier == "thorough" else 50):
        desc = field_desc(*rng.choice(SMALL_Q[:9]))
        h = H(rng, desc, bspec=bspec(rng))
        gs = small_ideal(h, rng)
        i0 = h.newi(); h.ops.append("%s=ideal@0 %s" % (i0, " ".join(gs)))
        cur = i0
        for _ in range(rng.randrange(0, 4)):
            k = rng.random()
            if k < 0.5:
                h.ops.append("%s %s" % (rng.choice(["isgroebner", "isminimal", "isreduced"]), cur))
            elif k < 0.65:
                h.ops.append("%s %s" % (rng.choice(["minimize", "reducebasis"]), cur))
            elif k < 0.85:
                j = h.newi(); h.ops.append("%s=groebner %s" % (j, cur)); cur = rng.choice([cur, j])
            else:
                j = h.newi(); h.ops.append("%s=icopy %s" % (j, cur)); cur = rng.choice([cur, j])
        if rng.random() < 0.6:
            # the ideal's own Reduce: the polynomial becomes its remainder, the ideal object caches at most its flag
            for _ in range(rng.randrange(1, 4)):
                b0 = h.bpoly(nterms=rng.choice([1, 2, 4]), box=6, ring=0)
                h.ops.append("ireduce %s %s" % (cur, b0)); h.ops.append("obs %s" % b0)
            h.ops.append("ireduce %s %s" % (cur, gs[0])); h.ops.append("obs %s" % gs[0])    # a generator becomes zero
            h.ops.append("obs %s" % cur)
        h.ops.append("quotient %s" % cur)
        h.ops.append("obs %s" % cur)
        embedded = []
        for g in gs[:2]:
            r = h.newb(); h.ops.append("%s=embed@3 %s:1" % (r, g)); h.ops.append("obs %s" % r)     # members become zero
        for _ in range(rng.randrange(2, 6)):
            b0 = h.bpoly(nterms=rng.choice([1, 2, 4]), box=6, ring=0)
            r = h.newb(); h.ops.append("%s=embed@3 %s:1" % (r, b0)); embedded.append(r)
            if rng.random() < 0.3:
                u0 = h.newb(); h.ops.append("%s=embed@3 %s:0" % (u0, b0))
                r2 = h.newb(); h.ops.append("%s=embed@3 %s:1" % (r2, u0)); h.ops.append("eq %s %s" % (r, r2))
        # two polynomials that differ by a member of the ideal have the same normal form
        b1 = h.bpoly(nterms=2, box=4, ring=0)
        b2 = h.newb(); h.ops.append("%s=plus %s %s" % (b2, b1, gs[0]))
        r1 = h.newb(); h.ops.append("%s=embed@3 %s:1" % (r1, b1)); r2 = h.newb(); h.ops.append("%s=embed@3 %s:1" % (r2, b2))
        h.ops.append("eq %s %s" % (r1, r2))
        L.append(h.line())
    for _ in range(n):
        desc = field_desc(*rng.choice(SMALL_Q[:9]))
        # ideal generators as literal maps in the header
        gens = []
        for _ in range(rng.choice([1, 2, 2])):
            m = {}
            for _ in range(rng.choice([1, 2, 3])):
                m[(rng.randrange(3), rng.randrange(3))] = rand_elem(desc, rng, special=0.1)
            m[(rng.randrange(1, 4), rng.randrange(0, 3))] = "1"
            gens.append("/".join("%d:%d:%s" % (x, y, c) for (x, y), c in m.items()))
        if rng.random() < 0.35 and desc_card(desc) <= 5:
            gens += field_eqs(desc)
        h = H(rng, desc, bspec=bspec(rng, gens=";".join(gens)))
        qs = [h.bpoly(nterms=rng.choice([1, 2, 4]), box=5, ring=1) for _ in range(3)]
        if rng.random() < 0.5:
            b0 = h.bpoly(nterms=rng.choice([2, 4]), box=6, ring=0)
            e1 = h.newb(); h.ops.append("%s=embed@1 %s:1" % (e1, b0)); qs.append(e1)
            e0 = h.newb(); h.ops.append("%s=embed@1 %s:0" % (e0, b0))
            e2 = h.newb(); h.ops.append("%s=embed@1 %s:1" % (e2, e0)); qs.append(e2)
            h.ops.append("eq %s %s" % (e1, e2))
            one = h.elem("1")
            t = h.newb(); h.ops.append("%s=copy %s" % (t, qs[0])); h.ops.append("inc %s %d:%d %s" % (t, rng.randrange(3, 7), rng.randrange(3, 7), one))
            e3 = h.newb(); h.ops.append("%s=embed@1 %s:1" % (e3, t)); qs.append(e3)
        r = h.newb(); h.ops.append("%s=nats@1 %s" % (r, "/".join("%d:%d:%d" % (i, rng.randrange(5), rng.randrange(100)) for i in range(3)))); qs.append(r)
        # every constructor of the quotient ring reduces: signed coefficients and high exponents too (a surviving mutant of the
        # third mechanical sweep: PolynomialFromSigned without the reduction)
        r = h.newb(); h.ops.append("%s=ints@1 %s" % (r, "/".join("%d:%d:%d" % (2 * i + rng.randrange(2), rng.randrange(2, 7), rng.choice([-3, -1, 1, 2, 50])) for i in range(3)))); qs.append(r)
        h.ops.append("obs %s" % r)
        for _ in range(rng.randrange(3, 14)):
            a, b = rng.choice(qs), rng.choice(qs)
            k = rng.random()
            if k < 0.4:
                r = h.newb(); h.ops.append("%s=%s %s %s" % (r, rng.choice(["plus", "minus", "times", "times"]), a, b)); qs.append(r)
            elif k < 0.65:
                h.ops.append("%s %s %s" % (rng.choice(["add", "sub", "mult"]), a, b))
            elif k < 0.8:
                r = h.newb(); h.ops.append("%s=pow %s %d" % (r, a, rng.choice([0, 1, 2, 3, 5]))); qs.append(r)
            elif k < 0.9:
                h.ops.append("eq %s %s" % (a, b))
            else:
                h.ops.append("obs %s" % a)
        L.append(h.line())
    return L


# ---------------------------------------------------------------------------------------------
# C14 interpolation

def gen_C14(rng, tier):
    L = []
    n = 500 if tier == "thorough" else 120
    for _ in range(n):
        desc = pick_field(rng, small=0.8, mid=0.2)
        q = desc_card(desc)
        h = H(rng, desc, bspec=bspec(rng))
        k = rng.randrange(1, min(q, 8 if tier == "thorough" else 6) + 1)
        # distinct points
        encs = set()
        tries = 0
        while len(encs) < k and tries < 200:
            encs.add(rand_elem(desc, rng, special=0.2)); tries += 1
        pts = [h.elem(e) for e in encs]
        rng.shuffle(pts)
        vals = [h.elem() if rng.random() < 0.8 else h.elem("0") for _ in pts]
        f = h.newu()
        h.ops.append("%s=interp@0 %s %s" % (f, ",".join(pts), ",".join(vals)))
        for p in pts:
            h.ops.append("%s=eval %s %s" % (h.newe(), f, p))
        h.ops.append("obs %s" % f)
        # error cases
        if rng.random() < 0.2:
            h.ops.append("%s=interp@0 %s %s" % (h.newu(), ",".join(pts + [pts[0]]), ",".join(vals + [vals[0]])))
            h.ops.append("%s=interp@0 %s %s" % (h.newu(), ",".join(pts), ",".join(vals[:-1]) or "-"))
            h.ops.append("%s=interp@0 %s %s" % (h.newu(), ",".join(pts), ",".join(vals + [vals[0]])))
            h.ops.append("%s=interp@0 %s %s" % (h.newu(), ",".join(pts[:-1]) or "-", ",".join(vals)))
        # bivariate
        kb = rng.randrange(1, 6)
        pairs = set()
        tries = 0
        while len(pairs) < kb and tries < 200:
            pairs.add((rand_elem(desc, rng, special=0.2), rand_elem(desc, rng, special=0.2))); tries += 1
        if rng.random() < 0.2:
            xs = list({x for x, _ in pairs})[:2]; ys = list({y for _, y in pairs})[:3]
            pairs = {(x, y) for x in xs for y in ys}   # grid
        if desc[0] == "P" and desc_card(desc) > 30 and rng.random() < 0.5:
            # distinct points whose printed coordinates concatenate to the same text: (d, ef) and (de, f)
            pch = desc_card(desc)
            for _ in range(20):
                d0, e0, f0 = rng.randrange(1, 10), rng.randrange(0, 10), rng.randrange(0, 10)
                if 10 * e0 + f0 < pch and 10 * d0 + e0 < pch and e0 != 0 and (d0, 10 * e0 + f0) != (10 * d0 + e0, f0):
                    pairs = set(list(pairs)[:2]) | {(str(d0), str(10 * e0 + f0)), (str(10 * d0 + e0), str(f0))}
                    break
        xs, ys, vs = [], [], []
        for (x, y) in pairs:
            xs.append(h.elem(x)); ys.append(h.elem(y)); vs.append(h.elem() if rng.random() < 0.8 else h.elem("0"))
        g = h.newb()
        h.ops.append("%s=interp@0 %s %s %s" % (g, ",".join(xs), ",".join(ys), ",".join(vs)))
        for x, y in zip(xs, ys):
            h.ops.append("%s=eval %s %s %s" % (h.newe(), g, x, y))
        h.ops.append("obs %s" % g)
        if rng.random() < 0.2:
            h.ops.append("%s=interp@0 %s %s %s" % (h.newb(), ",".join(xs + [xs[0]]), ",".join(ys + [ys[0]]), ",".join(vs + [vs[0]])))
            h.ops.append("%s=interp@0 %s %s %s" % (h.newb(), ",".join(xs), ",".join(ys), ",".join(vs + [vs[0]])))
            h.ops.append("%s=interp@0 %s %s %s" % (h.newb(), ",".join(xs), ",".join(ys), ",".join(vs[:-1]) or "-"))
        L.append(h.line())
    # interpolation inside quotient rings: bivariate (every product is reduced modulo the ideal) and univariate
    for _ in range(300 if tier == "thorough" else 60):
        desc = pick_field(rng, small=0.85, mid=0.15)
        one = "1"
        c = rand_elem(desc, rng, special=0)
        gens = rng.choice([
            "0:1:%s/2:0:%s" % (one, c),                      # Y + cX^2
            "1:1:%s/0:0:%s" % (one, c),                      # XY + c
            "2:0:%s/0:0:%s;0:2:%s/0:1:%s" % (one, c, one, c),  # X^2 + c, Y^2 + cY
            "3:0:%s/1:0:%s;0:1:%s" % (one, c, one),          # X^3 + cX, Y
            "1:0:%s/0:1:%s" % (one, c),                      # X + cY
        ])
        h = H(rng, desc, uspec=umod_spec(rng, desc)[0], bspec=bspec(rng, gens=gens))
        k = rng.randrange(1, 5)
        pairs = set()
        tries = 0
        while len(pairs) < k and tries < 100:
            pairs.add((rand_elem(desc, rng, special=0.2), rand_elem(desc, rng, special=0.2))); tries += 1
        xs, ys, vs = [], [], []
        for (x, y) in pairs:
            xs.append(h.elem(x)); ys.append(h.elem(y)); vs.append(h.elem() if rng.random() < 0.8 else h.elem("0"))
        g = h.newb()
        h.ops.append("%s=interp@1 %s %s %s" % (g, ",".join(xs), ",".join(ys), ",".join(vs)))
        for x, y in zip(xs, ys):
            h.ops.append("%s=eval %s %s %s" % (h.newe(), g, x, y))
        h.ops.append("obs %s" % g)
        ux = list({x for x, _ in pairs})
        upts = [h.elem(x) for x in ux]
        f = h.newu()
        h.ops.append("%s=interp@1 %s %s" % (f, ",".join(upts), ",".join(h.elem() for _ in upts)))
        for pnt in upts:
            h.ops.append("%s=eval %s %s" % (h.newe(), f, pnt))
        h.ops.append("obs %s" % f)
        # the same point list, in the same order, in the ring the quotient ring was made from, in an unrelated ring object and
        # in the quotient ring again, with other values (round 9, C14-R9: a Lagrange basis cached in the `ring` object that a
        # ring shares with its quotient rings); likewise for the bivariate rings
        for kring in rng.sample([0, 2, 1, 0], 4)[:rng.choice([2, 3, 4])]:
            f2 = h.newu()
            vals2 = [h.elem() if rng.random() < 0.8 else h.elem("0") for _ in upts]
            h.ops.append("%s=interp@%d %s %s" % (f2, kring, ",".join(upts), ",".join(vals2)))
            for pnt in upts[:2]:
                h.ops.append("%s=eval %s %s" % (h.newe(), f2, pnt))
            h.ops.append("obs %s" % f2)
        for kring in [0, 1]:
            g2 = h.newb()
            vs2 = [h.elem() for _ in xs]
            h.ops.append("%s=interp@%d %s %s %s" % (g2, kring, ",".join(xs), ",".join(ys), ",".join(vs2)))
            h.ops.append("obs %s" % g2)
        L.append(h.line())
    # whole field
    for desc in fields(SMALL_Q[:10]):
        h = H(rng, desc)
        pts = [h.elem(e) for e in enum_encs(desc)][:7]
        vals = [h.elem() for _ in pts]
        f = h.newu()
        h.ops.append("%s=interp@0 %s %s" % (f, ",".join(pts), ",".join(vals)))
        for p in pts:
            h.ops.append("%s=eval %s %s" % (h.newe(), f, p))
        L.append(h.line())
    return L


# ---------------------------------------------------------------------------------------------
# C15 printing / parsing

ADMISSIBLE_UNI = ["X", "x", "T", "Var", "t1", "Z"]
ADMISSIBLE_BIV = [("X", "Y"), ("x", "y"), ("S", "T"), ("u", "v"), ("Y", "X"), ("p1", "q2"), ("Zed", "W")]


def field_var(desc):
    t = desc.split(":")
    if t[0] == "B" and len(t) == 4:
        return bytes.fromhex(t[3]).decode()
    return None if t[0] == "P" else "a"


def names_ok(desc, names):
    """admissible: ASCII letter followed by letters/digits; pairwise no prefix relation ignoring case, also with the field variable"""
    allv = [n.lower() for n in names] + ([] if desc[0] == "P" else [field_var(desc).lower()])
    for i, a in enumerate(allv):
        for j, b in enumerate(allv):
            if i != j and (a.startswith(b) or b.startswith(a)):
                return False
    return True


def decorate(rng, s, names):
    """documented notational freedoms applied to a printed form"""
    k = rng.randrange(5)
    out = s
    if k == 0:
        out = out.replace("^", "")           # Singular style exponents
    elif k == 1:
        for n in names:
            out = out.replace(n, n.swapcase())
    elif k == 2:
        out = out.replace(" + ", "+")
    elif k == 3:
        out = "  " + out.replace(" + ", "  +  ") + " "
    return out


def gen_C15(rng, tier):
    """phase 1 lines only print; check.py builds phase 2 (re-parse of the printed forms) from the Go output"""
    L = []
    n = 1500 if tier == "thorough" else 300
    for _ in range(n):
        desc = pick_field(rng, small=0.6, mid=0.3)
        if desc[0] == "B" and rng.random() < 0.5:
            desc += ":" + hexs(rng.choice(["b", "z", "t2", "al", "A"]))      # binfield.SetVarName
        uv = rng.choice(ADMISSIBLE_UNI)
        bv = rng.choice(ADMISSIBLE_BIV)
        if not names_ok(desc, [uv]) or not names_ok(desc, list(bv)):
            continue
        h = H(rng, desc, uspec="U:%s:-" % hexs(uv), bspec=bspec(rng, names=bv))
        for _ in range(3):
            e = h.elem()
            h.ops.append("show %s" % e)
        for _ in range(2):
            p = h.upoly(deg=rng.choice([0, 1, 2, 3, 5, 9]), sparse=rng.random() < 0.5)
            h.ops.append("obs %s" % p)
        for _ in range(2):
            q = h.bpoly(nterms=rng.choice([0, 1, 2, 3, 5]), box=rng.choice([2, 4, 12]))
            h.ops.append("obs %s" % q)
        if rng.random() < 0.15:
            q = h.newb()
            big_e = [2 ** 63, 2 ** 64 - 1, 2 ** 63 + rng.randrange(1000), 2 ** 32, rng.randrange(2 ** 64)]
            h.ops.append("%s=nats@0 %d:%d:1/%d:%d:1/0:0:1" % (q, rng.choice(big_e), rng.randrange(3), rng.randrange(3), rng.choice(big_e)))
            h.ops.append("obs %s" % q)
            p_ = h.newu(); h.ops.append("%s=nats@0 1,0,0,1" % p_); h.ops.append("obs %s" % p_)
        L.append(h.line())
    return L


# ---------------------------------------------------------------------------------------------
# C16 alias histories (snapshot after every op)

def gen_C16(rng, tier):
    L = []
    n = 900 if tier == "thorough" else 160
    for it in range(n):
        desc = pick_field(rng, small=0.7, mid=0.25)
        gens = "-"
        h = H(rng, desc, bspec=bspec(rng), snap=True)
        maybe_tables(h, rng, prob=0.4)
        es = [h.elem() for _ in range(3)]

        def sc():
            # scalars of coefficient operations are fresh, error-free elements: an element that carries an error is
            # ignored or stored by these operations without the polynomial noticing (findings PF-18a/b/c), and a
            # stored erroneous coefficient object then refuses all later arithmetic at its position
            r_ = h.elem()
            es.append(r_)
            return r_
        ps = [h.upoly(deg=rng.choice([0, 1, 2, 4])) for _ in range(3)]
        qs = [h.bpoly(nterms=rng.choice([0, 1, 2, 3]), box=3) for _ in range(3)]
        ids = []
        one = h.elem("1"); zero = h.elem("0")
        for _ in range(rng.randrange(1, 4)):
            pat = rng.random()
            if pat < 0.3:
                # an element handed to a polynomial (also a zero one, below the leading degree), then
                # the polynomial and the element are modified in place
                z = rng.choice([zero, zero, one, h.elem()])          # error-free (see sc() above)
                zc = h.newe(); h.ops.append("%s=copy %s" % (zc, z))
                f = rng.choice(ps)
                h.ops.append("%s %s %d %s" % (rng.choice(["setcoef", "setcoef", "inc", "dec"]), f, rng.randrange(0, 3), zc))
                h.ops.append("add %s %s" % (f, rng.choice(ps)))
                h.ops.append("add %s %s" % (zc, one))
                h.ops.append("obs %s" % f)
                g = rng.choice(qs)
                zc2 = h.newe(); h.ops.append("%s=copy %s" % (zc2, rng.choice([one, h.elem()])))
                h.ops.append("%s %s %d:%d %s" % (rng.choice(["setcoef", "inc", "dec"]), g, rng.randrange(3), rng.randrange(3), zc2))
                h.ops.append("add %s %s" % (g, rng.choice(qs)))
                h.ops.append("add %s %s" % (zc2, one))
                h.ops.append("obs %s" % g)
            elif pat < 0.6:
                # value-returning element operation, result modified in place, same operation again
                a, b = rng.choice(es), rng.choice(es)
                op = rng.choice(["times %s %s" % (a, b), "inv %s" % a, "plus %s %s" % (a, b), "pow %s 3" % a, "trace %s" % a, "neg %s" % a])
                r1 = h.newe(); h.ops.append("%s=%s" % (r1, op))
                h.ops.append("%s %s %s" % (rng.choice(["add", "sub", "mult"]), r1, rng.choice([one, a, b])))
                h.ops.append("setneg %s" % r1)
                r2 = h.newe(); h.ops.append("%s=%s" % (r2, op))
                r3 = h.newe(); h.ops.append("%s=times %s %s" % (r3, a, rng.choice(es)))
                es += [r1, r2, r3]
            elif pat < 0.8:
                # constructors from element registers (repeated), then in-place changes on both sides
                regs = [rng.choice(es) for _ in range(rng.randrange(1, 4))]
                r = h.newu(); h.ops.append("%s=regs@0 %s" % (r, ",".join(regs))); ps.append(r)
                h.ops.append("setscale %s %s" % (r, sc()))
                h.ops.append("add %s %s" % (regs[0], one))
                rq = h.newb(); h.ops.append("%s=regs@0 %s" % (rq, "/".join("%d:%d:%s" % (i, rng.randrange(3), e) for i, e in enumerate(regs)))); qs.append(rq)
                h.ops.append("setscale %s %s" % (rq, sc()))
                h.ops.append("add %s %s" % (regs[-1], one))
        for _ in range(rng.randrange(8, 30)):
            k = rng.random()
            if k < 0.25:
                a, b = rng.choice(es), rng.choice(es)
                kk = rng.random()
                if kk < 0.3:
                    r = rng.choice(es + [h.newe()])
                    h.ops.append("%s=%s %s %s" % (r, rng.choice(["plus", "minus", "times"]), a, b)); es.append(r)
                elif kk < 0.45:
                    r = rng.choice(es + [h.newe()])
                    op = rng.choice(["neg", "inv", "copy", "trace"])
                    h.ops.append("%s=%s %s" % (r, op, a)); es.append(r)
                elif kk < 0.55:
                    r = h.newe(); h.ops.append("%s=pow %s %d" % (r, a, rng.choice([0, 1, 2, 5, 2 ** 64 - 1]))); es.append(r)
                elif kk < 0.8:
                    h.ops.append("%s %s %s" % (rng.choice(["add", "sub", "mult"]), a, b))
                elif kk < 0.9:
                    h.ops.append("prod %s %s %s" % (a, b, rng.choice(es)))
                elif kk < 0.95:
                    h.ops.append("setneg %s" % a)
                else:
                    h.ops.append("setu %s %d" % (a, rng.randrange(100)))
                es = sorted(set(es))
            elif k < 0.6:
                a, b = rng.choice(ps), rng.choice(ps)
                kk = rng.random()
                if kk < 0.25:
                    r = rng.choice(ps + [h.newu()])
                    h.ops.append("%s=%s %s %s" % (r, rng.choice(["plus", "minus", "times"]), a, b)); ps.append(r)
                elif kk < 0.4:
                    r = rng.choice(ps + [h.newu()])
                    h.ops.append("%s=%s %s" % (r, rng.choice(["neg", "normalize", "copy", "lt"]), a)); ps.append(r)
                elif kk < 0.48:
                    r = h.newu(); h.ops.append("%s=scale %s %s" % (r, a, sc())); ps.append(r)
                elif kk < 0.54:
                    r = h.newu(); h.ops.append("%s=pow %s %d" % (r, a, rng.choice([0, 1, 2, 3]))); ps.append(r)
                elif kk < 0.6:
                    r = h.newe(); h.ops.append("%s=%s" % (r, rng.choice(["eval %s %s" % (a, rng.choice(es)), "coef %s %d" % (a, rng.randrange(5)), "lc %s" % a]))); es.append(r)
                elif kk < 0.75:
                    h.ops.append("%s %s %s" % (rng.choice(["add", "sub", "mult"]), a, b))
                elif kk < 0.8:
                    h.ops.append("setscale %s %s" % (a, sc()))
                elif kk < 0.88:
                    h.ops.append("%s %s %d %s" % (rng.choice(["setcoef", "inc", "dec"]), a, rng.randrange(6), sc()))
                elif kk < 0.92:
                    h.ops.append("setneg %s" % a)
                elif kk < 0.95:
                    h.ops.append("setzero %s" % a)
                elif kk < 0.98:
                    # quorem by a nonzero polynomial
                    one = h.elem("1"); es.append(one)
                    g = h.upoly(deg=rng.choice([0, 1, 2])); h.ops.append("inc %s %d %s" % (g, 3, one)); ps.append(g)
                    d1, d2 = h.newu(), h.newu()
                    h.ops.append("%s,%s=quorem %s %s" % (d1, d2, a, g)); ps += [d1, d2]
                else:
                    r = h.newu(); h.ops.append("%s=gcd %s %s" % (r, a, b) if rng.random() < 0.7 else "%s=gcd %s" % (r, a)); ps.append(r)
                ps = sorted(set(ps)); es = sorted(set(es))
            elif k < 0.92:
                a, b = rng.choice(qs), rng.choice(qs)
                kk = rng.random()
                if kk < 0.25:
                    r = rng.choice(qs + [h.newb()])
                    h.ops.append("%s=%s %s %s" % (r, rng.choice(["plus", "minus", "times"]), a, b)); qs.append(r)
                elif kk < 0.4:
                    r = rng.choice(qs + [h.newb()])
                    h.ops.append("%s=%s %s" % (r, rng.choice(["neg", "normalize", "copy", "lt"]), a)); qs.append(r)
                elif kk < 0.48:
                    r = h.newb(); h.ops.append("%s=scale %s %s" % (r, a, sc())); qs.append(r)
                elif kk < 0.53:
                    r = h.newb(); h.ops.append("%s=pow %s %d" % (r, a, rng.choice([0, 1, 2]))); qs.append(r)
                elif kk < 0.6:
                    r = h.newe(); h.ops.append("%s=%s" % (r, rng.choice(["eval %s %s %s" % (a, rng.choice(es), rng.choice(es)), "coef %s %d:%d" % (a, rng.randrange(3), rng.randrange(3)), "lc %s" % a]))); es.append(r)
                elif kk < 0.75:
                    h.ops.append("%s %s %s" % (rng.choice(["add", "sub", "mult"]), a, b))
                elif kk < 0.8:
                    h.ops.append("setscale %s %s" % (a, sc()))
                elif kk < 0.9:
                    h.ops.append("%s %s %d:%d %s" % (rng.choice(["setcoef", "inc", "dec"]), a, rng.randrange(3), rng.randrange(3), sc()))
                else:
                    one = h.elem("1"); es.append(one)
                    g = h.bpoly(nterms=1, box=2); h.ops.append("inc %s 2:1 %s" % (g, one)); qs.append(g)
                    d1, d2 = h.newb(), h.newb()
                    h.ops.append("%s,%s=quorem %s %s" % (d1, d2, a, g)); qs += [d1, d2]
                    r = h.newb(); h.ops.append("%s=rem %s %s" % (r, a, g)); qs.append(r)
                qs = sorted(set(qs)); es = sorted(set(es))
            else:
                # ideals (cheap ones: monomial-ish generators)
                if not ids or rng.random() < 0.3:
                    one = h.elem("1"); es.append(one)
                    g1 = h.bpoly(nterms=1, box=2); h.ops.append("inc %s 1:1 %s" % (g1, one))
                    g2 = h.bpoly(nterms=1, box=2); h.ops.append("inc %s 0:2 %s" % (g2, one))
                    qs += [g1, g2]
                    i = h.newi(); h.ops.append("%s=ideal@0 %s %s" % (i, g1, g2)); ids.append(i)
                else:
                    a = rng.choice(ids)
                    kk = rng.random()
                    if kk < 0.3:
                        i = h.newi(); h.ops.append("%s=groebner %s" % (i, a)); ids.append(i)
                    elif kk < 0.45:
                        i = h.newi(); h.ops.append("%s=icopy %s" % (i, a)); ids.append(i)
                    elif kk < 0.65:
                        h.ops.append("%s %s" % (rng.choice(["isgroebner", "isminimal", "isreduced"]), a))
                    elif kk < 0.85:
                        h.ops.append("%s %s" % (rng.choice(["minimize", "reducebasis"]), a))
                    else:
                        ds = [h.newb() for _ in range(3)]
                        h.ops.append("%s=gens %s" % (",".join(ds), a))
                        # the returned generators are mutated afterwards: the ideal must not change
                        h.ops.append("setscale %s %s" % (ds[0], sc()))
                        h.ops.append("obs %s" % a)
            if desc_card(desc) <= 300 and rng.random() < 0.04:
                h.ops.append("escr@0")      # Elements(): the caller overwrites what it was given
        L.append(h.line())
    # GroebnerBasis() of an ideal that already is (flagged as) a Groebner basis returns a NEW object: transforming the
    # result in place must not reach the first one (non-monic generators, bases that are not minimal)
    for _ in range(150 if tier == "thorough" else 40):
        desc = field_desc(*rng.choice(SMALL_Q[1:9]))
        h = H(rng, desc, bspec=bspec(rng), snap=True)
        gs = small_ideal(h, rng, ngens=rng.choice([1, 2, 2, 3]))
        cenc = rand_elem(desc, rng, special=0)
        while cenc == "0":
            cenc = rand_elem(desc, rng, special=0)
        c = h.elem(cenc)
        h.ops.append("setscale %s %s" % (gs[0], c))             # a leading coefficient other than one
        i0 = h.newi(); h.ops.append("%s=ideal@0 %s" % (i0, " ".join(gs)))
        if rng.random() < 0.4:
            h.ops.append("isgroebner %s" % i0)
        i1 = h.newi(); h.ops.append("%s=groebner %s" % (i1, i0))
        i2 = h.newi(); h.ops.append("%s=groebner %s" % (i2, i1))
        i3 = h.newi(); h.ops.append("%s=groebner %s" % (i3, i0))
        for tgt in rng.sample([i2, i3, i1], 2):
            h.ops.append("%s %s" % (rng.choice(["minimize", "reducebasis", "isminimal", "isreduced"]), tgt))
            for o in (i0, i1, i2, i3):
                h.ops.append("obs %s" % o)
        L.append(h.line())
    # shrink, then grow again in place: whatever an in-place zeroing leaves behind in the object must not come back
    for _ in range(300 if tier == "thorough" else 60):
        desc = pick_field(rng, small=0.8, mid=0.2)
        h = H(rng, desc, uspec=umod_spec(rng, desc)[0] if rng.random() < 0.2 else "U:58:-", bspec=bspec(rng), snap=True)
        f = h.upoly(deg=rng.choice([2, 3, 4, 6]), ring=0)
        nz = h.elem(rand_elem(desc, rng, special=0)); z = h.elem("0")
        for _ in range(rng.randrange(1, 4)):
            how = rng.random()
            if how < 0.3:
                h.ops.append("setzero %s" % f)
            elif how < 0.5:
                h.ops.append("setscale %s %s" % (f, z))
            elif how < 0.65:
                h.ops.append("sub %s %s" % (f, f))
            elif how < 0.8:
                g = h.newu(); h.ops.append("%s=copy %s" % (g, f)); h.ops.append("sub %s %s" % (f, g))
            else:
                # drop only the top: set the leading coefficients to zero one by one
                for d in range(6, rng.randrange(0, 3), -1):
                    h.ops.append("setcoef %s %d %s" % (f, d, z))
            for _ in range(rng.randrange(1, 3)):
                h.ops.append("%s %s %d %s" % (rng.choice(["setcoef", "inc", "dec"]), f, rng.randrange(0, 7), nz))
            h.ops.append("obs %s" % f)
            if rng.random() < 0.4:
                g = h.upoly(deg=rng.choice([1, 3, 5]), ring=0)
                h.ops.append("%s %s %s" % (rng.choice(["add", "sub", "mult"]), f, g))
        L.append(h.line())
    return L


# ---------------------------------------------------------------------------------------------
# C17 errors

GRAMMAR_ALPHABET = list("0123456789+-*^() aXY")


import re as _re
_EXPO = _re.compile(r"(?<=[A-Za-z^])(\d{4,19})")


def rand_string(rng, desc, maxlen=12):
    """a candidate input of the string constructors. Digit runs that would be read as an exponent are kept
    at <= 3 digits or >= 20 digits: exponents in between are resource-bound on both sides (the library
    allocates a dense slice of that length — recorded finding PF-21 — and the list-based model is quadratic)."""
    return _EXPO.sub(lambda m: m.group(1)[:3], _rand_string(rng, desc, maxlen))


# strings around the decision points of the total tokenisers (Model/Parse.lean): where the coefficient
# pattern's parenthesised alternative is abandoned, where an exponent is or is not taken, where a sign is
# or is not consumed at offset 0, empty matches, `*` and blanks without a following variable
DECISION_PIECES = ["(a", "(a + ", "(a+1", "( a )", "(a)", "()", "(1)", "(-1)", "( 2a + 1 )", "(a + 1)(a)", "(a^2 + 1", "(a ^2)",
                   "a^", "a^^2", "a^2", "a2", "2a^2", "2a2", "a a", "2 a", "1 1", "01", "1a", "a1", "a^1X", "aX", "Xa",
                   "X^", "X^ 2", "X ^2", "X^^2", "X*", "*X", "X*Y", "X**Y", "X^2Y^", "YX", "X Y 2", "X^2^3", "x", "y2",
                   "+", "-", "+ +", "- -", "-X", " -X", "+X", "- 1", "+1", "\t", " ", "  ", "*", "^", "3*", "3 *", "3* X", "3 ^2",
                   "0", "00", "0X", "X0", "X^0", "X^00", "X^01", "1X^1", "(a)X", "(a + 1) X", "(a + 1)*X", "2(a)", "a + 1X"]


def _decision_string(rng):
    n = rng.choice([1, 1, 2, 2, 3])
    return rng.choice(["", "", "", " ", "+", "-"]) + rng.choice(["", " ", " + ", "+", " - ", "-"]).join(
        rng.choice(DECISION_PIECES).replace("\\t", "\t") for _ in range(n))


def _rand_string(rng, desc, maxlen=12):
    if rng.random() < 0.15:
        return _decision_string(rng)[:40]
    k = rng.random()
    if k < 0.4:
        return "".join(rng.choice(GRAMMAR_ALPHABET) for _ in range(rng.randrange(0, maxlen)))
    if k < 0.8:
        # grammar-aware: terms with mutations
        terms = []
        for _ in range(rng.randrange(1, 4)):
            c = rng.choice(["", "2", "3", "10", "(a + 1)", "(2a^2 + a)", "a", "a^2", "007", "-1", "18446744073709551616"])
            v = rng.choice(["", "X", "X^2", "X2", "x^3", "XY", "X^2Y^3", "Y", "y2x", "X^", "X^2^3", "X Y", "Y*X", "X*", "XX", "X^99999999999999999999"])
            terms.append(c + rng.choice(["", "*", " ", " * "]) + v)
        s = rng.choice([" + ", "+", " - ", "-", " ", "++"]).join(terms)
        if rng.random() < 0.3:
            i = rng.randrange(0, len(s) + 1)
            s = s[:i] + rng.choice(GRAMMAR_ALPHABET + ["b", ".", "/", "_"]) + s[i:]
        return s[:40]
    return "".join(chr(rng.randrange(32, 127)) for _ in range(rng.randrange(0, maxlen)))


NAME_POOL = ["X", "Y", "t", "x", "y", " x ", "", " ", "  \t", "\n", "0", "1", " 1 ", " 0", "ab", "A1", "aB", "Ab ", "+", "-", "^", "(",
             "x y", "\tT\r\n", "\x0bv\x0c", "Z9", "a", "A", "alpha", "10"]


def gen_setvar(rng, n):
    L = []
    for _ in range(n):
        kind = rng.choice(["u", "b", "bin"])
        k = rng.randrange(1, 5)
        if kind == "b":
            items = []
            for _ in range(k):
                a = rng.choice(NAME_POOL)
                b = rng.choice(NAME_POOL + [a.upper(), a.lower(), " " + a])
                items.append(hexs(a) + "," + hexs(b))
        else:
            items = [hexs(rng.choice(NAME_POOL)) for _ in range(k)]
        L.append("setvar %s %s" % (kind, " ".join(items)))
    return L


def long_chain_cases(rng, n):
    """an error must keep its kind through arbitrarily long chains of operations (every operation wraps it once more)"""
    L = []
    for _ in range(n):
        desc = pick_field(rng, small=0.8, mid=0.2)
        h = H(rng, desc, bspec=bspec(rng), snap=False)
        z = h.elem("0"); g = h.elem()
        bad = h.newe(); h.ops.append("%s=inv %s" % (bad, z))
        for _ in range(rng.choice([63, 64, 65, 70, 130])):
            k = rng.random()
            if k < 0.5:
                h.ops.append("%s %s %s" % (rng.choice(["add", "sub", "mult"]), bad, g))
            elif k < 0.7:
                h.ops.append("setneg %s" % bad)
            else:
                nb = h.newe(); h.ops.append("%s=%s %s %s" % (nb, rng.choice(["plus", "times", "minus"]), bad, g)); bad = nb
        h.ops.append("show %s" % bad)
        f0 = h.upoly(deg=2, ring=0); g2 = h.upoly(deg=2, ring=2)
        bp = h.newu(); h.ops.append("%s=plus %s %s" % (bp, f0, g2))
        for _ in range(rng.choice([64, 66, 100])):
            k = rng.random()
            if k < 0.6:
                h.ops.append("%s %s %s" % (rng.choice(["add", "sub", "mult"]), bp, f0))
            else:
                nb = h.newu(); h.ops.append("%s=%s %s %s" % (nb, rng.choice(["plus", "times", "minus"]), bp, f0)); bp = nb
        h.ops.append("obs %s" % bp)
        # a bivariate power whose repeated squarings overflow again and again
        q0 = h.newb(); h.ops.append("%s=map@0 %d:0:1" % (q0, 2 ** 63))
        for n_ in (2, 3, 2 ** 63, 2 ** 64 - 1):
            r = h.newb(); h.ops.append("%s=pow %s %d" % (r, q0, n_)); h.ops.append("obs %s" % r)
        # an argument that carries an Overflow error AND belongs to another ring: its own kind is reported
        q2 = h.newb(); h.ops.append("%s=map@2 %d:1:1/0:0:1" % (q2, 2 ** 63))
        ov = h.newb(); h.ops.append("%s=times %s %s" % (ov, q2, q2))
        q1 = h.bpoly(nterms=2, box=3, ring=0)
        for op in ("plus", "minus", "times"):
            h.ops.append("%s=%s %s %s" % (h.newb(), op, q1, ov))
        c = h.newb(); h.ops.append("%s=copy %s" % (c, q1)); h.ops.append("%s %s %s" % (rng.choice(["add", "sub", "mult"]), c, ov)); h.ops.append("obs %s" % c)
        h.ops.append("%s,%s=quorem %s %s" % (h.newb(), h.newb(), q1, ov))
        h.ops.append("%s=rem %s %s" % (h.newb(), q1, ov))
        # (round 10, C17-R10b) divisor LISTS with two different problems: a clean polynomial of another ring object and an
        # Overflow-carrying polynomial of the dividend's own ring, in both orders (the carried kind is reported, whatever
        # stands first), with a clean divisor in between
        q2c = h.newb(); h.ops.append("%s=map@2 1:1:1/0:0:1" % q2c)
        ov0a = h.newb(); h.ops.append("%s=map@0 %d:1:1/0:0:1" % (ov0a, 2 ** 63))
        ov0 = h.newb(); h.ops.append("%s=times %s %s" % (ov0, ov0a, ov0a))
        q1b = h.bpoly(nterms=2, box=3, ring=0)
        for lst in ([q2c, ov0], [ov0, q2c], [q1b, q2c, ov0], [q2c, q1b, ov0], [ov0, q1b, q2c]):
            h.ops.append("%s,%s=quorem %s %s" % (h.newb(), h.newb(), q1, " ".join(lst)))
            h.ops.append("%s=rem %s %s" % (h.newb(), q1, " ".join(lst)))
        L.append(h.line())
    return L


def gen_C17(rng, tier):
    L = []
    big = tier == "thorough"
    L += long_chain_cases(rng, 60 if big else 15)
    L += spoly_cases(rng, 60 if big else 15)
    L += gen_setvar(rng, 400 if big else 80)
    L += overflow_cases(rng, 80 if big else 20)
    # (a) invalid requests and sticky chains, snapshot after every op
    for _ in range(900 if big else 170):
        desc = pick_field(rng, small=0.7, mid=0.25)
        uspec = "U:58:-"
        quot = rng.random() < 0.3
        if quot:
            uspec, _ = umod_spec(rng, desc)
        bgens = "-"
        if rng.random() < 0.25:
            bgens = "1:1:1/0:0:1;0:2:1"          # a small bivariate quotient ring as ring 1
        h = H(rng, desc, uspec=uspec, bspec=bspec(rng, gens=bgens), snap=True)
        maybe_tables(h, rng, prob=0.4)
        good_e = [h.elem(), h.elem()]
        z = h.elem("0")
        bad_e = []
        # sources of erroneous elements
        r = h.newe(); h.ops.append("%s=inv %s" % (r, z)); bad_e.append(r)
        o = h.newe(); h.ops.append("%s=enc@1 %s" % (o, rand_elem(desc, rng))); other_field = o
        r = h.newe(); h.ops.append("%s=plus %s %s" % (r, good_e[0], other_field)); bad_e.append(r)
        fo = h.newe(); h.ops.append("%s=foreign@0" % fo)
        if rng.random() < 0.5:
            r = h.newe(); h.ops.append("%s=copy %s" % (r, good_e[0])); h.ops.append("add %s %s" % (r, fo)); bad_e.append(r)
        if rng.random() < 0.3:
            r = h.newe(); h.ops.append("%s=copy %s" % (r, good_e[0])); h.ops.append("prod %s %s %s" % (r, fo, good_e[1])); bad_e.append(r)
        # the generic constructor with unsupported dynamic types (Input errors, no object), strings and slices
        for _ in range(rng.randrange(0, 3)):
            k = rng.choice(["anyf64", "anyi32", "anyu8", "anynil", "anyelem", "anysl", "anyisl", "anystr", "anystr"])
            arg = "0"
            if k in ("anysl", "anyisl"):
                arg = ".".join(str(rng.randrange(0, 9)) for _ in range(rng.randrange(0, 4))) or "-"
            if k == "anystr":
                arg = hexs(_rand_string(rng, desc))
            h.ops.append("%s=%s@0 %s" % (h.newe(), k, arg))
        # quotient rings: of a quotient ring (InputValue), modulo an ideal of another ring (InputIncompatible)
        if rng.random() < 0.5:
            ks = [0, 2] + ([1] if quot else [])
            k, j = rng.choice(ks), rng.choice([0, 2])
            def _canon_poly():
                cs = [rand_elem(desc, rng) for _ in range(rng.randrange(1, 4))]
                while cs and cs[-1] == "0":
                    cs.pop()
                return "/".join(cs) or "1"
            gens = ";".join(_canon_poly() for _ in range(rng.randrange(1, 3)))
            h.ops.append("uquot@%d %d:%s" % (k, j, gens))
            # the public Reduce of a univariate ideal (also of a unit ideal) applied to polynomials of its own ring, of
            # another ring, of the quotient ring, and to one that carries an error
            for _ in range(rng.randrange(1, 4)):
                jj = rng.choice([0, 2])
                gens2 = rng.choice([_canon_poly(), rand_elem(desc, rng, special=0) if rand_elem(desc, rng, special=0) != "0" else "1", ";".join([_canon_poly(), _canon_poly()])])
                tgt = rng.choice([0, 0, 2] + ([1] if quot else []))
                pp = h.upoly(deg=rng.choice([0, 2, 4]), ring=tgt)
                h.ops.append("uireduce %d:%s %s" % (jj, gens2, pp)); h.ops.append("obs %s" % pp)
            if rng.random() < 0.5:
                f0_ = h.upoly(deg=3, ring=0); g2_ = h.upoly(deg=2, ring=2)
                bp_ = h.newu(); h.ops.append("%s=plus %s %s" % (bp_, f0_, g2_))
                h.ops.append("uireduce 0:%s %s" % (rng.choice(["1", _canon_poly()]), bp_))
        pool = good_e + bad_e + [z]
        # (round 10, C17-R10a) ONE erroneous object in both operand positions, the receiver a different, clean object — and
        # every other same-object placement of an erroneous element (fast paths for squaring that skip the operand checks)
        for e_ in bad_e:
            if rng.random() < 0.6:
                c = h.newe(); h.ops.append("%s=copy %s" % (c, good_e[0])); pool.append(c)
                h.ops.append("prod %s %s %s" % (c, e_, e_))
                r = h.newe(); h.ops.append("%s=%s %s %s" % (r, rng.choice(["times", "plus", "minus"]), e_, e_)); pool.append(r)
                c2 = h.newe(); h.ops.append("%s=copy %s" % (c2, e_)); pool.append(c2)
                h.ops.append("%s %s %s" % (rng.choice(["mult", "add", "sub"]), c2, c2))
                c3 = h.newe(); h.ops.append("%s=copy %s" % (c3, e_)); pool.append(c3)
                h.ops.append("prod %s %s %s" % (c3, c3, rng.choice([c3, good_e[1]])))
        for _ in range(rng.randrange(3, 14)):
            a, b = rng.choice(pool), rng.choice(pool)
            if rng.random() < 0.12:
                b = fo          # an operand of another implementation type (receiver stays in the field)
            if rng.random() < 0.6:
                a = rng.choice(bad_e) if rng.random() < 0.5 else a
                b = rng.choice(bad_e) if rng.random() < 0.5 else b
            k = rng.random()
            if k < 0.35:
                r = h.newe(); h.ops.append("%s=%s %s %s" % (r, rng.choice(["plus", "minus", "times"]), a, b)); pool.append(r)
            elif k < 0.55:
                r = h.newe(); h.ops.append("%s=%s %s" % (r, rng.choice(["neg", "inv", "copy", "trace"]), a)); pool.append(r)
            elif k < 0.65:
                r = h.newe(); h.ops.append("%s=pow %s %d" % (r, a, rng.choice([0, 1, 5]))); pool.append(r)
            elif k < 0.85:
                c = h.newe(); h.ops.append("%s=copy %s" % (c, a)); pool.append(c)
                h.ops.append("%s %s %s" % (rng.choice(["add", "sub", "mult"]), c, b))
            elif k < 0.95:
                c = h.newe(); h.ops.append("%s=copy %s" % (c, good_e[0])); pool.append(c)
                h.ops.append("prod %s %s %s" % (c, a, b))
            else:
                h.ops.append("eq %s %s" % (a, b))
        # polynomials: erroneous ones arise from cross-ring arithmetic, zero divisors are errors of QuoRem
        f0 = h.upoly(deg=3, ring=0); g2 = h.upoly(deg=2, ring=2)
        badp = h.newu(); h.ops.append("%s=plus %s %s" % (badp, f0, g2))
        zp = h.newu(); h.ops.append("%s=zero@0" % zp)
        h.ops.append("%s,%s=quorem %s %s" % (h.newu(), h.newu(), f0, zp))
        h.ops.append("%s,%s=quorem %s %s" % (h.newu(), h.newu(), f0, g2))
        h.ops.append("%s=gcd %s %s" % (h.newu(), f0, g2))
        h.ops.append("embed %s @2 0" % f0 if rng.random() < 0.2 else "obs %s" % f0)
        # Equal across rings is false, never an error; embedding into a ring over another ring object is refused
        h.ops.append("eq %s %s" % (f0, g2)); h.ops.append("eq %s %s" % (g2, f0))
        if rng.random() < 0.5:
            c2 = h.newu(); h.ops.append("%s=coefs@2 %s" % (c2, "1/1")); c0 = h.newu(); h.ops.append("%s=coefs@0 %s" % (c0, "1/1"))
            h.ops.append("eq %s %s" % (c0, c2))
        if quot:
            # a ring and its own quotient ring (they share the underlying ring object) are different rings
            f1 = h.upoly(deg=2, ring=1)
            for op in rng.sample(["plus", "minus", "times"], 2):
                h.ops.append("%s=%s %s %s" % (h.newu(), op, f0, f1))
                h.ops.append("%s=%s %s %s" % (h.newu(), op, f1, f0))
            c = h.newu(); h.ops.append("%s=copy %s" % (c, f1)); h.ops.append("%s %s %s" % (rng.choice(["add", "sub", "mult"]), c, f0))
            h.ops.append("%s,%s=quorem %s %s" % (h.newu(), h.newu(), f0, f1))
            h.ops.append("%s=gcd %s %s" % (h.newu(), f1, f0))
        # gcd / quorem with an operand that already carries an error (same ring)
        h.ops.append("%s=gcd %s %s" % (h.newu(), badp, f0)); h.ops.append("%s=gcd %s %s" % (h.newu(), f0, badp))
        h.ops.append("%s=gcd %s %s %s" % (h.newu(), f0, f0, badp))
        h.ops.append("%s,%s=quorem %s %s" % (h.newu(), h.newu(), badp, f0)); h.ops.append("%s,%s=quorem %s %s" % (h.newu(), h.newu(), f0, badp))
        upool = [f0, badp, h.upoly(deg=2, ring=0)]
        if rng.random() < 0.5:
            # the same erroneous polynomial object in both positions
            r = h.newu(); h.ops.append("%s=%s %s %s" % (r, rng.choice(["times", "plus", "minus"]), badp, badp)); upool.append(r)
            cb = h.newu(); h.ops.append("%s=copy %s" % (cb, badp)); upool.append(cb)
            h.ops.append("%s %s %s" % (rng.choice(["mult", "add", "sub"]), cb, cb))
            h.ops.append("%s=gcd %s %s" % (h.newu(), badp, badp)); h.ops.append("%s,%s=quorem %s %s" % (h.newu(), h.newu(), badp, badp))
        for _ in range(rng.randrange(2, 9)):
            a, b = rng.choice(upool), rng.choice(upool)
            if rng.random() < 0.6:
                a = badp if rng.random() < 0.5 else a
                b = badp if rng.random() < 0.5 else b
            k = rng.random()
            if k < 0.4:
                r = h.newu(); h.ops.append("%s=%s %s %s" % (r, rng.choice(["plus", "minus", "times"]), a, b)); upool.append(r)
            elif k < 0.6:
                r = h.newu(); h.ops.append("%s=%s %s" % (r, rng.choice(["neg", "normalize", "copy"]), a)); upool.append(r)
            elif k < 0.7:
                r = h.newu(); h.ops.append("%s=pow %s %d" % (r, a, rng.choice([0, 1, 3]))); upool.append(r)
            elif k < 0.78:
                r = h.newu(); h.ops.append("%s=scale %s %s" % (r, a, rng.choice(good_e))); upool.append(r)
            else:
                c = h.newu(); h.ops.append("%s=copy %s" % (c, a)); upool.append(c)
                h.ops.append("%s %s %s" % (rng.choice(["add", "sub", "mult"]), c, b))
        q0 = h.bpoly(nterms=3, box=3, ring=0); q2 = h.bpoly(nterms=2, box=3, ring=2)
        badq = h.newb(); h.ops.append("%s=plus %s %s" % (badq, q0, q2))
        zq = h.newb(); h.ops.append("%s=zero@0" % zq)
        h.ops.append("%s,%s=quorem %s %s" % (h.newb(), h.newb(), q0, zq))
        h.ops.append("%s=rem %s %s" % (h.newb(), q0, zq))
        h.ops.append("%s,%s=quorem %s %s" % (h.newb(), h.newb(), q0, q2))
        h.ops.append("%s=ideal@0 %s" % (h.newi(), zq))
        h.ops.append("%s=ideal@0 %s %s" % (h.newi(), q0, q2))
        h.ops.append("eq %s %s" % (q0, q2)); h.ops.append("eq %s %s" % (q2, q0))
        h.ops.append("%s=embed@2 %s:%d" % (h.newb(), q0, rng.randrange(2)))
        h.ops.append("%s=embed@0 %s:%d" % (h.newb(), q2, rng.randrange(2)))
        if rng.random() < 0.5:
            # a good ideal of ring 0, then: quotient of the quotient ring (ring 1), quotient of a foreign ring (ring 2)
            one_ = h.elem("1")
            g1 = h.bpoly(nterms=1, box=2, ring=0); h.ops.append("inc %s 1:1 %s" % (g1, one_))
            g2 = h.bpoly(nterms=1, box=2, ring=0); h.ops.append("inc %s 0:2 %s" % (g2, one_))
            gi = h.newi(); h.ops.append("%s=ideal@0 %s %s" % (gi, g1, g2))
            if rng.random() < 0.5:
                h.ops.append("isgroebner %s" % gi)
            if bgens != "-":
                h.ops.append("quotient@1 %s" % gi)
            h.ops.append("quotient@2 %s" % gi)
            h.ops.append("obs %s" % gi)
        if bgens != "-":
            q1r = h.bpoly(nterms=2, box=2, ring=1)
            for op in rng.sample(["plus", "minus", "times"], 2):
                h.ops.append("%s=%s %s %s" % (h.newb(), op, q0, q1r))
                h.ops.append("%s=%s %s %s" % (h.newb(), op, q1r, q0))
            c = h.newb(); h.ops.append("%s=copy %s" % (c, q1r)); h.ops.append("%s %s %s" % (rng.choice(["add", "sub", "mult"]), c, q0))
            h.ops.append("%s,%s=quorem %s %s" % (h.newb(), h.newb(), q0, q1r))
            h.ops.append("%s=ideal@0 %s" % (h.newi(), q1r))
        bpool = [q0, badq, h.bpoly(nterms=2, box=3, ring=0)]
        for _ in range(rng.randrange(2, 9)):
            a, b = rng.choice(bpool), rng.choice(bpool)
            if rng.random() < 0.6:
                a = badq if rng.random() < 0.5 else a
                b = badq if rng.random() < 0.5 else b
            k = rng.random()
            if k < 0.4:
                r = h.newb(); h.ops.append("%s=%s %s %s" % (r, rng.choice(["plus", "minus", "times"]), a, b)); bpool.append(r)
            elif k < 0.6:
                r = h.newb(); h.ops.append("%s=%s %s" % (r, rng.choice(["neg", "normalize", "copy"]), a)); bpool.append(r)
            elif k < 0.7:
                r = h.newb(); h.ops.append("%s=pow %s %d" % (r, a, rng.choice([0, 1, 3]))); bpool.append(r)
            elif k < 0.78:
                r = h.newb(); h.ops.append("%s=scale %s %s" % (r, a, rng.choice(good_e + [z]))); bpool.append(r)
            else:
                c = h.newb(); h.ops.append("%s=copy %s" % (c, a)); bpool.append(c)
                h.ops.append("%s %s %s" % (rng.choice(["add", "sub", "mult"]), c, b))
        # interpolation with inconsistent data
        h.ops.append("%s=interp@0 %s %s" % (h.newu(), ",".join([good_e[0], good_e[0]]), ",".join([good_e[1], good_e[1]])))
        h.ops.append("%s=interp@0 %s %s" % (h.newu(), good_e[0], ",".join([good_e[1], good_e[1]])))
        h.ops.append("%s=interp@0 %s %s %s" % (h.newb(), ",".join([good_e[0], good_e[0]]), ",".join([good_e[1], good_e[1]]), ",".join([z, z])))
        L.append(h.line())
    # (b) strings: exhaustive short strings over the grammar alphabet, seeded longer strings
    alpha = list("01+-^ aX(Y*)9")
    shorts = [""] + [a for a in alpha] + [a + b for a in alpha for b in alpha]
    if big:
        shorts += [a + b + c for a in alpha for b in alpha for c in alpha]
    rng.shuffle(shorts)
    # numbers at the limits of the integer conversions (signed and unsigned), with and without a sign
    limits = ["-9223372036854775808", "-9223372036854775809", "9223372036854775807", "9223372036854775808",
              "18446744073709551615", "18446744073709551616", "-18446744073709551616", "-0", "-00", "--1", "- 1", "-1-", "+1",
              "X^9223372036854775808", "X^-1", "-X", "- X", "-(a + 1)X"]
    strings = shorts[: (len(shorts) if big else 180)] + limits * 6 + [rand_string(rng, "") for _ in range(6000 if big else 700)]
    descs = [field_desc(7, 1), field_desc(2, 3), field_desc(3, 2), field_desc(65537, 1), field_desc(2, 12), field_desc(5, 3)]
    per = 12
    for i in range(0, len(strings), per):
        desc = descs[(i // per) % len(descs)]
        h = H(rng, desc, bspec=bspec(rng, order="lex.1"))
        for s in strings[i:i + per]:
            hx = hexs(s) if s else "-"
            if hx == "-":
                hx = ""
            # empty strings travel as the token `00`-free marker: use a single space-free placeholder
            tok = hx if hx else "EMPTY"
            h.ops.append("%s=str@0 %s" % (h.newe(), tok))
            h.ops.append("%s=str@0 %s" % (h.newu(), tok))
            h.ops.append("%s=str@0 %s" % (h.newb(), tok))
        L.append(h.line())
    return L


# ---------------------------------------------------------------------------------------------
# C18 tables: the same histories, the implementation computes tables at some point, the model has none

def gen_C18(rng, tier):
    L = []
    L += cross_field_prod_cases(rng, 100 if tier == "thorough" else 25, tables=True)
    n = 800 if tier == "thorough" else 150
    pool = [(3, 1), (5, 1), (7, 1), (13, 1), (31, 1), (251, 1), (257, 1), (1021, 1), (3, 2), (3, 3), (5, 2), (7, 2), (3, 4), (11, 2), (5, 3), (13, 2)]
    for _ in range(n):
        p, k = rng.choice(pool)
        desc = field_desc(p, k)
        other_p = None
        if k == 1 and rng.random() < 0.35:
            # a second prime field of another characteristic as field object 1
            other_p = rng.choice([q for (q, kk) in pool if kk == 1 and q != p])
            desc = "%s,P:%d" % (desc, other_p)
        h = H(rng, desc, bspec=bspec(rng), snap=True)
        es = [h.elem() for _ in range(3)] + [h.elem("0"), h.elem("1")]
        if other_p:
            # receivers of the other field (with its own multiplication table) re-used for products here
            o1 = h.newe(); h.ops.append("%s=enc@1 %d" % (o1, rng.randrange(1, other_p)))
            o2 = h.newe(); h.ops.append("%s=enc@1 %d" % (o2, rng.randrange(1, other_p)))
            h.ops.append("tables@1 %d 1 -" % rng.randrange(2))
            nz = [h.elem(str(rng.randrange(1, p))) for _ in range(2)]
            h.ops.append("prod %s %s %s" % (o1, nz[0], nz[1]))
            h.ops.append("prod %s %s %s" % (o1, nz[1], nz[1]))
            c0 = h.newe(); h.ops.append("%s=copy %s" % (c0, nz[0]))
            h.ops.append("prod %s %s %s" % (c0, o2, o2))
            h.ops.append("%s=times %s %s" % (h.newe(), o2, o2))
        ps = [h.upoly(deg=rng.choice([1, 2, 4])) for _ in range(2)]
        qs = [h.bpoly(nterms=rng.choice([1, 2, 3]), box=3) for _ in range(2)]
        if other_p is None and rng.random() < 0.3:
            # a receiver that belongs to a second field object (with its own tables) is re-used for a
            # product of elements of the first field object, and vice versa
            o1 = h.newe(); h.ops.append("%s=enc@1 %s" % (o1, rand_elem(desc, rng)))
            o2 = h.newe(); h.ops.append("%s=enc@1 %s" % (o2, rand_elem(desc, rng, special=0)))
            h.ops.append("tables@1 %d 1 -" % rng.randrange(2))
            h.ops.append("prod %s %s %s" % (o1, es[0], es[1]))
            h.ops.append("prod %s %s %s" % (o1, es[2], es[4]))
            c0 = h.newe(); h.ops.append("%s=copy %s" % (c0, es[0]))     # copies: es[...] stay in field object 0
            c1 = h.newe(); h.ops.append("%s=copy %s" % (c1, es[1]))
            h.ops.append("prod %s %s %s" % (c0, o2, o2))
            h.ops.append("mult %s %s" % (c1, o2))
        nops = rng.randrange(6, 22)
        when = sorted({rng.randrange(0, nops) for _ in range(rng.choice([1, 1, 2, 3]))})
        for i in range(nops):
            if i in when:
                mm = rng.choice(["-", "-", "0", "1", "100000", str(2 ** 64 - 1)])
                if mm == "-" or rng.random() < 0.5:
                    # exact estimate boundary for prime fields
                    if desc[0] == "P" and rng.random() < 0.4:
                        est = (p * (p + 1) * 4) >> 10
                        mm = str(max(0, est + rng.choice([-1, 0, 1])))
                h.ops.append("tables@0 %d %d %s" % (rng.randrange(2), rng.randrange(2), mm))
            k2 = rng.random()
            a, b = rng.choice(es), rng.choice(es)
            if k2 < 0.3:
                r = h.newe(); h.ops.append("%s=%s %s %s" % (r, rng.choice(["plus", "minus", "times"]), a, b)); es.append(r)
            elif k2 < 0.45:
                r = h.newe(); h.ops.append("%s=%s %s" % (r, rng.choice(["neg", "inv", "trace", "copy"]), a)); es.append(r)
            elif k2 < 0.55:
                r = h.newe(); h.ops.append("%s=pow %s %d" % (r, a, rng.choice(exps(rng, desc_card(desc))))); es.append(r)
            elif k2 < 0.7:
                h.ops.append("%s %s %s" % (rng.choice(["add", "sub", "mult"]), a, b))
            elif k2 < 0.75:
                h.ops.append("prod %s %s %s" % (a, b, rng.choice(es)))
            elif k2 < 0.85:
                x, y = rng.choice(ps), rng.choice(ps)
                kk = rng.random()
                if kk < 0.4:
                    r = h.newu(); h.ops.append("%s=%s %s %s" % (r, rng.choice(["plus", "times"]), x, y)); ps.append(r)
                elif kk < 0.6:
                    r = h.newe(); h.ops.append("%s=eval %s %s" % (r, x, a)); es.append(r)
                elif kk < 0.8:
                    one = es[4]
                    g = h.upoly(deg=1); h.ops.append("inc %s 2 %s" % (g, one))
                    h.ops.append("%s,%s=quorem %s %s" % (h.newu(), h.newu(), x, g))
                else:
                    r = h.newu(); h.ops.append("%s=pow %s 3" % (r, x)); ps.append(r)
            elif k2 < 0.95:
                x, y = rng.choice(qs), rng.choice(qs)
                kk = rng.random()
                if kk < 0.5:
                    r = h.newb(); h.ops.append("%s=%s %s %s" % (r, rng.choice(["plus", "times"]), x, y)); qs.append(r)
                else:
                    r = h.newe(); h.ops.append("%s=eval %s %s %s" % (r, x, a, b)); es.append(r)
            else:
                pts = es[:3]
                if len({h.ops[int(x[1:])].split()[-1] for x in pts if int(x[1:]) < 3}) == 3:
                    h.ops.append("%s=interp@0 %s %s" % (h.newu(), ",".join(pts), ",".join([a, b, a])))
            if desc_card(desc) <= 300 and rng.random() < 0.12:
                h.ops.append("escr@0")      # Elements(), then the caller overwrites everything it was given
            if rng.random() < 0.08:
                # a result of Inv / Times / Pow is changed in place by its owner; the same request again must give the
                # same answer (with a table the result must not be the table's own entry)
                x = rng.choice(es)
                op1 = rng.choice(["inv %s" % x, "times %s %s" % (x, rng.choice(es)), "pow %s %d" % (x, rng.choice([2, 3, 5]))])
                r1 = h.newe(); h.ops.append("%s=%s" % (r1, op1))
                h.ops.append(rng.choice(["setneg %s" % r1, "add %s %s" % (r1, es[4]), "mult %s %s" % (r1, rng.choice(es)), "setu %s 5" % r1]))
                r2 = h.newe(); h.ops.append("%s=%s" % (r2, op1)); es.append(r2)
                h.ops.append("%s=times %s %s" % (h.newe(), x, r2))
        L.append(h.line())
    # strings parsed in a field WITH its table (round 9, C18-R9a: a parser that consults the table for bare powers of
    # the generator): powers a^e with e around q-1, q and their multiples, in every notation the grammar has, alone, in
    # sums, and as coefficients of univariate and bivariate polynomials; before and after the table exists
    for (p, k, ext) in ([(3, 2, False), (2, 2, True), (5, 2, False), (3, 3, False), (2, 3, True), (7, 2, False), (2, 4, True)]
                        if tier == "thorough" else [(3, 2, False), (2, 2, True), (5, 2, False), (3, 3, False)]):
        desc = field_desc(p, k, force_ext=ext)
        q = p ** k
        exps_ = sorted({0, 1, 2, q - 2, q - 1, q, q + 1, 2 * (q - 1) - 1, 2 * (q - 1), 2 * (q - 1) + 1, 2 * q, 3 * (q - 1), q * q - 1, q * q})
        forms = ["a^%d", "a%d", "A^%d", " a^%d ", "2a^%d", "a^%d + 1", "a^%d + a^%d", "(a^%d)X + a%d", "(a^%d)XY + a^%d"]
        strs = []
        for e in exps_:
            for f in forms:
                strs.append(f % ((e,) * f.count("%d")))
        for i in range(0, len(strs), 9):
            h = H(rng, desc, bspec=bspec(rng, order="lex.1"), snap=False)
            first = strs[i]
            h.ops.append("%s=str@0 %s" % (h.newe(), hexs(first)))
            h.ops.append("tables@0 1 1 -")
            for s_ in strs[i:i + 9]:
                tok = hexs(s_)
                h.ops.append("%s=str@0 %s" % (h.newe(), tok))
                h.ops.append("%s=str@0 %s" % (h.newu(), tok))
                h.ops.append("%s=str@0 %s" % (h.newb(), tok))
            L.append(h.line())
    # the histories of the OTHER properties' generators with a table request spliced in at a random point (the lesson of
    # C18-R9a generalised: every operation family of the protocol — parsing, printing, division, quotient rings, ideals,
    # interpolation, in-place patterns, error cases — is also run on a field that has its tables)
    def _tab_ok(line):
        d = line.split()[1].split(",")[0]
        if d[0] == "B":
            return False
        c = desc_card(d)
        return c <= 3000 or (d[0] == "P" and c > 200000)
    per = 40 if tier == "thorough" else 12
    for g_ in (gen_C05, gen_C06, gen_C07, gen_C08, gen_C10, gen_C13, gen_C14, gen_C15, gen_C16, gen_C17):
        cand = [l for l in g_(random.Random(rng.randrange(2 ** 30)), "quick") if l.startswith("hist ") and _tab_ok(l)]
        rng.shuffle(cand)
        for l in cand[:per]:
            parts = l.split(" | ")
            if len(parts) < 2 or len(parts) > 120:
                continue
            pos = rng.randrange(1, len(parts) + 1)
            parts.insert(pos, "tables@0 %d 1 %s" % (rng.randrange(2), rng.choice(["-", "-", "-", "0"])))
            if rng.random() < 0.3:
                parts.insert(rng.randrange(pos + 1, len(parts) + 1), "tables@0 1 1 -")
            L.append(" | ".join(parts))
    # every element of a field with its table against a twin field object without table (x*g, x^-1, x*1)
    for (p, k, ext) in ([(2, 16, True), (17, 4, False), (5, 7, False), (257, 2, False), (41, 3, False), (3, 2, False), (251, 1, False), (1021, 1, False), (2, 3, True), (7, 1, True)]
                        if tier == "thorough" else [(17, 4, False), (2, 16, True), (3, 3, False), (251, 1, False)]):
        desc = field_desc(p, k, force_ext=ext)
        h = H(rng, desc, snap=False)
        h.ops.append("tcheck@0")
        h.ops.append("tables@0 1 1 -")
        h.ops.append("tcheck@0")
        L.append(h.line())
    # extension fields whose discrete logarithms do not fit 16 bits (and one that just does): operands from the
    # top of the group, tables requested in mid-computation
    for (p, k) in ([(257, 2), (41, 3), (263, 2), (17, 4), (251, 2)] if tier == "thorough" else [(257, 2), (41, 3), (251, 2)]):
        q = p ** k
        desc = field_desc(p, k)
        h = H(rng, desc, snap=False)
        g = h.newe(); h.ops.append("%s=gen@0" % g)
        ks = [65535, 65536, 65537, q - 2, q - 3, rng.randrange(65536, q - 1) if q - 1 > 65536 else rng.randrange(1, q - 1),
              rng.randrange(1, q - 1), (q - 1) // 2]
        es = []
        for kk in ks[:3] if False else ks:
            r = h.newe(); h.ops.append("%s=pow %s %d" % (r, g, kk % (q - 1) if kk >= q - 1 else kk)); es.append(r)
        for r in es[:3]:
            h.ops.append("%s=inv %s" % (h.newe(), r))
        h.ops.append("tables@0 0 1 -")
        for i, a in enumerate(es):
            b = es[(i + 3) % len(es)]
            h.ops.append("%s=times %s %s" % (h.newe(), a, b))
            h.ops.append("%s=inv %s" % (h.newe(), a))
            h.ops.append("%s=pow %s %d" % (h.newe(), a, rng.choice([2, 3, q - 2, 65537])))
        c = h.newe(); h.ops.append("%s=copy %s" % (c, es[1])); h.ops.append("mult %s %s" % (c, es[3])); h.ops.append("prod %s %s %s" % (c, es[0], es[4]))
        L.append(h.line())
    return L


# ---------------------------------------------------------------------------------------------
# bounded-exhaustive blocks of the thorough tier: every polynomial of a small shape, every pair

def _enum_upolys(desc, maxdeg):
    encs = enum_encs(desc)
    out = [[]]
    for _ in range(maxdeg + 1):
        out = [p + [c] for p in out for c in encs]
    return ["/".join(p) for p in out]


def _enum_bpolys(desc, box):
    encs = enum_encs(desc)
    cells = [(x, y) for x in range(box) for y in range(box)]
    out = [[]]
    for (x, y) in cells:
        out = [p + ([] if c == encs[0] else ["%d:%d:%s" % (x, y, c)]) for p in out for c in encs]
    return ["/".join(p) or "-" for p in out]


def exhaustive_C05(rng):
    L = []
    for (p, n, md) in [(2, 1, 3), (3, 1, 2), (2, 2, 1)]:
        desc = field_desc(p, n)
        polys = _enum_upolys(desc, md)
        for i, f in enumerate(polys):
            h = H(rng, desc)
            a = h.newu(); h.ops.append("%s=coefs@0 %s" % (a, f))
            for g in polys:
                b = h.newu(); h.ops.append("%s=coefs@0 %s" % (b, g))
                for op in ("plus", "minus", "times"):
                    h.ops.append("%s=%s %s %s" % (h.newu(), op, a, b))
                c = h.newu(); h.ops.append("%s=copy %s" % (c, a)); h.ops.append("%s %s %s" % (rng.choice(["add", "sub", "mult"]), c, b))
                h.ops.append("eq %s %s" % (a, b))
            h.ops.append("obs %s" % a)
            L.append(h.line())
    return L


def exhaustive_C06(rng):
    L = []
    for (p, n, fd, gd) in [(2, 1, 4, 3), (3, 1, 3, 2)]:
        desc = field_desc(p, n)
        fs, gs = _enum_upolys(desc, fd), [g for g in _enum_upolys(desc, gd) if any(c != "0" for c in g.split("/"))]
        for f in fs:
            h = H(rng, desc)
            a = h.newu(); h.ops.append("%s=coefs@0 %s" % (a, f))
            for g in gs:
                b = h.newu(); h.ops.append("%s=coefs@0 %s" % (b, g))
                h.ops.append("%s,%s=quorem %s %s" % (h.newu(), h.newu(), a, b))
                h.ops.append("%s=gcd %s %s" % (h.newu(), a, b))
            L.append(h.line())
    return L


def exhaustive_C08(rng):
    L = []
    for (p, n) in [(2, 1), (3, 1)]:
        desc = field_desc(p, n)
        polys = _enum_bpolys(desc, 2)
        for f in polys:
            h = H(rng, desc, bspec=bspec(rng))
            a = h.newb(); h.ops.append("%s=map@0 %s" % (a, f))
            for g in polys:
                b = h.newb(); h.ops.append("%s=map@0 %s" % (b, g))
                for op in ("plus", "minus", "times"):
                    h.ops.append("%s=%s %s %s" % (h.newb(), op, a, b))
                h.ops.append("eq %s %s" % (a, b))
            h.ops.append("obs %s" % a)
            L.append(h.line())
    return L


def exhaustive_C10(rng):
    L = []
    for (p, n) in [(2, 1), (3, 1)]:
        desc = field_desc(p, n)
        polys = _enum_bpolys(desc, 2)
        nz = [g for g in polys if g != "-"]
        for o in ["lex.1", "deglex.0", "wdegrevlex.2.3.1"]:
            for f in polys:
                h = H(rng, desc, bspec=bspec(rng, order=o))
                a = h.newb(); h.ops.append("%s=map@0 %s" % (a, f))
                for g in nz:
                    b = h.newb(); h.ops.append("%s=map@0 %s" % (b, g))
                    h.ops.append("%s,%s=quorem %s %s" % (h.newb(), h.newb(), a, b))
                # two divisors: a random sample of pairs
                for _ in range(20):
                    g1, g2 = rng.choice(nz), rng.choice(nz)
                    b1 = h.newb(); h.ops.append("%s=map@0 %s" % (b1, g1))
                    b2 = h.newb(); h.ops.append("%s=map@0 %s" % (b2, g2))
                    h.ops.append("%s,%s,%s=quorem %s %s %s" % (h.newb(), h.newb(), h.newb(), a, b1, b2))
                    h.ops.append("%s=rem %s %s %s" % (h.newb(), a, b1, b2))
                L.append(h.line())
    return L


EXHAUSTIVE = {"C05": exhaustive_C05, "C06": exhaustive_C06, "C08": exhaustive_C08, "C10": exhaustive_C10}
