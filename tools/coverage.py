#!/usr/bin/env python3
"""coverage.py [quick|thorough] — which statements of the LIBRARY the correspondence cases reach.

Builds the harness with Go's coverage instrumentation for every package of the library, feeds it the cases the
checks generate (corpus + generators, all 20 properties, one seed), and writes coverage/summary.txt: statement
coverage per function. This measures the generators (what the tie T2 can see); it is not a check and proves nothing.
"""
import os, sys, subprocess, random, shutil, tempfile
sys.path.insert(0, os.path.dirname(os.path.abspath(__file__)))
import common as C, gen as G

def main():
    tier = sys.argv[1] if len(sys.argv) > 1 else "quick"
    C.build_harness()
    work = tempfile.mkdtemp(prefix="vcov")
    exe = os.path.join(work, "hcov")
    env = dict(os.environ, GOFLAGS="-mod=mod", GOPROXY="off", GOSUMDB="off", GOTOOLCHAIN="local")
    hd = os.path.join(C.VERIF, "harness")
    deps = subprocess.run(["go", "list", "-tags", "verif", "-deps", "."], cwd=hd, env=env, capture_output=True, text=True).stdout.split()
    pk = [d for d in deps if "ReneBoedker/algobra" in d] + ["algobra-verif/harness"]   # main must be instrumented too
    subprocess.check_call(["go", "build", "-tags", "verif", "-cover", "-coverpkg=" + ",".join(pk), "-o", exe, "."], cwd=hd, env=env)
    covdir = os.path.join(work, "cov"); os.makedirs(covdir)
    lines = []
    for n in range(1, 21):
        pid = "C%02d" % n
        rng = random.Random(1 * 1000003 + n)
        cp = os.path.join(C.VERIF, "corpus", pid + ".txt")
        if os.path.exists(cp):
            lines += [l.rstrip("\n") for l in open(cp) if l.strip() and not l.startswith("#")]
        f = getattr(G, "gen_" + pid, None)
        if f:
            lines += f(rng, tier)
    # each chunk in its own process: a crash or watchdog exit loses only that chunk's counters
    CH = 200
    cenv = dict(env, GOCOVERDIR=covdir, VERIF_OP_TIMEOUT_MS="20000", GOMEMLIMIT="2GiB")
    lost = 0
    def run(ls):
        try:
            return subprocess.run([exe], input="\n".join(ls) + "\n", text=True, capture_output=True, env=cenv, timeout=600).returncode
        except subprocess.TimeoutExpired:
            return -1
    for i in range(0, len(lines), CH):
        chunk = lines[i:i + CH]
        if run(chunk) != 0:
            # a case ended the process (time cap, or the out-of-memory abort of finding PF-21): its chunk's counters
            # are gone; run the chunk again line by line so that only the culprit is lost
            for l in chunk:
                if run([l]) != 0:
                    lost += 1
    print("cases whose process ended abnormally (counters lost):", lost)
    prof = os.path.join(work, "prof.txt")
    subprocess.check_call(["go", "tool", "covdata", "textfmt", "-i=" + covdir, "-o", prof], env=env)
    out = subprocess.run(["go", "tool", "cover", "-func=" + prof], cwd=hd, env=env, capture_output=True, text=True).stdout
    os.makedirs(os.path.join(C.VERIF, "coverage"), exist_ok=True)
    rows = [l for l in out.splitlines() if "export_verif" not in l and "algobra-verif/harness" not in l]
    low = [l for l in rows if l.split()[-1] != "100.0%" and not l.startswith("total")]
    with open(os.path.join(C.VERIF, "coverage", "summary.txt"), "w") as fh:
        fh.write("# statement coverage of the library under the correspondence cases (%s tier, seed 1, %d cases)\n" % (tier, len(lines)))
        fh.write("\n".join(rows) + "\n")
    # uncovered blocks of the library, merged per file
    unc = {}
    for l in open(prof):
        if l.startswith("mode:") or "export_verif" in l or "algobra-verif/harness" in l:
            continue
        loc, nst, cnt = l.rsplit(" ", 2)
        if int(cnt) == 0:
            f, rng_ = loc.split(":")
            unc.setdefault(f.replace("github.com/ReneBoedker/algobra/", ""), set()).add(rng_.split(",")[0].split(".")[0] + "-" + rng_.split(",")[1].split(".")[0])
    with open(os.path.join(C.VERIF, "coverage", "uncovered.txt"), "w") as fh:
        fh.write("# blocks of the library never executed by the correspondence cases (file: startline-endline ...)\n")
        for f in sorted(unc):
            fh.write("%s: %s\n" % (f, " ".join(sorted(unc[f], key=lambda r: int(r.split("-")[0])))))
    print("cases:", len(lines)); print(rows[-1]); print("functions below 100%%: %d of %d" % (len(low), len(rows) - 1))
    shutil.rmtree(work, ignore_errors=True)

if __name__ == "__main__":
    main()
