#!/usr/bin/env python3-vt
"""
gen_certs.py — certificate generator for property C04 (Conway polynomial database).

HOW TO REGENERATE (do this whenever /repo/finitefield/conway/cpimport.go changes):

    python3-vt /verif/tools/gen_certs.py            # rewrites /verif/lean/Algobra/Certs/{Data,Sweep??,All}.lean
    cd /verif/lean && lake build Algobra.Props.C04  # re-checks everything against Gen/ConwayText.lean

(`Gen/ConwayText.lean` itself is regenerated from the same Go file by /verif/extract; this script
reads the Go file directly and never looks at the Lean copy.  The certificates are UNTRUSTED hints:
`Certs/Checker.lean` re-verifies every one of them against the parsed `Gen.dbText`, so a stale or wrong
certificate can only make the build fail, never make a false theorem pass.)

What is generated
  Certs/Data.lean     string chunks (<= 60 KB each, split at line boundaries)
                        tabChunks  : the prime table, one line per prime, ascending:
                                       "q"                      if q < 2^32  (checked by trial division)
                                       "q a j1:k1 j2:k2 ..."    otherwise: Pratt/Lucas line, a = primitive root
                                                                mod q, q-1 = prod (prime at line j_i)^k_i, j_i < own index
                        certChunks : one line per database entry, in database order:
                                       "j1:k1 j2:k2 ..."        p^n - 1 = prod (prime at table line j_i)^k_i
                                       ""                       if p^n >= 2^64 (no primitivity claim)
                        rabinChunks: one line per database entry, in database order:
                                       "r1:v0,v1,..,v(n-1) r2:..."  if p^n >= 2^64 and n <= rabinMaxDeg: for every prime
                                                                r | n the inverse v of x^(p^(n/r)) - x in F_p[x]/(f)
                                                                (Rabin's irreducibility test)
                                       ""                       otherwise
                      (rabinMaxDeg is read from Certs/Checker.lean)
  Certs/SweepNN.lean  NN = 00..STRIDES-1: `native_decide` evaluation of the checker on the entries with
                      index = NN mod STRIDES (so that `lake build` runs them in parallel)
  Certs/All.lean      imports all sweeps, collects them into one statement per checker

If the NUMBER of entries changes, also update the literal 35357 in Certs/TabCheck.lean (db_shape_ok) and
Props/C04.lean (db_shape); a changed entry, a new prime factor etc. needs nothing but re-running this script.
Measured: this script 15 s; clean `lake build Algobra.Props.C04` 34 CPU-minutes (about 2-3 min on 16 idle cores).

Hand-written, NOT touched by this script: Certs/Checker.lean (the checkers), Certs/Inst.lean (instantiation
with the data), Certs/TabCheck.lean (prime table check).
"""
import os
import re
import sys

import numpy as np
from sympy import ZZ, factorint, primefactors, primitive_root
from sympy.polys.galoistools import gf_gcdex

GO_FILE = '/repo/finitefield/conway/cpimport.go'
OUT_DIR = '/verif/lean/Algobra/Certs'
STRIDES = 32
CHUNK = 60000
TD_BOUND = 2 ** 32      # must equal Algobra.C04Check.tdBound
WORD = 2 ** 64


def read_entries():
    src = open(GO_FILE, encoding='utf-8').read()
    m = re.search(r'const\s+cpimport\s*=\s*`([^`]*)`', src)
    if not m:
        sys.exit('gen_certs: cannot find the cpimport constant in ' + GO_FILE)
    text = m.group(1)
    ents = []
    for line in text.split('\n'):
        mm = re.fullmatch(r'\s*\[(\d+),(\d+),\[([0-9,]*)\]\],?\s*', line)
        if mm:
            ents.append((int(mm.group(1)), int(mm.group(2)), [int(c) for c in mm.group(3).split(',')]))
    return ents


def chunks_of(lines):
    """join lines with \\n, cut into pieces of at most CHUNK bytes ending at line boundaries"""
    out, cur, size = [], [], 0
    for ln in lines:
        if size + len(ln) + 1 > CHUNK and cur:
            out.append(cur)
            cur, size = [], 0
        cur.append(ln)
        size += len(ln) + 1
    if cur:
        out.append(cur)
    return out


def lean_chunks(name, lines):
    cs = chunks_of(lines)
    s = []
    for i, c in enumerate(cs):
        body = ''.join(ln + '\\n' for ln in c)
        assert '"' not in body
        s.append('def %sChunk%d : String := "%s"\n' % (name, i, body))
    s.append('def %sChunks : List String := [%s]\n' % (name, ', '.join('%sChunk%d' % (name, i) for i in range(len(cs)))))
    return '\n'.join(s)


def rabin_max_deg():
    src = open(os.path.join(OUT_DIR, 'Checker.lean'), encoding='utf-8').read()
    m = re.search(r'def rabinMaxDeg : Nat := (\d+)', src)
    if not m:
        sys.exit('gen_certs: cannot find rabinMaxDeg in Certs/Checker.lean')
    return int(m.group(1))


def rabin_cert(p, n, cs):
    """for every prime r | n the inverse of x^(p^(n/r)) - x modulo f (coefficients low first)"""
    negf = np.array([(-c) % p for c in cs[:n]], dtype=np.int64)

    def mulmod(a, b):
        c = np.convolve(a, b) % p
        for i in range(2 * n - 2, n - 1, -1):
            if c[i]:
                c[i - n:i] = (c[i - n:i] + c[i] * negf) % p
        return c[:n].copy()

    one = np.zeros(n, dtype=np.int64)
    one[0] = 1
    x = np.zeros(n, dtype=np.int64)
    x[1] = 1
    # x^p by square and multiply
    xp = one
    for bit in bin(p)[2:]:
        xp = mulmod(xp, xp)
        if bit == '1':
            xp = mulmod(xp, x)
    # matrix of the Frobenius map y -> y^p (columns x^(i p))
    M = np.zeros((n, n), dtype=np.int64)
    col = one
    for i in range(n):
        M[:, i] = col
        col = mulmod(col, xp)
    need = {n // r: r for r in primefactors(n)}
    y = x
    out = []
    for k in range(1, n + 1):
        y = M.dot(y) % p
        if k in need:
            u = (y - x) % p
            uh = [int(t) for t in u[::-1]]
            while uh and uh[0] == 0:
                uh.pop(0)
            fh = [int(c) % p for c in cs[::-1]]
            s, t, h = gf_gcdex(uh, fh, p, ZZ)
            if h != [1]:
                sys.exit('gen_certs: entry (%d,%d) fails Rabin\'s test (gcd)' % (p, n))
            v = [int(c) % p for c in s[::-1]]
            v += [0] * (n - len(v))
            out.append((need[k], v))
    if not np.array_equal(y, x):
        sys.exit('gen_certs: entry (%d,%d) fails Rabin\'s test (x^(p^n) != x)' % (p, n))
    out.sort()
    return ' '.join('%d:%s' % (r, ','.join(map(str, v))) for r, v in out)


def main():
    ents = read_entries()
    print('entries:', len(ents))
    facs = {}
    primes = set()
    for i, (p, n, cs) in enumerate(ents):
        q = p ** n
        if q < WORD:
            f = factorint(q - 1)
            facs[i] = f
            primes |= set(f)
    # Pratt closure for the primes that are too large for trial division
    pratt = {}
    todo = [q for q in primes if q >= TD_BOUND]
    while todo:
        q = todo.pop()
        if q in pratt:
            continue
        f = factorint(q - 1)
        a = primitive_root(q)
        pratt[q] = (a, f)
        for r in f:
            if r not in primes:
                primes.add(r)
                if r >= TD_BOUND:
                    todo.append(r)
    table = sorted(primes)
    idx = {q: j for j, q in enumerate(table)}
    print('table primes:', len(table), 'pratt lines:', len(pratt))

    def pairs(f):
        return ' '.join('%d:%d' % (idx[r], k) for r, k in sorted(f.items()))

    tab_lines = []
    for q in table:
        if q < TD_BOUND:
            tab_lines.append(str(q))
        else:
            a, f = pratt[q]
            tab_lines.append(('%d %d %s' % (q, a, pairs(f))).strip())
    cert_lines = [pairs(facs[i]) if i in facs else '' for i in range(len(ents))]
    maxdeg = rabin_max_deg()
    rabin_lines = []
    nr = 0
    for i, (p, n, cs) in enumerate(ents):
        if i in facs or n > maxdeg:
            rabin_lines.append('')
        else:
            rabin_lines.append(rabin_cert(p, n, cs))
            nr += 1
    print('rabin certificates:', nr, '(degree <= %d)' % maxdeg)

    os.makedirs(OUT_DIR, exist_ok=True)
    with open(os.path.join(OUT_DIR, 'Data.lean'), 'w') as fh:
        fh.write('-- GENERATED by /verif/tools/gen_certs.py from finitefield/conway/cpimport.go — do not edit\n')
        fh.write('namespace Algobra.C04Check.Data\n\n')
        fh.write(lean_chunks('tab', tab_lines))
        fh.write('\n')
        fh.write(lean_chunks('cert', cert_lines))
        fh.write('\n')
        fh.write(lean_chunks('rabin', rabin_lines))
        fh.write('\nend Algobra.C04Check.Data\n')

    for k in range(STRIDES):
        with open(os.path.join(OUT_DIR, 'Sweep%02d.lean' % k), 'w') as fh:
            fh.write('-- GENERATED by /verif/tools/gen_certs.py — do not edit\n')
            fh.write('import Algobra.Certs.Inst\nnamespace Algobra.C04Check\n\n')
            fh.write('theorem sweep%02d : stride %d %d entryOKAtData db.length = true := by native_decide\n\n' % (k, STRIDES, k))
            fh.write('theorem look%02d : stride %d %d lookupOKAt db.length = true := by native_decide\n\n' % (k, STRIDES, k))
            fh.write('end Algobra.C04Check\n')

    with open(os.path.join(OUT_DIR, 'All.lean'), 'w') as fh:
        fh.write('-- GENERATED by /verif/tools/gen_certs.py — do not edit\n')
        for k in range(STRIDES):
            fh.write('import Algobra.Certs.Sweep%02d\n' % k)
        fh.write('import Algobra.Certs.TabCheck\n')
        fh.write('namespace Algobra.C04Check\n\n')
        fh.write('/-- number of parallel sweep modules -/\ndef strides : Nat := %d\n\n' % STRIDES)
        for nm, f in (('sweep', 'entryOKAtData'), ('look', 'lookupOKAt')):
            fh.write('theorem %s_all (k : Nat) (hk : k < strides) : stride strides k %s db.length = true := by\n' % (nm, f))
            fh.write('  match k, hk with\n')
            for k in range(STRIDES):
                fh.write('  | %d, _ => exact %s%02d\n' % (k, nm, k))
            fh.write('  | k + %d, h => exact absurd h (by simp [strides])\n\n' % STRIDES)
        fh.write('end Algobra.C04Check\n')
    print('wrote', OUT_DIR)


if __name__ == '__main__':
    main()
