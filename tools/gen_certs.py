#!/usr/bin/env python3-vt
"""
gen_certs.py — certificate generator for property C04 (Conway polynomial database).

HOW TO REGENERATE (do this whenever /repo/finitefield/conway/cpimport.go changes):

    python3-vt /verif/tools/gen_certs.py            # rewrites /verif/lean/Algobra/Certs/{Data,Sweep??,All}.lean
                                                    #   AND the thorough-tier files {BigData,Big??,BigAll}.lean
    cd /verif/lean && lake build Algobra.Props.C04  # re-checks everything against Gen/ConwayText.lean (default tier)
    cd /verif/lean && lake build Algobra.Props.C04Full   # thorough tier: the FULL statement C04_full (see below)

    python3-vt /verif/tools/gen_certs.py --big-only # only the thorough-tier files Certs/{BigData,Big??,BigAll}.lean (6 s)
    python3-vt /verif/tools/gen_certs.py --no-big   # only the default-tier files

(`Gen/ConwayText.lean` itself is regenerated from the same Go file by /verif/extract; this script
reads the Go file directly and never looks at the Lean copy.  The certificates are UNTRUSTED hints:
`Certs/Checker.lean` / `Certs/CheckerBig.lean` re-verify every one of them against the parsed `Gen.dbText`,
so a stale or wrong certificate can only make the build fail, never make a false theorem pass.)

THOROUGH TIER (Big modules) — irreducibility of the entries with p^n >= 2^64 and degree > rabinMaxDeg
  (at present 184 entries, degrees 129..409), which the default tier leaves open (`C04.db_irreducible_big_full`).
  Certs/BigData.lean  `bigModules` (= BIG_MODULES below) and one `(database index, module number, certificate)`
                      item per such entry; certificate text "0:mu r1:inv1 r2:inv2 ...": for every prime r | n the
                      inverse of x^(p^(n/r)) - x in F_p[x]/(f) as in rabinChunks, and the pseudo-item 0:mu with
                      mu = floor(x^(2n-2)/f), a pure speed hint for the Barrett reduction of the fast checker
                      (a wrong mu only makes the checker fall back to the slow multiplication)
  Certs/BigNN.lean    NN = 00..BIG_MODULES-1: `native_decide` evaluation of `bigSliceOf BigData.bigRaw NN`, i.e. of
                      the fast Rabin checker `rabinOKBig` (Certs/CheckerBig.lean, Kronecker substitution on GMP
                      numbers; kernel-checked soundness `rabinOKBig_sound` in Proofs/ConwayBig.lean) on the items
                      assigned to module NN.  Items are assigned by estimated cost (`big_cost`, longest first to the
                      least loaded module), not by count, so that `lake build` runs balanced modules in parallel.
  Certs/BigAll.lean   imports all BigNN; `big_all` (all slices), `big_cover` (`native_decide`: every entry with
                      p^n >= 2^64 and degree > rabinMaxDeg has an item with module number < bigModules) and the
                      non-vacuity witness `bigExample` / `big_example_ok`
  Props/C04Full.lean  (hand-written) `db_irreducible_big`, `C04_full`, `lookup_irreducible`.
  Nothing of this is imported by Props/C04.lean or the default build.  To change the number of modules edit
  BIG_MODULES and re-run with --big-only (stale BigNN.lean files are removed; Props/C04Full.lean needs no change).
  If rabinMaxDeg in Certs/Checker.lean is changed, re-run this script (both tiers read it); Props/C04Full.lean
  mentions the literal 128.
  Measured (16 cores, load average 1.7 at start): `lake build Algobra.Props.C04Full` with Props/C04 already built:
  30 s wall, 225 s user + 66 s system CPU (32 Big modules of 5..11 s each, 3 s of which is loading/parsing the database).

What is generated
  Certs/Data.lean     string chunks (<= 60 KB each, split at line boundaries)
                        tabChunks  : the prime table, one line per prime, ascending:
                                       "q"                      if q < 2^32  (checked by trial division)
                                       "q a j1:k1 j2:k2 ..."    otherwise: Pratt/Lucas line, a = primitive root
                                                                mod q, q-1 = prod (prime at line j_i)^k_i, j_i < own index
                        certChunks : one line per database entry, in database order:
                                       "j1:k1 j2:k2 ..."        p^n - 1 = prod (prime at table line j_i)^k_i
                                       ""                       if p^n >= 2^64 (no primitivity claim)
                        rabinChunks: one line per database entry, in database order:
                                       "r1:v0,v1,..,v(n-1) r2:..."  if p^n >= 2^64 and n <= rabinMaxDeg: for every prime
                                                                r | n the inverse v of x^(p^(n/r)) - x in F_p[x]/(f)
                                                                (Rabin's irreducibility test)
                                       ""                       otherwise
                      (rabinMaxDeg is read from Certs/Checker.lean)
  Certs/SweepNN.lean  NN = 00..STRIDES-1: `native_decide` evaluation of the checker on the entries with
                      index = NN mod STRIDES (so that `lake build` runs them in parallel)
  Certs/All.lean      imports all sweeps, collects them into one statement per checker

If the NUMBER of entries changes, also update the literal 35357 in Certs/TabCheck.lean (db_shape_ok) and
Props/C04.lean (db_shape); a changed entry, a new prime factor etc. needs nothing but re-running this script.
Measured: this script 15 s; clean `lake build Algobra.Props.C04` 34 CPU-minutes (about 2-3 min on 16 idle cores).

Hand-written, NOT touched by this script: Certs/Checker.lean (the checkers), Certs/Inst.lean (instantiation
with the data), Certs/TabCheck.lean (prime table check), Certs/CheckerBig.lean (fast Rabin checker, thorough tier).
"""
import os
import re
import sys

import numpy as np
from sympy import ZZ, factorint, primefactors, primitive_root
from sympy.polys.galoistools import gf_gcdex

GO_FILE = os.path.join(os.environ.get('VERIF_REPO', '/repo'), 'finitefield', 'conway', 'cpimport.go')
OUT_DIR = os.path.join(os.path.dirname(os.path.dirname(os.path.abspath(__file__))), 'lean', 'Algobra', 'Certs')
STRIDES = 32
BIG_MODULES = 32   # thorough tier: number of Certs/BigNN.lean modules
CHUNK = 60000
TD_BOUND = 2 ** 32      # must equal Algobra.C04Check.tdBound
WORD = 2 ** 64


def read_entries():
    src = open(GO_FILE, encoding='utf-8').read()
    m = re.search(r'const\s+cpimport\s*=\s*`([^`]*)`', src)
    if not m:
        sys.exit('gen_certs: cannot find the cpimport constant in ' + GO_FILE)
    text = m.group(1)
    ents = []
    for line in text.split('\n'):
        mm = re.fullmatch(r'\s*\[(\d+),(\d+),\[([0-9,]*)\]\],?\s*', line)
        if mm:
            ents.append((int(mm.group(1)), int(mm.group(2)), [int(c) for c in mm.group(3).split(',')]))
    return ents


def chunks_of(lines):
    """join lines with \\n, cut into pieces of at most CHUNK bytes ending at line boundaries"""
    out, cur, size = [], [], 0
    for ln in lines:
        if size + len(ln) + 1 > CHUNK and cur:
            out.append(cur)
            cur, size = [], 0
        cur.append(ln)
        size += len(ln) + 1
    if cur:
        out.append(cur)
    return out


def lean_chunks(name, lines):
    cs = chunks_of(lines)
    s = []
    for i, c in enumerate(cs):
        body = ''.join(ln + '\\n' for ln in c)
        assert '"' not in body
        s.append('def %sChunk%d : String := "%s"\n' % (name, i, body))
    s.append('def %sChunks : List String := [%s]\n' % (name, ', '.join('%sChunk%d' % (name, i) for i in range(len(cs)))))
    return '\n'.join(s)


def rabin_max_deg():
    src = open(os.path.join(OUT_DIR, 'Checker.lean'), encoding='utf-8').read()
    m = re.search(r'def rabinMaxDeg : Nat := (\d+)', src)
    if not m:
        sys.exit('gen_certs: cannot find rabinMaxDeg in Certs/Checker.lean')
    return int(m.group(1))


def barrett_mu(p, n, cs):
    """mu = floor(x^(2n-2) / f) over F_p, coefficients low first (n-1 of them); only a speed hint for
    Certs/CheckerBig.lean (quotient estimate in the modular reduction), soundness does not depend on it"""
    f = np.array([c % p for c in cs], dtype=np.int64)
    rem = np.zeros(2 * n - 1, dtype=np.int64)
    rem[2 * n - 2] = 1
    mu = [0] * (n - 1)
    for i in range(2 * n - 2, n - 1, -1):
        c = int(rem[i])
        mu[i - n] = c
        if c:
            rem[i - n:i + 1] = (rem[i - n:i + 1] - c * f) % p
    return mu


def rabin_cert(p, n, cs, with_mu=False):
    """for every prime r | n the inverse of x^(p^(n/r)) - x modulo f (coefficients low first);
    with_mu: additionally the pseudo-item 0:mu (see barrett_mu)"""
    negf = np.array([(-c) % p for c in cs[:n]], dtype=np.int64)

    def mulmod(a, b):
        c = np.convolve(a, b) % p
        for i in range(2 * n - 2, n - 1, -1):
            if c[i]:
                c[i - n:i] = (c[i - n:i] + c[i] * negf) % p
        return c[:n].copy()

    one = np.zeros(n, dtype=np.int64)
    one[0] = 1
    x = np.zeros(n, dtype=np.int64)
    x[1] = 1
    # x^p by square and multiply
    xp = one
    for bit in bin(p)[2:]:
        xp = mulmod(xp, xp)
        if bit == '1':
            xp = mulmod(xp, x)
    # matrix of the Frobenius map y -> y^p (columns x^(i p))
    M = np.zeros((n, n), dtype=np.int64)
    col = one
    for i in range(n):
        M[:, i] = col
        col = mulmod(col, xp)
    need = {n // r: r for r in primefactors(n)}
    y = x
    out = []
    for k in range(1, n + 1):
        y = M.dot(y) % p
        if k in need:
            u = (y - x) % p
            uh = [int(t) for t in u[::-1]]
            while uh and uh[0] == 0:
                uh.pop(0)
            fh = [int(c) % p for c in cs[::-1]]
            s, t, h = gf_gcdex(uh, fh, p, ZZ)
            if h != [1]:
                sys.exit('gen_certs: entry (%d,%d) fails Rabin\'s test (gcd)' % (p, n))
            v = [int(c) % p for c in s[::-1]]
            v += [0] * (n - len(v))
            out.append((need[k], v))
    if not np.array_equal(y, x):
        sys.exit('gen_certs: entry (%d,%d) fails Rabin\'s test (x^(p^n) != x)' % (p, n))
    out.sort()
    if with_mu:
        out.insert(0, (0, barrett_mu(p, n, cs)))
    return ' '.join('%d:%s' % (r, ','.join(map(str, v))) for r, v in out)


def write_if_changed(path, text):
    """do not touch files whose content is unchanged (keeps lake's traces valid)"""
    if os.path.exists(path) and open(path, encoding='utf-8').read() == text:
        return False
    with open(path, 'w', encoding='utf-8') as fh:
        fh.write(text)
    return True


def big_cost(p, n):
    """estimated evaluation cost of Certs/CheckerBig.rabinOKBig on an entry: n Frobenius steps, each a p-th
    power (bitlen(p)-1 squarings + popcount(p)-1 multiplications), each multiplication O(n) interpreted steps
    on numbers of about n*log2(n^2 p^3) bits"""
    mults = (p.bit_length() - 1) + (bin(p).count('1') - 1)
    bits = (n * n * p ** 3).bit_length() + 2
    return n * mults * n * (1.0 + n * bits / 20000.0)


def gen_big(ents):
    """thorough tier: Certs/BigData.lean, Certs/Big00..BigNN.lean, Certs/BigAll.lean"""
    maxdeg = rabin_max_deg()
    todo = [(i, p, n, cs) for i, (p, n, cs) in enumerate(ents) if p ** n >= WORD and n > maxdeg]
    print('big entries (p^n >= 2^64, degree > %d):' % maxdeg, len(todo))
    # longest-processing-time-first assignment to BIG_MODULES modules
    load = [0.0] * BIG_MODULES
    assign = {}
    for i, p, n, cs in sorted(todo, key=lambda t: -big_cost(t[1], t[2])):
        k = min(range(BIG_MODULES), key=lambda j: load[j])
        assign[i] = k
        load[k] += big_cost(p, n)
    if todo:
        print('big modules: %d, estimated load max/mean = %.3f' % (BIG_MODULES, max(load) / (sum(load) / BIG_MODULES)))
    out = ['-- GENERATED by /verif/tools/gen_certs.py from finitefield/conway/cpimport.go — do not edit',
           '-- (database index, Big module number, Rabin certificate "0:mu r1:inv1 r2:inv2 ..."); UNTRUSTED hints,',
           '-- re-verified by Certs/CheckerBig.lean',
           'namespace Algobra.C04Check.BigData', '',
           '/-- number of parallel Big modules -/', 'def bigModules : Nat := %d' % BIG_MODULES, '']
    for j, (i, p, n, cs) in enumerate(todo):
        cert = rabin_cert(p, n, cs, with_mu=True)
        assert '"' not in cert
        out.append('/-- entry (%d, %d) -/' % (p, n))
        out.append('def item%d : Nat × Nat × String := (%d, %d, "%s")' % (j, i, assign[i], cert))
    out.append('')
    out.append('def bigRaw : List (Nat × Nat × String) := [%s]' % ', '.join('item%d' % j for j in range(len(todo))))
    out.append('')
    out.append('end Algobra.C04Check.BigData')
    ch = write_if_changed(os.path.join(OUT_DIR, 'BigData.lean'), '\n'.join(out) + '\n')
    for k in range(BIG_MODULES):
        ents_k = ['(%d,%d)' % (p, n) for i, p, n, cs in todo if assign[i] == k]
        txt = ('-- GENERATED by /verif/tools/gen_certs.py — do not edit\n'
               'import Algobra.Certs.CheckerBig\nimport Algobra.Certs.BigData\nnamespace Algobra.C04Check\n\n'
               '-- entries: %s\n'
               'theorem big%02d : bigSliceOf BigData.bigRaw %d = true := by native_decide\n\n'
               'end Algobra.C04Check\n' % (' '.join(ents_k), k, k))
        ch |= write_if_changed(os.path.join(OUT_DIR, 'Big%02d.lean' % k), txt)
    # remove stale modules of an earlier run with more modules
    k = BIG_MODULES
    while os.path.exists(os.path.join(OUT_DIR, 'Big%02d.lean' % k)):
        os.remove(os.path.join(OUT_DIR, 'Big%02d.lean' % k))
        k += 1
    al = ['-- GENERATED by /verif/tools/gen_certs.py — do not edit']
    al += ['import Algobra.Certs.Big%02d' % k for k in range(BIG_MODULES)]
    al += ['namespace Algobra.C04Check', '',
           '/-- every entry with p^n ≥ 2^64 and degree > rabinMaxDeg has an item in a module < bigModules -/',
           'theorem big_cover : bigCoverOf BigData.bigRaw BigData.bigModules = true := by native_decide', '',
           'theorem big_all (k : Nat) (hk : k < BigData.bigModules) : bigSliceOf BigData.bigRaw k = true := by',
           '  match k, hk with']
    al += ['  | %d, _ => exact big%02d' % (k, k) for k in range(BIG_MODULES)]
    al += ['  | k + %d, h => exact absurd h (by simp [BigData.bigModules])' % BIG_MODULES, '']
    if todo:
        i, p, n, cs = max(todo, key=lambda t: t[2])
        al += ['/-- (index, p, n) of a database entry outside the scope of the default tier (non-vacuity witness) -/',
               'def bigExample : Nat × Nat × Nat := (%d, %d, %d)' % (i, p, n), '',
               'theorem big_example_ok : (match dbArr[bigExample.1]? with',
               '    | some e => (e.1 == bigExample.2.1) && (e.2.1 == bigExample.2.2) &&',
               '        decide (2 ^ 64 ≤ e.1 ^ e.2.1) && decide (rabinMaxDeg < e.2.1)',
               '    | none => false) = true := by native_decide', '']
    al += ['end Algobra.C04Check']
    ch |= write_if_changed(os.path.join(OUT_DIR, 'BigAll.lean'), '\n'.join(al) + '\n')
    print('wrote Big files to', OUT_DIR, '' if ch else '(unchanged)')


def main():
    args = sys.argv[1:]
    if any(a not in ('--big-only', '--no-big') for a in args):
        sys.exit('usage: gen_certs.py [--big-only | --no-big]')
    ents = read_entries()
    print('entries:', len(ents))
    if '--no-big' not in args:
        gen_big(ents)
    if '--big-only' not in args:
        gen_default(ents)


def gen_default(ents):
    """default tier: Certs/Data.lean, Certs/Sweep??.lean, Certs/All.lean"""
    facs = {}
    primes = set()
    for i, (p, n, cs) in enumerate(ents):
        q = p ** n
        if q < WORD:
            f = factorint(q - 1)
            facs[i] = f
            primes |= set(f)
    # Pratt closure for the primes that are too large for trial division
    pratt = {}
    todo = [q for q in primes if q >= TD_BOUND]
    while todo:
        q = todo.pop()
        if q in pratt:
            continue
        f = factorint(q - 1)
        a = primitive_root(q)
        pratt[q] = (a, f)
        for r in f:
            if r not in primes:
                primes.add(r)
                if r >= TD_BOUND:
                    todo.append(r)
    table = sorted(primes)
    idx = {q: j for j, q in enumerate(table)}
    print('table primes:', len(table), 'pratt lines:', len(pratt))

    def pairs(f):
        return ' '.join('%d:%d' % (idx[r], k) for r, k in sorted(f.items()))

    tab_lines = []
    for q in table:
        if q < TD_BOUND:
            tab_lines.append(str(q))
        else:
            a, f = pratt[q]
            tab_lines.append(('%d %d %s' % (q, a, pairs(f))).strip())
    cert_lines = [pairs(facs[i]) if i in facs else '' for i in range(len(ents))]
    maxdeg = rabin_max_deg()
    rabin_lines = []
    nr = 0
    for i, (p, n, cs) in enumerate(ents):
        if i in facs or n > maxdeg:
            rabin_lines.append('')
        else:
            rabin_lines.append(rabin_cert(p, n, cs))
            nr += 1
    print('rabin certificates:', nr, '(degree <= %d)' % maxdeg)

    os.makedirs(OUT_DIR, exist_ok=True)
    with open(os.path.join(OUT_DIR, 'Data.lean'), 'w') as fh:
        fh.write('-- GENERATED by /verif/tools/gen_certs.py from finitefield/conway/cpimport.go — do not edit\n')
        fh.write('namespace Algobra.C04Check.Data\n\n')
        fh.write('/-- number of entries of the database the certificates were generated for -/\ndef dbCount : Nat := %d\n\n' % len(ents))
        fh.write(lean_chunks('tab', tab_lines))
        fh.write('\n')
        fh.write(lean_chunks('cert', cert_lines))
        fh.write('\n')
        fh.write(lean_chunks('rabin', rabin_lines))
        fh.write('\nend Algobra.C04Check.Data\n')

    for k in range(STRIDES):
        with open(os.path.join(OUT_DIR, 'Sweep%02d.lean' % k), 'w') as fh:
            fh.write('-- GENERATED by /verif/tools/gen_certs.py — do not edit\n')
            fh.write('import Algobra.Certs.Inst\nnamespace Algobra.C04Check\n\n')
            fh.write('theorem sweep%02d : stride %d %d entryOKAtData db.length = true := by native_decide\n\n' % (k, STRIDES, k))
            fh.write('theorem look%02d : stride %d %d lookupOKAt db.length = true := by native_decide\n\n' % (k, STRIDES, k))
            fh.write('end Algobra.C04Check\n')

    with open(os.path.join(OUT_DIR, 'All.lean'), 'w') as fh:
        fh.write('-- GENERATED by /verif/tools/gen_certs.py — do not edit\n')
        for k in range(STRIDES):
            fh.write('import Algobra.Certs.Sweep%02d\n' % k)
        fh.write('import Algobra.Certs.TabCheck\n')
        fh.write('namespace Algobra.C04Check\n\n')
        fh.write('/-- number of parallel sweep modules -/\ndef strides : Nat := %d\n\n' % STRIDES)
        for nm, f in (('sweep', 'entryOKAtData'), ('look', 'lookupOKAt')):
            fh.write('theorem %s_all (k : Nat) (hk : k < strides) : stride strides k %s db.length = true := by\n' % (nm, f))
            fh.write('  match k, hk with\n')
            for k in range(STRIDES):
                fh.write('  | %d, _ => exact %s%02d\n' % (k, nm, k))
            fh.write('  | k + %d, h => exact absurd h (by simp [strides])\n\n' % STRIDES)
        fh.write('end Algobra.C04Check\n')
    print('wrote', OUT_DIR)


if __name__ == '__main__':
    main()
