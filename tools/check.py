#!/usr/bin/env python3
"""check.py Cxx quick|thorough   — decide one property on /repo's current working tree.
   check.py --replay <path>       — re-run a replay file on both sides and print the comparison.
Exit 0: every proof obligation discharged, axiom audit clean, model and code agree on everything explored.
Exit 1 + `VIOLATION property=<id> replay=<path>` otherwise."""
import json, os, re, sys, time, random, subprocess
sys.path.insert(0, os.path.dirname(os.path.abspath(__file__)))
import common
from common import *
import gen as G

ALLOWED_AXIOMS = {"propext", "Classical.choice", "Quot.sound"}
NATIVE_AXIOMS = {"Lean.ofReduceBool", "Lean.trustCompiler"}
# properties whose table-wide sweeps are allowed to use native_decide (stated in DESIGN.md §2)
NATIVE_OK = {"C04"}


# --------------------------------------------------------------------------------------------
# proof side

# property -> [(Props module, regex selecting the theorems of that module that belong to the property)]
PROP_MODULES = {
    "C01": [("C01Prime", r"add_spec|sub_spec|mul_spec|neg_spec|mul_no_overflow|element_spec|fromSigned|beq_iff|repr_unique|isZero_iff|isOne_iff|zero_one_repr|primeOps_lawful|primeLawful|primeOps_ofNat|primeOps_ofInt|primeOps_char_card"),
            ("C01Bin", r"^(?!.*(pow|inv|bitProd|bitQuoRem|trace)).*$"), ("C01Ext", r"^(?!.*(pow|inv|trace|log)).*$"), ("C01", r".*"),
            ("CodeTies", r"reduce_tie"), ("CodeTies2", r"prime_add|prime_sub|prime_prod|prime_setneg|prime_fromSigned|bin_add|bin_prod"), ("CodeTies7", r"^bin_|^prime_")],
    "C02": [("C01Prime", r"inv_|invLoop|pow|powLoop"), ("C01Bin", r"pow|inv|bitProd|bitQuoRem|trace"), ("C02", r".*"),
            ("C01Ext", r"pow|inv|trace"), ("CodeTies", r"bitProd_tie|bitQuoRem_tie"), ("CodeTies2", r"prime_inv"), ("CodeTies3", r".*"), ("CodeTies4", r"pow|trace")],
    "C04": [("C04", r".*"), ("C04Full", r".*")],
    "C05": [("C05", r".*"), ("CodeTies6", r".*"), ("CodeTies7", r"degrees|nTerms_tie|isMonomial")],
    "C08": [("C08", r".*"), ("CodeTies", r"addDegs_tie|subtractDegs_tie")],
    "C14": [("C14", r".*"), ("C14Full", r".*")],
    "C11": [("C11", r".*"), ("C11Full", r".*"), ("C11Full2", r".*")],
    "C12": [("C12", r".*"), ("C12Full", r".*")],
    "C13": [("C13", r".*"), ("C13Full", r".*"), ("C13Count", r".*")],
    "C09": [("C09", r".*"), ("CodeTies", r"swap_tie|lex_tie|lex_fun_tie|degCompare_tie|wdeglex_tie|wdegrevlex_tie|deglex_tie|degrevlex_tie")],
    "C19": [("C19", r".*"), ("CodeTies", r"boundSqrt_tie|boundLog2_tie|pow_tie|gcd_tie"), ("CodeTies2", r"fpp_"), ("CodeTies4", r"factorize"), ("CodeTies5", r"ombinIter")],
    "C03": [("C03", r".*"), ("C01", r"define_lawful|define_any_lawful|define_elements|elements_ext|descOK"), ("C01Prime", r"multGenerator|isGenerator"), ("GenTies", r"DefineConds|ffDefineCases"), ("CodeTies2", r"fpp_"), ("CodeTies5", r"multGenerator")],
    "C15": [("C15", r".*"), ("C15Full", r".*"), ("C15FullDefine", r".*_define$|.*fieldRoundTripB$|C15_full_bounded(_partial)?$"), ("GenTies", r"Pattern|Regex|XOrY|regex|VarName")],
    "C16": [("C16", r".*"), ("C16Static", r".*")],
    "C17": [("C17", r".*"), ("C17Names", r".*"), ("C17Extra", r".*"), ("C17ExtraU", r".*"), ("GenTies", r"kindNames"), ("C15", r"parse_total"), ("ErrTies", r".*"), ("ErrTies2", r".*")],
    "C18": [("C18", r".*"), ("C01Prime", r"lookup|computeTables|estimateMemory"), ("GenTies", r"MaxMem|EstimateMemory"),
            ("CodeTies", r"estimateMemory_tie"), ("C01Ext", r"log"), ("C18Tables", r".*"), ("C18Tables2", r".*"), ("C18Tables3", r".*"), ("C18Tables4", r".*"), ("C18Tables5", r".*"), ("CodeTies5", r"lookup|newTable")],
}


def theorems_of(pid):
    """obligations = theorems declared in the Props modules of the property; returns (names, modules)"""
    mods = PROP_MODULES.get(pid, [(pid, r".*")])
    names, used = [], []
    for mod, pat in mods:
        path = os.path.join(LEAN, "Algobra", "Props", mod + ".lean")
        if not os.path.exists(path):
            continue
        src = open(path).read()
        src_nc = re.sub(r"/-.*?-/", "", src, flags=re.S)
        src_nc = re.sub(r"--.*", "", src_nc)
        # track namespaces line by line (simple stack)
        stack = []
        for line in src_nc.splitlines():
            m = re.match(r"^namespace\s+(\S+)", line)
            if m:
                stack.append(m.group(1)); continue
            m = re.match(r"^end\s+(\S+)", line)
            if m and stack and stack[-1].split(".")[-1] == m.group(1).split(".")[-1]:
                stack.pop(); continue
            m = re.match(r"^\s*(?:@\[[^\]]*\]\s*)?(?:protected\s+)?theorem\s+([^\s:({\[]+)", line)
            if m and re.search(pat, m.group(1)):
                full = ".".join(stack + [m.group(1)]) if not m.group(1).startswith("_root_") else m.group(1)[7:]
                names.append(full)
        used.append(mod)
    return names, used


FORBIDDEN = re.compile(r"\bsorry\b|\badmit\b|^\s*axiom\s|\bimplemented_by\b|\bunsafe\s|maxHeartbeats\s+0\b|\bbv_decide\b", re.M)


def proof_side(pid, res, tier):
    """build the property module, audit axioms; returns dict for the evidence"""
    names, mods = theorems_of(pid)
    info = {"obligations": len(names), "discharged": 0, "theorems": names, "axioms": {}, "build_ok": False, "props_modules": mods}
    if not names:
        return info
    ok, out = lake_build(["Algobra.Props." + m for m in mods])
    info["build_ok"] = ok
    if not ok:
        errs = "\n".join(l for l in out.splitlines() if "error" in l.lower())[:3000]
        info["build_errors"] = errs
        return info
    # forbidden constructs in every file the property module (transitively) imports inside this package
    bad = []
    seen, todo = set(), ["Algobra.Props." + m for m in mods]
    while todo:
        mod = todo.pop()
        if mod in seen:
            continue
        seen.add(mod)
        fpath = os.path.join(LEAN, *mod.split(".")) + ".lean"
        if not os.path.exists(fpath):
            continue
        raw = open(fpath).read()
        todo += re.findall(r"^import\s+(Algobra\.\S+)", raw, flags=re.M)
        if ".Gen." in mod:
            continue
        txt = re.sub(r"/-.*?-/", "", raw, flags=re.S)
        txt = re.sub(r"--.*", "", txt)
        txt = re.sub(r'"(?:[^"\\]|\\.)*"', '""', txt)
        for m in FORBIDDEN.finditer(txt):
            bad.append("%s: %s" % (mod, m.group(0).strip()))
        # native_decide may occur only in C04's own modules (Props/C04, Certs/*); other properties may import them
        if re.search(r"\bnative_decide\b", txt) and not (mod in ("Algobra.Props.C04", "Algobra.Props.C04Full") or mod.startswith("Algobra.Certs.")):
            bad.append("%s: native_decide" % mod)
    info["modules"] = sorted(seen)
    info["forbidden"] = bad
    audit = os.path.join(BUILD, "Audit_%s.lean" % pid)
    with open(audit, "w") as f:
        for m in mods:
            f.write("import Algobra.Props.%s\n" % m)
        for n in names:
            f.write("#print axioms %s\n" % n)
    p = sh(["lake", "env", "lean", audit], cwd=LEAN, check=False, timeout=1800)
    cur = None
    txt = p.stdout
    for m in re.finditer(r"'(\S+)' (depends on axioms: \[([^\]]*)\]|does not depend on any axioms)", txt.replace("\n", " ")):
        ax = [a.strip() for a in (m.group(3) or "").split(",") if a.strip()]
        info["axioms"][m.group(1)] = ax
    for n in names:
        ax = info["axioms"].get(n)
        if ax is None:
            continue
        extra = set(ax) - ALLOWED_AXIOMS
        # the assembly corollaries "for every field Define returns over the real database" (Props/C01.lean)
        # import C04's table sweeps and inherit their native_decide axioms (DESIGN.md §2); nothing else may
        if pid in NATIVE_OK or n.startswith("Algobra.C01.") or n.startswith("Algobra.C04Full.") or n.endswith("_define") or n.endswith("fieldRoundTripB") or n.endswith("C15_full_bounded_partial") or n.endswith("C15_full_bounded") or n.endswith("C18Tables.define_ext_tables") or n.endswith("C18Tables.history_transparent_define_ext"):
            if any("._native.native_decide.ax_" in a for a in ax):
                info.setdefault("native_dependent", []).append(n)
            extra -= NATIVE_AXIOMS
            # Lean 4.33 records each native_decide as an axiom `<thm>._native.native_decide.ax_…`
            extra = {a for a in extra if "._native.native_decide.ax_" not in a}
        if not extra and "sorryAx" not in ax:
            info["discharged"] += 1
        else:
            info.setdefault("bad_axioms", {})[n] = sorted(extra)
    if tier == "thorough":
        p = sh(["lake", "env", "leanchecker"] + ["Algobra.Props." + m for m in mods], cwd=LEAN, check=False, timeout=3600)
        info["leanchecker_rc"] = p.returncode
        if p.returncode != 0:
            info["leanchecker_out"] = p.stdout[-1500:]
    return info


# --------------------------------------------------------------------------------------------
# correspondence side

def op_split(reply):
    return reply.split(" | ")


def first_diff(goline, moline):
    g, m = op_split(goline), op_split(moline)
    for i in range(max(len(g), len(m))):
        a = g[i] if i < len(g) else "<missing>"
        b = m[i] if i < len(m) else "<missing>"
        if a != b:
            return i, a, b
    return None


def shrink_hist(line, budget=60):
    """delta-debug a history line: drop ops while Go and model still disagree"""
    if not line.startswith("hist "):
        return line
    head, _, rest = line.partition(" | ")
    ops = [o.strip() for o in rest.split(" | ")]

    def wellformed(ops_):
        defined = set()
        for o in ops_:
            t = o.split()
            if not t:
                return False
            args = t[1:]
            dsts = []
            if "=" in t[0]:
                dsts = t[0].split("=")[0].split(",")
            for a in args:
                for r in a.split(","):
                    if re.fullmatch(r"[epqi]\d+", r) and r not in defined:
                        return False
            defined.update(dsts)
        return True

    def disagree(ops_):
        if not wellformed(ops_):
            return False
        l = head + " | " + " | ".join(ops_)
        g = run_go([l]); m = run_model([l])
        return g != m and "fuel-exhausted" not in m[0]

    # truncate after the first differing op
    l0 = head + " | " + " | ".join(ops)
    t_start = time.time()
    g = run_go([l0]); m = run_model([l0])
    if time.time() - t_start > 8 or g[0].startswith(("TIMEOUT", "CRASH")):
        return line     # a hanging or crashing case: every candidate would cost a time-out; report it as it is
    d = first_diff(g[0].split(" ## ")[0] if " ## " in g[0] and not head.endswith(" 1") else g[0],
                   m[0].split(" ## ")[0] if " ## " in m[0] and not head.endswith(" 1") else m[0])
    if d is not None and d[0] + 1 < len(ops) and disagree(ops[: d[0] + 1]):
        ops = ops[: d[0] + 1]
    i = len(ops) - 2
    while i >= 0 and budget > 0 and time.time() - t_start < 90:
        cand = ops[:i] + ops[i + 1:]
        budget -= 1
        if cand and disagree(cand):
            ops = cand
        i -= 1
    return head + " | " + " | ".join(ops)


def known_findings():
    path = os.path.join(VERIF, "known_findings.txt")
    out = []
    if os.path.exists(path):
        for l in open(path):
            l = l.strip()
            if l.startswith("finding:"):
                d = {}
                for part in l[len("finding:"):].split(" ;; "):
                    k, _, v = part.strip().partition("=")
                    d[k] = v
                if {"property", "id", "site", "witness", "expect", "what"} <= set(d):
                    d["pid"] = d["property"]
                    d["expect_re"] = re.compile(d["expect"])
                    out.append(d)
    return out


def last_reply(reply):
    body = reply.rpartition(" ## ")[0] if " ## " in reply else reply
    return body.split(" | ")[-1].split(" ## ")[0]


def replay_known(pid, res, kf):
    """replay every listed finding of this property on the implementation; still failing -> KNOWN-FINDING line"""
    mine = [k for k in kf if k["pid"] == pid]
    if not mine:
        return []
    outs = run_go([k["witness"] for k in mine], go_env={"VERIF_OP_TIMEOUT_MS": "20000", "GOMEMLIMIT": "2GiB"})
    still = []
    for k, o in zip(mine, outs):
        if not k["expect_re"].search(last_reply(o)):
            res.known.append("%s site=%s :: %s (witness reply: %s)" % (k["id"], k["site"], k["what"], last_reply(o)[:80]))
            still.append(k["id"])
    return still


def classify(pid, line, go, mo, kf):
    """a correspondence disagreement is excused only on the exact witness of a listed finding"""
    for k in kf:
        if k["pid"] == pid and k["witness"] == line:
            return k
    return None


def t3_postprocess(pid, lines, go, mo):
    """relational clauses: replace value comparison by a verified-checker verdict on the Go output"""
    extra_lines, owners = [], []
    for i, l in enumerate(lines):
        if l.startswith("shape ") and l.endswith(" gen") and not go[i].startswith(("PANIC", "TIMEOUT", "CRASH")):
            extra_lines.append("shape %s genorder %s" % (l.split()[1], go[i]))
            owners.append(i)
    if extra_lines:
        verdicts = run_model(extra_lines)
        for i, v in zip(owners, verdicts):
            # any primitive element is acceptable, not only the model's
            mo[i] = go[i] if v == "true" else mo[i] + " (checker: order of Go's generator is not q-1)"
    return go, mo


RELATIONAL = {"C11", "C12", "C13"}


def relational_verdict(line, go_reply, mo_reply):
    """C11 constrains a RELATION (any Groebner basis of the same ideal is acceptable). When the first differing reply of a
    history is that of `iK=groebner iJ`, the implementation's generator list is judged by the model's own proved decision
    procedures instead of by equality with the model's list: `isgroebner` on a fresh ideal made of the list (Buchberger's
    criterion, Props/C11Full/C12), every input generator reduces to zero modulo the list, every generator of the list
    reduces to zero modulo the model's basis of the input ideal. Returns True (a valid basis of the same ideal: the
    difference is no failing input), False (the property fails on this input) or None (not such a case / undecided)."""
    if not line.startswith("hist "):
        return None
    head, _, rest = line.partition(" | ")
    ops = [o.strip() for o in rest.split(" | ")]
    snap = head.endswith(" 1")
    g = go_reply.split(" ## ")[0] if (" ## " in go_reply and not snap) else go_reply
    m = mo_reply.split(" ## ")[0] if (" ## " in mo_reply and not snap) else mo_reply
    d = first_diff(g, m)
    if d is None or d[0] >= len(ops):
        return None
    mt = re.fullmatch(r"(i\d+)=groebner (i\d+)", ops[d[0]])
    if not mt:
        return None
    out_reply = d[1].split(" ## ")[0].strip()
    if not out_reply.startswith("ok "):
        return None
    out_gens = [x for x in out_reply[3:].strip().split("|") if x]
    h0 = head[:-2] + " 0" if snap else head
    pre = run_go([h0 + " | " + " | ".join(ops[: d[0]] + ["obs " + mt.group(2)])])[0]
    last = pre.split(" ## ")[0].split(" | ")[-1]
    mg = re.search(r"gens=(\S*)", last)
    if not mg:
        return None
    in_gens = [x for x in mg.group(1).split("|") if x]
    if not in_gens or not out_gens:
        return None
    chk, n = [], 0
    def poly(g_):
        nonlocal n
        r = "q%d" % n; n += 1
        chk.append("%s=map@0 %s" % (r, g_))
        return r
    ins = [poly(x) for x in in_gens]
    chk.append("i0=ideal@0 " + " ".join(ins))
    outs = [poly(x) for x in out_gens]
    chk.append("i1=ideal@0 " + " ".join(outs))
    chk.append("isgroebner i1")
    want_zero = []
    for x in in_gens:
        r = poly(x); chk.append("ireduce i1 %s" % r); want_zero.append(len(chk) - 1)
    chk.append("i2=groebner i0")
    for x in out_gens:
        r = poly(x); chk.append("ireduce i2 %s" % r); want_zero.append(len(chk) - 1)
    rep = run_model([h0 + " | " + " | ".join(chk)])[0]
    if "fuel-exhausted" in rep or rep.startswith(("CRASH", "SKIPPED", "bad-")):
        return None
    reps = rep.split(" ## ")[0].split(" | ")
    if len(reps) < len(chk):
        return None
    pred = reps[chk.index("isgroebner i1")].strip()
    if pred not in ("pred true", "pred false"):
        return None
    zeros = all(re.fullmatch(r"ok \d+#", reps[j].strip()) for j in want_zero)
    return pred == "pred true" and zeros


def correspondence(pid, tier, seed, res, lines_extra=None):
    rng = random.Random(seed * 1000003 + int(pid[1:]))
    genf = getattr(G, "gen_" + pid, None)
    lines = []
    # corpus first
    cpath = os.path.join(VERIF, "corpus", pid + ".txt")
    corpus = []
    if os.path.exists(cpath):
        corpus = [l.rstrip("\n") for l in open(cpath) if l.strip() and not l.startswith("#")]
    lines += corpus
    if genf:
        lines += genf(rng, tier)
    if pid in ("C05", "C08", "C16"):
        # the exported SetCoefPtr, called with a fresh copy of the element, must behave exactly like SetCoef: a third of the
        # generated `setcoef` operations go through it (protocol operation `setcoefp`, same model operation)
        lines = [re.sub(r"\| setcoef ", lambda m_: "| setcoefp " if rng.random() < 0.35 else "| setcoef ", l) if l.startswith("hist ") else l for l in lines]
    n_exh = 0
    if tier == "thorough" and pid in getattr(G, "EXHAUSTIVE", {}):
        ex = G.EXHAUSTIVE[pid](rng)
        n_exh = len(ex)
        lines += ex
    if lines_extra:
        lines += lines_extra
    t0 = time.time()
    # both sides are time-capped; a capped case is inconclusive, never a value
    op_ms = {"C11": 5000, "C12": 5000, "C13": 8000}.get(pid, 30000) * (6 if tier == "thorough" else 1)
    if pid == "C19" and tier == "thorough":
        op_ms = 400000      # a full trial division of a 64-bit prime takes minutes in the model (boxed big numbers)
    os.environ["VERIF_STALL_S"] = str(op_ms // 1000 + 3)
    # Groebner computations and full trial divisions legitimately reach the cap; elsewhere three capped cases per
    # chunk end the chunk (each is reported; the rest would only cost the cap again and again)
    os.environ["VERIF_MAX_SLOW"] = "1000000" if pid in ("C11", "C12", "C13", "C19") else "3"
    go, mo = run_both(lines, go_env={"VERIF_OP_TIMEOUT_MS": str(op_ms)})
    go, mo = t3_postprocess(pid, lines, go, mo)
    kf = known_findings()
    dis, inconclusive, kinds = [], 0, {}
    rel, rel_budget = [], 60
    known_hit = {}
    for i, l in enumerate(lines):
        kind = l.split()[0] + ((" " + l.split()[1]) if l.split()[0] in ("aux", "define", "shape") else "")
        kinds[kind] = kinds.get(kind, 0) + 1
        if go[i] == mo[i]:
            continue
        if "fuel-exhausted" in mo[i] or mo[i].startswith(("CRASH", "SKIPPED")) or go[i].startswith("SKIPPED") or (pid in ("C11", "C12", "C13") and go[i].startswith("TIMEOUT")):
            inconclusive += 1
            continue
        k = classify(pid, l, go[i], mo[i], kf)
        if k:
            known_hit.setdefault(k["id"], (k, l, go[i]))
            continue
        if pid in RELATIONAL and rel_budget > 0 and "=groebner " in l:
            rel_budget -= 1
            try:
                v = relational_verdict(l, go[i], mo[i])
            except Exception:
                v = None
            if v is True:
                rel.append(i)
                continue
        dis.append(i)
    still = replay_known(pid, res, kf)
    # distinct non-trivial: distinct case lines whose reply is not a bare parse failure
    distinct = len({l for i, l in enumerate(lines) if not mo[i].startswith("bad-")})
    nops = sum(l.count(" | ") if l.startswith("hist") else 1 for l in lines)
    reported = 0
    for i in dis[:5]:
        l = lines[i]
        try:
            s = shrink_hist(l) if tier else l
        except Exception as e:  # shrinking is best effort
            s = l
        g = run_go([s])[0]; m = run_model([s])[0]
        d = first_diff(g, m)
        txt = "property: %s\nkind: correspondence (model vs implementation) disagreement\nseed: %d\ncase: %s\n" % (pid, seed, s)
        txt += "implementation: %s\nmodel (proved value): %s\n" % (g, m)
        if d:
            txt += "first differing operation #%d:\n  implementation: %s\n  model:          %s\n" % d
        txt += "original case: %s\n" % l
        tail = ""
        if g == m:
            tail = "no-failing-input-found"
            txt += "note: shrunk case no longer disagrees; original kept\n"
        res.violation(txt, tail)
        reported += 1
    if rel and not dis:
        # the correspondence on generator lists no longer checks, but on every differing case the implementation's list is
        # a Groebner basis of the same ideal by the model's proved decision procedures: no input on which the property fails
        i = rel[0]
        txt = "property: %s\nkind: correspondence (model vs implementation) no longer checks — relational clause\nseed: %d\n" % (pid, seed)
        txt += "what: GroebnerBasis returns another generator list than the model on %d of the cases of this run; on each of them the implementation's list was judged by the model's proved decision procedures (isgroebner on a fresh ideal, mutual reduction to zero) to be a Groebner basis of the SAME ideal, so none of them is an input on which the property fails\n" % len(rel)
        txt += "first such case: %s\nimplementation: %s\nmodel: %s\n" % (lines[i], go[i][:1500], mo[i][:1500])
        res.violation(txt, "no-failing-input-found")
    # input distribution of this run: which operations, over which kinds of field, how long, and what came back
    import collections
    op_hist, reply_hist, field_hist, lens = collections.Counter(), collections.Counter(), collections.Counter(), []
    for i, l in enumerate(lines):
        if not l.startswith("hist "):
            continue
        head, _, rest = l.partition(" | ")
        field_hist[head.split()[1].split(",")[0].split(":")[0] if len(head.split()) > 1 else "?"] += 1
        ops_ = [o.strip() for o in rest.split(" | ")]
        lens.append(len(ops_))
        body = go[i].rpartition(" ## ")[0] if (" ## " in go[i] and not head.endswith(" 1")) else go[i]
        reps = body.split(" | ")
        for j, o in enumerate(ops_):
            t0_ = o.split()[0] if o.split() else "?"
            name = t0_.split("=")[1] if "=" in t0_ else t0_
            op_hist[name.split("@")[0]] += 1
            if j < len(reps):
                r = reps[j].split(" ## ")[0].split()
                if r:
                    k = r[0]
                    if k == "err" and len(r) > 1:
                        k = "err " + r[1]
                    elif k in ("ok", "recv", "other") and len(r) > 1 and "!" in r[1]:
                        k = k + " !" + r[1].split("!")[-1]      # a result that carries an error status
                    reply_hist[k] += 1
    lens.sort()
    distribution = {
        "operations_by_name": dict(op_hist.most_common(40)),
        "replies_by_kind": dict(reply_hist.most_common(40)),
        "histories_by_field_kind": dict(field_hist),
        "history_length_min_median_max": ([lens[0], lens[len(lens) // 2], lens[-1]] if lens else []),
    }
    cov = {
        "input_distribution": distribution,
        "evaluations": len(lines), "operations": nops, "distinct_nontrivial": distinct,
        "rule": "case lines generated by tools/gen.py:gen_%s from VERIF_SEED plus corpus/%s.txt; a case is non-trivial if the model accepts it (not a malformed line); distinct = distinct case lines" % (pid, pid),
        "case_kinds": kinds, "corpus_cases": len(corpus), "bounded_exhaustive_cases": n_exh, "disagreements": len(dis), "inconclusive_fuel_or_timeout": inconclusive,
        "relational_differences_valid_basis": len(rel),
        "known_findings_still_failing": still,
        "samples": [{"case": lines[i][:600], "implementation": go[i][:300], "model": mo[i][:300]} for i in
                    ([0, len(lines) // 2, len(lines) - 1] if lines else [])],
        "correspondence_wall_s": round(time.time() - t0, 2),
    }
    return cov


# --------------------------------------------------------------------------------------------

def regen_certs_if_db_changed():
    """C04's certificates (factorisations, Pratt lines, Rabin witnesses) are untrusted hints generated from the
    database; when the database file differs from the one they were generated for, regenerate them first, so
    that a harmless change of the data (another valid polynomial, a corrected entry) is re-proved instead of
    reported. A certificate that cannot be produced or does not check leaves the theorem broken."""
    import hashlib
    dbfile = os.path.join(REPO, "finitefield", "conway", "cpimport.go")
    shafile = os.path.join(LEAN, "Algobra", "Certs", "db.sha256")
    try:
        cur = hashlib.sha256(open(dbfile, "rb").read()).hexdigest()
    except Exception:
        return
    old = open(shafile).read().strip() if os.path.exists(shafile) else ""
    if cur == old:
        return
    if not old:
        # first run: the committed certificates belong to the committed Gen/ConwayText.lean
        base = subprocess.run(["git", "-C", VERIF, "diff", "--quiet", "HEAD", "--", "lean/Algobra/Gen/ConwayText.lean"])
        if base.returncode == 0:
            open(shafile, "w").write(cur + "\n")
            return
    p = subprocess.run(["python3-vt", os.path.join(VERIF, "tools", "gen_certs.py")], capture_output=True, text=True,
                       env=dict(os.environ, VERIF_REPO=REPO), timeout=1800)
    log("gen_certs.py: rc=%d %s" % (p.returncode, (p.stdout + p.stderr)[-300:].replace("\n", " ")))
    if p.returncode == 0:
        open(shafile, "w").write(cur + "\n")


def load_manifest_note(pid):
    return ""


def main():
    if len(sys.argv) >= 3 and sys.argv[1] == "--replay":
        return replay(sys.argv[2])
    pid = sys.argv[1]
    tier = sys.argv[2] if len(sys.argv) > 2 else os.environ.get("VERIF_TIER", "quick")
    seed = int(os.environ.get("VERIF_SEED", "1"))
    res = Result(pid, tier, seed)
    try:
        regenerate()
        build_harness()
    except Exception as e:
        res.violation("property: %s\nkind: build failure of the verification harness against the working tree\n%s\n" % (pid, e),
                      "no-failing-input-found")
        return res.finish("proof", {"obligations": 1, "discharged": 0, "checker_cmd": "lake build", "trusted_base": [],
                                    "explanation": "harness/extractor build failed"}, [])
    drv_ok, drv_out = lake_build(["algobra_model"])
    regen_certs_if_db_changed()     # C01–C04 import the certificates; a sha comparison when nothing changed
    pinfo = proof_side(pid, res, tier)
    import props
    extra = props.EXTRA.get(pid)
    if drv_ok:
        cov = correspondence(pid, tier, seed, res)
        if extra:
            extra(res, tier, seed, cov)
    else:
        cov = {"evaluations": 0, "distinct_nontrivial": 0, "samples": [], "note": "model driver did not build"}
        errs = "\n".join(l for l in drv_out.splitlines() if "error" in l.lower())[:3000]
        res.violation("property: %s\nkind: the regenerated model no longer builds (a Gen/*.lean datum changed shape, or the model is broken)\n%s\n" % (pid, errs),
                      "no-failing-input-found")
    # broken proof obligations
    if pinfo["theorems"]:
        missing = [n for n in pinfo["theorems"] if n not in pinfo["axioms"]]
        badax = pinfo.get("bad_axioms", {})
        if not pinfo["build_ok"] or missing or badax or pinfo.get("forbidden") or pinfo.get("leanchecker_rc", 0) != 0:
            txt = "property: %s\nkind: broken proof obligation\n" % pid
            if not pinfo["build_ok"]:
                txt += "lake build of %s failed:\n%s\n" % (pinfo.get("props_modules"), pinfo.get("build_errors", ""))
            if missing:
                txt += "theorems without axiom report: %s\n" % missing
            if badax:
                txt += "theorems depending on non-whitelisted axioms: %s\n" % badax
            if pinfo.get("forbidden"):
                txt += "forbidden constructs: %s\n" % pinfo["forbidden"]
            if pinfo.get("leanchecker_rc", 0) != 0:
                txt += "leanchecker failed: %s\n" % pinfo.get("leanchecker_out", "")
            # search: did the correspondence already exhibit a failing input? property-specific searches
            if pid == "C04" and not res.violations:
                try:
                    props.search_C04(res)
                except Exception as e:
                    txt += "search error: %s\n" % e
            tail = "" if res.violations else "no-failing-input-found"
            txt += "search: %s\n" % ("see the correspondence replays of this run" if res.violations else
                                     "correspondence run of this tier found no input on which implementation and model differ")
            res.violation(txt, tail)
    axioms_used = sorted({a for ax in pinfo["axioms"].values() for a in ax})
    coverage = dict(cov)
    coverage.update({
        "obligations": max(1, pinfo["obligations"]), "discharged": pinfo["discharged"],
        "checker_cmd": "cd /verif/lean && lake build %s && lake env lean ../build/Audit_%s.lean%s" % (
            " ".join("Algobra.Props." + m for m in pinfo.get("props_modules", [pid])), pid,
            " && lake env leanchecker <those modules>" if tier == "thorough" else ""),
        "trusted_base": ["Lean 4.33.0 kernel", "axioms used by the theorems of Props/%s.lean: %s" % (pid, axioms_used or "none"),
                         "extractor /verif/extract (regenerates Gen/*.lean from /repo)",
                         "correspondence harness /verif/harness + driver + tools/*.py (differential testing, sampled)",
                         "Go toolchain, regexp/strconv/strings/sort as documented"],
        "theorems": pinfo["theorems"], "axioms_per_theorem": pinfo["axioms"],
        "theorems_depending_on_native_decide": pinfo.get("native_dependent", []),
    })
    if coverage["discharged"] == 0:
        # the schema wants discharged >= 1 for a proof-level record; a run with nothing discharged is
        # reported through the generic counters (and as a VIOLATION above), never as discharged
        coverage["discharged_count"] = coverage.pop("discharged")
    notes = props.NOTES.get(pid, [])
    return res.finish("proof", coverage, notes)


def replay(path):
    txt = open(path).read()
    cases = re.findall(r"^(?:case|original case): (.*)$", txt, flags=re.M)
    regenerate(); build_harness(); lake_build(["algobra_model"])
    rc = 0
    for c in cases:
        g = run_go([c])[0]; m = run_model([c])[0]
        print("case:", c); print(" implementation:", g); print(" model:         ", m)
        if g != m:
            rc = 1
            print(" DIFFERENT", first_diff(g, m))
    return rc


if __name__ == "__main__":
    sys.exit(main())
