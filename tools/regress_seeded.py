#!/usr/bin/env python3
"""regress_seeded.py [-j N] [seed ids...] — are all seeded changes still reported?

A measuring instrument (never registered in MANIFEST.json, never touches /repo's working tree or /verif's evidence):
N workers, each with its own scratch worktree of /repo (/tmp/rg/wt_i, at /repo's HEAD) and its own scratch copy of /verif
(/tmp/rg/verif_i, rsync of the working tree incl. build output). For every seeded/<id>: apply patch.diff in the worktree,
run the quick checks named in meta.json ("checks") with VERIF_REPO=<worktree> until one prints VIOLATION, undo the patch.
Output: one line per seed and a summary; exit 1 if a seed is not reported by any of its checks.
The registered verdicts (seeded/<id>/result.json) are made with tools/run_seeded.py against /repo itself.
"""
import json, os, subprocess, sys, threading, queue, shutil

VERIF = os.path.dirname(os.path.dirname(os.path.abspath(__file__)))
RG = "/tmp/rg"
ENV = dict(os.environ, GOFLAGS="-mod=mod", GOPROXY="off", GOSUMDB="off", GOTOOLCHAIN="local", VERIF_SEED="1")


def sh(cmd, cwd=None, env=None, timeout=None):
    try:
        p = subprocess.run(cmd, cwd=cwd, capture_output=True, text=True, env=env or ENV, timeout=timeout)
        return p.returncode, p.stdout + p.stderr
    except subprocess.TimeoutExpired:
        return -9, "TIMEOUT"


def worker(i, q, out):
    wt = os.path.join(RG, "wt_%d" % i)
    sv = os.path.join(RG, "verif_%d" % i)
    if not os.path.exists(wt):
        subprocess.check_call(["git", "-C", "/repo", "worktree", "add", "-q", "--detach", wt, "HEAD"])
    subprocess.check_call(["rsync", "-a", "--delete", "--exclude", ".git", "--exclude", "replays", "--exclude", "evidence",
                           "--exclude", "mutation", "--exclude", "seeded", VERIF + "/", sv + "/"])
    os.makedirs(os.path.join(sv, "replays"), exist_ok=True)
    os.makedirs(os.path.join(sv, "evidence"), exist_ok=True)
    env = dict(ENV, VERIF_REPO=wt)
    while True:
        try:
            sid = q.get_nowait()
        except queue.Empty:
            break
        d = os.path.join(VERIF, "seeded", sid)
        meta = json.load(open(os.path.join(d, "meta.json")))
        checks = meta.get("checks") or [meta.get("breaks_property")]
        sh(["git", "-C", wt, "checkout", "-q", "--", "."]); sh(["git", "-C", wt, "clean", "-fdq"])
        rc, o = sh(["git", "-C", wt, "apply", os.path.join(d, "patch.diff")])
        if rc != 0:
            out[sid] = ("patch-does-not-apply", "")
            continue
        verdict = ("MISSED", "")
        for c in checks:
            rc, o = sh([sys.executable, "tools/check.py", c, "quick"], cwd=sv, env=env, timeout=2400)
            v = [l for l in o.splitlines() if l.startswith("VIOLATION")]
            if v or rc == -9:
                verdict = ("reported by %s%s" % (c, "" if v else " (time limit)"), v[0] if v else "")
                if v and all("no-failing-input-found" in l for l in v):
                    verdict = ("reported by %s without a failing input" % c, v[0])
                break
        out[sid] = verdict
        print("%-10s %s" % (sid, verdict[0]), flush=True)
    sh(["git", "-C", wt, "checkout", "-q", "--", "."]); sh(["git", "-C", wt, "clean", "-fdq"])


def main():
    args = sys.argv[1:]
    n = 6
    if args[:1] == ["-j"]:
        n = int(args[1]); args = args[2:]
    ids = args or sorted(x for x in os.listdir(os.path.join(VERIF, "seeded")) if os.path.exists(os.path.join(VERIF, "seeded", x, "meta.json")))
    os.makedirs(RG, exist_ok=True)
    q = queue.Queue()
    for s in ids:
        q.put(s)
    out = {}
    ts = [threading.Thread(target=worker, args=(i, q, out)) for i in range(n)]
    for t in ts:
        t.start()
    for t in ts:
        t.join()
    missed = [s for s in ids if out.get(s, ("MISSED",))[0] in ("MISSED", "patch-does-not-apply")]
    noinput = [s for s in ids if "without a failing input" in out.get(s, ("",))[0]]
    print("seeds: %d  reported: %d  of these without a failing input: %d  missed: %s" % (len(ids), len(ids) - len(missed), len(noinput), missed))
    json.dump({k: v[0] for k, v in out.items()}, open(os.path.join(RG, "regress.json"), "w"), indent=1)
    # clean up the scratch worktrees and copies
    for i in range(n):
        sh(["git", "-C", "/repo", "worktree", "remove", "--force", os.path.join(RG, "wt_%d" % i)])
        shutil.rmtree(os.path.join(RG, "verif_%d" % i), ignore_errors=True)
    return 1 if missed else 0


if __name__ == "__main__":
    sys.exit(main())
