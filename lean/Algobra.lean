import Algobra.Model.Word
import Algobra.Model.Errors
import Algobra.Model.Auxmath
