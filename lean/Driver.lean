/-
  Driver.lean — line-protocol interpreter over the model (`lean_exe algobra_model`).
  One case per input line, one reply line per case. CORE LEAN ONLY.
-/
import Algobra.Model.Hist
import Algobra.Model.Extra
import Algobra.Model.Names
open Algobra

def showExcept {β} (f : β → String) : Except Kind β → String
  | .ok v => "ok " ++ f v
  | .error k => "err " ++ toString k

def natsStr (l : List Nat) : String := ",".intercalate (l.map toString)

/-! ### descriptors -/

def parseFieldDesc (s : String) : Option FieldDesc :=
  match s.splitOn ":" with
  | ["P", p] => some (.prime p.toNat!)
  | ["B", n, m] => some (.bin n.toNat! m.toNat!)
  | ["B", n, m, _] => some (.bin n.toNat! m.toNat!)
  | ["E", p, n, g] => some (.ext p.toNat! n.toNat! ((g.splitOn ".").map String.toNat!))
  | _ => none

def showFieldDesc : FieldDesc → String
  | .prime p => "P:" ++ toString p
  | .bin n m => "B:" ++ toString n ++ ":" ++ toString m
  | .ext p n g => "E:" ++ toString p ++ ":" ++ toString n ++ ":" ++ ".".intercalate (g.map toString)

def parseOrder (s : String) : Option Order :=
  match s.splitOn "." with
  | ["lex", x] => some ⟨.lex, x == "1"⟩
  | ["deglex", x] => some ⟨.wdeglex 1 1, x == "1"⟩
  | ["degrevlex", x] => some ⟨.wdegrevlex 1 1, x == "1"⟩
  | ["wdeglex", a, b, x] => some ⟨.wdeglex a.toNat! b.toNat!, x == "1"⟩
  | ["wdegrevlex", a, b, x] => some ⟨.wdegrevlex a.toNat! b.toNat!, x == "1"⟩
  | _ => none

/-! ### op parsing -/

def regNum (s : String) : Nat := (s.drop 1).toString.toNat!
def regNums (s : String) : List Nat := if s == "-" || s == "" then [] else (s.splitOn ",").map regNum
def parseDeg (s : String) : Deg := match s.splitOn ":" with
  | [x, y] => (x.toNat!, y.toNat!)
  | _ => (0, 0)
def atIdx (s : String) : Nat := ((s.splitOn "@").getD 1 "0").toNat!

def parseOp (line : String) : Op :=
  let toks := (line.trimAscii.toString.splitOn " ").filter (· != "")
  match toks with
  | [] => .bad line
  | t0 :: args =>
    if t0.contains '=' then
      -- value-returning: dst=op[@idx] args
      match t0.splitOn "=" with
      | [dstS, opAt] =>
        let op := (opAt.splitOn "@").getD 0 ""
        let idx := atIdx opAt
        let k := dstS.get 0
        let dsts := regNums dstS
        let dst := dsts.headD 0
        let a0 := args.getD 0 ""; let a1 := args.getD 1 ""; let a2 := args.getD 2 ""
        if op == "quorem" then
          (if k == 'p' then .uQuoRem dsts (regNum a0) ((args.drop 1).map regNum)
           else .bQuoRem dsts (regNum a0) ((args.drop 1).map regNum))
        else if op == "gens" then .iGens dsts (regNum a0)
        else if k == 'e' then
          if ["u", "s", "enc", "str", "zero", "one", "gen", "foreign"].contains op then .eCtor dst idx op a0
          else if ["plus", "minus", "times"].contains op && a0.get 0 == 'e' then .eBin dst op (regNum a0) (regNum a1)
          else if ["neg", "inv", "copy", "trace"].contains op then .eUn dst op (regNum a0)
          else if op == "pow" then .ePow dst (regNum a0) a1.toNat!
          else if op == "eval" then
            (if a0.get 0 == 'p' then .uEval dst (regNum a0) (regNum a1)
             else .bEval dst (regNum a0) (regNum a1) (regNum a2))
          else if op == "coef" then
            (if a0.get 0 == 'p' then .uCoef dst (regNum a0) a1.toNat! else .bCoef dst (regNum a0) (parseDeg a1))
          else if op == "lc" then (if a0.get 0 == 'p' then .uLc dst (regNum a0) else .bLc dst (regNum a0))
          else .bad line
        else if k == 'p' then
          if ["coefs", "nats", "ints", "str", "zero", "one", "regs", "ideal"].contains op then .uCtor dst idx op (if a0 == "" then "-" else a0)
          else if ["plus", "minus", "times"].contains op then .uBin dst op (regNum a0) (regNum a1)
          else if ["neg", "normalize", "copy", "lt"].contains op then .uUn dst op (regNum a0)
          else if op == "scale" then .uScale dst (regNum a0) (regNum a1)
          else if op == "pow" then .uPow dst (regNum a0) a1.toNat!
          else if op == "gcd" then .uGcd dst (args.map regNum)
          else if op == "interp" then .uInterp dst idx (regNums a0) (regNums a1)
          else .bad line
        else if k == 'q' then
          if ["map", "nats", "ints", "str", "zero", "regs", "embed"].contains op then .bCtor dst idx op a0
          else if ["plus", "minus", "times"].contains op then .bBin dst op (regNum a0) (regNum a1)
          else if ["neg", "normalize", "copy", "lt"].contains op then .bUn dst op (regNum a0)
          else if op == "scale" then .bScale dst (regNum a0) (regNum a1)
          else if op == "pow" then .bPow dst (regNum a0) a1.toNat!
          else if op == "rem" then .bRem dst (regNum a0) ((args.drop 1).map regNum)
          else if op == "interp" then .bInterp dst idx (regNums a0) (regNums a1) (regNums a2)
          else .bad line
        else if k == 'i' then
          if op == "ideal" then .iNew dst idx (args.map regNum)
          else if op == "icopy" then .iCopy dst (regNum a0)
          else if op == "groebner" then .iGroebner dst (regNum a0)
          else .bad line
        else .bad line
      | _ => .bad line
    else
      let op := (t0.splitOn "@").getD 0 ""
      let a0 := args.getD 0 ""; let a1 := args.getD 1 ""; let a2 := args.getD 2 ""
      let k := if a0.isEmpty then ' ' else a0.get 0
      if op == "tables" then
        .tables (atIdx t0) (a0 == "1") (a1 == "1") (if a2 == "-" || a2 == "" then none else some a2.toNat!)
      else if k == 'e' then
        if ["add", "sub", "mult"].contains op then .eIn op (regNum a0) (regNum a1)
        else if op == "prod" then .eProd (regNum a0) (regNum a1) (regNum a2)
        else if op == "setneg" then .eSetNeg (regNum a0)
        else if op == "setu" then .eSetU (regNum a0) a1.toNat!
        else if op == "eq" then .eEq (regNum a0) (regNum a1)
        else if op == "show" then .eShow (regNum a0)
        else .bad line
      else if k == 'p' then
        if ["add", "sub", "mult"].contains op then .uIn op (regNum a0) (regNum a1)
        else if op == "setneg" then .uSetNeg (regNum a0)
        else if op == "setscale" then .uSetScale (regNum a0) (regNum a1)
        else if op == "setcoef" || op == "setcoefp" then .uSetCoef "set" (regNum a0) a1.toNat! (regNum a2)
        else if op == "inc" then .uSetCoef "inc" (regNum a0) a1.toNat! (regNum a2)
        else if op == "dec" then .uSetCoef "dec" (regNum a0) a1.toNat! (regNum a2)
        else if op == "setzero" then .uSetZero (regNum a0)
        else if op == "embed" then .uEmbed (regNum a0) (atIdx a1) (a2 == "1")
        else if op == "eq" then .uEq (regNum a0) (regNum a1)
        else if op == "obs" then .uObs (regNum a0)
        else .bad line
      else if k == 'q' then
        if ["add", "sub", "mult"].contains op then .bIn op (regNum a0) (regNum a1)
        else if op == "setscale" then .bSetScale (regNum a0) (regNum a1)
        else if op == "setcoef" || op == "setcoefp" then .bSetCoef "set" (regNum a0) (parseDeg a1) (regNum a2)
        else if op == "inc" then .bSetCoef "inc" (regNum a0) (parseDeg a1) (regNum a2)
        else if op == "dec" then .bSetCoef "dec" (regNum a0) (parseDeg a1) (regNum a2)
        else if op == "eq" then .bEq (regNum a0) (regNum a1)
        else if op == "obs" then .bObs (regNum a0)
        else .bad line
      else if k == 'i' then
        if op == "isgroebner" then .iPred "groebner" (regNum a0)
        else if op == "isminimal" then .iPred "minimal" (regNum a0)
        else if op == "isreduced" then .iPred "reduced" (regNum a0)
        else if op == "minimize" then .iXform "minimize" (regNum a0)
        else if op == "reducebasis" then .iXform "reduce" (regNum a0)
        else if op == "quotient" then .iXform "quotient" (regNum a0)
        else if op == "obs" then .iObs (regNum a0)
        else .bad line
      else .bad line

/-! ### histories -/

/-- `hist <fielddesc> <U:var:gens> <B:order:vx:vy:gens> <snap 0|1> | op | op …` -/
def runHist {α : Type} (desc : FieldDesc) (F : FOps α) (uSpec bSpec : String) (snap : Bool)
    (ops : List String) (more : List (FOps α) := []) : String :=
  -- univariate rings
  let uParts := uSpec.splitOn ":"
  let uVar := unhex (uParts.getD 1 "58")
  let uBase : UPoly.Ring α := { F := F, varName := uVar, modulus := none }
  let uGensS := uParts.getD 2 "-"
  let uGens2S := uParts.getD 3 "-"      -- optional second modulus: ring 3 = another quotient of the same ring
  let env0 : Env α := { fld := fun _ => F, uring := fun _ => uBase,
                        bring := fun _ => { F := F, ord := ⟨.lex, true⟩, varNames := ("X", "Y"), ideal := none } }
  let uMod : Option (Option (UPoly α)) :=
    if uGensS == "-" then some none
    else match (uGensS.splitOn ";").mapM (decU env0) with
      | some gens => (UPoly.newIdeal F gens).map some
      | none => none
  let uMod2 : Option (Option (UPoly α)) :=
    if uGens2S == "-" then some none
    else match (uGens2S.splitOn ";").mapM (decU env0) with
      | some gens => (UPoly.newIdeal F gens).map some
      | none => none
  -- bivariate rings
  let bParts := bSpec.splitOn ":"
  let ord := (parseOrder (bParts.getD 1 "lex.1")).getD ⟨.lex, true⟩
  let vx := unhex (bParts.getD 2 "58"); let vy := unhex (bParts.getD 3 "59")
  let bBase : BPoly.Ring α := { F := F, ord := ord, varNames := (vx, vy), ideal := none }
  let bGensS := if bParts.length > 4 then ":".intercalate (bParts.drop 4) else "-"
  let bIdeal : Option (Option (List (BPoly α))) :=
    if bGensS == "-" then some none
    else match (bGensS.splitOn ";").mapM (decB env0) with
      | some gens =>
        let gens := gens.map fun m => (BPoly.ofMap bBase m).getD []
        (BPoly.quotientGens F ord { gens := gens.filter (!·.isEmpty) }).map some
      | none => none
  match uMod, uMod2, bIdeal with
  | some um, some um2, some bi =>
    let env : Env α := {
      -- field objects 1, 2, … : further descriptors of the header if given, else twins of field 0
      fld := fun i => if i == 0 then F else more.getD (i - 1) F,
      uring := fun i => if i == 1 then { uBase with modulus := um } else if i == 3 then { uBase with modulus := um2 } else uBase,
      bring := fun i => if i == 1 then { bBase with ideal := bi } else bBase }
    -- The operations below are not an `Op` of `step`; their semantics are the named functions of
    -- Model/Extra.lean (theorems: Props/C17Extra.lean). Here only the line is taken apart.
    -- `escr@f`; `quotient@1 iN`; `quotient@2 iN`; `uquot@k j:<gens>`; `eN=any…@f arg`
    let stepD := fun (st : St α) (line : String) =>
      if line.startsWith "escr@" then escrOp env st (atIdx line)
      else if line.startsWith "quotient@1 " then quotient1Op env st (regNum ((line.splitOn " ").getD 1 ""))
      else if line.startsWith "quotient@2 " then
        match parseOp ("quotient " ++ ((line.splitOn " ").getD 1 "")) with
        | .iXform "quotient" n => quotient2Op env desc st n
        | _ => (st, "bad-op")
      else if line.startsWith "uquot@" then
        let k := atIdx ((line.splitOn " ").getD 0 "")
        let arg := (line.splitOn " ").getD 1 ""
        let j := ((arg.splitOn ":").getD 0 "0").toNat!
        if !(uRingExists env k && uRingExists env j) then (st, "bad-op")
        else
          match (((arg.splitOn ":").getD 1 "").splitOn ";").mapM (decU env0) with
          | none => (st, "bad-op")
          | some gens => uquotOp env st k j gens
      else
        let toks := (line.trimAscii.toString.splitOn " ").filter (· != "")
        match (toks.headD "").splitOn "=" with
        | [dstS, opAt] =>
          let op := (opAt.splitOn "@").getD 0 ""
          if op.startsWith "any" then anyOp env desc st (regNum dstS) (atIdx opAt) op (toks.getD 1 "")
          else step env desc st (parseOp line)
        | _ => step env desc st (parseOp line)
    -- `tcheck@f`; `uireduce j:<gens> pK`; `ireduce iN qK`; `qK=spoly qA qB`;
    -- `quotient iN` followed by `qK=embed@3 qJ:r`: the ring made by the last successful `quotient` operation is used
    -- (embedding with or without reduction); the generators `Quotient` stores for it travel with the store.
    let stepQ := fun (stq : St α × Option (List (BPoly α))) (line : String) =>
      let (st, lastQ) := stq
      let toks := (line.trimAscii.toString.splitOn " ").filter (· != "")
      let keep := fun (r : St α × String) => ((r.1, lastQ), r.2)
      if line.startsWith "tcheck@" then keep (tcheckOp env st (atIdx line))
      else if line.startsWith "uireduce " then
        let arg := toks.getD 1 ""
        let j := ((arg.splitOn ":").getD 0 "0").toNat!
        let k := regNum (toks.getD 2 "")
        match (((arg.splitOn ":").getD 1 "").splitOn ";").mapM (decU env0) with
        | none => ((st, lastQ), "bad-op")
        | some gens => keep (uireduceOp env st j gens k)
      else if line.startsWith "ireduce " then
        keep (ireduceOp env st (regNum (toks.getD 1 "")) (regNum (toks.getD 2 "")))
      else if (toks.headD "").endsWith "=spoly" then
        keep (spolyOp env st (regNum (((toks.headD "").splitOn "=").getD 0 "")) (regNum (toks.getD 1 "")) (regNum (toks.getD 2 "")))
      else if line.startsWith "quotient " then
        match parseOp line with
        | .iXform "quotient" n => quotientOp env desc (st, lastQ) n
        | op => keep (step env desc st op)
      else if (toks.headD "").contains '=' && (((toks.headD "").splitOn "=").getD 1 "") == "embed@3" then
        match lastQ, (toks.getD 1 "").splitOn ":" with
        | some gs, [srcS, redS] =>
          keep (embedQOp env st gs (regNum (((toks.headD "").splitOn "=").getD 0 "")) (regNum srcS) (redS == "1"))
        | _, _ => ((st, lastQ), "bad-op")
      else keep (stepD st line)
    let (_, outs) := ops.foldl (fun (stq, outs) line =>
      let (stq', r) := stepQ stq line
      (stq', outs ++ [if snap then r ++ " ## " ++ snapshot env stq'.1 else r])) ((({} : St α), none), [])
    let final := (ops.foldl (fun stq line => (stepQ stq line).1) ((({} : St α), none))).1
    " | ".intercalate outs ++ (if snap then "" else " ## " ++ snapshot env final)
  | _, _, _ => "fuel-exhausted (ring specification: ideal computation gave up or malformed generators)"

def runHistLine (toks : List String) (rest : String) : String :=
  match toks with
  | [fd, uSpec, bSpec, snapS] =>
    let ops := (rest.splitOn "|").map (·.trimAscii.toString) |>.filter (· != "")
    -- `P:7,P:11`: several prime fields (field objects 0, 1, …) of different characteristic
    let fds := fd.splitOn ","
    let extraPrimes := (fds.drop 1).filterMap fun d => match parseFieldDesc d with
      | some (.prime q) => some (primeOps q)
      | _ => none
    match parseFieldDesc (fds.headD "") with
    | some (.prime p) => runHist (.prime p) (primeOps p) uSpec bSpec (snapS == "1") ops extraPrimes
    | some (.bin n m) =>
      -- optional fourth component: the variable name given to binfield.SetVarName (hex)
      let var := match (fds.headD "").splitOn ":" with
        | [_, _, _, v] => unhex v
        | _ => "a"
      -- `B:3:11,B:4:19`: further binary fields (of other degrees) as field objects 1, 2, …
      let extraBins := (fds.drop 1).filterMap fun d => match parseFieldDesc d with
        | some (.bin n' m') => some (binOps n' m')
        | _ => none
      runHist (.bin n m) (binOps n m var) uSpec bSpec (snapS == "1") ops extraBins
    | some (.ext p n g) =>
      let extraExts := (fds.drop 1).filterMap fun d => match parseFieldDesc d with
        | some (.ext p' n' g') => some (extOps p' n' g')
        | _ => none
      runHist (.ext p n g) (extOps p n g) uSpec bSpec (snapS == "1") ops extraExts
    | none => "bad-field"
  | _ => "bad-hist-header"

/-! ### single-function queries -/

def runAux : List String → String
  | ["pow", a, n] => showExcept toString (Auxmath.pow a.toNat! n.toNat!)
  | ["gcd", a, b] => toString (Auxmath.gcd a.toNat! b.toNat!)
  | ["bsqrt", a] => toString (Auxmath.boundSqrt a.toNat!)
  | ["blog2", a] => toString (Auxmath.boundLog2 a.toNat!)
  | ["fpp", q] => showExcept (fun (p, n) => toString p ++ " " ++ toString n) (Auxmath.factorizePrimePower q.toNat!)
  | ["fact", n] => " ".intercalate ((Auxmath.factorize 64 n.toNat!).map fun (p, e) => toString p ++ "^" ++ toString e)
  | ["combin", n, k] => ";".intercalate ((Auxmath.combinations n.toNat! k.toNat!).map natsStr)
  | _ => "bad-op"

def runDefine (db : String) : List String → String
  | [which, q] =>
    let r := if which == "any" then Define.any db q.toNat!
      else if which == "prime" then Define.prime q.toNat!
      else if which == "bin" then Define.bin db q.toNat!
      else Define.ext db q.toNat!
    showExcept (fun d => showFieldDesc d ++ " card=" ++ toString d.card ++ " char=" ++ toString d.char) r
  | _ => "bad-op"

def runOrder : List String → String
  | [o, a0, a1, b0, b1] =>
    match parseOrder o with
    | some ord => toString (ord.cmp (a0.toNat!, a1.toNat!) (b0.toNat!, b1.toNat!))
    | none => "bad-order"
  | _ => "bad-op"

/-- field shape queries on small fields: generator, enumeration -/
def runShape {α : Type} (F : FOps α) : List String → String
  | ["gen"] => F.enc F.gen
  | ["genorder", g] =>
    -- T3 checker: is the multiplicative order of `g` exactly card-1?  (brute force over prime factors)
    match F.dec g with
    | none => "bad-elem"
    | some x =>
      let n := F.card - 1
      let fs := (Auxmath.factorize 64 n).map (·.1)
      -- the generator must be a canonical element too: it must be the representative that arithmetic produces
      -- (`x·1`) and its wire form must be the canonical one (C01: every result is canonical, so that Equal,
      -- printing and table look-ups agree)
      let canonical := F.enc (F.mul x F.one) == g && F.enc x == g
      toString (canonical && !F.isZero x && F.isOne (F.pow x n) && fs.all fun r => !F.isOne (F.pow x (n / r)))
  | ["elements"] =>
    -- 0, g^0, g^1, … as the code enumerates (binfield / extfield) or 0..p-1 (primefield); sorted encodings
    let gen := F.gen
    let l := (List.range (F.card - 1)).foldl (fun (acc, e) _ => (acc ++ [F.enc e], F.mul e gen)) ([F.enc F.zero], F.one)
    " ".intercalate (l.1.toArray.qsort (· < ·)).toList
  | _ => "bad-op"

/-- `setvar u|b|bin <hex name>[,<hex name>] …`: a sequence of setter calls on one fresh ring / field; replies of
    the calls, the names the object has at the end, and a printed sample -/
def hexOf (s : String) : String :=
  if s.isEmpty then "EMPTY" else
  String.ofList (s.toList.flatMap fun c =>
    let n := c.toNat
    let d := fun k => if k < 10 then Char.ofNat (48 + k) else Char.ofNat (87 + k)
    [d (n / 16), d (n % 16)])

def runSetVar : List String → String
  | "u" :: names =>
    let (v, outs) := names.foldl (fun (v, outs) h =>
      let (v', r) := Names.setVarName v (unhex h)
      (v', outs ++ [showExcept (fun _ => "") r])) ("X", [])
    let F := primeOps 7
    " ".intercalate (outs.map (·.trimAscii.toString)) ++ " ; " ++ hexOf v ++ " ; " ++ hexOf (UPoly.toStr F v [1, 0, 3])
  | "bin" :: names =>
    let (v, outs) := names.foldl (fun (v, outs) h =>
      let (v', r) := Names.binSetVarName v (unhex h)
      (v', outs ++ [showExcept (fun _ => "") r])) ("a", [])
    " ".intercalate (outs.map (·.trimAscii.toString)) ++ " ; " ++ hexOf v ++ " ; " ++ hexOf (Bin.toStr v 3 6)
  | "b" :: pairs =>
    let (v, outs) := pairs.foldl (fun (v, outs) h =>
      let ps := h.splitOn ","
      let (v', r) := Names.setVarNames v (unhex (ps.getD 0 ""), unhex (ps.getD 1 ""))
      (v', outs ++ [showExcept (fun _ => "") r])) (("X", "Y"), [])
    let F := primeOps 7
    let R : BPoly.Ring Nat := { F := F, ord := ⟨.lex, true⟩, varNames := v, ideal := none }
    " ".intercalate (outs.map (·.trimAscii.toString)) ++ " ; " ++ hexOf v.1 ++ "," ++ hexOf v.2 ++ " ; " ++
      hexOf (BPoly.toStr R [((2, 1), 3), ((0, 1), 1), ((0, 0), 5)])
  | _ => "bad-op"

def handle (line : String) : String :=
  let line := line.trimAscii.toString
  let (head, rest) := match line.splitOn " | " with
    | h :: t => (h, " | ".intercalate t)
    | [] => ("", "")
  let toks := (head.splitOn " ").filter (· != "")
  match toks with
  | "aux" :: t => runAux t
  | "define" :: t => runDefine Gen.dbText t
  | ["conway", p, n] => showExcept natsStr (Conway.lookupIn Gen.dbText p.toNat! n.toNat!)
  | "conwayseq" :: t =>
    let rec go : List String → List String
      | p :: n :: rest => showExcept natsStr (Conway.lookupIn Gen.dbText p.toNat! n.toNat!) :: go rest
      | _ => []
    " ; ".intercalate (go t)
  | ["conwayin", hex, p, n] => showExcept natsStr (Conway.lookupIn (unhex hex) p.toNat! n.toNat!)
  | "order" :: t => runOrder t
  | "setvar" :: t => runSetVar t
  | "shape" :: fd :: t =>
    (match parseFieldDesc fd with
    | some (.prime p) => runShape (primeOps p) t
    | some (.bin n m) => runShape (binOps n m) t
    | some (.ext p n g) => runShape (extOps p n g) t
    | none => "bad-field")
  | "hist" :: t => runHistLine t rest
  | _ => "bad-op"

partial def loop (h : IO.FS.Stream) (out : IO.FS.Stream) : IO Unit := do
  let line ← h.getLine
  if line.isEmpty then return ()
  out.putStrLn (handle line)
  out.flush      -- one reply per line, visible at once: the orchestrator's watchdog may end the process
  loop h out

def main : IO Unit := do
  let stdin ← IO.getStdin
  let stdout ← IO.getStdout
  loop stdin stdout
