/-
  Proofs/BPolyDiv.lean — the multivariate division algorithm of /repo/bivariate/arithmetic.go
  (`quoRemWithIgnore`, `QuoRem`, `Rem`; model `BPoly.quoRemLoop`, `quoRem`, `rem`) returns a standard
  representation (property C10).
-/
import Algobra.Proofs.BPolyRefine
import Algobra.Proofs.Order

namespace Algobra
namespace BPoly

open AddMonoidAlgebra (single)
open Algobra.Order

variable {α : Type} {F : FOps α} {K : Type} [Field K]

/-! ### `firstDiv` : the divisor search -/

theorem firstDiv_some {o : Order} {pLd : Deg} {ignore : Option Nat} :
    ∀ (gs : List (BPoly α)) (k : Nat) {i : Nat} {g : BPoly α} {dd : Deg},
      firstDiv o pLd ignore gs k = some (i, g, dd) →
      k ≤ i ∧ gs[i - k]? = some g ∧ ignore ≠ some i ∧ subDegs pLd (ld o g) = some dd := by
  intro gs
  induction gs with
  | nil => intro k i g dd h; simp [firstDiv] at h
  | cons g0 gs ih =>
    intro k i g dd h
    have hrec : firstDiv o pLd ignore gs (k + 1) = some (i, g, dd) →
        k ≤ i ∧ (g0 :: gs)[i - k]? = some g ∧ ignore ≠ some i ∧
          subDegs pLd (ld o g) = some dd := by
      intro h'
      obtain ⟨h1, h2, h3, h4⟩ := ih (k + 1) h'
      refine ⟨by omega, ?_, h3, h4⟩
      have : i - k = (i - (k + 1)) + 1 := by omega
      rw [this, List.getElem?_cons_succ]; exact h2
    rw [firstDiv] at h
    by_cases hig : (ignore == some k) = true
    · rw [if_pos hig] at h; exact hrec h
    · rw [if_neg hig] at h
      cases hs : subDegs pLd (ld o g0) with
      | none => rw [hs] at h; exact hrec h
      | some dd' =>
        rw [hs] at h
        simp only [Option.some.injEq, Prod.mk.injEq] at h
        obtain ⟨rfl, rfl, rfl⟩ := h
        refine ⟨le_refl _, by simp, ?_, hs⟩
        intro he; exact hig (by simp [he])

theorem firstDiv_none {o : Order} {pLd : Deg} {ignore : Option Nat} :
    ∀ (gs : List (BPoly α)) (k : Nat), firstDiv o pLd ignore gs k = none →
      ∀ (j : Nat) (g : BPoly α), gs[j]? = some g → ignore ≠ some (k + j) →
        subDegs pLd (ld o g) = none := by
  intro gs
  induction gs with
  | nil => intro k _ j g hj; simp at hj
  | cons g0 gs ih =>
    intro k h j g hj hig
    rw [firstDiv] at h
    cases j with
    | zero =>
      simp only [List.getElem?_cons_zero, Option.some.injEq] at hj
      subst hj
      have hig' : ¬ (ignore == some k) = true := by
        intro he; exact hig (by simpa using he)
      rw [if_neg hig'] at h
      cases hs : subDegs pLd (ld o g0) with
      | none => rfl
      | some dd' => rw [hs] at h; cases h
    | succ j =>
      rw [List.getElem?_cons_succ] at hj
      have hrec : firstDiv o pLd ignore gs (k + 1) = none := by
        by_cases hig' : (ignore == some k) = true
        · rw [if_pos hig'] at h; exact h
        · rw [if_neg hig'] at h
          cases hs : subDegs pLd (ld o g0) with
          | none => rw [hs] at h; exact h
          | some dd' => rw [hs] at h; cases h
      exact ih (k + 1) hrec j g hj (by rw [show k + 1 + j = k + (j + 1) by omega]; exact hig)

/-! ### the combination `Σ qᵢ gᵢ` -/

/-- `Σ_i qs_i * gs_i` in `K[X,Y]` -/
noncomputable def dot (L : Lawful F K) (qs gs : List (BPoly α)) : AddMonoidAlgebra K (ℕ × ℕ) :=
  (List.zipWith (fun q g => toMv L q * toMv L g) qs gs).sum

@[simp] theorem dot_nil_left (L : Lawful F K) (gs : List (BPoly α)) : dot L [] gs = 0 := by
  simp [dot]

@[simp] theorem dot_nil_right (L : Lawful F K) (qs : List (BPoly α)) : dot L qs [] = 0 := by
  simp [dot]

theorem dot_cons (L : Lawful F K) (q g : BPoly α) (qs gs : List (BPoly α)) :
    dot L (q :: qs) (g :: gs) = toMv L q * toMv L g + dot L qs gs := by
  simp [dot]

theorem dot_set (L : Lawful F K) :
    ∀ (qs gs : List (BPoly α)) (i : Nat) (g q' : BPoly α), i < qs.length → gs[i]? = some g →
      dot L (qs.set i q') gs
        = dot L qs gs + (toMv L q' - toMv L (qs.getD i [])) * toMv L g := by
  intro qs
  induction qs with
  | nil => intro gs i g q' hi; simp at hi
  | cons q qs ih =>
    intro gs i g q' hi hg
    cases gs with
    | nil => simp at hg
    | cons g0 gs =>
      cases i with
      | zero =>
        simp only [List.getElem?_cons_zero, Option.some.injEq] at hg
        subst hg
        simp only [List.set_cons_zero, dot_cons, List.getD_cons_zero]
        ring
      | succ i =>
        rw [List.getElem?_cons_succ] at hg
        simp only [List.length_cons, Nat.add_lt_add_iff_right] at hi
        simp only [List.set_cons_succ, dot_cons, List.getD_cons_succ]
        rw [ih gs i g q' hi hg]
        ring

theorem dot_replicate_nil (L : Lawful F K) (gs : List (BPoly α)) :
    dot L (gs.map fun _ => ([] : BPoly α)) gs = 0 := by
  induction gs with
  | nil => simp
  | cons g gs ih => rw [List.map_cons, dot_cons, ih]; simp

/-! ### `lcQuot` -/

variable (L : Lawful F K)

theorem lcQuot_valid {p g : BPoly α} (hp : CV L p) (hg : CV L g) (o : Order) :
    L.valid (lcQuot F o p g) := by
  unfold lcQuot
  have hlp := lc_valid L hp o
  have hlg := lc_valid L hg o
  simp only
  split
  · exact L.mul_valid _ _ hlp hlg
  · by_cases h0 : L.embed (lc F o g) = 0
    · rw [L.inv_none _ hlg h0]; exact L.zero_valid
    · obtain ⟨i, e1, e2, _⟩ := L.inv_some _ hlg h0
      rw [e1]; exact L.mul_valid _ _ hlp e2

theorem lcQuot_embed {p g : BPoly α} (hp : CV L p) (hg : CV L g) (o : Order)
    (h0 : L.embed (lc F o g) ≠ 0) :
    L.embed (lcQuot F o p g) = L.embed (lc F o p) / L.embed (lc F o g) := by
  unfold lcQuot
  have hlp := lc_valid L hp o
  have hlg := lc_valid L hg o
  simp only
  split
  · next h1 =>
    rw [L.embed_mul _ _ hlp hlg, (L.isOne_iff _ hlg).1 h1, mul_one, div_one]
  · obtain ⟨i, e1, e2, e3⟩ := L.inv_some _ hlg h0
    rw [e1]
    simp only
    rw [L.embed_mul _ _ hlp e2, e3, div_eq_mul_inv]

/-! ### the no-wrap-around guard of a run -/

/-- shifting `g` by `dd` leaves all exponents (and their weighted degrees) inside the machine word -/
def ShiftNO (o : Order) (g : BPoly α) (dd : Deg) : Prop :=
  ∀ d ∈ keys g, NoOverflow o (d.1 + dd.1, d.2 + dd.2)

theorem ShiftNO.shiftOK {o : Order} {g : BPoly α} {dd : Deg} (h : ShiftNO o g dd) :
    ShiftOK g dd := fun dc hdc =>
  have := h dc.1 (List.mem_map_of_mem hdc)
  ⟨this.1, this.2.1⟩

/-- "no exponent wraps around during the run": mirrors `quoRemLoop` on the dividend; at every
    division step (by `g`, shift `dd`) the shifted exponents of `g` do not overflow. -/
def RunOK (F : FOps α) (o : Order) (ignore : Option Nat) (gs : List (BPoly α)) :
    Nat → BPoly α → Prop
  | 0, _ => True
  | fuel + 1, p =>
    if p.isEmpty then True
    else match firstDiv o (ld o p) ignore gs 0 with
      | some (_, g, dd) =>
        ShiftNO o g dd ∧ RunOK F o ignore gs fuel (subShiftScale F p g dd (lcQuot F o p g))
      | none => RunOK F o ignore gs fuel (erase p (ld o p))

/-- degree invariant of the quotients: every term `t` of `qs_j` satisfies `t·lm(gs_j) ≤ m`
    (and the product `t·gs_j` has no exponent overflow) -/
def QOK (o : Order) (gs : List (BPoly α)) (m : Deg) (qs : List (BPoly α)) : Prop :=
  ∀ (j : Nat) (q g : BPoly α), qs[j]? = some q → gs[j]? = some g → ∀ t ∈ keys q,
    ShiftNO o g t ∧ o.cmp ((ld o g).1 + t.1, (ld o g).2 + t.2) m ≤ 0

theorem QOK_init (o : Order) (gs : List (BPoly α)) (m : Deg) :
    QOK o gs m (gs.map fun _ => ([] : BPoly α)) := by
  intro j q g hq _ t ht
  rw [List.getElem?_map] at hq
  cases hg : gs[j]? with
  | none => rw [hg] at hq; cases hq
  | some g' => rw [hg] at hq; cases hq; cases ht

/-- the leading exponent of a nonzero polynomial is one of its exponents -/
theorem ld_mem_keys {o : Order} (hadm : Admissible o) {p : BPoly α} (hne : p ≠ [])
    (hno : ∀ d ∈ keys p, NoOverflow o d) : ld o p ∈ keys p :=
  ld_mem o p hne (fun d hd => cmp_zero_le' o hadm d (hno d hd))

/-! ### keys after one step -/

theorem getD_of_lt {β : Type} (l : List β) (i : Nat) (a : β) (h : i < l.length) : l.getD i a = l[i] := by
  rw [List.getD_eq_getElem?_getD, List.getElem?_eq_getElem h, Option.getD_some]

theorem mem_keys_incCoef {f : BPoly α} {d e : Deg} {v : α} (h : e ∈ keys (incCoef F f d v)) :
    e ∈ keys f ∨ e = d :=
  KeysIn_incCoef (P := fun e => e ∈ keys f ∨ e = d) (fun _ h => Or.inl h) (Or.inr rfl) v e h

theorem mem_keys_subShiftScale {f g : BPoly α} {i e : Deg} {a : α} (hs : ShiftOK g i)
    (h : e ∈ keys (subShiftScale F f g i a)) :
    e ∈ keys f ∨ ∃ d ∈ keys g, e = (d.1 + i.1, d.2 + i.2) := by
  refine KeysIn_subShiftScale (P := fun e => e ∈ keys f ∨ ∃ d ∈ keys g, e = (d.1 + i.1, d.2 + i.2))
    i a (fun _ h => Or.inl h) ?_ e h
  intro d hd
  obtain ⟨dc, hdc, rfl⟩ := List.mem_map.1 hd
  have := hs dc hdc
  rw [w64_of_lt this.1, w64_of_lt this.2]
  exact Or.inr ⟨dc.1, hd, rfl⟩

/-! ### the main invariant -/

theorem quoRemLoop_spec {o : Order} (hadm : Admissible o) {ignore : Option Nat}
    {gs : List (BPoly α)} (hgs : ∀ g ∈ gs, CV L g) (m : Deg) :
    ∀ (fuel : Nat) (p : BPoly α) (qs : List (BPoly α)) (r : BPoly α)
      {qs' : List (BPoly α)} {r' : BPoly α},
      WF L p → (∀ d ∈ keys p, NoOverflow o d ∧ o.cmp d m ≤ 0) →
      (∀ q ∈ qs, WF L q) → WF L r → qs.length = gs.length → QOK o gs m qs →
      RunOK F o ignore gs fuel p →
      quoRemLoop F o ignore gs fuel p qs r = some (qs', r') →
      (∀ q ∈ qs', WF L q) ∧ WF L r' ∧ qs'.length = gs.length ∧
      toMv L p + dot L qs gs + toMv L r = dot L qs' gs + toMv L r' ∧
      (∀ d ∈ keys r', d ∈ keys r ∨ (NoOverflow o d ∧ o.cmp d m ≤ 0 ∧
          ∀ j g, gs[j]? = some g → ignore ≠ some j → subDegs d (ld o g) = none)) ∧
      QOK o gs m qs' := by
  have T := cmp_isTot o
  intro fuel
  induction fuel with
  | zero => intro p qs r qs' r' _ _ _ _ _ _ _ h; simp [quoRemLoop] at h
  | succ fuel ih =>
    intro p qs r qs' r' hp hpk hqs hr hlen hq hrun h
    rw [quoRemLoop] at h
    by_cases hpe : p.isEmpty = true
    · rw [if_pos hpe] at h
      simp only [Option.some.injEq, Prod.mk.injEq] at h
      obtain ⟨rfl, rfl⟩ := h
      have : p = [] := List.isEmpty_iff.1 hpe
      subst this
      exact ⟨hqs, hr, hlen, by simp, fun d hd => Or.inl hd, hq⟩
    · rw [if_neg hpe] at h
      rw [RunOK, if_neg hpe] at hrun
      have hpne : p ≠ [] := fun h0 => hpe (List.isEmpty_iff.2 h0)
      have hldm : ld o p ∈ keys p := ld_mem_keys hadm hpne (fun d hd => (hpk d hd).1)
      obtain ⟨hldno, hldle⟩ := hpk _ hldm
      simp only at h
      cases hfd : firstDiv o (ld o p) ignore gs 0 with
      | none =>
        rw [hfd] at h hrun
        simp only at h hrun
        have hc := coef_valid L hp.cv (ld o p)
        obtain ⟨c1, c2, c3, c4, c5, c6⟩ := ih (erase p (ld o p)) qs
          (incCoef F r (ld o p) (coef F p (ld o p))) (WF_erase L hp _)
          (fun d hd => hpk d ((mem_keys_erase p _ d).1 hd).1) hqs (WF_incCoef L hr _ hc) hlen hq
          hrun h
        refine ⟨c1, c2, c3, ?_, ?_, c6⟩
        · rw [← c4, toMv_erase L hp, toMv_incCoef L hr _ hc]; ring
        · intro d hd
          rcases c5 d hd with h1 | h1
          · rcases mem_keys_incCoef h1 with h2 | rfl
            · exact Or.inl h2
            · refine Or.inr ⟨hldno, hldle, fun j g hj hig => ?_⟩
              exact firstDiv_none gs 0 hfd j g hj (by rwa [Nat.zero_add])
          · exact Or.inr h1
      | some x =>
        obtain ⟨i, g, dd⟩ := x
        rw [hfd] at h hrun
        simp only at h hrun
        obtain ⟨hsh, hrun'⟩ := hrun
        obtain ⟨-, hgi, hig, hsd⟩ := firstDiv_some gs 0 hfd
        rw [Nat.sub_zero] at hgi
        have hcg : CV L g := hgs g (List.mem_of_getElem? hgi)
        have hi : i < qs.length := by
          rw [hlen]; exact (List.getElem?_eq_some_iff.1 hgi).1
        have hdd : ld o p = ld o g + dd := (subDegs_eq_some_iff _ _ _).1 hsd
        have hdd' : ((ld o g).1 + dd.1, (ld o g).2 + dd.2) = ld o p := by rw [hdd]; rfl
        have htv := lcQuot_valid L hp.cv hcg o
        obtain ⟨w1, e1⟩ := subShiftScale_spec L dd hp hcg htv hsh.shiftOK
        have hqi : WF L (qs.getD i []) := by
          rw [getD_of_lt _ _ _ hi]; exact hqs _ (List.getElem_mem hi)
        obtain ⟨w2, e2⟩ := incCoef_spec L hqi dd htv
        -- keys of the new dividend
        have hpk' : ∀ d ∈ keys (subShiftScale F p g dd (lcQuot F o p g)),
            NoOverflow o d ∧ o.cmp d m ≤ 0 := by
          intro d hd
          rcases mem_keys_subShiftScale hsh.shiftOK hd with h1 | ⟨e, he, rfl⟩
          · exact hpk d h1
          · refine ⟨hsh e he, ?_⟩
            have hcmp := cmp_add' o e (ld o g) dd (hsh e he) (by rw [hdd']; exact hldno)
            have hle : o.cmp e (ld o g) ≤ 0 := ld_ge o g e he
            rw [hdd'] at hcmp
            exact T.le_trans (by rw [hcmp]; exact hle) hldle
        -- the updated quotients
        have hqs' : ∀ q ∈ qs.set i (incCoef F (qs.getD i []) dd (lcQuot F o p g)), WF L q := by
          intro q hq'
          rcases List.mem_or_eq_of_mem_set hq' with h1 | rfl
          · exact hqs q h1
          · exact w2
        have hq' : QOK o gs m (qs.set i (incCoef F (qs.getD i []) dd (lcQuot F o p g))) := by
          intro j q g' hj hg' t ht
          by_cases hji : i = j
          · subst hji
            rw [List.getElem?_set_self hi] at hj
            cases hj
            rw [hgi] at hg'; cases hg'
            rcases mem_keys_incCoef ht with h1 | rfl
            · refine hq i _ g ?_ hgi t h1
              rw [getD_of_lt _ _ _ hi]; exact List.getElem?_eq_getElem hi
            · exact ⟨hsh, by rw [hdd']; exact hldle⟩
          · rw [List.getElem?_set_ne hji] at hj
            exact hq j q g' hj hg' t ht
        obtain ⟨c1, c2, c3, c4, c5, c6⟩ := ih _ _ r w1 hpk' hqs' hr
          (by rw [List.length_set]; exact hlen) hq' hrun' h
        refine ⟨c1, c2, c3, ?_, c5, c6⟩
        rw [← c4, e1, dot_set L qs gs i g _ hi hgi, e2]
        ring

end BPoly
end Algobra
