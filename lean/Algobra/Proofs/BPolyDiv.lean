/-
  Proofs/BPolyDiv.lean — the multivariate division algorithm of /repo/bivariate/arithmetic.go
  (`quoRemWithIgnore`, `QuoRem`, `Rem`; model `BPoly.quoRemLoop`, `quoRem`, `rem`) returns a standard
  representation (property C10).
-/
import Algobra.Proofs.BPolyRefine

namespace Algobra
namespace BPoly

open AddMonoidAlgebra (single)

variable {α : Type} {F : FOps α} {K : Type} [Field K]

/-! ### `firstDiv` : the divisor search -/

theorem firstDiv_some {o : Order} {pLd : Deg} {ignore : Option Nat} :
    ∀ (gs : List (BPoly α)) (k : Nat) {i : Nat} {g : BPoly α} {dd : Deg},
      firstDiv o pLd ignore gs k = some (i, g, dd) →
      k ≤ i ∧ gs[i - k]? = some g ∧ ignore ≠ some i ∧ subDegs pLd (ld o g) = some dd := by
  intro gs
  induction gs with
  | nil => intro k i g dd h; simp [firstDiv] at h
  | cons g0 gs ih =>
    intro k i g dd h
    have hrec : firstDiv o pLd ignore gs (k + 1) = some (i, g, dd) →
        k ≤ i ∧ (g0 :: gs)[i - k]? = some g ∧ ignore ≠ some i ∧
          subDegs pLd (ld o g) = some dd := by
      intro h'
      obtain ⟨h1, h2, h3, h4⟩ := ih (k + 1) h'
      refine ⟨by omega, ?_, h3, h4⟩
      have : i - k = (i - (k + 1)) + 1 := by omega
      rw [this, List.getElem?_cons_succ]; exact h2
    rw [firstDiv] at h
    by_cases hig : (ignore == some k) = true
    · rw [if_pos hig] at h; exact hrec h
    · rw [if_neg hig] at h
      cases hs : subDegs pLd (ld o g0) with
      | none => rw [hs] at h; exact hrec h
      | some dd' =>
        rw [hs] at h
        simp only [Option.some.injEq, Prod.mk.injEq] at h
        obtain ⟨rfl, rfl, rfl⟩ := h
        refine ⟨le_refl _, by simp, ?_, hs⟩
        intro he; exact hig (by simp [he])

theorem firstDiv_none {o : Order} {pLd : Deg} {ignore : Option Nat} :
    ∀ (gs : List (BPoly α)) (k : Nat), firstDiv o pLd ignore gs k = none →
      ∀ (j : Nat) (g : BPoly α), gs[j]? = some g → ignore ≠ some (k + j) →
        subDegs pLd (ld o g) = none := by
  intro gs
  induction gs with
  | nil => intro k _ j g hj; simp at hj
  | cons g0 gs ih =>
    intro k h j g hj hig
    rw [firstDiv] at h
    cases j with
    | zero =>
      simp only [List.getElem?_cons_zero, Option.some.injEq] at hj
      subst hj
      have hig' : ¬ (ignore == some k) = true := by
        intro he; exact hig (by simpa using he)
      rw [if_neg hig'] at h
      cases hs : subDegs pLd (ld o g0) with
      | none => rfl
      | some dd' => rw [hs] at h; cases h
    | succ j =>
      rw [List.getElem?_cons_succ] at hj
      have hrec : firstDiv o pLd ignore gs (k + 1) = none := by
        by_cases hig' : (ignore == some k) = true
        · rw [if_pos hig'] at h; exact h
        · rw [if_neg hig'] at h
          cases hs : subDegs pLd (ld o g0) with
          | none => rw [hs] at h; exact h
          | some dd' => rw [hs] at h; cases h
      exact ih (k + 1) hrec j g hj (by rw [show k + 1 + j = k + (j + 1) by omega]; exact hig)

/-! ### the combination `Σ qᵢ gᵢ` -/

/-- `Σ_i qs_i * gs_i` in `K[X,Y]` -/
noncomputable def dot (L : Lawful F K) (qs gs : List (BPoly α)) : AddMonoidAlgebra K (ℕ × ℕ) :=
  (List.zipWith (fun q g => toMv L q * toMv L g) qs gs).sum

@[simp] theorem dot_nil_left (L : Lawful F K) (gs : List (BPoly α)) : dot L [] gs = 0 := by
  simp [dot]

@[simp] theorem dot_nil_right (L : Lawful F K) (qs : List (BPoly α)) : dot L qs [] = 0 := by
  simp [dot]

theorem dot_cons (L : Lawful F K) (q g : BPoly α) (qs gs : List (BPoly α)) :
    dot L (q :: qs) (g :: gs) = toMv L q * toMv L g + dot L qs gs := by
  simp [dot]

theorem dot_set (L : Lawful F K) :
    ∀ (qs gs : List (BPoly α)) (i : Nat) (g q' : BPoly α), i < qs.length → gs[i]? = some g →
      dot L (qs.set i q') gs
        = dot L qs gs + (toMv L q' - toMv L (qs.getD i [])) * toMv L g := by
  intro qs
  induction qs with
  | nil => intro gs i g q' hi; simp at hi
  | cons q qs ih =>
    intro gs i g q' hi hg
    cases gs with
    | nil => simp at hg
    | cons g0 gs =>
      cases i with
      | zero =>
        simp only [List.getElem?_cons_zero, Option.some.injEq] at hg
        subst hg
        simp only [List.set_cons_zero, dot_cons, List.getD_cons_zero]
        ring
      | succ i =>
        rw [List.getElem?_cons_succ] at hg
        simp only [List.length_cons, Nat.add_lt_add_iff_right] at hi
        simp only [List.set_cons_succ, dot_cons, List.getD_cons_succ]
        rw [ih gs i g q' hi hg]
        ring

theorem dot_replicate_nil (L : Lawful F K) (gs : List (BPoly α)) :
    dot L (gs.map fun _ => ([] : BPoly α)) gs = 0 := by
  induction gs with
  | nil => simp
  | cons g gs ih => rw [List.map_cons, dot_cons, ih]; simp

/-! ### `lcQuot` -/

variable (L : Lawful F K)

theorem lcQuot_valid {p g : BPoly α} (hp : CV L p) (hg : CV L g) (o : Order) :
    L.valid (lcQuot F o p g) := by
  unfold lcQuot
  have hlp := lc_valid L hp o
  have hlg := lc_valid L hg o
  simp only
  split
  · exact L.mul_valid _ _ hlp hlg
  · by_cases h0 : L.embed (lc F o g) = 0
    · rw [L.inv_none _ hlg h0]; exact L.zero_valid
    · obtain ⟨i, e1, e2, _⟩ := L.inv_some _ hlg h0
      rw [e1]; exact L.mul_valid _ _ hlp e2

theorem lcQuot_embed {p g : BPoly α} (hp : CV L p) (hg : CV L g) (o : Order)
    (h0 : L.embed (lc F o g) ≠ 0) :
    L.embed (lcQuot F o p g) = L.embed (lc F o p) / L.embed (lc F o g) := by
  unfold lcQuot
  have hlp := lc_valid L hp o
  have hlg := lc_valid L hg o
  simp only
  split
  · next h1 =>
    rw [L.embed_mul _ _ hlp hlg, (L.isOne_iff _ hlg).1 h1, mul_one, div_one]
  · obtain ⟨i, e1, e2, e3⟩ := L.inv_some _ hlg h0
    rw [e1]
    simp only
    rw [L.embed_mul _ _ hlp e2, e3, div_eq_mul_inv]

end BPoly
end Algobra
