/-
  Proofs/BPolyDiv.lean — the multivariate division algorithm of /repo/bivariate/arithmetic.go
  (`quoRemWithIgnore`, `QuoRem`, `Rem`; model `BPoly.quoRemLoop`, `quoRem`, `rem`) returns a standard
  representation (property C10).

  Contents (namespace `Algobra.BPoly`):
  * `firstDiv_some`, `firstDiv_none`   — what the divisor search returns;
  * `dot L qs gs = Σ toMv qs_i * toMv gs_i` (`List.zipWith … |>.sum`), `dot_set`;
  * `lcQuot_valid`, `lcQuot_embed`     — the quotient of the leading coefficients;
  * `ShiftNO o g dd`, `RunOK F o ignore gs fuel p` — the no-wrap-around guard of a run (decidable,
    `runOKb_iff`); `QOK o gs m qs` — the degree invariant of the quotients;
  * `quoRemLoop_spec`                  — MAIN INVARIANT of the loop (identity, canonicity, remainder
    condition, degree bounds), for any `ignore` and any start state;
  * `quoRemLoop_init_spec`, `quoRem_ok`, `quoRem_error`, `quoRem_zero_divisor`, `quoRem_spec`,
    `rem_eq`, `rem_ok`               — the loop from its initial state, `QuoRem`, `Rem`;
  * `coeff_mul_ne_zero`, `mul_bound`, `mulNoReduce_bound` — exponents / leading exponent of `q_i g_i`;
  * `Graded o`, `RunOK_of_graded`      — for WDegLex/WDegRevLex with positive weights the guard
    follows from `NoOverflow` of the inputs;
  * `DegLT_wf` (Dickson), `nextP_spec` (the leading exponent strictly decreases),
    `quoRemLoop_terminates`, `quoRem_terminates`, `quoRemLoop_fuel_mono`, `RunOK_of_complete`.
-/
import Mathlib.Order.WellFounded
import Mathlib.Order.WellQuasiOrder
import Algobra.Proofs.BPolyRefine
import Algobra.Proofs.Order

namespace Algobra
namespace BPoly

open AddMonoidAlgebra (single)
open Algobra.Order

variable {α : Type} {F : FOps α} {K : Type} [Field K]

/-! ### `firstDiv` : the divisor search -/

theorem firstDiv_some {o : Order} {pLd : Deg} {ignore : Option Nat} :
    ∀ (gs : List (BPoly α)) (k : Nat) {i : Nat} {g : BPoly α} {dd : Deg},
      firstDiv o pLd ignore gs k = some (i, g, dd) →
      k ≤ i ∧ gs[i - k]? = some g ∧ ignore ≠ some i ∧ subDegs pLd (ld o g) = some dd := by
  intro gs
  induction gs with
  | nil => intro k i g dd h; simp [firstDiv] at h
  | cons g0 gs ih =>
    intro k i g dd h
    have hrec : firstDiv o pLd ignore gs (k + 1) = some (i, g, dd) →
        k ≤ i ∧ (g0 :: gs)[i - k]? = some g ∧ ignore ≠ some i ∧
          subDegs pLd (ld o g) = some dd := by
      intro h'
      obtain ⟨h1, h2, h3, h4⟩ := ih (k + 1) h'
      refine ⟨by omega, ?_, h3, h4⟩
      have : i - k = (i - (k + 1)) + 1 := by omega
      rw [this, List.getElem?_cons_succ]; exact h2
    rw [firstDiv] at h
    by_cases hig : (ignore == some k) = true
    · rw [if_pos hig] at h; exact hrec h
    · rw [if_neg hig] at h
      cases hs : subDegs pLd (ld o g0) with
      | none => rw [hs] at h; exact hrec h
      | some dd' =>
        rw [hs] at h
        simp only [Option.some.injEq, Prod.mk.injEq] at h
        obtain ⟨rfl, rfl, rfl⟩ := h
        refine ⟨le_refl _, by simp, ?_, hs⟩
        intro he; exact hig (by simp [he])

theorem firstDiv_none {o : Order} {pLd : Deg} {ignore : Option Nat} :
    ∀ (gs : List (BPoly α)) (k : Nat), firstDiv o pLd ignore gs k = none →
      ∀ (j : Nat) (g : BPoly α), gs[j]? = some g → ignore ≠ some (k + j) →
        subDegs pLd (ld o g) = none := by
  intro gs
  induction gs with
  | nil => intro k _ j g hj; simp at hj
  | cons g0 gs ih =>
    intro k h j g hj hig
    rw [firstDiv] at h
    cases j with
    | zero =>
      simp only [List.getElem?_cons_zero, Option.some.injEq] at hj
      subst hj
      have hig' : ¬ (ignore == some k) = true := by
        intro he; exact hig (by simpa using he)
      rw [if_neg hig'] at h
      cases hs : subDegs pLd (ld o g0) with
      | none => rfl
      | some dd' => rw [hs] at h; cases h
    | succ j =>
      rw [List.getElem?_cons_succ] at hj
      have hrec : firstDiv o pLd ignore gs (k + 1) = none := by
        by_cases hig' : (ignore == some k) = true
        · rw [if_pos hig'] at h; exact h
        · rw [if_neg hig'] at h
          cases hs : subDegs pLd (ld o g0) with
          | none => rw [hs] at h; exact h
          | some dd' => rw [hs] at h; cases h
      exact ih (k + 1) hrec j g hj (by rw [show k + 1 + j = k + (j + 1) by omega]; exact hig)

/-! ### the combination `Σ qᵢ gᵢ` -/

/-- `Σ_i qs_i * gs_i` in `K[X,Y]` -/
noncomputable def dot (L : Lawful F K) (qs gs : List (BPoly α)) : AddMonoidAlgebra K (ℕ × ℕ) :=
  (List.zipWith (fun q g => toMv L q * toMv L g) qs gs).sum

@[simp] theorem dot_nil_left (L : Lawful F K) (gs : List (BPoly α)) : dot L [] gs = 0 := by
  simp [dot]

@[simp] theorem dot_nil_right (L : Lawful F K) (qs : List (BPoly α)) : dot L qs [] = 0 := by
  simp [dot]

theorem dot_cons (L : Lawful F K) (q g : BPoly α) (qs gs : List (BPoly α)) :
    dot L (q :: qs) (g :: gs) = toMv L q * toMv L g + dot L qs gs := by
  simp [dot]

theorem dot_set (L : Lawful F K) :
    ∀ (qs gs : List (BPoly α)) (i : Nat) (g q' : BPoly α), i < qs.length → gs[i]? = some g →
      dot L (qs.set i q') gs
        = dot L qs gs + (toMv L q' - toMv L (qs.getD i [])) * toMv L g := by
  intro qs
  induction qs with
  | nil => intro gs i g q' hi; simp at hi
  | cons q qs ih =>
    intro gs i g q' hi hg
    cases gs with
    | nil => simp at hg
    | cons g0 gs =>
      cases i with
      | zero =>
        simp only [List.getElem?_cons_zero, Option.some.injEq] at hg
        subst hg
        simp only [List.set_cons_zero, dot_cons, List.getD_cons_zero]
        ring
      | succ i =>
        rw [List.getElem?_cons_succ] at hg
        simp only [List.length_cons, Nat.add_lt_add_iff_right] at hi
        simp only [List.set_cons_succ, dot_cons, List.getD_cons_succ]
        rw [ih gs i g q' hi hg]
        ring

theorem dot_replicate_nil (L : Lawful F K) (gs : List (BPoly α)) :
    dot L (gs.map fun _ => ([] : BPoly α)) gs = 0 := by
  induction gs with
  | nil => simp
  | cons g gs ih => rw [List.map_cons, dot_cons, ih]; simp

/-! ### `lcQuot` -/

variable (L : Lawful F K)

theorem lcQuot_valid {p g : BPoly α} (hp : CV L p) (hg : CV L g) (o : Order) :
    L.valid (lcQuot F o p g) := by
  unfold lcQuot
  have hlp := lc_valid L hp o
  have hlg := lc_valid L hg o
  simp only
  split
  · exact L.mul_valid _ _ hlp hlg
  · by_cases h0 : L.embed (lc F o g) = 0
    · rw [L.inv_none _ hlg h0]; exact L.zero_valid
    · obtain ⟨i, e1, e2, _⟩ := L.inv_some _ hlg h0
      rw [e1]; exact L.mul_valid _ _ hlp e2

theorem lcQuot_embed {p g : BPoly α} (hp : CV L p) (hg : CV L g) (o : Order)
    (h0 : L.embed (lc F o g) ≠ 0) :
    L.embed (lcQuot F o p g) = L.embed (lc F o p) / L.embed (lc F o g) := by
  unfold lcQuot
  have hlp := lc_valid L hp o
  have hlg := lc_valid L hg o
  simp only
  split
  · next h1 =>
    rw [L.embed_mul _ _ hlp hlg, (L.isOne_iff _ hlg).1 h1, mul_one, div_one]
  · obtain ⟨i, e1, e2, e3⟩ := L.inv_some _ hlg h0
    rw [e1]
    simp only
    rw [L.embed_mul _ _ hlp e2, e3, div_eq_mul_inv]

/-! ### the no-wrap-around guard of a run -/

/-- shifting `g` by `dd` leaves all exponents (and their weighted degrees) inside the machine word -/
def ShiftNO (o : Order) (g : BPoly α) (dd : Deg) : Prop :=
  ∀ d ∈ keys g, NoOverflow o (d.1 + dd.1, d.2 + dd.2)

theorem ShiftNO.shiftOK {o : Order} {g : BPoly α} {dd : Deg} (h : ShiftNO o g dd) :
    ShiftOK g dd := fun dc hdc =>
  have := h dc.1 (List.mem_map_of_mem hdc)
  ⟨this.1, this.2.1⟩

/-- "no exponent wraps around during the run": mirrors `quoRemLoop` on the dividend; at every
    division step (by `g`, shift `dd`) the shifted exponents of `g` do not overflow. -/
def RunOK (F : FOps α) (o : Order) (ignore : Option Nat) (gs : List (BPoly α)) :
    Nat → BPoly α → Prop
  | 0, _ => True
  | fuel + 1, p =>
    if p.isEmpty then True
    else match firstDiv o (ld o p) ignore gs 0 with
      | some (_, g, dd) =>
        ShiftNO o g dd ∧ RunOK F o ignore gs fuel (subShiftScale F p g dd (lcQuot F o p g))
      | none => RunOK F o ignore gs fuel (erase p (ld o p))

/-- degree invariant of the quotients: every term `t` of `qs_j` satisfies `t·lm(gs_j) ≤ m`
    (and the product `t·gs_j` has no exponent overflow) -/
def QOK (o : Order) (gs : List (BPoly α)) (m : Deg) (qs : List (BPoly α)) : Prop :=
  ∀ (j : Nat) (q g : BPoly α), qs[j]? = some q → gs[j]? = some g → ∀ t ∈ keys q,
    ShiftNO o g t ∧ o.cmp ((ld o g).1 + t.1, (ld o g).2 + t.2) m ≤ 0

theorem QOK_init (o : Order) (gs : List (BPoly α)) (m : Deg) :
    QOK o gs m (gs.map fun _ => ([] : BPoly α)) := by
  intro j q g hq _ t ht
  rw [List.getElem?_map] at hq
  cases hg : gs[j]? with
  | none => rw [hg] at hq; cases hq
  | some g' => rw [hg] at hq; cases hq; cases ht

/-- the leading exponent of a nonzero polynomial is one of its exponents -/
theorem ld_mem_keys {o : Order} (hadm : Admissible o) {p : BPoly α} (hne : p ≠ [])
    (hno : ∀ d ∈ keys p, NoOverflow o d) : ld o p ∈ keys p :=
  ld_mem o p hne (fun d hd => cmp_zero_le' o hadm d (hno d hd))

/-! ### keys after one step -/

theorem getD_of_lt {β : Type} (l : List β) (i : Nat) (a : β) (h : i < l.length) : l.getD i a = l[i] := by
  rw [List.getD_eq_getElem?_getD, List.getElem?_eq_getElem h, Option.getD_some]

theorem mem_keys_incCoef {f : BPoly α} {d e : Deg} {v : α} (h : e ∈ keys (incCoef F f d v)) :
    e ∈ keys f ∨ e = d :=
  KeysIn_incCoef (P := fun e => e ∈ keys f ∨ e = d) (fun _ h => Or.inl h) (Or.inr rfl) v e h

theorem mem_keys_subShiftScale {f g : BPoly α} {i e : Deg} {a : α} (hs : ShiftOK g i)
    (h : e ∈ keys (subShiftScale F f g i a)) :
    e ∈ keys f ∨ ∃ d ∈ keys g, e = (d.1 + i.1, d.2 + i.2) := by
  refine KeysIn_subShiftScale (P := fun e => e ∈ keys f ∨ ∃ d ∈ keys g, e = (d.1 + i.1, d.2 + i.2))
    i a (fun _ h => Or.inl h) ?_ e h
  intro d hd
  obtain ⟨dc, hdc, rfl⟩ := List.mem_map.1 hd
  have := hs dc hdc
  rw [w64_of_lt this.1, w64_of_lt this.2]
  exact Or.inr ⟨dc.1, hd, rfl⟩

/-! ### the main invariant -/

theorem quoRemLoop_spec {o : Order} (hadm : Admissible o) {ignore : Option Nat}
    {gs : List (BPoly α)} (hgs : ∀ g ∈ gs, CV L g) (m : Deg) :
    ∀ (fuel : Nat) (p : BPoly α) (qs : List (BPoly α)) (r : BPoly α)
      {qs' : List (BPoly α)} {r' : BPoly α},
      WF L p → (∀ d ∈ keys p, NoOverflow o d ∧ o.cmp d m ≤ 0) →
      (∀ q ∈ qs, WF L q) → WF L r → qs.length = gs.length → QOK o gs m qs →
      RunOK F o ignore gs fuel p →
      quoRemLoop F o ignore gs fuel p qs r = some (qs', r') →
      (∀ q ∈ qs', WF L q) ∧ WF L r' ∧ qs'.length = gs.length ∧
      toMv L p + dot L qs gs + toMv L r = dot L qs' gs + toMv L r' ∧
      (∀ d ∈ keys r', d ∈ keys r ∨ (NoOverflow o d ∧ o.cmp d m ≤ 0 ∧
          ∀ j g, gs[j]? = some g → ignore ≠ some j → subDegs d (ld o g) = none)) ∧
      QOK o gs m qs' := by
  have T := cmp_isTot o
  intro fuel
  induction fuel with
  | zero => intro p qs r qs' r' _ _ _ _ _ _ _ h; simp [quoRemLoop] at h
  | succ fuel ih =>
    intro p qs r qs' r' hp hpk hqs hr hlen hq hrun h
    rw [quoRemLoop] at h
    by_cases hpe : p.isEmpty = true
    · rw [if_pos hpe] at h
      simp only [Option.some.injEq, Prod.mk.injEq] at h
      obtain ⟨rfl, rfl⟩ := h
      have : p = [] := List.isEmpty_iff.1 hpe
      subst this
      exact ⟨hqs, hr, hlen, by simp, fun d hd => Or.inl hd, hq⟩
    · rw [if_neg hpe] at h
      rw [RunOK, if_neg hpe] at hrun
      have hpne : p ≠ [] := fun h0 => hpe (List.isEmpty_iff.2 h0)
      have hldm : ld o p ∈ keys p := ld_mem_keys hadm hpne (fun d hd => (hpk d hd).1)
      obtain ⟨hldno, hldle⟩ := hpk _ hldm
      simp only at h
      cases hfd : firstDiv o (ld o p) ignore gs 0 with
      | none =>
        rw [hfd] at h hrun
        simp only at h hrun
        have hc := coef_valid L hp.cv (ld o p)
        obtain ⟨c1, c2, c3, c4, c5, c6⟩ := ih (erase p (ld o p)) qs
          (incCoef F r (ld o p) (coef F p (ld o p))) (WF_erase L hp _)
          (fun d hd => hpk d ((mem_keys_erase p _ d).1 hd).1) hqs (WF_incCoef L hr _ hc) hlen hq
          hrun h
        refine ⟨c1, c2, c3, ?_, ?_, c6⟩
        · rw [← c4, toMv_erase L hp, toMv_incCoef L hr _ hc]; ring
        · intro d hd
          rcases c5 d hd with h1 | h1
          · rcases mem_keys_incCoef h1 with h2 | rfl
            · exact Or.inl h2
            · refine Or.inr ⟨hldno, hldle, fun j g hj hig => ?_⟩
              exact firstDiv_none gs 0 hfd j g hj (by rwa [Nat.zero_add])
          · exact Or.inr h1
      | some x =>
        obtain ⟨i, g, dd⟩ := x
        rw [hfd] at h hrun
        simp only at h hrun
        obtain ⟨hsh, hrun'⟩ := hrun
        obtain ⟨-, hgi, hig, hsd⟩ := firstDiv_some gs 0 hfd
        rw [Nat.sub_zero] at hgi
        have hcg : CV L g := hgs g (List.mem_of_getElem? hgi)
        have hi : i < qs.length := by
          rw [hlen]; exact (List.getElem?_eq_some_iff.1 hgi).1
        have hdd : ld o p = ld o g + dd := (subDegs_eq_some_iff _ _ _).1 hsd
        have hdd' : ((ld o g).1 + dd.1, (ld o g).2 + dd.2) = ld o p := by rw [hdd]; rfl
        have htv := lcQuot_valid L hp.cv hcg o
        obtain ⟨w1, e1⟩ := subShiftScale_spec L dd hp hcg htv hsh.shiftOK
        have hqi : WF L (qs.getD i []) := by
          rw [getD_of_lt _ _ _ hi]; exact hqs _ (List.getElem_mem hi)
        obtain ⟨w2, e2⟩ := incCoef_spec L hqi dd htv
        -- keys of the new dividend
        have hpk' : ∀ d ∈ keys (subShiftScale F p g dd (lcQuot F o p g)),
            NoOverflow o d ∧ o.cmp d m ≤ 0 := by
          intro d hd
          rcases mem_keys_subShiftScale hsh.shiftOK hd with h1 | ⟨e, he, rfl⟩
          · exact hpk d h1
          · refine ⟨hsh e he, ?_⟩
            have hcmp := cmp_add' o e (ld o g) dd (hsh e he) (by rw [hdd']; exact hldno)
            have hle : o.cmp e (ld o g) ≤ 0 := ld_ge o g e he
            rw [hdd'] at hcmp
            exact T.le_trans (by rw [hcmp]; exact hle) hldle
        -- the updated quotients
        have hqs' : ∀ q ∈ qs.set i (incCoef F (qs.getD i []) dd (lcQuot F o p g)), WF L q := by
          intro q hq'
          rcases List.mem_or_eq_of_mem_set hq' with h1 | rfl
          · exact hqs q h1
          · exact w2
        have hq' : QOK o gs m (qs.set i (incCoef F (qs.getD i []) dd (lcQuot F o p g))) := by
          intro j q g' hj hg' t ht
          by_cases hji : i = j
          · subst hji
            rw [List.getElem?_set_self hi] at hj
            cases hj
            rw [hgi] at hg'; cases hg'
            rcases mem_keys_incCoef ht with h1 | rfl
            · refine hq i _ g ?_ hgi t h1
              rw [getD_of_lt _ _ _ hi]; exact List.getElem?_eq_getElem hi
            · exact ⟨hsh, by rw [hdd']; exact hldle⟩
          · rw [List.getElem?_set_ne hji] at hj
            exact hq j q g' hj hg' t ht
        obtain ⟨c1, c2, c3, c4, c5, c6⟩ := ih _ _ r w1 hpk' hqs' hr
          (by rw [List.length_set]; exact hlen) hq' hrun' h
        refine ⟨c1, c2, c3, ?_, c5, c6⟩
        rw [← c4, e1, dot_set L qs gs i g _ hi hgi, e2]
        ring

/-! ### supports of products -/

theorem mem_keys_of_coeff_ne_zero {f : BPoly α} {e : Deg} (h : (toMv L f).coeff e ≠ 0) :
    e ∈ keys f := by
  induction f with
  | nil => simp at h
  | cons x t ih =>
    rw [toMv_cons, AddMonoidAlgebra.coeff_add, Finsupp.add_apply,
      AddMonoidAlgebra.coeff_single] at h
    by_cases hx : x.1 = e
    · subst hx; simp [keys]
    · rw [Finsupp.single_eq_of_ne (Ne.symm hx), zero_add] at h
      exact List.mem_cons_of_mem _ (ih h)

theorem coeff_single_mul_ne_zero {t : Deg} {c : K} {g : BPoly α} {e : Deg}
    (h : (single t c * toMv L g).coeff e ≠ 0) : ∃ d ∈ keys g, e = t + d := by
  induction g with
  | nil => simp at h
  | cons x g ih =>
    rw [toMv_cons, mul_add, AddMonoidAlgebra.single_mul_single, AddMonoidAlgebra.coeff_add,
      Finsupp.add_apply, AddMonoidAlgebra.coeff_single] at h
    by_cases hx : t + x.1 = e
    · exact ⟨x.1, by simp [keys], hx.symm⟩
    · rw [Finsupp.single_eq_of_ne (Ne.symm hx), zero_add] at h
      obtain ⟨d, hd, rfl⟩ := ih h
      exact ⟨d, List.mem_cons_of_mem _ hd, rfl⟩

/-- every exponent of a product is the sum of an exponent of each factor -/
theorem coeff_mul_ne_zero {q g : BPoly α} {e : Deg} (h : (toMv L q * toMv L g).coeff e ≠ 0) :
    ∃ t ∈ keys q, ∃ d ∈ keys g, e = t + d := by
  induction q with
  | nil => simp at h
  | cons x q ih =>
    rw [toMv_cons, add_mul, AddMonoidAlgebra.coeff_add, Finsupp.add_apply] at h
    by_cases h1 : (single x.1 (L.embed x.2) * toMv L g).coeff e = 0
    · rw [h1, zero_add] at h
      obtain ⟨t, ht, d, hd, rfl⟩ := ih h
      exact ⟨t, List.mem_cons_of_mem _ ht, d, hd, rfl⟩
    · obtain ⟨d, hd, rfl⟩ := coeff_single_mul_ne_zero L h1
      exact ⟨x.1, by simp [keys], d, hd, rfl⟩

theorem weightedDeg_mono (o : Order) {a b : Deg} (h1 : a.1 ≤ b.1) (h2 : a.2 ≤ b.2) :
    weightedDeg o a ≤ weightedDeg o b := by
  unfold weightedDeg
  split
  · exact le_refl _
  · exact Nat.add_le_add (Nat.mul_le_mul_right _ h1) (Nat.mul_le_mul_right _ h2)
  · exact Nat.add_le_add (Nat.mul_le_mul_right _ h1) (Nat.mul_le_mul_right _ h2)

theorem NoOverflow_mono {o : Order} {a b : Deg} (hb : NoOverflow o b) (h1 : a.1 ≤ b.1)
    (h2 : a.2 ≤ b.2) : NoOverflow o a :=
  ⟨lt_of_le_of_lt h1 hb.1, lt_of_le_of_lt h2 hb.2.1,
    lt_of_le_of_lt (weightedDeg_mono o h1 h2) hb.2.2⟩

/-- the degree invariant bounds every exponent of the product `q * g` -/
theorem mul_bound {o : Order} (hadm : Admissible o) {q g : BPoly α} {m : Deg}
    (h : ∀ t ∈ keys q, ShiftNO o g t ∧ o.cmp ((ld o g).1 + t.1, (ld o g).2 + t.2) m ≤ 0) :
    ∀ e, (toMv L q * toMv L g).coeff e ≠ 0 → NoOverflow o e ∧ o.cmp e m ≤ 0 := by
  intro e he
  obtain ⟨t, ht, d, hd, rfl⟩ := coeff_mul_ne_zero L he
  obtain ⟨hsh, hle⟩ := h t ht
  have hgne : g ≠ [] := by rintro rfl; cases hd
  have hgno : ∀ d' ∈ keys g, NoOverflow o d' := fun d' hd' =>
    NoOverflow_mono (hsh d' hd') (Nat.le_add_right _ _) (Nat.le_add_right _ _)
  have hldg := ld_mem_keys hadm hgne hgno
  have e1 : t + d = (d.1 + t.1, d.2 + t.2) := Prod.ext (Nat.add_comm _ _) (Nat.add_comm _ _)
  rw [e1]
  refine ⟨hsh d hd, ?_⟩
  have hc := cmp_add' o d (ld o g) t (hsh d hd) (hsh _ hldg)
  exact (cmp_isTot o).le_trans (by rw [hc]; exact ld_ge o g d hd) hle

/-! ### the loop from its initial state, `QuoRem`, `Rem` -/

/-- `quoRemLoop` started as in `quoRemWithIgnore` (zero quotients, zero remainder) -/
theorem quoRemLoop_init_spec {o : Order} (hadm : Admissible o) {ignore : Option Nat}
    {gs : List (BPoly α)} (hgs : ∀ g ∈ gs, CV L g) {fuel : Nat} {f : BPoly α}
    {qs : List (BPoly α)} {r : BPoly α} (hf : WF L f) (hno : ∀ d ∈ keys f, NoOverflow o d)
    (hrun : RunOK F o ignore gs fuel f)
    (h : quoRemLoop F o ignore gs fuel f (gs.map fun _ => []) [] = some (qs, r)) :
    (∀ q ∈ qs, WF L q) ∧ WF L r ∧ qs.length = gs.length ∧
    toMv L f = dot L qs gs + toMv L r ∧
    (∀ d ∈ keys r, NoOverflow o d ∧ o.cmp d (ld o f) ≤ 0 ∧
        ∀ j g, gs[j]? = some g → ignore ≠ some j → subDegs d (ld o g) = none) ∧
    QOK o gs (ld o f) qs := by
  obtain ⟨c1, c2, c3, c4, c5, c6⟩ := quoRemLoop_spec L hadm hgs (ld o f) fuel f _ [] hf
    (fun d hd => ⟨hno d hd, ld_ge o f d hd⟩)
    (fun q hq => by
      obtain ⟨_, _, rfl⟩ := List.mem_map.1 hq
      exact WF_nil L)
    (WF_nil L) (by simp) (QOK_init o gs _) hrun h
  refine ⟨c1, c2, c3, ?_, ?_, c6⟩
  · rw [← c4, dot_replicate_nil, toMv_nil]; simp
  · intro d hd
    rcases c5 d hd with h1 | h1
    · cases h1
    · exact h1

theorem quoRem_zero_divisor (o : Order) (fuel : Nat) (ignore : Option Nat) (f : BPoly α)
    {gs : List (BPoly α)} (h : [] ∈ gs) : quoRem F o fuel ignore f gs = .error .inputValue := by
  unfold quoRem
  rw [if_pos]
  exact List.any_eq_true.2 ⟨[], h, rfl⟩

theorem quoRem_ok {o : Order} {fuel : Nat} {ignore : Option Nat} {f : BPoly α}
    {gs : List (BPoly α)} {res : Option (List (BPoly α) × BPoly α)}
    (h : quoRem F o fuel ignore f gs = .ok res) :
    (∀ g ∈ gs, g ≠ []) ∧ quoRemLoop F o ignore gs fuel f (gs.map fun _ => []) [] = res := by
  unfold quoRem at h
  by_cases ha : gs.any (·.isEmpty) = true
  · rw [if_pos ha] at h; cases h
  · rw [if_neg ha] at h
    refine ⟨?_, by injection h⟩
    intro g hg h0
    exact ha (List.any_eq_true.2 ⟨g, hg, by simp [h0]⟩)

/-- the only error of `QuoRem` is InputValue, raised exactly for a zero divisor -/
theorem quoRem_error {o : Order} {fuel : Nat} {ignore : Option Nat} {f : BPoly α}
    {gs : List (BPoly α)} {k : Kind} (h : quoRem F o fuel ignore f gs = .error k) :
    k = .inputValue ∧ [] ∈ gs := by
  unfold quoRem at h
  by_cases ha : gs.any (·.isEmpty) = true
  · rw [if_pos ha] at h
    obtain ⟨g, hg, hge⟩ := List.any_eq_true.1 ha
    have : g = [] := List.isEmpty_iff.1 hge
    subst this
    exact ⟨by injection h with h; exact h.symm, hg⟩
  · rw [if_neg ha] at h; cases h

/-- `QuoRem` returns a standard representation -/
theorem quoRem_spec {o : Order} (hadm : Admissible o) {ignore : Option Nat}
    {gs : List (BPoly α)} (hgs : ∀ g ∈ gs, CV L g) {fuel : Nat} {f : BPoly α}
    {qs : List (BPoly α)} {r : BPoly α} (hf : WF L f) (hno : ∀ d ∈ keys f, NoOverflow o d)
    (hrun : RunOK F o ignore gs fuel f)
    (h : quoRem F o fuel ignore f gs = .ok (some (qs, r))) :
    (∀ g ∈ gs, g ≠ []) ∧
    (∀ q ∈ qs, WF L q) ∧ WF L r ∧ qs.length = gs.length ∧
    toMv L f = dot L qs gs + toMv L r ∧
    (∀ d ∈ keys r, NoOverflow o d ∧ o.cmp d (ld o f) ≤ 0 ∧
        ∀ j g, gs[j]? = some g → ignore ≠ some j → subDegs d (ld o g) = none) ∧
    (∀ (j : Nat) (q g : BPoly α), qs[j]? = some q → gs[j]? = some g →
      (∀ t ∈ keys q, o.cmp ((ld o g).1 + t.1, (ld o g).2 + t.2) (ld o f) ≤ 0) ∧
      (∀ e, (toMv L q * toMv L g).coeff e ≠ 0 → o.cmp e (ld o f) ≤ 0)) := by
  obtain ⟨hne, hl⟩ := quoRem_ok h
  obtain ⟨c1, c2, c3, c4, c5, c6⟩ := quoRemLoop_init_spec L hadm hgs hf hno hrun hl
  refine ⟨hne, c1, c2, c3, c4, c5, ?_⟩
  intro j q g hq hg
  exact ⟨fun t ht => (c6 j q g hq hg t ht).2,
    fun e he => (mul_bound L hadm (c6 j q g hq hg) e he).2⟩

theorem rem_eq (o : Order) (fuel : Nat) (f : BPoly α) (gs : List (BPoly α)) :
    rem F o fuel f gs = (quoRem F o fuel none f gs).map (·.map Prod.snd) := by
  unfold rem
  cases quoRem F o fuel none f gs <;> rfl

theorem rem_ok {o : Order} {fuel : Nat} {f : BPoly α} {gs : List (BPoly α)} {r : BPoly α}
    (h : rem F o fuel f gs = .ok (some r)) :
    ∃ qs, quoRem F o fuel none f gs = .ok (some (qs, r)) := by
  unfold rem at h
  cases hq : quoRem F o fuel none f gs with
  | error k => rw [hq] at h; cases h
  | ok res =>
    rw [hq] at h
    cases res with
    | none => simp at h
    | some x =>
      obtain ⟨qs, r0⟩ := x
      simp only [Option.map_some, Except.ok.injEq, Option.some.injEq] at h
      subst h
      exact ⟨qs, rfl⟩

/-! ### a static sufficient condition for `RunOK`: graded orders with positive weights -/

/-- `WDegLex` / `WDegRevLex` with both weights positive (in particular `DegLex`, `DegRevLex`) -/
def Graded (o : Order) : Prop :=
  match o.kind with
  | .lex => False
  | .wdeglex wx wy => 0 < wx ∧ 0 < wy
  | .wdegrevlex wx wy => 0 < wx ∧ 0 < wy

instance (o : Order) : Decidable (Graded o) := by
  unfold Graded; cases o.kind <;> infer_instance

theorem Graded.admissible {o : Order} (h : Graded o) : Admissible o := by
  unfold Graded at h; unfold Admissible
  cases hk : o.kind <;> simp_all

theorem Graded.ne_lex {o : Order} (h : Graded o) : o.kind ≠ .lex := by
  unfold Graded at h
  intro hk; rw [hk] at h; exact h

theorem weightedDeg_add (o : Order) (a c : Deg) :
    weightedDeg o (a.1 + c.1, a.2 + c.2) = weightedDeg o a + weightedDeg o c := by
  unfold weightedDeg
  split
  · rfl
  · exact trueDeg_add _ _ a c
  · exact trueDeg_add _ _ a c

theorem Graded.le_weightedDeg {o : Order} (h : Graded o) (a : Deg) :
    a.1 ≤ weightedDeg o a ∧ a.2 ≤ weightedDeg o a := by
  unfold Graded at h; unfold weightedDeg
  cases hk : o.kind with
  | lex => rw [hk] at h; exact h.elim
  | wdeglex wx wy =>
    rw [hk] at h
    simp only [trueDeg]
    have := Nat.le_mul_of_pos_right a.1 h.1
    have := Nat.le_mul_of_pos_right a.2 h.2
    omega
  | wdegrevlex wx wy =>
    rw [hk] at h
    simp only [trueDeg]
    have := Nat.le_mul_of_pos_right a.1 h.1
    have := Nat.le_mul_of_pos_right a.2 h.2
    omega

theorem weightedDeg_le_of_cmp_le {o : Order} (hk : o.kind ≠ .lex) {a b : Deg}
    (ha : NoOverflow o a) (hb : NoOverflow o b) (h : o.cmp a b ≤ 0) :
    weightedDeg o a ≤ weightedDeg o b := by
  by_contra hlt
  have := cmp_degree_first' o hk a b ha hb (by omega)
  omega

/-- For the graded orders with positive weights nothing can wrap around as soon as the exponents of
    the inputs (and their weighted degrees) are machine words: the weighted degree never grows. -/
theorem RunOK_of_graded {o : Order} (hgr : Graded o) {ignore : Option Nat}
    {gs : List (BPoly α)} (hgs : ∀ g ∈ gs, ∀ d ∈ keys g, NoOverflow o d) :
    ∀ (fuel : Nat) (p : BPoly α), (∀ d ∈ keys p, NoOverflow o d) →
      RunOK F o ignore gs fuel p := by
  intro fuel
  induction fuel with
  | zero => intro p _; trivial
  | succ fuel ih =>
    intro p hp
    rw [RunOK]
    by_cases hpe : p.isEmpty = true
    · rw [if_pos hpe]; trivial
    · rw [if_neg hpe]
      have hpne : p ≠ [] := fun h0 => hpe (List.isEmpty_iff.2 h0)
      have hldno : NoOverflow o (ld o p) := hp _ (ld_mem_keys hgr.admissible hpne hp)
      cases hfd : firstDiv o (ld o p) ignore gs 0 with
      | none =>
        simp only
        exact ih _ (fun d hd => hp d ((mem_keys_erase p _ d).1 hd).1)
      | some x =>
        obtain ⟨i, g, dd⟩ := x
        simp only
        obtain ⟨-, hgi, -, hsd⟩ := firstDiv_some gs 0 hfd
        rw [Nat.sub_zero] at hgi
        have hgno := hgs g (List.mem_of_getElem? hgi)
        have hdd : ld o p = ld o g + dd := (subDegs_eq_some_iff _ _ _).1 hsd
        have hdd' : ((ld o g).1 + dd.1, (ld o g).2 + dd.2) = ld o p := by rw [hdd]; rfl
        have hsh : ShiftNO o g dd := by
          intro d hd
          have hgne : g ≠ [] := by rintro rfl; cases hd
          have hldg := ld_mem_keys hgr.admissible hgne hgno
          have hw := weightedDeg_le_of_cmp_le hgr.ne_lex (hgno d hd) (hgno _ hldg) (ld_ge o g d hd)
          have h1 := weightedDeg_add o d dd
          have h2 := weightedDeg_add o (ld o g) dd
          rw [hdd'] at h2
          have h3 := hgr.le_weightedDeg (d.1 + dd.1, d.2 + dd.2)
          have h4 := hldno.2.2
          refine ⟨?_, ?_, ?_⟩
          · have := h3.1; simp only at this; omega
          · have := h3.2; simp only at this; omega
          · omega
        refine ⟨hsh, ih _ ?_⟩
        intro d hd
        rcases mem_keys_subShiftScale hsh.shiftOK hd with h1 | ⟨e, he, rfl⟩
        · exact hp d h1
        · exact hsh e he

/-! ### termination: some fuel always suffices -/

/-- the strict order on exponent pairs that do not overflow -/
def DegLT (o : Order) (a b : Deg) : Prop := NoOverflow o a ∧ NoOverflow o b ∧ o.cmp b a = 1

/-- a monomial order refines divisibility -/
theorem cmp_le_of_le {o : Order} (hadm : Admissible o) {a b : Deg} (hb : NoOverflow o b)
    (h1 : a.1 ≤ b.1) (h2 : a.2 ≤ b.2) : o.cmp a b ≤ 0 := by
  have hc : NoOverflow o (b.1 - a.1, b.2 - a.2) :=
    NoOverflow_mono hb (Nat.sub_le _ _) (Nat.sub_le _ _)
  have ea : (((0, 0) : Deg).1 + a.1, ((0, 0) : Deg).2 + a.2) = a :=
    Prod.ext (Nat.zero_add _) (Nat.zero_add _)
  have eb : ((b.1 - a.1, b.2 - a.2).1 + a.1, (b.1 - a.1, b.2 - a.2).2 + a.2) = b :=
    Prod.ext (Nat.sub_add_cancel h1) (Nat.sub_add_cancel h2)
  have := cmp_add' o (0, 0) (b.1 - a.1, b.2 - a.2) a
    (by rw [ea]; exact NoOverflow_mono hb h1 h2) (by rw [eb]; exact hb)
  rw [ea, eb] at this
  rw [this]
  exact cmp_zero_le' o hadm _ hc

/-- Dickson's lemma: an admissible order is a well-order on the exponent pairs without overflow -/
theorem DegLT_wf {o : Order} (hadm : Admissible o) : WellFounded (DegLT o) := by
  have T := cmp_isTot o
  rw [wellFounded_iff_isEmpty_descending_chain]
  refine ⟨fun ⟨f, hf⟩ => ?_⟩
  have hmono : ∀ i j, i < j → DegLT o (f j) (f i) := by
    intro i j hij
    induction j, hij using Nat.le_induction with
    | base => exact hf i
    | succ j _ ih => exact ⟨(hf j).1, ih.2.1, T.trans _ _ _ ih.2.2 (hf j).2.2⟩
  obtain ⟨i, j, hij, hle⟩ := wellQuasiOrdered_le (α := ℕ × ℕ) f
  have h1 := hmono i j hij
  have h2 := cmp_le_of_le hadm h1.1 hle.1 hle.2
  have h3 := h1.2.2
  omega

theorem cmp_lt_of_le_ne (o : Order) {d b : Deg} (h : o.cmp d b ≤ 0) (hne : d ≠ b) :
    o.cmp b d = 1 := by
  have T := cmp_isTot o
  have h1 := T.range d b
  have h2 := T.antisymm d b
  have h3 : o.cmp d b ≠ 0 := fun e => hne ((T.eq_zero d b).1 e)
  omega

/-- the dividend after one round of the loop -/
def nextP (F : FOps α) (o : Order) (ignore : Option Nat) (gs : List (BPoly α)) (p : BPoly α) :
    BPoly α :=
  match firstDiv o (ld o p) ignore gs 0 with
  | some (_, g, dd) => subShiftScale F p g dd (lcQuot F o p g)
  | none => erase p (ld o p)

theorem quoRemLoop_succ (o : Order) (ignore : Option Nat) (gs : List (BPoly α)) (fuel : Nat)
    {p : BPoly α} (hpe : ¬ p.isEmpty = true) (qs : List (BPoly α)) (r : BPoly α) :
    ∃ qs2 r2, quoRemLoop F o ignore gs (fuel + 1) p qs r
      = quoRemLoop F o ignore gs fuel (nextP F o ignore gs p) qs2 r2 := by
  rw [quoRemLoop, if_neg hpe]
  unfold nextP
  simp only
  cases firstDiv o (ld o p) ignore gs 0 with
  | none => exact ⟨_, _, rfl⟩
  | some x => exact ⟨_, _, rfl⟩

theorem RunOK_succ {o : Order} {ignore : Option Nat} {gs : List (BPoly α)} {fuel : Nat}
    {p : BPoly α} (hpe : ¬ p.isEmpty = true) (h : RunOK F o ignore gs (fuel + 1) p) :
    RunOK F o ignore gs fuel (nextP F o ignore gs p) := by
  rw [RunOK, if_neg hpe] at h
  unfold nextP
  cases hfd : firstDiv o (ld o p) ignore gs 0 with
  | none => rw [hfd] at h; exact h
  | some x => rw [hfd] at h; exact h.2

/-- the leading term is cancelled by a division step -/
theorem ld_not_mem_div_step {o : Order} (hadm : Admissible o) {p g : BPoly α} {dd : Deg}
    (hp : WF L p) (hg : WF L g) (hgne : g ≠ []) (hgno : ∀ d ∈ keys g, NoOverflow o d)
    (hsh : ShiftOK g dd) (hdd : ld o p = ld o g + dd) :
    ld o p ∉ keys (subShiftScale F p g dd (lcQuot F o p g)) := by
  have htv := lcQuot_valid L hp.cv hg.cv o
  obtain ⟨w1, e1⟩ := subShiftScale_spec L dd hp hg.cv htv hsh
  have hldg := ld_mem_keys hadm hgne hgno
  have h0 : L.embed (lc F o g) ≠ 0 := coef_ne_zero L hg hldg
  rw [show keys (subShiftScale F p g dd (lcQuot F o p g))
      = (subShiftScale F p g dd (lcQuot F o p g)).map (·.1) from rfl, mem_keys_iff L w1, not_not, e1,
    AddMonoidAlgebra.coeff_sub, Finsupp.sub_apply, toMv_apply L hp]
  have hdd2 : ld o p = dd + ld o g := by rw [hdd, add_comm]
  conv_lhs => rw [hdd2]
  rw [AddMonoidAlgebra.coeff_single_mul_add, toMv_apply L hg, lcQuot_embed L hp.cv hg.cv o h0,
    ← hdd2]
  show L.embed (lc F o p) - L.embed (lc F o p) / L.embed (lc F o g) * L.embed (lc F o g) = 0
  rw [div_mul_cancel₀ _ h0, sub_self]

/-- one round of the loop: the new dividend is canonical, has no overflow, and all of its exponents
    are strictly below the old leading exponent -/
theorem nextP_spec {o : Order} (hadm : Admissible o) {ignore : Option Nat} {gs : List (BPoly α)}
    (hgs : ∀ g ∈ gs, WF L g ∧ g ≠ [] ∧ ∀ d ∈ keys g, NoOverflow o d)
    {p : BPoly α} (hp : WF L p) (hno : ∀ d ∈ keys p, NoOverflow o d) (hpe : ¬ p.isEmpty = true)
    (hrun : RunOK F o ignore gs 1 p) :
    WF L (nextP F o ignore gs p) ∧ ∀ d ∈ keys (nextP F o ignore gs p), DegLT o d (ld o p) := by
  have T := cmp_isTot o
  have hpne : p ≠ [] := fun h0 => hpe (List.isEmpty_iff.2 h0)
  have hldm : ld o p ∈ keys p := ld_mem_keys hadm hpne hno
  have hldno := hno _ hldm
  rw [RunOK, if_neg hpe] at hrun
  unfold nextP
  cases hfd : firstDiv o (ld o p) ignore gs 0 with
  | none =>
    simp only
    refine ⟨WF_erase L hp _, fun d hd => ?_⟩
    obtain ⟨h1, h2⟩ := (mem_keys_erase p _ d).1 hd
    exact ⟨hno d h1, hldno, cmp_lt_of_le_ne o (ld_ge o p d h1) h2⟩
  | some x =>
    obtain ⟨i, g, dd⟩ := x
    rw [hfd] at hrun
    simp only at hrun ⊢
    obtain ⟨hsh, -⟩ := hrun
    obtain ⟨-, hgi, -, hsd⟩ := firstDiv_some gs 0 hfd
    rw [Nat.sub_zero] at hgi
    obtain ⟨hgw, hgne, hgno⟩ := hgs g (List.mem_of_getElem? hgi)
    have hdd : ld o p = ld o g + dd := (subDegs_eq_some_iff _ _ _).1 hsd
    have hdd' : ((ld o g).1 + dd.1, (ld o g).2 + dd.2) = ld o p := by rw [hdd]; rfl
    have htv := lcQuot_valid L hp.cv hgw.cv o
    have hnm := ld_not_mem_div_step L hadm hp hgw hgne hgno hsh.shiftOK hdd
    refine ⟨WF_subShiftScale L dd hp hgw.cv htv hsh.shiftOK, fun d hd => ?_⟩
    have hne : d ≠ ld o p := by rintro rfl; exact hnm hd
    rcases mem_keys_subShiftScale hsh.shiftOK hd with h1 | ⟨e, he, rfl⟩
    · exact ⟨hno d h1, hldno, cmp_lt_of_le_ne o (ld_ge o p d h1) hne⟩
    · refine ⟨hsh e he, hldno, cmp_lt_of_le_ne o ?_ hne⟩
      have hcmp := cmp_add' o e (ld o g) dd (hsh e he) (by rw [hdd']; exact hldno)
      rw [hdd'] at hcmp
      rw [hcmp]; exact ld_ge o g e he

/-- **Termination** of the division loop: for an admissible order and a run without wrap-around,
    some amount of fuel suffices (for all accumulator values). -/
theorem quoRemLoop_terminates {o : Order} (hadm : Admissible o) {ignore : Option Nat}
    {gs : List (BPoly α)} (hgs : ∀ g ∈ gs, WF L g ∧ g ≠ [] ∧ ∀ d ∈ keys g, NoOverflow o d)
    {p : BPoly α} (hp : WF L p) (hno : ∀ d ∈ keys p, NoOverflow o d)
    (hrun : ∀ fuel, RunOK F o ignore gs fuel p) :
    ∃ fuel, ∀ qs r, quoRemLoop F o ignore gs fuel p qs r ≠ none := by
  have aux : ∀ b : Deg, ∀ p : BPoly α, WF L p → (∀ d ∈ keys p, NoOverflow o d) →
      (∀ fuel, RunOK F o ignore gs fuel p) → ¬ p.isEmpty = true → ld o p = b →
      ∃ fuel, ∀ qs r, quoRemLoop F o ignore gs fuel p qs r ≠ none := by
    intro b
    induction b using (DegLT_wf hadm).induction with
    | _ b ih =>
      intro p hp hno hrun hpe hb
      obtain ⟨w, hk⟩ := nextP_spec L hadm hgs hp hno hpe (hrun 1)
      have hno' : ∀ d ∈ keys (nextP F o ignore gs p), NoOverflow o d := fun d hd => (hk d hd).1
      have hrun' : ∀ fuel, RunOK F o ignore gs fuel (nextP F o ignore gs p) :=
        fun fuel => RunOK_succ hpe (hrun (fuel + 1))
      by_cases hpe' : (nextP F o ignore gs p).isEmpty = true
      · refine ⟨2, fun qs r => ?_⟩
        obtain ⟨qs2, r2, e⟩ := quoRemLoop_succ (F := F) o ignore gs 1 hpe qs r
        rw [e, quoRemLoop, if_pos hpe']
        exact Option.some_ne_none _
      · have hpne' : nextP F o ignore gs p ≠ [] := fun h0 => hpe' (List.isEmpty_iff.2 h0)
        have hlt := hk _ (ld_mem_keys hadm hpne' hno')
        rw [hb] at hlt
        obtain ⟨fuel, hf⟩ := ih _ hlt _ w hno' hrun' hpe' rfl
        refine ⟨fuel + 1, fun qs r => ?_⟩
        obtain ⟨qs2, r2, e⟩ := quoRemLoop_succ (F := F) o ignore gs fuel hpe qs r
        rw [e]; exact hf qs2 r2
  by_cases hpe : p.isEmpty = true
  · refine ⟨1, fun qs r => ?_⟩
    rw [quoRemLoop, if_pos hpe]
    exact Option.some_ne_none _
  · exact aux _ p hp hno hrun hpe rfl

/-- more fuel does not change a completed run -/
theorem quoRemLoop_fuel_mono (o : Order) (ignore : Option Nat) (gs : List (BPoly α)) (k : Nat) :
    ∀ (fuel : Nat) (p : BPoly α) (qs : List (BPoly α)) (r : BPoly α)
      {x : List (BPoly α) × BPoly α},
      quoRemLoop F o ignore gs fuel p qs r = some x →
      quoRemLoop F o ignore gs (fuel + k) p qs r = some x := by
  intro fuel
  induction fuel with
  | zero => intro p qs r x h; simp [quoRemLoop] at h
  | succ fuel ih =>
    intro p qs r x h
    rw [show fuel + 1 + k = (fuel + k) + 1 by omega, quoRemLoop]
    rw [quoRemLoop] at h
    by_cases hpe : p.isEmpty = true
    · rw [if_pos hpe] at h ⊢; exact h
    · rw [if_neg hpe] at h ⊢
      simp only at h ⊢
      cases hfd : firstDiv o (ld o p) ignore gs 0 with
      | none => rw [hfd] at h; simp only at h ⊢; exact ih _ _ _ h
      | some y => rw [hfd] at h; simp only at h ⊢; exact ih _ _ _ h

/-- `QuoRem` terminates with a value (for enough fuel) -/
theorem quoRem_terminates {o : Order} (hadm : Admissible o) {ignore : Option Nat}
    {gs : List (BPoly α)} (hgs : ∀ g ∈ gs, WF L g ∧ g ≠ [] ∧ ∀ d ∈ keys g, NoOverflow o d)
    {f : BPoly α} (hf : WF L f) (hno : ∀ d ∈ keys f, NoOverflow o d)
    (hrun : ∀ fuel, RunOK F o ignore gs fuel f) :
    ∃ fuel qs r, quoRem F o fuel ignore f gs = .ok (some (qs, r)) := by
  obtain ⟨fuel, h⟩ := quoRemLoop_terminates L hadm hgs hf hno hrun
  refine ⟨fuel, ?_⟩
  unfold quoRem
  have ha : ¬ gs.any (·.isEmpty) = true := by
    intro ha
    obtain ⟨g, hg, hge⟩ := List.any_eq_true.1 ha
    exact (hgs g hg).2.1 (List.isEmpty_iff.1 hge)
  rw [if_neg ha]
  cases hq : quoRemLoop F o ignore gs fuel f (gs.map fun _ => []) [] with
  | none => exact absurd hq (h _ _)
  | some x => exact ⟨x.1, x.2, rfl⟩

/-! ### the products `qᵢ gᵢ` as computed by the library (`multNoReduce`) -/

theorem NoOverflow_zero (o : Order) : NoOverflow o (0, 0) := by
  refine ⟨by norm_num, by norm_num, ?_⟩
  unfold weightedDeg
  split
  · norm_num
  · rw [trueDeg_zero]; norm_num
  · rw [trueDeg_zero]; norm_num

theorem NoOverflow_ld {o : Order} (hadm : Admissible o) {f : BPoly α}
    (hno : ∀ d ∈ keys f, NoOverflow o d) : NoOverflow o (ld o f) := by
  by_cases hf : f = []
  · subst hf; exact NoOverflow_zero o
  · exact hno _ (ld_mem_keys hadm hf hno)

/-- under the degree invariant the product `q * g` is computed without overflow, exactly, and its
    leading exponent is at most `m` -/
theorem mulNoReduce_bound {o : Order} (hadm : Admissible o) {q g : BPoly α} {m : Deg}
    (hm0 : NoOverflow o m) (hq : CV L q) (hg : CV L g)
    (hQ : ∀ t ∈ keys q, ShiftNO o g t ∧ o.cmp ((ld o g).1 + t.1, (ld o g).2 + t.2) m ≤ 0) :
    ∃ h, mulNoReduce F q g = some h ∧ WF L h ∧ toMv L h = toMv L q * toMv L g ∧
      o.cmp (ld o h) m ≤ 0 := by
  have hno : ¬ Ovf q g := by
    rintro ⟨x, hx, y, hy, hn⟩
    have := (hQ x.1 (List.mem_map_of_mem hx)).1 y.1 (List.mem_map_of_mem hy)
    exact hn ⟨by have := this.1; simp only at this; omega,
      by have := this.2.1; simp only at this; omega⟩
  obtain ⟨h, e, w, t⟩ := mulNoReduce_some L hq hg hno
  refine ⟨h, e, w, t, ?_⟩
  by_cases hh : h = []
  · subst hh; exact cmp_zero_le' o hadm m hm0
  · have hb : ∀ d ∈ keys h, NoOverflow o d ∧ o.cmp d m ≤ 0 := by
      intro d hd
      have := (mem_keys_iff L w d).1 hd
      rw [t] at this
      exact mul_bound L hadm hQ d this
    exact (hb _ (ld_mem_keys hadm hh (fun d hd => (hb d hd).1))).2

/-! ### `RunOK` is decidable (used by the sanity evaluations) -/

instance (o : Order) (g : BPoly α) (dd : Deg) : Decidable (ShiftNO o g dd) := by
  unfold ShiftNO; infer_instance

/-- Boolean version of `RunOK` -/
def runOKb (F : FOps α) (o : Order) (ignore : Option Nat) (gs : List (BPoly α)) :
    Nat → BPoly α → Bool
  | 0, _ => true
  | fuel + 1, p =>
    if p.isEmpty then true
    else match firstDiv o (ld o p) ignore gs 0 with
      | some (_, g, dd) =>
        decide (ShiftNO o g dd) && runOKb F o ignore gs fuel (subShiftScale F p g dd (lcQuot F o p g))
      | none => runOKb F o ignore gs fuel (erase p (ld o p))

theorem runOKb_iff (o : Order) (ignore : Option Nat) (gs : List (BPoly α)) :
    ∀ (fuel : Nat) (p : BPoly α), runOKb F o ignore gs fuel p = true ↔ RunOK F o ignore gs fuel p := by
  intro fuel
  induction fuel with
  | zero => intro p; simp [runOKb, RunOK]
  | succ fuel ih =>
    intro p
    rw [runOKb, RunOK]
    by_cases hpe : p.isEmpty = true
    · simp [hpe]
    · rw [if_neg hpe, if_neg hpe]
      cases firstDiv o (ld o p) ignore gs 0 with
      | none => exact ih _
      | some x => simp only [Bool.and_eq_true, decide_eq_true_eq, ih]

instance (o : Order) (ignore : Option Nat) (gs : List (BPoly α)) (fuel : Nat) (p : BPoly α) :
    Decidable (RunOK F o ignore gs fuel p) :=
  decidable_of_iff _ (runOKb_iff o ignore gs fuel p)

/-- a completed run that did not wrap around is `RunOK` for every amount of fuel -/
theorem RunOK_of_complete (o : Order) (ignore : Option Nat) (gs : List (BPoly α)) :
    ∀ (fuel : Nat) (p : BPoly α) (qs : List (BPoly α)) (r : BPoly α)
      {x : List (BPoly α) × BPoly α},
      quoRemLoop F o ignore gs fuel p qs r = some x → RunOK F o ignore gs fuel p →
      ∀ fuel', RunOK F o ignore gs fuel' p := by
  intro fuel
  induction fuel with
  | zero => intro p qs r x h; simp [quoRemLoop] at h
  | succ fuel ih =>
    intro p qs r x h hrun fuel'
    cases fuel' with
    | zero => trivial
    | succ fuel' =>
      rw [RunOK] at hrun ⊢
      rw [quoRemLoop] at h
      by_cases hpe : p.isEmpty = true
      · rw [if_pos hpe]; trivial
      · rw [if_neg hpe] at h hrun ⊢
        simp only at h
        cases hfd : firstDiv o (ld o p) ignore gs 0 with
        | none =>
          rw [hfd] at h hrun
          simp only at h hrun ⊢
          exact ih _ _ _ h hrun fuel'
        | some y =>
          rw [hfd] at h hrun
          simp only at h hrun ⊢
          exact ⟨hrun.1, ih _ _ _ h hrun.2 fuel'⟩

end BPoly
end Algobra
