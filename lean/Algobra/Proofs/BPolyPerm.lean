/-
  Proofs/BPolyPerm.lean — the order in which a bivariate polynomial stores its terms does not
  influence division: `quoRemLoop`, `rem`, `reduceIn` return the same result on permuted inputs
  (association lists without duplicate keys).  Pure list reasoning, no field structure needed;
  the monomial comparison of every `Order` is total (`Order.cmp_isTot`).
  Used by `Props/C15Full.lean`: the parser rebuilds a polynomial in printing order.
-/
import Algobra.Proofs.BPolyRefine
import Algobra.Proofs.Order

namespace Algobra.BPoly
open Algobra Algobra.Order

variable {α : Type} {F : FOps α}

theorem ld_unique (o : Order) {ks : List Deg} {r r' : Deg}
    (h1 : r = (0, 0) ∨ r ∈ ks) (h2 : o.cmp (0, 0) r ≤ 0) (h3 : ∀ d ∈ ks, o.cmp d r ≤ 0)
    (h1' : r' = (0, 0) ∨ r' ∈ ks) (h2' : o.cmp (0, 0) r' ≤ 0) (h3' : ∀ d ∈ ks, o.cmp d r' ≤ 0) :
    r = r' := by
  have T := cmp_isTot o
  have key : o.cmp r r' ≤ 0 ∧ o.cmp r' r ≤ 0 := by
    constructor
    · rcases h1 with rfl | h
      · exact h2'
      · exact h3' r h
    · rcases h1' with rfl | h
      · exact h2
      · exact h3 r' h
  have := T.antisymm r r'
  exact (T.eq_zero r r').1 (by omega)

theorem ld_perm (o : Order) {f g : BPoly α} (h : f.Perm g) : ld o f = ld o g := by
  obtain ⟨a1, a2, a3⟩ := ld_aux o f (0, 0) _ (ld_eq_foldl o f).symm
  obtain ⟨b1, b2, b3⟩ := ld_aux o g (0, 0) _ (ld_eq_foldl o g).symm
  have hk : ∀ d, d ∈ okeys g ↔ d ∈ okeys f := fun d => ((h.map (·.1)).mem_iff).symm
  exact ld_unique o (ks := okeys f) a1 a2 a3
    (b1.imp id (fun hm => (hk _).1 hm)) b2 (fun d hd => b3 d ((hk d).2 hd))

theorem has_perm {f g : BPoly α} (h : f.Perm g) (d : Deg) : has f d = has g d := by
  cases hf : has f d with
  | true =>
    rw [has_eq_true_iff] at hf
    exact ((has_eq_true_iff g d).2 ((h.map (·.1)).mem_iff.1 hf)).symm
  | false =>
    rw [has_eq_false_iff] at hf
    exact ((has_eq_false_iff g d).2 (fun hm => hf ((h.map (·.1)).mem_iff.2 hm))).symm

theorem erase_perm {f g : BPoly α} (h : f.Perm g) (d : Deg) : (erase f d).Perm (erase g d) :=
  h.filter _

theorem keys_nodup_erase {f : BPoly α} (hf : (keys f).Nodup) (d : Deg) :
    (keys (erase f d)).Nodup :=
  hf.sublist ((List.filter_sublist (l := f)).map _)

theorem put_perm {f g : BPoly α} (h : f.Perm g) (d : Deg) (v : α) :
    (put f d v).Perm (put g d v) := by
  unfold put
  rw [← has_perm h d]
  split
  · exact h.map _
  · exact h.append_right _

theorem keys_nodup_put {f : BPoly α} (hf : (keys f).Nodup) (d : Deg) (v : α) :
    (keys (put f d v)).Nodup := by
  unfold put
  split
  · rw [keys_map_repl]; exact hf
  · rename_i hh
    have hd : d ∉ keys f := (has_eq_false_iff f d).1 (by simpa using hh)
    show ((f ++ [(d, v)]).map (·.1)).Nodup
    rw [List.map_append]
    exact List.Nodup.append hf (by simp) (by simpa using hd)

theorem decCoef_perm {f g : BPoly α} (h : f.Perm g) (hf : (keys f).Nodup) (d : Deg) (v : α) :
    (decCoef F f d v).Perm (decCoef F g d v) := by
  unfold decCoef
  rw [← has_perm h d, ← coef_perm h hf d]
  split
  · exact h
  · split
    · dsimp only
      split
      · exact erase_perm h d
      · exact put_perm h d _
    · exact h.append_right _

theorem keys_nodup_decCoef {f : BPoly α} (hf : (keys f).Nodup) (d : Deg) (v : α) :
    (keys (decCoef F f d v)).Nodup := by
  unfold decCoef
  split
  · exact hf
  · split
    · dsimp only
      split
      · exact keys_nodup_erase hf d
      · exact keys_nodup_put hf d _
    · rename_i hh
      have hd : d ∉ keys f := (has_eq_false_iff f d).1 (by simpa using hh)
      show ((f ++ [(d, F.neg v)]).map (·.1)).Nodup
      rw [List.map_append]
      exact List.Nodup.append hf (by simp) (by simpa using hd)

theorem foldl_decCoef_perm (φ : Deg × α → Option (Deg × α)) (g : BPoly α) :
    ∀ {f f' : BPoly α}, f.Perm f' → (keys f).Nodup →
    (g.foldl (fun acc x => match φ x with | none => acc | some y => decCoef F acc y.1 y.2) f).Perm
      (g.foldl (fun acc x => match φ x with | none => acc | some y => decCoef F acc y.1 y.2) f') ∧
    (keys (g.foldl (fun acc x => match φ x with
      | none => acc | some y => decCoef F acc y.1 y.2) f)).Nodup := by
  induction g with
  | nil => intro f f' h hf; exact ⟨h, hf⟩
  | cons x g ih =>
    intro f f' h hf
    rw [List.foldl_cons, List.foldl_cons]
    cases hx : φ x with
    | none => exact ih h hf
    | some y => exact ih (decCoef_perm h hf y.1 y.2) (keys_nodup_decCoef hf y.1 y.2)

theorem subShiftScale_perm {f f' : BPoly α} (h : f.Perm f') (hf : (keys f).Nodup) (g : BPoly α)
    (i : Deg) (a : α) :
    (subShiftScale F f g i a).Perm (subShiftScale F f' g i a) ∧
      (keys (subShiftScale F f g i a)).Nodup := by
  unfold subShiftScale
  split
  · exact ⟨h, hf⟩
  · split
    · have := foldl_decCoef_perm (F := F)
        (fun x : Deg × α => if F.isZero x.2 then none
          else some ((w64 (x.1.1 + i.1), w64 (x.1.2 + i.2)), x.2)) g h hf
      have e : ∀ (acc : BPoly α) (x : Deg × α),
          (match (if F.isZero x.2 then none
              else some ((w64 (x.1.1 + i.1), w64 (x.1.2 + i.2)), x.2) : Option (Deg × α)) with
            | none => acc | some y => decCoef F acc y.1 y.2) =
          (match x with | (d, c) => if F.isZero c then acc
            else decCoef F acc (w64 (d.1 + i.1), w64 (d.2 + i.2)) c) := by
        intro acc x; obtain ⟨d, c⟩ := x; by_cases hz : F.isZero c = true <;> simp [hz]
      simp only [e] at this
      exact this
    · have := foldl_decCoef_perm (F := F)
        (fun x : Deg × α => if F.isZero x.2 then none
          else some ((w64 (x.1.1 + i.1), w64 (x.1.2 + i.2)), F.mul a x.2)) g h hf
      have e : ∀ (acc : BPoly α) (x : Deg × α),
          (match (if F.isZero x.2 then none
              else some ((w64 (x.1.1 + i.1), w64 (x.1.2 + i.2)), F.mul a x.2) : Option (Deg × α)) with
            | none => acc | some y => decCoef F acc y.1 y.2) =
          (match x with | (d, c) => if F.isZero c then acc
            else decCoef F acc (w64 (d.1 + i.1), w64 (d.2 + i.2)) (F.mul a c)) := by
        intro acc x; obtain ⟨d, c⟩ := x; by_cases hz : F.isZero c = true <;> simp [hz]
      simp only [e] at this
      exact this

theorem lcQuot_perm (o : Order) {p p' : BPoly α} (h : p.Perm p') (hp : (keys p).Nodup)
    (g : BPoly α) : lcQuot F o p g = lcQuot F o p' g := by
  unfold lcQuot lc
  rw [← ld_perm o h, ← coef_perm h hp]

/-- the division loop does not depend on the order in which the dividend stores its terms -/
theorem quoRemLoop_perm (o : Order) (ignore : Option Nat) (gs : List (BPoly α)) :
    ∀ (fuel : Nat) {p p' : BPoly α} (qs : List (BPoly α)) (r : BPoly α), p.Perm p' →
    (keys p).Nodup →
    quoRemLoop F o ignore gs fuel p qs r = quoRemLoop F o ignore gs fuel p' qs r := by
  intro fuel
  induction fuel with
  | zero => intro p p' qs r _ _; rfl
  | succ fuel ih =>
    intro p p' qs r h hp
    rw [quoRemLoop, quoRemLoop]
    have he : p.isEmpty = p'.isEmpty := by
      cases p <;> cases p' <;> simp_all
    rw [← he]
    split
    · rfl
    · dsimp only
      rw [← ld_perm o h]
      cases hfd : firstDiv o (ld o p) ignore gs 0 with
      | some x =>
        obtain ⟨i, g, dd⟩ := x
        dsimp only
        rw [← lcQuot_perm o h hp g]
        obtain ⟨h1, h2⟩ := subShiftScale_perm (F := F) h hp g dd (lcQuot F o p g)
        exact ih _ _ h1 h2
      | none =>
        dsimp only
        rw [← coef_perm h hp]
        exact ih _ _ (erase_perm h _) (keys_nodup_erase hp _)

theorem rem_perm (o : Order) (fuel : Nat) {f f' : BPoly α} (h : f.Perm f') (hf : (keys f).Nodup)
    (gs : List (BPoly α)) : rem F o fuel f gs = rem F o fuel f' gs := by
  unfold rem quoRem
  by_cases hg : (gs.any fun x => List.isEmpty x) = true
  · simp only [hg, if_true]
  · simp only [hg]
    rw [quoRemLoop_perm o none gs fuel _ _ h hf]

/-- in a quotient ring, reduction does not depend on the order of the stored terms (without an
    ideal `reduceIn` returns its argument, so the results are permutations of each other) -/
theorem reduceIn_perm (R : Ring α) {gs : List (BPoly α)} (hR : R.ideal = some gs) {f f' : BPoly α}
    (h : f.Perm f') (hf : (keys f).Nodup) : reduceIn R f = reduceIn R f' := by
  unfold reduceIn
  rw [hR]
  dsimp only
  rw [rem_perm R.ord divFuel h hf]

end Algobra.BPoly
