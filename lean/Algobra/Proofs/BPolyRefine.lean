/-
  Proofs/BPolyRefine.lean — refinement of the association-list model `Algobra.BPoly` of bivariate
  polynomials to the specification ring `AddMonoidAlgebra K (ℕ × ℕ)` (= K[X,Y], the monomial
  X^a Y^b being `AddMonoidAlgebra.single (a,b) 1`).

  NOTE on notation: in this Mathlib `AddMonoidAlgebra` is a structure; the coefficient of `p` at `d`
  is `p.coeff d` (there is no function coercion), so "(toMv L f) d" is written `(toMv L f).coeff d`.
-/
import Mathlib.Algebra.MonoidAlgebra.Defs
import Mathlib.Algebra.MonoidAlgebra.Basic
import Mathlib.Algebra.BigOperators.Group.List.Basic
import Mathlib.Data.Finset.Card
import Mathlib.Tactic.Ring
import Algobra.Model.BPoly
import Algobra.Proofs.Lawful

namespace Algobra
namespace BPoly

open AddMonoidAlgebra (single)

variable {α : Type} {F : FOps α} {K : Type} [Field K]

/-- abstraction function: the polynomial of `K[X,Y]` represented by an association list -/
noncomputable def toMv (L : Lawful F K) (f : BPoly α) : AddMonoidAlgebra K (ℕ × ℕ) :=
  (f.map fun (d, c) => AddMonoidAlgebra.single d (L.embed c)).sum

/-- representation invariant: no duplicate exponent, every stored coefficient canonical and nonzero -/
def WF (L : Lawful F K) (f : BPoly α) : Prop :=
  (f.map (·.1)).Nodup ∧ ∀ dc ∈ f, L.valid dc.2 ∧ L.embed dc.2 ≠ 0

/-- weaker invariant (enough for second operands): every stored coefficient is canonical -/
def CV (L : Lawful F K) (f : BPoly α) : Prop := ∀ dc ∈ f, L.valid dc.2

/-- the keys (exponent pairs) of a polynomial -/
abbrev keys (f : BPoly α) : List Deg := f.map (·.1)

variable (L : Lawful F K)

/-! ### basic facts -/

theorem WF.cv {f : BPoly α} (h : WF L f) : CV L f := fun dc hdc => (h.2 dc hdc).1

theorem WF_nil : WF L ([] : BPoly α) := ⟨List.nodup_nil, fun _ h => by cases h⟩

theorem CV_nil : CV L ([] : BPoly α) := fun _ h => by cases h

theorem CV_cons {x : Deg × α} {f : BPoly α} : CV L (x :: f) ↔ L.valid x.2 ∧ CV L f := by
  simp [CV]

theorem WF_cons {x : Deg × α} {f : BPoly α} :
    WF L (x :: f) ↔ x.1 ∉ keys f ∧ (L.valid x.2 ∧ L.embed x.2 ≠ 0) ∧ WF L f := by
  unfold WF
  simp only [List.map_cons, List.nodup_cons, List.mem_cons, forall_eq_or_imp]
  tauto

@[simp] theorem toMv_nil : toMv L ([] : BPoly α) = 0 := rfl

theorem toMv_cons (x : Deg × α) (f : BPoly α) :
    toMv L (x :: f) = single x.1 (L.embed x.2) + toMv L f := by
  simp [toMv]

theorem toMv_append (f g : BPoly α) : toMv L (f ++ g) = toMv L f + toMv L g := by
  simp [toMv]

theorem toMv_perm {f g : BPoly α} (h : f.Perm g) : toMv L f = toMv L g :=
  (h.map _).sum_eq

/-! ### `coef`, `has` as list functions -/

@[simp] theorem coef_nil (d : Deg) : coef F ([] : BPoly α) d = F.zero := rfl

theorem coef_cons (x : Deg × α) (f : BPoly α) (d : Deg) :
    coef F (x :: f) d = if x.1 = d then x.2 else coef F f d := by
  unfold coef
  rw [List.find?_cons]
  by_cases h : x.1 = d
  · simp [h]
  · have hb : (x.1 == d) = false := by simpa using h
    simp [h, hb]

theorem has_eq_true_iff (f : BPoly α) (d : Deg) : has f d = true ↔ d ∈ keys f := by
  unfold has
  simp only [List.any_eq_true, beq_iff_eq, List.mem_map]

theorem has_eq_false_iff (f : BPoly α) (d : Deg) : has f d = false ↔ d ∉ keys f := by
  rw [← has_eq_true_iff]; simp

theorem coef_of_not_mem {f : BPoly α} {d : Deg} (h : d ∉ keys f) : coef F f d = F.zero := by
  induction f with
  | nil => rfl
  | cons x t ih =>
    simp only [keys, List.map_cons, List.mem_cons, not_or] at h
    rw [coef_cons, if_neg (Ne.symm h.1)]
    exact ih h.2

/-- the value found by `coef` at a present key is a stored pair -/
theorem coef_mem {f : BPoly α} {d : Deg} (h : d ∈ keys f) : (d, coef F f d) ∈ f := by
  induction f with
  | nil => cases h
  | cons x t ih =>
    rw [coef_cons]
    by_cases hx : x.1 = d
    · rw [if_pos hx]; subst hx; exact List.mem_cons_self
    · rw [if_neg hx]
      simp only [keys, List.map_cons, List.mem_cons] at h
      rcases h with h | h
      · exact absurd h.symm hx
      · exact List.mem_cons_of_mem _ (ih h)

theorem coef_of_mem {f : BPoly α} (hn : (keys f).Nodup) {d : Deg} {c : α} (h : (d, c) ∈ f) :
    coef F f d = c := by
  induction f with
  | nil => cases h
  | cons x t ih =>
    simp only [keys, List.map_cons, List.nodup_cons] at hn
    rw [coef_cons]
    rcases List.mem_cons.1 h with h | h
    · subst h; simp
    · have : x.1 ≠ d := by
        rintro rfl
        exact hn.1 (List.mem_map.2 ⟨_, h, rfl⟩)
      rw [if_neg this]; exact ih hn.2 h

theorem coef_valid {f : BPoly α} (h : CV L f) (d : Deg) : L.valid (coef F f d) := by
  by_cases hd : d ∈ keys f
  · exact h _ (coef_mem hd)
  · rw [coef_of_not_mem hd]; exact L.zero_valid

theorem coef_ne_zero {f : BPoly α} (h : WF L f) {d : Deg} (hd : d ∈ keys f) :
    L.embed (coef F f d) ≠ 0 := (h.2 _ (coef_mem hd)).2

/-! ### the coefficient function of `toMv` -/

theorem toMv_apply {f : BPoly α} (h : WF L f) (d : Deg) :
    (toMv L f).coeff d = L.embed (coef F f d) := by
  induction f with
  | nil => simp [L.embed_zero]
  | cons x t ih =>
    rw [WF_cons] at h
    rw [toMv_cons, coef_cons, AddMonoidAlgebra.coeff_add, Finsupp.add_apply,
      AddMonoidAlgebra.coeff_single, ih h.2.2]
    by_cases hx : x.1 = d
    · subst hx
      rw [if_pos rfl, Finsupp.single_eq_same, coef_of_not_mem h.1, L.embed_zero, add_zero]
    · rw [if_neg hx, Finsupp.single_eq_of_ne (Ne.symm hx), zero_add]

theorem mem_keys_iff {f : BPoly α} (h : WF L f) (d : Deg) :
    d ∈ f.map (·.1) ↔ (toMv L f).coeff d ≠ 0 := by
  rw [toMv_apply L h]
  constructor
  · exact fun hd => coef_ne_zero L h hd
  · intro hne
    by_contra hd
    exact hne (by rw [coef_of_not_mem hd, L.embed_zero])

/-- two well-formed lists with the same coefficient function denote the same polynomial -/
theorem toMv_eq_of_coef {f g : BPoly α} (hf : WF L f) (hg : WF L g)
    (h : ∀ d, L.embed (coef F f d) = L.embed (coef F g d)) : toMv L f = toMv L g := by
  apply AddMonoidAlgebra.ext
  ext d
  rw [toMv_apply L hf, toMv_apply L hg, h]

/-- generic form of a one-point update -/
theorem toMv_eq_add_single {f g : BPoly α} (hf : WF L f) (hg : WF L g) (d : Deg) (δ : K)
    (h : ∀ e, L.embed (coef F g e) = L.embed (coef F f e) + if e = d then δ else 0) :
    toMv L g = toMv L f + single d δ := by
  apply AddMonoidAlgebra.ext
  ext e
  rw [AddMonoidAlgebra.coeff_add, Finsupp.add_apply, toMv_apply L hf, toMv_apply L hg, h,
    AddMonoidAlgebra.coeff_single, Finsupp.single_apply]
  by_cases he : e = d
  · subst he; simp
  · rw [if_neg he, if_neg (Ne.symm he)]

/-! ### `erase` -/

theorem mem_keys_erase (f : BPoly α) (d e : Deg) : e ∈ keys (erase f d) ↔ e ∈ keys f ∧ e ≠ d := by
  unfold erase keys
  simp only [List.mem_map, List.mem_filter, bne_iff_ne, ne_eq]
  constructor
  · rintro ⟨x, ⟨hx, hne⟩, rfl⟩; exact ⟨⟨x, hx, rfl⟩, hne⟩
  · rintro ⟨⟨x, hx, rfl⟩, hne⟩; exact ⟨x, ⟨hx, hne⟩, rfl⟩

theorem coef_erase (f : BPoly α) (d e : Deg) :
    coef F (erase f d) e = if e = d then F.zero else coef F f e := by
  induction f with
  | nil => simp [erase]
  | cons x t ih =>
    unfold erase at ih ⊢
    rw [List.filter_cons]
    by_cases hx : x.1 = d
    · have hb : (x.1 != d) = false := by simp [hx]
      rw [hb]; simp only [Bool.false_eq_true, if_false]
      rw [ih, coef_cons]
      by_cases he : e = d
      · simp [he]
      · have : x.1 ≠ e := by rw [hx]; exact Ne.symm he
        simp [he, this]
    · have hb : (x.1 != d) = true := by simp [hx]
      rw [hb]; simp only [if_true]
      rw [coef_cons, coef_cons, ih]
      by_cases he : e = d
      · subst he; simp [hx]
      · simp [he]

theorem WF_erase {f : BPoly α} (h : WF L f) (d : Deg) : WF L (erase f d) := by
  refine ⟨?_, fun dc hdc => h.2 dc (List.mem_of_mem_filter hdc)⟩
  exact h.1.sublist (List.Sublist.map _ List.filter_sublist)

theorem toMv_erase {f : BPoly α} (h : WF L f) (d : Deg) :
    toMv L (erase f d) = toMv L f - single d (L.embed (coef F f d)) := by
  rw [sub_eq_add_neg, ← AddMonoidAlgebra.single_neg]
  apply toMv_eq_add_single L h (WF_erase L h d)
  intro e
  rw [coef_erase]
  by_cases he : e = d
  · subst he; simp [L.embed_zero]
  · simp [he]

/-! ### `put` -/

theorem keys_map_repl (f : BPoly α) (d : Deg) (v : α) :
    keys (f.map fun (k, c) => if k == d then (k, v) else (k, c)) = keys f := by
  unfold keys
  rw [List.map_map]
  apply List.map_congr_left
  rintro ⟨k, c⟩ _
  simp only [Function.comp]
  split <;> rfl

theorem coef_map_repl (f : BPoly α) (d e : Deg) (v : α) :
    coef F (f.map fun (k, c) => if k == d then (k, v) else (k, c)) e
      = if e = d ∧ d ∈ keys f then v else coef F f e := by
  induction f with
  | nil => simp
  | cons x t ih =>
    obtain ⟨k, c⟩ := x
    rw [List.map_cons, coef_cons, coef_cons, ih]
    by_cases hk : k = d
    · subst hk
      by_cases he : e = k
      · subst he; simp
      · have : ¬ k = e := fun h => he h.symm
        simp [he, this]
    · have hb : (k == d) = false := by simpa using hk
      simp only [hb, Bool.false_eq_true, if_false, keys, List.map_cons, List.mem_cons]
      by_cases he : e = d
      · subst he
        have h1 : ¬ e = k := fun h => hk h.symm
        simp only [h1, false_or]
        simp [hk]
      · simp [he]

theorem coef_append_single (f : BPoly α) {d : Deg} (hd : d ∉ keys f) (e : Deg) (v : α) :
    coef F (f ++ [(d, v)]) e = if e = d then v else coef F f e := by
  induction f with
  | nil => rw [List.nil_append, coef_cons]; simp [eq_comm]
  | cons x t ih =>
    simp only [keys, List.map_cons, List.mem_cons, not_or] at hd
    rw [List.cons_append, coef_cons, coef_cons, ih hd.2]
    by_cases hx : x.1 = e
    · have : ¬ e = d := by rw [← hx]; exact Ne.symm hd.1
      simp [hx, this]
    · simp [hx]

theorem coef_put (f : BPoly α) (d e : Deg) (v : α) :
    coef F (put f d v) e = if e = d then v else coef F f e := by
  unfold put
  by_cases h : has f d = true
  · rw [if_pos h, coef_map_repl]
    rw [has_eq_true_iff] at h
    simp [h]
  · rw [if_neg h]
    rw [Bool.not_eq_true, has_eq_false_iff] at h
    exact coef_append_single f h e v

theorem WF_append_single {f : BPoly α} (h : WF L f) {d : Deg} (hd : d ∉ keys f) {v : α}
    (hv : L.valid v) (hv0 : L.embed v ≠ 0) : WF L (f ++ [(d, v)]) := by
  constructor
  · rw [List.map_append, List.nodup_append]
    refine ⟨h.1, by simp, ?_⟩
    intro a ha b hb
    simp only [List.map_cons, List.map_nil, List.mem_singleton] at hb
    subst hb
    rintro rfl
    exact hd ha
  · intro dc hdc
    rcases List.mem_append.1 hdc with h1 | h1
    · exact h.2 dc h1
    · simp only [List.mem_singleton] at h1
      subst h1; exact ⟨hv, hv0⟩

theorem WF_put {f : BPoly α} (h : WF L f) (d : Deg) {v : α} (hv : L.valid v)
    (hv0 : L.embed v ≠ 0) : WF L (put f d v) := by
  unfold put
  by_cases hh : has f d = true
  · rw [if_pos hh]
    refine ⟨?_, ?_⟩
    · have := keys_map_repl f d v
      unfold keys at this
      rw [this]; exact h.1
    · intro dc hdc
      obtain ⟨⟨k, c⟩, hkc, rfl⟩ := List.mem_map.1 hdc
      simp only
      split
      · exact ⟨hv, hv0⟩
      · exact h.2 _ hkc
  · rw [if_neg hh]
    rw [Bool.not_eq_true, has_eq_false_iff] at hh
    exact WF_append_single L h hh hv hv0

theorem toMv_put {f : BPoly α} (h : WF L f) (d : Deg) {v : α} (hv : L.valid v)
    (hv0 : L.embed v ≠ 0) :
    toMv L (put f d v) = toMv L f + single d (L.embed v - L.embed (coef F f d)) := by
  apply toMv_eq_add_single L h (WF_put L h d hv hv0)
  intro e
  rw [coef_put]
  by_cases he : e = d
  · subst he; simp
  · simp [he]

/-! ### `setCoef`, `incCoef`, `decCoef` -/

theorem WF_setCoef {f : BPoly α} (h : WF L f) (d : Deg) {v : α} (hv : L.valid v) :
    WF L (setCoef F f d v) := by
  unfold setCoef
  by_cases hz : F.isZero v = true
  · rw [if_pos hz]; exact WF_erase L h d
  · rw [if_neg hz]
    exact WF_put L h d hv (fun h0 => hz ((L.isZero_iff v hv).2 h0))

theorem toMv_setCoef {f : BPoly α} (h : WF L f) (d : Deg) {v : α} (hv : L.valid v) :
    toMv L (setCoef F f d v) = toMv L f + single d (L.embed v - L.embed (coef F f d)) := by
  unfold setCoef
  by_cases hz : F.isZero v = true
  · rw [if_pos hz, toMv_erase L h, (L.isZero_iff v hv).1 hz, zero_sub,
      AddMonoidAlgebra.single_neg, sub_eq_add_neg]
  · rw [if_neg hz]
    exact toMv_put L h d hv (fun h0 => hz ((L.isZero_iff v hv).2 h0))

theorem coef_setCoef (f : BPoly α) (d e : Deg) (v : α) :
    coef F (setCoef F f d v) e
      = if e = d then (if F.isZero v then F.zero else v) else coef F f e := by
  unfold setCoef
  by_cases hz : F.isZero v = true
  · rw [if_pos hz, coef_erase]; simp [hz]
  · rw [if_neg hz, coef_put]; simp [hz]

theorem incCoef_spec {f : BPoly α} (h : WF L f) (d : Deg) {v : α} (hv : L.valid v) :
    WF L (incCoef F f d v) ∧ toMv L (incCoef F f d v) = toMv L f + single d (L.embed v) := by
  unfold incCoef
  by_cases hz : F.isZero v = true
  · rw [if_pos hz, (L.isZero_iff v hv).1 hz]
    exact ⟨h, by simp⟩
  · rw [if_neg hz]
    have hv0 : L.embed v ≠ 0 := fun h0 => hz ((L.isZero_iff v hv).2 h0)
    by_cases hh : has f d = true
    · rw [if_pos hh]
      have hc := coef_valid L h.cv d
      have hcv := L.add_valid _ _ hc hv
      have hce := L.embed_add _ _ hc hv
      simp only
      by_cases hz2 : F.isZero (F.add (coef F f d) v) = true
      · rw [if_pos hz2]
        refine ⟨WF_erase L h d, ?_⟩
        have h0 := (L.isZero_iff _ hcv).1 hz2
        rw [hce] at h0
        rw [toMv_erase L h, sub_eq_add_neg, ← AddMonoidAlgebra.single_neg,
          neg_eq_of_add_eq_zero_right h0]
      · rw [if_neg hz2]
        have hne : L.embed (F.add (coef F f d) v) ≠ 0 :=
          fun h0 => hz2 ((L.isZero_iff _ hcv).2 h0)
        refine ⟨WF_put L h d hcv hne, ?_⟩
        rw [toMv_put L h d hcv hne, hce, add_sub_cancel_left]
    · rw [if_neg hh]
      rw [Bool.not_eq_true, has_eq_false_iff] at hh
      refine ⟨WF_append_single L h hh hv hv0, ?_⟩
      rw [toMv_append, toMv_cons, toMv_nil, add_zero]

theorem WF_incCoef {f : BPoly α} (h : WF L f) (d : Deg) {v : α} (hv : L.valid v) :
    WF L (incCoef F f d v) := (incCoef_spec L h d hv).1

theorem toMv_incCoef {f : BPoly α} (h : WF L f) (d : Deg) {v : α} (hv : L.valid v) :
    toMv L (incCoef F f d v) = toMv L f + single d (L.embed v) := (incCoef_spec L h d hv).2

theorem decCoef_spec {f : BPoly α} (h : WF L f) (d : Deg) {v : α} (hv : L.valid v) :
    WF L (decCoef F f d v) ∧ toMv L (decCoef F f d v) = toMv L f - single d (L.embed v) := by
  unfold decCoef
  by_cases hz : F.isZero v = true
  · rw [if_pos hz, (L.isZero_iff v hv).1 hz]
    exact ⟨h, by simp⟩
  · rw [if_neg hz]
    have hv0 : L.embed v ≠ 0 := fun h0 => hz ((L.isZero_iff v hv).2 h0)
    by_cases hh : has f d = true
    · rw [if_pos hh]
      have hc := coef_valid L h.cv d
      have hcv := L.sub_valid _ _ hc hv
      have hce := L.embed_sub _ _ hc hv
      simp only
      by_cases hz2 : F.isZero (F.sub (coef F f d) v) = true
      · rw [if_pos hz2]
        refine ⟨WF_erase L h d, ?_⟩
        have h0 := (L.isZero_iff _ hcv).1 hz2
        rw [hce] at h0
        rw [toMv_erase L h, sub_eq_zero.1 h0]
      · rw [if_neg hz2]
        have hne : L.embed (F.sub (coef F f d) v) ≠ 0 :=
          fun h0 => hz2 ((L.isZero_iff _ hcv).2 h0)
        refine ⟨WF_put L h d hcv hne, ?_⟩
        rw [toMv_put L h d hcv hne, hce, sub_sub_cancel_left, AddMonoidAlgebra.single_neg,
          sub_eq_add_neg]
    · rw [if_neg hh]
      rw [Bool.not_eq_true, has_eq_false_iff] at hh
      have hnv := L.neg_valid v hv
      have hne : L.embed (F.neg v) ≠ 0 := by rw [L.embed_neg v hv]; exact neg_ne_zero.2 hv0
      refine ⟨WF_append_single L h hh hnv hne, ?_⟩
      rw [toMv_append, toMv_cons, toMv_nil, add_zero, L.embed_neg v hv,
        AddMonoidAlgebra.single_neg, sub_eq_add_neg]

theorem WF_decCoef {f : BPoly α} (h : WF L f) (d : Deg) {v : α} (hv : L.valid v) :
    WF L (decCoef F f d v) := (decCoef_spec L h d hv).1

theorem toMv_decCoef {f : BPoly α} (h : WF L f) (d : Deg) {v : α} (hv : L.valid v) :
    toMv L (decCoef F f d v) = toMv L f - single d (L.embed v) := (decCoef_spec L h d hv).2

/-! ### `add`, `sub`, `neg`, `scale` -/

theorem add_spec {f g : BPoly α} (hf : WF L f) (hg : CV L g) :
    WF L (add F f g) ∧ toMv L (add F f g) = toMv L f + toMv L g := by
  unfold add
  induction g generalizing f with
  | nil => exact ⟨hf, by simp⟩
  | cons x t ih =>
    rw [CV_cons] at hg
    rw [List.foldl_cons]
    obtain ⟨h1, h2⟩ := incCoef_spec L hf x.1 hg.1
    obtain ⟨h3, h4⟩ := ih h1 hg.2
    exact ⟨h3, by rw [h4, h2, toMv_cons, add_assoc]⟩

theorem WF_add {f g : BPoly α} (hf : WF L f) (hg : CV L g) : WF L (add F f g) :=
  (add_spec L hf hg).1

theorem toMv_add {f g : BPoly α} (hf : WF L f) (hg : CV L g) :
    toMv L (add F f g) = toMv L f + toMv L g := (add_spec L hf hg).2

theorem sub_spec {f g : BPoly α} (hf : WF L f) (hg : CV L g) :
    WF L (sub F f g) ∧ toMv L (sub F f g) = toMv L f - toMv L g := by
  unfold sub
  induction g generalizing f with
  | nil => exact ⟨hf, by simp⟩
  | cons x t ih =>
    rw [CV_cons] at hg
    rw [List.foldl_cons]
    obtain ⟨h1, h2⟩ := decCoef_spec L hf x.1 hg.1
    obtain ⟨h3, h4⟩ := ih h1 hg.2
    exact ⟨h3, by rw [h4, h2, toMv_cons, sub_sub]⟩

theorem WF_sub {f g : BPoly α} (hf : WF L f) (hg : CV L g) : WF L (sub F f g) :=
  (sub_spec L hf hg).1

theorem toMv_sub {f g : BPoly α} (hf : WF L f) (hg : CV L g) :
    toMv L (sub F f g) = toMv L f - toMv L g := (sub_spec L hf hg).2

theorem keys_neg (f : BPoly α) : keys (neg F f) = keys f := by
  unfold keys neg
  rw [List.map_map]
  exact List.map_congr_left fun x _ => rfl

theorem WF_neg {f : BPoly α} (hf : WF L f) : WF L (neg F f) := by
  refine ⟨by have := keys_neg (F := F) f; unfold keys at this; rw [this]; exact hf.1, ?_⟩
  intro dc hdc
  unfold neg at hdc
  obtain ⟨⟨d, c⟩, hx, rfl⟩ := List.mem_map.1 hdc
  obtain ⟨hv, h0⟩ := hf.2 _ hx
  exact ⟨L.neg_valid c hv, by simp only [L.embed_neg c hv]; exact neg_ne_zero.2 h0⟩

theorem toMv_neg {f : BPoly α} (hf : CV L f) : toMv L (neg F f) = - toMv L f := by
  unfold neg
  induction f with
  | nil => simp
  | cons x t ih =>
    rw [CV_cons] at hf
    rw [List.map_cons, toMv_cons, toMv_cons, ih hf.2]
    simp only [L.embed_neg x.2 hf.1, AddMonoidAlgebra.single_neg, neg_add]

theorem scale_of_isZero (f : BPoly α) {c : α} (h : F.isZero c = true) : scale F f c = [] := by
  unfold scale; rw [if_pos h]

theorem WF_scale {f : BPoly α} (hf : WF L f) {c : α} (hc : L.valid c) : WF L (scale F f c) := by
  unfold scale
  by_cases hz : F.isZero c = true
  · rw [if_pos hz]; exact WF_nil L
  · rw [if_neg hz]
    have hc0 : L.embed c ≠ 0 := fun h0 => hz ((L.isZero_iff c hc).2 h0)
    refine ⟨?_, ?_⟩
    · rw [List.map_map]
      have : ((fun x : Deg × α => x.1) ∘ fun x : Deg × α => (x.1, F.mul x.2 c))
          = fun x : Deg × α => x.1 := rfl
      exact this ▸ hf.1
    · intro dc hdc
      obtain ⟨⟨d, x⟩, hx, rfl⟩ := List.mem_map.1 hdc
      obtain ⟨hv, h0⟩ := hf.2 _ hx
      exact ⟨L.mul_valid x c hv hc, by
        simp only [L.embed_mul x c hv hc]; exact mul_ne_zero h0 hc0⟩

theorem toMv_scale {f : BPoly α} (hf : CV L f) {c : α} (hc : L.valid c) :
    toMv L (scale F f c) = single 0 (L.embed c) * toMv L f := by
  unfold scale
  by_cases hz : F.isZero c = true
  · rw [if_pos hz, (L.isZero_iff c hc).1 hz]; simp
  · rw [if_neg hz]
    induction f with
    | nil => simp
    | cons x t ih =>
      rw [CV_cons] at hf
      rw [List.map_cons, toMv_cons, toMv_cons, ih hf.2, mul_add,
        AddMonoidAlgebra.single_mul_single]
      simp only [L.embed_mul x.2 c hf.1 hc, zero_add, mul_comm]

/-- `scale` as scalar multiplication -/
theorem toMv_scale_smul {f : BPoly α} (hf : CV L f) {c : α} (hc : L.valid c) :
    toMv L (scale F f c) = L.embed c • toMv L f := by
  rw [toMv_scale L hf hc]
  apply AddMonoidAlgebra.ext
  ext d
  rw [AddMonoidAlgebra.coeff_single_zero_mul, AddMonoidAlgebra.coeff_smul, Finsupp.smul_apply,
    smul_eq_mul]

/-! ### `subShiftScale` -/

/-- all exponents are machine words (Go `uint`) -/
def Bounded (f : BPoly α) : Prop := ∀ dc ∈ f, dc.1.1 < 2 ^ 64 ∧ dc.1.2 < 2 ^ 64

/-- shifting every exponent of `g` by `i` stays inside the machine word -/
def ShiftOK (g : BPoly α) (i : Deg) : Prop :=
  ∀ dc ∈ g, dc.1.1 + i.1 < 2 ^ 64 ∧ dc.1.2 + i.2 < 2 ^ 64

theorem Bounded_nil : Bounded ([] : BPoly α) := fun _ h => by cases h

theorem Bounded_cons {x : Deg × α} {f : BPoly α} :
    Bounded (x :: f) ↔ (x.1.1 < 2 ^ 64 ∧ x.1.2 < 2 ^ 64) ∧ Bounded f := by
  simp [Bounded]

theorem ShiftOK_cons {x : Deg × α} {g : BPoly α} {i : Deg} :
    ShiftOK (x :: g) i ↔ (x.1.1 + i.1 < 2 ^ 64 ∧ x.1.2 + i.2 < 2 ^ 64) ∧ ShiftOK g i := by
  simp [ShiftOK]

theorem w64_of_lt {n : Nat} (h : n < 2 ^ 64) : w64 n = n := Nat.mod_eq_of_lt h

/-- generic loop of `subWithShiftAndScale`: `m` is the coefficient transformation -/
theorem subShift_loop (m : α → α) (ea : K)
    (hm : ∀ c, L.valid c → L.valid (m c) ∧ L.embed (m c) = ea * L.embed c)
    {f g : BPoly α} (i : Deg) (hf : WF L f) (hg : CV L g) (hs : ShiftOK g i) :
    WF L (g.foldl (fun acc (d, c) => if F.isZero c then acc
        else decCoef F acc (w64 (d.1 + i.1), w64 (d.2 + i.2)) (m c)) f) ∧
    toMv L (g.foldl (fun acc (d, c) => if F.isZero c then acc
        else decCoef F acc (w64 (d.1 + i.1), w64 (d.2 + i.2)) (m c)) f)
      = toMv L f - single i ea * toMv L g := by
  induction g generalizing f with
  | nil => exact ⟨hf, by simp⟩
  | cons x t ih =>
    obtain ⟨d, c⟩ := x
    rw [CV_cons] at hg
    rw [ShiftOK_cons] at hs
    rw [List.foldl_cons]
    simp only at hg hs ⊢
    have hstep : WF L (if F.isZero c then f
          else decCoef F f (w64 (d.1 + i.1), w64 (d.2 + i.2)) (m c)) ∧
        toMv L (if F.isZero c then f
          else decCoef F f (w64 (d.1 + i.1), w64 (d.2 + i.2)) (m c))
          = toMv L f - single i ea * single d (L.embed c) := by
      by_cases hz : F.isZero c = true
      · rw [if_pos hz, (L.isZero_iff c hg.1).1 hz]
        exact ⟨hf, by simp⟩
      · rw [if_neg hz, w64_of_lt hs.1.1, w64_of_lt hs.1.2]
        obtain ⟨h1, h2⟩ := decCoef_spec L hf (d.1 + i.1, d.2 + i.2) (hm c hg.1).1
        refine ⟨h1, ?_⟩
        rw [h2, (hm c hg.1).2, AddMonoidAlgebra.single_mul_single]
        have : ((d.1 + i.1, d.2 + i.2) : Deg) = i + d :=
          Prod.ext (Nat.add_comm _ _) (Nat.add_comm _ _)
        rw [this]
    obtain ⟨h3, h4⟩ := ih hstep.1 hg.2 hs.2
    refine ⟨h3, ?_⟩
    rw [h4, hstep.2, toMv_cons, mul_add, sub_sub]

theorem subShiftScale_spec {f g : BPoly α} (i : Deg) {a : α} (hf : WF L f) (hg : CV L g)
    (ha : L.valid a) (hs : ShiftOK g i) :
    WF L (subShiftScale F f g i a) ∧
    toMv L (subShiftScale F f g i a) = toMv L f - single i (L.embed a) * toMv L g := by
  unfold subShiftScale
  by_cases hz : F.isZero a = true
  · rw [if_pos hz, (L.isZero_iff a ha).1 hz]
    exact ⟨hf, by simp⟩
  · rw [if_neg hz]
    by_cases h1 : F.isOne a = true
    · rw [if_pos h1]
      have := subShift_loop L (fun c => c) (L.embed a)
        (fun c hc => ⟨hc, by rw [(L.isOne_iff a ha).1 h1, one_mul]⟩) i hf hg hs
      exact this
    · rw [if_neg h1]
      exact subShift_loop L (fun c => F.mul a c) (L.embed a)
        (fun c hc => ⟨L.mul_valid a c ha hc, L.embed_mul a c ha hc⟩) i hf hg hs

theorem WF_subShiftScale {f g : BPoly α} (i : Deg) {a : α} (hf : WF L f) (hg : CV L g)
    (ha : L.valid a) (hs : ShiftOK g i) : WF L (subShiftScale F f g i a) :=
  (subShiftScale_spec L i hf hg ha hs).1

theorem toMv_subShiftScale {f g : BPoly α} (i : Deg) {a : α} (hf : WF L f) (hg : CV L g)
    (ha : L.valid a) (hs : ShiftOK g i) :
    toMv L (subShiftScale F f g i a) = toMv L f - single i (L.embed a) * toMv L g :=
  (subShiftScale_spec L i hf hg ha hs).2

/-! ### `addDegs`, `mulNoReduce` -/

/-- the exponent sum of two terms fits the machine word -/
def NoOvf (a b : Deg) : Prop := a.1 + b.1 < 2 ^ 64 ∧ a.2 + b.2 < 2 ^ 64

instance (a b : Deg) : Decidable (NoOvf a b) := by unfold NoOvf; infer_instance

theorem addDegs_of_noOvf {a b : Deg} (h : NoOvf a b) : addDegs a b = some (a + b) := by
  unfold addDegs
  simp only [w64_of_lt h.1, w64_of_lt h.2]
  rw [if_neg (by simp)]
  rfl

theorem addDegs_of_ovf {a b : Deg} (ha : a.1 < 2 ^ 64 ∧ a.2 < 2 ^ 64)
    (hb : b.1 < 2 ^ 64 ∧ b.2 < 2 ^ 64) (h : ¬ NoOvf a b) : addDegs a b = none := by
  have hw : w64 (a.1 + b.1) < a.1 ∨ w64 (a.2 + b.2) < a.2 := by
    unfold NoOvf at h; unfold w64; omega
  unfold addDegs
  simp only
  rw [if_pos]
  simpa only [Bool.or_eq_true, decide_eq_true_eq] using hw

theorem addDegs_eq_none_iff {a b : Deg} (ha : a.1 < 2 ^ 64 ∧ a.2 < 2 ^ 64)
    (hb : b.1 < 2 ^ 64 ∧ b.2 < 2 ^ 64) : addDegs a b = none ↔ ¬ NoOvf a b := by
  constructor
  · intro h hn; rw [addDegs_of_noOvf hn] at h; cases h
  · exact addDegs_of_ovf ha hb

/-- the inner loop of `multNoReduce` (one term of `f` against all of `g`) -/
abbrev mulInner (F : FOps α) (df : Deg) (cf : α) (g : BPoly α) (acc : Option (BPoly α)) :
    Option (BPoly α) :=
  g.foldl (fun acc (dg, cg) =>
      match acc, addDegs df dg with
      | some h, some s => some (incCoef F h s (F.mul cf cg))
      | _, _ => none) acc

theorem mulInner_none (df : Deg) (cf : α) (g : BPoly α) : mulInner F df cf g none = none := by
  induction g with
  | nil => rfl
  | cons x t ih => rw [mulInner, List.foldl_cons]; exact ih

theorem mulInner_some {df : Deg} {cf : α} {g h : BPoly α} (hh : WF L h) (hcf : L.valid cf)
    (hg : CV L g) (hno : ∀ dc ∈ g, NoOvf df dc.1) :
    ∃ h', mulInner F df cf g (some h) = some h' ∧ WF L h' ∧
      toMv L h' = toMv L h + single df (L.embed cf) * toMv L g := by
  induction g generalizing h with
  | nil => exact ⟨h, rfl, hh, by simp⟩
  | cons x t ih =>
    obtain ⟨dg, cg⟩ := x
    rw [CV_cons] at hg
    have hx : NoOvf df dg := hno _ List.mem_cons_self
    have hv := L.mul_valid cf cg hcf hg.1
    obtain ⟨h1, h2⟩ := incCoef_spec L hh (df + dg) hv
    obtain ⟨h', e1, e2, e3⟩ := ih h1 hg.2 (fun dc hdc => hno dc (List.mem_cons_of_mem _ hdc))
    refine ⟨h', ?_, e2, ?_⟩
    · rw [mulInner, List.foldl_cons]
      simp only [addDegs_of_noOvf hx]
      exact e1
    · rw [e3, h2, toMv_cons, mul_add, AddMonoidAlgebra.single_mul_single,
        L.embed_mul cf cg hcf hg.1, add_assoc]

theorem mulInner_ovf {df : Deg} {cf : α} {g : BPoly α} (acc : Option (BPoly α))
    (hdf : df.1 < 2 ^ 64 ∧ df.2 < 2 ^ 64) (hg : Bounded g)
    (hov : ∃ dc ∈ g, ¬ NoOvf df dc.1) : mulInner F df cf g acc = none := by
  induction g generalizing acc with
  | nil => obtain ⟨_, h, _⟩ := hov; cases h
  | cons x t ih =>
    obtain ⟨dg, cg⟩ := x
    rw [Bounded_cons] at hg
    rw [mulInner, List.foldl_cons]
    by_cases hx : NoOvf df dg
    · obtain ⟨dc, hdc, hn⟩ := hov
      rcases List.mem_cons.1 hdc with rfl | hdc
      · exact absurd hx hn
      · exact ih _ hg.2 ⟨dc, hdc, hn⟩
    · have : addDegs df dg = none := addDegs_of_ovf hdf hg.1 hx
      simp only [this]
      exact mulInner_none df cf t

/-- some pair of terms of `f` and `g` has an exponent sum that does not fit a machine word -/
def Ovf (f g : BPoly α) : Prop := ∃ x ∈ f, ∃ y ∈ g, ¬ NoOvf x.1 y.1

/-- the outer loop of `multNoReduce` -/
abbrev mulOuter (F : FOps α) (f g : BPoly α) (acc : Option (BPoly α)) : Option (BPoly α) :=
  f.foldl (fun acc (df, cf) => mulInner F df cf g acc) acc

theorem mulNoReduce_eq (f g : BPoly α) : mulNoReduce F f g = mulOuter F f g (some []) := rfl

theorem mulOuter_none (f g : BPoly α) : mulOuter F f g none = none := by
  induction f with
  | nil => rfl
  | cons x t ih =>
    rw [mulOuter, List.foldl_cons]
    simp only [mulInner_none]
    exact ih

theorem mulOuter_some {f g h : BPoly α} (hh : WF L h) (hf : CV L f) (hg : CV L g)
    (hno : ¬ Ovf f g) :
    ∃ h', mulOuter F f g (some h) = some h' ∧ WF L h' ∧
      toMv L h' = toMv L h + toMv L f * toMv L g := by
  induction f generalizing h with
  | nil => exact ⟨h, rfl, hh, by simp⟩
  | cons x t ih =>
    rw [CV_cons] at hf
    have hx : ∀ dc ∈ g, NoOvf x.1 dc.1 := by
      intro dc hdc
      by_contra hn
      exact hno ⟨x, List.mem_cons_self, dc, hdc, hn⟩
    obtain ⟨h1, e1, w1, t1⟩ := mulInner_some L (df := x.1) hh hf.1 hg hx
    have hno' : ¬ Ovf t g := fun ⟨a, ha, b, hb, hn⟩ => hno ⟨a, List.mem_cons_of_mem _ ha, b, hb, hn⟩
    obtain ⟨h', e2, w2, t2⟩ := ih w1 hf.2 hno'
    refine ⟨h', ?_, w2, ?_⟩
    · rw [mulOuter, List.foldl_cons]
      simp only [e1]
      exact e2
    · rw [t2, t1, toMv_cons, add_mul, add_assoc]

theorem mulOuter_ovf {f g : BPoly α} (acc : Option (BPoly α)) (hf : Bounded f) (hg : Bounded g)
    (hov : Ovf f g) : mulOuter F f g acc = none := by
  induction f generalizing acc with
  | nil => obtain ⟨_, h, _⟩ := hov; cases h
  | cons x t ih =>
    rw [Bounded_cons] at hf
    rw [mulOuter, List.foldl_cons]
    by_cases hx : ∃ dc ∈ g, ¬ NoOvf x.1 dc.1
    · simp only [mulInner_ovf acc hf.1 hg hx]
      exact mulOuter_none t g
    · obtain ⟨a, ha, b, hb, hn⟩ := hov
      rcases List.mem_cons.1 ha with rfl | ha
      · exact absurd ⟨b, hb, hn⟩ hx
      · exact ih _ hf.2 ⟨a, ha, b, hb, hn⟩

/-- `multNoReduce` reports overflow exactly when some pair of terms overflows -/
theorem mulNoReduce_none_iff {f g : BPoly α} (hf : WF L f) (hg : WF L g) (bf : Bounded f)
    (bg : Bounded g) : mulNoReduce F f g = none ↔ Ovf f g := by
  rw [mulNoReduce_eq]
  constructor
  · intro h
    by_contra hno
    obtain ⟨h', e, -, -⟩ := mulOuter_some L (WF_nil L) hf.cv hg.cv hno
    rw [e] at h; cases h
  · exact mulOuter_ovf _ bf bg

/-- the product is exact whenever `multNoReduce` does not report overflow -/
theorem toMv_mulNoReduce {f g h : BPoly α} (hf : WF L f) (hg : WF L g) (bf : Bounded f)
    (bg : Bounded g) (hm : mulNoReduce F f g = some h) :
    toMv L h = toMv L f * toMv L g ∧ WF L h := by
  have hno : ¬ Ovf f g := by
    intro hov
    rw [(mulNoReduce_none_iff L hf hg bf bg).2 hov] at hm; cases hm
  obtain ⟨h', e, w, t⟩ := mulOuter_some L (WF_nil L) hf.cv hg.cv hno
  rw [mulNoReduce_eq, e] at hm
  cases hm
  exact ⟨by rw [t, toMv_nil, zero_add], w⟩

/-- without overflowing pairs `multNoReduce` succeeds -/
theorem mulNoReduce_some {f g : BPoly α} (hf : CV L f) (hg : CV L g) (hno : ¬ Ovf f g) :
    ∃ h, mulNoReduce F f g = some h ∧ WF L h ∧ toMv L h = toMv L f * toMv L g := by
  obtain ⟨h', e, w, t⟩ := mulOuter_some L (WF_nil L) hf hg hno
  exact ⟨h', e, w, by rw [t, toMv_nil, zero_add]⟩

/-! ### observers -/

theorem isZero_iff {f : BPoly α} (hf : WF L f) : isZero f = true ↔ toMv L f = 0 := by
  unfold isZero
  cases f with
  | nil => simp
  | cons x t =>
    simp only [List.isEmpty_cons, Bool.false_eq_true, false_iff]
    intro h0
    have hx : x.1 ∈ (x :: t).map (·.1) := by simp
    have := (mem_keys_iff L hf x.1).1 hx
    rw [h0] at this
    exact this rfl

theorem support_toMv {f : BPoly α} (hf : WF L f) :
    (toMv L f).coeff.support = (keys f).toFinset := by
  ext d
  rw [Finsupp.mem_support_iff, List.mem_toFinset]
  exact (mem_keys_iff L hf d).symm

theorem card_support_toMv {f : BPoly α} (hf : WF L f) :
    (toMv L f).coeff.support.card = f.length := by
  rw [support_toMv L hf, List.toFinset_card_of_nodup hf.1, List.length_map]

theorem isMonomial_iff {f : BPoly α} (hf : WF L f) :
    isMonomial f = true ↔ (toMv L f).coeff.support.card = 1 := by
  rw [card_support_toMv L hf]
  unfold isMonomial
  simp

theorem equal_iff {f g : BPoly α} (hf : WF L f) (hg : WF L g) :
    equal F f g = true ↔ toMv L f = toMv L g := by
  unfold equal
  rw [Bool.and_eq_true, beq_iff_eq, List.all_eq_true]
  constructor
  · rintro ⟨hlen, hall⟩
    have hsub : (keys f).toFinset ⊆ (keys g).toFinset := by
      intro d hd
      rw [List.mem_toFinset] at hd ⊢
      have := hall _ (coef_mem (F := F) hd)
      simp only [Bool.and_eq_true] at this
      exact (has_eq_true_iff g d).1 this.1
    have hcard : (keys g).toFinset.card ≤ (keys f).toFinset.card := by
      rw [List.toFinset_card_of_nodup hf.1, List.toFinset_card_of_nodup hg.1, List.length_map,
        List.length_map, hlen]
    have heq := Finset.eq_of_subset_of_card_le hsub hcard
    apply toMv_eq_of_coef L hf hg
    intro d
    by_cases hd : d ∈ keys f
    · have := hall _ (coef_mem (F := F) hd)
      simp only [Bool.and_eq_true] at this
      have hb := (L.beq_iff _ _ (coef_valid L hg.cv d) (coef_valid L hf.cv d)).1 this.2
      rw [hb]
    · have hd' : d ∉ keys g := by
        intro h
        have : d ∈ (keys f).toFinset := by rw [heq]; exact List.mem_toFinset.2 h
        exact hd (List.mem_toFinset.1 this)
      rw [coef_of_not_mem hd, coef_of_not_mem hd']
  · intro heq
    have hk : ∀ d, d ∈ keys f ↔ d ∈ keys g := fun d => by
      rw [mem_keys_iff L hf, mem_keys_iff L hg, heq]
    constructor
    · have := card_support_toMv L hf
      rw [heq, card_support_toMv L hg] at this
      exact this.symm
    · rintro ⟨d, c⟩ hdc
      have hd : d ∈ keys f := List.mem_map.2 ⟨_, hdc, rfl⟩
      have hd' := (hk d).1 hd
      simp only [Bool.and_eq_true]
      refine ⟨(has_eq_true_iff g d).2 hd', ?_⟩
      have hc : coef F f d = c := coef_of_mem hf.1 hdc
      have he : L.embed (coef F g d) = L.embed c := by
        rw [← toMv_apply L hg, ← heq, toMv_apply L hf, hc]
      have hcv : L.valid c := (hf.2 _ hdc).1
      exact (L.beq_iff _ _ (coef_valid L hg.cv d) hcv).2
        (L.inj _ _ (coef_valid L hg.cv d) hcv he)

/-! ### `eval` -/

theorem eval_loop
    (hpow : ∀ a n, L.valid a → L.valid (F.pow a n) ∧ L.embed (F.pow a n) = L.embed a ^ n)
    {x y : α} (hx : L.valid x) (hy : L.valid y) {f : BPoly α} (hf : CV L f) {acc : α}
    (hacc : L.valid acc) :
    L.valid (f.foldl (fun out (d, c) =>
        F.add out (F.mul (F.mul c (F.pow x d.1)) (F.pow y d.2))) acc) ∧
    L.embed (f.foldl (fun out (d, c) =>
        F.add out (F.mul (F.mul c (F.pow x d.1)) (F.pow y d.2))) acc)
      = L.embed acc
        + (f.map fun dc => L.embed dc.2 * L.embed x ^ dc.1.1 * L.embed y ^ dc.1.2).sum := by
  induction f generalizing acc with
  | nil => exact ⟨hacc, by simp⟩
  | cons t r ih =>
    obtain ⟨d, c⟩ := t
    rw [CV_cons] at hf
    rw [List.foldl_cons]
    have hpx := hpow x d.1 hx
    have hpy := hpow y d.2 hy
    have h1 := L.mul_valid c _ hf.1 hpx.1
    have h2 := L.mul_valid _ _ h1 hpy.1
    have h3 := L.add_valid _ _ hacc h2
    obtain ⟨v, e⟩ := ih hf.2 h3
    refine ⟨v, ?_⟩
    rw [e, L.embed_add _ _ hacc h2, L.embed_mul _ _ h1 hpy.1, L.embed_mul _ _ hf.1 hpx.1,
      hpx.2, hpy.2, List.map_cons, List.sum_cons, add_assoc]

theorem eval_valid
    (hpow : ∀ a n, L.valid a → L.valid (F.pow a n) ∧ L.embed (F.pow a n) = L.embed a ^ n)
    {x y : α} (hx : L.valid x) (hy : L.valid y) {f : BPoly α} (hf : CV L f) :
    L.valid (eval F f x y) := (eval_loop L hpow hx hy hf L.zero_valid).1

/-- evaluation, as a sum over the stored terms -/
theorem eval_spec_list
    (hpow : ∀ a n, L.valid a → L.valid (F.pow a n) ∧ L.embed (F.pow a n) = L.embed a ^ n)
    {x y : α} (hx : L.valid x) (hy : L.valid y) {f : BPoly α} (hf : CV L f) :
    L.embed (eval F f x y)
      = (f.map fun dc => L.embed dc.2 * L.embed x ^ dc.1.1 * L.embed y ^ dc.1.2).sum := by
  have := (eval_loop L hpow hx hy hf L.zero_valid).2
  rw [L.embed_zero, zero_add] at this
  exact this

/-- a `Finsupp.sum` over the denoted polynomial is the sum over the stored terms -/
theorem sum_toMv (φ : Deg → K → K) (h0 : ∀ d, φ d 0 = 0)
    (hadd : ∀ d a b, φ d (a + b) = φ d a + φ d b) (f : BPoly α) :
    (toMv L f).coeff.sum φ = (f.map fun dc => φ dc.1 (L.embed dc.2)).sum := by
  induction f with
  | nil => simp
  | cons x t ih =>
    rw [toMv_cons, AddMonoidAlgebra.coeff_add, AddMonoidAlgebra.coeff_single,
      Finsupp.sum_add_index' h0 hadd, Finsupp.sum_single_index (h0 _), ih, List.map_cons,
      List.sum_cons]

/-- evaluation, as the evaluation of the denoted polynomial of `K[X,Y]` -/
theorem eval_spec
    (hpow : ∀ a n, L.valid a → L.valid (F.pow a n) ∧ L.embed (F.pow a n) = L.embed a ^ n)
    {x y : α} (hx : L.valid x) (hy : L.valid y) {f : BPoly α} (hf : CV L f) :
    L.embed (eval F f x y)
      = (toMv L f).coeff.sum fun d c => c * L.embed x ^ d.1 * L.embed y ^ d.2 := by
  rw [eval_spec_list L hpow hx hy hf, sum_toMv L _ (by intro d; simp)
    (by intro d a b; ring)]

/-! ### `subDegs` -/

theorem subDegs_eq_some_iff (a b c : Deg) : subDegs a b = some c ↔ a = b + c := by
  unfold subDegs
  by_cases h : b.1 ≤ a.1 ∧ b.2 ≤ a.2
  · rw [if_pos (by simpa using h)]
    simp only [Option.some.injEq]
    constructor
    · rintro rfl; exact Prod.ext (by simp; omega) (by simp; omega)
    · rintro rfl; exact Prod.ext (by simp) (by simp)
  · rw [if_neg (by simpa using h)]
    simp only [reduceCtorEq, false_iff]
    rintro rfl
    exact h ⟨by simp, by simp⟩

theorem subDegs_eq_none_iff (a b : Deg) : subDegs a b = none ↔ ¬ (b.1 ≤ a.1 ∧ b.2 ≤ a.2) := by
  unfold subDegs
  by_cases h : b.1 ≤ a.1 ∧ b.2 ≤ a.2
  · rw [if_pos (by simpa using h)]; simp [h]
  · rw [if_neg (by simpa using h)]; simp [h]

/-! ### where the exponents of a result come from (no hypotheses: pure list facts) -/

/-- every exponent pair stored in `f` satisfies `P` -/
def KeysIn (P : Deg → Prop) (f : BPoly α) : Prop := ∀ e ∈ keys f, P e

theorem KeysIn_nil (P : Deg → Prop) : KeysIn P ([] : BPoly α) := fun _ h => by cases h

theorem KeysIn_cons {P : Deg → Prop} {x : Deg × α} {f : BPoly α} :
    KeysIn P (x :: f) ↔ P x.1 ∧ KeysIn P f := by
  simp [KeysIn, keys]

theorem Bounded_iff_KeysIn (f : BPoly α) :
    Bounded f ↔ KeysIn (fun e => e.1 < 2 ^ 64 ∧ e.2 < 2 ^ 64) f := by
  unfold Bounded KeysIn keys
  simp only [List.mem_map, forall_exists_index, and_imp]
  constructor
  · rintro h e x hx rfl; exact h x hx
  · intro h x hx; exact h x.1 x hx rfl

theorem KeysIn_erase {P : Deg → Prop} {f : BPoly α} (h : KeysIn P f) (d : Deg) :
    KeysIn P (erase f d) := fun e he => h e ((mem_keys_erase f d e).1 he).1

theorem mem_keys_put (f : BPoly α) (d e : Deg) (v : α) :
    e ∈ keys (put f d v) ↔ e ∈ keys f ∨ e = d := by
  unfold put
  by_cases hh : has f d = true
  · rw [if_pos hh, keys_map_repl]
    rw [has_eq_true_iff] at hh
    constructor
    · exact Or.inl
    · rintro (h | rfl); exact h; exact hh
  · rw [if_neg hh]
    simp [keys]

theorem KeysIn_put {P : Deg → Prop} {f : BPoly α} (h : KeysIn P f) {d : Deg} (hd : P d) (v : α) :
    KeysIn P (put f d v) := by
  intro e he
  rcases (mem_keys_put f d e v).1 he with h1 | rfl
  · exact h e h1
  · exact hd

theorem KeysIn_append_single {P : Deg → Prop} {f : BPoly α} (h : KeysIn P f) {d : Deg} (hd : P d)
    (v : α) : KeysIn P (f ++ [(d, v)]) := by
  intro e he
  simp only [keys, List.map_append, List.map_cons, List.map_nil, List.mem_append,
    List.mem_singleton] at he
  rcases he with h1 | rfl
  · exact h e h1
  · exact hd

theorem KeysIn_setCoef {P : Deg → Prop} {f : BPoly α} (h : KeysIn P f) {d : Deg} (hd : P d)
    (v : α) : KeysIn P (setCoef F f d v) := by
  unfold setCoef
  split
  · exact KeysIn_erase h d
  · exact KeysIn_put h hd v

theorem KeysIn_incCoef {P : Deg → Prop} {f : BPoly α} (h : KeysIn P f) {d : Deg} (hd : P d)
    (v : α) : KeysIn P (incCoef F f d v) := by
  unfold incCoef
  split
  · exact h
  · split
    · simp only
      split
      · exact KeysIn_erase h d
      · exact KeysIn_put h hd _
    · exact KeysIn_append_single h hd v

theorem KeysIn_decCoef {P : Deg → Prop} {f : BPoly α} (h : KeysIn P f) {d : Deg} (hd : P d)
    (v : α) : KeysIn P (decCoef F f d v) := by
  unfold decCoef
  split
  · exact h
  · split
    · simp only
      split
      · exact KeysIn_erase h d
      · exact KeysIn_put h hd _
    · exact KeysIn_append_single h hd _

theorem KeysIn_add {P : Deg → Prop} {f g : BPoly α} (hf : KeysIn P f) (hg : KeysIn P g) :
    KeysIn P (add F f g) := by
  unfold add
  induction g generalizing f with
  | nil => exact hf
  | cons x t ih =>
    rw [KeysIn_cons] at hg
    rw [List.foldl_cons]
    exact ih (KeysIn_incCoef hf hg.1 _) hg.2

theorem KeysIn_sub {P : Deg → Prop} {f g : BPoly α} (hf : KeysIn P f) (hg : KeysIn P g) :
    KeysIn P (sub F f g) := by
  unfold sub
  induction g generalizing f with
  | nil => exact hf
  | cons x t ih =>
    rw [KeysIn_cons] at hg
    rw [List.foldl_cons]
    exact ih (KeysIn_decCoef hf hg.1 _) hg.2

theorem KeysIn_neg {P : Deg → Prop} {f : BPoly α} (hf : KeysIn P f) : KeysIn P (neg F f) := by
  unfold KeysIn; rw [keys_neg]; exact hf

theorem KeysIn_scale {P : Deg → Prop} {f : BPoly α} (hf : KeysIn P f) (c : α) :
    KeysIn P (scale F f c) := by
  unfold scale
  split
  · exact KeysIn_nil P
  · intro e he
    apply hf e
    simp only [keys, List.map_map, List.mem_map, Function.comp] at he ⊢
    exact he

theorem KeysIn_subShiftScale {P : Deg → Prop} {f g : BPoly α} (i : Deg) (a : α)
    (hf : KeysIn P f) (hg : ∀ d ∈ keys g, P (w64 (d.1 + i.1), w64 (d.2 + i.2))) :
    KeysIn P (subShiftScale F f g i a) := by
  have loop : ∀ (m : α → α) (f : BPoly α), KeysIn P f →
      KeysIn P (g.foldl (fun acc (d, c) => if F.isZero c then acc
        else decCoef F acc (w64 (d.1 + i.1), w64 (d.2 + i.2)) (m c)) f) := by
    intro m
    induction g with
    | nil => exact fun f hf => hf
    | cons x t ih =>
      intro f hf
      rw [List.foldl_cons]
      apply ih (fun d hd => hg d (List.mem_cons_of_mem _ hd))
      simp only
      split
      · exact hf
      · exact KeysIn_decCoef hf (hg x.1 (by simp [keys])) _
  unfold subShiftScale
  split
  · exact hf
  · split
    · exact loop (fun c => c) f hf
    · exact loop (fun c => F.mul a c) f hf

/-- results of `subWithShiftAndScale` have machine-word exponents (the shifted ones are truncated) -/
theorem Bounded_subShiftScale {f g : BPoly α} (i : Deg) (a : α) (hf : Bounded f) :
    Bounded (subShiftScale F f g i a) := by
  rw [Bounded_iff_KeysIn] at hf ⊢
  exact KeysIn_subShiftScale i a hf fun d _ => ⟨Nat.mod_lt _ (by norm_num), Nat.mod_lt _ (by norm_num)⟩

theorem KeysIn_mulInner {P : Deg → Prop} {df : Deg} {cf : α} {g : BPoly α}
    (hP : ∀ b ∈ keys g, ∀ s, addDegs df b = some s → P s)
    {acc : Option (BPoly α)} (hacc : ∀ h, acc = some h → KeysIn P h) {h' : BPoly α}
    (hr : mulInner F df cf g acc = some h') : KeysIn P h' := by
  induction g generalizing acc with
  | nil => exact hacc h' hr
  | cons x t ih =>
    rw [mulInner, List.foldl_cons] at hr
    refine ih (fun b hb => hP b (List.mem_cons_of_mem _ hb)) ?_ hr
    intro h hh
    cases acc with
    | none => simp at hh
    | some h0 =>
      cases hs : addDegs df x.1 with
      | none => simp [hs] at hh
      | some s =>
        simp only [hs, Option.some.injEq] at hh
        subst hh
        exact KeysIn_incCoef (hacc h0 rfl) (hP x.1 (by simp [keys]) s hs) _

theorem KeysIn_mulOuter {P : Deg → Prop} {f g : BPoly α}
    (hP : ∀ a ∈ keys f, ∀ b ∈ keys g, ∀ s, addDegs a b = some s → P s)
    {acc : Option (BPoly α)} (hacc : ∀ h, acc = some h → KeysIn P h) {h' : BPoly α}
    (hr : mulOuter F f g acc = some h') : KeysIn P h' := by
  induction f generalizing acc with
  | nil => exact hacc h' hr
  | cons x t ih =>
    rw [mulOuter, List.foldl_cons] at hr
    refine ih (fun a ha => hP a (List.mem_cons_of_mem _ ha)) ?_ hr
    intro h hh
    exact KeysIn_mulInner (hP x.1 (by simp [keys])) hacc hh

/-- every exponent of a product is the (non-overflowing) sum of an exponent of each factor -/
theorem KeysIn_mulNoReduce {P : Deg → Prop} {f g h : BPoly α}
    (hP : ∀ a ∈ keys f, ∀ b ∈ keys g, ∀ s, addDegs a b = some s → P s)
    (hm : mulNoReduce F f g = some h) : KeysIn P h :=
  KeysIn_mulOuter hP (fun h0 e => by cases e; exact KeysIn_nil P) hm

/-- a product has machine-word exponents -/
theorem Bounded_mulNoReduce {f g h : BPoly α} (hm : mulNoReduce F f g = some h) : Bounded h := by
  rw [Bounded_iff_KeysIn]
  refine KeysIn_mulNoReduce (fun a _ b _ s hs => ?_) hm
  unfold addDegs at hs
  simp only at hs
  split at hs
  · cases hs
  · cases hs
    exact ⟨Nat.mod_lt _ (by norm_num), Nat.mod_lt _ (by norm_num)⟩

/-! ### `lt`, `normalize`, `times` (ring without ideal) -/

theorem lc_valid {f : BPoly α} (hf : CV L f) (o : Order) : L.valid (lc F o f) :=
  coef_valid L hf _

theorem lt_spec {f : BPoly α} (hf : CV L f) (o : Order) :
    WF L (lt F o f) ∧ toMv L (lt F o f) = single (ld o f) (L.embed (lc F o f)) := by
  unfold lt
  refine ⟨WF_setCoef L (WF_nil L) _ (lc_valid L hf o), ?_⟩
  rw [toMv_setCoef L (WF_nil L) _ (lc_valid L hf o), toMv_nil, zero_add, coef_nil, L.embed_zero,
    sub_zero]

/-- `Normalize`, given that the leading exponent is a stored exponent (an order fact, see C09) -/
theorem normalize_spec {f : BPoly α} (hf : WF L f) (o : Order) (hld : ld o f ∈ keys f) :
    WF L (normalize F o f) ∧
      toMv L (normalize F o f) = single 0 (L.embed (lc F o f))⁻¹ * toMv L f := by
  unfold normalize
  have hne : f.isEmpty = false := by
    cases f with
    | nil => cases hld
    | cons _ _ => rfl
  rw [hne]
  simp only [Bool.false_eq_true, if_false]
  have h0 : L.embed (lc F o f) ≠ 0 := coef_ne_zero L hf hld
  obtain ⟨i, e1, e2, e3⟩ := L.inv_some _ (lc_valid L hf.cv o) h0
  rw [e1]
  simp only
  exact ⟨WF_scale L hf e2, by rw [toMv_scale L hf.cv e2, e3]⟩

theorem normalize_nil (o : Order) : normalize F o ([] : BPoly α) = [] := rfl

/-- `Times`/`Mult` in a ring without ideal -/
theorem times_spec {R : Ring α} (hR : R.ideal = none) (L : Lawful R.F K) {f g : BPoly α}
    (hf : WF L f) (hg : WF L g) (bf : Bounded f) (bg : Bounded g) :
    (Ovf f g → times R f g = .error .overflow) ∧
    (¬ Ovf f g → ∃ h, times R f g = .ok (some h) ∧ WF L h ∧ Bounded h ∧
        toMv L h = toMv L f * toMv L g) := by
  unfold times reduceIn
  constructor
  · intro hov
    rw [(mulNoReduce_none_iff L hf hg bf bg).2 hov]
  · intro hno
    obtain ⟨h, e, w, t⟩ := mulNoReduce_some L hf.cv hg.cv hno
    refine ⟨h, ?_, w, Bounded_mulNoReduce e, t⟩
    rw [e, hR]

theorem times_cases {R : Ring α} (hR : R.ideal = none) (L : Lawful R.F K) {f g : BPoly α}
    (hf : WF L f) (hg : WF L g) (bf : Bounded f) (bg : Bounded g) :
    times R f g = .error .overflow ∨
    ∃ h, times R f g = .ok (some h) ∧ WF L h ∧ Bounded h ∧ toMv L h = toMv L f * toMv L g := by
  by_cases hov : Ovf f g
  · exact Or.inl ((times_spec hR L hf hg bf bg).1 hov)
  · exact Or.inr ((times_spec hR L hf hg bf bg).2 hov)

/-! ### `Pow` (ring without ideal) -/

theorem powLoop_spec {R : Ring α} (hR : R.ideal = none) (L : Lawful R.F K) :
    ∀ (fuel n : Nat) (out g : BPoly α), WF L out → WF L g → Bounded out → Bounded g →
      (∀ h, powLoop R fuel n out g = .ok (some h) →
        WF L h ∧ Bounded h ∧ toMv L h = toMv L out * toMv L g ^ n) ∧
      (∀ k, powLoop R fuel n out g = .error k → k = .overflow) ∧
      (0 < fuel → n < 2 ^ fuel → powLoop R fuel n out g ≠ .ok none) := by
  intro fuel
  induction fuel with
  | zero =>
    intro n out g _ _ _ _
    simp [powLoop]
  | succ fuel ih =>
    intro n out g wo wg bo bg
    simp only [powLoop]
    by_cases hn : n = 0
    · subst hn
      simp only [if_true, pow_zero, mul_one]
      refine ⟨?_, ?_, ?_⟩
      · intro h e; cases e; exact ⟨wo, bo, rfl⟩
      · intro k e; cases e
      · intro _ _ e; cases e
    · rw [if_neg hn]
      have stage1 : (if n % 2 = 1 then times R out g else Except.ok (some out))
            = .error .overflow ∨
          ∃ o, (if n % 2 = 1 then times R out g else Except.ok (some out)) = .ok (some o) ∧
            WF L o ∧ Bounded o ∧ toMv L o = toMv L out * toMv L g ^ (n % 2) := by
        by_cases hodd : n % 2 = 1
        · rw [if_pos hodd, hodd, pow_one]
          exact times_cases hR L wo wg bo bg
        · rw [if_neg hodd]
          have : n % 2 = 0 := by omega
          exact Or.inr ⟨out, rfl, wo, bo, by rw [this, pow_zero, mul_one]⟩
      rcases stage1 with e1 | ⟨o, e1, w1, b1, t1⟩
      · rw [e1]
        refine ⟨?_, ?_, ?_⟩
        · intro h e; cases e
        · intro k e; cases e; rfl
        · intro _ _ e; cases e
      · rw [e1]
        simp only
        by_cases hhalf : n / 2 = 0
        · rw [if_pos hhalf]
          have h1 : n % 2 = n := by omega
          refine ⟨?_, ?_, ?_⟩
          · intro h e; cases e; exact ⟨w1, b1, by rw [t1, h1]⟩
          · intro k e; cases e
          · intro _ _ e; cases e
        · rw [if_neg hhalf]
          rcases times_cases hR L wg wg bg bg with e2 | ⟨g2, e2, w2, b2, t2⟩
          · rw [e2]
            refine ⟨?_, ?_, ?_⟩
            · intro h e; cases e
            · intro k e; cases e; rfl
            · intro _ _ e; cases e
          · rw [e2]
            simp only
            obtain ⟨ia, ib, ic⟩ := ih (n / 2) o g2 w1 w2 b1 b2
            refine ⟨?_, ib, ?_⟩
            · intro h e
              obtain ⟨x1, x2, x3⟩ := ia h e
              refine ⟨x1, x2, ?_⟩
              rw [x3, t1, t2, ← pow_two, ← pow_mul, mul_assoc, ← pow_add]
              congr 2
              omega
            · intro _ hlt
              have hfuel : 0 < fuel := by
                rcases Nat.eq_zero_or_pos fuel with h0 | h0
                · subst h0; omega
                · exact h0
              apply ic hfuel
              rw [pow_succ] at hlt
              omega

theorem WF_one (L : Lawful F K) : WF L ([((0, 0), F.one)] : BPoly α) := by
  refine ⟨by simp, ?_⟩
  intro dc hdc
  simp only [List.mem_singleton] at hdc
  subst hdc
  exact ⟨L.one_valid, by simp [L.embed_one]⟩

theorem toMv_one (L : Lawful F K) : toMv L ([((0, 0), F.one)] : BPoly α) = 1 := by
  rw [toMv_cons, toMv_nil, add_zero, L.embed_one]
  rfl

/-- `Pow` in a ring without ideal: a returned value is the exact power, the only error is
    Overflow, and the modelled fuel (70 halvings) suffices for every word exponent. -/
theorem pow_spec {R : Ring α} (hR : R.ideal = none) (L : Lawful R.F K) {f : BPoly α}
    (hf : WF L f) (bf : Bounded f) (n : Nat) :
    (∀ h, pow R f n = .ok (some h) → WF L h ∧ Bounded h ∧ toMv L h = toMv L f ^ n) ∧
    (∀ k, pow R f n = .error k → k = .overflow) ∧
    (n < 2 ^ 64 → pow R f n ≠ .ok none) := by
  unfold pow reduceIn
  rw [hR]
  simp only
  have b1 : Bounded ([((0, 0), R.F.one)] : BPoly α) := by
    intro dc hdc
    simp only [List.mem_singleton] at hdc
    subst hdc
    exact ⟨by norm_num, by norm_num⟩
  obtain ⟨ia, ib, ic⟩ := powLoop_spec hR L 70 n _ f (WF_one L) hf b1 bf
  refine ⟨?_, ib, ?_⟩
  · intro h e
    obtain ⟨x1, x2, x3⟩ := ia h e
    exact ⟨x1, x2, by rw [x3, toMv_one, one_mul]⟩
  · intro hlt
    apply ic (by norm_num)
    calc n < 2 ^ 64 := hlt
      _ ≤ 2 ^ 70 := Nat.pow_le_pow_right (by decide) (by decide)

/-! ### order of the stored terms is irrelevant -/

theorem WF_perm {f g : BPoly α} (h : f.Perm g) (hf : WF L f) : WF L g :=
  ⟨(h.map _).nodup_iff.1 hf.1, fun dc hdc => hf.2 dc (h.mem_iff.2 hdc)⟩

theorem coef_perm {f g : BPoly α} (h : f.Perm g) (hf : (keys f).Nodup) (d : Deg) :
    coef F f d = coef F g d := by
  have hg : (keys g).Nodup := (h.map _).nodup_iff.1 hf
  by_cases hd : d ∈ keys f
  · have := coef_mem (F := F) hd
    exact (coef_of_mem hg (h.mem_iff.1 this)).symm
  · have hd' : d ∉ keys g := fun h' => hd ((h.map _).mem_iff.2 h')
    rw [coef_of_not_mem hd, coef_of_not_mem hd']

/-! ### `eval` as the evaluation homomorphism of `K[X,Y]` -/

/-- the evaluation homomorphism `K[X,Y] → K` at the point `(x, y)` -/
noncomputable def evalHom (x y : K) : AddMonoidAlgebra K (ℕ × ℕ) →ₐ[K] K :=
  AddMonoidAlgebra.lift K K (ℕ × ℕ)
    { toFun := fun d => x ^ (Multiplicative.toAdd d).1 * y ^ (Multiplicative.toAdd d).2
      map_one' := by simp
      map_mul' := by
        intro a b
        simp only [toAdd_mul, Prod.fst_add, Prod.snd_add, pow_add]
        ring }

theorem evalHom_single (x y : K) (d : ℕ × ℕ) (c : K) :
    evalHom x y (single d c) = c * x ^ d.1 * y ^ d.2 := by
  unfold evalHom
  rw [AddMonoidAlgebra.lift_single]
  simp [mul_assoc]

theorem evalHom_toMv (x y : K) (f : BPoly α) :
    evalHom x y (toMv L f) = (f.map fun dc => L.embed dc.2 * x ^ dc.1.1 * y ^ dc.1.2).sum := by
  induction f with
  | nil => simp
  | cons t r ih => rw [toMv_cons, map_add, evalHom_single, ih, List.map_cons, List.sum_cons]

/-- `Eval` is the evaluation homomorphism at the point -/
theorem eval_hom
    (hpow : ∀ a n, L.valid a → L.valid (F.pow a n) ∧ L.embed (F.pow a n) = L.embed a ^ n)
    {x y : α} (hx : L.valid x) (hy : L.valid y) {f : BPoly α} (hf : CV L f) :
    L.embed (eval F f x y) = evalHom (L.embed x) (L.embed y) (toMv L f) := by
  rw [eval_spec_list L hpow hx hy hf, evalHom_toMv]

/-! ### full cancellation leaves the empty list -/

theorem eq_nil_of_toMv_eq_zero {f : BPoly α} (hf : WF L f) (h : toMv L f = 0) : f = [] := by
  have := (isZero_iff L hf).2 h
  unfold isZero at this
  exact List.isEmpty_iff.1 this

theorem sub_self_eq_nil {f : BPoly α} (hf : WF L f) : sub F f f = [] :=
  eq_nil_of_toMv_eq_zero L (WF_sub L hf hf.cv) (by rw [toMv_sub L hf hf.cv, sub_self])

theorem add_neg_eq_nil {f : BPoly α} (hf : WF L f) : add F f (neg F f) = [] := by
  have hn := WF_neg L hf
  exact eq_nil_of_toMv_eq_zero L (WF_add L hf hn.cv)
    (by rw [toMv_add L hf hn.cv, toMv_neg L hf.cv, add_neg_cancel])

/-! ### canonical representations are unique up to the order of the terms -/

theorem coef_eq_of_toMv_eq {f g : BPoly α} (hf : WF L f) (hg : WF L g)
    (h : toMv L f = toMv L g) (d : Deg) : coef F f d = coef F g d := by
  apply L.inj _ _ (coef_valid L hf.cv d) (coef_valid L hg.cv d)
  rw [← toMv_apply L hf, ← toMv_apply L hg, h]

theorem nodup_of_WF {f : BPoly α} (hf : WF L f) : f.Nodup := List.Nodup.of_map _ hf.1

theorem perm_of_toMv_eq {f g : BPoly α} (hf : WF L f) (hg : WF L g)
    (h : toMv L f = toMv L g) : f.Perm g := by
  rw [List.perm_ext_iff_of_nodup (nodup_of_WF L hf) (nodup_of_WF L hg)]
  have hk : ∀ d, d ∈ keys f ↔ d ∈ keys g := fun d => by
    rw [mem_keys_iff L hf, mem_keys_iff L hg, h]
  rintro ⟨d, c⟩
  constructor
  · intro hm
    have hd : d ∈ keys g := (hk d).1 (List.mem_map.2 ⟨_, hm, rfl⟩)
    have := coef_mem (F := F) hd
    rwa [← coef_eq_of_toMv_eq L hf hg h, coef_of_mem hf.1 hm] at this
  · intro hm
    have hd : d ∈ keys f := (hk d).2 (List.mem_map.2 ⟨_, hm, rfl⟩)
    have := coef_mem (F := F) hd
    rwa [coef_eq_of_toMv_eq L hf hg h, coef_of_mem hg.1 hm] at this

theorem toMv_eq_iff_perm {f g : BPoly α} (hf : WF L f) (hg : WF L g) :
    toMv L f = toMv L g ↔ f.Perm g := ⟨perm_of_toMv_eq L hf hg, toMv_perm L⟩

/-! ### coefficient-wise form of the arithmetic (equalities of representations) -/

theorem coef_add {f g : BPoly α} (hf : WF L f) (hg : WF L g) (d : Deg) :
    coef F (add F f g) d = F.add (coef F f d) (coef F g d) := by
  have hv1 := coef_valid L hf.cv d
  have hv2 := coef_valid L hg.cv d
  apply L.inj _ _ (coef_valid L (WF_add L hf hg.cv).cv d) (L.add_valid _ _ hv1 hv2)
  rw [← toMv_apply L (WF_add L hf hg.cv), toMv_add L hf hg.cv, AddMonoidAlgebra.coeff_add,
    Finsupp.add_apply, toMv_apply L hf, toMv_apply L hg, L.embed_add _ _ hv1 hv2]

theorem coef_sub {f g : BPoly α} (hf : WF L f) (hg : WF L g) (d : Deg) :
    coef F (sub F f g) d = F.sub (coef F f d) (coef F g d) := by
  have hv1 := coef_valid L hf.cv d
  have hv2 := coef_valid L hg.cv d
  apply L.inj _ _ (coef_valid L (WF_sub L hf hg.cv).cv d) (L.sub_valid _ _ hv1 hv2)
  rw [← toMv_apply L (WF_sub L hf hg.cv), toMv_sub L hf hg.cv, AddMonoidAlgebra.coeff_sub,
    Finsupp.sub_apply, toMv_apply L hf, toMv_apply L hg, L.embed_sub _ _ hv1 hv2]

theorem coef_neg {f : BPoly α} (hf : WF L f) (d : Deg) :
    coef F (neg F f) d = F.neg (coef F f d) := by
  have hv1 := coef_valid L hf.cv d
  apply L.inj _ _ (coef_valid L (WF_neg L hf).cv d) (L.neg_valid _ hv1)
  rw [← toMv_apply L (WF_neg L hf), toMv_neg L hf.cv, AddMonoidAlgebra.coeff_neg,
    Finsupp.neg_apply, toMv_apply L hf, L.embed_neg _ hv1]

theorem coef_scale {f : BPoly α} (hf : WF L f) {c : α} (hc : L.valid c) (d : Deg) :
    coef F (scale F f c) d = F.mul (coef F f d) c := by
  have hv1 := coef_valid L hf.cv d
  apply L.inj _ _ (coef_valid L (WF_scale L hf hc).cv d) (L.mul_valid _ _ hv1 hc)
  rw [← toMv_apply L (WF_scale L hf hc), toMv_scale L hf.cv hc,
    AddMonoidAlgebra.coeff_single_zero_mul, toMv_apply L hf, L.embed_mul _ _ hv1 hc, mul_comm]

end BPoly
end Algobra
