/-
  Proofs/ParseRTN.lean — the univariate tokeniser on printed terms in every notation of
  `C15.Notation`: optional `*` between coefficient and variable, optional `^`, any number of blanks
  around `+`, any letter case of the variable.  Generalises `tokU_term` / `loopU_terms` of
  `Proofs/ParseRTU.lean`.  Helper of `Props/C15Full.lean`.
-/
import Algobra.Proofs.ParseRTU

namespace Algobra.ParseRT
open Algobra Algobra.Strings Algobra.Parse Algobra.Regex

variable {α : Type}

/-- what is left after a term and the blanks: nothing, or the `+` of the next term -/
def TailN (Y : Cs) : Prop := Y = [] ∨ ∃ t, Y = '+' :: t

theorem tailN_head {Y : Cs} (h : TailN Y) :
    ∀ c ∈ Y.head?, c.isDigit = false ∧ c ≠ '^' ∧ c ≠ '*' ∧ isWs c = false := by
  rcases h with rfl | ⟨t, rfl⟩ <;> simp [isWs]

theorem spaces_tail_head (k : Nat) {Y : Cs} (h : TailN Y) :
    ∀ c ∈ (spaces k ++ Y).head?, c.isDigit = false ∧ c ≠ '^' ∧ c ≠ '*' := by
  cases k with
  | zero => intro c hc; have := tailN_head h c (by simpa [spaces] using hc); exact ⟨this.1, this.2.1, this.2.2.1⟩
  | succ k => intro c hc; simp [spaces, List.replicate_succ] at hc; subst hc; decide

theorem dropWs_spaces_tail (k : Nat) {Y : Cs} (h : TailN Y) : dropWs (spaces k ++ Y) = Y := by
  rw [dropWs_spaces]; exact dropWs_of_head (fun c hc => (tailN_head h c hc).2.2.2)

theorem skipMult_spaces_tail (k : Nat) {Y : Cs} (h : TailN Y) : skipMult (spaces k ++ Y) = Y := by
  unfold skipMult
  rw [dropWs_spaces_tail k h, dropStar_of_head (fun c hc => (tailN_head h c hc).2.2.1),
    dropWs_of_head (fun c hc => (tailN_head h c hc).2.2.2)]

/-- variable part of a term in a notation -/
def varPartN (v' : String) (caret : Bool) (d : Nat) : Cs :=
  if d = 0 then []
  else v'.toList ++ (if d = 1 then [] else (if caret then ['^'] else []) ++ (toString d).toList)

theorem varPartN_pos (v' : String) (caret : Bool) {d : Nat} (hd : d ≠ 0) :
    varPartN v' caret d =
      v'.toList ++ (if d = 1 then [] else (if caret then ['^'] else []) ++ (toString d).toList) := by
  unfold varPartN; rw [if_neg hd]

/-- the optional `*` of a notation -/
def starPart (F : FOps α) (star : Bool) (c : α) (d : Nat) : Cs :=
  if star = true ∧ coefPart F c d ≠ [] ∧ d ≠ 0 then ['*'] else []

def termCharsN (F : FOps α) (v' : String) (caret star : Bool) (c : α) (d : Nat) : Cs :=
  coefPart F c d ++ (starPart F star c d ++ varPartN v' caret d)

section
variable {F : FOps α} {Valid : α → Prop} {v v' : String} {x0 x0' : Char} {vt vt' : Cs}

theorem digit_ne_caret {c : Char} (h : c.isDigit = true) : c ≠ '^' := by
  rintro rfl; exact absurd h (by decide)

theorem varDeg_tail (hv : v.toList = x0 :: vt) (hx : x0.isAlpha = true) (k : Nat) {Y : Cs}
    (hY : TailN Y) : varDeg v.toList (skipMult (spaces k ++ Y)) = ("", "", Y) := by
  rw [skipMult_spaces_tail k hY]
  unfold varDeg
  rcases hY with rfl | ⟨t, rfl⟩
  · rw [hv]; rfl
  · rw [hv, stripCi_head_ne _ _ (lower_alpha_ne hx (by decide) (by decide))]
    dsimp only
    rw [dropWs_of_head (by simp [isWs])]

theorem varDeg_varN (hl : v'.toList.map lower = v.toList.map lower)
    (hv' : v'.toList = x0' :: vt') (hx' : x0'.isAlpha = true) (caret : Bool) {d : Nat}
    (hd : d ≠ 0) (k : Nat) {Y : Cs} (hY : TailN Y) (star : Cs) (hstar : star = [] ∨ star = ['*']) :
    varDeg v.toList (skipMult (star ++ (varPartN v' caret d ++ (spaces k ++ Y)))) =
      (v', if d ≤ 1 then "" else toString d, Y) := by
  obtain ⟨_, hws, _, hst, _⟩ := alpha_facts hx'
  have hhead : ∀ c ∈ (varPartN v' caret d ++ (spaces k ++ Y)).head?, isWs c = false ∧ c ≠ '*' := by
    rw [varPartN_pos v' caret hd, hv']; simpa using ⟨hws, hst⟩
  have hsk : skipMult (star ++ (varPartN v' caret d ++ (spaces k ++ Y))) =
      varPartN v' caret d ++ (spaces k ++ Y) := by
    rcases hstar with rfl | rfl
    · rw [List.nil_append]; exact skipMult_of_head hhead
    · have e1 : dropWs ('*' :: (varPartN v' caret d ++ (spaces k ++ Y))) =
          '*' :: (varPartN v' caret d ++ (spaces k ++ Y)) := dropWs_of_head (by simp [isWs])
      show dropWs (dropStar (dropWs ('*' :: (varPartN v' caret d ++ (spaces k ++ Y))))) = _
      rw [e1, dropStar_star]
      exact dropWs_of_head (fun c hc => (hhead c hc).1)
  rw [hsk, varPartN_pos v' caret hd, List.append_assoc]
  unfold varDeg
  rw [stripCi_append hl]
  dsimp only
  rw [consumed_append, String.ofList_toList]
  have hp := spaces_tail_head k hY
  by_cases hd1 : d = 1
  · subst hd1
    rw [if_pos rfl, List.nil_append, dropCaret_of_head (fun c hc => (hp c hc).2.1),
      digits_of_head (fun c hc => (hp c hc).1), dropDigits_of_head (fun c hc => (hp c hc).1),
      dropWs_spaces_tail k hY]
    rfl
  · rw [if_neg hd1, if_neg (show ¬ d ≤ 1 by omega)]
    have hdc : dropCaret ((if caret then ['^'] else []) ++ (toString d).toList ++ (spaces k ++ Y)) =
        (toString d).toList ++ (spaces k ++ Y) := by
      cases caret with
      | true => exact dropCaret_caret _
      | false =>
        simp only [Bool.false_eq_true, if_false, List.nil_append]
        apply dropCaret_of_head
        obtain ⟨y, t, e⟩ := List.exists_cons_of_ne_nil (toString_toList_ne_nil d)
        intro c hc; rw [e] at hc; simp at hc; subst hc
        exact digit_ne_caret (toString_digits d y (by rw [e]; simp))
    rw [hdc, digits_append (toString_digits d) (fun c hc => (hp c hc).1),
      dropDigits_append (toString_digits d) (fun c hc => (hp c hc).1), String.ofList_toList,
      dropWs_spaces_tail k hY]

theorem stop_spaces_tail (H : CoefRT F Valid) (k : Nat) {Y : Cs} (hY : TailN Y) :
    Stop (ovOf F) (spaces k ++ Y) := by
  refine ⟨fun c hc => ⟨(spaces_tail_head k hY c hc).1, (spaces_tail_head k hY c hc).2.1⟩, ?_⟩
  intro w hw
  unfold ovOf at hw
  obtain ⟨w', hw', rfl⟩ := Option.map_eq_some_iff.1 hw
  obtain ⟨y, t, hy, hya⟩ := H.own w' hw'
  rw [hy]
  have hne1 : y ≠ ' ' := fun e => by rw [e] at hya; exact absurd hya (by decide)
  have hne2 : y ≠ '+' := fun e => by rw [e] at hya; exact absurd hya (by decide)
  cases k with
  | zero =>
    rcases hY with rfl | ⟨t', rfl⟩
    · rfl
    · exact strip_head_ne _ _ hne2
  | succ k =>
    have : spaces (k + 1) ++ Y = ' ' :: (spaces k ++ Y) := by simp [spaces, List.replicate_succ]
    rw [this]; exact strip_head_ne _ _ hne1

theorem stop_star (H : CoefRT F Valid) (X : Cs) : Stop (ovOf F) ('*' :: X) := by
  refine ⟨by simp, ?_⟩
  intro w hw
  unfold ovOf at hw
  obtain ⟨w', hw', rfl⟩ := Option.map_eq_some_iff.1 hw
  obtain ⟨y, t, hy, hya⟩ := H.own w' hw'
  rw [hy]
  exact strip_head_ne _ _ (fun e => by rw [e] at hya; exact absurd hya (by decide))

theorem stop_varN (hv' : v'.toList = x0' :: vt') (hx' : x0'.isAlpha = true)
    (hun : ∀ w X, F.ownVar = some w → strip w.toList (v'.toList ++ X) = none) (caret : Bool)
    {d : Nat} (hd : d ≠ 0) (X : Cs) : Stop (ovOf F) (varPartN v' caret d ++ X) := by
  obtain ⟨hdig, _, _, _, hcar, _⟩ := alpha_facts hx'
  rw [varPartN_pos v' caret hd, List.append_assoc]
  refine ⟨?_, ?_⟩
  · rw [hv']; simpa using ⟨hdig, hcar⟩
  · intro w hw
    unfold ovOf at hw
    obtain ⟨w', hw', rfl⟩ := Option.map_eq_some_iff.1 hw
    exact hun w' _ hw'

theorem termCharsN_head (H : CoefRT F Valid) (hv' : v'.toList = x0' :: vt')
    (hx' : x0'.isAlpha = true) (caret star : Bool) {c : α} (hc : Valid c) (d : Nat) (X : Cs) :
    ∃ y t, termCharsN F v' caret star c d ++ X = y :: t ∧ isWs y = false ∧ isSign y = false := by
  obtain ⟨_, hws, hsg, _⟩ := alpha_facts hx'
  unfold termCharsN
  rcases coefPart_cases F c d with e | ⟨e, hd, _⟩
  · obtain ⟨y, t, h1, h2, h3⟩ := H.head c hc
    exact ⟨y, t ++ (starPart F star c d ++ varPartN v' caret d) ++ X, by rw [e, h1]; simp, h2, h3⟩
  · have hs : starPart F star c d = [] := by unfold starPart; rw [e]; simp
    rw [e, hs, varPartN_pos v' caret hd, hv']
    exact ⟨x0', _, by simp; rfl, hws, hsg⟩

/-- the match of `tokU` on a printed term, in any notation -/
theorem tokU_termN (H : CoefRT F Valid) (hv : v.toList = x0 :: vt) (hx : x0.isAlpha = true)
    (hl : v'.toList.map lower = v.toList.map lower) (hv' : v'.toList = x0' :: vt')
    (hx' : x0'.isAlpha = true)
    (hun : ∀ w X, F.ownVar = some w → strip w.toList (v'.toList ++ X) = none)
    (caret star : Bool) {pre : Cs} (hpre : pre = [] ∨ ∃ l, pre = '+' :: spaces l) {c : α}
    (hc : Valid c) (d : Nat) (k : Nat) {Y : Cs} (hY : TailN Y) :
    ∃ full, tokU (ovOf F) v.toList (pre ++ (termCharsN F v' caret star c d ++ (spaces k ++ Y))) =
      (#[full, if pre = [] then "" else "+", String.ofList (coefPart F c d),
         if d = 0 then "" else v', if d ≤ 1 then "" else toString d], Y) := by
  obtain ⟨y, t, hT, hws, hsg⟩ := termCharsN_head H hv' hx' caret star hc d (spaces k ++ Y)
  -- (a) sign
  have ha : ∃ r2, takeSign (dropWs (pre ++ (termCharsN F v' caret star c d ++ (spaces k ++ Y)))) =
      (if pre = [] then "" else "+", r2) ∧
      dropWs r2 = termCharsN F v' caret star c d ++ (spaces k ++ Y) := by
    rcases hpre with rfl | ⟨l, rfl⟩
    · refine ⟨termCharsN F v' caret star c d ++ (spaces k ++ Y), ?_, ?_⟩
      · rw [List.nil_append, hT, dropWs_of_head (by simpa using hws), takeSign_plain hsg]; rfl
      · rw [hT]; exact dropWs_of_head (by simpa using hws)
    · refine ⟨spaces l ++ (termCharsN F v' caret star c d ++ (spaces k ++ Y)), ?_, ?_⟩
      · rw [List.cons_append, dropWs_of_head (by simp [isWs]), takeSign_plus]; rfl
      · rw [dropWs_spaces, hT]; exact dropWs_of_head (by simpa using hws)
  obtain ⟨r2, ha1, ha2⟩ := ha
  -- (b) coefficient
  have hstar : starPart F star c d = [] ∨ starPart F star c d = ['*'] := by
    unfold starPart; split
    · exact Or.inr rfl
    · exact Or.inl rfl
  have hb : (scanCoef (ovOf F) (termCharsN F v' caret star c d ++ (spaces k ++ Y))).getD
        (termCharsN F v' caret star c d ++ (spaces k ++ Y)) =
        starPart F star c d ++ (varPartN v' caret d ++ (spaces k ++ Y)) ∧
      consumed (termCharsN F v' caret star c d ++ (spaces k ++ Y))
        (starPart F star c d ++ (varPartN v' caret d ++ (spaces k ++ Y))) =
        String.ofList (coefPart F c d) := by
    unfold termCharsN
    rw [List.append_assoc, List.append_assoc]
    refine ⟨?_, consumed_append _ _⟩
    rcases coefPart_cases F c d with e | ⟨e, hd, _⟩
    · rw [e]
      have hst : Stop (ovOf F) (starPart F star c d ++ (varPartN v' caret d ++ (spaces k ++ Y))) := by
        rcases hstar with hs | hs
        · rw [hs, List.nil_append]
          by_cases hd : d = 0
          · have : varPartN v' caret d = [] := by unfold varPartN; rw [if_pos hd]
            rw [this, List.nil_append]; exact stop_spaces_tail H k hY
          · exact stop_varN hv' hx' hun caret hd _
        · rw [hs]; exact stop_star H _
      rw [H.scan c hc _ hst]; rfl
    · have hs : starPart F star c d = [] := by unfold starPart; rw [e]; simp
      rw [e, hs, List.nil_append, List.nil_append, varPartN_pos v' caret hd, List.append_assoc]
      have hv'' : v'.toList = x0' :: vt' := hv'
      exact scanCoef_none_var H hv'' hx' hun _
  -- (c) variable and exponent
  have hcd : varDeg v.toList
      (skipMult (starPart F star c d ++ (varPartN v' caret d ++ (spaces k ++ Y)))) =
      (if d = 0 then "" else v', if d ≤ 1 then "" else toString d, Y) := by
    by_cases hd : d = 0
    · have h1 : varPartN v' caret d = [] := by unfold varPartN; rw [if_pos hd]
      have h2 : starPart F star c d = [] := by unfold starPart; simp [hd]
      rw [h1, h2, List.nil_append, List.nil_append, varDeg_tail hv hx k hY, if_pos hd,
        if_pos (by omega)]
    · rw [varDeg_varN hl hv' hx' caret hd k hY _ hstar, if_neg hd]
  unfold tokU
  dsimp only
  rw [ha1]
  dsimp only
  rw [ha2, hb.1, hb.2, hcd]
  exact ⟨_, rfl⟩

end


/-! ### joined lists with a general separator -/

def joinS (sep : Cs) : List Cs → Cs
  | [] => []
  | [t] => t
  | t :: u :: ts => t ++ (sep ++ joinS sep (u :: ts))

def restS (sep : Cs) (ts : List Cs) : Cs := if ts = [] then [] else sep ++ joinS sep ts

theorem joinS_cons (sep t : Cs) (ts : List Cs) : joinS sep (t :: ts) = t ++ restS sep ts := by
  cases ts <;> simp [joinS, restS]

theorem intercalate_toListS (sep : String) (l : List String) :
    (sep.intercalate l).toList = joinS sep.toList (l.map String.toList) := by
  induction l with
  | nil => simp [joinS]
  | cons s l ih =>
    cases l with
    | nil => simp [joinS]
    | cons u t =>
      have : (sep.intercalate (s :: u :: t)).toList =
          s.toList ++ (sep.toList ++ (sep.intercalate (u :: t)).toList) := by simp
      rw [this, ih]; rfl

/-- the separator of a notation -/
def sepN (k l : Nat) : Cs := spaces k ++ '+' :: spaces l

section
variable {F : FOps α} {Valid : α → Prop} {v v' : String} {x0 x0' : Char} {vt vt' : Cs}

theorem loopU_termsN (H : CoefRT F Valid) (hv : v.toList = x0 :: vt) (hx : x0.isAlpha = true)
    (hl : v'.toList.map lower = v.toList.map lower) (hv' : v'.toList = x0' :: vt')
    (hx' : x0'.isAlpha = true)
    (hun : ∀ w X, F.ownVar = some w → strip w.toList (v'.toList ++ X) = none)
    (caret star : Bool) (k l : Nat) :
    ∀ (ts : List (α × Nat)), ts ≠ [] → (∀ t ∈ ts, Valid t.1 ∧ t.2 < 2 ^ 63) →
    ∀ (pre : Cs), (pre = [] ∨ pre = '+' :: spaces l) → ∀ (f : Nat) (out : List (Nat × α)),
    (pre ++ joinS (sepN k l) (ts.map fun t => termCharsN F v' caret star t.1 t.2)).length ≤ f →
    ∃ ms, loopU (ovOf F) v.toList f
        (pre ++ joinS (sepN k l) (ts.map fun t => termCharsN F v' caret star t.1 t.2)) = some ms ∧
      UPoly.stringToMapRx.go F ms out =
        .ok (ts.foldl (fun o t => UPoly.mapAdd F o t.2 t.1) out) := by
  intro ts
  induction ts with
  | nil => intro h; exact absurd rfl h
  | cons t ts ih =>
    intro _ hts pre hpre f out hf
    rw [List.map_cons, joinS_cons] at hf ⊢
    obtain ⟨hc, hd⟩ := hts t (by simp)
    -- the rest after this term, as blanks followed by a tail
    obtain ⟨k', Y, hrest, hY, hYlen, hYform⟩ : ∃ k' Y,
        restS (sepN k l) (ts.map fun t => termCharsN F v' caret star t.1 t.2) = spaces k' ++ Y ∧
        TailN Y ∧ Y.length ≤ (restS (sepN k l)
          (ts.map fun t => termCharsN F v' caret star t.1 t.2)).length ∧
        (Y = if ts = [] then [] else
          ('+' :: spaces l) ++ joinS (sepN k l) (ts.map fun t => termCharsN F v' caret star t.1 t.2)) := by
      by_cases h0 : ts = []
      · subst h0
        exact ⟨0, [], by simp [restS, spaces], Or.inl rfl, by simp, by simp⟩
      · have hm : (ts.map fun t => termCharsN F v' caret star t.1 t.2) ≠ [] := by simpa using h0
        refine ⟨k, '+' :: spaces l ++ joinS (sepN k l)
          (ts.map fun t => termCharsN F v' caret star t.1 t.2), ?_, Or.inr ⟨_, rfl⟩, ?_, ?_⟩
        · simp [restS, hm, sepN]
        · simp [restS, hm, sepN]
        · simp [h0]
    rw [hrest] at hf ⊢
    have hpre' : pre = [] ∨ ∃ l', pre = '+' :: spaces l' := hpre.imp id (fun h => ⟨l, h⟩)
    obtain ⟨full, htok⟩ := tokU_termN H hv hx hl hv' hx' hun caret star hpre' hc t.2 k' hY
    obtain ⟨y, tl, hT, _⟩ := termCharsN_head H hv' hx' caret star hc t.2 []
    have hsign : (if pre = [] then "" else "+" : String) ≠ "-" := by split <;> decide
    have hs : (pre ++ (termCharsN F v' caret star t.1 t.2 ++ (spaces k' ++ Y))).isEmpty = false := by
      rw [List.append_nil] at hT
      rw [hT]; cases pre <;> rfl
    have hlt : Y.length <
        (pre ++ (termCharsN F v' caret star t.1 t.2 ++ (spaces k' ++ Y))).length := by
      have h2 : (termCharsN F v' caret star t.1 t.2).length = tl.length + 1 := by
        rw [List.append_nil] at hT; rw [hT]; rfl
      simp only [List.length_append]
      omega
    cases f with
    | zero => rw [List.isEmpty_eq_false_iff] at hs; exact absurd (List.length_eq_zero_iff.1 (by omega)) hs
    | succ f =>
      rw [loopU, hs, htok]
      simp only [Bool.false_eq_true, if_false, hlt, if_true]
      by_cases hl0 : ts = []
      · subst hl0
        rw [hYform]
        simp only [if_true]
        rw [loopU_nil]
        refine ⟨[_], rfl, ?_⟩
        rw [u_go_term H hv' full _ hsign hc hd]
        simp [UPoly.stringToMapRx.go]
      · rw [hYform, if_neg hl0] at hlt hf ⊢
        obtain ⟨ms, h1, h2⟩ := ih hl0 (fun e he => hts e (by simp [he])) ('+' :: spaces l)
          (Or.inr rfl) f (UPoly.mapAdd F out t.2 t.1) (by omega)
        refine ⟨_ :: ms, by rw [h1]; rfl, ?_⟩
        rw [u_go_term H hv' full _ hsign hc hd, h2]
        simp

end

end Algobra.ParseRT
