/-
  Proofs/Strings.lean — string-level facts used by C15 (printing/parsing):
  decimal printing of naturals (`toString : Nat → String` = `Nat.repr`), `String.toNat!`,
  `Prime.isDigits`, `String.startsWith "-"`, `String.drop 1`, and the bit-level content of
  the binary-field printer.
-/
import Std.Data.String.ToNat
import Algobra.Model.Field

namespace Algobra.Strings
open Algobra

/-! ### `String.toNat!` -/

/-- `toNat!` agrees with `toNat?` whenever the latter succeeds (no panic branch) -/
theorem toNat!_eq_of_toNat? {s : String} {n : Nat} (h : s.toNat? = some n) : s.toNat! = n := by
  unfold String.toNat! String.Slice.toNat!
  unfold String.toNat? String.Slice.toNat? at h
  split at h
  · rename_i h1
    simp only [h1, if_true]
    simpa using h
  · cases h

/-- value of `toNat!` on a string accepted by `isNat` -/
theorem toNat!_eq_ofDigitChars {s : String} (h : s.isNat = true) :
    s.toNat! = Nat.ofDigitChars 10 (s.toList.filter (· != '_')) 0 :=
  toNat!_eq_of_toNat? (String.toNat?_eq_some_ofDigitChars h)

theorem toNat!_toString (n : Nat) : (toString n).toNat! = n :=
  toNat!_eq_of_toNat? (by simp)

/-! ### `Prime.isDigits` -/

theorem isDigits_iff (s : String) :
    Prime.isDigits s = true ↔ s ≠ "" ∧ ∀ c ∈ s.toList, c.isDigit = true := by
  unfold Prime.isDigits
  simp [String.all_bool_eq]

theorem isDigits_iff_toList (s : String) :
    Prime.isDigits s = true ↔ s.toList ≠ [] ∧ ∀ c ∈ s.toList, c.isDigit = true := by
  rw [isDigits_iff]; simp

theorem mem_toString_isDigit {n : Nat} {c : Char} (h : c ∈ (toString n).toList) :
    c.isDigit = true := by
  simp only [Nat.toString_eq_repr, Nat.toList_repr] at h
  exact Nat.isDigit_of_mem_toDigits (by omega) (by omega) h

theorem toString_ne_empty (n : Nat) : toString n ≠ "" := by simp

theorem isDigits_toString (n : Nat) : Prime.isDigits (toString n) = true :=
  (isDigits_iff _).2 ⟨toString_ne_empty n, fun _ h => mem_toString_isDigit h⟩

/-- a digit string has no underscore, so `toNat!` reads all of it -/
theorem isNat_of_isDigits {s : String} (h : Prime.isDigits s = true) : s.isNat = true := by
  obtain ⟨h1, h2⟩ := (isDigits_iff s).1 h
  exact String.isNat_of_isDigit h1 h2

theorem toNat!_of_isDigits {s : String} (h : Prime.isDigits s = true) :
    s.toNat! = Nat.ofDigitChars 10 s.toList 0 := by
  rw [toNat!_eq_ofDigitChars (isNat_of_isDigits h)]
  congr 1
  apply List.filter_eq_self.2
  intro c hc
  have := ((isDigits_iff s).1 h).2 c hc
  simp only [bne_iff_ne, ne_eq]
  rintro rfl
  simp at this

/-! ### the sign test -/

theorem not_isDigit_minus : ('-' : Char).isDigit = false := by decide

theorem startsWith_minus_iff (s : String) :
    s.startsWith "-" = true ↔ ∃ t, s.toList = '-' :: t := by
  rw [String.startsWith_string_iff]
  show ['-'] <+: s.toList ↔ _
  constructor
  · rintro ⟨t, ht⟩; exact ⟨t, by simpa using ht.symm⟩
  · rintro ⟨t, ht⟩; exact ⟨t, by simp [ht]⟩

theorem startsWith_minus_of_isDigits {s : String} (h : Prime.isDigits s = true) :
    s.startsWith "-" = false := by
  cases hs : s.startsWith "-" with
  | false => rfl
  | true =>
    obtain ⟨t, ht⟩ := (startsWith_minus_iff s).1 hs
    have := ((isDigits_iff s).1 h).2 '-' (by simp [ht])
    simp [not_isDigit_minus] at this

theorem toString_not_startsWith_minus (n : Nat) : (toString n).startsWith "-" = false :=
  startsWith_minus_of_isDigits (isDigits_toString n)

theorem startsWith_minus_append (t : String) : ("-" ++ t).startsWith "-" = true := by
  rw [startsWith_minus_iff]; exact ⟨t.toList, by simp⟩

theorem drop_one_toString_toList (s : String) : (s.drop 1).toString.toList = s.toList.drop 1 := by
  show (s.drop 1).copy.toList = _
  exact String.toList_copy_drop

theorem drop_one_minus_append (t : String) : (("-" ++ t).drop 1).toString = t := by
  apply String.toList_inj.1
  rw [drop_one_toString_toList]; simp

/-! ### `Prime.parse` unfolded on the two accepted shapes -/

theorem parse_of_isDigits (p : Nat) {s : String} (h : Prime.isDigits s = true) :
    Prime.parse p s =
      if s.toNat! ≥ 2 ^ 64 then .error .parsing else .ok (Prime.element p s.toNat!) := by
  unfold Prime.parse
  simp only [startsWith_minus_of_isDigits h, Bool.false_eq_true, if_false, h, Bool.not_true]

theorem parse_minus_of_isDigits (p : Nat) {t : String} (h : Prime.isDigits t = true) :
    Prime.parse p ("-" ++ t) =
      if t.toNat! > 2 ^ 63 then .error .parsing
      else .ok (Prime.fromSigned p (-(Int.ofNat t.toNat!))) := by
  unfold Prime.parse
  simp only [startsWith_minus_append, if_true, drop_one_minus_append, h, Bool.not_true,
    Bool.false_eq_true, if_false]

/-- every string is of exactly one of the shapes: digits, `-`digits, or rejected -/
theorem parse_cases (p : Nat) (s : String) :
    (Prime.isDigits s = true) ∨
    (∃ t, s = "-" ++ t ∧ Prime.isDigits t = true) ∨
    Prime.parse p s = .error .parsing := by
  by_cases hneg : s.startsWith "-" = true
  · by_cases hd : Prime.isDigits (s.drop 1).toString = true
    · right; left
      refine ⟨(s.drop 1).toString, ?_, hd⟩
      obtain ⟨t, ht⟩ := (startsWith_minus_iff s).1 hneg
      apply String.toList_inj.1
      rw [String.toList_append, drop_one_toString_toList, ht]
      rfl
    · right; right
      simp only [Bool.not_eq_true] at hd
      unfold Prime.parse
      simp only [hneg, hd, ↓reduceIte, Bool.not_false]
  · by_cases hd : Prime.isDigits s = true
    · left; exact hd
    · right; right
      simp only [Bool.not_eq_true] at hneg hd
      unfold Prime.parse
      simp only [hneg, hd, ↓reduceIte, Bool.not_false, Bool.false_eq_true]

theorem element_lt {p : Nat} (hp : 0 < p) (v : Nat) : Prime.element p v < p :=
  Nat.mod_lt _ hp

theorem fromSigned_lt {p : Nat} (hp : 0 < p) (v : Int) : Prime.fromSigned p v < p := by
  unfold Prime.fromSigned
  exact element_lt hp _

/-! ### bits: the degree list of the binary-field printer determines the value -/

/-- the list of set bit positions `≤ n`, highest first (as in `Bin.toStr`) -/
def degs (n v : Nat) : List Nat := (List.range (n + 1)).reverse.filter fun d => v.testBit d

theorem mem_degs {n v d : Nat} : d ∈ degs n v ↔ d ≤ n ∧ v.testBit d = true := by
  unfold degs
  simp only [List.mem_filter, List.mem_reverse, List.mem_range, Nat.lt_succ_iff]

/-- for values of bit length ≤ n+1 the degree list determines the value -/
theorem degs_injective {n a b : Nat} (ha : a < 2 ^ (n + 1)) (hb : b < 2 ^ (n + 1))
    (h : degs n a = degs n b) : a = b := by
  apply Nat.eq_of_testBit_eq
  intro i
  by_cases hi : i ≤ n
  · have h1 := @mem_degs n a i
    have h2 := @mem_degs n b i
    rw [h] at h1
    cases hA : a.testBit i <;> cases hB : b.testBit i <;> simp_all
  · have hi' : n + 1 ≤ i := by omega
    have h2 : 2 ^ (n + 1) ≤ 2 ^ i := Nat.pow_le_pow_right (by omega) hi'
    rw [Nat.testBit_lt_two_pow (by omega), Nat.testBit_lt_two_pow (by omega)]

theorem degs_eq_nil_iff {n v : Nat} (hv : v < 2 ^ (n + 1)) : degs n v = [] ↔ v = 0 := by
  constructor
  · intro h
    apply degs_injective hv (Nat.pow_pos (by omega))
    rw [h]
    unfold degs
    simp
  · rintro rfl
    unfold degs
    simp

/-- the degree list is strictly decreasing -/
theorem degs_pairwise (n v : Nat) : (degs n v).Pairwise (· > ·) := by
  unfold degs
  apply List.Pairwise.filter
  rw [List.pairwise_reverse]
  exact List.pairwise_lt_range

end Algobra.Strings
