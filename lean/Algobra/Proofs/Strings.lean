/-
  Proofs/Strings.lean — string-level facts used by C15 (printing/parsing):
  * decimal printing of naturals (`toString : Nat → String` = `Nat.repr`), `String.toNat!`,
    `Prime.isDigits`, `String.startsWith "-"`, `String.drop 1`; `Prime.parse` unfolded on its
    accepted shapes (`parse_cases`, `parse_of_isDigits`, `parse_minus_of_isDigits`);
  * the binary-field printer `Bin.toStr`: degree list ↔ value, string-level injectivity;
  * the univariate printer `UPoly.toStr` over `primeOps p`: string-level injectivity;
  * the total helpers of the regex-based parsers (`parseUint`, `parseIntDigits`, `parseExponent`,
    `quoteMeta`, `trimParens`) and the error kinds those parsers can return.
  Core + Std only (no Mathlib).
-/
import Std.Data.String.ToNat
import Algobra.Model.Field
import Algobra.Model.Ext
import Algobra.Model.BPoly

namespace Algobra.Strings
open Algobra Algobra.Regex

/-! ### `String.toNat!` -/

/-- `toNat!` agrees with `toNat?` whenever the latter succeeds (no panic branch) -/
theorem toNat!_eq_of_toNat? {s : String} {n : Nat} (h : s.toNat? = some n) : s.toNat! = n := by
  unfold String.toNat! String.Slice.toNat!
  unfold String.toNat? String.Slice.toNat? at h
  split at h
  · rename_i h1
    simp only [h1, if_true]
    simpa using h
  · cases h

/-- value of `toNat!` on a string accepted by `isNat` -/
theorem toNat!_eq_ofDigitChars {s : String} (h : s.isNat = true) :
    s.toNat! = Nat.ofDigitChars 10 (s.toList.filter (· != '_')) 0 :=
  toNat!_eq_of_toNat? (String.toNat?_eq_some_ofDigitChars h)

theorem toNat!_toString (n : Nat) : (toString n).toNat! = n :=
  toNat!_eq_of_toNat? (by simp)

/-! ### `Prime.isDigits` -/

theorem isDigits_iff (s : String) :
    Prime.isDigits s = true ↔ s ≠ "" ∧ ∀ c ∈ s.toList, c.isDigit = true := by
  unfold Prime.isDigits
  simp [String.all_bool_eq]

theorem isDigits_iff_toList (s : String) :
    Prime.isDigits s = true ↔ s.toList ≠ [] ∧ ∀ c ∈ s.toList, c.isDigit = true := by
  rw [isDigits_iff]; simp

theorem mem_toString_isDigit {n : Nat} {c : Char} (h : c ∈ (toString n).toList) :
    c.isDigit = true := by
  simp only [Nat.toString_eq_repr, Nat.toList_repr] at h
  exact Nat.isDigit_of_mem_toDigits (by omega) (by omega) h

theorem toString_ne_empty (n : Nat) : toString n ≠ "" := by simp

theorem isDigits_toString (n : Nat) : Prime.isDigits (toString n) = true :=
  (isDigits_iff _).2 ⟨toString_ne_empty n, fun _ h => mem_toString_isDigit h⟩

/-- a digit string has no underscore, so `toNat!` reads all of it -/
theorem isNat_of_isDigits {s : String} (h : Prime.isDigits s = true) : s.isNat = true := by
  obtain ⟨h1, h2⟩ := (isDigits_iff s).1 h
  exact String.isNat_of_isDigit h1 h2

theorem toNat!_of_isDigits {s : String} (h : Prime.isDigits s = true) :
    s.toNat! = Nat.ofDigitChars 10 s.toList 0 := by
  rw [toNat!_eq_ofDigitChars (isNat_of_isDigits h)]
  congr 1
  apply List.filter_eq_self.2
  intro c hc
  have := ((isDigits_iff s).1 h).2 c hc
  simp only [bne_iff_ne, ne_eq]
  rintro rfl
  simp at this

/-! ### the sign test -/

theorem not_isDigit_minus : ('-' : Char).isDigit = false := by decide

theorem startsWith_minus_iff (s : String) :
    s.startsWith "-" = true ↔ ∃ t, s.toList = '-' :: t := by
  rw [String.startsWith_string_iff]
  show ['-'] <+: s.toList ↔ _
  constructor
  · rintro ⟨t, ht⟩; exact ⟨t, by simpa using ht.symm⟩
  · rintro ⟨t, ht⟩; exact ⟨t, by simp [ht]⟩

theorem startsWith_minus_of_isDigits {s : String} (h : Prime.isDigits s = true) :
    s.startsWith "-" = false := by
  cases hs : s.startsWith "-" with
  | false => rfl
  | true =>
    obtain ⟨t, ht⟩ := (startsWith_minus_iff s).1 hs
    have := ((isDigits_iff s).1 h).2 '-' (by simp [ht])
    simp [not_isDigit_minus] at this

theorem toString_not_startsWith_minus (n : Nat) : (toString n).startsWith "-" = false :=
  startsWith_minus_of_isDigits (isDigits_toString n)

theorem startsWith_minus_append (t : String) : ("-" ++ t).startsWith "-" = true := by
  rw [startsWith_minus_iff]; exact ⟨t.toList, by simp⟩

theorem drop_one_toString_toList (s : String) : (s.drop 1).toString.toList = s.toList.drop 1 := by
  show (s.drop 1).copy.toList = _
  exact String.toList_copy_drop

theorem drop_one_minus_append (t : String) : (("-" ++ t).drop 1).toString = t := by
  apply String.toList_inj.1
  rw [drop_one_toString_toList]; simp

/-! ### `Prime.parse` unfolded on the two accepted shapes -/

theorem parse_of_isDigits (p : Nat) {s : String} (h : Prime.isDigits s = true) :
    Prime.parse p s =
      if s.toNat! ≥ 2 ^ 64 then .error .parsing else .ok (Prime.element p s.toNat!) := by
  unfold Prime.parse
  simp only [startsWith_minus_of_isDigits h, Bool.false_eq_true, if_false, h, Bool.not_true]

theorem parse_minus_of_isDigits (p : Nat) {t : String} (h : Prime.isDigits t = true) :
    Prime.parse p ("-" ++ t) =
      if t.toNat! > 2 ^ 63 then .error .parsing
      else .ok (Prime.fromSigned p (-(Int.ofNat t.toNat!))) := by
  unfold Prime.parse
  simp only [startsWith_minus_append, if_true, drop_one_minus_append, h, Bool.not_true,
    Bool.false_eq_true, if_false]

/-- every string is of exactly one of the shapes: digits, `-`digits, or rejected -/
theorem parse_cases (p : Nat) (s : String) :
    (Prime.isDigits s = true) ∨
    (∃ t, s = "-" ++ t ∧ Prime.isDigits t = true) ∨
    Prime.parse p s = .error .parsing := by
  by_cases hneg : s.startsWith "-" = true
  · by_cases hd : Prime.isDigits (s.drop 1).toString = true
    · right; left
      refine ⟨(s.drop 1).toString, ?_, hd⟩
      obtain ⟨t, ht⟩ := (startsWith_minus_iff s).1 hneg
      apply String.toList_inj.1
      rw [String.toList_append, drop_one_toString_toList, ht]
      rfl
    · right; right
      simp only [Bool.not_eq_true] at hd
      unfold Prime.parse
      simp only [hneg, hd, ↓reduceIte, Bool.not_false]
  · by_cases hd : Prime.isDigits s = true
    · left; exact hd
    · right; right
      simp only [Bool.not_eq_true] at hneg hd
      unfold Prime.parse
      simp only [hneg, hd, ↓reduceIte, Bool.not_false, Bool.false_eq_true]

theorem element_lt {p : Nat} (hp : 0 < p) (v : Nat) : Prime.element p v < p :=
  Nat.mod_lt _ hp

theorem fromSigned_lt {p : Nat} (hp : 0 < p) (v : Int) : Prime.fromSigned p v < p := by
  unfold Prime.fromSigned
  exact element_lt hp _

/-! ### bits: the degree list of the binary-field printer determines the value -/

/-- the list of set bit positions `≤ n`, highest first (as in `Bin.toStr`) -/
def degs (n v : Nat) : List Nat := (List.range (n + 1)).reverse.filter fun d => v.testBit d

theorem mem_degs {n v d : Nat} : d ∈ degs n v ↔ d ≤ n ∧ v.testBit d = true := by
  unfold degs
  simp only [List.mem_filter, List.mem_reverse, List.mem_range, Nat.lt_succ_iff]

/-- for values of bit length ≤ n+1 the degree list determines the value -/
theorem degs_injective {n a b : Nat} (ha : a < 2 ^ (n + 1)) (hb : b < 2 ^ (n + 1))
    (h : degs n a = degs n b) : a = b := by
  apply Nat.eq_of_testBit_eq
  intro i
  by_cases hi : i ≤ n
  · have h1 := @mem_degs n a i
    have h2 := @mem_degs n b i
    rw [h] at h1
    cases hA : a.testBit i <;> cases hB : b.testBit i <;> simp_all
  · have hi' : n + 1 ≤ i := by omega
    have h2 : 2 ^ (n + 1) ≤ 2 ^ i := Nat.pow_le_pow_right (by omega) hi'
    rw [Nat.testBit_lt_two_pow (by omega), Nat.testBit_lt_two_pow (by omega)]

theorem degs_eq_nil_iff {n v : Nat} (hv : v < 2 ^ (n + 1)) : degs n v = [] ↔ v = 0 := by
  constructor
  · intro h
    apply degs_injective hv (Nat.pow_pos (by omega))
    rw [h]
    unfold degs
    simp
  · rintro rfl
    unfold degs
    simp

/-- the degree list is strictly decreasing -/
theorem degs_pairwise (n v : Nat) : (degs n v).Pairwise (· > ·) := by
  unfold degs
  apply List.Pairwise.filter
  rw [List.pairwise_reverse]
  exact List.pairwise_lt_range

/-! ### the binary-field printer is injective -/

/-- one printed term of `Bin.toStr` -/
def binTerm (w : String) (d : Nat) : String :=
  if d = 0 then "1" else if d = 1 then w else w ++ "^" ++ toString d

theorem toStr_eq (w : String) (n v : Nat) :
    Bin.toStr w n v =
      if v = 0 then "0" else " + ".intercalate ((degs n v).map (binTerm w)) := rfl

/-- characters of the joined term list -/
def J (w : String) (l : List Nat) : List Char :=
  (" + ".intercalate (l.map (binTerm w))).toList

/-- what follows the first term: nothing, or the separator and the remaining terms -/
def R (w : String) (l : List Nat) : List Char :=
  if l = [] then [] else ' ' :: '+' :: ' ' :: J w l

theorem J_nil (w : String) : J w [] = [] := by simp [J]

theorem J_cons (w : String) (d : Nat) (l : List Nat) :
    J w (d :: l) = (binTerm w d).toList ++ R w l := by
  cases l with
  | nil => simp [J, R]
  | cons e t => simp [J, R]

theorem R_head (w : String) (l : List Nat) : R w l = [] ∨ ∃ t, R w l = ' ' :: t := by
  unfold R; split
  · exact Or.inl rfl
  · exact Or.inr ⟨_, rfl⟩

theorem binTerm_toList (w : String) (d : Nat) :
    (binTerm w d).toList =
      if d = 0 then ['1'] else w.toList ++ (if d = 1 then [] else '^' :: (toString d).toList) := by
  unfold binTerm
  split
  · rfl
  · split <;> simp

/-- digits followed by "nothing or something starting with a blank" split uniquely -/
theorem digits_append_inj {D D' X X' : List Char}
    (hD : ∀ c ∈ D, c.isDigit = true) (hD' : ∀ c ∈ D', c.isDigit = true)
    (hX : X = [] ∨ ∃ t, X = ' ' :: t) (hX' : X' = [] ∨ ∃ t, X' = ' ' :: t)
    (h : D ++ X = D' ++ X') : D = D' ∧ X = X' := by
  have key : ∀ {D X : List Char}, (∀ c ∈ D, c.isDigit = true) → (X = [] ∨ ∃ t, X = ' ' :: t) →
      (D ++ X).takeWhile Char.isDigit = D := by
    intro D X hD hX
    rw [List.takeWhile_append_of_pos hD]
    rcases hX with rfl | ⟨t, rfl⟩
    · simp
    · rw [List.takeWhile_cons_of_neg (by decide)]; simp
  have hDD : D = D' := by rw [← key hD hX, h, key hD' hX']
  subst hDD
  exact ⟨rfl, List.append_cancel_left h⟩

/-- the first term and the remainder are determined by the string -/
theorem head_inj {w : String} (hw : w ≠ "") (h1 : w ≠ "1") {d d' : Nat} {l l' : List Nat}
    (hl : d = 0 → l = []) (hl' : d' = 0 → l' = [])
    (h : (binTerm w d).toList ++ R w l = (binTerm w d').toList ++ R w l') :
    d = d' ∧ R w l = R w l' := by
  have hW : w.toList ≠ [] := by simpa using hw
  have hW1 : w.toList ≠ ['1'] := by
    intro h; apply h1; apply String.toList_inj.1; rw [h]; rfl
  -- a term of positive degree never equals "1" followed by nothing
  have pos_ne : ∀ (e : Nat) (X : List Char), e ≠ 0 → (binTerm w e).toList ++ X ≠ ['1'] := by
    intro e X he hc
    rw [binTerm_toList, if_neg he, List.append_assoc] at hc
    rcases List.append_eq_cons_iff.1 hc with ⟨h, _⟩ | ⟨t, ht, hnil⟩
    · exact hW h
    · have := List.append_eq_nil_iff.1 hnil.symm
      rw [this.1] at ht; exact hW1 ht
  by_cases hd : d = 0
  · by_cases hd' : d' = 0
    · rw [hl hd, hl' hd']; exact ⟨by omega, rfl⟩
    · exfalso
      rw [hl hd, hd] at h
      exact pos_ne d' _ hd' (h.symm.trans (by simp [binTerm, R]))
  · by_cases hd' : d' = 0
    · exfalso
      rw [hl' hd', hd'] at h
      exact pos_ne d _ hd (h.trans (by simp [binTerm, R]))
    · rw [binTerm_toList, binTerm_toList, if_neg hd, if_neg hd', List.append_assoc,
        List.append_assoc] at h
      have h := List.append_cancel_left h
      by_cases e1 : d = 1 <;> by_cases e1' : d' = 1
      · exact ⟨by omega, by simpa [e1, e1'] using h⟩
      · exfalso
        rw [if_pos e1, if_neg e1'] at h
        rcases R_head w l with h0 | ⟨t, ht⟩
        · rw [h0] at h; simp at h
        · rw [ht] at h; simp at h
      · exfalso
        rw [if_neg e1, if_pos e1'] at h
        rcases R_head w l' with h0 | ⟨t, ht⟩
        · rw [h0] at h; simp at h
        · rw [ht] at h; simp at h
      · rw [if_neg e1, if_neg e1'] at h
        simp only [List.cons_append, List.cons.injEq, true_and] at h
        obtain ⟨hD, hR⟩ := digits_append_inj (fun c hc => mem_toString_isDigit hc)
          (fun c hc => mem_toString_isDigit hc) (R_head w l) (R_head w l') h
        have : toString d = toString d' := String.toList_inj.1 hD
        exact ⟨by simpa using this, hR⟩

theorem R_inj {w : String} {l l' : List Nat} (h : R w l = R w l') :
    (l = [] ∧ l' = []) ∨ (l ≠ [] ∧ l' ≠ [] ∧ J w l = J w l') := by
  unfold R at h
  by_cases e : l = [] <;> by_cases e' : l' = []
  · exact Or.inl ⟨e, e'⟩
  · rw [if_pos e, if_neg e'] at h; cases h
  · rw [if_neg e, if_pos e'] at h; cases h
  · rw [if_neg e, if_neg e'] at h
    exact Or.inr ⟨e, e', by simpa using h⟩

/-- strictly decreasing degree lists are determined by the joined string -/
theorem J_inj {w : String} (hw : w ≠ "") (h1 : w ≠ "1") :
    ∀ {l l' : List Nat}, l.Pairwise (· > ·) → l'.Pairwise (· > ·) → l ≠ [] → l' ≠ [] →
      J w l = J w l' → l = l' := by
  intro l
  induction l with
  | nil => intro l' _ _ h; exact absurd rfl h
  | cons d t ih =>
    intro l' hp hp' _ hne' h
    cases l' with
    | nil => exact absurd rfl hne'
    | cons d' t' =>
      rw [J_cons, J_cons] at h
      have hl : d = 0 → t = [] := by
        intro hd
        cases t with
        | nil => rfl
        | cons e _ => have := (List.pairwise_cons.1 hp).1 e (by simp); omega
      have hl' : d' = 0 → t' = [] := by
        intro hd
        cases t' with
        | nil => rfl
        | cons e _ => have := (List.pairwise_cons.1 hp').1 e (by simp); omega
      obtain ⟨hdd, hR⟩ := head_inj hw h1 hl hl' h
      subst hdd
      rcases R_inj hR with ⟨e, e'⟩ | ⟨e, e', hJ⟩
      · rw [e, e']
      · rw [ih (List.pairwise_cons.1 hp).2 (List.pairwise_cons.1 hp').2 e e' hJ]

/-- a non-empty joined term list is never the string "0" -/
theorem J_ne_zero {w : String} (hw : w ≠ "") (h0 : w ≠ "0") {l : List Nat} (hl : l ≠ []) :
    J w l ≠ ['0'] := by
  have hW : w.toList ≠ [] := by simpa using hw
  have hW0 : w.toList ≠ ['0'] := by
    intro h; apply h0; apply String.toList_inj.1; rw [h]; rfl
  cases l with
  | nil => exact absurd rfl hl
  | cons d t =>
    rw [J_cons, binTerm_toList]
    intro hc
    split at hc
    · simp at hc
    · rw [List.append_assoc] at hc
      rcases List.append_eq_cons_iff.1 hc with ⟨h, _⟩ | ⟨t', ht, hnil⟩
      · exact hW h
      · have := List.append_eq_nil_iff.1 hnil.symm
        rw [this.1] at ht; exact hW0 ht

/-- `Bin.toStr` is injective on values of at most `n+1` bits, for every variable name the setter
    `SetVarName` accepts (non-empty, not "0", not "1"). -/
theorem toStr_injective {w : String} (hw : w ≠ "") (h0 : w ≠ "0") (h1 : w ≠ "1")
    {n a b : Nat} (ha : a < 2 ^ (n + 1)) (hb : b < 2 ^ (n + 1))
    (h : Bin.toStr w n a = Bin.toStr w n b) : a = b := by
  rw [toStr_eq, toStr_eq] at h
  have hla : a ≠ 0 → degs n a ≠ [] := fun h => mt (degs_eq_nil_iff ha).1 h
  have hlb : b ≠ 0 → degs n b ≠ [] := fun h => mt (degs_eq_nil_iff hb).1 h
  by_cases ea : a = 0 <;> by_cases eb : b = 0
  · rw [ea, eb]
  · exfalso
    rw [if_pos ea, if_neg eb] at h
    exact J_ne_zero hw h0 (hlb eb) (congrArg String.toList h).symm
  · exfalso
    rw [if_neg ea, if_pos eb] at h
    exact J_ne_zero hw h0 (hla ea) (congrArg String.toList h)
  · rw [if_neg ea, if_neg eb] at h
    exact degs_injective ha hb
      (J_inj hw h1 (degs_pairwise n a) (degs_pairwise n b) (hla ea) (hlb eb)
        (congrArg String.toList h))

/-! ### the total helpers of the regex-based parsers -/

theorem parseUint_eq (s : String) :
    parseUint s = if Prime.isDigits s then
        (if s.toNat! < 2 ^ 64 then some s.toNat! else none) else none := by
  unfold parseUint Prime.isDigits
  cases h1 : s.isEmpty <;> cases h2 : s.all Char.isDigit <;> simp

theorem parseIntDigits_eq (s : String) :
    parseIntDigits s = if Prime.isDigits s then
        (if s.toNat! < 2 ^ 63 then some s.toNat! else none) else none := by
  unfold parseIntDigits Prime.isDigits
  cases h1 : s.isEmpty <;> cases h2 : s.all Char.isDigit <;> simp

/-- `strconv.ParseUint` reads back a printed exponent -/
theorem parseUint_toString {n : Nat} (h : n < 2 ^ 64) : parseUint (toString n) = some n := by
  rw [parseUint_eq, if_pos (isDigits_toString n), toNat!_toString, if_pos h]

theorem parseIntDigits_toString {n : Nat} (h : n < 2 ^ 63) :
    parseIntDigits (toString n) = some n := by
  rw [parseIntDigits_eq, if_pos (isDigits_toString n), toNat!_toString, if_pos h]

theorem parseExponent_toString {n : Nat} (h : n < 2 ^ 64) :
    BPoly.parseExponent (toString n) = some n := by
  unfold BPoly.parseExponent
  have : (toString n == "") = false := by simp
  rw [this]
  exact parseUint_toString h

theorem parseExponent_empty : BPoly.parseExponent "" = some 1 := by
  unfold BPoly.parseExponent; simp

/-- `regexp.QuoteMeta` leaves names without metacharacters alone -/
theorem quoteMeta_eq_self {s : String}
    (h : ∀ c ∈ s.toList, c ∉ "\\.+*?()|[]{}^$".toList) : quoteMeta s = s := by
  unfold quoteMeta
  apply String.toList_inj.1
  rw [String.toList_ofList]
  generalize s.toList = l at h
  induction l with
  | nil => rfl
  | cons c t ih =>
    rw [List.flatMap_cons, ih (fun x hx => h x (List.mem_cons_of_mem _ hx))]
    have hc : ("\\.+*?()|[]{}^$".toList.contains c) = false := by
      simpa using h c (by simp)
    rw [hc]; rfl

/-! ### the univariate printer over a prime field is injective -/

/-- one printed term of `UPoly.toStr (primeOps p)` -/
def uTerm (v : String) (c d : Nat) : String :=
  (if !(c == 1) || d == 0 then toString c else "") ++
    (if d == 1 then v else if d > 1 then v ++ "^" ++ toString d else "")

theorem utoStr_eq (p : Nat) (v : String) (f : UPoly Nat) :
    UPoly.toStr (primeOps p) v f =
      if UPoly.isZero (primeOps p) f then "0"
      else " + ".intercalate ((UPoly.degrees (primeOps p) f).map fun d =>
        uTerm v (UPoly.coef (primeOps p) f d) d) := rfl

theorem mem_degrees (p : Nat) (f : UPoly Nat) (d : Nat) :
    d ∈ UPoly.degrees (primeOps p) f ↔ f.getD d 0 ≠ 0 := by
  unfold UPoly.degrees
  simp only [List.mem_reverse, List.mem_map, List.mem_filter, Prod.exists]
  constructor
  · rintro ⟨c, i, ⟨hm, hz⟩, rfl⟩
    rw [List.mem_zipIdx_iff_getElem?] at hm
    simp only [List.getD_eq_getElem?_getD, hm, Option.getD_some]
    change (!(c == 0)) = true at hz
    simpa using hz
  · intro h
    refine ⟨f.getD d 0, d, ⟨?_, ?_⟩, rfl⟩
    · rw [List.mem_zipIdx_iff_getElem?]
      rw [List.getD_eq_getElem?_getD] at h ⊢
      cases hq : f[d]? with
      | none => rw [hq] at h; exact absurd rfl h
      | some x => rfl
    · change (!(f.getD d 0 == 0)) = true
      simpa using h

/-- digits followed by "nothing or something starting with a non-digit" split uniquely -/
theorem digits_append_inj' {D D' X X' : List Char}
    (hD : ∀ c ∈ D, c.isDigit = true) (hD' : ∀ c ∈ D', c.isDigit = true)
    (hX : ∀ c ∈ X.head?, c.isDigit = false) (hX' : ∀ c ∈ X'.head?, c.isDigit = false)
    (h : D ++ X = D' ++ X') : D = D' ∧ X = X' := by
  have key : ∀ {D X : List Char}, (∀ c ∈ D, c.isDigit = true) →
      (∀ c ∈ X.head?, c.isDigit = false) → (D ++ X).takeWhile Char.isDigit = D := by
    intro D X hD hX
    rw [List.takeWhile_append_of_pos hD]
    cases X with
    | nil => simp
    | cons x t =>
      have := hX x (by simp)
      rw [List.takeWhile_cons_of_neg (by simp [this])]; simp
  have hDD : D = D' := by rw [← key hD hX, h, key hD' hX']
  subst hDD
  exact ⟨rfl, List.append_cancel_left h⟩

def JU (v : String) (l : List (Nat × Nat)) : List Char :=
  (" + ".intercalate (l.map fun t => uTerm v t.1 t.2)).toList

def RU (v : String) (l : List (Nat × Nat)) : List Char :=
  if l = [] then [] else ' ' :: '+' :: ' ' :: JU v l

theorem JU_cons (v : String) (t : Nat × Nat) (l : List (Nat × Nat)) :
    JU v (t :: l) = (uTerm v t.1 t.2).toList ++ RU v l := by
  cases l with
  | nil => simp [JU, RU]
  | cons e t => simp [JU, RU]

theorem RU_head (v : String) (l : List (Nat × Nat)) : RU v l = [] ∨ ∃ t, RU v l = ' ' :: t := by
  unfold RU; split
  · exact Or.inl rfl
  · exact Or.inr ⟨_, rfl⟩

/-- coefficient part and variable part of a term -/
def uCoefPart (c d : Nat) : List Char := if c ≠ 1 ∨ d = 0 then (toString c).toList else []

def uVarPart (v : String) (d : Nat) : List Char :=
  if d = 0 then [] else v.toList ++ (if d = 1 then [] else '^' :: (toString d).toList)

theorem uTerm_toList (v : String) (c d : Nat) :
    (uTerm v c d).toList = uCoefPart c d ++ uVarPart v d := by
  unfold uTerm uCoefPart uVarPart
  rw [String.toList_append]
  congr 1
  · by_cases h1 : c = 1 <;> by_cases h0 : d = 0 <;> simp [h1, h0]
  · by_cases h0 : d = 0
    · simp [h0]
    · by_cases h1 : d = 1
      · simp [h1]
      · have : d > 1 := by omega
        simp [h0, h1, this]

theorem uCoefPart_digits (c d : Nat) : ∀ x ∈ uCoefPart c d, x.isDigit = true := by
  unfold uCoefPart; split
  · exact fun x hx => mem_toString_isDigit hx
  · simp

/-- the first term and the remainder are determined by the string; the variable name only has to
    start with a character that is neither a digit nor a blank -/
theorem uhead_inj {v : String} {x : Char} {vt : List Char} (hv : v.toList = x :: vt)
    (hx1 : x.isDigit = false) (hx2 : x ≠ ' ') {c d c' d' : Nat} {l l' : List (Nat × Nat)}
    (h : (uTerm v c d).toList ++ RU v l = (uTerm v c' d').toList ++ RU v l') :
    c = c' ∧ d = d' ∧ RU v l = RU v l' := by
  rw [uTerm_toList, uTerm_toList, List.append_assoc, List.append_assoc] at h
  -- what follows the coefficient starts with a non-digit
  have hnd : ∀ (e : Nat) (k : List (Nat × Nat)), ∀ y ∈ (uVarPart v e ++ RU v k).head?,
      y.isDigit = false := by
    intro e k y hy
    unfold uVarPart at hy
    split at hy
    · rcases RU_head v k with h0 | ⟨t, ht⟩
      · rw [h0] at hy; simp at hy
      · rw [ht] at hy; simp at hy; rw [← hy]; decide
    · rw [hv] at hy; simp at hy; rw [← hy]; exact hx1
  obtain ⟨hD, hW⟩ := digits_append_inj' (uCoefPart_digits c d) (uCoefPart_digits c' d')
    (hnd d l) (hnd d' l') h
  -- variable part
  have hdd : d = d' ∧ RU v l = RU v l' := by
    unfold uVarPart at hW
    by_cases e0 : d = 0 <;> by_cases e0' : d' = 0
    · rw [if_pos e0, if_pos e0'] at hW
      exact ⟨by omega, by simpa using hW⟩
    · exfalso
      rw [if_pos e0, if_neg e0', hv] at hW
      rcases RU_head v l with h0 | ⟨t, ht⟩
      · rw [h0] at hW; simp at hW
      · rw [ht] at hW; simp at hW; exact hx2 hW.1.symm
    · exfalso
      rw [if_neg e0, if_pos e0', hv] at hW
      rcases RU_head v l' with h0 | ⟨t, ht⟩
      · rw [h0] at hW; simp at hW
      · rw [ht] at hW; simp at hW; exact hx2 hW.1
    · rw [if_neg e0, if_neg e0', List.append_assoc, List.append_assoc] at hW
      have hW := List.append_cancel_left hW
      by_cases e1 : d = 1 <;> by_cases e1' : d' = 1
      · exact ⟨by omega, by simpa [e1, e1'] using hW⟩
      · exfalso
        rw [if_pos e1, if_neg e1'] at hW
        rcases RU_head v l with h0 | ⟨t, ht⟩
        · rw [h0] at hW; simp at hW
        · rw [ht] at hW; simp at hW
      · exfalso
        rw [if_neg e1, if_pos e1'] at hW
        rcases RU_head v l' with h0 | ⟨t, ht⟩
        · rw [h0] at hW; simp at hW
        · rw [ht] at hW; simp at hW
      · rw [if_neg e1, if_neg e1'] at hW
        simp only [List.cons_append, List.cons.injEq, true_and] at hW
        obtain ⟨hE, hR⟩ := digits_append_inj (fun c hc => mem_toString_isDigit hc)
          (fun c hc => mem_toString_isDigit hc) (RU_head v l) (RU_head v l') hW
        have : toString d = toString d' := String.toList_inj.1 hE
        exact ⟨by simpa using this, hR⟩
  obtain ⟨hd, hR⟩ := hdd
  subst hd
  refine ⟨?_, rfl, hR⟩
  -- coefficient part
  unfold uCoefPart at hD
  have hne : ∀ n : Nat, (toString n).toList ≠ [] := by
    intro n; simp
  by_cases a : c ≠ 1 ∨ d = 0 <;> by_cases a' : c' ≠ 1 ∨ d = 0
  · rw [if_pos a, if_pos a'] at hD
    have : toString c = toString c' := String.toList_inj.1 hD
    simpa using this
  · rw [if_pos a, if_neg a'] at hD; exact absurd hD (hne c)
  · rw [if_neg a, if_pos a'] at hD; exact absurd hD.symm (hne c')
  · omega

theorem RU_inj {v : String} {l l' : List (Nat × Nat)} (h : RU v l = RU v l') :
    (l = [] ∧ l' = []) ∨ (l ≠ [] ∧ l' ≠ [] ∧ JU v l = JU v l') := by
  unfold RU at h
  by_cases e : l = [] <;> by_cases e' : l' = []
  · exact Or.inl ⟨e, e'⟩
  · rw [if_pos e, if_neg e'] at h; cases h
  · rw [if_neg e, if_pos e'] at h; cases h
  · rw [if_neg e, if_neg e'] at h
    exact Or.inr ⟨e, e', by simpa using h⟩

/-- the list of (coefficient, degree) pairs is determined by the joined string -/
theorem JU_inj {v : String} {x : Char} {vt : List Char} (hv : v.toList = x :: vt)
    (hx1 : x.isDigit = false) (hx2 : x ≠ ' ') :
    ∀ {l l' : List (Nat × Nat)}, l ≠ [] → l' ≠ [] → JU v l = JU v l' → l = l' := by
  intro l
  induction l with
  | nil => intro l' h; exact absurd rfl h
  | cons t tl ih =>
    intro l' _ hne' h
    cases l' with
    | nil => exact absurd rfl hne'
    | cons t' tl' =>
      rw [JU_cons, JU_cons] at h
      obtain ⟨hc, hd, hR⟩ := uhead_inj hv hx1 hx2 h
      have ht : t = t' := Prod.ext hc hd
      subst ht
      rcases RU_inj hR with ⟨e, e'⟩ | ⟨e, e', hJ⟩
      · rw [e, e']
      · rw [ih e e' hJ]

/-- a non-empty joined list of terms with nonzero coefficients is never "0" -/
theorem JU_ne_zero {v : String} {x : Char} {vt : List Char} (hv : v.toList = x :: vt)
    (hx1 : x.isDigit = false) {l : List (Nat × Nat)} (hl : l ≠ []) (hc : ∀ t ∈ l, t.1 ≠ 0) :
    JU v l ≠ ['0'] := by
  cases l with
  | nil => exact absurd rfl hl
  | cons t tl =>
    intro h
    rw [JU_cons, uTerm_toList, List.append_assoc] at h
    have h' : uCoefPart t.1 t.2 ++ (uVarPart v t.2 ++ RU v tl) = (toString 0).toList ++ [] := by
      rw [h]; rfl
    have hnd : ∀ y ∈ (uVarPart v t.2 ++ RU v tl).head?, y.isDigit = false := by
      intro y hy
      unfold uVarPart at hy
      split at hy
      · rcases RU_head v tl with h0 | ⟨t, ht⟩
        · rw [h0] at hy; simp at hy
        · rw [ht] at hy; simp at hy; rw [← hy]; decide
      · rw [hv] at hy; simp at hy; rw [← hy]; exact hx1
    obtain ⟨hD, hX⟩ := digits_append_inj' (uCoefPart_digits _ _)
      (fun c hc => mem_toString_isDigit hc) hnd (by simp) h'
    have hV : uVarPart v t.2 = [] := (List.append_eq_nil_iff.1 hX).1
    have hd0 : t.2 = 0 := by
      unfold uVarPart at hV
      split at hV
      · assumption
      · rw [hv] at hV; simp at hV
    unfold uCoefPart at hD
    rw [if_pos (Or.inr hd0)] at hD
    have : toString t.1 = toString 0 := String.toList_inj.1 hD
    have : t.1 = 0 := by simpa using this
    exact hc t (by simp) this

/-- the printed (coefficient, degree) pairs of a polynomial -/
def uPairs (p : Nat) (f : UPoly Nat) : List (Nat × Nat) :=
  (UPoly.degrees (primeOps p) f).map fun d => (UPoly.coef (primeOps p) f d, d)

theorem coef_eq (p : Nat) (f : UPoly Nat) (d : Nat) : UPoly.coef (primeOps p) f d = f.getD d 0 := rfl

theorem mem_uPairs {p : Nat} {f : UPoly Nat} {t : Nat × Nat} :
    t ∈ uPairs p f ↔ t.1 = f.getD t.2 0 ∧ t.1 ≠ 0 := by
  unfold uPairs
  simp only [List.mem_map, mem_degrees, coef_eq]
  constructor
  · rintro ⟨d, hd, rfl⟩; exact ⟨rfl, hd⟩
  · rintro ⟨h1, h2⟩; exact ⟨t.2, by rw [← h1]; exact h2, Prod.ext h1.symm rfl⟩

theorem getD_eq_of_uPairs_eq {p : Nat} {f g : UPoly Nat} (h : uPairs p f = uPairs p g) (i : Nat) :
    f.getD i 0 = g.getD i 0 := by
  by_cases hf : f.getD i 0 = 0
  · by_cases hg : g.getD i 0 = 0
    · rw [hf, hg]
    · have : (g.getD i 0, i) ∈ uPairs p g := mem_uPairs.2 ⟨rfl, hg⟩
      rw [← h] at this
      exact (mem_uPairs.1 this).1.symm
  · have : (f.getD i 0, i) ∈ uPairs p f := mem_uPairs.2 ⟨rfl, hf⟩
    rw [h] at this
    exact (mem_uPairs.1 this).1

theorem canon_length_le {p : Nat} {f g : UPoly Nat} (hg : UPoly.Canon (primeOps p) g) (hf : f ≠ [])
    (h : ∀ i, f.getD i 0 = g.getD i 0) : g.length ≤ f.length := by
  by_cases hlt : g.length ≤ f.length
  · exact hlt
  · exfalso
    have hf1 : 1 ≤ f.length := by
      cases f with
      | nil => exact absurd rfl hf
      | cons _ _ => simp
    have hlast := hg.2 (by omega)
    have hgl : g.getLast? = g[g.length - 1]? := List.getLast?_eq_getElem? ..
    have hidx : g.length - 1 < g.length := by omega
    have hg' : g.getD (g.length - 1) 0 ≠ 0 := by
      rw [hgl, List.getElem?_eq_getElem hidx] at hlast
      rw [List.getD_eq_getElem?_getD, List.getElem?_eq_getElem hidx]
      change ((g[g.length - 1] == 0) = false) at hlast
      simpa using hlast
    have hf' : f.getD (g.length - 1) 0 = 0 := by
      rw [List.getD_eq_getElem?_getD, List.getElem?_eq_none (by omega)]; rfl
    exact hg' (by rw [← h, hf'])

theorem canon_ext {p : Nat} {f g : UPoly Nat} (hf : UPoly.Canon (primeOps p) f)
    (hg : UPoly.Canon (primeOps p) g) (h : ∀ i, f.getD i 0 = g.getD i 0) : f = g := by
  have hl : f.length = g.length :=
    Nat.le_antisymm (canon_length_le hf hg.1 (fun i => (h i).symm)) (canon_length_le hg hf.1 h)
  apply List.ext_getElem hl
  intro i h1 h2
  have := h i
  rw [List.getD_eq_getElem?_getD, List.getD_eq_getElem?_getD, List.getElem?_eq_getElem h1,
    List.getElem?_eq_getElem h2] at this
  exact this

theorem isZero_iff (p : Nat) (f : UPoly Nat) : UPoly.isZero (primeOps p) f = true ↔ f = [0] := by
  unfold UPoly.isZero
  split
  · rename_i c
    change (c == 0) = true ↔ _
    simp
  · rename_i h
    constructor
    · intro h'; cases h'
    · intro h'; exact absurd h' (h 0)

theorem uPairs_ne_nil {p : Nat} {f : UPoly Nat} (hf : UPoly.Canon (primeOps p) f)
    (hz : UPoly.isZero (primeOps p) f = false) : uPairs p f ≠ [] := by
  intro hnil
  have hall : ∀ i, f.getD i 0 = ([0] : UPoly Nat).getD i 0 := by
    intro i
    have h0 : f.getD i 0 = 0 := by
      by_cases h : f.getD i 0 = 0
      · exact h
      · have : (f.getD i 0, i) ∈ uPairs p f := mem_uPairs.2 ⟨rfl, h⟩
        rw [hnil] at this; cases this
    rw [h0]
    cases i <;> rfl
  have hc0 : UPoly.Canon (primeOps p) [0] := ⟨by simp, by simp⟩
  have := canon_ext hf hc0 hall
  rw [(isZero_iff p f).2 this] at hz
  cases hz

/-- `UPoly.toStr` over a prime field is injective on canonical polynomials, for every variable
    name whose first character is neither a digit nor a blank. -/
theorem utoStr_injective {p : Nat} {v : String} {x : Char} {vt : List Char}
    (hv : v.toList = x :: vt) (hx1 : x.isDigit = false) (hx2 : x ≠ ' ')
    {f g : UPoly Nat} (hf : UPoly.Canon (primeOps p) f) (hg : UPoly.Canon (primeOps p) g)
    (h : UPoly.toStr (primeOps p) v f = UPoly.toStr (primeOps p) v g) : f = g := by
  rw [utoStr_eq, utoStr_eq] at h
  have hmap : ∀ k : UPoly Nat,
      ((UPoly.degrees (primeOps p) k).map fun d => uTerm v (UPoly.coef (primeOps p) k d) d) =
        (uPairs p k).map fun t => uTerm v t.1 t.2 := by
    intro k; unfold uPairs; rw [List.map_map]; rfl
  rw [hmap f, hmap g] at h
  have hnz : ∀ k : UPoly Nat, ∀ t ∈ uPairs p k, t.1 ≠ 0 := fun k t ht => (mem_uPairs.1 ht).2
  cases zf : UPoly.isZero (primeOps p) f <;> cases zg : UPoly.isZero (primeOps p) g
  · rw [zf, zg] at h
    simp only [Bool.false_eq_true, if_false] at h
    have hJ : JU v (uPairs p f) = JU v (uPairs p g) := congrArg String.toList h
    have := JU_inj hv hx1 hx2 (uPairs_ne_nil hf zf) (uPairs_ne_nil hg zg) hJ
    exact canon_ext hf hg (getD_eq_of_uPairs_eq this)
  · exfalso
    rw [zf, zg] at h
    simp only [Bool.false_eq_true, if_false, if_true] at h
    exact JU_ne_zero hv hx1 (uPairs_ne_nil hf zf) (hnz f) (congrArg String.toList h)
  · exfalso
    rw [zf, zg] at h
    simp only [Bool.false_eq_true, if_false, if_true] at h
    exact JU_ne_zero hv hx1 (uPairs_ne_nil hg zg) (hnz g) (congrArg String.toList h).symm
  · rw [(isZero_iff p f).1 zf, (isZero_iff p g).1 zg]

/-- an ASCII letter is neither a digit nor a blank -/
theorem isAlpha_not_digit {c : Char} (h : c.isAlpha = true) : c.isDigit = false ∧ c ≠ ' ' := by
  constructor
  · cases hd : c.isDigit with
    | false => rfl
    | true =>
      exfalso
      simp only [Char.isAlpha, Char.isUpper, Char.isLower, Char.isDigit, Bool.or_eq_true,
        Bool.and_eq_true, decide_eq_true_eq] at h hd
      have h1 := hd.1; have h2 := hd.2
      simp only [UInt32.le_iff_toNat_le] at h h1 h2
      simp at h h1 h2
      omega
  · rintro rfl
    exact absurd h (by decide)

/-! ### error kinds of the regex-based parsers (whatever the regex engine returns) -/

theorem bin_go_error {l : List (Array String)} {val : Nat} {k : Kind}
    (h : Bin.parseRx.go l val = .error k) : k = .inputValue ∨ k = .inputTooLarge := by
  induction l generalizing val with
  | nil => unfold Bin.parseRx.go at h; cases h
  | cons g t ih =>
    unfold Bin.parseRx.go at h
    simp only at h
    split at h
    · exact ih h
    · split at h
      · exact ih h
      · split at h
        · exact ih h
        · split at h
          · injection h with h; exact Or.inl h.symm
          · split at h
            · injection h with h; exact Or.inr h.symm
            · exact ih h

theorem bin_parseRx_error {n m : Nat} {v s : String} {k : Kind}
    (h : Bin.parseRx n m v s = .error k) :
    k = .inputValue ∨ k = .parsing ∨ k = .inputTooLarge := by
  unfold Bin.parseRx at h
  simp only at h
  split at h
  · injection h with h; exact Or.inl h.symm
  · split at h
    · injection h with h; exact Or.inr (Or.inl h.symm)
    · split at h
      · cases h
      · rename_i hk
        injection h with h
        subst h
        rcases bin_go_error hk with e | e
        · exact Or.inl e
        · exact Or.inr (Or.inr e)

theorem bin_parse_error {n m : Nat} {v s : String} {k : Kind}
    (h : Bin.parse n m v s = .error k) :
    k = .inputValue ∨ k = .parsing ∨ k = .inputTooLarge := by
  unfold Bin.parse at h
  split at h
  · split at h
    · injection h with h; exact Or.inr (Or.inl h.symm)
    · split at h
      · cases h
      · rename_i hk
        injection h with h
        subst h
        rcases bin_go_error hk with e | e
        · exact Or.inl e
        · exact Or.inr (Or.inr e)
  · exact bin_parseRx_error h

theorem u_go_error {α : Type} {F : FOps α} {l : List (Array String)} {out : List (Nat × α)}
    {k : Kind} (h : UPoly.stringToMapRx.go F l out = .error k) :
    k = .internal ∨ k = .parsing ∨ k = .conversion := by
  induction l generalizing out with
  | nil => unfold UPoly.stringToMapRx.go at h; cases h
  | cons g t ih =>
    unfold UPoly.stringToMapRx.go at h
    simp only at h
    split at h
    · injection h with h; simp [← h]
    · split at h
      · injection h with h; simp [← h]
      · split at h
        · rename_i k' hk
          injection h with h; subst h
          split at hk
          · cases hk
          · split at hk
            · cases hk
            · injection hk with hk; simp [← hk]
        · split at h
          · rename_i k' hk
            injection h with h; subst h
            split at hk
            · split at hk
              · cases hk
              · split at hk
                · cases hk
                · injection hk with hk; simp [← hk]
            · cases hk
          · exact ih h

theorem u_stringToMapRx_error {α : Type} {F : FOps α} {v s : String} {k : Kind}
    (h : UPoly.stringToMapRx F v s = .error k) :
    k = .internal ∨ k = .parsing ∨ k = .conversion := by
  unfold UPoly.stringToMapRx at h
  simp only at h
  split at h
  · injection h with h; simp [← h]
  · split at h
    · injection h with h; simp [← h]
    · exact u_go_error h

theorem u_stringToMap_error {α : Type} {F : FOps α} {v s : String} {k : Kind}
    (h : UPoly.stringToMap F v s = .error k) :
    k = .internal ∨ k = .parsing ∨ k = .conversion := by
  unfold UPoly.stringToMap at h
  split at h
  · split at h
    · injection h with h; simp [← h]
    · exact u_go_error h
  · exact u_stringToMapRx_error h

theorem u_parse_error {α : Type} {R : UPoly.Ring α} {s : String} {k : Kind}
    (h : UPoly.parse R s = .error k) : k = .internal ∨ k = .parsing ∨ k = .conversion := by
  unfold UPoly.parse at h
  split at h
  · rename_i k' hk
    injection h with h; subst h
    exact u_stringToMap_error hk
  · cases h

/-- extension-field `ElementFromString` wraps every failure as Parsing -/
theorem ext_parse_error {p : Nat} {g : List Nat} {s : String} {k : Kind}
    (h : Ext.parse p g s = .error k) : k = .parsing := by
  unfold Ext.parse at h
  split at h
  · cases h
  · injection h with h; exact h.symm
  · injection h with h; exact h.symm

theorem b_go_error {α : Type} {F : FOps α} {v0 v1 : String} {l : List (Array String)}
    {out : List (Deg × α)} {k : Kind} (h : BPoly.stringToMapRx.go F v0 v1 l out = .error k) :
    k = .parsing ∨ k = .conversion := by
  induction l generalizing out with
  | nil => unfold BPoly.stringToMapRx.go at h; cases h
  | cons g t ih =>
    unfold BPoly.stringToMapRx.go at h
    simp only at h
    split at h
    · injection h with h; simp [← h]
    · split at h
      · injection h with h; simp [← h]
      · split at h
        · injection h with h; simp [← h]
        · split at h
          · rename_i k' hk
            injection h with h; subst h
            split at hk
            · cases hk
            · split at hk
              · cases hk
              · injection hk with hk; simp [← hk]
          · split at h
            · injection h with h; simp [← h]
            · split at h
              · injection h with h; simp [← h]
              · exact ih h

theorem b_stringToMapRx_error {α : Type} {R : BPoly.Ring α} {s : String} {k : Kind}
    (h : BPoly.stringToMapRx R s = .error k) :
    k = .internal ∨ k = .parsing ∨ k = .conversion := by
  unfold BPoly.stringToMapRx at h
  simp only at h
  split at h
  · injection h with h; simp [← h]
  · split at h
    · injection h with h; simp [← h]
    · split at h
      · injection h with h; simp [← h]
      · rcases b_go_error h with e | e
        · exact Or.inr (Or.inl e)
        · exact Or.inr (Or.inr e)

theorem b_stringToMap_error {α : Type} {R : BPoly.Ring α} {s : String} {k : Kind}
    (h : BPoly.stringToMap R s = .error k) :
    k = .internal ∨ k = .parsing ∨ k = .conversion := by
  unfold BPoly.stringToMap at h
  split at h
  · split at h
    · injection h with h; simp [← h]
    · rcases b_go_error h with e | e
      · exact Or.inr (Or.inl e)
      · exact Or.inr (Or.inr e)
  · exact b_stringToMapRx_error h

theorem b_parse_error {α : Type} {R : BPoly.Ring α} {s : String} {k : Kind}
    (h : BPoly.parse R s = .error k) : k = .internal ∨ k = .parsing ∨ k = .conversion := by
  unfold BPoly.parse at h
  split at h
  · rename_i k' hk
    injection h with h; subst h
    exact b_stringToMap_error hk
  · cases h

/-! ### `strings.Trim(s, "()")` -/

def isParen (c : Char) : Bool := c == '(' || c == ')'

theorem trimParens_toList (s : String) :
    (UPoly.trimParens s).toList =
      ((s.toList.dropWhile isParen).reverse.dropWhile isParen).reverse := by
  unfold UPoly.trimParens
  rw [String.toList_ofList]
  rfl

theorem dropWhile_of_head {l : List Char} (h : ∀ c ∈ l.head?, isParen c = false) :
    l.dropWhile isParen = l := by
  cases l with
  | nil => rfl
  | cons x t => rw [List.dropWhile_cons_of_neg]; simp [h x (by simp)]

/-- a string that neither starts nor ends with a parenthesis is left alone -/
theorem trimParens_eq_self {s : String} (h1 : ∀ c ∈ s.toList.head?, isParen c = false)
    (h2 : ∀ c ∈ s.toList.getLast?, isParen c = false) : UPoly.trimParens s = s := by
  apply String.toList_inj.1
  rw [trimParens_toList, dropWhile_of_head h1, dropWhile_of_head (by simpa using h2)]
  simp

/-- the parentheses the polynomial printers put around a multi-term coefficient are removed again -/
theorem trimParens_wrap {s : String} (h1 : ∀ c ∈ s.toList.head?, isParen c = false)
    (h2 : ∀ c ∈ s.toList.getLast?, isParen c = false) :
    UPoly.trimParens ("(" ++ s ++ ")") = s := by
  apply String.toList_inj.1
  rw [trimParens_toList]
  have e : ("(" ++ s ++ ")").toList = '(' :: (s.toList ++ [')']) := by simp
  rw [e, List.dropWhile_cons_of_pos (by decide)]
  cases hs : s.toList with
  | nil => simp [isParen]
  | cons x t =>
    rw [hs] at h1 h2
    have hx : isParen x = false := h1 x (by simp)
    rw [List.cons_append, List.dropWhile_cons_of_neg (by simp [hx])]
    rw [← List.cons_append, List.reverse_append]
    simp only [List.reverse_cons, List.reverse_nil, List.nil_append, List.singleton_append]
    rw [List.dropWhile_cons_of_pos (by decide)]
    have : ((t.reverse ++ [x]).dropWhile isParen) = t.reverse ++ [x] := by
      apply dropWhile_of_head
      intro c hc
      apply h2 c
      have : (x :: t).getLast? = (t.reverse ++ [x]).head? := by
        rw [← List.reverse_cons, List.head?_reverse]
      rw [this]; exact hc
    rw [this]; simp

end Algobra.Strings
