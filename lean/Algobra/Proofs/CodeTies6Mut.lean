/-
  Proofs/CodeTies6Mut.lean — the mutators of `univariate.Polynomial` (`SetCoefPtr`, `IncrementCoef`,
  `DecrementCoef`, `removeCoef`), machine-translated in `Algobra/Gen/Code.lean`, against Model/UPoly.lean.
  `reslice` is a black box here: its tie to `resliceSpec` is an explicit hypothesis `hres`.
-/
import Algobra.Proofs.CodeTies6Defs
import Algobra.Proofs.CodeTies
import Algobra.Proofs.CodeTies5
namespace Algobra
namespace CodeTies6Proofs
namespace Mut
open Algobra Algobra.Gen.Code

/-! ### model-side lemmas -/

theorem absC_length' (F : FOps Nat) (c : List (Option Nat)) : (absC F c).length = c.length := by
  simp [absC]

theorem slotNz_eq {F : FOps Nat} {nz : Nat → Bool} (hL : Laws F nz) (o : Option Nat) :
    slotNz nz o = !F.isZero (o.getD F.zero) := by
  cases o with
  | none => simp [slotNz, hL.zero_isZero]
  | some v => simp [slotNz, hL.nz_eq]

theorem absC_dropTrailing {F : FOps Nat} {nz : Nat → Bool} (hL : Laws F nz) :
    ∀ c : List (Option Nat), absC F (dropTrailing nz c) = UPoly.dropTrailingZeros F (absC F c)
  | [] => rfl
  | o :: t => by
    have ih := absC_dropTrailing hL t
    show absC F (dropTrailing nz (o :: t)) = UPoly.dropTrailingZeros F (o.getD F.zero :: absC F t)
    rw [dropTrailing, UPoly.dropTrailingZeros, ← ih]
    cases h : dropTrailing nz t with
    | nil =>
      simp only [absC, List.map_nil]
      rw [slotNz_eq hL]
      cases F.isZero (o.getD F.zero) <;> simp
    | cons a r => simp [absC]

theorem absC_take (F : FOps Nat) (c : List (Option Nat)) (n : Nat) :
    absC F (c.take n) = (absC F c).take n := by
  simp [absC, List.map_take]

/-- (`c ≠ []` is needed: for `c = []` the left side is `[]`, the right side `[F.zero]`) -/
theorem absC_resliceSpec {F : FOps Nat} {nz : Nat → Bool} (hL : Laws F nz) {c : List (Option Nat)}
    (h0 : c ≠ []) : absC F (resliceSpec nz c) = UPoly.trim F (absC F c) := by
  unfold resliceSpec UPoly.trim
  rw [← absC_dropTrailing hL]
  cases h : dropTrailing nz c with
  | nil =>
    cases c with
    | nil => exact absurd rfl h0
    | cons a t => simp [absC]
  | cons a r => simp [absC]

theorem dropTrailing_head (nz : Nat → Bool) :
    ∀ c : List (Option Nat), dropTrailing nz c ≠ [] → (dropTrailing nz c).head? = c.head?
  | [] => fun h => absurd rfl h
  | o :: t => by
    intro h
    rw [dropTrailing] at h ⊢
    cases ht : dropTrailing nz t with
    | nil =>
      rw [ht] at h
      cases hs : slotNz nz o with
      | true => simp
      | false => simp [hs] at h
    | cons a r => simp

theorem dropTrailing_last (nz : Nat → Bool) :
    ∀ c : List (Option Nat), dropTrailing nz c ≠ [] →
      ∃ v, (dropTrailing nz c).getLast? = some (some v) ∧ nz v = true
  | [] => fun h => absurd rfl h
  | o :: t => by
    intro h
    have ih := dropTrailing_last nz t
    rw [dropTrailing] at h ⊢
    cases ht : dropTrailing nz t with
    | nil =>
      rw [ht] at h
      cases hs : slotNz nz o with
      | true =>
        cases o with
        | none => simp [slotNz] at hs
        | some v => exact ⟨v, by simp, by simpa [slotNz] using hs⟩
      | false => simp [hs] at h
    | cons a r =>
      rw [ht] at ih
      obtain ⟨v, hv, hn⟩ := ih (by simp)
      refine ⟨v, ?_, hn⟩
      simp only [List.getLast?_cons_cons]
      exact hv

theorem rep_resliceSpec {F : FOps Nat} {nz : Nat → Bool} (hL : Laws F nz) {c : List (Option Nat)}
    (h0 : c ≠ []) (hh : c.head? ≠ some none) : Rep F (resliceSpec nz c) := by
  unfold resliceSpec
  cases h : dropTrailing nz c with
  | nil =>
    cases c with
    | nil => exact absurd rfl h0
    | cons a t =>
      cases a with
      | none => simp at hh
      | some v => exact ⟨by simp, by simp, v, by simp, by simp⟩
  | cons a r =>
    have hne : dropTrailing nz c ≠ [] := by rw [h]; simp
    have h1 := dropTrailing_head nz c hne
    obtain ⟨v, hv, hn⟩ := dropTrailing_last nz c hne
    rw [h] at h1 hv
    refine ⟨by simp, by rw [h1]; exact hh, v, hv, fun _ => ?_⟩
    have := hL.nz_eq v
    rw [hn] at this
    cases hz : F.isZero v with
    | false => rfl
    | true => simp [hz] at this

/-! ### consequences of the representation invariant -/

theorem rep_pos {F : FOps Nat} {c : List (Option Nat)} (hc : Rep F c) : 0 < c.length := by
  cases c with
  | nil => exact absurd rfl hc.1
  | cons a t => simp

theorem dropTrailing_eq_self (nz : Nat → Bool) :
    ∀ c : List (Option Nat), (∃ v, c.getLast? = some (some v) ∧ nz v = true) → dropTrailing nz c = c
  | [] => fun ⟨_, h, _⟩ => by simp at h
  | [o] => by
    rintro ⟨v, h, hn⟩
    simp only [List.getLast?_singleton, Option.some.injEq] at h
    subst h
    simp [dropTrailing, slotNz, hn]
  | o :: b :: t => by
    rintro ⟨v, h, hn⟩
    have ih := dropTrailing_eq_self nz (b :: t) ⟨v, by simpa using h, hn⟩
    rw [dropTrailing, ih]

theorem resliceSpec_of_rep {F : FOps Nat} {nz : Nat → Bool} (hL : Laws F nz) {c : List (Option Nat)}
    (hc : Rep F c) : resliceSpec nz c = c := by
  obtain ⟨h0, _, v, hv, hz⟩ := hc
  unfold resliceSpec
  by_cases h1 : c.length > 1
  · have hn : nz v = true := by rw [hL.nz_eq, hz h1]; rfl
    rw [dropTrailing_eq_self nz c ⟨v, hv, hn⟩]
    cases c with
    | nil => exact absurd rfl h0
    | cons a t => rfl
  · cases c with
    | nil => exact absurd rfl h0
    | cons a t =>
      cases t with
      | nil =>
        simp only [List.getLast?_singleton, Option.some.injEq] at hv
        subst hv
        cases hn : nz v <;> simp [dropTrailing, slotNz, hn]
      | cons b r => simp at h1

theorem trim_absC_of_rep {F : FOps Nat} {nz : Nat → Bool} (hL : Laws F nz) {c : List (Option Nat)}
    (hc : Rep F c) : UPoly.trim F (absC F c) = absC F c := by
  rw [← absC_resliceSpec hL hc.1, resliceSpec_of_rep hL hc]

theorem rep_set {F : FOps Nat} {c : List (Option Nat)} (hc : Rep F c) {d : Nat} (hd : d < c.length)
    (x : Nat) (hx : d + 1 = c.length → 1 < c.length → F.isZero x = false) :
    Rep F (c.set d (some x)) := by
  obtain ⟨h0, hh, v, hv, hz⟩ := hc
  refine ⟨?_, ?_, ?_⟩
  · intro h
    have := congrArg List.length h
    rw [List.length_set, List.length_nil] at this; omega
  · cases c with
    | nil => exact absurd rfl h0
    | cons a t =>
      cases d with
      | zero => simp
      | succ k => simpa using hh
  · rw [List.getLast?_eq_getElem?, List.length_set, List.getElem?_set]
    rw [List.getLast?_eq_getElem?] at hv
    by_cases he : d = c.length - 1
    · refine ⟨x, ?_, fun h1 => hx (by omega) h1⟩
      rw [if_pos he]
      simp [hd]
    · exact ⟨v, by rw [if_neg he]; exact hv, hz⟩

/-- the slot of a nil entry is neither the first nor the last one -/
theorem nil_slot_not_last {F : FOps Nat} {c : List (Option Nat)} (hc : Rep F c) {d : Nat}
    (hs : c[d]? = some none) : d + 1 ≠ c.length := by
  obtain ⟨_, _, v, hv, _⟩ := hc
  rw [List.getLast?_eq_getElem?] at hv
  intro he
  have : d = c.length - 1 := by omega
  rw [this, hv] at hs
  simp at hs

/-- the Go-side of `UPoly.extend` -/
def extC (c : List (Option Nat)) (d x : Nat) : List (Option Nat) :=
  c ++ List.replicate (d - c.length) none ++ [some x]

theorem absC_extC (F : FOps Nat) (c : List (Option Nat)) (d x : Nat) :
    absC F (extC c d x) = UPoly.extend F (absC F c) d x := by
  simp [absC, extC, UPoly.extend]

theorem rep_extC {F : FOps Nat} {c : List (Option Nat)} (hc : Rep F c) (d : Nat) {x : Nat}
    (hx : F.isZero x = false) : Rep F (extC c d x) := by
  obtain ⟨h0, hh, _⟩ := hc
  refine ⟨by simp [extC], ?_, x, by simp [extC], fun _ => hx⟩
  cases c with
  | nil => exact absurd rfl h0
  | cons a t => simpa [extC] using hh

theorem set_append_replicate (c : List (Option Nat)) {d : Nat} (hd : c.length ≤ d) (y : Option Nat) :
    (c ++ List.replicate (d + 1 - c.length) none).set d y
      = c ++ List.replicate (d - c.length) none ++ [y] := by
  have e : d + 1 - c.length = (d - c.length) + 1 := by omega
  rw [e, List.replicate_succ', ← List.append_assoc]
  have hl : (c ++ List.replicate (d - c.length) none).length = d := by simp; omega
  rw [List.set_append_right _ _ (by omega), hl]
  simp

/-! ### Go-side helpers -/

theorem ld_eq {c : List (Option Nat)} (hlen : c.length < 2 ^ 63) :
    go_univariate_Polynomial_Ld c = ((c.length : Nat) : Int) - 1 := by
  unfold go_univariate_Polynomial_Ld
  rw [Int.ofNat_eq_natCast]
  exact CodeTies5Proofs.wrap_sub1 _ hlen

/-- the amount `SetCoefPtr`/`IncrementCoef`/`DecrementCoef` grow the slice by -/
theorem grow_eq {c : List (Option Nat)} (hlen : c.length < 2 ^ 63) {d : Nat} (hd : d < 2 ^ 62)
    (hcd : c.length ≤ d) :
    wrapInt ((d : Int) - (((c.length : Nat) : Int) - 1)) = ((d + 1 - c.length : Nat) : Int) := by
  have b1 : -(2 ^ 63 : Int) ≤ (d : Int) - (((c.length : Nat) : Int) - 1) := by omega
  have b2 : (d : Int) - (((c.length : Nat) : Int) - 1) < 2 ^ 63 := by omega
  have e : (d : Int) - (((c.length : Nat) : Int) - 1) = ((d + 1 - c.length : Nat) : Int) := by omega
  rw [CodeTies5Proofs.wrap_sub _ _ b1 b2, e]

theorem absC_set (F : FOps Nat) (c : List (Option Nat)) (d x : Nat) :
    absC F (c.set d (some x)) = (absC F c).set d x := by
  simp [absC, List.map_set]

/-- set a slot, then reslice -/
theorem set_reslice {F : FOps Nat} {nz : Nat → Bool} (hL : Laws F nz) {c : List (Option Nat)}
    (hc : Rep F c) {d : Nat} (hd : d < c.length) (x : Nat) :
    absC F (resliceSpec nz (c.set d (some x))) = UPoly.trim F ((absC F c).set d x) ∧
      Rep F (resliceSpec nz (c.set d (some x))) := by
  have hne : c.set d (some x) ≠ [] := by
    intro h
    have := congrArg List.length h
    rw [List.length_set, List.length_nil] at this; omega
  refine ⟨by rw [absC_resliceSpec hL hne, absC_set], rep_resliceSpec hL hne ?_⟩
  obtain ⟨h0, hh, _⟩ := hc
  cases c with
  | nil => exact absurd rfl h0
  | cons a t =>
    cases d with
    | zero => simp
    | succ k => simpa using hh

section ties
variable {F : FOps Nat} {nz : Nat → Bool}

/-- `SetCoefPtr` (and `SetCoef`, which passes a fresh copy) -/
theorem setCoefPtr_tie (hL : Laws F nz)
    (hres : ∀ c : List (Option Nat), c ≠ [] → c.length < 2 ^ 63 →
      go_univariate_Polynomial_reslice c nz = some (resliceSpec nz c))
    {c : List (Option Nat)} (hc : Rep F c) (hlen : c.length < 2 ^ 63) {d : Nat} (hd : d < 2 ^ 62)
    (v : Nat) :
    ∃ c', go_univariate_Polynomial_SetCoefPtr c nz F.isZero (d : Int) (some v) = some c' ∧
      absC F c' = UPoly.setCoef F (absC F c) d v ∧ Rep F c' := by
  have hpos := rep_pos hc
  unfold UPoly.setCoef UPoly.ld
  rw [absC_length']
  by_cases hin : d < c.length
  · have h1 : (d : Int) ≤ ((c.length : Nat) : Int) - 1 := by omega
    have h2 : (0 : Int) ≤ (d : Int) ∧ (d : Int) < ((c.length : Nat) : Int) := ⟨by omega, by omega⟩
    have h3 : d ≤ c.length - 1 := by omega
    simp only [go_univariate_Polynomial_SetCoefPtr, ld_eq hlen, Int.ofNat_eq_natCast, h1, h2, h3,
      and_self, ↓reduceIte, Int.toNat_natCast, Option.isSome_some, Option.getD_some]
    cases hz : F.isZero v with
    | true =>
      have hne : c.set d (some v) ≠ [] := by
        intro h
        have := congrArg List.length h
        rw [List.length_set, List.length_nil] at this; omega
      rw [hres _ hne (by rw [List.length_set]; exact hlen)]
      simp only [↓reduceIte]
      exact ⟨_, rfl, set_reslice hL hc hin v⟩
    | false =>
      simp only [Bool.false_eq_true, ↓reduceIte]
      exact ⟨_, rfl, absC_set F c d v, rep_set hc hin v (fun _ _ => hz)⟩
  · have h1 : ¬ (d : Int) ≤ ((c.length : Nat) : Int) - 1 := by omega
    have h3 : ¬ d ≤ c.length - 1 := by omega
    have hcd : c.length ≤ d := by omega
    have hw := grow_eq hlen hd hcd
    have h4 : (0 : Int) ≤ ((d + 1 - c.length : Nat) : Int) := Int.natCast_nonneg _
    have h5 : (0 : Int) ≤ (d : Int) ∧
        (d : Int) < ((c.length + (d + 1 - c.length) : Nat) : Int) := ⟨by omega, by omega⟩
    simp only [go_univariate_Polynomial_SetCoefPtr, ld_eq hlen, Int.ofNat_eq_natCast, h1, h3, hw, h4,
      ↓reduceIte, Int.toNat_natCast, Option.isSome_some, Option.getD_some, List.length_append,
      List.length_replicate, h5, and_self]
    cases hz : F.isZero v with
    | true =>
      simp only [↓reduceIte]
      exact ⟨_, rfl, rfl, hc⟩
    | false =>
      simp only [Bool.false_eq_true, ↓reduceIte]
      refine ⟨_, rfl, ?_⟩
      rw [set_append_replicate c hcd]
      exact ⟨absC_extC F c d v, rep_extC hc d hz⟩

/-! ### `IncrementCoef` / `DecrementCoef`: one Go-level specification for both -/

/-- what `IncrementCoef` (`op = Add`, `un = Copy`) and `DecrementCoef` (`op = Sub`, `un = Neg`) leave in
    `f.coefs` -/
def updSpec (nz : Nat → Bool) (op : Nat → Nat → Nat) (un : Nat → Nat) (isz : Nat → Bool)
    (c : List (Option Nat)) (d v : Nat) : List (Option Nat) :=
  if isz v = true then c
  else if d < c.length then
    match c.getD d none with
    | some x => resliceSpec nz (c.set d (some (op x v)))
    | none => c.set d (some (un v))
  else extC c d (un v)

theorem incrementCoef_eq
    (hres : ∀ c : List (Option Nat), c ≠ [] → c.length < 2 ^ 63 →
      go_univariate_Polynomial_reslice c nz = some (resliceSpec nz c))
    (op : Nat → Nat → Nat) (un : Nat → Nat) (isz : Nat → Bool)
    {c : List (Option Nat)} (hpos : 0 < c.length) (hlen : c.length < 2 ^ 63) {d : Nat} (hd : d < 2 ^ 62)
    (v : Nat) :
    go_univariate_Polynomial_IncrementCoef c nz op un isz (d : Int) (some v) = some (updSpec nz op un isz c d v) := by
  unfold updSpec
  cases hz : isz v with
  | true => simp only [go_univariate_Polynomial_IncrementCoef, Option.isSome_some, Option.getD_some, hz, ↓reduceIte]
  | false =>
    by_cases hin : d < c.length
    · have h1 : (d : Int) ≤ ((c.length : Nat) : Int) - 1 := by omega
      have h2 : (0 : Int) ≤ (d : Int) ∧ (d : Int) < ((c.length : Nat) : Int) := ⟨by omega, by omega⟩
      cases hs : c.getD d none with
      | none =>
        simp only [go_univariate_Polynomial_IncrementCoef, ld_eq hlen, Int.ofNat_eq_natCast, h1, h2, hin, hz,
          and_self, ↓reduceIte, Int.toNat_natCast, Option.isSome_some, Option.getD_some, hs,
          Bool.false_eq_true, ne_eq, not_true_eq_false]
      | some x =>
        have hne : c.set d (some (op x v)) ≠ [] := by
          intro h
          have := congrArg List.length h
          rw [List.length_set, List.length_nil] at this; omega
        simp only [go_univariate_Polynomial_IncrementCoef, ld_eq hlen, Int.ofNat_eq_natCast, h1, h2, hin, hz,
          and_self, ↓reduceIte, Int.toNat_natCast, Option.isSome_some, Option.getD_some, hs,
          Bool.false_eq_true, ne_eq, reduceCtorEq, not_false_eq_true,
          hres _ hne (by rw [List.length_set]; exact hlen)]
    · have h1 : ¬ (d : Int) ≤ ((c.length : Nat) : Int) - 1 := by omega
      have hcd : c.length ≤ d := by omega
      have hw := grow_eq hlen hd hcd
      have h4 : (0 : Int) ≤ ((d + 1 - c.length : Nat) : Int) := Int.natCast_nonneg _
      have h5 : (0 : Int) ≤ (d : Int) ∧
          (d : Int) < ((c.length + (d + 1 - c.length) : Nat) : Int) := ⟨by omega, by omega⟩
      simp only [go_univariate_Polynomial_IncrementCoef, ld_eq hlen, Int.ofNat_eq_natCast, h1, hin, hw, h4, hz,
        ↓reduceIte, Int.toNat_natCast, Option.isSome_some, Option.getD_some, List.length_append,
        List.length_replicate, h5, and_self, Bool.false_eq_true]
      rw [set_append_replicate c hcd]
      rfl

theorem decrementCoef_eq
    (hres : ∀ c : List (Option Nat), c ≠ [] → c.length < 2 ^ 63 →
      go_univariate_Polynomial_reslice c nz = some (resliceSpec nz c))
    (op : Nat → Nat → Nat) (un : Nat → Nat) (isz : Nat → Bool)
    {c : List (Option Nat)} (hpos : 0 < c.length) (hlen : c.length < 2 ^ 63) {d : Nat} (hd : d < 2 ^ 62)
    (v : Nat) :
    go_univariate_Polynomial_DecrementCoef c nz op un isz (d : Int) (some v) = some (updSpec nz op un isz c d v) := by
  unfold updSpec
  cases hz : isz v with
  | true => simp only [go_univariate_Polynomial_DecrementCoef, Option.isSome_some, Option.getD_some, hz, ↓reduceIte]
  | false =>
    by_cases hin : d < c.length
    · have h1 : (d : Int) ≤ ((c.length : Nat) : Int) - 1 := by omega
      have h2 : (0 : Int) ≤ (d : Int) ∧ (d : Int) < ((c.length : Nat) : Int) := ⟨by omega, by omega⟩
      cases hs : c.getD d none with
      | none =>
        simp only [go_univariate_Polynomial_DecrementCoef, ld_eq hlen, Int.ofNat_eq_natCast, h1, h2, hin, hz,
          and_self, ↓reduceIte, Int.toNat_natCast, Option.isSome_some, Option.getD_some, hs,
          Bool.false_eq_true, ne_eq, not_true_eq_false]
      | some x =>
        have hne : c.set d (some (op x v)) ≠ [] := by
          intro h
          have := congrArg List.length h
          rw [List.length_set, List.length_nil] at this; omega
        simp only [go_univariate_Polynomial_DecrementCoef, ld_eq hlen, Int.ofNat_eq_natCast, h1, h2, hin, hz,
          and_self, ↓reduceIte, Int.toNat_natCast, Option.isSome_some, Option.getD_some, hs,
          Bool.false_eq_true, ne_eq, reduceCtorEq, not_false_eq_true,
          hres _ hne (by rw [List.length_set]; exact hlen)]
    · have h1 : ¬ (d : Int) ≤ ((c.length : Nat) : Int) - 1 := by omega
      have hcd : c.length ≤ d := by omega
      have hw := grow_eq hlen hd hcd
      have h4 : (0 : Int) ≤ ((d + 1 - c.length : Nat) : Int) := Int.natCast_nonneg _
      have h5 : (0 : Int) ≤ (d : Int) ∧
          (d : Int) < ((c.length + (d + 1 - c.length) : Nat) : Int) := ⟨by omega, by omega⟩
      simp only [go_univariate_Polynomial_DecrementCoef, ld_eq hlen, Int.ofNat_eq_natCast, h1, hin, hw, h4, hz,
        ↓reduceIte, Int.toNat_natCast, Option.isSome_some, Option.getD_some, List.length_append,
        List.length_replicate, h5, and_self, Bool.false_eq_true]
      rw [set_append_replicate c hcd]
      rfl

theorem getD_absC (F : FOps Nat) (c : List (Option Nat)) (d : Nat) (hd : d < c.length) :
    UPoly.coef F (absC F c) d = (c.getD d none).getD F.zero := by
  unfold UPoly.coef absC
  rw [List.getD_eq_getElem?_getD, List.getD_eq_getElem?_getD, List.getElem?_map,
    List.getElem?_eq_getElem hd]
  rfl

/-- the invariant is kept by `updSpec` when `un` keeps nonzero-ness -/
theorem rep_updSpec (hL : Laws F nz) (op : Nat → Nat → Nat) (un : Nat → Nat)
    (hunz : ∀ x, F.isZero x = false → F.isZero (un x) = false)
    {c : List (Option Nat)} (hc : Rep F c) (d v : Nat) : Rep F (updSpec nz op un F.isZero c d v) := by
  unfold updSpec
  cases hz : F.isZero v with
  | true => simpa using hc
  | false =>
    simp only [Bool.false_eq_true, ↓reduceIte]
    by_cases hin : d < c.length
    · simp only [hin, ↓reduceIte]
      cases hs : c.getD d none with
      | none =>
        have hs' : c[d]? = some none := by
          rw [List.getD_eq_getElem?_getD, List.getElem?_eq_getElem hin] at hs
          rw [List.getElem?_eq_getElem hin]
          simpa using hs
        exact rep_set hc hin _ (fun he _ => absurd he (nil_slot_not_last hc hs'))
      | some x => exact (set_reslice hL hc hin _).2
    · simp only [hin, ↓reduceIte]
      exact rep_extC hc d (hunz v hz)

/-- abstraction of `updSpec` in the shape shared by `UPoly.incCoef` and `UPoly.decCoef` -/
theorem absC_updSpec (hL : Laws F nz) (op : Nat → Nat → Nat) (un : Nat → Nat)
    (hop0 : ∀ x, op F.zero x = un x)
    {c : List (Option Nat)} (hc : Rep F c) (d v : Nat) :
    absC F (updSpec nz op un F.isZero c d v) =
      if F.isZero v = true then absC F c
      else if d ≤ UPoly.ld (absC F c) then
        UPoly.trim F ((absC F c).set d (op (UPoly.coef F (absC F c) d) v))
      else UPoly.extend F (absC F c) d (un v) := by
  have hpos := rep_pos hc
  unfold updSpec UPoly.ld
  rw [absC_length']
  cases hz : F.isZero v with
  | true => simp
  | false =>
    simp only [Bool.false_eq_true, ↓reduceIte]
    by_cases hin : d < c.length
    · have h3 : d ≤ c.length - 1 := by omega
      simp only [hin, h3, ↓reduceIte]
      rw [getD_absC F c d hin]
      cases hs : c.getD d none with
      | none =>
        have hs' : c[d]? = some none := by
          rw [List.getD_eq_getElem?_getD, List.getElem?_eq_getElem hin] at hs
          rw [List.getElem?_eq_getElem hin]
          simpa using hs
        have hr : Rep F (c.set d (some (un v))) :=
          rep_set hc hin _ (fun he _ => absurd he (nil_slot_not_last hc hs'))
        show absC F (c.set d (some (un v))) = UPoly.trim F ((absC F c).set d (op F.zero v))
        rw [hop0, ← absC_set, trim_absC_of_rep hL hr]
      | some x => exact (set_reslice hL hc hin _).1
    · have h3 : ¬ d ≤ c.length - 1 := by omega
      simp only [hin, h3, ↓reduceIte]
      exact absC_extC F c d (un v)

/-- `IncrementCoef` -/
theorem incrementCoef_tie (hL : Laws F nz)
    (hres : ∀ c : List (Option Nat), c ≠ [] → c.length < 2 ^ 63 →
      go_univariate_Polynomial_reslice c nz = some (resliceSpec nz c))
    (hadd0 : ∀ x, F.add F.zero x = x)
    {c : List (Option Nat)} (hc : Rep F c) (hlen : c.length < 2 ^ 63) {d : Nat} (hd : d < 2 ^ 62)
    (v : Nat) :
    ∃ c', go_univariate_Polynomial_IncrementCoef c nz F.add id F.isZero (d : Int) (some v) = some c' ∧
      absC F c' = UPoly.incCoef F (absC F c) d v ∧ Rep F c' :=
  ⟨_, incrementCoef_eq hres F.add id F.isZero (rep_pos hc) hlen hd v,
    by rw [absC_updSpec hL F.add id hadd0 hc]; rfl,
    rep_updSpec hL F.add id (fun _ h => h) hc d v⟩

/-- `DecrementCoef` -/
theorem decrementCoef_tie (hL : Laws F nz)
    (hres : ∀ c : List (Option Nat), c ≠ [] → c.length < 2 ^ 63 →
      go_univariate_Polynomial_reslice c nz = some (resliceSpec nz c))
    (hsub0 : ∀ x, F.sub F.zero x = F.neg x)
    (hnegz : ∀ x, F.isZero x = false → F.isZero (F.neg x) = false)
    {c : List (Option Nat)} (hc : Rep F c) (hlen : c.length < 2 ^ 63) {d : Nat} (hd : d < 2 ^ 62)
    (v : Nat) :
    ∃ c', go_univariate_Polynomial_DecrementCoef c nz F.sub F.neg F.isZero (d : Int) (some v) = some c' ∧
      absC F c' = UPoly.decCoef F (absC F c) d v ∧ Rep F c' :=
  ⟨_, decrementCoef_eq hres F.sub F.neg F.isZero (rep_pos hc) hlen hd v,
    by rw [absC_updSpec hL F.sub F.neg hsub0 hc]; rfl,
    rep_updSpec hL F.sub F.neg hnegz hc d v⟩

/-- `removeCoef` on a slot that is not nil (or beyond the leading degree) -/
theorem removeCoef_tie (hL : Laws F nz)
    (hres : ∀ c : List (Option Nat), c ≠ [] → c.length < 2 ^ 63 →
      go_univariate_Polynomial_reslice c nz = some (resliceSpec nz c))
    {c : List (Option Nat)} (hc : Rep F c) (hlen : c.length < 2 ^ 63) {d : Nat}
    (hslot : d < c.length → (c.getD d none).isSome = true) :
    ∃ c', go_univariate_Polynomial_removeCoef c nz (fun _ _ => F.zero) (d : Int) = some c' ∧
      absC F c' = UPoly.removeCoef F (absC F c) d ∧ Rep F c' := by
  have hpos := rep_pos hc
  unfold UPoly.removeCoef UPoly.ld
  rw [absC_length']
  by_cases hin : d < c.length
  · have h1 : (d : Int) ≤ ((c.length : Nat) : Int) - 1 := by omega
    have h2 : (0 : Int) ≤ (d : Int) ∧ (d : Int) < ((c.length : Nat) : Int) := ⟨by omega, by omega⟩
    have h3 : d ≤ c.length - 1 := by omega
    have hne : c.set d (some F.zero) ≠ [] := by
      intro h
      have := congrArg List.length h
      rw [List.length_set, List.length_nil] at this; omega
    simp only [go_univariate_Polynomial_removeCoef, ld_eq hlen, Int.ofNat_eq_natCast, h1, h2, h3,
      and_self, ↓reduceIte, Int.toNat_natCast, hslot hin,
      hres _ hne (by rw [List.length_set]; exact hlen)]
    exact ⟨_, rfl, set_reslice hL hc hin F.zero⟩
  · have h1 : ¬ (d : Int) ≤ ((c.length : Nat) : Int) - 1 := by omega
    have h3 : ¬ d ≤ c.length - 1 := by omega
    simp only [go_univariate_Polynomial_removeCoef, ld_eq hlen, h1, h3, ↓reduceIte]
    exact ⟨_, rfl, rfl, hc⟩

/-- `removeCoef` on a nil slot panics (nil pointer dereference in `SetUnsigned`) -/
theorem removeCoef_panic (su : Nat → Nat → Nat) {c : List (Option Nat)} (hlen : c.length < 2 ^ 63)
    {d : Nat} (hin : d < c.length) (hs : c.getD d none = none) :
    go_univariate_Polynomial_removeCoef c nz su (d : Int) = none := by
  have h1 : (d : Int) ≤ ((c.length : Nat) : Int) - 1 := by omega
  have h2 : (0 : Int) ≤ (d : Int) ∧ (d : Int) < ((c.length : Nat) : Int) := ⟨by omega, by omega⟩
  simp only [go_univariate_Polynomial_removeCoef, ld_eq hlen, Int.ofNat_eq_natCast, h1, h2,
    and_self, ↓reduceIte, Int.toNat_natCast, hs, Option.isSome_none, Bool.false_eq_true, and_false]

end ties

/-! ### non-vacuity: the prime field `F_5`, `f = 1 + nil·X + 2·X²` -/

def F5 : FOps Nat := primeOps 5
def nz5 : Nat → Bool := fun v => v != 0
def c5 : List (Option Nat) := [some 1, none, some 2]

theorem laws5 : Laws F5 nz5 := ⟨fun v => by simp [F5, nz5, primeOps, bne], rfl⟩
theorem rep5 : Rep F5 c5 := ⟨by simp [c5], by simp [c5], 2, rfl, fun _ => rfl⟩

example : Laws F5 nz5 ∧ Rep F5 c5 ∧ c5.length < 2 ^ 63 ∧ (1 : Nat) < 2 ^ 62 :=
  ⟨laws5, rep5, by decide, by decide⟩
-- the model side of the four ties on this instance (zeroing the leading coefficient trims)
example : UPoly.setCoef F5 (absC F5 c5) 2 0 = [1] := by decide
example : UPoly.setCoef F5 (absC F5 c5) 4 3 = [1, 0, 2, 0, 3] := by decide
example : UPoly.incCoef F5 (absC F5 c5) 2 3 = [1] := by decide
example : UPoly.incCoef F5 (absC F5 c5) 1 3 = [1, 3, 2] := by decide
example : UPoly.decCoef F5 (absC F5 c5) 2 2 = [1] := by decide
example : UPoly.decCoef F5 (absC F5 c5) 1 2 = [1, 3, 2] := by decide
example : UPoly.removeCoef F5 (absC F5 c5) 2 = [1] := by decide
-- the field laws assumed by `incrementCoef_tie` / `decrementCoef_tie` hold in `F_5` on residues
example : ∀ x, x < 5 → F5.add F5.zero x = x := by decide
example : ∀ x, x < 5 → F5.sub F5.zero x = F5.neg x := by decide
example : ∀ x, x < 5 → F5.isZero x = false → F5.isZero (F5.neg x) = false := by decide
-- the slot hypothesis of `removeCoef_tie` (degree 2) and of `removeCoef_panic` (degree 1)
example : (2 : Nat) < c5.length → (c5.getD 2 none).isSome = true := fun _ => rfl
example : (1 : Nat) < c5.length ∧ c5.getD 1 none = none := ⟨by decide, rfl⟩
-- the translated Go functions on this instance (the last one runs `reslice`)
example : go_univariate_Polynomial_SetCoefPtr c5 nz5 F5.isZero ((4 : Nat) : Int) (some 3)
    = some [some 1, none, some 2, none, some 3] := by decide
example : go_univariate_Polynomial_IncrementCoef c5 nz5 F5.add id F5.isZero ((1 : Nat) : Int) (some 3)
    = some [some 1, some 3, some 2] := by decide
example : go_univariate_Polynomial_DecrementCoef c5 nz5 F5.sub F5.neg F5.isZero ((1 : Nat) : Int) (some 2)
    = some [some 1, some 3, some 2] := by decide
example : go_univariate_Polynomial_removeCoef c5 nz5 (fun _ _ => F5.zero) ((1 : Nat) : Int) = none := by decide
example : go_univariate_Polynomial_removeCoef c5 nz5 (fun _ _ => F5.zero) ((2 : Nat) : Int) = some [some 1] := by decide

end Mut
end CodeTies6Proofs
end Algobra
