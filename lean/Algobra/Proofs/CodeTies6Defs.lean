/-
  Proofs/CodeTies6Defs.lean — the abstraction between the Go representation of a univariate polynomial
  (`f.coefs []ff.Element` with nil entries, translated as `List (Option Nat)`, elements as abstract value
  words) and the model's `UPoly Nat` (Model/UPoly.lean), the representation invariant, and the
  specification of `reslice` on the Go representation.
-/
import Algobra.Gen.Code
import Algobra.Model.UPoly

namespace Algobra
namespace CodeTies6Proofs
open Algobra Algobra.Gen.Code

/-- abstraction: a nil entry stands for the zero of the field -/
def absC (F : FOps Nat) (c : List (Option Nat)) : UPoly Nat := c.map fun o => o.getD F.zero

/-- the representation invariant the Go code maintains for `f.coefs`: non-empty, entry 0 non-nil, the last
    entry non-nil, and nonzero unless the length is one -/
def Rep (F : FOps Nat) (c : List (Option Nat)) : Prop :=
  c ≠ [] ∧ c.head? ≠ some none ∧
    ∃ v, c.getLast? = some (some v) ∧ (c.length > 1 → F.isZero v = false)

/-- a slot holds a nonzero element -/
def slotNz (nz : Nat → Bool) : Option Nat → Bool
  | some v => nz v
  | none => false

/-- drop trailing nil / zero slots (mirror of `UPoly.dropTrailingZeros`) -/
def dropTrailing (nz : Nat → Bool) : List (Option Nat) → List (Option Nat)
  | [] => []
  | c :: t =>
    match dropTrailing nz t with
    | [] => if slotNz nz c then [c] else []
    | t' => c :: t'

/-- what `reslice()` leaves in `f.coefs` -/
def resliceSpec (nz : Nat → Bool) (c : List (Option Nat)) : List (Option Nat) :=
  match dropTrailing nz c with
  | [] => c.take 1
  | r => r

/-- the observations of a field `F` agree with the element methods the Go code calls -/
structure Laws (F : FOps Nat) (nz : Nat → Bool) : Prop where
  nz_eq : ∀ v, nz v = !F.isZero v
  zero_isZero : F.isZero F.zero = true

end CodeTies6Proofs
end Algobra
