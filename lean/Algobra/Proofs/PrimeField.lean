/-
  Proofs/PrimeField.lean — helper lemmas for the prime-field model (`Algobra.Prime`, `primeOps`,
  `genericPow`, `powLoop`) and the `Lawful` instance `primeLawful`.
-/
import Mathlib.Data.ZMod.Basic
import Mathlib.Algebra.Field.ZMod
import Mathlib.FieldTheory.Finite.Basic
import Mathlib.GroupTheory.OrderOfElement
import Mathlib.GroupTheory.SpecificGroups.Cyclic
import Mathlib.RingTheory.IntegralDomain
import Mathlib.Tactic.Ring
import Mathlib.Tactic.Linarith
import Mathlib.Tactic.Push
import Algobra.Model.Field
import Algobra.Proofs.Lawful

namespace Algobra

/-! ## generic square-and-multiply -/

/-- Generic specification of the square-and-multiply loop: for any `mul` that is a monoid
    homomorphism (through `embed`) on the `valid` representations and keeps validity,
    `powLoop mul out b n` is valid and embeds to `embed out * embed b ^ n`. -/
theorem powLoop_spec {α M : Type*} [Monoid M] (mul : α → α → α) (valid : α → Prop) (embed : α → M)
    (hv : ∀ x y, valid x → valid y → valid (mul x y))
    (hm : ∀ x y, valid x → valid y → embed (mul x y) = embed x * embed y)
    (n : Nat) : ∀ (out b : α), valid out → valid b →
      valid (powLoop mul out b n) ∧ embed (powLoop mul out b n) = embed out * embed b ^ n := by
  induction n using Nat.strong_induction_on with
  | _ n ih =>
    intro out b ho hb
    rw [powLoop]
    by_cases h : n = 0
    · subst h; simp [ho]
    · rw [dif_neg h]
      have hlt : n / 2 < n := by omega
      have hbb : valid (mul b b) := hv b b hb hb
      by_cases hodd : n % 2 = 1
      · rw [if_pos hodd]
        obtain ⟨h1, h2⟩ := ih (n / 2) hlt (mul out b) (mul b b) (hv out b ho hb) hbb
        refine ⟨h1, ?_⟩
        rw [h2, hm out b ho hb, hm b b hb hb]
        have hn : n = 2 * (n / 2) + 1 := by omega
        conv_rhs => rw [hn]
        rw [mul_assoc, ← pow_two, ← pow_mul, ← pow_succ']
      · rw [if_neg hodd]
        obtain ⟨h1, h2⟩ := ih (n / 2) hlt out (mul b b) ho hbb
        refine ⟨h1, ?_⟩
        rw [h2, hm b b hb hb]
        have hn : n = 2 * (n / 2) := by omega
        conv_rhs => rw [hn]
        rw [pow_mul, pow_two]

/-! ## word-level facts -/

theorem w64_of_lt {x : Nat} (h : x < 2 ^ 64) : w64 x = x := Nat.mod_eq_of_lt h

theorem wrapInt_of_bounds {x : Int} (h1 : -(2 ^ 63) ≤ x) (h2 : x < 2 ^ 63) : wrapInt x = x := by
  unfold wrapInt
  simp only
  split <;> omega

theorem wordToInt_of_lt {x : Nat} (h : x < 2 ^ 63) : wordToInt x = (x : Int) := by
  unfold wordToInt
  exact wrapInt_of_bounds (by simp only [Int.ofNat_eq_natCast]; omega)
    (by simp only [Int.ofNat_eq_natCast]; omega)

theorem intToWord_of_bounds {x : Int} (h1 : 0 ≤ x) (h2 : x < 2 ^ 64) : intToWord x = x.toNat := by
  unfold intToWord
  rw [Int.emod_eq_of_lt h1 h2]

namespace Prime

/-- the size guard of `primefield.Define` gives `p ≤ 2^32` -/
theorem le_of_guard {p : Nat} (h32 : p - 1 < 2 ^ 32) : p ≤ 2 ^ 32 := by omega

/-! ### add / sub / mul / neg -/

theorem add_lt {p a b : Nat} (hp : 0 < p) : add p a b < p := Nat.mod_lt _ hp

theorem add_eq {p a b : Nat} (h32 : p - 1 < 2 ^ 32) (ha : a < p) (hb : b < p) :
    add p a b = (a + b) % p := by
  unfold add
  rw [w64_of_lt (by omega)]

theorem sub_eq {p a b : Nat} (h32 : p - 1 < 2 ^ 32) (ha : a < p) (_hb : b < p) :
    sub p a b = if a ≥ b then a - b else a + (p - b) := by
  unfold sub
  split
  · rfl
  · rw [w64_of_lt (by have := ha; omega)]

theorem sub_lt {p a b : Nat} (h32 : p - 1 < 2 ^ 32) (ha : a < p) (hb : b < p) :
    sub p a b < p := by
  rw [sub_eq h32 ha hb]
  split <;> omega

theorem mul_bound {p a b : Nat} (h32 : p - 1 < 2 ^ 32) (ha : a < p) (hb : b < p) :
    a * b < 2 ^ 64 := by
  have h1 : a ≤ 2 ^ 32 - 1 := by omega
  have h2 : b ≤ 2 ^ 32 - 1 := by omega
  calc a * b ≤ (2 ^ 32 - 1) * (2 ^ 32 - 1) := Nat.mul_le_mul h1 h2
    _ < 2 ^ 64 := by norm_num

theorem mul_eq {p a b : Nat} (h32 : p - 1 < 2 ^ 32) (ha : a < p) (hb : b < p) :
    mul p a b = (a * b) % p := by
  unfold mul
  split
  · rename_i h
    rcases h with h | h <;> subst h <;> simp
  · rw [w64_of_lt (mul_bound h32 ha hb)]

theorem mul_lt {p a b : Nat} (hp : 0 < p) : mul p a b < p := by
  unfold mul
  split
  · exact hp
  · exact Nat.mod_lt _ hp

theorem neg_lt {p a : Nat} (hp : 0 < p) : neg p a < p := Nat.mod_lt _ hp

theorem cast_add {p a b : Nat} (h32 : p - 1 < 2 ^ 32) (ha : a < p) (hb : b < p) :
    ((add p a b : ℕ) : ZMod p) = (a : ZMod p) + b := by
  rw [add_eq h32 ha hb, ZMod.natCast_mod, Nat.cast_add]

theorem cast_sub {p a b : Nat} (h32 : p - 1 < 2 ^ 32) (ha : a < p) (hb : b < p) :
    ((sub p a b : ℕ) : ZMod p) = (a : ZMod p) - b := by
  rw [sub_eq h32 ha hb]
  split
  · rename_i h
    rw [Nat.cast_sub h]
  · rw [Nat.cast_add, Nat.cast_sub hb.le, ZMod.natCast_self]
    ring

theorem cast_mul {p a b : Nat} (h32 : p - 1 < 2 ^ 32) (ha : a < p) (hb : b < p) :
    ((mul p a b : ℕ) : ZMod p) = (a : ZMod p) * b := by
  rw [mul_eq h32 ha hb, ZMod.natCast_mod, Nat.cast_mul]

theorem cast_neg {p a : Nat} (ha : a < p) :
    ((neg p a : ℕ) : ZMod p) = -(a : ZMod p) := by
  unfold neg
  rw [ZMod.natCast_mod, Nat.cast_sub ha.le, ZMod.natCast_self]
  ring

/-! ### element / fromSigned -/

theorem element_lt {p v : Nat} (hp : 0 < p) : element p v < p := Nat.mod_lt _ hp

theorem cast_element {p v : Nat} : ((element p v : ℕ) : ZMod p) = (v : ZMod p) := by
  unfold element
  rw [ZMod.natCast_mod]

theorem element_of_lt {p v : Nat} (h : v < p) : element p v = v := Nat.mod_eq_of_lt h

/-- the canonical representative computed by `ElementFromSigned` before the final `element` -/
theorem fromSigned_eq {p : Nat} (hp : 0 < p) (h32 : p - 1 < 2 ^ 32) (v : Int) :
    fromSigned p v = (v % (p : Int)).toNat := by
  have hp' : (0 : Int) < p := by exact_mod_cast hp
  have hpne : (p : Int) ≠ 0 := ne_of_gt hp'
  unfold fromSigned goMod
  simp only [Int.ofNat_eq_natCast]
  have habs := Int.tmod_lt_of_pos v hp'
  have habs2 : -(p : Int) < v.tmod p := by
    have := Int.tmod_lt_of_pos (-v) hp'
    rw [Int.neg_tmod] at this
    omega
  have hmod : (if v.tmod p < 0 then v.tmod p + p else v.tmod p) = v % (p : Int) := by
    rw [Int.tmod_eq_emod]
    have h0 := Int.emod_nonneg v hpne
    have h1 := Int.emod_lt_of_pos v hp'
    split <;> split <;> simp_all; omega
  rw [hmod]
  have h0 := Int.emod_nonneg v hpne
  have h1 := Int.emod_lt_of_pos v hp'
  rw [intToWord_of_bounds h0 (by omega)]
  apply element_of_lt
  omega

theorem fromSigned_lt {p : Nat} (hp : 0 < p) (h32 : p - 1 < 2 ^ 32) (v : Int) :
    fromSigned p v < p := by
  rw [fromSigned_eq hp h32]
  have hp' : (0 : Int) < p := by exact_mod_cast hp
  have h0 := Int.emod_nonneg v (ne_of_gt hp')
  have h1 := Int.emod_lt_of_pos v hp'
  omega

theorem cast_fromSigned {p : Nat} (hp : 0 < p) (h32 : p - 1 < 2 ^ 32) (v : Int) :
    ((fromSigned p v : ℕ) : ZMod p) = (v : ZMod p) := by
  rw [fromSigned_eq hp h32]
  have hp' : (0 : Int) < p := by exact_mod_cast hp
  have h0 := Int.emod_nonneg v (ne_of_gt hp')
  rw [← Int.cast_natCast, Int.toNat_of_nonneg h0, ZMod.intCast_mod]

/-! ### Inv: the extended Euclid loop -/

/-- Invariant of the extended Euclid loop. With `i0 = -s·u0`, `i1 = s·u1` (alternating signs),
    `r0·u1 + r1·u0 = p` bounds the cofactors by `p ≤ 2^32`, so all `wrapInt`s are the identity, and
    `i_k · a ≡ r_k (mod p)` gives the Bézout relation for the returned cofactor. -/
theorem invLoop_spec {p : Nat} (a : Nat) (hp32 : p ≤ 2 ^ 32) :
    ∀ (r1 r0 : Nat) (i0 i1 : Int) (s : Int) (u0 u1 : Nat),
      (s = 1 ∨ s = -1) → i0 = -s * u0 → i1 = s * u1 →
      r0 * u1 + r1 * u0 = p → 0 < r0 → r0 ≤ p → r1 ≤ p → u0 ≤ p →
      ((i0 : ZMod p) * a = r0) → ((i1 : ZMod p) * a = r1) →
      |invLoop r0 r1 i0 i1| ≤ p ∧
        ((invLoop r0 r1 i0 i1 : ℤ) : ZMod p) * a = (Nat.gcd r0 r1 : ZMod p) := by
  intro r1
  induction r1 using Nat.strong_induction_on with
  | _ r1 ih =>
    intro r0 i0 i1 s u0 u1 hs hi0 hi1 hinv hr0 hr0p hr1p hu0 hc0 hc1
    rw [invLoop]
    by_cases h : r1 = 0
    · rw [dif_pos h]
      subst h
      refine ⟨?_, by simpa using hc0⟩
      rw [hi0]
      rcases hs with hs | hs <;> subst hs <;> simp [abs_of_nonneg] <;> exact_mod_cast hu0
    · rw [dif_neg h]
      have hr1 : 0 < r1 := Nat.pos_of_ne_zero h
      set q := r0 / r1 with hq
      have hdm : r1 * q + r0 % r1 = r0 := Nat.div_add_mod r0 r1
      -- the new invariant
      have hinv' : r1 * (u0 + q * u1) + (r0 % r1) * u1 = p := by
        calc r1 * (u0 + q * u1) + (r0 % r1) * u1
            = (r1 * q + r0 % r1) * u1 + r1 * u0 := by ring
          _ = p := by rw [hdm, hinv]
      have hu1' : u0 + q * u1 ≤ p := by
        have : 1 * (u0 + q * u1) ≤ r1 * (u0 + q * u1) := Nat.mul_le_mul_right _ hr1
        omega
      have hu1 : u1 ≤ p := by
        have : 1 * u1 ≤ r0 * u1 := Nat.mul_le_mul_right _ hr0
        omega
      have hqp : q ≤ p := le_trans (Nat.div_le_self _ _) hr0p
      have hqu : q * u1 ≤ p := by omega
      have hw1 : wordToInt q = (q : Int) := wordToInt_of_lt (by omega)
      have hprod : (q : Int) * i1 = s * ((q * u1 : ℕ) : Int) := by
        rw [hi1]; push_cast; ring
      have hw2 : wrapInt ((q : Int) * i1) = (q : Int) * i1 := by
        have hb : ((q * u1 : ℕ) : Int) ≤ 2 ^ 32 := by exact_mod_cast le_trans hqu hp32
        have hb0 : (0 : Int) ≤ ((q * u1 : ℕ) : Int) := Int.natCast_nonneg _
        apply wrapInt_of_bounds <;> rw [hprod] <;> rcases hs with hs | hs <;> subst hs <;> omega
      have hnew : i0 - (q : Int) * i1 = -s * ((u0 + q * u1 : ℕ) : Int) := by
        rw [hi0, hi1]; push_cast; ring
      have hw3 : wrapInt (i0 - (q : Int) * i1) = i0 - (q : Int) * i1 := by
        have hb : ((u0 + q * u1 : ℕ) : Int) ≤ 2 ^ 32 := by exact_mod_cast le_trans hu1' hp32
        have hb0 : (0 : Int) ≤ ((u0 + q * u1 : ℕ) : Int) := Int.natCast_nonneg _
        apply wrapInt_of_bounds <;> rw [hnew] <;> rcases hs with hs | hs <;> subst hs <;> omega
      rw [hw1, hw2, hw3]
      have hlt : r0 % r1 < r1 := Nat.mod_lt _ hr1
      have hgcd : Nat.gcd r0 r1 = Nat.gcd r1 (r0 % r1) := by
        rw [Nat.gcd_comm r0 r1, Nat.gcd_rec r1 r0, Nat.gcd_comm]
      rw [hgcd]
      apply ih (r0 % r1) hlt r1 i1 (i0 - (q : Int) * i1) (-s) u1 (u0 + q * u1)
      · rcases hs with hs | hs <;> subst hs <;> simp
      · rw [hi1]; ring
      · rw [hnew]
      · exact hinv'
      · exact hr1
      · exact hr1p
      · omega
      · exact hu1
      · exact hc1
      · have hcast : (r0 : ZMod p) = (r1 : ZMod p) * q + ((r0 % r1 : ℕ) : ZMod p) := by
          rw [← Nat.cast_mul, ← Nat.cast_add, hdm]
        push_cast
        rw [sub_mul, hc0, mul_assoc, hc1, hcast]
        ring

theorem inv_zero (p : Nat) : inv p 0 = none := by simp [inv]

/-- the result of `Inv` on a nonzero canonical element -/
theorem inv_spec' {p a : Nat} (hp : p.Prime) (h32 : p - 1 < 2 ^ 32) (ha : a < p) (ha0 : a ≠ 0) :
    ∃ i, inv p a = some i ∧ i < p ∧ (i : ZMod p) * (a : ZMod p) = 1 := by
  have hp32 : p ≤ 2 ^ 32 := le_of_guard h32
  refine ⟨fromSigned p (invLoop p a 0 1), by simp [inv, ha0], fromSigned_lt hp.pos h32 _, ?_⟩
  rw [cast_fromSigned hp.pos h32]
  have hcop : Nat.gcd p a = 1 :=
    (Nat.Prime.coprime_iff_not_dvd hp).2 (Nat.not_dvd_of_pos_of_lt (Nat.pos_of_ne_zero ha0) ha)
  have := (invLoop_spec (p := p) a hp32 a p 0 1 1 0 1 (Or.inl rfl) (by simp) (by simp) (by simp)
    hp.pos le_rfl ha.le (Nat.zero_le _) (by simp) (by simp)).2
  rw [this, hcop, Nat.cast_one]

/-! ### Pow -/

theorem one_mod {p : Nat} (hp : 2 ≤ p) : 1 % p = 1 := Nat.mod_eq_of_lt hp

theorem pow_spec' {p a : Nat} (hp : p.Prime) (h32 : p - 1 < 2 ^ 32) (ha : a < p) (n : Nat) :
    pow p a n < p ∧ ((pow p a n : ℕ) : ZMod p) = (a : ZMod p) ^ n := by
  have := Fact.mk hp
  have hp2 := hp.two_le
  unfold pow genericPow
  by_cases hz : a = 0
  · subst hz
    simp only [beq_self_eq_true, if_true]
    split
    · rename_i hn
      subst hn
      refine ⟨element_lt hp.pos, ?_⟩
      rw [cast_element]; simp
    · rename_i hn
      refine ⟨element_lt hp.pos, ?_⟩
      rw [cast_element]; simp [hn]
  · have hz' : (a == 0) = false := by simpa using hz
    simp only [hz', Bool.false_eq_true, if_false]
    have ha0 : (a : ZMod p) ≠ 0 := by
      intro h
      rw [ZMod.natCast_eq_zero_iff] at h
      exact hz (Nat.eq_zero_of_dvd_of_lt h ha)
    obtain ⟨h1, h2⟩ := powLoop_spec (mul p) (fun x => x < p) (fun x => ((x : ℕ) : ZMod p))
      (fun x y _ _ => mul_lt hp.pos) (fun x y hx hy => cast_mul h32 hx hy)
      (if n ≥ p then n % (p - 1) else n) (element p 1) a (element_lt hp.pos) ha
    refine ⟨h1, ?_⟩
    rw [h2, cast_element, Nat.cast_one, one_mul]
    split
    · have hfermat : (a : ZMod p) ^ (p - 1) = 1 := ZMod.pow_card_sub_one_eq_one ha0
      conv_rhs => rw [← Nat.div_add_mod n (p - 1), pow_add, pow_mul, hfermat, one_pow, one_mul]
    · rfl

/-! ### canonical forms -/

theorem cast_inj {p a b : Nat} (ha : a < p) (hb : b < p) (h : (a : ZMod p) = (b : ZMod p)) :
    a = b := by
  rw [ZMod.natCast_eq_natCast_iff'] at h
  rwa [Nat.mod_eq_of_lt ha, Nat.mod_eq_of_lt hb] at h

theorem beq_iff_cast {p a b : Nat} (ha : a < p) (hb : b < p) :
    (a == b) = true ↔ (a : ZMod p) = (b : ZMod p) := by
  rw [beq_iff_eq]
  exact ⟨fun h => by rw [h], cast_inj ha hb⟩

theorem isZero_iff_cast {p a : Nat} (ha : a < p) :
    (a == 0) = true ↔ (a : ZMod p) = 0 := by
  have := beq_iff_cast (p := p) ha (Nat.zero_lt_of_lt ha)
  rwa [Nat.cast_zero] at this

theorem isOne_iff_cast {p a : Nat} (hp : 2 ≤ p) (ha : a < p) :
    (a == 1) = true ↔ (a : ZMod p) = 1 := by
  have := beq_iff_cast (p := p) ha (b := 1) (by omega)
  rwa [Nat.cast_one] at this

/-! ### tables -/

theorem newTable_row {p : Nat} (op : Nat → Nat → Nat) {i : Nat} (hi : i < p) :
    (newTable p op).getD i [] = (List.range (p - i)).map fun d => op i (i + d) := by
  unfold newTable
  rw [List.getD_eq_getElem?_getD, List.getElem?_map, List.getElem?_range hi]
  rfl

theorem newTable_entry {p : Nat} (op : Nat → Nat → Nat) {i d : Nat} (hi : i < p) (hd : d < p - i) :
    ((newTable p op).getD i []).getD d 0 = op i (i + d) := by
  rw [newTable_row op hi, List.getD_eq_getElem?_getD, List.getElem?_map, List.getElem?_range hd]
  rfl

theorem lookup_newTable' {p : Nat} (op : Nat → Nat → Nat) {i j : Nat} (hi : i < p) (hj : j < p)
    (hcomm : ∀ x y, op x y = op y x) : lookup (newTable p op) i j = op i j := by
  unfold lookup
  split
  · rename_i h
    rw [newTable_entry op hj (by omega), hcomm]
    congr 1
    omega
  · rename_i h
    rw [newTable_entry op hi (by omega)]
    congr 1
    omega

theorem computeTables_limit' (p : Nat) (add mult : Bool) (maxMem : Nat) :
    computeTables p add mult maxMem = .error .inputTooLarge ↔
      (add = true ∨ mult = true) ∧ estimateMemory p > maxMem := by
  unfold computeTables
  split
  · rename_i h
    simp only [Bool.and_eq_true, Bool.or_eq_true, decide_eq_true_eq] at h
    simp [h]
  · rename_i h
    simp only [Bool.and_eq_true, Bool.or_eq_true, decide_eq_true_eq] at h
    constructor
    · intro h'; cases h'
    · intro h'; exact absurd h' h

/-! ### MultGenerator (C03, prime-field part) -/

theorem cast_ne_zero {p g : Nat} (hg0 : g ≠ 0) (hg : g < p) : (g : ZMod p) ≠ 0 := by
  intro h
  rw [ZMod.natCast_eq_zero_iff] at h
  exact hg0 (Nat.eq_zero_of_dvd_of_lt h hg)

/-- one test of the generator search: `g^((p-1)/r) ≠ 1` in `ZMod p` -/
theorem isGenerator_test {p g : Nat} (hp : p.Prime) (h32 : p - 1 < 2 ^ 32) (hg : g < p) (r : Nat) :
    (!(pow p (element p g) ((p - 1) / r) == 1)) = true ↔ (g : ZMod p) ^ ((p - 1) / r) ≠ 1 := by
  rw [element_of_lt hg]
  obtain ⟨hlt, hcast⟩ := pow_spec' hp h32 hg ((p - 1) / r)
  rw [Bool.not_eq_true', ← Bool.not_eq_true, isOne_iff_cast hp.two_le hlt, hcast]

theorem isGenerator_iff {p g : Nat} (hp : p.Prime) (h32 : p - 1 < 2 ^ 32) (factors : List Nat)
    (hfac : ∀ r, r ∈ factors ↔ r.Prime ∧ r ∣ p - 1) (hg0 : g ≠ 0) (hg : g < p) :
    isGenerator p factors g = true ↔ orderOf (g : ZMod p) = p - 1 := by
  have := Fact.mk hp
  have hx : (g : ZMod p) ≠ 0 := cast_ne_zero hg0 hg
  have hp1 : 0 < p - 1 := by have := hp.two_le; omega
  unfold isGenerator
  rw [List.all_eq_true]
  constructor
  · intro h
    apply orderOf_eq_of_pow_and_pow_div_prime hp1 (ZMod.pow_card_sub_one_eq_one hx)
    intro r hr hdvd
    exact (isGenerator_test hp h32 hg r).1 (h r ((hfac r).2 ⟨hr, hdvd⟩))
  · intro h r hr
    obtain ⟨hrp, hdvd⟩ := (hfac r).1 hr
    rw [isGenerator_test hp h32 hg r]
    apply pow_ne_one_of_lt_orderOf
    · exact (Nat.div_pos (Nat.le_of_dvd hp1 hdvd) hrp.pos).ne'
    · rw [h]
      exact Nat.div_lt_self hp1 hrp.one_lt

/-- the search returns the first candidate `≥ i` passing the test, if one exists within the fuel -/
theorem genSearch_first (p : Nat) (factors : List Nat) :
    ∀ (fuel i g : Nat), i ≤ g → g < i + fuel → isGenerator p factors g = true →
      ∃ g0, i ≤ g0 ∧ g0 ≤ g ∧ isGenerator p factors g0 = true ∧
        (∀ k, i ≤ k → k < g0 → ¬ isGenerator p factors k = true) ∧
        genSearch p factors i fuel = element p g0 := by
  intro fuel
  induction fuel with
  | zero => intro i g h1 h2; omega
  | succ fuel ih =>
    intro i g h1 h2 hgen
    rw [genSearch]
    by_cases hi : isGenerator p factors i = true
    · rw [if_pos hi]
      exact ⟨i, le_rfl, h1, hi, fun k h3 h4 => by omega, rfl⟩
    · rw [if_neg hi]
      have hne : i ≠ g := by rintro rfl; exact hi hgen
      obtain ⟨g0, h3, h4, h5, h6, h7⟩ := ih (i + 1) g (by omega) (by omega) hgen
      refine ⟨g0, by omega, h4, h5, ?_, h7⟩
      intro k hk1 hk2
      by_cases hki : k = i
      · subst hki; exact hi
      · exact h6 k (by omega) hk2

/-- existence of a primitive root `2 ≤ g < p` for an odd prime `p` -/
theorem exists_primitive_root {p : Nat} (hp : p.Prime) (hp2 : p ≠ 2) :
    ∃ g, 2 ≤ g ∧ g < p ∧ orderOf (g : ZMod p) = p - 1 := by
  have := Fact.mk hp
  obtain ⟨u, hu⟩ := IsCyclic.exists_ofOrder_eq_natCard (α := (ZMod p)ˣ)
  rw [Nat.card_eq_fintype_card, ZMod.card_units] at hu
  have hord : orderOf ((u : ZMod p)) = p - 1 := by rw [orderOf_units, hu]
  have hval : (((u : ZMod p).val : ℕ) : ZMod p) = (u : ZMod p) := ZMod.natCast_zmod_val _
  have hp3 : 3 ≤ p := by have := hp.two_le; omega
  refine ⟨(u : ZMod p).val, ?_, ZMod.val_lt _, by rw [hval, hord]⟩
  by_contra hlt
  have h01 : (u : ZMod p).val = 0 ∨ (u : ZMod p).val = 1 := by omega
  rcases h01 with h | h
  · rw [h, Nat.cast_zero] at hval
    exact u.ne_zero hval.symm
  · rw [h, Nat.cast_one] at hval
    rw [← hval, orderOf_one] at hord
    omega

/-- `MultGenerator` returns a canonical element of multiplicative order `p - 1`.
    `hfac` is the specification of `Auxmath.factorize` on `p - 1` (proved elsewhere, C19). -/
theorem multGenerator_spec' {p : Nat} (hp : p.Prime) (h32 : p - 1 < 2 ^ 32)
    (hfac : ∀ r, r ∈ (Auxmath.factorize 64 (p - 1)).map (·.1) ↔ r.Prime ∧ r ∣ p - 1) :
    multGenerator p < p ∧ orderOf ((multGenerator p : ℕ) : ZMod p) = p - 1 := by
  unfold multGenerator
  by_cases h2 : p = 2
  · subst h2
    simp
  · rw [if_neg h2]
    obtain ⟨g, hg2, hgp, hord⟩ := exists_primitive_root hp h2
    have hgen := (isGenerator_iff hp h32 _ hfac (by omega) hgp).2 hord
    obtain ⟨g0, h1, h2', h3, -, h4⟩ := genSearch_first p _ p 2 g hg2 (by omega) hgen
    have hg0p : g0 < p := by omega
    rw [h4, element_of_lt hg0p]
    exact ⟨hg0p, (isGenerator_iff hp h32 _ hfac (by omega) hg0p).1 h3⟩

/-- for `p ≠ 2` the result is the least primitive root `≥ 2` -/
theorem multGenerator_least' {p : Nat} (hp : p.Prime) (h32 : p - 1 < 2 ^ 32) (hp2 : p ≠ 2)
    (hfac : ∀ r, r ∈ (Auxmath.factorize 64 (p - 1)).map (·.1) ↔ r.Prime ∧ r ∣ p - 1) :
    2 ≤ multGenerator p ∧
      ∀ g, 2 ≤ g → g < multGenerator p → orderOf (g : ZMod p) ≠ p - 1 := by
  unfold multGenerator
  rw [if_neg hp2]
  obtain ⟨g, hg2, hgp, hord⟩ := exists_primitive_root hp hp2
  have hgen := (isGenerator_iff hp h32 _ hfac (by omega) hgp).2 hord
  obtain ⟨g0, h1, h2', h3, h5, h4⟩ := genSearch_first p _ p 2 g hg2 (by omega) hgen
  have hg0p : g0 < p := by omega
  rw [h4, element_of_lt hg0p]
  refine ⟨h1, fun k hk1 hk2 hk => ?_⟩
  exact h5 k hk1 hk2 ((isGenerator_iff hp h32 _ hfac (by omega) (by omega)).2 hk)

end Prime

/-! ## the Lawful instance -/

/-- `primeOps p` implements the field `ZMod p` on the canonical representations `a < p`
    (C01/C02, prime-field part); version taking the primality as a `Fact` instance. -/
noncomputable def primeLawfulFact (p : Nat) [hpf : Fact p.Prime] (h32 : p - 1 < 2 ^ 32) :
    Lawful (primeOps p) (ZMod p) :=
  have hp : p.Prime := hpf.out
  { embed := fun a => ((a : ℕ) : ZMod p)
    valid := fun a => a < p
    inj := fun a b ha hb h => Prime.cast_inj ha hb h
    zero_valid := hp.pos
    one_valid := Nat.mod_lt _ hp.pos
    embed_zero := Nat.cast_zero
    embed_one := by
      show ((1 % p : ℕ) : ZMod p) = 1
      rw [ZMod.natCast_mod, Nat.cast_one]
    add_valid := fun a b _ _ => Prime.add_lt hp.pos
    embed_add := fun a b ha hb => Prime.cast_add h32 ha hb
    sub_valid := fun a b ha hb => Prime.sub_lt h32 ha hb
    embed_sub := fun a b ha hb => Prime.cast_sub h32 ha hb
    mul_valid := fun a b _ _ => Prime.mul_lt hp.pos
    embed_mul := fun a b ha hb => Prime.cast_mul h32 ha hb
    neg_valid := fun a _ => Prime.neg_lt hp.pos
    embed_neg := fun a ha => Prime.cast_neg ha
    inv_some := by
      intro a ha h0
      have ha0 : a ≠ 0 := by
        rintro rfl
        exact h0 Nat.cast_zero
      obtain ⟨i, h1, h2, h3⟩ := Prime.inv_spec' hp h32 ha ha0
      exact ⟨i, h1, h2, eq_inv_of_mul_eq_one_left h3⟩
    inv_none := by
      intro a ha h0
      have : a = 0 := Prime.cast_inj ha hp.pos (by rw [h0, Nat.cast_zero])
      subst this
      exact Prime.inv_zero p
    isZero_iff := fun a ha => Prime.isZero_iff_cast ha
    isOne_iff := fun a ha => Prime.isOne_iff_cast hp.two_le ha
    beq_iff := fun a b _ _ => beq_iff_eq }

/-- the same with an explicit primality proof (the `Field (ZMod p)` instance is the one obtained
    from `Fact.mk hp`; use `haveI := Fact.mk hp` before mentioning it). -/
noncomputable def primeLawful (p : Nat) (hp : p.Prime) (h32 : p - 1 < 2 ^ 32) :
    haveI := Fact.mk hp
    Lawful (primeOps p) (ZMod p) :=
  haveI := Fact.mk hp
  primeLawfulFact p h32

section
variable (p : Nat) [Fact p.Prime] (h32 : p - 1 < 2 ^ 32)

@[simp] theorem primeLawfulFact_valid (a : Nat) : (primeLawfulFact p h32).valid a ↔ a < p := Iff.rfl

@[simp] theorem primeLawfulFact_embed (a : Nat) :
    (primeLawfulFact p h32).embed a = ((a : ℕ) : ZMod p) := rfl

theorem primeLawful_eq (hp : p.Prime) : primeLawful p hp h32 = primeLawfulFact p h32 := rfl

end

end Algobra
