/-
  Proofs/CodeTies5Gen.lean — the search loops of the MACHINE-TRANSLATED `primefield.(*Field).MultGenerator`
  (`go_primefield_Field_MultGenerator_core` of `Algobra/Gen/Code.lean`) against the hand-written model
  `Prime.isGenerator`, `Prime.genSearch`, `Prime.multGenerator` (Model/Field.lean).
-/
import Algobra.Gen.Code
import Algobra.Model.Field
import Algobra.Proofs.PrimeField
import Algobra.Proofs.Define
import Algobra.Props.CodeTies4
namespace Algobra
namespace CodeTies5Proofs
namespace Gen
open Algobra Algobra.Gen.Code

/-! ### A. the inner loop (over the prime factors of `card - 1`) -/

theorem wrapInt_succ {k : Nat} (hk : k + 1 < 2 ^ 63) :
    wrapInt (Int.ofNat k + 1) = Int.ofNat (k + 1) := by
  unfold wrapInt
  have h0 : (0 : Int) ≤ Int.ofNat k := Int.natCast_nonneg k
  have hk' : Int.ofNat k + 1 < 2 ^ 63 := by
    have : ((k + 1 : Nat) : Int) < ((2 ^ 63 : Nat) : Int) := Int.ofNat_lt.2 hk
    simpa using this
  have hm : (Int.ofNat k + 1) % (2 ^ 64 : Int) = Int.ofNat k + 1 :=
    Int.emod_eq_of_lt (by omega) (by omega)
  simp only [hm]
  rw [if_pos (by omega)]
  rfl

/-- a state with the break flag set is returned unchanged -/
theorem loop2_brk (e card : Nat) (factors : List Nat) (isOne : Nat → Bool) (pw : Nat → Nat → Nat)
    (len : Int) (fuel : Nat) (c : Bool) (i : Int) (r : Option (Option Nat)) :
    go_primefield_Field_MultGenerator_core_loop2 e card factors isOne pw len fuel (c, i, true, r)
      = (c, i, true, r) := by
  cases fuel <;> simp [go_primefield_Field_MultGenerator_core_loop2]

/-- invariant of the inner loop, started at index `k` -/
theorem loop2_inv (e card : Nat) (factors : List Nat) (isOne : Nat → Bool) (pw : Nat → Nat → Nat)
    (hlen : factors.length < 2 ^ 63) (fuel : Nat) :
    ∀ k, k ≤ factors.length → factors.length - k < fuel →
      (go_primefield_Field_MultGenerator_core_loop2 e card factors isOne pw
          (Int.ofNat factors.length) fuel (false, Int.ofNat k, false, none)).2.2.2 = none ∧
      (go_primefield_Field_MultGenerator_core_loop2 e card factors isOne pw
          (Int.ofNat factors.length) fuel (false, Int.ofNat k, false, none)).1
        = !((factors.drop k).all fun r => !(isOne (pw e (wsub card 1 / r)))) := by
  induction fuel with
  | zero => intro k _ h; omega
  | succ f ih =>
    intro k hk hf
    by_cases hkl : k < factors.length
    · have hlt : Int.ofNat k < Int.ofNat factors.length := Int.ofNat_lt.2 hkl
      have h0 : (0 : Int) ≤ Int.ofNat k := Int.natCast_nonneg k
      have hdrop : factors.drop k = factors[k] :: factors.drop (k + 1) :=
        List.drop_eq_getElem_cons hkl
      have hget : factors.getD (Int.ofNat k).toNat 0 = factors[k] := by
        simp [List.getD_eq_getElem?_getD, hkl]
      simp only [go_primefield_Field_MultGenerator_core_loop2, hlt, h0, and_self, Option.isNone_none,
        ↓reduceIte, hget]
      by_cases hone : isOne (pw e (wsub card 1 / factors[k])) = true
      · simp only [hone, ↓reduceIte, loop2_brk, hdrop, List.all_cons, Bool.not_true,
          Bool.false_and, Bool.not_false, and_self]
      · have hone' : isOne (pw e (wsub card 1 / factors[k])) = false := by simpa using hone
        simp only [hone', Bool.false_eq_true, ↓reduceIte, hdrop, List.all_cons, Bool.not_false,
          Bool.true_and, wrapInt_succ (show k + 1 < 2 ^ 63 by omega)]
        exact ih (k + 1) hkl (by omega)
    · have hkeq : k = factors.length := by omega
      subst hkeq
      simp [go_primefield_Field_MultGenerator_core_loop2]

/-- A. the inner loop of `MultGenerator` never panics (the index guard always holds) and sets the
    "continue outer loop" flag iff some factor `r` has `IsOne(e.Pow((card-1)/r))`. -/
theorem loop2_generic (e card : Nat) (factors : List Nat) (isOne : Nat → Bool)
    (pw : Nat → Nat → Nat) (hlen : factors.length < 2 ^ 63) (fuel : Nat)
    (hfuel : factors.length < fuel) :
    (go_primefield_Field_MultGenerator_core_loop2 e card factors isOne pw
        (Int.ofNat factors.length) fuel (false, 0, false, none)).2.2.2 = none ∧
    (go_primefield_Field_MultGenerator_core_loop2 e card factors isOne pw
        (Int.ofNat factors.length) fuel (false, 0, false, none)).1
      = !(factors.all fun r => !(isOne (pw e (wsub card 1 / r)))) := by
  have h := loop2_inv e card factors isOne pw hlen fuel 0 (Nat.zero_le _) (by omega)
  rw [List.drop_zero] at h
  exact h

/-- non-vacuity of A -/
example : ([2, 3] : List Nat).length < 2 ^ 63 ∧ ([2, 3] : List Nat).length < loopFuel := by
  unfold loopFuel; decide

/-! ### B. the outer loop (candidates `i = 2, 3, …`) -/

/-- a state with the break flag set is returned unchanged -/
theorem loop1_brk (card : Nat) (el : Nat → Nat) (factors : List Nat) (isOne : Nat → Bool)
    (pw : Nat → Nat → Nat) (fuel : Nat) (e i : Nat) (r : Option (Option Nat)) :
    go_primefield_Field_MultGenerator_core_loop1 card el factors isOne pw fuel (e, i, true, r)
      = (e, i, true, r) := by
  cases fuel <;> simp [go_primefield_Field_MultGenerator_core_loop1]

theorem loop1_inv (card : Nat) (el : Nat → Nat) (factors : List Nat) (isOne : Nat → Bool)
    (pw : Nat → Nat → Nat) (hlen : factors.length < 2 ^ 63) (g : Nat) (hg : g < 2 ^ 64)
    (hgood : (factors.all fun r => !(isOne (pw (el g) (wsub card 1 / r)))) = true) (fuel : Nat) :
    ∀ i e, i ≤ g → g - i < fuel →
      (∀ j, i ≤ j → j < g → (factors.all fun r => !(isOne (pw (el j) (wsub card 1 / r)))) = false) →
      go_primefield_Field_MultGenerator_core_loop1 card el factors isOne pw fuel (e, i, false, none)
        = (el g, g, true, none) := by
  have hfl : factors.length < loopFuel := by unfold loopFuel; omega
  induction fuel with
  | zero => intro i e _ h; omega
  | succ f ih =>
    intro i e hi hf hleast
    have hA := loop2_generic (el i) card factors isOne pw hlen loopFuel hfl
    simp only [go_primefield_Field_MultGenerator_core_loop1, Option.isNone_none,
      and_self, ↓reduceIte]
    generalize go_primefield_Field_MultGenerator_core_loop2 (el i) card factors isOne pw
      (Int.ofNat factors.length) loopFuel (false, 0, false, none) = st at hA ⊢
    obtain ⟨c, ri, b, rt⟩ := st
    obtain ⟨hrt, hc⟩ := hA
    simp only at hrt hc
    subst hrt
    by_cases hig : i = g
    · subst hig
      rw [hgood] at hc
      subst hc
      simp only [Bool.not_true, Bool.false_eq_true, ↓reduceIte, loop1_brk]
    · have hilt : i < g := by omega
      rw [hleast i (Nat.le_refl _) hilt] at hc
      subst hc
      have hw : w64 (i + 1) = i + 1 := by unfold w64; exact Nat.mod_eq_of_lt (by omega)
      simp only [Bool.not_false, ↓reduceIte, hw]
      exact ih (i + 1) (el i) hilt (by omega) (fun j h1 h2 => hleast j (by omega) h2)

/-- each recursion level of the model's `factorize` yields at most one pair -/
theorem factorize_length (fuel : Nat) : ∀ n, (Auxmath.factorize fuel n).length ≤ fuel := by
  induction fuel with
  | zero => intro n; simp [Auxmath.factorize]
  | succ f ih =>
    intro n
    simp only [Auxmath.factorize]
    repeat' split
    all_goals first
      | exact ih _
      | (simp only [List.length_cons]; exact Nat.succ_le_succ (ih _))
      | simp

theorem factors_length {n : Nat} (hn : n < 2 ^ 64) :
    (go_auxmath_Factorize loopFuel n).1.length < 2 ^ 63 := by
  rw [CodeTies4.factorize_tie_factors hn, List.length_map]
  exact Nat.lt_of_le_of_lt (factorize_length 64 n) (by omega)

/-- B (proved at the level of the outer loop, started as the core starts it, with the fuel `loopFuel`
    and the factor list the core computes): the loop stops at the least candidate `g ≥ 2` passing all
    tests, with `e = element(g)`, the break flag set and no panic. -/
theorem multGenerator_loop_generic {card : Nat} (nilE : Nat) (el : Nat → Nat) (isOne : Nat → Bool)
    (pw : Nat → Nat → Nat) (h1 : 1 ≤ card) (h2 : card ≤ 2 ^ 64) (g : Nat) (hg2 : 2 ≤ g)
    (hg64 : g < 2 ^ 64)
    (hgood : ((go_auxmath_Factorize loopFuel (wsub card 1)).1.all
        fun r => !(isOne (pw (el g) ((card - 1) / r)))) = true)
    (hleast : ∀ i, 2 ≤ i → i < g → ((go_auxmath_Factorize loopFuel (wsub card 1)).1.all
        fun r => !(isOne (pw (el i) ((card - 1) / r)))) = false) :
    go_primefield_Field_MultGenerator_core_loop1 card el
        (go_auxmath_Factorize loopFuel (wsub card 1)).1 isOne pw loopFuel (nilE, 2, false, none)
      = (el g, g, true, none) := by
  have hw := CodeTies4Proofs.wsub_card h1 h2
  have hlen := factors_length (n := wsub card 1) (by rw [hw]; omega)
  have hfuel : g - 2 < loopFuel := by unfold loopFuel; omega
  rw [← hw] at hgood hleast
  exact loop1_inv card el _ isOne pw hlen g hg64 hgood loopFuel 2 nilE hg2 hfuel hleast

/-- non-vacuity of B: `card = 7`, the observations of the prime field, `g = 3` -/
example : (1 ≤ 7 ∧ 7 ≤ 2 ^ 64) ∧ (2 ≤ 3 ∧ 3 < 2 ^ 64) ∧
    (((Auxmath.factorize 64 (7 - 1)).map (·.1)).all
      fun r => !((fun x => x == 1) (Prime.pow 7 (Prime.element 7 3) ((7 - 1) / r)))) = true ∧
    (∀ i, 2 ≤ i → i < 3 → (((Auxmath.factorize 64 (7 - 1)).map (·.1)).all
      fun r => !((fun x => x == 1) (Prime.pow 7 (Prime.element 7 i) ((7 - 1) / r)))) = false) := by
  refine ⟨by decide, by decide, by decide +kernel, ?_⟩
  intro i h1 h2
  have : i = 2 := by omega
  subst this
  decide +kernel

/-! ### C. tie with the model's `genSearch` -/

/-- the factor list used by the core is the model's -/
theorem core_factors {p : Nat} (hp1 : 1 ≤ p) (hp2 : p ≤ 2 ^ 64) :
    (go_auxmath_Factorize loopFuel (wsub p 1)).1 = (Auxmath.factorize 64 (p - 1)).map (·.1) := by
  rw [CodeTies4Proofs.wsub_card hp1 hp2]; exact CodeTies4.factorize_tie_factors (by omega)

/-- C (at the level of the outer loop): with the prime-field observations the translated search loop
    stops, without panic, with `e` = the result of the model's search (fuel `p`: candidates
    `2, …, p + 1`), provided some candidate in that range passes the test. -/
theorem multGenerator_loop_tie {p : Nat} (nilE : Nat) (hp1 : 1 ≤ p) (hp2 : p ≤ 2 ^ 64)
    (hex : ∃ g, 2 ≤ g ∧ g < p + 2 ∧ g < 2 ^ 64 ∧
      Prime.isGenerator p ((Auxmath.factorize 64 (p - 1)).map (·.1)) g = true) :
    ∃ g0, go_primefield_Field_MultGenerator_core_loop1 p (Prime.element p)
        (go_auxmath_Factorize loopFuel (wsub p 1)).1 (fun x => x == 1) (Prime.pow p) loopFuel
        (nilE, 2, false, none)
      = (Prime.genSearch p ((Auxmath.factorize 64 (p - 1)).map (·.1)) 2 p, g0, true, none) := by
  obtain ⟨g, hg2, hgp, hg64, hgen⟩ := hex
  obtain ⟨g0, h1, h2, h3, h5, h4⟩ :=
    Prime.genSearch_first p _ p 2 g hg2 (by omega) hgen
  have hfac := core_factors hp1 hp2
  refine ⟨g0, ?_⟩
  rw [h4]
  apply multGenerator_loop_generic nilE (Prime.element p) (fun x => x == 1) (Prime.pow p) hp1 hp2 g0
    h1 (by omega)
  · rw [hfac]; exact h3
  · intro i hi1 hi2
    rw [hfac]
    have := h5 i hi1 hi2
    simpa [Prime.isGenerator] using this

/-- non-vacuity of C: `p = 7`, witness `g = 3` -/
example : (1 ≤ 7 ∧ 7 ≤ 2 ^ 64) ∧ ∃ g, 2 ≤ g ∧ g < 7 + 2 ∧ g < 2 ^ 64 ∧
    Prime.isGenerator 7 ((Auxmath.factorize 64 (7 - 1)).map (·.1)) g = true :=
  ⟨by decide, 3, by decide, by decide, by decide, by decide +kernel⟩

/-! ### D. tie with `Prime.multGenerator` for an odd prime below `2^32 + 1` -/

/-- the hypothesis `hex` of C for an odd prime `p` with `p - 1 < 2^32` -/
theorem exists_generator {p : Nat} (hp : p.Prime) (h32 : p - 1 < 2 ^ 32) (hp2 : p ≠ 2) :
    ∃ g, 2 ≤ g ∧ g < p + 2 ∧ g < 2 ^ 64 ∧
      Prime.isGenerator p ((Auxmath.factorize 64 (p - 1)).map (·.1)) g = true := by
  have h2 := hp.two_le
  have hfac := factorize_pred_mem (p := p) h2 (by omega)
  obtain ⟨g, hg2, hgp, hord⟩ := Prime.exists_primitive_root hp hp2
  exact ⟨g, hg2, by omega, by omega, (Prime.isGenerator_iff hp h32 _ hfac (by omega) hgp).2 hord⟩

/-- D (at the level of the outer loop): for a prime `p ≠ 2` with `p - 1 < 2^32` the translated search
    loop stops, without panic, with `e = Prime.multGenerator p`. -/
theorem multGenerator_loop_tie_prime {p : Nat} (nilE : Nat) (hp : p.Prime) (h32 : p - 1 < 2 ^ 32)
    (hp2 : p ≠ 2) :
    ∃ g0, go_primefield_Field_MultGenerator_core_loop1 p (Prime.element p)
        (go_auxmath_Factorize loopFuel (wsub p 1)).1 (fun x => x == 1) (Prime.pow p) loopFuel
        (nilE, 2, false, none)
      = (Prime.multGenerator p, g0, true, none) := by
  have h2 := hp.two_le
  obtain ⟨g0, h⟩ := multGenerator_loop_tie (p := p) nilE (by omega) (by omega)
    (exists_generator hp h32 hp2)
  refine ⟨g0, ?_⟩
  rw [h]
  unfold Prime.multGenerator
  rw [if_neg hp2]

/-- non-vacuity of D -/
example : Nat.Prime 7 ∧ 7 - 1 < 2 ^ 32 ∧ 7 ≠ 2 := ⟨by norm_num, by decide, by decide⟩
/-- sanity evaluation of the model function -/
example : Prime.multGenerator 7 = 3 := by decide +kernel


/-! ### the core (statements from `var e *Element` to the end; the factor list is a parameter) -/

/-- the translated core is its outer loop started at `(nil, 2, false, none)`; its result is the loop's
    return slot (a panic) if filled, else `some e` -/
theorem core_of_loop (nilE : Nat) (el : Nat → Nat) (isOne : Nat → Bool) (card : Nat)
    (pw : Nat → Nat → Nat) (factors : List Nat) (r : Nat × Nat × Bool × Option (Option Nat))
    (h : go_primefield_Field_MultGenerator_core_loop1 card el factors isOne pw loopFuel
      (nilE, 2, false, none) = r) :
    go_primefield_Field_MultGenerator_core nilE el isOne card pw factors
      = (match r.2.2.2 with | some v => v | none => some r.1) := by
  unfold go_primefield_Field_MultGenerator_core
  simp only []
  rw [h]
  clear h
  obtain ⟨e, i, b, ret⟩ := r
  rfl

/-- B for the core, with the factor list the Go code computes -/
theorem multGenerator_core_generic {card : Nat} (nilE : Nat) (el : Nat → Nat) (isOne : Nat → Bool)
    (pw : Nat → Nat → Nat) (h1 : 1 ≤ card) (h2 : card ≤ 2 ^ 64) (g : Nat) (hg2 : 2 ≤ g)
    (hg64 : g < 2 ^ 64)
    (hgood : ((go_auxmath_Factorize loopFuel (wsub card 1)).1.all
        fun r => !(isOne (pw (el g) ((card - 1) / r)))) = true)
    (hleast : ∀ i, 2 ≤ i → i < g → ((go_auxmath_Factorize loopFuel (wsub card 1)).1.all
        fun r => !(isOne (pw (el i) ((card - 1) / r)))) = false) :
    go_primefield_Field_MultGenerator_core nilE el isOne card pw
      (go_auxmath_Factorize loopFuel (wsub card 1)).1 = some (el g) :=
  core_of_loop nilE el isOne card pw _ _
    (multGenerator_loop_generic nilE el isOne pw h1 h2 g hg2 hg64 hgood hleast)

/-- C for the core -/
theorem multGenerator_core_tie {p : Nat} (nilE : Nat) (hp1 : 1 ≤ p) (hp2 : p ≤ 2 ^ 64)
    (hex : ∃ g, 2 ≤ g ∧ g < p + 2 ∧ g < 2 ^ 64 ∧
      Prime.isGenerator p ((Auxmath.factorize 64 (p - 1)).map (·.1)) g = true) :
    go_primefield_Field_MultGenerator_core nilE (Prime.element p) (fun x => x == 1) p (Prime.pow p)
        (go_auxmath_Factorize loopFuel (wsub p 1)).1
      = some (Prime.genSearch p ((Auxmath.factorize 64 (p - 1)).map (·.1)) 2 p) := by
  obtain ⟨g0, h⟩ := multGenerator_loop_tie nilE hp1 hp2 hex
  exact core_of_loop nilE _ _ p _ _ _ h

/-- D for the core -/
theorem multGenerator_tie {p : Nat} (nilE : Nat) (hp : p.Prime) (h32 : p - 1 < 2 ^ 32) (hp2 : p ≠ 2) :
    go_primefield_Field_MultGenerator_core nilE (Prime.element p) (fun x => x == 1) p (Prime.pow p)
        (go_auxmath_Factorize loopFuel (wsub p 1)).1
      = some (Prime.multGenerator p) := by
  obtain ⟨g0, h⟩ := multGenerator_loop_tie_prime nilE hp h32 hp2
  exact core_of_loop nilE _ _ p _ _ _ h

end Gen
end CodeTies5Proofs
end Algobra
