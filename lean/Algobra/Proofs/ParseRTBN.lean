/-
  Proofs/ParseRTBN.lean — the bivariate tokeniser on printed terms in every notation of
  `C15.Notation`: optional `*`, optional `^`, any blanks around `+`, any letter case of the
  variables, and either order of the two variables.  Generalises `bodyB_term`, `tokB_term`,
  `b_go_term`, `matchesB_terms` of `Proofs/ParseRTB.lean`.  Helper of `Props/C15Full.lean`.
-/
import Algobra.Proofs.ParseRTB
import Algobra.Proofs.ParseRTN

namespace Algobra.ParseRT
open Algobra Algobra.Strings Algobra.Parse Algobra.Regex

variable {α : Type}

/-- a variable text `W` (one of the two ring variables, in some letter case) as the pattern
    `(?i:X|Y)` and the coefficient pattern see it -/
structure VarOK (F : FOps α) (X Y : Cs) (W : String) : Prop where
  head : ∃ w0 wt, W.toList = w0 :: wt ∧ w0.isAlpha = true
  scan : ∀ Z, scanVar X Y (W.toList ++ Z) = some Z
  un : ∀ w Z, F.ownVar = some w → strip w.toList (W.toList ++ Z) = none

theorem tail_factsN {x y : String} {x0 y0 : Char} {xt yt : Cs} (hx : x.toList = x0 :: xt)
    (hx0 : x0.isAlpha = true) (hy : y.toList = y0 :: yt) (hy0 : y0.isAlpha = true) {P : Cs}
    (hP : TailN P) :
    scanVar x.toList y.toList P = none ∧ dropCaret P = P ∧ digits P = [] ∧ dropDigits P = P ∧
      dropWs P = P := by
  rcases hP with rfl | ⟨t, rfl⟩
  · refine ⟨?_, rfl, rfl, rfl, rfl⟩
    unfold scanVar; rw [hx, hy]; rfl
  · refine ⟨?_, by simp [dropCaret], digits_of_head (by simp), dropDigits_of_head (by simp),
      dropWs_of_head (by simp [isWs])⟩
    unfold scanVar
    rw [hx, hy, stripCi_head_ne _ _ (lower_alpha_ne hx0 (by decide) (by decide)),
      stripCi_head_ne _ _ (lower_alpha_ne hy0 (by decide) (by decide))]

section
variable {F : FOps α} {Valid : α → Prop} {X Y : Cs} {W : String}

theorem varPartN_head (V : VarOK F X Y W) (caret : Bool) {e : Nat} (he : e ≠ 0) (Z : Cs) :
    ∃ w0 t, varPartN W caret e ++ Z = w0 :: t ∧ w0.isAlpha = true := by
  obtain ⟨w0, wt, hw, hw0⟩ := V.head
  rw [varPartN_pos W caret he, hw]
  exact ⟨w0, _, by simp; rfl, hw0⟩

/-- variable with optional exponent in a notation, as `var1\^?deg1` / `var2\^?deg2` scan it -/
theorem varExp_scanN (V : VarOK F X Y W) (caret : Bool) {e : Nat} (he : e ≠ 0) {Z : Cs}
    (hZ : ∀ c ∈ Z.head?, c.isDigit = false ∧ c ≠ '^') :
    ∃ r2, scanVar X Y (varPartN W caret e ++ Z) = some r2 ∧
      consumed (varPartN W caret e ++ Z) r2 = W ∧
      String.ofList (digits (dropCaret r2)) = expS e ∧ dropDigits (dropCaret r2) = Z := by
  rw [varPartN_pos W caret he, List.append_assoc]
  refine ⟨_, V.scan _, ?_, ?_⟩
  · rw [consumed_append, String.ofList_toList]
  · unfold expS
    by_cases h1 : e = 1
    · subst h1
      rw [if_pos rfl, List.nil_append, dropCaret_of_head (fun c hc => (hZ c hc).2),
        digits_of_head (fun c hc => (hZ c hc).1), dropDigits_of_head (fun c hc => (hZ c hc).1)]
      exact ⟨rfl, rfl⟩
    · rw [if_neg h1, if_neg (show ¬ e ≤ 1 by omega)]
      have hdc : dropCaret ((if caret then ['^'] else []) ++ (toString e).toList ++ Z) =
          (toString e).toList ++ Z := by
        cases caret with
        | true => exact dropCaret_caret _
        | false =>
          simp only [Bool.false_eq_true, if_false, List.nil_append]
          apply dropCaret_of_head
          obtain ⟨y, t, e'⟩ := List.exists_cons_of_ne_nil (toString_toList_ne_nil e)
          intro c hc; rw [e'] at hc; simp at hc; subst hc
          exact digit_ne_caret (toString_digits e y (by rw [e']; simp))
      rw [hdc, digits_append (toString_digits e) (fun c hc => (hZ c hc).1),
        dropDigits_append (toString_digits e) (fun c hc => (hZ c hc).1), String.ofList_toList]
      exact ⟨rfl, rfl⟩

theorem skipMult_varN (V : VarOK F X Y W) (caret : Bool) {e : Nat} (he : e ≠ 0) (Z : Cs) :
    skipMult (varPartN W caret e ++ Z) = varPartN W caret e ++ Z := by
  obtain ⟨w0, t, ht, hw0⟩ := varPartN_head V caret he Z
  obtain ⟨_, hws, _, hstar, _⟩ := alpha_facts hw0
  rw [ht]
  exact skipMult_of_head (by simpa using ⟨hws, hstar⟩)

theorem stop_varOK (V : VarOK F X Y W) (caret : Bool) {e : Nat} (he : e ≠ 0) (Z : Cs) :
    Stop (ovOf F) (varPartN W caret e ++ Z) := by
  obtain ⟨w0, wt, hw, hw0⟩ := V.head
  exact stop_varN hw hw0 V.un caret he Z

end

/-! ### one printed term in a notation; `A`, `a` the variable written first, `B`, `b` the second -/

def bstarPart (F : FOps α) (star : Bool) (c : α) (a b : Nat) : Cs :=
  if star = true ∧ bcoefPart F c a b ≠ [] ∧ (a ≠ 0 ∨ b ≠ 0) then ['*'] else []

def btermCharsN (F : FOps α) (A B : String) (caret star : Bool) (c : α) (a b : Nat) : Cs :=
  bcoefPart F c a b ++ (bstarPart F star c a b ++ (varPartN A caret a ++ varPartN B caret b))

theorem varPartN_zero (W : String) (caret : Bool) : varPartN W caret 0 = [] := by
  unfold varPartN; rw [if_pos rfl]

section
variable {F : FOps α} {Valid : α → Prop} {x y A B : String} {x0 y0 : Char} {xt yt : Cs}

theorem bstar_cases (F : FOps α) (star : Bool) (c : α) (a b : Nat) :
    bstarPart F star c a b = [] ∨
      (bstarPart F star c a b = ['*'] ∧ bcoefPart F c a b ≠ [] ∧ (a ≠ 0 ∨ b ≠ 0)) := by
  unfold bstarPart; split
  · rename_i h; exact Or.inr ⟨rfl, h.2.1, h.2.2⟩
  · exact Or.inl rfl

theorem skipMult_star_var {V : Cs} (hV : ∀ c ∈ V.head?, isWs c = false ∧ c ≠ '*') :
    skipMult ('*' :: V) = V := by
  have e1 : dropWs ('*' :: V) = '*' :: V := dropWs_of_head (by simp [isWs])
  show dropWs (dropStar (dropWs ('*' :: V))) = V
  rw [e1, dropStar_star]
  exact dropWs_of_head (fun c hc => (hV c hc).1)

/-- after the coefficient: the optional `*` and the variables -/
theorem bcoef_scanN (H : CoefRT F Valid) (VA : VarOK F x.toList y.toList A)
    (VB : VarOK F x.toList y.toList B) (caret star : Bool) {c : α} (hc : Valid c) (a b k : Nat)
    {Yt : Cs} (hY : TailN Yt) :
    let V := varPartN A caret a ++ varPartN B caret b ++ (spaces k ++ Yt)
    let q := btermCharsN F A B caret star c a b ++ (spaces k ++ Yt)
    (scanCoef (ovOf F) q).getD q = bstarPart F star c a b ++ V ∧
      consumed q (bstarPart F star c a b ++ V) = String.ofList (bcoefPart F c a b) ∧
      (bcoefPart F c a b = coefText F c → scanCoef (ovOf F) q = some (bstarPart F star c a b ++ V)) ∧
      skipMult (bstarPart F star c a b ++ V) = skipMult V := by
  dsimp only
  have hstV : Stop (ovOf F) (varPartN A caret a ++ varPartN B caret b ++ (spaces k ++ Yt)) := by
    by_cases ha : a = 0
    · subst ha
      rw [varPartN_zero, List.nil_append]
      by_cases hb : b = 0
      · subst hb; rw [varPartN_zero, List.nil_append]; exact stop_spaces_tail H k hY
      · exact stop_varOK VB caret hb _
    · rw [List.append_assoc]; exact stop_varOK VA caret ha _
  have hskip : skipMult (bstarPart F star c a b ++
      (varPartN A caret a ++ varPartN B caret b ++ (spaces k ++ Yt))) =
      skipMult (varPartN A caret a ++ varPartN B caret b ++ (spaces k ++ Yt)) := by
    rcases bstar_cases F star c a b with e | ⟨e, _, hab⟩
    · rw [e, List.nil_append]
    · rw [e]
      have hVh : ∃ w0 t, varPartN A caret a ++ varPartN B caret b ++ (spaces k ++ Yt) = w0 :: t ∧
          w0.isAlpha = true := by
        by_cases ha : a = 0
        · subst ha
          have hb : b ≠ 0 := by omega
          rw [varPartN_zero, List.nil_append]; exact varPartN_head VB caret hb _
        · rw [List.append_assoc]; exact varPartN_head VA caret ha _
      obtain ⟨w0, t, hw, hw0⟩ := hVh
      obtain ⟨_, hws, _, hstar, _⟩ := alpha_facts hw0
      have hh : ∀ c ∈ (w0 :: t).head?, isWs c = false ∧ c ≠ '*' := by simpa using ⟨hws, hstar⟩
      rw [hw]
      show skipMult ('*' :: (w0 :: t)) = skipMult (w0 :: t)
      rw [skipMult_star_var hh, skipMult_of_head hh]
  have hst : Stop (ovOf F) (bstarPart F star c a b ++
      (varPartN A caret a ++ varPartN B caret b ++ (spaces k ++ Yt))) := by
    rcases bstar_cases F star c a b with e | ⟨e, _, _⟩
    · rw [e, List.nil_append]; exact hstV
    · rw [e]; exact stop_star H _
  unfold btermCharsN
  simp only [List.append_assoc]
  simp only [List.append_assoc] at hst hskip
  refine ⟨?_, consumed_append _ _, ?_, hskip⟩
  · rcases bcoefPart_cases F c a b with e | ⟨e, hab, _⟩
    · rw [e, H.scan c hc _ hst]; rfl
    · have hs : bstarPart F star c a b = [] := by unfold bstarPart; rw [e]; simp
      rw [e, hs, List.nil_append, List.nil_append]
      by_cases ha : a = 0
      · subst ha
        have hb : b ≠ 0 := by omega
        obtain ⟨w0, wt, hw, hw0⟩ := VB.head
        rw [varPartN_zero, List.nil_append, varPartN_pos B caret hb, List.append_assoc]
        exact scanCoef_none_var H hw hw0 VB.un _
      · obtain ⟨w0, wt, hw, hw0⟩ := VA.head
        rw [varPartN_pos A caret ha, List.append_assoc]
        exact scanCoef_none_var H hw hw0 VA.un _
  · intro e
    rw [e, H.scan c hc _ hst]

/-- the second, optional variable group and the trailing blanks: nothing there -/
theorem second_noneN (hx : x.toList = x0 :: xt) (hx0 : x0.isAlpha = true)
    (hy : y.toList = y0 :: yt) (hy0 : y0.isAlpha = true) (k : Nat) {Yt : Cs} (hY : TailN Yt) :
    let r5 := skipMult (spaces k ++ Yt)
    let r6 := (scanVar x.toList y.toList r5).getD r5
    consumed r5 r6 = "" ∧ String.ofList (digits (dropCaret r6)) = "" ∧
      dropWs (dropDigits (dropCaret r6)) = Yt := by
  dsimp only
  rw [skipMult_spaces_tail k hY]
  obtain ⟨h1, h2, h3, h4, h5⟩ := tail_factsN hx hx0 hy hy0 hY
  rw [h1]
  simp only [Option.getD_none]
  rw [consumed_self, h2, h3, h4, h5]
  exact ⟨rfl, rfl, rfl⟩

/-- … a variable there -/
theorem second_varN (VB : VarOK F x.toList y.toList B) (caret : Bool) {b : Nat} (hb : b ≠ 0)
    (k : Nat) {Yt : Cs} (hY : TailN Yt) :
    let r5 := skipMult (varPartN B caret b ++ (spaces k ++ Yt))
    let r6 := (scanVar x.toList y.toList r5).getD r5
    consumed r5 r6 = B ∧ String.ofList (digits (dropCaret r6)) = expS b ∧
      dropWs (dropDigits (dropCaret r6)) = Yt := by
  dsimp only
  rw [skipMult_varN VB caret hb]
  obtain ⟨r2, h1, h2, h3, h4⟩ := varExp_scanN VB caret hb (Z := spaces k ++ Yt)
    (fun c hc => ⟨(spaces_tail_head k hY c hc).1, (spaces_tail_head k hY c hc).2.1⟩)
  rw [h1]
  simp only [Option.getD_some]
  rw [h2, h3, h4, dropWs_spaces_tail k hY]
  exact ⟨rfl, rfl, rfl⟩

/-- the match of `A1|A2` on a printed term in a notation -/
theorem bodyB_termN (H : CoefRT F Valid) (hx : x.toList = x0 :: xt) (hx0 : x0.isAlpha = true)
    (hy : y.toList = y0 :: yt) (hy0 : y0.isAlpha = true)
    (VA : VarOK F x.toList y.toList A) (VB : VarOK F x.toList y.toList B) (caret star : Bool)
    {c : α} (hc : Valid c) (a b k : Nat) {Yt : Cs} (hY : TailN Yt) :
    ∃ g2 g7 : String, g2 ++ g7 = String.ofList (bcoefPart F c a b) ∧
      bodyB (ovOf F) x.toList y.toList (btermCharsN F A B caret star c a b ++ (spaces k ++ Yt)) =
        some (#[g2, bv1 A B a b, bd1 a b, bv2 B a b, bd2 a b, g7], Yt) := by
  obtain ⟨hr0, hcons, hsome, hskip⟩ := bcoef_scanN H VA VB caret star hc a b k hY

  unfold bodyB
  dsimp only
  rw [hr0, hcons, hskip]
  by_cases ha : a = 0
  · by_cases hb : b = 0
    · -- constant term: the second alternative
      subst ha hb
      have hcoef : bcoefPart F c 0 0 = coefText F c := by unfold bcoefPart; rw [if_pos (by simp)]
      rw [hsome hcoef]
      simp only [varPartN_zero, List.nil_append]
      have ht := tail_factsN hx hx0 hy hy0 hY
      rw [skipMult_spaces_tail k hY, ht.1]
      dsimp only
      have hs : bstarPart F star c 0 0 = [] := by unfold bstarPart; simp
      refine ⟨"", String.ofList (bcoefPart F c 0 0), by simp, ?_⟩
      rw [hs, List.nil_append] at hcons ⊢
      simp only [varPartN_zero, List.nil_append] at hcons
      rw [hcons, dropWs_spaces_tail k hY]
      simp [bv1, bd1, bv2, bd2]
    · -- only the second variable
      subst ha
      simp only [varPartN_zero, List.nil_append]
      rw [skipMult_varN VB caret hb]
      obtain ⟨r2, h1, h2, h3, h4⟩ := varExp_scanN VB caret hb (Z := spaces k ++ Yt)
        (fun c hc => ⟨(spaces_tail_head k hY c hc).1, (spaces_tail_head k hY c hc).2.1⟩)
      rw [h1]
      dsimp only
      obtain ⟨k1, k2, k3⟩ := second_noneN hx hx0 hy hy0 k hY
      rw [h2, h3, h4, k1, k2, k3]
      exact ⟨String.ofList (bcoefPart F c 0 b), "", by simp, by simp [bv1, bd1, bv2, bd2, hb]⟩
  · -- the first variable is present
    rw [List.append_assoc, skipMult_varN VA caret ha]
    have hZ : ∀ c ∈ (varPartN B caret b ++ (spaces k ++ Yt)).head?, c.isDigit = false ∧ c ≠ '^' := by
      by_cases hb : b = 0
      · subst hb; rw [varPartN_zero, List.nil_append]
        exact fun c hc => ⟨(spaces_tail_head k hY c hc).1, (spaces_tail_head k hY c hc).2.1⟩
      · obtain ⟨w0, t, ht, hw0⟩ := varPartN_head VB caret hb (spaces k ++ Yt)
        obtain ⟨hd, _, _, _, hcar, _⟩ := alpha_facts hw0
        rw [ht]; simpa using ⟨hd, hcar⟩
    obtain ⟨r2, h1, h2, h3, h4⟩ := varExp_scanN VA caret ha hZ
    rw [h1]
    dsimp only
    rw [h2, h3, h4]
    by_cases hb : b = 0
    · subst hb
      rw [varPartN_zero, List.nil_append]
      obtain ⟨k1, k2, k3⟩ := second_noneN hx hx0 hy hy0 k hY
      rw [k1, k2, k3]
      exact ⟨String.ofList (bcoefPart F c a 0), "", by simp, by simp [bv1, bd1, bv2, bd2, ha]⟩
    · obtain ⟨k1, k2, k3⟩ := second_varN VB caret hb k hY
      rw [k1, k2, k3]
      exact ⟨String.ofList (bcoefPart F c a b), "", by simp, by simp [bv1, bd1, bv2, bd2, ha, hb]⟩


theorem btermCharsN_head (H : CoefRT F Valid) (VA : VarOK F x.toList y.toList A)
    (VB : VarOK F x.toList y.toList B) (caret star : Bool) {c : α} (hc : Valid c) (a b : Nat)
    (Z : Cs) :
    ∃ h t, btermCharsN F A B caret star c a b ++ Z = h :: t ∧ isWs h = false ∧ isSign h = false := by
  unfold btermCharsN
  rcases bcoefPart_cases F c a b with e | ⟨e, hab, _⟩
  · obtain ⟨h, t, h1, h2, h3⟩ := H.head c hc
    exact ⟨h, t ++ (bstarPart F star c a b ++ (varPartN A caret a ++ varPartN B caret b)) ++ Z,
      by rw [e, h1]; simp, h2, h3⟩
  · have hs : bstarPart F star c a b = [] := by unfold bstarPart; rw [e]; simp
    rw [e, hs, List.nil_append, List.nil_append]
    by_cases ha : a = 0
    · subst ha
      have hb : b ≠ 0 := by omega
      obtain ⟨w0, t, ht, hw0⟩ := varPartN_head VB caret hb Z
      obtain ⟨_, hws, hsg, _⟩ := alpha_facts hw0
      exact ⟨w0, t, by rw [varPartN_zero, List.nil_append, ht], hws, hsg⟩
    · obtain ⟨w0, t, ht, hw0⟩ := varPartN_head VA caret ha (varPartN B caret b ++ Z)
      obtain ⟨_, hws, hsg, _⟩ := alpha_facts hw0
      exact ⟨w0, t, by rw [List.append_assoc, ht], hws, hsg⟩

/-- the match of `tokB` on a printed term in a notation -/
theorem tokB_termN (H : CoefRT F Valid) (hx : x.toList = x0 :: xt) (hx0 : x0.isAlpha = true)
    (hy : y.toList = y0 :: yt) (hy0 : y0.isAlpha = true)
    (VA : VarOK F x.toList y.toList A) (VB : VarOK F x.toList y.toList B) (caret star : Bool)
    {c : α} (hc : Valid c) (a b k : Nat) {Yt : Cs} (hY : TailN Yt) (first : Bool) {pre : Cs}
    {sign : String}
    (hpre : (pre = [] ∧ first = true ∧ sign = "") ∨
      (∃ l, pre = '+' :: spaces l) ∧ first = false ∧ sign = "+") :
    ∃ full g2 g7 : String, g2 ++ g7 = String.ofList (bcoefPart F c a b) ∧
      tokB (ovOf F) x.toList y.toList first
          (pre ++ (btermCharsN F A B caret star c a b ++ (spaces k ++ Yt))) =
        some (#[full, sign, g2, bv1 A B a b, bd1 a b, bv2 B a b, bd2 a b, g7], Yt) := by
  obtain ⟨g2, g7, hg, hb⟩ := bodyB_termN H hx hx0 hy hy0 VA VB caret star hc a b k hY
  obtain ⟨h, t, hT, hws, hsg⟩ := btermCharsN_head H VA VB caret star hc a b (spaces k ++ Yt)
  have hdw : dropWs (btermCharsN F A B caret star c a b ++ (spaces k ++ Yt)) =
      btermCharsN F A B caret star c a b ++ (spaces k ++ Yt) := by
    rw [hT]; exact dropWs_of_head (by simpa using hws)
  rcases hpre with ⟨rfl, rfl, rfl⟩ | ⟨⟨l, rfl⟩, rfl, rfl⟩
  · refine ⟨consumed (btermCharsN F A B caret star c a b ++ (spaces k ++ Yt)) Yt, g2, g7, hg, ?_⟩
    unfold tokB
    simp only [List.nil_append, if_true]
    rw [hdw, hb]
    simp
  · refine ⟨consumed ('+' :: (spaces l ++ (btermCharsN F A B caret star c a b ++ (spaces k ++ Yt)))) Yt,
      g2, g7, hg, ?_⟩
    unfold tokB
    rw [List.cons_append]
    simp only [Bool.false_eq_true, if_false, isSign, beq_self_eq_true, Bool.true_or, if_true]
    rw [dropWs_spaces, hdw, hb]
    simp

/-- post-processing of a match whose first written variable is the ring's first variable -/
theorem b_go_termXY (H : CoefRT F Valid) {v0 v1 : String} (hv0 : v0 ≠ "") (hv1 : v1 ≠ "")
    (hne : v0 ≠ v1) (eA : UPoly.strLower A = v0) (eB : UPoly.strLower B = v1)
    (full sign g2 g7 : String) {c : α} (hc : Valid c) {a b : Nat}
    (hg : g2 ++ g7 = String.ofList (bcoefPart F c a b)) (hsign : sign ≠ "-") (ha : a < 2 ^ 64)
    (hb : b < 2 ^ 64) (t : List (Array String)) (out : List (Deg × α)) :
    BPoly.stringToMapRx.go F v0 v1
        (#[full, sign, g2, bv1 A B a b, bd1 a b, bv2 B a b, bd2 a b, g7] :: t) out =
      BPoly.stringToMapRx.go F v0 v1 t (UPoly.mapAdd F out (a, b) c) := by
  subst eA eB
  have hlx' : ("" : String) ≠ UPoly.strLower A := fun e => hv0 e.symm
  have hly' : ("" : String) ≠ UPoly.strLower B := fun e => hv1 e.symm
  have hne' : UPoly.strLower B ≠ UPoly.strLower A := fun e => hne e.symm
  have hsl : UPoly.strLower "" = "" := rfl
  rw [BPoly.stringToMapRx.go]
  simp only [List.size_toArray, List.length_cons, List.length_nil, ne_eq, not_true_eq_false,
    if_false, Nat.reduceAdd]
  have hget : ∀ (k : Nat) (hk : k < 8), (#[full, sign, g2, bv1 A B a b, bd1 a b, bv2 B a b, bd2 a b, g7] : Array String)[k]! =
      [full, sign, g2, bv1 A B a b, bd1 a b, bv2 B a b, bd2 a b, g7][k]! := by
    intro k hk; simp
  simp only [hget 1 (by omega), hget 2 (by omega), hget 3 (by omega), hget 4 (by omega),
    hget 5 (by omega), hget 6 (by omega), hget 7 (by omega)]
  simp only [List.getElem!_cons_succ, List.getElem!_cons_zero]
  rw [hg]
  rcases bcoefPart_cases F c a b with e | ⟨e, hij, h1⟩
  · obtain ⟨h, t', hh, _⟩ := H.head c hc
    have hne'' : String.ofList (coefText F c) ≠ "" := by
      rw [Ne, ofList_eq_empty_iff, hh]; simp
    rw [e]
    by_cases hi0 : a = 0
    · by_cases hj0 : b = 0
      · subst hi0 hj0
        simp [bv1, bd1, bv2, bd2, hne'', H.parse c hc, hsign, hsl, hlx', hly']
      · subst hi0
        have hpe := parseExponent_expS hj0 hb
        simp [bv1, bd1, bv2, bd2, hj0, hne'', H.parse c hc, hsign, hsl, hv1, hne', hpe]
    · have hpi := parseExponent_expS hi0 ha
      by_cases hj0 : b = 0
      · subst hj0
        simp [bv1, bd1, bv2, bd2, hi0, hne'', H.parse c hc, hsign, hsl, hv0, hpi]
      · have hpe := parseExponent_expS hj0 hb
        simp [bv1, bd1, bv2, bd2, hi0, hj0, hne'', H.parse c hc, hsign, hv0, hv1, hpi, hpe]
  · rw [e, ← H.one c hc h1]
    by_cases hi0 : a = 0
    · subst hi0
      have hj0 : b ≠ 0 := by omega
      have hpe := parseExponent_expS hj0 hb
      simp [bv1, bd1, bv2, bd2, hj0, hsign, hsl, hv1, hne', hpe]
    · have hpi := parseExponent_expS hi0 ha
      by_cases hj0 : b = 0
      · subst hj0
        simp [bv1, bd1, bv2, bd2, hi0, hsign, hsl, hv0, hpi]
      · have hpe := parseExponent_expS hj0 hb
        simp [bv1, bd1, bv2, bd2, hi0, hj0, hsign, hv0, hv1, hpi, hpe]

/-- post-processing of a match whose first written variable is the ring's SECOND variable
    (`ensureVariableOrder` swaps): the exponents come out as `(b, a)` -/
theorem b_go_termYX (H : CoefRT F Valid) {v0 v1 : String} (hv0 : v0 ≠ "") (hv1 : v1 ≠ "")
    (hne : v0 ≠ v1) (eA : UPoly.strLower A = v1) (eB : UPoly.strLower B = v0)
    (full sign g2 g7 : String) {c : α} (hc : Valid c) {a b : Nat}
    (hg : g2 ++ g7 = String.ofList (bcoefPart F c a b)) (hsign : sign ≠ "-") (ha : a < 2 ^ 64)
    (hb : b < 2 ^ 64) (t : List (Array String)) (out : List (Deg × α)) :
    BPoly.stringToMapRx.go F v0 v1
        (#[full, sign, g2, bv1 A B a b, bd1 a b, bv2 B a b, bd2 a b, g7] :: t) out =
      BPoly.stringToMapRx.go F v0 v1 t (UPoly.mapAdd F out (b, a) c) := by
  subst eA eB
  have hlx' : ("" : String) ≠ UPoly.strLower A := fun e => hv1 e.symm
  have hly' : ("" : String) ≠ UPoly.strLower B := fun e => hv0 e.symm
  have hne' : UPoly.strLower A ≠ UPoly.strLower B := fun e => hne e.symm
  have hsl : UPoly.strLower "" = "" := rfl
  rw [BPoly.stringToMapRx.go]
  simp only [List.size_toArray, List.length_cons, List.length_nil, ne_eq, not_true_eq_false,
    if_false, Nat.reduceAdd]
  have hget : ∀ (k : Nat) (hk : k < 8), (#[full, sign, g2, bv1 A B a b, bd1 a b, bv2 B a b, bd2 a b, g7] : Array String)[k]! =
      [full, sign, g2, bv1 A B a b, bd1 a b, bv2 B a b, bd2 a b, g7][k]! := by
    intro k hk; simp
  simp only [hget 1 (by omega), hget 2 (by omega), hget 3 (by omega), hget 4 (by omega),
    hget 5 (by omega), hget 6 (by omega), hget 7 (by omega)]
  simp only [List.getElem!_cons_succ, List.getElem!_cons_zero]
  rw [hg]
  rcases bcoefPart_cases F c a b with e | ⟨e, hij, h1⟩
  · obtain ⟨h, t', hh, _⟩ := H.head c hc
    have hne'' : String.ofList (coefText F c) ≠ "" := by
      rw [Ne, ofList_eq_empty_iff, hh]; simp
    rw [e]
    by_cases hi0 : a = 0
    · by_cases hj0 : b = 0
      · subst hi0 hj0
        simp [bv1, bd1, bv2, bd2, hne'', H.parse c hc, hsign, hsl, hlx', hly']
      · subst hi0
        have hpe := parseExponent_expS hj0 hb
        simp [bv1, bd1, bv2, bd2, hj0, hne'', H.parse c hc, hsign, hsl, hv0, hpe]
    · have hpi := parseExponent_expS hi0 ha
      by_cases hj0 : b = 0
      · subst hj0
        simp [bv1, bd1, bv2, bd2, hi0, hne'', H.parse c hc, hsign, hsl, hv1, hne', hpi]
      · have hpe := parseExponent_expS hj0 hb
        simp [bv1, bd1, bv2, bd2, hi0, hj0, hne'', H.parse c hc, hsign, hv0, hv1, hne', hpi, hpe]
  · rw [e, ← H.one c hc h1]
    by_cases hi0 : a = 0
    · subst hi0
      have hj0 : b ≠ 0 := by omega
      have hpe := parseExponent_expS hj0 hb
      simp [bv1, bd1, bv2, bd2, hj0, hsign, hsl, hv0, hpe]
    · have hpi := parseExponent_expS hi0 ha
      by_cases hj0 : b = 0
      · subst hj0
        simp [bv1, bd1, bv2, bd2, hi0, hsign, hsl, hv1, hne', hpi]
      · have hpe := parseExponent_expS hj0 hb
        simp [bv1, bd1, bv2, bd2, hi0, hj0, hsign, hv0, hv1, hne', hpi, hpe]

end

/-! ### term lists in a notation -/

/-- what the round trip needs of the ring variables `x`, `y` and their written forms `x'`, `y'` -/
structure BNamesN (F : FOps α) (x y x' y' : String) : Prop where
  hx : ∃ x0 xt, x.toList = x0 :: xt ∧ x0.isAlpha = true
  hy : ∃ y0 yt, y.toList = y0 :: yt ∧ y0.isAlpha = true
  Vx : VarOK F x.toList y.toList x'
  Vy : VarOK F x.toList y.toList y'
  lx : UPoly.strLower x' = UPoly.strLower x
  ly : UPoly.strLower y' = UPoly.strLower y
  ne : UPoly.strLower x ≠ UPoly.strLower y

/-- one term of a notation: `yf` = the second ring variable is written first -/
def btermN (F : FOps α) (x' y' : String) (caret star yf : Bool) (t : α × Deg) : Cs :=
  if yf then btermCharsN F y' x' caret star t.1 t.2.2 t.2.1
  else btermCharsN F x' y' caret star t.1 t.2.1 t.2.2

section
variable {F : FOps α} {Valid : α → Prop} {x y x' y' : String}

/-- one step of the loops in a notation -/
theorem tok_stepN (H : CoefRT F Valid) (N : BNamesN F x y x' y') (caret star yf : Bool)
    (k l : Nat) (t : α × Deg) (ts : List (α × Deg)) (hc : Valid t.1) (hi : t.2.1 < 2 ^ 64)
    (hj : t.2.2 < 2 ^ 64) (first : Bool) {pre : Cs} {sign : String}
    (hpre : (pre = [] ∧ first = true ∧ sign = "") ∨
      (pre = '+' :: spaces l ∧ first = false ∧ sign = "+")) :
    ∃ g Yt, tokB (ovOf F) x.toList y.toList first
          (pre ++ joinS (sepN k l) ((t :: ts).map (btermN F x' y' caret star yf))) = some (g, Yt) ∧
      (Yt = if ts = [] then [] else
        ('+' :: spaces l) ++ joinS (sepN k l) (ts.map (btermN F x' y' caret star yf))) ∧
      Yt.length < (pre ++ joinS (sepN k l) ((t :: ts).map (btermN F x' y' caret star yf))).length ∧
      (pre ++ joinS (sepN k l) ((t :: ts).map (btermN F x' y' caret star yf))).isEmpty = false ∧
      ∀ ms out, BPoly.stringToMapRx.go F (UPoly.strLower x) (UPoly.strLower y) (g :: ms) out =
        BPoly.stringToMapRx.go F (UPoly.strLower x) (UPoly.strLower y) ms
          (UPoly.mapAdd F out t.2 t.1) := by
  obtain ⟨x0, xt, hx, hx0⟩ := N.hx
  obtain ⟨y0, yt, hy, hy0⟩ := N.hy
  have hlx := strLower_ne_empty hx
  have hly := strLower_ne_empty hy
  rw [List.map_cons, joinS_cons]
  -- the rest after this term, as blanks followed by a tail
  obtain ⟨k', Yt, hrest, hY, hYlen, hYform⟩ : ∃ k' Yt,
      restS (sepN k l) (ts.map (btermN F x' y' caret star yf)) = spaces k' ++ Yt ∧ TailN Yt ∧
      Yt.length ≤ (restS (sepN k l) (ts.map (btermN F x' y' caret star yf))).length ∧
      (Yt = if ts = [] then [] else
        ('+' :: spaces l) ++ joinS (sepN k l) (ts.map (btermN F x' y' caret star yf))) := by
    by_cases h0 : ts = []
    · subst h0
      exact ⟨0, [], by simp [restS, spaces], Or.inl rfl, by simp, by simp⟩
    · have hm : ts.map (btermN F x' y' caret star yf) ≠ [] := by simpa using h0
      refine ⟨k, '+' :: spaces l ++ joinS (sepN k l) (ts.map (btermN F x' y' caret star yf)), ?_,
        Or.inr ⟨_, rfl⟩, ?_, ?_⟩
      · simp [restS, hm, sepN]
      · simp [restS, hm, sepN]
      · simp [h0]
  rw [hrest]
  have hsign : sign ≠ "-" := by
    rcases hpre with ⟨_, _, rfl⟩ | ⟨_, _, rfl⟩ <;> decide
  have hpre' : (pre = [] ∧ first = true ∧ sign = "") ∨
      ((∃ l', pre = '+' :: spaces l') ∧ first = false ∧ sign = "+") :=
    hpre.imp id (fun h => ⟨⟨l, h.1⟩, h.2.1, h.2.2⟩)
  cases yf with
  | false =>
    have hterm : btermN F x' y' caret star false t =
        btermCharsN F x' y' caret star t.1 t.2.1 t.2.2 := by simp [btermN]
    rw [hterm]
    obtain ⟨full, g2, g7, hg, htok⟩ := tokB_termN H hx hx0 hy hy0 N.Vx N.Vy caret star hc
      t.2.1 t.2.2 k' hY first hpre'
    obtain ⟨h, tl, hT, _⟩ := btermCharsN_head H N.Vx N.Vy caret star hc t.2.1 t.2.2 []
    rw [List.append_nil] at hT
    refine ⟨_, Yt, htok, hYform, ?_, ?_, ?_⟩
    · have : (btermCharsN F x' y' caret star t.1 t.2.1 t.2.2).length = tl.length + 1 := by
        rw [hT]; rfl
      simp only [List.length_append]; omega
    · rw [hT]; cases pre <;> rfl
    · intro ms out
      exact b_go_termXY H hlx hly N.ne N.lx N.ly full sign g2 g7 hc hg hsign hi hj ms out
  | true =>
    have hterm : btermN F x' y' caret star true t =
        btermCharsN F y' x' caret star t.1 t.2.2 t.2.1 := by simp [btermN]
    rw [hterm]
    obtain ⟨full, g2, g7, hg, htok⟩ := tokB_termN H hx hx0 hy hy0 N.Vy N.Vx caret star hc
      t.2.2 t.2.1 k' hY first hpre'
    obtain ⟨h, tl, hT, _⟩ := btermCharsN_head H N.Vy N.Vx caret star hc t.2.2 t.2.1 []
    rw [List.append_nil] at hT
    refine ⟨_, Yt, htok, hYform, ?_, ?_, ?_⟩
    · have : (btermCharsN F y' x' caret star t.1 t.2.2 t.2.1).length = tl.length + 1 := by
        rw [hT]; rfl
      simp only [List.length_append]; omega
    · rw [hT]; cases pre <;> rfl
    · intro ms out
      exact b_go_termYX H hlx hly N.ne N.ly N.lx full sign g2 g7 hc hg hsign hj hi ms out

theorem loopB_termsN (H : CoefRT F Valid) (N : BNamesN F x y x' y') (caret star yf : Bool)
    (k l : Nat) :
    ∀ (ts : List (α × Deg)), ts ≠ [] → (∀ t ∈ ts, Valid t.1 ∧ t.2.1 < 2 ^ 64 ∧ t.2.2 < 2 ^ 64) →
    ∀ (f : Nat) (out : List (Deg × α)),
    (('+' :: spaces l) ++ joinS (sepN k l) (ts.map (btermN F x' y' caret star yf))).length ≤ f →
    ∃ ms, loopB (ovOf F) x.toList y.toList f
        (('+' :: spaces l) ++ joinS (sepN k l) (ts.map (btermN F x' y' caret star yf))) = some ms ∧
      BPoly.stringToMapRx.go F (UPoly.strLower x) (UPoly.strLower y) ms out =
        .ok (ts.foldl (fun o t => UPoly.mapAdd F o t.2 t.1) out) := by
  intro ts
  induction ts with
  | nil => intro h; exact absurd rfl h
  | cons t ts ih =>
    intro _ hts f out hf
    obtain ⟨hc, hi, hj⟩ := hts t (by simp)
    obtain ⟨g, Yt, htok, hYform, hlt, hs, hgo⟩ := tok_stepN H N caret star yf k l t ts hc hi hj
      false (Or.inr ⟨rfl, rfl, rfl⟩)
    cases f with
    | zero => rw [List.isEmpty_eq_false_iff] at hs; exact absurd (List.length_eq_zero_iff.1 (by omega)) hs
    | succ f =>
      rw [loopB, hs, htok]
      simp only [Bool.false_eq_true, if_false, hlt, if_true]
      by_cases hl0 : ts = []
      · subst hl0
        rw [hYform]
        simp only [if_true]
        rw [loopB_nil]
        refine ⟨[g], rfl, ?_⟩
        rw [hgo]
        simp [BPoly.stringToMapRx.go]
      · rw [hYform, if_neg hl0] at hlt ⊢
        obtain ⟨ms, h1, h2⟩ := ih hl0 (fun e he => hts e (by simp [he])) f
          (UPoly.mapAdd F out t.2 t.1) (by omega)
        refine ⟨g :: ms, by rw [h1]; rfl, ?_⟩
        rw [hgo, h2]
        simp

/-- all matches of a term list printed in a notation, post-processed -/
theorem matchesB_termsN (H : CoefRT F Valid) (N : BNamesN F x y x' y') (caret star yf : Bool)
    (k l : Nat) {ts : List (α × Deg)} (hne : ts ≠ [])
    (hts : ∀ t ∈ ts, Valid t.1 ∧ t.2.1 < 2 ^ 64 ∧ t.2.2 < 2 ^ 64) {s : String}
    (hs : s.toList = joinS (sepN k l) (ts.map (btermN F x' y' caret star yf))) :
    ∃ ms, matchesB F.ownVar x y s = some ms ∧
      BPoly.stringToMapRx.go F (UPoly.strLower x) (UPoly.strLower y) ms [] =
        .ok (ts.foldl (fun o t => UPoly.mapAdd F o t.2 t.1) []) := by
  obtain ⟨t, ts', rfl⟩ := List.exists_cons_of_ne_nil hne
  obtain ⟨hc, hi, hj⟩ := hts t (by simp)
  obtain ⟨g, Yt, htok, hYform, hlt, hse, hgo⟩ := tok_stepN H N caret star yf k l t ts' hc hi hj
    true (Or.inl ⟨rfl, rfl, rfl⟩)
  rw [List.nil_append] at htok hlt hse
  unfold matchesB
  dsimp only
  rw [hs]
  have hov : Option.map String.toList F.ownVar = ovOf F := rfl
  rw [hov, htok]
  simp only [hlt, if_true]
  by_cases hl0 : ts' = []
  · subst hl0
    rw [hYform]
    simp only [if_true]
    rw [loopB_nil]
    refine ⟨[g], rfl, ?_⟩
    rw [hgo]
    simp [BPoly.stringToMapRx.go]
  · rw [hYform, if_neg hl0] at hlt ⊢
    obtain ⟨ms, h1, h2⟩ := loopB_termsN H N caret star yf k l ts' hl0
      (fun e he => hts e (by simp [he])) _ (UPoly.mapAdd F [] t.2 t.1) (Nat.le_of_lt hlt)
    refine ⟨g :: ms, by rw [h1]; rfl, ?_⟩
    rw [hgo, h2]
    simp

end

end Algobra.ParseRT
