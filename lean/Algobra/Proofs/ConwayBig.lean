/-
  Proofs/ConwayBig.lean — kernel-checked soundness of the fast Rabin checker
  `Certs/CheckerBig.lean` (thorough tier of property C04; not imported by the default build).

  Main result: `rabinOKBig_sound : shapeOK e → e.1.Prime → rabinOKBig e cert = true →
  Irreducible (toPolyZMod e.1 e.2.2)` — the same conclusion as `rabinOK_sound`, obtained from the
  same criterion `rabin_irreducible`.  No `native_decide` in this file.

  Idea of the proof of the multiplication `mulmodK`: packing `packL B` is additive and
  multiplicative w.r.t. the (unreduced, ℕ-coefficient) list operations `addN`, `convL`;
  unpacking a packed list whose entries are all `< B` gives the list back; so the unpacked
  `C + Q'·F` evaluates at the root `α` of `f` to `ev a · ev b + ev q' · ev f = ev a · ev b`,
  whatever the quotient estimate `q'` is.
-/
import Algobra.Proofs.Conway
import Algobra.Certs.CheckerBig

open Polynomial

namespace Algobra.C04
open Algobra Algobra.C04Check

/-! ## unreduced list arithmetic (proof-only) -/

/-- coefficientwise sum, no reduction -/
def addN : List ℕ → List ℕ → List ℕ
  | [], b => b
  | a, [] => a
  | x :: a, y :: b => (x + y) :: addN a b

def scaleN (x : ℕ) (b : List ℕ) : List ℕ := b.map (fun y => x * y)

/-- polynomial product over ℕ, no reduction -/
def convL : List ℕ → List ℕ → List ℕ
  | [], _ => []
  | x :: a, b => addN (scaleN x b) (0 :: convL a b)

theorem packL_addN (B : ℕ) : ∀ a b : List ℕ, packL B (addN a b) = packL B a + packL B b
  | [], b => by simp [addN, packL]
  | x :: a, [] => by simp [addN, packL]
  | x :: a, y :: b => by simp only [addN, packL, packL_addN B a b]; ring

theorem packL_scaleN (B x : ℕ) (b : List ℕ) : packL B (scaleN x b) = x * packL B b := by
  induction b with
  | nil => simp [scaleN, packL]
  | cons y b ih =>
    have : scaleN x (y :: b) = (x * y) :: scaleN x b := rfl
    rw [this, packL, packL, ih]; ring

theorem packL_convL (B : ℕ) : ∀ a b : List ℕ, packL B (convL a b) = packL B a * packL B b
  | [], b => by simp [convL, packL]
  | x :: a, b => by
    rw [convL, packL_addN, packL_scaleN, packL, packL, packL_convL B a b]; ring

section EvN
variable {R : Type*} [CommRing R] {α : R}

theorem ev_addN : ∀ a b : List ℕ, ev α (addN a b) = ev α a + ev α b
  | [], b => by simp [addN, ev]
  | x :: a, [] => by simp [addN, ev]
  | x :: a, y :: b => by simp only [addN, ev, ev_addN a b]; push_cast; ring

theorem ev_scaleN (x : ℕ) (b : List ℕ) : ev α (scaleN x b) = x * ev α b := by
  induction b with
  | nil => simp [scaleN, ev]
  | cons y b ih =>
    have : scaleN x (y :: b) = (x * y) :: scaleN x b := rfl
    rw [this, ev, ev, ih]; push_cast; ring

theorem ev_convL : ∀ a b : List ℕ, ev α (convL a b) = ev α a * ev α b
  | [], b => by simp [convL, ev]
  | x :: a, b => by
    rw [convL, ev_addN, ev_scaleN, ev, ev, ev_convL a b]; push_cast; ring

end EvN

/-! ## bounds and lengths -/

theorem length_addN : ∀ a b : List ℕ, (addN a b).length = max a.length b.length
  | [], b => by simp [addN]
  | x :: a, [] => by simp [addN]
  | x :: a, y :: b => by simp [addN, length_addN a b]

theorem length_scaleN (x : ℕ) (b : List ℕ) : (scaleN x b).length = b.length := by
  simp [scaleN]

theorem length_convL_le : ∀ a b : List ℕ, (convL a b).length ≤ a.length + b.length
  | [], b => by simp [convL]
  | x :: a, b => by
    have := length_convL_le a b
    simp only [convL, length_addN, length_scaleN, List.length_cons]
    omega

theorem bdd_addN {M N : ℕ} : ∀ a b : List ℕ, (∀ c ∈ a, c ≤ M) → (∀ c ∈ b, c ≤ N) →
    ∀ c ∈ addN a b, c ≤ M + N
  | [], b, _, hb => fun c hc => by
    simp only [addN] at hc; exact (hb c hc).trans (Nat.le_add_left _ _)
  | x :: a, [], ha, _ => fun c hc => by
    simp only [addN] at hc; exact (ha c hc).trans (Nat.le_add_right _ _)
  | x :: a, y :: b, ha, hb => fun c hc => by
    simp only [addN, List.mem_cons] at hc
    rcases hc with rfl | hc
    · exact Nat.add_le_add (ha x (by simp)) (hb y (by simp))
    · exact bdd_addN a b (fun c hc => ha c (by simp [hc])) (fun c hc => hb c (by simp [hc])) c hc

theorem bdd_scaleN {P M x : ℕ} {b : List ℕ} (hx : x ≤ P) (hb : ∀ c ∈ b, c ≤ M) :
    ∀ c ∈ scaleN x b, c ≤ P * M := by
  intro c hc
  simp only [scaleN, List.mem_map] at hc
  obtain ⟨y, hy, rfl⟩ := hc
  exact Nat.mul_le_mul hx (hb y hy)

theorem bdd_convL {P : ℕ} : ∀ a b : List ℕ, (∀ c ∈ a, c ≤ P) → (∀ c ∈ b, c ≤ P) →
    ∀ c ∈ convL a b, c ≤ a.length * (P * P)
  | [], b, _, _ => fun c hc => by simp [convL] at hc
  | x :: a, b, ha, hb => by
    have ih := bdd_convL a b (fun c hc => ha c (by simp [hc])) hb
    have h1 := bdd_scaleN (ha x (by simp)) hb
    have h2 : ∀ c ∈ 0 :: convL a b, c ≤ a.length * (P * P) := by
      intro c hc
      rcases List.mem_cons.mp hc with rfl | hc
      · exact Nat.zero_le _
      · exact ih c hc
    intro c hc
    rw [convL] at hc
    have := bdd_addN _ _ h1 h2 c hc
    simp only [List.length_cons]
    calc c ≤ P * P + a.length * (P * P) := this
      _ = (a.length + 1) * (P * P) := by ring

/-! ## unpacking -/

theorem length_unpackL (B : ℕ) : ∀ (m N : ℕ), (unpackL B m N).length = m
  | 0, _ => rfl
  | m + 1, N => by simp [unpackL, length_unpackL B m]

section EvU
variable {R : Type*} [CommRing R] {α : R}

theorem ev_unpackL_zero (B : ℕ) : ∀ m : ℕ, ev α (unpackL B m 0) = 0
  | 0 => rfl
  | m + 1 => by simp [unpackL, ev, ev_unpackL_zero B m]

/-- unpacking a packed list with entries `< B` evaluates like the list -/
theorem ev_unpack_pack {B : ℕ} : ∀ (m : ℕ) (l : List ℕ), (∀ c ∈ l, c < B) → l.length ≤ m →
    ev α (unpackL B m (packL B l)) = ev α l
  | m, [], _, _ => by simp [packL, ev_unpackL_zero, ev]
  | 0, c :: l, _, h => by simp at h
  | m + 1, c :: l, hl, h => by
    have hc : c < B := hl c (by simp)
    have hB : 0 < B := by omega
    have h1 : (c + B * packL B l) % B = c := by
      rw [Nat.add_mul_mod_self_left, Nat.mod_eq_of_lt hc]
    have h2 : (c + B * packL B l) / B = packL B l := by
      rw [Nat.add_mul_div_left _ _ hB, Nat.div_eq_of_lt hc, Nat.zero_add]
    rw [packL, unpackL, h1, h2, ev, ev,
      ev_unpack_pack m l (fun c hc => hl c (by simp [hc])) (by simpa using h)]

theorem ev_modL {p : ℕ} (hp : (p : R) = 0) (l : List ℕ) : ev α (modL p l) = ev α l := by
  induction l with
  | nil => rfl
  | cons c l ih =>
    have : modL p (c :: l) = (c % p) :: modL p l := rfl
    rw [this, ev, ev, ih, cast_mod_eq hp]

end EvU

theorem length_modL (p : ℕ) (l : List ℕ) : (modL p l).length = l.length := by simp [modL]

theorem lt_of_mem_modL {p : ℕ} (hp0 : 0 < p) {l : List ℕ} : ∀ x ∈ modL p l, x < p := by
  intro x hx
  simp only [modL, List.mem_map] at hx
  obtain ⟨y, -, rfl⟩ := hx
  exact Nat.mod_lt _ hp0

theorem length_negL (p : ℕ) (l : List ℕ) : (negL p l).length = l.length := by simp [negL]

theorem lt_of_mem_negL {p : ℕ} (hp0 : 0 < p) {l : List ℕ} : ∀ x ∈ negL p l, x < p := by
  intro x hx
  simp only [negL, List.mem_map] at hx
  obtain ⟨y, -, rfl⟩ := hx
  exact Nat.mod_lt _ hp0

/-! ## the fast multiplication -/

/-- a reduced residue: `n` coefficients, all `< p` -/
def Good (p n : ℕ) (l : List ℕ) : Prop := l.length = n ∧ ∀ x ∈ l, x < p

theorem good_modL {p n : ℕ} (hp0 : 0 < p) {l : List ℕ} (h : l.length = n) : Good p n (modL p l) :=
  ⟨by rw [length_modL, h], lt_of_mem_modL hp0⟩

/-- what the soundness proof needs to know about the per-entry constants: `α` is a root of the
    polynomial packed in `c.F`, in a ring of characteristic `p`, and the base is large enough.
    (Nothing about `c.MU`, `c.Bn`, `c.Bn2`: they only steer the quotient estimate.) -/
structure CtxOK {R : Type*} [CommRing R] (c : BigCtx) (α : R) (fl : List ℕ) : Prop where
  hp : (c.p : R) = 0
  hp2 : 2 ≤ c.p
  hn : 1 ≤ c.n
  hrel : α ^ c.n = ev α c.negf
  hnf : c.negf.length = c.n
  hF : c.F = packL c.B fl
  hfl : ∀ x ∈ fl, x < c.p
  hfllen : fl.length = c.n + 1
  hfev : ev α fl = 0
  hB : 2 * c.n * c.p * c.p < c.B

section Mul
variable {R : Type*} [CommRing R] {α : R} {c : BigCtx} {fl : List ℕ}

/-- the heart: for ANY quotient estimate `q'` (entries `< p`, at most `n - 1` of them) the
    unpacked `C + Q'·F`, reduced modulo `p`, evaluates to the product -/
theorem ev_fast (hc : CtxOK c α fl) {a b : List ℕ} (ha : Good c.p c.n a) (hb : Good c.p c.n b)
    {q' : List ℕ} (hql : q'.length = c.n - 1) (hq : ∀ x ∈ q', x < c.p) :
    ev α (modL c.p (unpackL c.B (2 * c.n)
      (packL c.B a * packL c.B b + packL c.B q' * c.F))) = ev α a * ev α b := by
  have hn := hc.hn
  have hpack : packL c.B a * packL c.B b + packL c.B q' * c.F =
      packL c.B (addN (convL a b) (convL q' fl)) := by
    rw [packL_addN, packL_convL, packL_convL, hc.hF]
  have hle : ∀ {l : List ℕ}, (∀ x ∈ l, x < c.p) → ∀ x ∈ l, x ≤ c.p :=
    fun h x hx => (h x hx).le
  have hbd : ∀ x ∈ addN (convL a b) (convL q' fl), x < c.B := by
    intro x hx
    have h1 := bdd_addN _ _ (bdd_convL a b (hle ha.2) (hle hb.2))
      (bdd_convL q' fl (hle hq) (hle hc.hfl)) x hx
    rw [ha.1, hql] at h1
    have h2 : c.n * (c.p * c.p) + (c.n - 1) * (c.p * c.p) ≤ 2 * c.n * c.p * c.p := by
      have : (c.n - 1) * (c.p * c.p) ≤ c.n * (c.p * c.p) :=
        Nat.mul_le_mul_right _ (Nat.sub_le _ _)
      calc c.n * (c.p * c.p) + (c.n - 1) * (c.p * c.p)
          ≤ c.n * (c.p * c.p) + c.n * (c.p * c.p) := Nat.add_le_add_left this _
        _ = 2 * c.n * c.p * c.p := by ring
    exact lt_of_le_of_lt (h1.trans h2) hc.hB
  have hlen : (addN (convL a b) (convL q' fl)).length ≤ 2 * c.n := by
    have h1 := length_convL_le a b
    have h2 := length_convL_le q' fl
    rw [ha.1, hb.1] at h1
    rw [hql, hc.hfllen] at h2
    rw [length_addN]
    omega
  rw [ev_modL hc.hp, hpack, ev_unpack_pack _ _ hbd hlen, ev_addN, ev_convL, ev_convL, hc.hfev]
  ring

theorem mulmodK_spec (hc : CtxOK c α fl) {a b : List ℕ} (ha : Good c.p c.n a)
    (hb : Good c.p c.n b) :
    Good c.p c.n (mulmodK c a b) ∧ ev α (mulmodK c a b) = ev α a * ev α b := by
  have hp0 : 0 < c.p := by have := hc.hp2; omega
  have hfast := ev_fast hc ha hb
    (q' := negL c.p (unpackL c.B (c.n - 1)
      (packL c.B a * packL c.B b / c.Bn * c.MU / c.Bn2)))
    (by rw [length_negL, length_unpackL]) (lt_of_mem_negL hp0)
  unfold mulmodK mulmodP
  simp only []
  set r := modL c.p (unpackL c.B (2 * c.n) (packL c.B a * packL c.B b +
    packL c.B (negL c.p (unpackL c.B (c.n - 1)
      (packL c.B a * packL c.B b / c.Bn * c.MU / c.Bn2))) * c.F)) with hr
  have hrlen : r.length = 2 * c.n := by rw [hr, length_modL, length_unpackL]
  have hrlt : ∀ x ∈ r, x < c.p := by rw [hr]; exact lt_of_mem_modL hp0
  clear_value r
  split
  · rename_i hz
    have htl : (r.take c.n).length = c.n := by rw [List.length_take, hrlen]; omega
    refine ⟨⟨htl, fun x hx => hrlt x (List.mem_of_mem_take hx)⟩, ?_⟩
    rw [← hfast]
    conv_rhs => rw [← List.take_append_drop c.n r, ev_append, ev_of_isZeroL hc.hp _ hz]
    simp
  · refine ⟨good_modL hp0 (length_mulL hc.hnf a b hb.1), ?_⟩
    rw [ev_modL hc.hp, ev_mulL hc.hp hc.hrel hc.hnf a b hb.1]

/-! ## powers and Frobenius iterates -/

theorem good_oneL (hc : CtxOK c α fl) : Good c.p c.n (oneL c.n) := by
  refine ⟨length_oneL hc.hn, fun x hx => ?_⟩
  have := hc.hp2
  simp only [oneL, List.mem_cons, List.mem_replicate] at hx
  rcases hx with rfl | ⟨-, rfl⟩ <;> omega

theorem good_xL (hc : CtxOK c α fl) (hn2 : 2 ≤ c.n) : Good c.p c.n (xL c.n) := by
  refine ⟨length_xL hn2, fun x hx => ?_⟩
  have := hc.hp2
  simp only [xL, List.mem_cons, List.mem_replicate] at hx
  rcases hx with rfl | rfl | ⟨-, rfl⟩ <;> omega

theorem powK_spec (hc : CtxOK c α fl) {a : List ℕ} (ha : Good c.p c.n a) :
    ∀ e, Good c.p c.n (powK c a e) ∧ ev α (powK c a e) = ev α a ^ e := by
  intro e
  induction e using Nat.strong_induction_on with
  | _ e ih =>
    rw [powK]
    split
    · rename_i h; subst h
      exact ⟨good_oneL hc, by simp [ev_oneL]⟩
    · split
      · rename_i h1; subst h1
        exact ⟨ha, by simp⟩
      · rename_i h h1
        obtain ⟨hg, hv⟩ := ih (e / 2) (by omega)
        obtain ⟨hg2, hv2⟩ := mulmodK_spec hc hg hg
        have he : e = e / 2 + e / 2 + e % 2 := by omega
        simp only
        split
        · rename_i h2
          obtain ⟨hg3, hv3⟩ := mulmodK_spec hc hg2 ha
          refine ⟨hg3, ?_⟩
          rw [hv3, hv2, hv]
          conv_rhs => rw [he, h2, pow_add, pow_add, pow_one]
        · rename_i h2
          have h0 : e % 2 = 0 := by omega
          refine ⟨hg2, ?_⟩
          rw [hv2, hv]
          conv_rhs => rw [he, h0, pow_add, pow_add, pow_zero, mul_one]

theorem frobK_spec (hc : CtxOK c α fl) (hn2 : 2 ≤ c.n) :
    ∀ k, Good c.p c.n ((fun y => powK c y c.p)^[k] (xL c.n)) ∧
      ev α ((fun y => powK c y c.p)^[k] (xL c.n)) = α ^ c.p ^ k := by
  intro k
  induction k with
  | zero => exact ⟨good_xL hc hn2, by simp [ev_xL]⟩
  | succ k ih =>
    rw [Function.iterate_succ_apply']
    obtain ⟨h1, h2⟩ := powK_spec hc ih.1 c.p
    exact ⟨h1, by rw [h2, ih.2, ← pow_mul, ← pow_succ]⟩

end Mul

/-! ## soundness of the fast Rabin check -/

/-- **soundness of `rabinOKBig`** (same conclusion as `rabinOK_sound`) -/
theorem rabinOKBig_sound (e : Entry) (cert : List (ℕ × List ℕ)) (hs : shapeOK e = true)
    (hp : e.1.Prime) (h : rabinOKBig e cert = true) : Irreducible (toPolyZMod e.1 e.2.2) := by
  obtain ⟨p, n, cs⟩ := e
  simp only at hs hp h ⊢
  have := Fact.mk hp
  obtain ⟨hp2, hn1, hlen, hlt, hlast⟩ := (shapeOK_iff _).mp hs
  simp only at hp2 hn1 hlen hlt hlast
  obtain ⟨hmonic, hdeg⟩ := toPolyZMod_monic_natDegree (p := p) hlen hlast
  have hp0 := natCast_self_adjoinRoot (toPolyZMod p cs)
  have hnf : (negfOf p n cs).length = n := by
    simp only [negfOf, List.length_map, List.length_take, hlen]; omega
  have hrel := root_pow_eq hp hlen hlast
  have hfr : ∀ (c : BigCtx) i, i ≤ n →
      (iterList (fun y => powK c y p) n (xL n)).toArray[i]? =
        some ((fun y => powK c y p)^[i] (xL n)) := by
    intro c i hi
    rw [List.getElem?_toArray, iterList_getElem? _ _ _ _ hi]
  simp only [rabinOKBig, Bool.and_eq_true, decide_eq_true_eq, hfr _ n le_rfl, List.all_eq_true,
    List.mem_range] at h
  generalize hcdef : mkCtx (p, n, cs) ((cert.lookup 0).getD []) = c at h
  obtain ⟨⟨⟨hn2, hB⟩, hfrob⟩, hall⟩ := h
  have hcp : c.p = p := by rw [← hcdef]; rfl
  have hcn : c.n = n := by rw [← hcdef]; rfl
  have hc : CtxOK c (AdjoinRoot.root (toPolyZMod p cs)) cs :=
    { hp := by rw [hcp]; exact hp0
      hp2 := by rw [hcp]; exact hp2
      hn := by rw [hcn]; exact hn1
      hrel := by rw [hcn, ← hcdef]; exact hrel
      hnf := by rw [hcn, ← hcdef]; exact hnf
      hF := by rw [← hcdef]; rfl
      hfl := by rw [hcp]; exact hlt
      hfllen := by rw [hcn]; exact hlen
      hfev := by rw [ev_root_eq_mk, AdjoinRoot.mk_self]
      hB := by rw [hcp, hcn]; exact hB }
  have hspec := frobK_spec hc (by rw [hcn]; exact hn2)
  rw [hcp, hcn] at hspec
  have hmk : ∀ k, AdjoinRoot.mk (toPolyZMod p cs) (X ^ p ^ k - X) =
      AdjoinRoot.root (toPolyZMod p cs) ^ p ^ k - AdjoinRoot.root (toPolyZMod p cs) := by
    intro k; rw [map_sub, map_pow, AdjoinRoot.mk_X]
  apply rabin_irreducible _ hdeg hn1
  · rw [← AdjoinRoot.mk_eq_zero, hmk, ← (hspec n).2]
    have := ev_of_isZeroL (α := AdjoinRoot.root (toPolyZMod p cs)) hp0 _ hfrob
    rw [ev_addL hp0, ev_negxL hp0 hp.pos] at this
    linear_combination this
  · intro r hr hrn
    have hrle : r ≤ n := Nat.le_of_dvd (by omega) hrn
    have h1 := hall r (by omega)
    rw [isPrimeNaive_complete hr, Nat.mod_eq_zero_of_dvd hrn] at h1
    simp only [beq_self_eq_true, Bool.and_self, Bool.not_true, Bool.false_or,
      hfr _ (n / r) (Nat.div_le_self n r)] at h1
    cases hcl : cert.lookup r with
    | none => simp [hcl] at h1
    | some v =>
      simp only [hcl, Bool.and_eq_true, beq_iff_eq] at h1
      obtain ⟨hvl, h1⟩ := h1
      have hlen2 : (addL p ((fun y => powK c y p)^[n / r] (xL n)) (negxL p n)).length = n := by
        rw [length_addL, (hspec (n / r)).1.1, length_negxL hn2, max_self]
      have hg1 : Good c.p c.n (modL p v) := by
        rw [hcp, hcn]; exact good_modL hp.pos hvl
      have hg2 : Good c.p c.n
          (modL p (addL p ((fun y => powK c y p)^[n / r] (xL n)) (negxL p n))) := by
        rw [hcp, hcn]; exact good_modL hp.pos hlen2
      have h3 := ev_of_isOneL (α := AdjoinRoot.root (toPolyZMod p cs)) hp0 _ h1
      rw [(mulmodK_spec hc hg1 hg2).2, ev_modL hp0, ev_modL hp0, ev_addL hp0,
        ev_negxL hp0 hp.pos, (hspec (n / r)).2,
        ← sub_eq_add_neg, ← hmk, ev_root_eq_mk, ← map_mul,
        ← map_one (AdjoinRoot.mk (toPolyZMod p cs)), AdjoinRoot.mk_eq_mk] at h3
      obtain ⟨w, hw⟩ := h3
      exact ⟨-w, toPolyZMod p v, by linear_combination hw⟩

/-! ## sanity (kernel evaluation of the fast checker on small instances) -/

-- x^2+x+1 over GF(2) accepted, x^2+1 = (x+1)^2 rejected
example : rabinOKBig (2, 2, [1, 1, 1]) [(0, [1]), (2, [1, 0])] = true := by decide +kernel
example : rabinOKBig (2, 2, [1, 0, 1]) [(0, [1]), (2, [1, 0])] = false := by decide +kernel
-- the Conway polynomials x^4+2x^3+2 over GF(3) and x^6+x^4+x^3+x+1 over GF(2), certificates as
-- produced by tools/gen_certs.py
example : rabinOKBig (3, 4, [2, 0, 0, 2, 1]) [(0, [1, 1, 1]), (2, [1, 1, 0, 1])] = true := by
  decide +kernel
example : rabinOKBig (2, 6, [1, 1, 0, 1, 1, 0, 1])
    [(0, [1, 1, 1, 0, 1]), (2, [0, 1, 1, 0, 1, 0]), (3, [1, 0, 1, 0, 0, 0])] = true := by
  decide +kernel
-- a wrong quotient hint `mu` does not matter (fallback to `mulL`), a wrong inverse is rejected
example : rabinOKBig (3, 4, [2, 0, 0, 2, 1]) [(0, [2, 0, 1]), (2, [1, 1, 0, 1])] = true := by
  decide +kernel
example : rabinOKBig (3, 4, [2, 0, 0, 2, 1]) [(0, [1, 1, 1]), (2, [1, 0, 0, 1])] = false := by
  decide +kernel
-- x^4+x^2+1 = (x^2+x+1)^2 over GF(2) is rejected whatever the certificate says
example : rabinOKBig (2, 4, [1, 0, 1, 0, 1]) [(0, [1, 0, 0]), (2, [1, 0, 0, 0])] = false := by
  decide +kernel

end Algobra.C04
