/-
  Proofs/ParseRTBAdd.lean — additivity of the bivariate parser: the degree map accumulates repeated
  exponent pairs (`mapAdd`), `ofMap` drops the cancelled ones, so the printed forms of two
  polynomials joined by " + " parse to (the reduction of) a polynomial denoting their sum.
  Helper of `Props/C15Full.lean`.
-/
import Algobra.Proofs.ParseRTBPoly
import Algobra.Proofs.ParseRTAdd

namespace Algobra.ParseRT
open Algobra Algobra.Strings Algobra.Parse Algobra.BPoly

variable {α : Type} {F : FOps α} {K : Type} [Field K] (L : Lawful F K)

theorem JB_append (F : FOps α) (x y : String) :
    ∀ (l1 l2 : List (α × Deg)), l1 ≠ [] → l2 ≠ [] →
    JB F x y (l1 ++ l2) = JB F x y l1 ++ ' ' :: '+' :: ' ' :: JB F x y l2 := by
  intro l1
  induction l1 with
  | nil => intro _ h; exact absurd rfl h
  | cons t l1 ih =>
    intro l2 _ h2
    rw [List.cons_append, JB_cons, JB_cons]
    by_cases h1 : l1 = []
    · subst h1
      simp [RB, h2]
    · have : l1 ++ l2 ≠ [] := by simp [h1]
      simp only [RB, this, h1, if_false]
      rw [ih l2 h1 h2]
      simp

/-- `ofMap` on a represented map: the stored polynomial has the represented coefficients -/
theorem bbuild_rep (φ : Deg → K) :
    ∀ (m : List (Deg × α)), (m.map (·.1)).Nodup → (∀ t ∈ m, L.valid t.2 ∧ L.embed t.2 = φ t.1) →
    ∀ (acc : BPoly α), WF L acc → (∀ t ∈ m, t.1 ∉ keys acc) →
    WF L (m.foldl (fun acc (x : Deg × α) => if F.isZero x.2 then acc else put acc x.1 x.2) acc) ∧
    ∀ d, L.embed (coef F
        (m.foldl (fun acc (x : Deg × α) => if F.isZero x.2 then acc else put acc x.1 x.2) acc) d) =
      if d ∈ m.map (·.1) then φ d else L.embed (coef F acc d) := by
  intro m
  induction m with
  | nil => intro _ _ acc h _; exact ⟨h, fun d => by simp⟩
  | cons t m ih =>
    intro hnd hval acc h hdis
    rw [List.foldl_cons]
    obtain ⟨hv1, hv2⟩ := hval t (by simp)
    have hnd' : t.1 ∉ m.map (·.1) ∧ (m.map (·.1)).Nodup := by
      rw [List.map_cons] at hnd; exact List.nodup_cons.1 hnd
    have ht : t.1 ∉ keys acc := hdis t (by simp)
    have hc0 : L.embed (coef F acc t.1) = 0 := by rw [coef_of_not_mem ht, L.embed_zero]
    by_cases hz : F.isZero t.2 = true
    · rw [if_pos hz]
      have h0 : φ t.1 = 0 := by rw [← hv2]; exact (L.isZero_iff _ hv1).1 hz
      obtain ⟨w1, w2⟩ := ih hnd'.2 (fun u hu => hval u (by simp [hu])) acc h
        (fun u hu => hdis u (by simp [hu]))
      refine ⟨w1, fun d => ?_⟩
      rw [w2 d]
      by_cases h1 : d = t.1
      · subst h1; simp [hnd'.1, h0, hc0]
      · by_cases h2 : d ∈ m.map (·.1)
        · simp [h2]
        · simp [h1, h2]
    · rw [if_neg hz]
      have hne : L.embed t.2 ≠ 0 := fun e => hz ((L.isZero_iff _ hv1).2 e)
      have hwf := WF_put L h t.1 hv1 hne
      have hkeys : ∀ u ∈ m, u.1 ∉ keys (put acc t.1 t.2) := by
        intro u hu hmem
        have hu1 : u.1 ≠ t.1 := fun e => hnd'.1 (List.mem_map.2 ⟨u, hu, e⟩)
        have := (mem_keys_iff L hwf u.1).1 hmem
        rw [toMv_apply L hwf, coef_put, if_neg hu1] at this
        exact this (by rw [coef_of_not_mem (hdis u (by simp [hu])), L.embed_zero])
      obtain ⟨w1, w2⟩ := ih hnd'.2 (fun u hu => hval u (by simp [hu])) _ hwf hkeys
      refine ⟨w1, fun d => ?_⟩
      rw [w2 d, coef_put]
      by_cases h1 : d = t.1
      · subst h1; simp [hnd'.1, hv2]
      · by_cases h2 : d ∈ m.map (·.1)
        · simp [h2]
        · simp [h1, h2]

/-- support, coefficients and printed form of a well-formed bivariate polynomial -/
theorem bprinted_terms_coef (R : BPoly.Ring α) (L : Lawful R.F K) (hz1 : R.F.toStr R.F.zero = "0")
    (hz2 : ¬ R.F.nTerms R.F.zero > 1) {f : BPoly α} (hf : WF L f) (hb : Bounded f) :
    ∃ (ds : List Deg) (g : Deg → α), ds.Nodup ∧ ds ≠ [] ∧
      (∀ d ∈ ds, L.valid (g d) ∧ d.1 < 2 ^ 64 ∧ d.2 < 2 ^ 64) ∧ (∀ d, L.valid (g d)) ∧
      (BPoly.toStr R f).toList = JB R.F R.varNames.1 R.varNames.2 (ds.map fun d => (g d, d)) ∧
      (∀ d, L.embed (coef R.F f d) = if d ∈ ds then L.embed (g d) else 0) := by
  by_cases h0 : f = []
  · subst h0
    refine ⟨[(0, 0)], fun _ => R.F.zero, by simp, by simp,
      fun d hd => ⟨L.zero_valid, by simp at hd; subst hd; exact ⟨by norm_num, by norm_num⟩⟩,
      fun _ => L.zero_valid, ?_, ?_⟩
    · rw [btoStr_eq]
      simp [JB, btermStr, hz1, hz2]
    · intro d; simp [coef, L.embed_zero]
  · have hperm := sortedDegrees_perm R.ord f hf.1
    have hmem : ∀ d, d ∈ sortedDegrees R.ord f ↔ d ∈ keys f := fun d => hperm.mem_iff
    have hne : sortedDegrees R.ord f ≠ [] := by
      intro he
      have := hperm.length_eq
      rw [he] at this
      cases f with
      | nil => exact h0 rfl
      | cons _ _ => simp at this
    refine ⟨sortedDegrees R.ord f, coef R.F f, hperm.nodup_iff.2 hf.1, hne, ?_,
      BPoly.coef_valid L hf.cv, ?_, ?_⟩
    · intro d hd
      refine ⟨BPoly.coef_valid L hf.cv d, ?_⟩
      obtain ⟨x, hx, rfl⟩ := List.mem_map.1 ((hmem d).1 hd)
      exact hb x hx
    · rw [btoStr_eq, if_neg (by simpa using h0)]
      simp [JB, List.map_map, Function.comp_def]
    · intro d
      by_cases hd : d ∈ sortedDegrees R.ord f
      · rw [if_pos hd]
      · rw [if_neg hd, coef_of_not_mem (fun h => hd ((hmem d).2 h)), L.embed_zero]

/-- The printed forms of two well-formed bivariate polynomials joined by " + " parse to (the
    reduction of) a well-formed polynomial denoting their sum. -/
theorem bpoly_parse_add (R : BPoly.Ring α) (L : Lawful R.F K) (H : CoefRT R.F L.valid)
    (hz1 : R.F.toStr R.F.zero = "0") (hz2 : ¬ R.F.nTerms R.F.zero > 1)
    (N : BNames R.F R.varNames.1 R.varNames.2) (hdir : BPoly.directOK R = true)
    {f1 f2 : BPoly α} (hf1 : WF L f1) (hf2 : WF L f2) (hb1 : Bounded f1) (hb2 : Bounded f2) :
    ∃ b, WF L b ∧ toMv L b = toMv L f1 + toMv L f2 ∧
      BPoly.parse R (BPoly.toStr R f1 ++ " + " ++ BPoly.toStr R f2) = .ok (reduceIn R b) := by
  obtain ⟨ds1, g1, hnd1, hne1, hg1, hv1, hstr1, hco1⟩ := bprinted_terms_coef R L hz1 hz2 hf1 hb1
  obtain ⟨ds2, g2, hnd2, hne2, hg2, hv2, hstr2, hco2⟩ := bprinted_terms_coef R L hz1 hz2 hf2 hb2
  have hn1 : ds1.map (fun d => (g1 d, d)) ≠ [] := by simpa using hne1
  have hn2 : ds2.map (fun d => (g2 d, d)) ≠ [] := by simpa using hne2
  let l := ds1.map (fun d => (g1 d, d)) ++ ds2.map (fun d => (g2 d, d))
  have hstr : (BPoly.toStr R f1 ++ " + " ++ BPoly.toStr R f2).toList =
      JB R.F R.varNames.1 R.varNames.2 l := by
    rw [JB_append R.F _ _ _ _ hn1 hn2, ← hstr1, ← hstr2]
    simp
  have hlv : ∀ t ∈ l, L.valid t.1 ∧ t.2.1 < 2 ^ 64 ∧ t.2.2 < 2 ^ 64 := by
    intro t ht
    rcases List.mem_append.1 ht with h | h
    · obtain ⟨d, hd, rfl⟩ := List.mem_map.1 h; exact hg1 d hd
    · obtain ⟨d, hd, rfl⟩ := List.mem_map.1 h; exact hg2 d hd
  have hln : l ≠ [] := by simp [l, hn1]
  obtain ⟨ms, h1, h2⟩ := matchesB_terms H N hln hlv hstr
  have hrep := rep_foldl L l (fun t ht => (hlv t ht).1) (rep_nil L)
  obtain ⟨hnd, hval, hzero⟩ := hrep
  obtain ⟨hwf, hcoef⟩ := bbuild_rep L (fun i => 0 + S L l i) _ hnd hval [] (WF_nil L) (by simp)
  refine ⟨_, hwf, ?_, ?_⟩
  · apply AddMonoidAlgebra.ext
    ext d
    rw [AddMonoidAlgebra.coeff_add, Finsupp.add_apply, toMv_apply L hwf, toMv_apply L hf1,
      toMv_apply L hf2, hcoef d, hco1 d, hco2 d]
    by_cases hi : d ∈ (l.foldl (fun o t => UPoly.mapAdd R.F o t.2 t.1) []).map (·.1)
    · rw [if_pos hi]
      show (0 : K) + S L l d = _
      rw [S_append, S_nodup L g1 ds1 hnd1, S_nodup L g2 ds2 hnd2]; simp
    · rw [if_neg hi]
      have := hzero d hi
      dsimp only at this
      rw [S_append, S_nodup L g1 ds1 hnd1, S_nodup L g2 ds2 hnd2] at this
      simp only [coef, List.find?_nil, L.embed_zero]
      simpa using this.symm
  · have hmap : BPoly.stringToMap R (BPoly.toStr R f1 ++ " + " ++ BPoly.toStr R f2) =
        .ok (l.foldl (fun o t => UPoly.mapAdd R.F o t.2 t.1) []) := by
      unfold BPoly.stringToMap
      rw [if_pos hdir, h1]
      dsimp only
      rw [h2]
    unfold BPoly.parse
    rw [hmap]
    rfl

end Algobra.ParseRT
