/-
  Proofs/Groebner.lean — helper lemmas for C11 (GroebnerBasis), C12 (basis predicates and
  transformations) and C13 (bivariate quotient rings): Model/BPoly.lean, section "groebner.go" and
  `Ring`, `reduceIn`, `times`, `pow`, `ofMap`.

  Part A (no division theorem needed): structure of `sPairRems`, `buchberger`, the flag logic of
  the `Ideal` methods, `minimizeLoop`, the shape of `reduceBasis`, `times`/`pow`/`ofMap`.
  Part B (uses the division equation as the named hypothesis `DivSpec`): ideal membership.
-/
import Mathlib.RingTheory.Ideal.Span
import Algobra.Proofs.BPolyRefine
import Algobra.Proofs.Effects

namespace Algobra
namespace BPoly

variable {α : Type} (F : FOps α) (o : Order)

/-! ## Part A.1 : `sPairRems` -/

/-- what the loop body of `GroebnerBasis()`/`IsGroebner()` does with one pair `(f, g)` -/
def pairStep (gb : List (BPoly α)) (f g : BPoly α) (acc : Option (List (BPoly α))) :
    Option (List (BPoly α)) :=
  match acc, sPoly F o f g with
  | some news, some s =>
    match quoRemLoop F o none gb divFuel s (gb.map fun _ => []) [] with
    | some (_, r) => if r.isEmpty then some news else some (news ++ [r])
    | none => none
  | _, _ => none

/-- the inner loop (over `g`, index `j`) for a fixed `f` with index `i` -/
def innerFold (gb : List (BPoly α)) (f : BPoly α) (i : Nat) (l : List (BPoly α × Nat))
    (acc : Option (List (BPoly α))) : Option (List (BPoly α)) :=
  l.foldl (fun acc gj => if gj.2 ≤ i then acc else pairStep F o gb f gj.1 acc) acc

/-- the outer loop -/
def outerFold (gb : List (BPoly α)) (l1 l2 : List (BPoly α × Nat))
    (acc : Option (List (BPoly α))) : Option (List (BPoly α)) :=
  l1.foldl (fun acc fi => innerFold F o gb fi.1 fi.2 l2 acc) acc

theorem sPairRems_eq (gb : List (BPoly α)) :
    sPairRems F o gb = outerFold F o gb gb.zipIdx gb.zipIdx (some []) := rfl

/-- the S-polynomial of `f` and `g` exists (no overflow, no fuel question) and the division of it
    by the list `gb` terminates within `divFuel` steps with remainder `r` -/
def PairRem (gb : List (BPoly α)) (f g r : BPoly α) : Prop :=
  ∃ s qs, sPoly F o f g = some s ∧
    quoRemLoop F o none gb divFuel s (gb.map fun _ => []) [] = some (qs, r)

/-- "the S-polynomial of `f` and `g` reduces to zero with respect to `gb`" in the model's terms -/
def PairZero (gb : List (BPoly α)) (f g : BPoly α) : Prop := PairRem F o gb f g []

variable {F o}

theorem pairStep_some {gb : List (BPoly α)} {f g : BPoly α} {acc : Option (List (BPoly α))}
    {out : List (BPoly α)} (h : pairStep F o gb f g acc = some out) :
    ∃ news r, acc = some news ∧ PairRem F o gb f g r ∧
      ((r = [] ∧ out = news) ∨ (r ≠ [] ∧ out = news ++ [r])) := by
  unfold pairStep at h
  cases acc with
  | none => simp at h
  | some news =>
    cases hs : sPoly F o f g with
    | none => simp [hs] at h
    | some s =>
      cases hq : quoRemLoop F o none gb divFuel s (gb.map fun _ => []) [] with
      | none => simp only [hs, hq] at h; cases h
      | some qr =>
        obtain ⟨qs, r⟩ := qr
        simp only [hs, hq] at h
        refine ⟨news, r, rfl, ⟨s, qs, hs, hq⟩, ?_⟩
        cases r with
        | nil => left; simp at h; exact ⟨rfl, h.symm⟩
        | cons x t => right; simp at h; exact ⟨by simp, h.symm⟩

theorem pairStep_of_pairRem {gb : List (BPoly α)} {f g r : BPoly α} (news : List (BPoly α))
    (h : PairRem F o gb f g r) :
    pairStep F o gb f g (some news) = some (if r.isEmpty then news else news ++ [r]) := by
  obtain ⟨s, qs, hs, hq⟩ := h
  unfold pairStep
  simp only [hs, hq]
  split <;> rfl

theorem PairRem.unique {gb : List (BPoly α)} {f g r r' : BPoly α} (h : PairRem F o gb f g r)
    (h' : PairRem F o gb f g r') : r = r' := by
  obtain ⟨s, qs, hs, hq⟩ := h
  obtain ⟨s', qs', hs', hq'⟩ := h'
  rw [hs] at hs'; cases hs'
  rw [hq] at hq'; cases hq'; rfl

theorem pairStep_eq_some_nil {gb : List (BPoly α)} {f g : BPoly α}
    {acc : Option (List (BPoly α))} :
    pairStep F o gb f g acc = some [] ↔ acc = some [] ∧ PairZero F o gb f g := by
  constructor
  · intro h
    obtain ⟨news, r, rfl, hr, h2⟩ := pairStep_some h
    rcases h2 with ⟨rfl, h3⟩ | ⟨_, h3⟩
    · exact ⟨by rw [h3], hr⟩
    · exact absurd h3.symm (by simp)
  · rintro ⟨rfl, h⟩
    rw [pairStep_of_pairRem [] h]; rfl

/-- the accumulated list only grows -/
theorem pairStep_prefix {gb : List (BPoly α)} {f g : BPoly α} {acc : Option (List (BPoly α))}
    {out : List (BPoly α)} (h : pairStep F o gb f g acc = some out) :
    ∃ news extra, acc = some news ∧ out = news ++ extra ∧ ∀ r ∈ extra, r ≠ [] ∧ PairRem F o gb f g r := by
  obtain ⟨news, r, rfl, hr, h2⟩ := pairStep_some h
  rcases h2 with ⟨_, h3⟩ | ⟨hne, h3⟩
  · exact ⟨news, [], rfl, by simp [h3], by simp⟩
  · refine ⟨news, [r], rfl, h3, ?_⟩
    intro r' hr'
    simp only [List.mem_singleton] at hr'
    subst hr'
    exact ⟨hne, hr⟩

theorem innerFold_nil_iff {gb : List (BPoly α)} {f : BPoly α} {i : Nat}
    (l : List (BPoly α × Nat)) (acc : Option (List (BPoly α))) :
    innerFold F o gb f i l acc = some [] ↔
      acc = some [] ∧ ∀ gj ∈ l, i < gj.2 → PairZero F o gb f gj.1 := by
  induction l generalizing acc with
  | nil => simp [innerFold]
  | cons x t ih =>
    unfold innerFold at ih ⊢
    rw [List.foldl_cons, ih]
    by_cases hx : x.2 ≤ i
    · rw [if_pos hx]
      simp only [List.mem_cons, forall_eq_or_imp]
      constructor
      · rintro ⟨h1, h2⟩; exact ⟨h1, fun h => absurd h (by omega), h2⟩
      · rintro ⟨h1, _, h2⟩; exact ⟨h1, h2⟩
    · rw [if_neg hx, pairStep_eq_some_nil]
      simp only [List.mem_cons, forall_eq_or_imp]
      constructor
      · rintro ⟨⟨h1, h2⟩, h3⟩; exact ⟨h1, fun _ => h2, h3⟩
      · rintro ⟨h1, h2, h3⟩; exact ⟨⟨h1, h2 (by omega)⟩, h3⟩

theorem outerFold_nil_iff {gb : List (BPoly α)} (l1 l2 : List (BPoly α × Nat))
    (acc : Option (List (BPoly α))) :
    outerFold F o gb l1 l2 acc = some [] ↔
      acc = some [] ∧ ∀ fi ∈ l1, ∀ gj ∈ l2, fi.2 < gj.2 → PairZero F o gb fi.1 gj.1 := by
  induction l1 generalizing acc with
  | nil => simp [outerFold]
  | cons x t ih =>
    unfold outerFold at ih ⊢
    rw [List.foldl_cons, ih, innerFold_nil_iff]
    simp only [List.mem_cons, forall_eq_or_imp]
    tauto

/-- `sPairRems` returns the empty list exactly when every pair `i < j` has an S-polynomial that
    reduces to zero with respect to the whole list -/
theorem sPairRems_nil_iff (gb : List (BPoly α)) :
    sPairRems F o gb = some [] ↔
      ∀ (i j : Nat) (_ : i < j) (hj : j < gb.length),
        PairZero F o gb (gb[i]'(by omega)) gb[j] := by
  rw [sPairRems_eq, outerFold_nil_iff]
  simp only [true_and]
  constructor
  · intro h i j hij hj
    have hi : i < gb.length := by omega
    exact h (gb[i], i) (List.mem_zipIdx_iff_getElem?.2 (by simp [hi]))
      (gb[j], j) (List.mem_zipIdx_iff_getElem?.2 (by simp [hj])) hij
  · rintro h ⟨f, i⟩ hf ⟨g, j⟩ hg hij
    rw [List.mem_zipIdx_iff_getElem?] at hf hg
    simp only at hf hg hij ⊢
    obtain ⟨hi, rfl⟩ := List.getElem?_eq_some_iff.1 hf
    obtain ⟨hj, rfl⟩ := List.getElem?_eq_some_iff.1 hg
    exact h i j hij hj

/-- every element a successful inner loop appends is a nonzero S-pair remainder -/
theorem innerFold_some {gb : List (BPoly α)} {f : BPoly α} {i : Nat}
    (l : List (BPoly α × Nat)) (acc : Option (List (BPoly α))) {out : List (BPoly α)}
    (h : innerFold F o gb f i l acc = some out) :
    ∃ news extra, acc = some news ∧ out = news ++ extra ∧
      ∀ r ∈ extra, r ≠ [] ∧ ∃ gj ∈ l, i < gj.2 ∧ PairRem F o gb f gj.1 r := by
  induction l generalizing acc out with
  | nil =>
    simp only [innerFold, List.foldl_nil] at h
    exact ⟨out, [], h, by simp, by simp⟩
  | cons x t ih =>
    unfold innerFold at ih h
    rw [List.foldl_cons] at h
    obtain ⟨news, extra, h1, h2, h3⟩ := ih _ h
    by_cases hx : x.2 ≤ i
    · rw [if_pos hx] at h1
      refine ⟨news, extra, h1, h2, fun r hr => ?_⟩
      obtain ⟨hne, gj, hgj, hlt, hp⟩ := h3 r hr
      exact ⟨hne, gj, List.mem_cons_of_mem _ hgj, hlt, hp⟩
    · rw [if_neg hx] at h1
      obtain ⟨news0, extra0, e1, e2, e3⟩ := pairStep_prefix h1
      refine ⟨news0, extra0 ++ extra, e1, by rw [h2, e2, List.append_assoc], fun r hr => ?_⟩
      rcases List.mem_append.1 hr with hr | hr
      · exact ⟨(e3 r hr).1, x, List.mem_cons_self, by omega, (e3 r hr).2⟩
      · obtain ⟨hne, gj, hgj, hlt, hp⟩ := h3 r hr
        exact ⟨hne, gj, List.mem_cons_of_mem _ hgj, hlt, hp⟩

theorem outerFold_some {gb : List (BPoly α)} (l1 l2 : List (BPoly α × Nat))
    (acc : Option (List (BPoly α))) {out : List (BPoly α)}
    (h : outerFold F o gb l1 l2 acc = some out) :
    ∃ news extra, acc = some news ∧ out = news ++ extra ∧
      ∀ r ∈ extra, r ≠ [] ∧ ∃ fi ∈ l1, ∃ gj ∈ l2, fi.2 < gj.2 ∧ PairRem F o gb fi.1 gj.1 r := by
  induction l1 generalizing acc out with
  | nil =>
    simp only [outerFold, List.foldl_nil] at h
    exact ⟨out, [], h, by simp, by simp⟩
  | cons x t ih =>
    unfold outerFold at ih h
    rw [List.foldl_cons] at h
    obtain ⟨news, extra, h1, h2, h3⟩ := ih _ h
    obtain ⟨news0, extra0, e1, e2, e3⟩ := innerFold_some _ _ h1
    refine ⟨news0, extra0 ++ extra, e1, by rw [h2, e2, List.append_assoc], fun r hr => ?_⟩
    rcases List.mem_append.1 hr with hr | hr
    · obtain ⟨hne, gj, hgj, hlt, hp⟩ := e3 r hr
      exact ⟨hne, x, List.mem_cons_self, gj, hgj, hlt, hp⟩
    · obtain ⟨hne, fi, hfi, rest⟩ := h3 r hr
      exact ⟨hne, fi, List.mem_cons_of_mem _ hfi, rest⟩

/-- every element returned by `sPairRems` is the nonzero remainder of the S-polynomial of a pair
    `i < j` on division by the whole list -/
theorem sPairRems_mem {gb news : List (BPoly α)} (h : sPairRems F o gb = some news) :
    ∀ r ∈ news, r ≠ [] ∧ ∃ (i j : Nat) (_ : i < j) (hj : j < gb.length),
      PairRem F o gb (gb[i]'(by omega)) gb[j] r := by
  rw [sPairRems_eq] at h
  obtain ⟨news0, extra, e1, e2, e3⟩ := outerFold_some _ _ _ h
  cases e1
  rw [List.nil_append] at e2
  subst e2
  intro r hr
  obtain ⟨hne, ⟨f, i⟩, hf, ⟨g, j⟩, hg, hij, hp⟩ := e3 r hr
  rw [List.mem_zipIdx_iff_getElem?] at hf hg
  simp only at hf hg hij hp
  obtain ⟨hi, rfl⟩ := List.getElem?_eq_some_iff.1 hf
  obtain ⟨hj, rfl⟩ := List.getElem?_eq_some_iff.1 hg
  exact ⟨hne, i, j, hij, hj, hp⟩

/-! ## Part A.2 : `buchberger` -/

/-- the run returns only when a whole round over all pairs produced no nonzero remainder -/
theorem buchberger_spairs_zero {fuel : Nat} {gens G : List (BPoly α)}
    (h : buchberger F o fuel gens = some G) : sPairRems F o G = some [] := by
  induction fuel generalizing gens with
  | zero => simp [buchberger] at h
  | succ n ih =>
    rw [buchberger] at h
    split at h
    · cases h
    · split at h
      · cases h
      · rename_i hs; cases h; exact hs
      · exact ih h

/-- nothing is dropped: the input generators are a prefix of the result -/
theorem buchberger_extends {fuel : Nat} {gens G : List (BPoly α)}
    (h : buchberger F o fuel gens = some G) : ∃ extra, G = gens ++ extra := by
  induction fuel generalizing gens with
  | zero => simp [buchberger] at h
  | succ n ih =>
    rw [buchberger] at h
    split at h
    · cases h
    · split at h
      · cases h
      · cases h; exact ⟨[], by simp⟩
      · rename_i news _ _
        obtain ⟨extra, he⟩ := ih h
        exact ⟨news ++ extra, by rw [he, List.append_assoc]⟩

/-- invariant rule for `GroebnerBasis()`: whatever holds of the input and is preserved by appending
    the list of S-pair remainders of a round holds of the result -/
theorem buchberger_induct (P : List (BPoly α) → Prop) {fuel : Nat} {gens G : List (BPoly α)}
    (h : buchberger F o fuel gens = some G) (h0 : P gens)
    (hstep : ∀ gb news, P gb → sPairRems F o gb = some news → P (gb ++ news)) : P G := by
  induction fuel generalizing gens with
  | zero => simp [buchberger] at h
  | succ n ih =>
    rw [buchberger] at h
    split at h
    · cases h
    · split at h
      · cases h
      · cases h; exact h0
      · rename_i news hs
        exact ih h (hstep _ _ h0 hs)

/-- the model never returns a basis above its size cap -/
theorem buchberger_length_le {fuel : Nat} {gens G : List (BPoly α)}
    (h : buchberger F o fuel gens = some G) : G.length ≤ maxBasis := by
  induction fuel generalizing gens with
  | zero => simp [buchberger] at h
  | succ n ih =>
    rw [buchberger] at h
    split at h
    · cases h
    · rename_i hlen
      split at h
      · cases h
      · cases h; omega
      · exact ih h

/-! ## Part A.3 : the un-cached decisions and the exact shape of every `Ideal` method -/

variable (F o)

/-- un-cached decision of `IsMinimal()` (on a Gröbner basis): no leading term of the normalised
    generators is divisible by another one -/
def decideMinimal (gens : List (BPoly α)) : Bool :=
  (List.range (leadingTerms F o gens).2.length).all fun i =>
    !spannedByOthers F o (leadingTerms F o gens).2 i

/-- un-cached decision of `IsReduced()` (on a minimal basis): every generator equals its remainder
    modulo the others; `none` = fuel -/
def decideReduced (gens : List (BPoly α)) : Option Bool :=
  if ((List.range gens.length).map fun i =>
      (remByOthers F o gens i).map fun r => equal F r (gens.getD i [])).any (· == none) then none
  else some (((List.range gens.length).map fun i =>
      (remByOthers F o gens i).map fun r => equal F r (gens.getD i [])).all (· == some true))

/-- the generator list after the removal loop of `MinimizeBasis()` -/
def minimized (gens : List (BPoly α)) : List (BPoly α) :=
  minimizeLoop F o ((leadingTerms F o gens).1.length + 1) 0 (leadingTerms F o gens).1
    (leadingTerms F o gens).2

/-- the replacement loop of `ReduceBasis()` -/
def reduceLoop (gens : List (BPoly α)) : Option (List (BPoly α)) :=
  (List.range gens.length).foldl (fun acc i =>
    match acc with
    | none => none
    | some gens => (remByOthers F o gens i).map fun r => gens.set i r) (some gens)

variable {F o}

theorem leadingTerms_fst (gens : List (BPoly α)) :
    (leadingTerms F o gens).1 = gens.map (normalize F o) := rfl

theorem leadingTerms_snd (gens : List (BPoly α)) :
    (leadingTerms F o gens).2 = (gens.map (normalize F o)).map (lt F o) := rfl

theorem Ideal.eta_isGroebner (id : Ideal α) : { id with isGroebner := id.isGroebner } = id := by
  cases id; rfl

/-- exact shape of `IsGroebner()` -/
theorem isGroebnerQ_spec {id id' : Ideal α} {b : Bool} (h : id.isGroebnerQ F o = some (id', b)) :
    id' = { id with isGroebner := if b then 1 else -1 } ∧
    ((id.isGroebner = 1 ∧ b = true) ∨ (id.isGroebner = -1 ∧ b = false) ∨
     (id.isGroebner ≠ 1 ∧ id.isGroebner ≠ -1 ∧ decideGroebner F o id.gens = some b)) := by
  unfold Ideal.isGroebnerQ at h
  by_cases h1 : id.isGroebner = 1
  · rw [if_pos h1] at h
    cases h
    refine ⟨?_, Or.inl ⟨h1, rfl⟩⟩
    cases id; simp_all
  · rw [if_neg h1] at h
    by_cases h2 : id.isGroebner = -1
    · rw [if_pos h2] at h
      cases h
      refine ⟨?_, Or.inr (Or.inl ⟨h2, rfl⟩)⟩
      cases id; simp_all
    · rw [if_neg h2] at h
      cases hd : decideGroebner F o id.gens with
      | none => rw [hd] at h; cases h
      | some b' =>
        rw [hd] at h
        simp only [Option.map_some, Option.some.injEq, Prod.mk.injEq] at h
        obtain ⟨rfl, rfl⟩ := h
        exact ⟨rfl, Or.inr (Or.inr ⟨h1, h2, rfl⟩)⟩

/-- `IsGroebner()` with an undecided flag computes and caches exactly `decideGroebner` -/
theorem isGroebnerQ_undecided {id : Ideal α} (h1 : id.isGroebner ≠ 1) (h2 : id.isGroebner ≠ -1) :
    id.isGroebnerQ F o = (decideGroebner F o id.gens).map fun b =>
      ({ id with isGroebner := if b then 1 else -1 }, b) := by
  unfold Ideal.isGroebnerQ
  rw [if_neg h1, if_neg h2]

/-- the predicate is idempotent: asking again gives the same answer and changes nothing -/
theorem isGroebnerQ_idem {id id' : Ideal α} {b : Bool} (h : id.isGroebnerQ F o = some (id', b)) :
    id'.isGroebnerQ F o = some (id', b) := by
  obtain ⟨rfl, -⟩ := isGroebnerQ_spec h
  cases b
  · exact Effects.isGroebnerQ_of_neg_one F o rfl
  · exact Effects.isGroebnerQ_of_one F o rfl

/-- exact shape of `GroebnerBasis()` -/
theorem groebnerBasis_spec {id gb : Ideal α} (h : id.groebnerBasis F o = some gb) :
    (id.isGroebner = 1 ∧ gb = id) ∨
    (id.isGroebner ≠ 1 ∧ ∃ G, buchberger F o groebnerFuel id.gens = some G ∧
      gb = { gens := G, isGroebner := 1, isMinimal := 0, isReduced := 0 }) := by
  unfold Ideal.groebnerBasis at h
  by_cases h1 : id.isGroebner = 1
  · rw [if_pos h1] at h; cases h; exact Or.inl ⟨h1, rfl⟩
  · rw [if_neg h1] at h
    cases hb : buchberger F o groebnerFuel id.gens with
    | none => rw [hb] at h; cases h
    | some G =>
      rw [hb] at h
      simp only [Option.map_some, Option.some.injEq] at h
      exact Or.inr ⟨h1, G, rfl, h.symm⟩

/-- exact shape of `MinimizeBasis()` -/
theorem minimizeBasis_spec {id id' : Ideal α} {res : Except Kind Unit}
    (h : id.minimizeBasis F o = some (id', res)) :
    ∃ id1 b, id.isGroebnerQ F o = some (id1, b) ∧
      ((b = false ∧ id' = id1 ∧ res = .error .inputValue) ∨
       (b = true ∧ res = .ok () ∧
        id' = { id1 with gens := minimized F o id1.gens, isMinimal := 1,
                         isReduced := if id1.isReduced = 1 then 1 else 0 })) := by
  unfold Ideal.minimizeBasis at h
  cases hq : id.isGroebnerQ F o with
  | none => rw [hq] at h; cases h
  | some pr =>
    obtain ⟨id1, b⟩ := pr
    rw [hq] at h
    refine ⟨id1, b, rfl, ?_⟩
    cases b
    · simp only [Option.some.injEq, Prod.mk.injEq] at h
      exact Or.inl ⟨rfl, h.1.symm, h.2.symm⟩
    · simp only [Option.some.injEq, Prod.mk.injEq] at h
      exact Or.inr ⟨rfl, h.2.symm, h.1.symm⟩

theorem minimizeBasis_of_isGroebnerQ_false {id id1 : Ideal α}
    (hq : id.isGroebnerQ F o = some (id1, false)) :
    id.minimizeBasis F o = some (id1, .error .inputValue) := by
  unfold Ideal.minimizeBasis; rw [hq]

theorem minimizeBasis_of_isGroebnerQ_true {id id1 : Ideal α}
    (hq : id.isGroebnerQ F o = some (id1, true)) :
    id.minimizeBasis F o = some (⟨minimized F o id1.gens, id1.isGroebner, 1,
      if id1.isReduced = 1 then 1 else 0⟩, .ok ()) := by
  unfold Ideal.minimizeBasis; rw [hq]; rfl

theorem minimizeBasis_of_isGroebnerQ_none {id : Ideal α} (hq : id.isGroebnerQ F o = none) :
    id.minimizeBasis F o = none := by
  unfold Ideal.minimizeBasis; rw [hq]

/-- exact shape of `IsMinimal()` -/
theorem isMinimalQ_spec {id id' : Ideal α} {b : Bool} (h : id.isMinimalQ F o = some (id', b)) :
    (id.isMinimal = 1 ∧ id' = id ∧ b = true) ∨ (id.isMinimal = -1 ∧ id' = id ∧ b = false) ∨
    (id.isMinimal ≠ 1 ∧ id.isMinimal ≠ -1 ∧ ∃ id1 bg, id.isGroebnerQ F o = some (id1, bg) ∧
      ((bg = false ∧ b = false ∧ id' = { id1 with isMinimal := -1 }) ∨
       (bg = true ∧ b = decideMinimal F o id1.gens ∧
        id' = { id1 with gens := id1.gens.map (normalize F o),
                         isMinimal := if b then 1 else -1 }))) := by
  unfold Ideal.isMinimalQ at h
  by_cases h1 : id.isMinimal = 1
  · rw [if_pos h1] at h; cases h; exact Or.inl ⟨h1, rfl, rfl⟩
  · rw [if_neg h1] at h
    by_cases h2 : id.isMinimal = -1
    · rw [if_pos h2] at h; cases h; exact Or.inr (Or.inl ⟨h2, rfl, rfl⟩)
    · rw [if_neg h2] at h
      refine Or.inr (Or.inr ⟨h1, h2, ?_⟩)
      cases hq : id.isGroebnerQ F o with
      | none => rw [hq] at h; cases h
      | some pr =>
        obtain ⟨id1, bg⟩ := pr
        rw [hq] at h
        refine ⟨id1, bg, rfl, ?_⟩
        cases bg
        · simp only [Option.some.injEq, Prod.mk.injEq] at h
          exact Or.inl ⟨rfl, h.2.symm, h.1.symm⟩
        · simp only [Option.some.injEq, Prod.mk.injEq] at h
          refine Or.inr ⟨rfl, ?_, ?_⟩
          · rw [← h.2]; rfl
          · rw [← h.1, ← h.2]; rfl

/-- in every case the answer of `IsMinimal()` is what is cached afterwards -/
theorem isMinimalQ_flag {id id' : Ideal α} {b : Bool} (h : id.isMinimalQ F o = some (id', b)) :
    id'.isMinimal = if b then 1 else -1 := by
  rcases isMinimalQ_spec h with ⟨h1, rfl, rfl⟩ | ⟨h1, rfl, rfl⟩ | ⟨_, _, id1, bg, _, h3⟩
  · exact h1
  · exact h1
  · rcases h3 with ⟨_, rfl, rfl⟩ | ⟨_, _, rfl⟩ <;> rfl

theorem isMinimalQ_of_one {id : Ideal α} (h : id.isMinimal = 1) :
    id.isMinimalQ F o = some (id, true) := by
  unfold Ideal.isMinimalQ; rw [if_pos h]

theorem isMinimalQ_of_neg_one {id : Ideal α} (h : id.isMinimal = -1) :
    id.isMinimalQ F o = some (id, false) := by
  unfold Ideal.isMinimalQ; rw [if_neg (by rw [h]; decide), if_pos h]

theorem isMinimalQ_idem {id id' : Ideal α} {b : Bool} (h : id.isMinimalQ F o = some (id', b)) :
    id'.isMinimalQ F o = some (id', b) := by
  have hf := isMinimalQ_flag h
  cases b
  · exact isMinimalQ_of_neg_one hf
  · exact isMinimalQ_of_one hf

/-- exact shape of `ReduceBasis()` -/
theorem reduceBasis_spec {id id' : Ideal α} {res : Except Kind Unit}
    (h : id.reduceBasis F o = some (id', res)) :
    ∃ id1 bg, id.isGroebnerQ F o = some (id1, bg) ∧
      ((bg = false ∧ id' = id1 ∧ res = .error .inputValue) ∨
       (bg = true ∧ res = .ok () ∧ ∃ idm gens,
          (if id1.isMinimal ≠ 1 then (id1.minimizeBasis F o).map (·.1) else some id1) = some idm ∧
          reduceLoop F o idm.gens = some gens ∧
          id' = { idm with gens := gens, isReduced := 1 })) := by
  unfold Ideal.reduceBasis at h
  cases hq : id.isGroebnerQ F o with
  | none => rw [hq] at h; cases h
  | some pr =>
    obtain ⟨id1, bg⟩ := pr
    rw [hq] at h
    refine ⟨id1, bg, rfl, ?_⟩
    cases bg
    · simp only [Option.some.injEq, Prod.mk.injEq] at h
      exact Or.inl ⟨rfl, h.1.symm, h.2.symm⟩
    · simp only at h
      refine Or.inr ⟨rfl, ?_⟩
      generalize hM : (if id1.isMinimal ≠ 1 then Option.map (·.1) (id1.minimizeBasis F o)
        else some id1) = idM at h
      cases idM with
      | none => cases h
      | some idm =>
        replace h : (reduceLoop F o idm.gens).map (fun gens =>
            (({ idm with gens := gens, isReduced := 1 } : Ideal α), (Except.ok () : Except Kind Unit)))
            = some (id', res) := h
        cases hl : reduceLoop F o idm.gens with
        | none => rw [hl] at h; cases h
        | some gens =>
          rw [hl] at h
          simp only [Option.map_some, Option.some.injEq, Prod.mk.injEq] at h
          exact ⟨h.2.symm, idm, gens, rfl, hl, h.1.symm⟩

/-- exact shape of `IsReduced()` -/
theorem isReducedQ_spec {id id' : Ideal α} {b : Bool} (h : id.isReducedQ F o = some (id', b)) :
    (id.isReduced = 1 ∧ id' = id ∧ b = true) ∨ (id.isReduced = -1 ∧ id' = id ∧ b = false) ∨
    (id.isReduced ≠ 1 ∧ id.isReduced ≠ -1 ∧ ∃ id1 bm, id.isMinimalQ F o = some (id1, bm) ∧
      ((bm = false ∧ b = false ∧ id' = { id1 with isReduced := -1 }) ∨
       (bm = true ∧ decideReduced F o id1.gens = some b ∧
        id' = { id1 with isReduced := if b then 1 else -1 }))) := by
  unfold Ideal.isReducedQ at h
  by_cases h1 : id.isReduced = 1
  · rw [if_pos h1] at h; cases h; exact Or.inl ⟨h1, rfl, rfl⟩
  · rw [if_neg h1] at h
    by_cases h2 : id.isReduced = -1
    · rw [if_pos h2] at h; cases h; exact Or.inr (Or.inl ⟨h2, rfl, rfl⟩)
    · rw [if_neg h2] at h
      refine Or.inr (Or.inr ⟨h1, h2, ?_⟩)
      cases hq : id.isMinimalQ F o with
      | none => rw [hq] at h; cases h
      | some pr =>
        obtain ⟨id1, bm⟩ := pr
        rw [hq] at h
        refine ⟨id1, bm, rfl, ?_⟩
        cases bm
        · simp only [Option.some.injEq, Prod.mk.injEq] at h
          exact Or.inl ⟨rfl, h.2.symm, h.1.symm⟩
        · simp only at h
          refine Or.inr ⟨rfl, ?_⟩
          unfold decideReduced
          split at h
          · cases h
          · rename_i hany
            rw [if_neg hany]
            simp only [Option.some.injEq, Prod.mk.injEq] at h
            exact ⟨by rw [← h.2], by rw [← h.1, ← h.2]⟩

theorem isReducedQ_flag {id id' : Ideal α} {b : Bool} (h : id.isReducedQ F o = some (id', b)) :
    id'.isReduced = if b then 1 else -1 := by
  rcases isReducedQ_spec h with ⟨h1, rfl, rfl⟩ | ⟨h1, rfl, rfl⟩ | ⟨_, _, id1, bg, _, h3⟩
  · exact h1
  · exact h1
  · rcases h3 with ⟨_, rfl, rfl⟩ | ⟨_, _, rfl⟩ <;> rfl

theorem isReducedQ_of_one {id : Ideal α} (h : id.isReduced = 1) :
    id.isReducedQ F o = some (id, true) := by
  unfold Ideal.isReducedQ; rw [if_pos h]

theorem isReducedQ_of_neg_one {id : Ideal α} (h : id.isReduced = -1) :
    id.isReducedQ F o = some (id, false) := by
  unfold Ideal.isReducedQ; rw [if_neg (by rw [h]; decide), if_pos h]

theorem isReducedQ_idem {id id' : Ideal α} {b : Bool} (h : id.isReducedQ F o = some (id', b)) :
    id'.isReducedQ F o = some (id', b) := by
  have hf := isReducedQ_flag h
  cases b
  · exact isReducedQ_of_neg_one hf
  · exact isReducedQ_of_one hf

end BPoly
end Algobra
