/-
  Proofs/Groebner.lean — helper lemmas for C11 (GroebnerBasis), C12 (basis predicates and
  transformations) and C13 (bivariate quotient rings): Model/BPoly.lean, section "groebner.go" and
  `Ring`, `reduceIn`, `times`, `pow`, `ofMap`.

  Part A (no division theorem needed): structure of `sPairRems`, `buchberger`, the flag logic of
  the `Ideal` methods, `minimizeLoop`, the shape of `reduceBasis`, `times`/`pow`/`ofMap`.
  Part B (uses the division equation as the named hypothesis `DivSpec`): ideal membership.
-/
import Mathlib.RingTheory.Ideal.Span
import Mathlib.RingTheory.Ideal.Quotient.Defs
import Algobra.Proofs.BPolyRefine
import Algobra.Proofs.Order
import Algobra.Proofs.Effects

namespace Algobra
namespace BPoly

variable {α : Type} (F : FOps α) (o : Order)

/-! ## Part A.1 : `sPairRems` -/

/-- what the loop body of `GroebnerBasis()`/`IsGroebner()` does with one pair `(f, g)` -/
def pairStep (gb : List (BPoly α)) (f g : BPoly α) (acc : Option (List (BPoly α))) :
    Option (List (BPoly α)) :=
  match acc, sPoly F o f g with
  | some news, some s =>
    match quoRemLoop F o none gb divFuel s (gb.map fun _ => []) [] with
    | some (_, r) => if r.isEmpty then some news else some (news ++ [r])
    | none => none
  | _, _ => none

/-- the inner loop (over `g`, index `j`) for a fixed `f` with index `i` -/
def innerFold (gb : List (BPoly α)) (f : BPoly α) (i : Nat) (l : List (BPoly α × Nat))
    (acc : Option (List (BPoly α))) : Option (List (BPoly α)) :=
  l.foldl (fun acc gj => if gj.2 ≤ i then acc else pairStep F o gb f gj.1 acc) acc

/-- the outer loop -/
def outerFold (gb : List (BPoly α)) (l1 l2 : List (BPoly α × Nat))
    (acc : Option (List (BPoly α))) : Option (List (BPoly α)) :=
  l1.foldl (fun acc fi => innerFold F o gb fi.1 fi.2 l2 acc) acc

theorem sPairRems_eq (gb : List (BPoly α)) :
    sPairRems F o gb = outerFold F o gb gb.zipIdx gb.zipIdx (some []) := rfl

/-- the S-polynomial of `f` and `g` exists (no overflow, no fuel question) and the division of it
    by the list `gb` terminates within `divFuel` steps with remainder `r` -/
def PairRem (gb : List (BPoly α)) (f g r : BPoly α) : Prop :=
  ∃ s qs, sPoly F o f g = some s ∧
    quoRemLoop F o none gb divFuel s (gb.map fun _ => []) [] = some (qs, r)

/-- "the S-polynomial of `f` and `g` reduces to zero with respect to `gb`" in the model's terms -/
def PairZero (gb : List (BPoly α)) (f g : BPoly α) : Prop := PairRem F o gb f g []

variable {F o}

theorem pairStep_some {gb : List (BPoly α)} {f g : BPoly α} {acc : Option (List (BPoly α))}
    {out : List (BPoly α)} (h : pairStep F o gb f g acc = some out) :
    ∃ news r, acc = some news ∧ PairRem F o gb f g r ∧
      ((r = [] ∧ out = news) ∨ (r ≠ [] ∧ out = news ++ [r])) := by
  unfold pairStep at h
  cases acc with
  | none => simp at h
  | some news =>
    cases hs : sPoly F o f g with
    | none => simp [hs] at h
    | some s =>
      cases hq : quoRemLoop F o none gb divFuel s (gb.map fun _ => []) [] with
      | none => simp only [hs, hq] at h; cases h
      | some qr =>
        obtain ⟨qs, r⟩ := qr
        simp only [hs, hq] at h
        refine ⟨news, r, rfl, ⟨s, qs, hs, hq⟩, ?_⟩
        cases r with
        | nil => left; simp at h; exact ⟨rfl, h.symm⟩
        | cons x t => right; simp at h; exact ⟨by simp, h.symm⟩

theorem pairStep_of_pairRem {gb : List (BPoly α)} {f g r : BPoly α} (news : List (BPoly α))
    (h : PairRem F o gb f g r) :
    pairStep F o gb f g (some news) = some (if r.isEmpty then news else news ++ [r]) := by
  obtain ⟨s, qs, hs, hq⟩ := h
  unfold pairStep
  simp only [hs, hq]
  split <;> rfl

theorem PairRem.unique {gb : List (BPoly α)} {f g r r' : BPoly α} (h : PairRem F o gb f g r)
    (h' : PairRem F o gb f g r') : r = r' := by
  obtain ⟨s, qs, hs, hq⟩ := h
  obtain ⟨s', qs', hs', hq'⟩ := h'
  rw [hs] at hs'; cases hs'
  rw [hq] at hq'; cases hq'; rfl

theorem pairStep_eq_some_nil {gb : List (BPoly α)} {f g : BPoly α}
    {acc : Option (List (BPoly α))} :
    pairStep F o gb f g acc = some [] ↔ acc = some [] ∧ PairZero F o gb f g := by
  constructor
  · intro h
    obtain ⟨news, r, rfl, hr, h2⟩ := pairStep_some h
    rcases h2 with ⟨rfl, h3⟩ | ⟨_, h3⟩
    · exact ⟨by rw [h3], hr⟩
    · exact absurd h3.symm (by simp)
  · rintro ⟨rfl, h⟩
    rw [pairStep_of_pairRem [] h]; rfl

/-- the accumulated list only grows -/
theorem pairStep_prefix {gb : List (BPoly α)} {f g : BPoly α} {acc : Option (List (BPoly α))}
    {out : List (BPoly α)} (h : pairStep F o gb f g acc = some out) :
    ∃ news extra, acc = some news ∧ out = news ++ extra ∧ ∀ r ∈ extra, r ≠ [] ∧ PairRem F o gb f g r := by
  obtain ⟨news, r, rfl, hr, h2⟩ := pairStep_some h
  rcases h2 with ⟨_, h3⟩ | ⟨hne, h3⟩
  · exact ⟨news, [], rfl, by simp [h3], by simp⟩
  · refine ⟨news, [r], rfl, h3, ?_⟩
    intro r' hr'
    simp only [List.mem_singleton] at hr'
    subst hr'
    exact ⟨hne, hr⟩

theorem innerFold_nil_iff {gb : List (BPoly α)} {f : BPoly α} {i : Nat}
    (l : List (BPoly α × Nat)) (acc : Option (List (BPoly α))) :
    innerFold F o gb f i l acc = some [] ↔
      acc = some [] ∧ ∀ gj ∈ l, i < gj.2 → PairZero F o gb f gj.1 := by
  induction l generalizing acc with
  | nil => simp [innerFold]
  | cons x t ih =>
    unfold innerFold at ih ⊢
    rw [List.foldl_cons, ih]
    by_cases hx : x.2 ≤ i
    · rw [if_pos hx]
      simp only [List.mem_cons, forall_eq_or_imp]
      constructor
      · rintro ⟨h1, h2⟩; exact ⟨h1, fun h => absurd h (by omega), h2⟩
      · rintro ⟨h1, _, h2⟩; exact ⟨h1, h2⟩
    · rw [if_neg hx, pairStep_eq_some_nil]
      simp only [List.mem_cons, forall_eq_or_imp]
      constructor
      · rintro ⟨⟨h1, h2⟩, h3⟩; exact ⟨h1, fun _ => h2, h3⟩
      · rintro ⟨h1, h2, h3⟩; exact ⟨⟨h1, h2 (by omega)⟩, h3⟩

theorem outerFold_nil_iff {gb : List (BPoly α)} (l1 l2 : List (BPoly α × Nat))
    (acc : Option (List (BPoly α))) :
    outerFold F o gb l1 l2 acc = some [] ↔
      acc = some [] ∧ ∀ fi ∈ l1, ∀ gj ∈ l2, fi.2 < gj.2 → PairZero F o gb fi.1 gj.1 := by
  induction l1 generalizing acc with
  | nil => simp [outerFold]
  | cons x t ih =>
    unfold outerFold at ih ⊢
    rw [List.foldl_cons, ih, innerFold_nil_iff]
    simp only [List.mem_cons, forall_eq_or_imp]
    tauto

/-- `sPairRems` returns the empty list exactly when every pair `i < j` has an S-polynomial that
    reduces to zero with respect to the whole list -/
theorem sPairRems_nil_iff (gb : List (BPoly α)) :
    sPairRems F o gb = some [] ↔
      ∀ (i j : Nat) (_ : i < j) (hj : j < gb.length),
        PairZero F o gb (gb[i]'(by omega)) gb[j] := by
  rw [sPairRems_eq, outerFold_nil_iff]
  simp only [true_and]
  constructor
  · intro h i j hij hj
    have hi : i < gb.length := by omega
    exact h (gb[i], i) (List.mem_zipIdx_iff_getElem?.2 (by simp [hi]))
      (gb[j], j) (List.mem_zipIdx_iff_getElem?.2 (by simp [hj])) hij
  · rintro h ⟨f, i⟩ hf ⟨g, j⟩ hg hij
    rw [List.mem_zipIdx_iff_getElem?] at hf hg
    simp only at hf hg hij ⊢
    obtain ⟨hi, rfl⟩ := List.getElem?_eq_some_iff.1 hf
    obtain ⟨hj, rfl⟩ := List.getElem?_eq_some_iff.1 hg
    exact h i j hij hj

/-- every element a successful inner loop appends is a nonzero S-pair remainder -/
theorem innerFold_some {gb : List (BPoly α)} {f : BPoly α} {i : Nat}
    (l : List (BPoly α × Nat)) (acc : Option (List (BPoly α))) {out : List (BPoly α)}
    (h : innerFold F o gb f i l acc = some out) :
    ∃ news extra, acc = some news ∧ out = news ++ extra ∧
      ∀ r ∈ extra, r ≠ [] ∧ ∃ gj ∈ l, i < gj.2 ∧ PairRem F o gb f gj.1 r := by
  induction l generalizing acc out with
  | nil =>
    simp only [innerFold, List.foldl_nil] at h
    exact ⟨out, [], h, by simp, by simp⟩
  | cons x t ih =>
    unfold innerFold at ih h
    rw [List.foldl_cons] at h
    obtain ⟨news, extra, h1, h2, h3⟩ := ih _ h
    by_cases hx : x.2 ≤ i
    · rw [if_pos hx] at h1
      refine ⟨news, extra, h1, h2, fun r hr => ?_⟩
      obtain ⟨hne, gj, hgj, hlt, hp⟩ := h3 r hr
      exact ⟨hne, gj, List.mem_cons_of_mem _ hgj, hlt, hp⟩
    · rw [if_neg hx] at h1
      obtain ⟨news0, extra0, e1, e2, e3⟩ := pairStep_prefix h1
      refine ⟨news0, extra0 ++ extra, e1, by rw [h2, e2, List.append_assoc], fun r hr => ?_⟩
      rcases List.mem_append.1 hr with hr | hr
      · exact ⟨(e3 r hr).1, x, List.mem_cons_self, by omega, (e3 r hr).2⟩
      · obtain ⟨hne, gj, hgj, hlt, hp⟩ := h3 r hr
        exact ⟨hne, gj, List.mem_cons_of_mem _ hgj, hlt, hp⟩

theorem outerFold_some {gb : List (BPoly α)} (l1 l2 : List (BPoly α × Nat))
    (acc : Option (List (BPoly α))) {out : List (BPoly α)}
    (h : outerFold F o gb l1 l2 acc = some out) :
    ∃ news extra, acc = some news ∧ out = news ++ extra ∧
      ∀ r ∈ extra, r ≠ [] ∧ ∃ fi ∈ l1, ∃ gj ∈ l2, fi.2 < gj.2 ∧ PairRem F o gb fi.1 gj.1 r := by
  induction l1 generalizing acc out with
  | nil =>
    simp only [outerFold, List.foldl_nil] at h
    exact ⟨out, [], h, by simp, by simp⟩
  | cons x t ih =>
    unfold outerFold at ih h
    rw [List.foldl_cons] at h
    obtain ⟨news, extra, h1, h2, h3⟩ := ih _ h
    obtain ⟨news0, extra0, e1, e2, e3⟩ := innerFold_some _ _ h1
    refine ⟨news0, extra0 ++ extra, e1, by rw [h2, e2, List.append_assoc], fun r hr => ?_⟩
    rcases List.mem_append.1 hr with hr | hr
    · obtain ⟨hne, gj, hgj, hlt, hp⟩ := e3 r hr
      exact ⟨hne, x, List.mem_cons_self, gj, hgj, hlt, hp⟩
    · obtain ⟨hne, fi, hfi, rest⟩ := h3 r hr
      exact ⟨hne, fi, List.mem_cons_of_mem _ hfi, rest⟩

/-- every element returned by `sPairRems` is the nonzero remainder of the S-polynomial of a pair
    `i < j` on division by the whole list -/
theorem sPairRems_mem {gb news : List (BPoly α)} (h : sPairRems F o gb = some news) :
    ∀ r ∈ news, r ≠ [] ∧ ∃ (i j : Nat) (_ : i < j) (hj : j < gb.length),
      PairRem F o gb (gb[i]'(by omega)) gb[j] r := by
  rw [sPairRems_eq] at h
  obtain ⟨news0, extra, e1, e2, e3⟩ := outerFold_some _ _ _ h
  cases e1
  rw [List.nil_append] at e2
  subst e2
  intro r hr
  obtain ⟨hne, ⟨f, i⟩, hf, ⟨g, j⟩, hg, hij, hp⟩ := e3 r hr
  rw [List.mem_zipIdx_iff_getElem?] at hf hg
  simp only at hf hg hij hp
  obtain ⟨hi, rfl⟩ := List.getElem?_eq_some_iff.1 hf
  obtain ⟨hj, rfl⟩ := List.getElem?_eq_some_iff.1 hg
  exact ⟨hne, i, j, hij, hj, hp⟩

/-! ## Part A.2 : `buchberger` -/

/-- the run returns only when a whole round over all pairs produced no nonzero remainder -/
theorem buchberger_spairs_zero {fuel : Nat} {gens G : List (BPoly α)}
    (h : buchberger F o fuel gens = some G) : sPairRems F o G = some [] := by
  induction fuel generalizing gens with
  | zero => simp [buchberger] at h
  | succ n ih =>
    rw [buchberger] at h
    split at h
    · cases h
    · split at h
      · cases h
      · rename_i hs; cases h; exact hs
      · exact ih h

/-- nothing is dropped: the input generators are a prefix of the result -/
theorem buchberger_extends {fuel : Nat} {gens G : List (BPoly α)}
    (h : buchberger F o fuel gens = some G) : ∃ extra, G = gens ++ extra := by
  induction fuel generalizing gens with
  | zero => simp [buchberger] at h
  | succ n ih =>
    rw [buchberger] at h
    split at h
    · cases h
    · split at h
      · cases h
      · cases h; exact ⟨[], by simp⟩
      · rename_i news _ _
        obtain ⟨extra, he⟩ := ih h
        exact ⟨news ++ extra, by rw [he, List.append_assoc]⟩

/-- invariant rule for `GroebnerBasis()`: whatever holds of the input and is preserved by appending
    the list of S-pair remainders of a round holds of the result -/
theorem buchberger_induct (P : List (BPoly α) → Prop) {fuel : Nat} {gens G : List (BPoly α)}
    (h : buchberger F o fuel gens = some G) (h0 : P gens)
    (hstep : ∀ gb news, P gb → sPairRems F o gb = some news → P (gb ++ news)) : P G := by
  induction fuel generalizing gens with
  | zero => simp [buchberger] at h
  | succ n ih =>
    rw [buchberger] at h
    split at h
    · cases h
    · split at h
      · cases h
      · cases h; exact h0
      · rename_i news hs
        exact ih h (hstep _ _ h0 hs)

/-- the model never returns a basis above its size cap -/
theorem buchberger_length_le {fuel : Nat} {gens G : List (BPoly α)}
    (h : buchberger F o fuel gens = some G) : G.length ≤ maxBasis := by
  induction fuel generalizing gens with
  | zero => simp [buchberger] at h
  | succ n ih =>
    rw [buchberger] at h
    split at h
    · cases h
    · rename_i hlen
      split at h
      · cases h
      · cases h; omega
      · exact ih h

/-! ## Part A.3 : the un-cached decisions and the exact shape of every `Ideal` method -/

variable (F o)

/-- un-cached decision of `IsMinimal()` (on a Gröbner basis): no leading term of the normalised
    generators is divisible by another one -/
def decideMinimal (gens : List (BPoly α)) : Bool :=
  (List.range (leadingTerms F o gens).2.length).all fun i =>
    !spannedByOthers F o (leadingTerms F o gens).2 i

/-- un-cached decision of `IsReduced()` (on a minimal basis): every generator equals its remainder
    modulo the others; `none` = fuel -/
def decideReduced (gens : List (BPoly α)) : Option Bool :=
  if ((List.range gens.length).map fun i =>
      (remByOthers F o gens i).map fun r => equal F r (gens.getD i [])).any (· == none) then none
  else some (((List.range gens.length).map fun i =>
      (remByOthers F o gens i).map fun r => equal F r (gens.getD i [])).all (· == some true))

/-- the generator list after the removal loop of `MinimizeBasis()` -/
def minimized (gens : List (BPoly α)) : List (BPoly α) :=
  minimizeLoop F o ((leadingTerms F o gens).1.length + 1) 0 (leadingTerms F o gens).1
    (leadingTerms F o gens).2

/-- the replacement loop of `ReduceBasis()` -/
def reduceLoop (gens : List (BPoly α)) : Option (List (BPoly α)) :=
  (List.range gens.length).foldl (fun acc i =>
    match acc with
    | none => none
    | some gens => (remByOthers F o gens i).map fun r => gens.set i r) (some gens)

variable {F o}

theorem leadingTerms_fst (gens : List (BPoly α)) :
    (leadingTerms F o gens).1 = gens.map (normalize F o) := rfl

theorem leadingTerms_snd (gens : List (BPoly α)) :
    (leadingTerms F o gens).2 = (gens.map (normalize F o)).map (lt F o) := rfl

theorem Ideal.eta_isGroebner (id : Ideal α) : { id with isGroebner := id.isGroebner } = id := by
  cases id; rfl

/-- exact shape of `IsGroebner()` -/
theorem isGroebnerQ_spec {id id' : Ideal α} {b : Bool} (h : id.isGroebnerQ F o = some (id', b)) :
    id' = { id with isGroebner := if b then 1 else -1 } ∧
    ((id.isGroebner = 1 ∧ b = true) ∨ (id.isGroebner = -1 ∧ b = false) ∨
     (id.isGroebner ≠ 1 ∧ id.isGroebner ≠ -1 ∧ decideGroebner F o id.gens = some b)) := by
  unfold Ideal.isGroebnerQ at h
  by_cases h1 : id.isGroebner = 1
  · rw [if_pos h1] at h
    cases h
    refine ⟨?_, Or.inl ⟨h1, rfl⟩⟩
    cases id; simp_all
  · rw [if_neg h1] at h
    by_cases h2 : id.isGroebner = -1
    · rw [if_pos h2] at h
      cases h
      refine ⟨?_, Or.inr (Or.inl ⟨h2, rfl⟩)⟩
      cases id; simp_all
    · rw [if_neg h2] at h
      cases hd : decideGroebner F o id.gens with
      | none => rw [hd] at h; cases h
      | some b' =>
        rw [hd] at h
        simp only [Option.map_some, Option.some.injEq, Prod.mk.injEq] at h
        obtain ⟨rfl, rfl⟩ := h
        exact ⟨rfl, Or.inr (Or.inr ⟨h1, h2, rfl⟩)⟩

/-- `IsGroebner()` with an undecided flag computes and caches exactly `decideGroebner` -/
theorem isGroebnerQ_undecided {id : Ideal α} (h1 : id.isGroebner ≠ 1) (h2 : id.isGroebner ≠ -1) :
    id.isGroebnerQ F o = (decideGroebner F o id.gens).map fun b =>
      ({ id with isGroebner := if b then 1 else -1 }, b) := by
  unfold Ideal.isGroebnerQ
  rw [if_neg h1, if_neg h2]

/-- the predicate is idempotent: asking again gives the same answer and changes nothing -/
theorem isGroebnerQ_idem {id id' : Ideal α} {b : Bool} (h : id.isGroebnerQ F o = some (id', b)) :
    id'.isGroebnerQ F o = some (id', b) := by
  obtain ⟨rfl, -⟩ := isGroebnerQ_spec h
  cases b
  · exact Effects.isGroebnerQ_of_neg_one F o rfl
  · exact Effects.isGroebnerQ_of_one F o rfl

/-- exact shape of `GroebnerBasis()` -/
theorem groebnerBasis_spec {id gb : Ideal α} (h : id.groebnerBasis F o = some gb) :
    (id.isGroebner = 1 ∧ gb = id) ∨
    (id.isGroebner ≠ 1 ∧ ∃ G, buchberger F o groebnerFuel id.gens = some G ∧
      gb = { gens := G, isGroebner := 1, isMinimal := 0, isReduced := 0 }) := by
  unfold Ideal.groebnerBasis at h
  by_cases h1 : id.isGroebner = 1
  · rw [if_pos h1] at h; cases h; exact Or.inl ⟨h1, rfl⟩
  · rw [if_neg h1] at h
    cases hb : buchberger F o groebnerFuel id.gens with
    | none => rw [hb] at h; cases h
    | some G =>
      rw [hb] at h
      simp only [Option.map_some, Option.some.injEq] at h
      exact Or.inr ⟨h1, G, rfl, h.symm⟩

/-- exact shape of `MinimizeBasis()` -/
theorem minimizeBasis_spec {id id' : Ideal α} {res : Except Kind Unit}
    (h : id.minimizeBasis F o = some (id', res)) :
    ∃ id1 b, id.isGroebnerQ F o = some (id1, b) ∧
      ((b = false ∧ id' = id1 ∧ res = .error .inputValue) ∨
       (b = true ∧ res = .ok () ∧
        id' = { id1 with gens := minimized F o id1.gens, isMinimal := 1,
                         isReduced := if id1.isReduced = 1 then 1 else 0 })) := by
  unfold Ideal.minimizeBasis at h
  cases hq : id.isGroebnerQ F o with
  | none => rw [hq] at h; cases h
  | some pr =>
    obtain ⟨id1, b⟩ := pr
    rw [hq] at h
    refine ⟨id1, b, rfl, ?_⟩
    cases b
    · simp only [Option.some.injEq, Prod.mk.injEq] at h
      exact Or.inl ⟨rfl, h.1.symm, h.2.symm⟩
    · simp only [Option.some.injEq, Prod.mk.injEq] at h
      exact Or.inr ⟨rfl, h.2.symm, h.1.symm⟩

theorem minimizeBasis_of_isGroebnerQ_false {id id1 : Ideal α}
    (hq : id.isGroebnerQ F o = some (id1, false)) :
    id.minimizeBasis F o = some (id1, .error .inputValue) := by
  unfold Ideal.minimizeBasis; rw [hq]

theorem minimizeBasis_of_isGroebnerQ_true {id id1 : Ideal α}
    (hq : id.isGroebnerQ F o = some (id1, true)) :
    id.minimizeBasis F o = some (⟨minimized F o id1.gens, id1.isGroebner, 1,
      if id1.isReduced = 1 then 1 else 0⟩, .ok ()) := by
  unfold Ideal.minimizeBasis; rw [hq]; rfl

theorem minimizeBasis_of_isGroebnerQ_none {id : Ideal α} (hq : id.isGroebnerQ F o = none) :
    id.minimizeBasis F o = none := by
  unfold Ideal.minimizeBasis; rw [hq]

/-- exact shape of `IsMinimal()` -/
theorem isMinimalQ_spec {id id' : Ideal α} {b : Bool} (h : id.isMinimalQ F o = some (id', b)) :
    (id.isMinimal = 1 ∧ id' = id ∧ b = true) ∨ (id.isMinimal = -1 ∧ id' = id ∧ b = false) ∨
    (id.isMinimal ≠ 1 ∧ id.isMinimal ≠ -1 ∧ ∃ id1 bg, id.isGroebnerQ F o = some (id1, bg) ∧
      ((bg = false ∧ b = false ∧ id' = { id1 with isMinimal := -1 }) ∨
       (bg = true ∧ b = decideMinimal F o id1.gens ∧
        id' = { id1 with gens := id1.gens.map (normalize F o),
                         isMinimal := if b then 1 else -1 }))) := by
  unfold Ideal.isMinimalQ at h
  by_cases h1 : id.isMinimal = 1
  · rw [if_pos h1] at h; cases h; exact Or.inl ⟨h1, rfl, rfl⟩
  · rw [if_neg h1] at h
    by_cases h2 : id.isMinimal = -1
    · rw [if_pos h2] at h; cases h; exact Or.inr (Or.inl ⟨h2, rfl, rfl⟩)
    · rw [if_neg h2] at h
      refine Or.inr (Or.inr ⟨h1, h2, ?_⟩)
      cases hq : id.isGroebnerQ F o with
      | none => rw [hq] at h; cases h
      | some pr =>
        obtain ⟨id1, bg⟩ := pr
        rw [hq] at h
        refine ⟨id1, bg, rfl, ?_⟩
        cases bg
        · simp only [Option.some.injEq, Prod.mk.injEq] at h
          exact Or.inl ⟨rfl, h.2.symm, h.1.symm⟩
        · simp only [Option.some.injEq, Prod.mk.injEq] at h
          refine Or.inr ⟨rfl, ?_, ?_⟩
          · rw [← h.2]; rfl
          · rw [← h.1, ← h.2]; rfl

/-- in every case the answer of `IsMinimal()` is what is cached afterwards -/
theorem isMinimalQ_flag {id id' : Ideal α} {b : Bool} (h : id.isMinimalQ F o = some (id', b)) :
    id'.isMinimal = if b then 1 else -1 := by
  rcases isMinimalQ_spec h with ⟨h1, rfl, rfl⟩ | ⟨h1, rfl, rfl⟩ | ⟨_, _, id1, bg, _, h3⟩
  · exact h1
  · exact h1
  · rcases h3 with ⟨_, rfl, rfl⟩ | ⟨_, _, rfl⟩ <;> rfl

theorem isMinimalQ_of_one {id : Ideal α} (h : id.isMinimal = 1) :
    id.isMinimalQ F o = some (id, true) := by
  unfold Ideal.isMinimalQ; rw [if_pos h]

theorem isMinimalQ_of_neg_one {id : Ideal α} (h : id.isMinimal = -1) :
    id.isMinimalQ F o = some (id, false) := by
  unfold Ideal.isMinimalQ; rw [if_neg (by rw [h]; decide), if_pos h]

theorem isMinimalQ_idem {id id' : Ideal α} {b : Bool} (h : id.isMinimalQ F o = some (id', b)) :
    id'.isMinimalQ F o = some (id', b) := by
  have hf := isMinimalQ_flag h
  cases b
  · exact isMinimalQ_of_neg_one hf
  · exact isMinimalQ_of_one hf

/-- exact shape of `ReduceBasis()` -/
theorem reduceBasis_spec {id id' : Ideal α} {res : Except Kind Unit}
    (h : id.reduceBasis F o = some (id', res)) :
    ∃ id1 bg, id.isGroebnerQ F o = some (id1, bg) ∧
      ((bg = false ∧ id' = id1 ∧ res = .error .inputValue) ∨
       (bg = true ∧ res = .ok () ∧ ∃ idm gens,
          (if id1.isMinimal ≠ 1 then (id1.minimizeBasis F o).map (·.1) else some id1) = some idm ∧
          reduceLoop F o idm.gens = some gens ∧
          id' = { idm with gens := gens, isReduced := 1 })) := by
  unfold Ideal.reduceBasis at h
  cases hq : id.isGroebnerQ F o with
  | none => rw [hq] at h; cases h
  | some pr =>
    obtain ⟨id1, bg⟩ := pr
    rw [hq] at h
    refine ⟨id1, bg, rfl, ?_⟩
    cases bg
    · simp only [Option.some.injEq, Prod.mk.injEq] at h
      exact Or.inl ⟨rfl, h.1.symm, h.2.symm⟩
    · simp only at h
      refine Or.inr ⟨rfl, ?_⟩
      generalize hM : (if id1.isMinimal ≠ 1 then Option.map (·.1) (id1.minimizeBasis F o)
        else some id1) = idM at h
      cases idM with
      | none => cases h
      | some idm =>
        replace h : (reduceLoop F o idm.gens).map (fun gens =>
            (({ idm with gens := gens, isReduced := 1 } : Ideal α), (Except.ok () : Except Kind Unit)))
            = some (id', res) := h
        cases hl : reduceLoop F o idm.gens with
        | none => rw [hl] at h; cases h
        | some gens =>
          rw [hl] at h
          simp only [Option.map_some, Option.some.injEq, Prod.mk.injEq] at h
          exact ⟨h.2.symm, idm, gens, rfl, hl, h.1.symm⟩

/-- exact shape of `IsReduced()` -/
theorem isReducedQ_spec {id id' : Ideal α} {b : Bool} (h : id.isReducedQ F o = some (id', b)) :
    (id.isReduced = 1 ∧ id' = id ∧ b = true) ∨ (id.isReduced = -1 ∧ id' = id ∧ b = false) ∨
    (id.isReduced ≠ 1 ∧ id.isReduced ≠ -1 ∧ ∃ id1 bm, id.isMinimalQ F o = some (id1, bm) ∧
      ((bm = false ∧ b = false ∧ id' = { id1 with isReduced := -1 }) ∨
       (bm = true ∧ decideReduced F o id1.gens = some b ∧
        id' = { id1 with isReduced := if b then 1 else -1 }))) := by
  unfold Ideal.isReducedQ at h
  by_cases h1 : id.isReduced = 1
  · rw [if_pos h1] at h; cases h; exact Or.inl ⟨h1, rfl, rfl⟩
  · rw [if_neg h1] at h
    by_cases h2 : id.isReduced = -1
    · rw [if_pos h2] at h; cases h; exact Or.inr (Or.inl ⟨h2, rfl, rfl⟩)
    · rw [if_neg h2] at h
      refine Or.inr (Or.inr ⟨h1, h2, ?_⟩)
      cases hq : id.isMinimalQ F o with
      | none => rw [hq] at h; cases h
      | some pr =>
        obtain ⟨id1, bm⟩ := pr
        rw [hq] at h
        refine ⟨id1, bm, rfl, ?_⟩
        cases bm
        · simp only [Option.some.injEq, Prod.mk.injEq] at h
          exact Or.inl ⟨rfl, h.2.symm, h.1.symm⟩
        · simp only at h
          refine Or.inr ⟨rfl, ?_⟩
          unfold decideReduced
          split at h
          · cases h
          · rename_i hany
            rw [if_neg hany]
            simp only [Option.some.injEq, Prod.mk.injEq] at h
            exact ⟨by rw [← h.2], by rw [← h.1, ← h.2]⟩

theorem isReducedQ_flag {id id' : Ideal α} {b : Bool} (h : id.isReducedQ F o = some (id', b)) :
    id'.isReduced = if b then 1 else -1 := by
  rcases isReducedQ_spec h with ⟨h1, rfl, rfl⟩ | ⟨h1, rfl, rfl⟩ | ⟨_, _, id1, bg, _, h3⟩
  · exact h1
  · exact h1
  · rcases h3 with ⟨_, rfl, rfl⟩ | ⟨_, _, rfl⟩ <;> rfl

theorem isReducedQ_of_one {id : Ideal α} (h : id.isReduced = 1) :
    id.isReducedQ F o = some (id, true) := by
  unfold Ideal.isReducedQ; rw [if_pos h]

theorem isReducedQ_of_neg_one {id : Ideal α} (h : id.isReduced = -1) :
    id.isReducedQ F o = some (id, false) := by
  unfold Ideal.isReducedQ; rw [if_neg (by rw [h]; decide), if_pos h]

theorem isReducedQ_idem {id id' : Ideal α} {b : Bool} (h : id.isReducedQ F o = some (id', b)) :
    id'.isReducedQ F o = some (id', b) := by
  have hf := isReducedQ_flag h
  cases b
  · exact isReducedQ_of_neg_one hf
  · exact isReducedQ_of_one hf

/-! ## Part A.4 : the flag invariant -/

variable (F o)

/-- `Derived g0 g` : the list `g` results from `g0` by the library's own basis transformations
    (normalising all generators, the removal loop of `MinimizeBasis`, the replacement loop of
    `ReduceBasis`) -/
inductive Derived : List (BPoly α) → List (BPoly α) → Prop
  | refl (g : List (BPoly α)) : Derived g g
  | norm {a b : List (BPoly α)} : Derived a b → Derived a (b.map (normalize F o))
  | minim {a b : List (BPoly α)} : Derived a b → Derived a (minimized F o b)
  | red {a b c : List (BPoly α)} : Derived a b → reduceLoop F o b = some c → Derived a c

/-- What the three cached flags of an ideal object mean IN THE MODEL (provable invariant):
    * a positive flag implies the weaker positive flags;
    * a negative Gröbner flag is the un-cached decision on the current generators;
    * a positive Gröbner flag: some ancestor list passed the S-pair test and the current list was
      obtained from it by the library's own transformations;
    * a negative minimality flag: not a Gröbner basis, or the current generators are the normalised
      ones and some leading term is divisible by another;
    * a negative reducedness flag: not minimal, or the un-cached decision on the current generators. -/
structure FlagsOK (id : Ideal α) : Prop where
  min_imp : id.isMinimal = 1 → id.isGroebner = 1
  red_imp : id.isReduced = 1 → id.isMinimal = 1
  gro_neg : id.isGroebner = -1 → decideGroebner F o id.gens = some false
  gro_pos : id.isGroebner = 1 → ∃ g0, decideGroebner F o g0 = some true ∧ Derived F o g0 id.gens
  min_neg : id.isMinimal = -1 → id.isGroebner = -1 ∨ (id.isGroebner = 1 ∧
      ∃ g0, id.gens = g0.map (normalize F o) ∧ decideMinimal F o g0 = false)
  red_neg : id.isReduced = -1 → id.isMinimal = -1 ∨
      (id.isMinimal = 1 ∧ decideReduced F o id.gens = some false)

variable {F o}

/-- a fresh ideal (`NewIdeal`: flags 0, 0, 0) satisfies the invariant -/
theorem FlagsOK.fresh (gens : List (BPoly α)) : FlagsOK F o { gens := gens } := by
  constructor <;> intro h <;> simp at h

theorem FlagsOK.isGroebnerQ {id id' : Ideal α} {b : Bool} (H : FlagsOK F o id)
    (h : id.isGroebnerQ F o = some (id', b)) : FlagsOK F o id' := by
  obtain ⟨rfl, hc⟩ := isGroebnerQ_spec h
  rcases hc with ⟨h1, rfl⟩ | ⟨h1, rfl⟩ | ⟨h1, h2, hd⟩
  · have : ({ id with isGroebner := if true then 1 else -1 } : Ideal α) = id := by
      cases id; simp_all
    rw [this]; exact H
  · have : ({ id with isGroebner := if false then 1 else -1 } : Ideal α) = id := by
      cases id; simp_all
    rw [this]; exact H
  · cases b
    · refine ⟨fun hm => absurd (H.min_imp hm) h1, H.red_imp, fun _ => hd,
        fun hc => (by simp at hc), fun _ => Or.inl rfl, H.red_neg⟩
    · refine ⟨fun _ => rfl, H.red_imp, fun hc => (by simp at hc),
        fun _ => ⟨id.gens, hd, Derived.refl _⟩, fun hm => ?_, H.red_neg⟩
      rcases H.min_neg hm with h3 | ⟨h3, -⟩
      · exact absurd h3 h2
      · exact absurd h3 h1

/-- after a positive `IsGroebner()` the flag is 1, after a negative one it is -1 -/
theorem isGroebnerQ_flag {id id' : Ideal α} {b : Bool} (h : id.isGroebnerQ F o = some (id', b)) :
    id'.isGroebner = if b then 1 else -1 := (Effects.isGroebnerQ_frame F o h).2.2.2.1

theorem FlagsOK.minimizeBasis {id id' : Ideal α} {res : Except Kind Unit} (H : FlagsOK F o id)
    (h : id.minimizeBasis F o = some (id', res)) : FlagsOK F o id' := by
  obtain ⟨id1, b, hq, hc⟩ := minimizeBasis_spec h
  have H1 := H.isGroebnerQ hq
  have hf := isGroebnerQ_flag hq
  rcases hc with ⟨rfl, rfl, -⟩ | ⟨rfl, -, rfl⟩
  · exact H1
  · simp only [if_true] at hf
    refine ⟨fun _ => hf, fun _ => rfl, fun hc => ?_, fun _ => ?_, fun hc => (by simp at hc),
      fun hc => ?_⟩
    · simp only at hc; rw [hf] at hc; simp at hc
    · obtain ⟨g0, hg0, hd⟩ := H1.gro_pos hf
      exact ⟨g0, hg0, Derived.minim hd⟩
    · simp only at hc
      split at hc <;> simp at hc

/-- on a (then) positively flagged object `MinimizeBasis()` sets `isMinimal = 1` -/
theorem minimizeBasis_flag {id id' : Ideal α} {res : Except Kind Unit}
    (h : id.minimizeBasis F o = some (id', res)) :
    (res = .error .inputValue ∧ id'.isGroebner = -1) ∨
    (res = .ok () ∧ id'.isGroebner = 1 ∧ id'.isMinimal = 1) := by
  obtain ⟨id1, b, hq, hc⟩ := minimizeBasis_spec h
  have hf := isGroebnerQ_flag hq
  rcases hc with ⟨rfl, rfl, rfl⟩ | ⟨rfl, rfl, rfl⟩
  · exact Or.inl ⟨rfl, hf⟩
  · exact Or.inr ⟨rfl, hf, rfl⟩

/-- `IsMinimal()` does not touch the reducedness flag -/
theorem isMinimalQ_isReduced {id id' : Ideal α} {b : Bool} (h : id.isMinimalQ F o = some (id', b)) :
    id'.isReduced = id.isReduced := by
  rcases isMinimalQ_spec h with ⟨_, rfl, _⟩ | ⟨_, rfl, _⟩ | ⟨_, _, id1, bg, hq, h3⟩
  · rfl
  · rfl
  · have := (Effects.isGroebnerQ_frame F o hq).2.2.1
    rcases h3 with ⟨_, _, rfl⟩ | ⟨_, _, rfl⟩ <;> exact this

theorem FlagsOK.isMinimalQ {id id' : Ideal α} {b : Bool} (H : FlagsOK F o id)
    (h : id.isMinimalQ F o = some (id', b)) : FlagsOK F o id' := by
  rcases isMinimalQ_spec h with ⟨_, rfl, _⟩ | ⟨_, rfl, _⟩ | ⟨h1, h2, id1, bg, hq, h3⟩
  · exact H
  · exact H
  · have H1 := H.isGroebnerQ hq
    have hf := isGroebnerQ_flag hq
    obtain ⟨hg, hm, hr, -⟩ := Effects.isGroebnerQ_frame F o hq
    rw [← hm] at h1 h2
    rcases h3 with ⟨rfl, rfl, rfl⟩ | ⟨rfl, hb, rfl⟩
    · refine ⟨fun hc => (by simp at hc), fun hc => absurd (H1.red_imp hc) h1, H1.gro_neg,
        H1.gro_pos, fun _ => Or.inl hf, fun _ => Or.inl rfl⟩
    · simp only [if_true] at hf
      refine ⟨fun _ => hf, fun hc => absurd (H1.red_imp hc) h1,
        fun hc => ?_, fun _ => ?_, fun hc => ?_, fun hc => ?_⟩
      · simp only at hc; rw [hf] at hc; simp at hc
      · obtain ⟨g0, hg0, hd⟩ := H1.gro_pos hf
        exact ⟨g0, hg0, Derived.norm hd⟩
      · refine Or.inr ⟨hf, id1.gens, rfl, ?_⟩
        simp only at hc
        cases b
        · exact hb.symm
        · simp at hc
      · rcases H1.red_neg hc with h3 | ⟨h3, -⟩
        · exact absurd h3 h2
        · exact absurd h3 h1

theorem FlagsOK.reduceBasis {id id' : Ideal α} {res : Except Kind Unit} (H : FlagsOK F o id)
    (h : id.reduceBasis F o = some (id', res)) : FlagsOK F o id' := by
  obtain ⟨id1, bg, hq, hc⟩ := reduceBasis_spec h
  have H1 := H.isGroebnerQ hq
  have hf := isGroebnerQ_flag hq
  rcases hc with ⟨rfl, rfl, -⟩ | ⟨rfl, -, idm, gens, hM, hl, rfl⟩
  · exact H1
  · simp only [if_true] at hf
    -- the intermediate object is flagged Gröbner and minimal and satisfies the invariant
    have hm : FlagsOK F o idm ∧ idm.isGroebner = 1 ∧ idm.isMinimal = 1 := by
      by_cases hmin : id1.isMinimal = 1
      · rw [if_neg (by simpa using hmin)] at hM
        cases hM; exact ⟨H1, hf, hmin⟩
      · rw [if_pos hmin] at hM
        cases hmb : id1.minimizeBasis F o with
        | none => rw [hmb] at hM; cases hM
        | some pr =>
          obtain ⟨im, rr⟩ := pr
          rw [hmb] at hM
          simp only [Option.map_some, Option.some.injEq] at hM
          subst hM
          refine ⟨H1.minimizeBasis hmb, ?_⟩
          rcases minimizeBasis_flag hmb with ⟨-, h3⟩ | ⟨-, h3, h4⟩
          · have := Effects.minimizeBasis_keeps_flag F o hf hmb
            rw [this] at h3; simp at h3
          · exact ⟨h3, h4⟩
    obtain ⟨Hm, hg1, hm1⟩ := hm
    refine ⟨fun _ => hg1, fun _ => hm1, fun hc => ?_, fun _ => ?_, fun hc => ?_,
      fun hc => (by simp at hc)⟩
    · simp only at hc; rw [hg1] at hc; simp at hc
    · obtain ⟨g0, hg0, hd⟩ := Hm.gro_pos hg1
      exact ⟨g0, hg0, Derived.red hd hl⟩
    · simp only at hc; rw [hm1] at hc; simp at hc

theorem FlagsOK.isReducedQ {id id' : Ideal α} {b : Bool} (H : FlagsOK F o id)
    (h : id.isReducedQ F o = some (id', b)) : FlagsOK F o id' := by
  rcases isReducedQ_spec h with ⟨_, rfl, _⟩ | ⟨_, rfl, _⟩ | ⟨h1, h2, id1, bm, hq, h3⟩
  · exact H
  · exact H
  · have H1 := H.isMinimalQ hq
    have hf := isMinimalQ_flag hq
    rcases h3 with ⟨rfl, rfl, rfl⟩ | ⟨rfl, hb, rfl⟩
    · exact ⟨H1.min_imp, fun hc => (by simp at hc), H1.gro_neg, H1.gro_pos, H1.min_neg,
        fun _ => Or.inl hf⟩
    · simp only [if_true] at hf
      refine ⟨H1.min_imp, fun _ => hf, H1.gro_neg, H1.gro_pos, H1.min_neg, fun hc => ?_⟩
      refine Or.inr ⟨hf, ?_⟩
      simp only at hc
      cases b
      · exact hb
      · simp at hc

theorem decideGroebner_of_buchberger {fuel : Nat} {gens G : List (BPoly α)}
    (h : buchberger F o fuel gens = some G) : decideGroebner F o G = some true := by
  unfold decideGroebner
  rw [buchberger_spairs_zero h]; rfl

theorem FlagsOK.groebnerBasis {id gb : Ideal α} (H : FlagsOK F o id)
    (h : id.groebnerBasis F o = some gb) : FlagsOK F o gb := by
  rcases groebnerBasis_spec h with ⟨-, rfl⟩ | ⟨-, G, hG, rfl⟩
  · exact H
  · refine ⟨fun _ => rfl, fun hc => (by simp at hc), fun hc => (by simp at hc),
      fun _ => ⟨G, decideGroebner_of_buchberger hG, Derived.refl _⟩,
      fun hc => (by simp at hc), fun hc => (by simp at hc)⟩

/-- the state-changing public methods of an ideal object (`Copy()` returns an equal object) -/
inductive IdealOp where
  | isGroebner | isMinimal | isReduced | minimizeBasis | reduceBasis | groebnerBasis | copy

variable (F o) in
/-- the ideal object after the call (`none` = the model ran out of fuel) -/
def IdealOp.apply : IdealOp → Ideal α → Option (Ideal α)
  | .isGroebner, id => (id.isGroebnerQ F o).map (·.1)
  | .isMinimal, id => (id.isMinimalQ F o).map (·.1)
  | .isReduced, id => (id.isReducedQ F o).map (·.1)
  | .minimizeBasis, id => (id.minimizeBasis F o).map (·.1)
  | .reduceBasis, id => (id.reduceBasis F o).map (·.1)
  | .groebnerBasis, id => id.groebnerBasis F o
  | .copy, id => some id

variable (F o) in
def IdealOp.run : List IdealOp → Ideal α → Option (Ideal α)
  | [], id => some id
  | op :: ops, id => (op.apply F o id).bind (IdealOp.run ops)

theorem FlagsOK.apply {id id' : Ideal α} (op : IdealOp) (H : FlagsOK F o id)
    (h : op.apply F o id = some id') : FlagsOK F o id' := by
  cases op <;> simp only [IdealOp.apply, Option.map_eq_some_iff, Prod.exists, exists_and_right,
    exists_eq_right] at h
  · obtain ⟨b, h⟩ := h; exact H.isGroebnerQ h
  · obtain ⟨b, h⟩ := h; exact H.isMinimalQ h
  · obtain ⟨b, h⟩ := h; exact H.isReducedQ h
  · obtain ⟨b, h⟩ := h; exact H.minimizeBasis h
  · obtain ⟨b, h⟩ := h; exact H.reduceBasis h
  · exact H.groebnerBasis h
  · cases h; exact H

/-- the invariant holds after every sequence of calls on an object created by `NewIdeal` -/
theorem FlagsOK.run {id id' : Ideal α} (ops : List IdealOp) (H : FlagsOK F o id)
    (h : IdealOp.run F o ops id = some id') : FlagsOK F o id' := by
  induction ops generalizing id with
  | nil => simp only [IdealOp.run, Option.some.injEq] at h; subst h; exact H
  | cons op ops ih =>
    simp only [IdealOp.run] at h
    cases ha : op.apply F o id with
    | none => rw [ha] at h; cases h
    | some id1 =>
      rw [ha] at h
      exact ih (H.apply op ha) h

/-! ## Part A.5 : errors of the transformations -/

/-- `MinimizeBasis()` reports an error exactly when `IsGroebner()` answers `false`; the error is
    `InputValue` and the object is the one `IsGroebner()` left behind (same generators) -/
theorem minimizeBasis_error_iff {id id' : Ideal α} {k : Kind} :
    id.minimizeBasis F o = some (id', .error k) ↔
      id.isGroebnerQ F o = some (id', false) ∧ k = .inputValue := by
  constructor
  · intro h
    obtain ⟨id1, b, hq, hc⟩ := minimizeBasis_spec h
    rcases hc with ⟨rfl, rfl, he⟩ | ⟨_, he, _⟩
    · cases he; exact ⟨hq, rfl⟩
    · cases he
  · rintro ⟨hq, rfl⟩
    exact minimizeBasis_of_isGroebnerQ_false hq

theorem reduceBasis_of_isGroebnerQ_false {id id1 : Ideal α}
    (hq : id.isGroebnerQ F o = some (id1, false)) :
    id.reduceBasis F o = some (id1, .error .inputValue) := by
  unfold Ideal.reduceBasis; rw [hq]

theorem reduceBasis_error_iff {id id' : Ideal α} {k : Kind} :
    id.reduceBasis F o = some (id', .error k) ↔
      id.isGroebnerQ F o = some (id', false) ∧ k = .inputValue := by
  constructor
  · intro h
    obtain ⟨id1, b, hq, hc⟩ := reduceBasis_spec h
    rcases hc with ⟨rfl, rfl, he⟩ | ⟨_, he, _⟩
    · cases he; exact ⟨hq, rfl⟩
    · cases he
  · rintro ⟨hq, rfl⟩
    exact reduceBasis_of_isGroebnerQ_false hq

/-! ## Part A.6 : `minimizeLoop` and the replacement loop of `ReduceBasis` -/

theorem minimizeLoop_sublist (fuel i : Nat) (gens lts : List (BPoly α)) :
    (minimizeLoop F o fuel i gens lts).Sublist gens := by
  induction fuel generalizing i gens lts with
  | zero => exact List.Sublist.refl _
  | succ n ih =>
    rw [minimizeLoop]
    split
    · exact List.Sublist.refl _
    · split
      · exact (ih i _ _).trans (List.eraseIdx_sublist _ _)
      · exact ih (i + 1) gens lts

variable (F o) in
/-- `MinTrace gens lts final` : `final` results from `gens` by removing, one after the other,
    generators whose leading term was, AT THE TIME OF REMOVAL, spanned by the leading terms of the
    other generators still present (`lts` is kept in step with `gens`) -/
inductive MinTrace : List (BPoly α) → List (BPoly α) → List (BPoly α) → Prop
  | done (gens lts : List (BPoly α)) : MinTrace gens lts gens
  | drop {gens lts final : List (BPoly α)} (i : Nat) (hi : i < gens.length)
      (h : spannedByOthers F o lts i = true) :
      MinTrace (gens.eraseIdx i) (lts.eraseIdx i) final → MinTrace gens lts final

theorem minimizeLoop_trace (fuel i : Nat) (gens lts : List (BPoly α)) :
    MinTrace F o gens lts (minimizeLoop F o fuel i gens lts) := by
  induction fuel generalizing i gens lts with
  | zero => exact MinTrace.done _ _
  | succ n ih =>
    rw [minimizeLoop]
    split
    · exact MinTrace.done _ _
    · rename_i hi
      split
      · rename_i hsp
        exact MinTrace.drop i (by omega) hsp (ih i _ _)
      · exact ih (i + 1) gens lts

theorem minimized_sublist (gens : List (BPoly α)) :
    (minimized F o gens).Sublist (gens.map (normalize F o)) :=
  minimizeLoop_sublist _ _ _ _

theorem minimized_trace (gens : List (BPoly α)) :
    MinTrace F o (gens.map (normalize F o)) ((gens.map (normalize F o)).map (lt F o))
      (minimized F o gens) :=
  minimizeLoop_trace _ _ _ _

/-- invariant rule for the replacement loop of `ReduceBasis()` -/
theorem reduceLoop_induct (P : List (BPoly α) → Prop) {g0 g' : List (BPoly α)}
    (h : reduceLoop F o g0 = some g') (h0 : P g0)
    (hstep : ∀ g i r, P g → g.length = g0.length → i < g0.length →
      remByOthers F o g i = some r → P (g.set i r)) : P g' ∧ g'.length = g0.length := by
  unfold reduceLoop at h
  have key : ∀ (l : List Nat) (g : List (BPoly α)), (∀ i ∈ l, i < g0.length) → P g →
      g.length = g0.length →
      l.foldl (fun acc i => match acc with
        | none => none
        | some gens => (remByOthers F o gens i).map fun r => gens.set i r) (some g) = some g' →
      P g' ∧ g'.length = g0.length := by
    intro l
    induction l with
    | nil =>
      intro g _ hP hlen hf
      simp only [List.foldl_nil, Option.some.injEq] at hf
      subst hf; exact ⟨hP, hlen⟩
    | cons i t ih =>
      intro g hl hP hlen hf
      rw [List.foldl_cons] at hf
      cases hr : remByOthers F o g i with
      | none =>
        simp only [hr, Option.map_none] at hf
        have : ∀ (t : List Nat), t.foldl (fun acc i => match acc with
            | none => none
            | some gens => (remByOthers F o gens i).map fun r => gens.set i r)
            (none : Option (List (BPoly α))) = none := by
          intro t; induction t with
          | nil => rfl
          | cons _ _ ih => rw [List.foldl_cons]; exact ih
        rw [this] at hf; cases hf
      | some r =>
        simp only [hr, Option.map_some] at hf
        exact ih (g.set i r) (fun j hj => hl j (List.mem_cons_of_mem _ hj))
          (hstep g i r hP hlen (hl i List.mem_cons_self) hr) (by rw [List.length_set, hlen]) hf
  exact key _ g0 (fun i hi => List.mem_range.1 hi) h0 rfl h

/-- the replacement loop keeps the number of generators -/
theorem reduceLoop_length {g0 g' : List (BPoly α)} (h : reduceLoop F o g0 = some g') :
    g'.length = g0.length :=
  (reduceLoop_induct (fun _ => True) h trivial (fun _ _ _ _ _ _ _ => trivial)).2

/-! ## Part A.7 : `times`, `pow`, `ofMap` are `reduceIn` of the exact product / power / map -/

/-- `r` is an output of `(*Polynomial).reduce` in the ring `R` -/
def IsRed (R : Ring α) (r : BPoly α) : Prop := ∃ h, reduceIn R h = some r

theorem times_eq (R : Ring α) (f g : BPoly α) :
    times R f g = match mulNoReduce R.F f g with
      | none => .error .overflow
      | some h => .ok (reduceIn R h) := rfl

theorem times_error_iff {R : Ring α} {f g : BPoly α} {k : Kind} :
    times R f g = .error k ↔ mulNoReduce R.F f g = none ∧ k = .overflow := by
  rw [times_eq]
  cases mulNoReduce R.F f g with
  | none => simp [eq_comm]
  | some h => simp

theorem times_ok_iff {R : Ring α} {f g : BPoly α} {r : Option (BPoly α)} :
    times R f g = .ok r ↔ ∃ h, mulNoReduce R.F f g = some h ∧ reduceIn R h = r := by
  rw [times_eq]
  cases mulNoReduce R.F f g with
  | none => simp
  | some h => simp

theorem times_isRed {R : Ring α} {f g r : BPoly α} (h : times R f g = .ok (some r)) :
    IsRed R r := by
  obtain ⟨h', _, hr⟩ := times_ok_iff.1 h
  exact ⟨h', hr⟩

theorem ofMap_eq (R : Ring α) (m : List (Deg × α)) :
    ofMap R m = reduceIn R (m.foldl (fun acc (d, c) => if R.F.isZero c then acc else put acc d c) []) :=
  rfl

theorem ofMap_isRed {R : Ring α} {m : List (Deg × α)} {r : BPoly α} (h : ofMap R m = some r) :
    IsRed R r := ⟨_, h⟩

/-- one round of the square-and-multiply loop of `Pow`, spelled out -/
theorem powLoop_succ (R : Ring α) (fuel n : Nat) (out g : BPoly α) :
    powLoop R (fuel + 1) n out g =
      if n = 0 then .ok (some out)
      else match (if n % 2 = 1 then times R out g else .ok (some out)) with
        | .error k => .error k
        | .ok none => .ok none
        | .ok (some o) =>
          if n / 2 = 0 then .ok (some o)
          else match times R g g with
            | .error k => .error k
            | .ok none => .ok none
            | .ok (some g2) => powLoop R fuel (n / 2) o g2 := rfl

/-- the only error of `Pow` is the exponent overflow of a multiplication -/
theorem powLoop_error {R : Ring α} {fuel n : Nat} {out g : BPoly α} {k : Kind}
    (h : powLoop R fuel n out g = .error k) : k = .overflow := by
  induction fuel generalizing n out g with
  | zero => simp [powLoop] at h
  | succ m ih =>
    rw [powLoop_succ] at h
    split at h
    · cases h
    · split at h
      · rename_i k' hk
        cases h
        split at hk
        · exact (times_error_iff.1 hk).2
        · cases hk
      · cases h
      · split at h
        · cases h
        · split at h
          · rename_i k' hk; cases h; exact (times_error_iff.1 hk).2
          · cases h
          · exact ih h

/-- every value of the loop is its start value or an output of `reduce` -/
theorem powLoop_isRed {R : Ring α} {fuel n : Nat} {out g r : BPoly α}
    (h : powLoop R fuel n out g = .ok (some r)) : r = out ∨ IsRed R r := by
  induction fuel generalizing n out g with
  | zero => simp [powLoop] at h
  | succ m ih =>
    rw [powLoop_succ] at h
    split at h
    · cases h; exact Or.inl rfl
    · split at h
      · cases h
      · cases h
      · rename_i o' ho
        have ho' : o' = out ∨ IsRed R o' := by
          split at ho
          · exact Or.inr (times_isRed ho)
          · cases ho; exact Or.inl rfl
        split at h
        · cases h; exact ho'
        · split at h
          · cases h
          · cases h
          · rcases ih h with rfl | hr
            · exact ho'
            · exact Or.inr hr

theorem pow_eq (R : Ring α) (f : BPoly α) (n : Nat) :
    pow R f n = match reduceIn R [((0, 0), R.F.one)] with
      | some o => powLoop R 70 n o f
      | none => .ok none := rfl

theorem pow_error {R : Ring α} {f : BPoly α} {n : Nat} {k : Kind} (h : pow R f n = .error k) :
    k = .overflow := by
  rw [pow_eq] at h
  split at h
  · exact powLoop_error h
  · cases h

theorem pow_isRed {R : Ring α} {f r : BPoly α} {n : Nat} (h : pow R f n = .ok (some r)) :
    IsRed R r := by
  rw [pow_eq] at h
  split at h
  · rename_i o' ho
    rcases powLoop_isRed h with rfl | hr
    · exact ⟨_, ho⟩
    · exact hr
  · cases h

/-! ## Part B : statements that use the division equation

  The division theorem (`f = Σ qᵢ gᵢ + r`) is proved in Proofs/BPolyDiv.lean by another agent.
  Here it enters as the explicit hypothesis `DivSpec L o Safe`, where `Safe ignore gs fuel f` is the
  guard under which the equation is available for the run `quoRemLoop F o ignore gs fuel f …`
  (no exponent wrap-around in `subWithShiftAndScale`, which the Go code does not check).
  Everything that does not need the equation (well-formedness of quotients and remainder, word
  size of the exponents, the ignored quotient stays zero) is proved here without guard. -/

section PartB
open AddMonoidAlgebra (single)
variable {K : Type} [Field K] (L : Lawful F K)

namespace Gb

/-! ### B.0 unconditional facts about `quoRemLoop` -/

theorem WF_subShiftScale' {f g : BPoly α} (i : Deg) {a : α} (hf : WF L f) (hg : CV L g)
    (ha : L.valid a) : WF L (subShiftScale F f g i a) := by
  have loop : ∀ (m : α → α), (∀ c, L.valid c → L.valid (m c)) → ∀ (g f : BPoly α), CV L g →
      WF L f → WF L (g.foldl (fun acc (d, c) => if F.isZero c then acc
        else decCoef F acc (w64 (d.1 + i.1), w64 (d.2 + i.2)) (m c)) f) := by
    intro m hm g
    induction g with
    | nil => exact fun f _ hf => hf
    | cons x t ih =>
      intro f hg hf
      rw [CV_cons] at hg
      rw [List.foldl_cons]
      apply ih _ hg.2
      simp only
      split
      · exact hf
      · exact WF_decCoef L hf _ (hm _ hg.1)
  unfold subShiftScale
  split
  · exact hf
  · split
    · exact loop (fun c => c) (fun c hc => hc) g f hg hf
    · exact loop (fun c => F.mul a c) (fun c hc => L.mul_valid a c ha hc) g f hg hf

theorem lcQuot_valid' {p g : BPoly α} (hp : CV L p) (hg : CV L g) (o : Order) :
    L.valid (lcQuot F o p g) := by
  unfold lcQuot
  have hlp := lc_valid L hp o
  have hlg := lc_valid L hg o
  simp only
  split
  · exact L.mul_valid _ _ hlp hlg
  · by_cases h0 : L.embed (lc F o g) = 0
    · rw [L.inv_none _ hlg h0]; exact L.zero_valid
    · obtain ⟨i, e1, e2, _⟩ := L.inv_some _ hlg h0
      rw [e1]; exact L.mul_valid _ _ hlp e2

/-- the divisor found by `firstDiv` is a list element at a non-ignored index -/
theorem firstDiv_mem {o : Order} {pLd : Deg} {ignore : Option Nat} {gs : List (BPoly α)} {n i : Nat}
    {g : BPoly α} {dd : Deg} (h : firstDiv o pLd ignore gs n = some (i, g, dd)) :
    g ∈ gs ∧ ignore ≠ some i ∧ subDegs pLd (ld o g) = some dd := by
  induction gs generalizing n with
  | nil => simp [firstDiv] at h
  | cons x t ih =>
    rw [firstDiv] at h
    split at h
    · obtain ⟨h1, h2, h3⟩ := ih h
      exact ⟨List.mem_cons_of_mem _ h1, h2, h3⟩
    · rename_i hign
      split at h
      · rename_i dd' hsd
        simp only [Option.some.injEq, Prod.mk.injEq] at h
        obtain ⟨rfl, rfl, rfl⟩ := h
        refine ⟨List.mem_cons_self, ?_, hsd⟩
        intro hc; rw [hc] at hign; simp at hign
      · obtain ⟨h1, h2, h3⟩ := ih h
        exact ⟨List.mem_cons_of_mem _ h1, h2, h3⟩

theorem ld_bounded {o : Order} {p : BPoly α} (hp : Bounded p) :
    (ld o p).1 < 2 ^ 64 ∧ (ld o p).2 < 2 ^ 64 := by
  rcases ld_mem_or o p with h | h
  · rw [h]; exact ⟨by norm_num, by norm_num⟩
  · obtain ⟨x, hx, he⟩ := List.mem_map.1 h
    rw [← he]; exact hp x hx

/-- quotients and remainder are well-formed and the remainder has word-size exponents, whatever
    happens to the exponents during the run (no guard needed) -/
theorem quoRemLoop_wf {o : Order} {ignore : Option Nat} {gs : List (BPoly α)}
    (hgs : ∀ g ∈ gs, CV L g) :
    ∀ (fuel : Nat) (p : BPoly α) (qs : List (BPoly α)) (r : BPoly α) {qs' : List (BPoly α)}
      {r' : BPoly α}, WF L p → (∀ q ∈ qs, WF L q) → WF L r →
      quoRemLoop F o ignore gs fuel p qs r = some (qs', r') →
      (∀ q ∈ qs', WF L q) ∧ WF L r' ∧ qs'.length = qs.length ∧
      (Bounded p → Bounded r → Bounded r') ∧
      (∀ k, ignore = some k → qs'[k]? = qs[k]?) := by
  intro fuel
  induction fuel with
  | zero => intro p qs r qs' r' _ _ _ h; simp [quoRemLoop] at h
  | succ n ih =>
    intro p qs r qs' r' hp hqs hr h
    rw [quoRemLoop] at h
    split at h
    · simp only [Option.some.injEq, Prod.mk.injEq] at h
      obtain ⟨rfl, rfl⟩ := h
      exact ⟨hqs, hr, rfl, fun _ hb => hb, fun _ _ => rfl⟩
    · simp only at h
      split at h
      · rename_i i g dd hfd
        obtain ⟨hg, hign, -⟩ := firstDiv_mem hfd
        have hgc := hgs g hg
        have ht := lcQuot_valid' L hp.cv hgc o
        have hq' : ∀ q ∈ qs.set i (incCoef F (qs.getD i []) dd (lcQuot F o p g)), WF L q := by
          intro q hq
          rcases List.mem_or_eq_of_mem_set hq with hq | rfl
          · exact hqs q hq
          · apply WF_incCoef L _ _ ht
            rw [List.getD_eq_getElem?_getD]
            cases hqi : qs[i]? with
            | none => exact WF_nil L
            | some q0 => exact hqs q0 (List.mem_of_getElem? hqi)
        obtain ⟨c1, c2, c3, c4, c5⟩ := ih _ _ _ (WF_subShiftScale' L dd hp hgc ht) hq' hr h
        refine ⟨c1, c2, by rw [c3, List.length_set], fun hb hrb =>
          c4 (Bounded_subShiftScale dd _ hb) hrb, fun k hk => ?_⟩
        rw [c5 k hk, List.getElem?_set_ne]
        rintro rfl
        exact hign hk
      · have hr' : WF L (incCoef F r (ld o p) (coef F p (ld o p))) :=
          WF_incCoef L hr _ (coef_valid L hp.cv _)
        obtain ⟨c1, c2, c3, c4, c5⟩ := ih _ _ _ (WF_erase L hp _) hqs hr' h
        refine ⟨c1, c2, c3, fun hb hrb => c4 ?_ ?_, c5⟩
        · rw [Bounded_iff_KeysIn] at hb ⊢; exact KeysIn_erase hb _
        · rw [Bounded_iff_KeysIn] at hrb ⊢
          exact KeysIn_incCoef hrb (ld_bounded hb) _

/-! ### B.1 `multNoReduce` with an arbitrary first factor -/

theorem addDegs_some_noOvf {a b s : Deg} (hb : b.1 < 2 ^ 64 ∧ b.2 < 2 ^ 64)
    (h : addDegs a b = some s) : NoOvf a b := by
  unfold addDegs at h
  simp only at h
  split at h
  · cases h
  · rename_i hc
    simp only [Bool.or_eq_true, decide_eq_true_eq, not_or, not_lt] at hc
    unfold NoOvf
    unfold w64 at hc
    omega

theorem mulInner_some_noOvf {df : Deg} {cf : α} {g : BPoly α} (hg : Bounded g)
    {acc : Option (BPoly α)} {h' : BPoly α} (h : mulInner F df cf g acc = some h') :
    ∀ dc ∈ g, NoOvf df dc.1 := by
  induction g generalizing acc with
  | nil => intro _ h; cases h
  | cons x t ih =>
    rw [Bounded_cons] at hg
    rw [mulInner, List.foldl_cons] at h
    intro dc hdc
    rcases List.mem_cons.1 hdc with rfl | hdc
    · cases hacc : acc with
      | none =>
        simp only [hacc] at h
        rw [show (List.foldl _ none t) = mulInner F df cf t none from rfl, mulInner_none] at h
        cases h
      | some a =>
        cases had : addDegs df dc.1 with
        | none =>
          simp only [hacc, had] at h
          rw [show (List.foldl _ none t) = mulInner F df cf t none from rfl, mulInner_none] at h
          cases h
        | some s => exact addDegs_some_noOvf hg.1 had
    · exact ih hg.2 h dc hdc

theorem mulOuter_some_noOvf {f g : BPoly α} (hg : Bounded g) {acc : Option (BPoly α)}
    {h' : BPoly α} (h : mulOuter F f g acc = some h') : ¬ Ovf f g := by
  induction f generalizing acc with
  | nil => rintro ⟨_, hx, _⟩; cases hx
  | cons x t ih =>
    rw [mulOuter, List.foldl_cons] at h
    rintro ⟨a, ha, b, hb, hn⟩
    rcases List.mem_cons.1 ha with rfl | ha
    · cases hi : mulInner F a.1 a.2 g acc with
      | none =>
        simp only [hi] at h
        rw [show (List.foldl _ none t) = mulOuter F t g none from rfl, mulOuter_none] at h
        cases h
      | some v => exact hn (mulInner_some_noOvf hg hi b hb)
    · exact ih h ⟨a, ha, b, hb, hn⟩

/-- the product is exact whenever `multNoReduce` succeeds and the SECOND factor has word-size
    exponents (nothing is asked of the exponents of the first factor) -/
theorem mulNoReduce_spec2 {f g h : BPoly α} (hf : CV L f) (hg : CV L g) (bg : Bounded g)
    (hm : mulNoReduce F f g = some h) : WF L h ∧ toMv L h = toMv L f * toMv L g := by
  rw [mulNoReduce_eq] at hm
  have hno := mulOuter_some_noOvf bg hm
  obtain ⟨h', e, w, t⟩ := mulNoReduce_some L hf hg hno
  rw [mulNoReduce_eq, hm] at e
  cases e
  exact ⟨w, t⟩

/-! ### B.2 `SPolynomial` -/

theorem CV_one : CV L ([((0, 0), F.one)] : BPoly α) := (WF_one L).cv

/-- the S-polynomial is a combination `a·f − b·g` (whatever the multipliers are) -/
theorem sPoly_spec {o : Order} {f g s : BPoly α} (hf : CV L f) (hg : CV L g) (bf : Bounded f)
    (bg : Bounded g) (h : sPoly F o f g = some s) :
    WF L s ∧ Bounded s ∧ ∃ a b : AddMonoidAlgebra K (ℕ × ℕ), toMv L s = a * toMv L f - b * toMv L g := by
  unfold sPoly at h
  simp only at h
  have hlcm : WF L (monomialLcm F o (lt F o f) (lt F o g)) := by
    unfold monomialLcm
    refine ⟨by simp, ?_⟩
    intro dc hdc
    simp only [List.mem_singleton] at hdc
    subst hdc
    exact ⟨L.one_valid, by simp only [L.embed_one]; exact one_ne_zero⟩
  have hq : ∀ (t : BPoly α) (q : List (BPoly α)) (r : BPoly α), CV L t →
      quoRemLoop F o none [lt F o t] 1000 (monomialLcm F o (lt F o f) (lt F o g)) [[]] [] = some (q, r) →
      CV L (q.headD []) := by
    intro t q r ht hq
    obtain ⟨c1, -⟩ := quoRemLoop_wf L (gs := [lt F o t])
      (fun x hx => by
        simp only [List.mem_singleton] at hx; subst hx; exact (lt_spec L ht o).1.cv)
      1000 _ [[]] [] hlcm
      (fun q hq => by simp only [List.mem_singleton] at hq; subst hq; exact WF_nil L) (WF_nil L) hq
    cases q with
    | nil => exact CV_nil L
    | cons a _ => exact (c1 a List.mem_cons_self).cv
  split at h
  · rename_i q1 r1 q2 r2 h1 h2
    split at h
    · rename_i a b ha hb
      cases h
      obtain ⟨wa, ta⟩ := mulNoReduce_spec2 L (hq f q1 r1 hf h1) hf bf ha
      obtain ⟨wb, tb⟩ := mulNoReduce_spec2 L (hq g q2 r2 hg h2) hg bg hb
      obtain ⟨ws, ts⟩ := sub_spec L wa wb.cv
      refine ⟨ws, ?_, toMv L (q1.headD []), toMv L (q2.headD []), by rw [ts, ta, tb]⟩
      have b1 := Bounded_mulNoReduce ha
      have b2 := Bounded_mulNoReduce hb
      rw [Bounded_iff_KeysIn] at b1 b2 ⊢
      exact KeysIn_sub b1 b2
    · cases h
  · cases h

end Gb

/-! ### B.3 the hypotheses `DivSpec`, `RemSpec` -/

/-- `Σ_i qs_i * gs_i` in `K[X,Y]` -/
noncomputable def qdot (qs gs : List (BPoly α)) : AddMonoidAlgebra K (ℕ × ℕ) :=
  (List.zipWith (fun q g => toMv L q * toMv L g) qs gs).sum

/-- THE DIVISION EQUATION (hypothesis of Part B; proved in Proofs/BPolyDiv.lean):
    whenever a run of `quoRemLoop` started with zero quotients and zero remainder on a well-formed
    dividend and well-formed divisors returns `(qs, r)`, and the run satisfies the guard `Safe`
    (no exponent wrap-around), then `f = Σ qᵢ gᵢ + r` in `K[X,Y]`. -/
def DivSpec (o : Order) (Safe : Option Nat → List (BPoly α) → Nat → BPoly α → Prop) : Prop :=
  ∀ (ignore : Option Nat) (gs : List (BPoly α)) (fuel : Nat) (f : BPoly α) (qs : List (BPoly α))
    (r : BPoly α), WF L f → (∀ g ∈ gs, WF L g) → Safe ignore gs fuel f →
    quoRemLoop F o ignore gs fuel f (gs.map fun _ => []) [] = some (qs, r) →
    toMv L f = qdot L qs gs + toMv L r

/-- THE REMAINDER PROPERTY (hypothesis; proved in Proofs/BPolyDiv.lean): no exponent of the
    remainder is divisible by the leading exponent of a (non-ignored) divisor -/
def RemSpec (o : Order) (Safe : Option Nat → List (BPoly α) → Nat → BPoly α → Prop) : Prop :=
  ∀ (ignore : Option Nat) (gs : List (BPoly α)) (fuel : Nat) (f : BPoly α) (qs : List (BPoly α))
    (r : BPoly α), WF L f → (∀ g ∈ gs, WF L g) → Safe ignore gs fuel f →
    quoRemLoop F o ignore gs fuel f (gs.map fun _ => []) [] = some (qs, r) →
    ∀ d ∈ keys r, ∀ (j : Nat) (g : BPoly α), gs[j]? = some g → ignore ≠ some j →
      subDegs d (ld o g) = none

/-- the ideal of `K[X,Y]` generated by the polynomials of a list -/
noncomputable def spanOf (gs : List (BPoly α)) : _root_.Ideal (AddMonoidAlgebra K (ℕ × ℕ)) :=
  Ideal.span ((toMv L) '' {g | g ∈ gs})

theorem mem_spanOf {gs : List (BPoly α)} {g : BPoly α} (h : g ∈ gs) : toMv L g ∈ spanOf L gs :=
  Ideal.subset_span ⟨g, h, rfl⟩

theorem spanOf_le {gs : List (BPoly α)} {I : _root_.Ideal (AddMonoidAlgebra K (ℕ × ℕ))} :
    spanOf L gs ≤ I ↔ ∀ g ∈ gs, toMv L g ∈ I := by
  unfold spanOf
  rw [Ideal.span_le]
  constructor
  · intro h g hg; exact h ⟨g, hg, rfl⟩
  · rintro h _ ⟨g, hg, rfl⟩; exact h g hg

theorem qdot_mem {I : _root_.Ideal (AddMonoidAlgebra K (ℕ × ℕ))} :
    ∀ (qs gs : List (BPoly α)),
      (∀ (j : Nat) (q g : BPoly α), qs[j]? = some q → gs[j]? = some g → toMv L q * toMv L g ∈ I) →
      qdot L qs gs ∈ I := by
  intro qs
  induction qs with
  | nil => intro gs _; simp [qdot]
  | cons q qs ih =>
    intro gs h
    cases gs with
    | nil => simp [qdot]
    | cons g gs =>
      unfold qdot
      rw [List.zipWith_cons_cons, List.sum_cons]
      refine I.add_mem (h 0 q g rfl rfl) (ih gs fun j q' g' hq hg => h (j + 1) q' g' ?_ ?_)
      · simpa using hq
      · simpa using hg

theorem qdot_mem_spanOf (qs gs : List (BPoly α)) : qdot L qs gs ∈ spanOf L gs :=
  qdot_mem L qs gs fun _ _ _ _ hg =>
    Ideal.mul_mem_left _ _ (mem_spanOf L (List.mem_of_getElem? hg))

/-! ### B.4 `GroebnerBasis()` generates the same ideal -/

variable {L} {Safe : Option Nat → List (BPoly α) → Nat → BPoly α → Prop}

variable (F) in
/-- the guard holds for every division of an S-polynomial in one round over the list `gb` -/
def RoundSafe (o : Order) (Safe : Option Nat → List (BPoly α) → Nat → BPoly α → Prop)
    (gb : List (BPoly α)) : Prop :=
  ∀ (i j : Nat) (_ : i < j) (hj : j < gb.length) (s : BPoly α),
    sPoly F o (gb[i]'(by omega)) gb[j] = some s → Safe none gb divFuel s

/-- the remainder of an S-polynomial of two list elements on division by the list is a
    well-formed element of the ideal generated by the list -/
theorem pairRem_spec (hdiv : DivSpec L o Safe) {gb : List (BPoly α)}
    (hgb : ∀ g ∈ gb, WF L g ∧ Bounded g) {f g r : BPoly α} (hf : f ∈ gb) (hg : g ∈ gb)
    (hsafe : ∀ s, sPoly F o f g = some s → Safe none gb divFuel s)
    (h : PairRem F o gb f g r) : WF L r ∧ Bounded r ∧ toMv L r ∈ spanOf L gb := by
  obtain ⟨s, qs, hs, hq⟩ := h
  obtain ⟨ws, bs, a, b, ts⟩ := Gb.sPoly_spec L (hgb f hf).1.cv (hgb g hg).1.cv (hgb f hf).2
    (hgb g hg).2 hs
  obtain ⟨-, wr, -, br, -⟩ := Gb.quoRemLoop_wf L (fun x hx => (hgb x hx).1.cv) divFuel s _ [] ws
    (fun q hq => by obtain ⟨_, _, rfl⟩ := List.mem_map.1 hq; exact WF_nil L) (WF_nil L) hq
  have e := hdiv none gb divFuel s qs r ws (fun x hx => (hgb x hx).1) (hsafe s hs) hq
  refine ⟨wr, br bs Bounded_nil, ?_⟩
  have : toMv L r = toMv L s - qdot L qs gb := by rw [e, add_sub_cancel_left]
  rw [this, ts]
  exact (spanOf L gb).sub_mem
    ((spanOf L gb).sub_mem (Ideal.mul_mem_left _ _ (mem_spanOf L hf))
      (Ideal.mul_mem_left _ _ (mem_spanOf L hg)))
    (qdot_mem_spanOf L qs gb)

/-- invariant rule for `GroebnerBasis()` that also tells that the round happened inside the run -/
theorem buchberger_induct' (P : List (BPoly α) → Prop) {fuel : Nat} {gens G : List (BPoly α)}
    (h : buchberger F o fuel gens = some G) (h0 : P gens)
    (hstep : ∀ gb news, P gb → sPairRems F o gb = some news → (gb ++ news) <+: G →
      P (gb ++ news)) : P G := by
  induction fuel generalizing gens with
  | zero => simp [buchberger] at h
  | succ n ih =>
    rw [buchberger] at h
    split at h
    · cases h
    · split at h
      · cases h
      · cases h; exact h0
      · rename_i news hs
        obtain ⟨e, he⟩ := buchberger_extends h
        exact ih h (hstep _ _ h0 hs ⟨e, he.symm⟩)

/-- C11-3: the list returned by `GroebnerBasis()` generates the same ideal of `K[X,Y]` as the input
    generators (given the division equation for every division of the run) -/
theorem buchberger_same_ideal (hdiv : DivSpec L o Safe) {fuel : Nat} {gens G : List (BPoly α)}
    (hgens : ∀ g ∈ gens, WF L g ∧ Bounded g) (h : buchberger F o fuel gens = some G)
    (hsafe : ∀ gb, gens <+: gb → gb <+: G → RoundSafe F o Safe gb) :
    (∀ g ∈ G, WF L g ∧ Bounded g) ∧ spanOf L G = spanOf L gens := by
  have := buchberger_induct'
    (P := fun gb => gens <+: gb ∧ (∀ g ∈ gb, WF L g ∧ Bounded g) ∧ spanOf L gb = spanOf L gens)
    h ⟨List.prefix_refl _, hgens, rfl⟩ ?_
  · exact this.2
  · rintro gb news ⟨hpre, hgb, hspan⟩ hs hpre'
    have hgbG : gb <+: G := (List.prefix_append gb news).trans hpre'
    have hnews : ∀ r ∈ news, WF L r ∧ Bounded r ∧ toMv L r ∈ spanOf L gb := by
      intro r hr
      obtain ⟨-, i, j, hij, hj, hp⟩ := sPairRems_mem hs r hr
      exact pairRem_spec hdiv hgb (List.getElem_mem _) (List.getElem_mem _)
        (fun s hs' => hsafe gb hpre hgbG i j hij hj s hs') hp
    refine ⟨hpre.trans (List.prefix_append gb news), ?_, ?_⟩
    · intro g hg
      rcases List.mem_append.1 hg with hg | hg
      · exact hgb g hg
      · exact ⟨(hnews g hg).1, (hnews g hg).2.1⟩
    · rw [← hspan]
      apply le_antisymm
      · rw [spanOf_le]
        intro g hg
        rcases List.mem_append.1 hg with hg | hg
        · exact mem_spanOf L hg
        · exact (hnews g hg).2.2
      · rw [spanOf_le]
        intro g hg
        exact mem_spanOf L (List.mem_append_left _ hg)

/-! ### B.5 `ReduceBasis()` keeps the ideal -/

variable (F) in
/-- the guard holds for every division made by the replacement loop of `ReduceBasis()` over the
    index list `l`, started on the generator list `g` -/
def ReduceSafe (o : Order) (Safe : Option Nat → List (BPoly α) → Nat → BPoly α → Prop) :
    List Nat → List (BPoly α) → Prop
  | [], _ => True
  | i :: t, g => Safe (some i) g divFuel (g.getD i []) ∧
      ∀ r, remByOthers F o g i = some r → ReduceSafe o Safe t (g.set i r)

/-- replacing `g_i` by its remainder modulo the other generators does not change the ideal -/
theorem remByOthers_span (hdiv : DivSpec L o Safe) {g : List (BPoly α)} (hg : ∀ x ∈ g, WF L x)
    {i : Nat} (hi : i < g.length) (hsafe : Safe (some i) g divFuel (g.getD i []))
    {r : BPoly α} (h : remByOthers F o g i = some r) :
    WF L r ∧ spanOf L (g.set i r) = spanOf L g := by
  unfold remByOthers at h
  cases hq : quoRemLoop F o (some i) g divFuel (g.getD i []) (g.map fun _ => []) [] with
  | none => rw [hq] at h; cases h
  | some pr =>
    obtain ⟨qs, r'⟩ := pr
    rw [hq] at h
    simp only [Option.map_some, Option.some.injEq] at h
    subst h
    have hgi : g.getD i [] = g[i] := by simp [List.getD_eq_getElem?_getD, hi]
    have wgi : WF L (g.getD i []) := by rw [hgi]; exact hg _ (List.getElem_mem _)
    obtain ⟨-, wr, -, -, hign⟩ := Gb.quoRemLoop_wf L (fun x hx => (hg x hx).cv) divFuel _ _ [] wgi
      (fun q hq => by obtain ⟨_, _, rfl⟩ := List.mem_map.1 hq; exact WF_nil L) (WF_nil L) hq
    have hqi : qs[i]? = some [] := by
      rw [hign i rfl, List.getElem?_map]; simp [hi]
    have e := hdiv (some i) g divFuel _ qs r' wgi hg hsafe hq
    rw [hgi] at e
    refine ⟨wr, le_antisymm ?_ ?_⟩
    · rw [spanOf_le]
      intro x hx
      rcases List.mem_or_eq_of_mem_set hx with hx | rfl
      · exact mem_spanOf L hx
      · have : toMv L x = toMv L g[i] - qdot L qs g := by rw [e, add_sub_cancel_left]
        rw [this]
        exact (spanOf L g).sub_mem (mem_spanOf L (List.getElem_mem _)) (qdot_mem_spanOf L qs g)
    · rw [spanOf_le]
      intro x hx
      obtain ⟨j, hj, rfl⟩ := List.getElem_of_mem hx
      by_cases hji : j = i
      · subst hji
        rw [e]
        refine (spanOf L _).add_mem ?_ ?_
        · apply qdot_mem
          intro k q gk hq' hgk
          by_cases hk : k = j
          · subst hk
            rw [hqi] at hq'; cases hq'
            simp
          · apply Ideal.mul_mem_left
            apply mem_spanOf
            have : (g.set j r')[k]? = some gk := by rw [List.getElem?_set_ne (Ne.symm hk)]; exact hgk
            exact List.mem_of_getElem? this
        · apply mem_spanOf
          have : (g.set j r')[j]? = some r' := by simp [hj]
          exact List.mem_of_getElem? this
      · apply mem_spanOf
        have : (g.set i r')[j]? = some g[j] := by
          rw [List.getElem?_set_ne (Ne.symm hji)]; simp [hj]
        exact List.mem_of_getElem? this

/-- C12-4 (reduce part): the replacement loop of `ReduceBasis()` keeps the ideal -/
theorem reduceLoop_span (hdiv : DivSpec L o Safe) {g0 g' : List (BPoly α)}
    (hg0 : ∀ x ∈ g0, WF L x) (hsafe : ReduceSafe F o Safe (List.range g0.length) g0)
    (h : reduceLoop F o g0 = some g') :
    (∀ x ∈ g', WF L x) ∧ spanOf L g' = spanOf L g0 ∧ g'.length = g0.length := by
  unfold reduceLoop at h
  have key : ∀ (l : List Nat) (g : List (BPoly α)), (∀ i ∈ l, i < g.length) → (∀ x ∈ g, WF L x) →
      ReduceSafe F o Safe l g →
      l.foldl (fun acc i => match acc with
        | none => none
        | some gens => (remByOthers F o gens i).map fun r => gens.set i r) (some g) = some g' →
      (∀ x ∈ g', WF L x) ∧ spanOf L g' = spanOf L g ∧ g'.length = g.length := by
    intro l
    induction l with
    | nil =>
      intro g _ hw _ hf
      simp only [List.foldl_nil, Option.some.injEq] at hf
      subst hf; exact ⟨hw, rfl, rfl⟩
    | cons i t ih =>
      intro g hl hw hs hf
      rw [List.foldl_cons] at hf
      cases hr : remByOthers F o g i with
      | none =>
        simp only [hr, Option.map_none] at hf
        have : ∀ (t : List Nat), t.foldl (fun acc i => match acc with
            | none => none
            | some gens => (remByOthers F o gens i).map fun r => gens.set i r)
            (none : Option (List (BPoly α))) = none := by
          intro t; induction t with
          | nil => rfl
          | cons _ _ ih => rw [List.foldl_cons]; exact ih
        rw [this] at hf; cases hf
      | some r =>
        simp only [hr, Option.map_some] at hf
        obtain ⟨wr, hsp⟩ := remByOthers_span hdiv hw (hl i List.mem_cons_self) hs.1 hr
        have hw' : ∀ x ∈ g.set i r, WF L x := by
          intro x hx
          rcases List.mem_or_eq_of_mem_set hx with hx | rfl
          · exact hw x hx
          · exact wr
        obtain ⟨c1, c2, c3⟩ := ih (g.set i r)
          (fun j hj => by rw [List.length_set]; exact hl j (List.mem_cons_of_mem _ hj)) hw'
          (hs.2 r hr) hf
        exact ⟨c1, by rw [c2, hsp], by rw [c3, List.length_set]⟩
  exact key _ g0 (fun i hi => List.mem_range.1 hi) hg0 hsafe h

end PartB

/-! ### B.6 quotient rings `F[X,Y]/I` -/

section Quot
variable {K : Type} [Field K]

/-- normal form with respect to the list `gs`: no exponent of `r` is divisible by the leading
    exponent of an element of `gs` -/
def IsNF (o : Order) (gs : List (BPoly α)) (r : BPoly α) : Prop :=
  KeysIn (fun d => ∀ g ∈ gs, subDegs d (ld o g) = none) r

/-- a successful `(*Polynomial).reduce` in a quotient ring is a terminated division run -/
theorem reduceIn_run {R : Ring α} {gs : List (BPoly α)} (hR : R.ideal = some gs) {f r : BPoly α}
    (h : reduceIn R f = some r) :
    ∃ qs, quoRemLoop R.F R.ord none gs divFuel f (gs.map fun _ => []) [] = some (qs, r) := by
  unfold reduceIn at h
  rw [hR] at h
  simp only [rem, quoRem] at h
  split at h
  · rename_i r0 hr0
    split at hr0
    · cases hr0
    · rename_i r1 hr1
      split at hr1
      · cases hr1
      · cases hr1
        cases hr0
        cases hq : quoRemLoop R.F R.ord none gs divFuel f (gs.map fun _ => []) [] with
        | none => rw [hq] at h; cases h
        | some pr =>
          rw [hq] at h
          simp only [Option.map_some, Option.some.injEq] at h
          exact ⟨pr.1, by rw [← h]⟩
  · cases h

/-- the class of a polynomial modulo the ideal generated by `gs` -/
noncomputable def cls {F : FOps α} (L : Lawful F K) (gs : List (BPoly α))
    (p : AddMonoidAlgebra K (ℕ × ℕ)) : AddMonoidAlgebra K (ℕ × ℕ) ⧸ spanOf L gs :=
  Ideal.Quotient.mk (spanOf L gs) p

theorem cls_eq_iff {F : FOps α} (L : Lawful F K) (gs : List (BPoly α))
    (p q : AddMonoidAlgebra K (ℕ × ℕ)) : cls L gs p = cls L gs q ↔ p - q ∈ spanOf L gs :=
  Ideal.Quotient.eq

/-- a quotient ring whose stored generator list is `gs`, over a lawful coefficient record, with
    the two division hypotheses -/
structure QuotCtx (R : Ring α) (L : Lawful R.F K)
    (Safe : Option Nat → List (BPoly α) → Nat → BPoly α → Prop) (gs : List (BPoly α)) : Prop where
  ideal_eq : R.ideal = some gs
  wf : ∀ g ∈ gs, WF L g
  hdiv : DivSpec L R.ord Safe
  hrem : RemSpec L R.ord Safe

variable {R : Ring α} {L : Lawful R.F K}
  {Safe : Option Nat → List (BPoly α) → Nat → BPoly α → Prop} {gs : List (BPoly α)}

/-- the value is a well-formed normal form with word-size exponents -/
def GoodNF (L : Lawful R.F K) (gs : List (BPoly α)) (r : BPoly α) : Prop :=
  WF L r ∧ Bounded r ∧ IsNF R.ord gs r

/-- C13-1: `reduce` returns a normal form in the class of its argument -/
theorem QuotCtx.reduceIn_spec (Q : QuotCtx R L Safe gs) {f r : BPoly α} (hf : WF L f)
    (hs : Safe none gs divFuel f) (h : reduceIn R f = some r) :
    WF L r ∧ (Bounded f → Bounded r) ∧ toMv L f - toMv L r ∈ spanOf L gs ∧ IsNF R.ord gs r := by
  obtain ⟨qs, hq⟩ := reduceIn_run Q.ideal_eq h
  obtain ⟨-, wr, -, br, -⟩ := Gb.quoRemLoop_wf L (fun x hx => (Q.wf x hx).cv) divFuel f _ [] hf
    (fun q hq => by obtain ⟨_, _, rfl⟩ := List.mem_map.1 hq; exact WF_nil L) (WF_nil L) hq
  have e := Q.hdiv none gs divFuel f qs r hf Q.wf hs hq
  refine ⟨wr, fun bf => br bf Bounded_nil, ?_, ?_⟩
  · rw [e, add_sub_cancel_right]; exact qdot_mem_spanOf L qs gs
  · intro d hd g hg
    obtain ⟨j, hj, rfl⟩ := List.getElem_of_mem hg
    exact Q.hrem none gs divFuel f qs r hf Q.wf hs hq d hd j _ (by simp [hj]) (by simp)

theorem QuotCtx.reduceIn_good (Q : QuotCtx R L Safe gs) {f r : BPoly α} (hf : WF L f)
    (bf : Bounded f) (hs : Safe none gs divFuel f) (h : reduceIn R f = some r) :
    GoodNF L gs r ∧ cls L gs (toMv L r) = cls L gs (toMv L f) := by
  obtain ⟨c1, c2, c3, c4⟩ := Q.reduceIn_spec hf hs h
  exact ⟨⟨c1, c2 bf, c4⟩, ((cls_eq_iff L gs _ _).2 c3).symm⟩

variable (R Safe gs) in
/-- the guard holds for the reduction of the product of `x` and `y` -/
def TimesSafe (x y : BPoly α) : Prop :=
  ∀ h, mulNoReduce R.F x y = some h → Safe none gs divFuel h

theorem QuotCtx.times_spec (Q : QuotCtx R L Safe gs) {x y r : BPoly α} (hx : WF L x) (hy : WF L y)
    (by' : Bounded y) (hs : TimesSafe R Safe gs x y) (h : times R x y = .ok (some r)) :
    GoodNF L gs r ∧ cls L gs (toMv L r) = cls L gs (toMv L x) * cls L gs (toMv L y) := by
  obtain ⟨p, hp, hr⟩ := times_ok_iff.1 h
  obtain ⟨wp, tp⟩ := Gb.mulNoReduce_spec2 L hx.cv hy.cv by' hp
  obtain ⟨c1, c2⟩ := Q.reduceIn_good wp (Bounded_mulNoReduce hp) (hs p hp) hr
  refine ⟨c1, ?_⟩
  rw [c2, tp]
  exact map_mul _ _ _

variable (R Safe gs) in
/-- the guard holds for every reduction made by the square-and-multiply loop of `Pow` -/
def PowSafe : Nat → Nat → BPoly α → BPoly α → Prop
  | 0, _, _, _ => True
  | fuel + 1, n, out, g =>
    n ≠ 0 → (n % 2 = 1 → TimesSafe R Safe gs out g) ∧
      (n / 2 ≠ 0 → TimesSafe R Safe gs g g ∧
        ∀ o' g2, (if n % 2 = 1 then times R out g else .ok (some out)) = .ok (some o') →
          times R g g = .ok (some g2) → PowSafe fuel (n / 2) o' g2)

theorem QuotCtx.powLoop_spec (Q : QuotCtx R L Safe gs) :
    ∀ (fuel n : Nat) (out g r : BPoly α), GoodNF L gs out → WF L g → Bounded g →
      PowSafe R Safe gs fuel n out g → powLoop R fuel n out g = .ok (some r) →
      GoodNF L gs r ∧ cls L gs (toMv L r) = cls L gs (toMv L out) * cls L gs (toMv L g) ^ n := by
  intro fuel
  induction fuel with
  | zero => intro n out g r _ _ _ _ h; simp [powLoop] at h
  | succ m ih =>
    intro n out g r go wg bg hs h
    rw [powLoop_succ] at h
    by_cases hn : n = 0
    · rw [if_pos hn] at h
      cases h
      exact ⟨go, by rw [hn, pow_zero, mul_one]⟩
    · rw [if_neg hn] at h
      obtain ⟨hs1, hs2⟩ := hs hn
      split at h
      · cases h
      · cases h
      · rename_i o' ho
        have st1 : GoodNF L gs o' ∧
            cls L gs (toMv L o') = cls L gs (toMv L out) * cls L gs (toMv L g) ^ (n % 2) := by
          by_cases hodd : n % 2 = 1
          · rw [if_pos hodd] at ho
            rw [hodd, pow_one]
            exact Q.times_spec go.1 wg bg (hs1 hodd) ho
          · rw [if_neg hodd] at ho
            cases ho
            have : n % 2 = 0 := by omega
            exact ⟨go, by rw [this, pow_zero, mul_one]⟩
        by_cases hhalf : n / 2 = 0
        · rw [if_pos hhalf] at h
          cases h
          have h1 : n % 2 = n := by omega
          rw [h1] at st1
          exact st1
        · rw [if_neg hhalf] at h
          obtain ⟨hs3, hs4⟩ := hs2 hhalf
          split at h
          · cases h
          · cases h
          · rename_i g2 hg2
            obtain ⟨gg2, tg2⟩ := Q.times_spec wg wg bg hs3 hg2
            obtain ⟨c1, c2⟩ := ih (n / 2) o' g2 r st1.1 gg2.1 gg2.2.1 (hs4 o' g2 ho hg2) h
            refine ⟨c1, ?_⟩
            rw [c2, st1.2, tg2, ← pow_two, ← pow_mul, mul_assoc, ← pow_add]
            congr 2
            omega

theorem Bounded_one : Bounded ([((0, 0), R.F.one)] : BPoly α) := by
  intro dc hdc
  simp only [List.mem_singleton] at hdc
  subst hdc
  exact ⟨by norm_num, by norm_num⟩

theorem QuotCtx.pow_spec (Q : QuotCtx R L Safe gs) {x r : BPoly α} {n : Nat} (hx : WF L x)
    (bx : Bounded x) (hs1 : Safe none gs divFuel [((0, 0), R.F.one)])
    (hs : ∀ o', reduceIn R [((0, 0), R.F.one)] = some o' → PowSafe R Safe gs 70 n o' x)
    (h : pow R x n = .ok (some r)) :
    GoodNF L gs r ∧ cls L gs (toMv L r) = cls L gs (toMv L x) ^ n := by
  rw [pow_eq] at h
  split at h
  · rename_i o' ho
    obtain ⟨g1, t1⟩ := Q.reduceIn_good (WF_one L) Bounded_one hs1 ho
    obtain ⟨c1, c2⟩ := Q.powLoop_spec 70 n o' x r g1 hx bx (hs o' ho) h
    refine ⟨c1, ?_⟩
    rw [c2, t1, toMv_one]
    show Ideal.Quotient.mk _ 1 * _ = _
    rw [map_one, one_mul]
  · cases h

/-! ### expressions over a quotient ring -/

/-- expressions built from the constructors (a coefficient map embedded with reduction) and
    `Plus`, `Minus`, `Times`/`Mult`, `Pow` -/
inductive QExpr (α : Type) where
  | leaf (f : BPoly α)
  | add (a b : QExpr α)
  | sub (a b : QExpr α)
  | mul (a b : QExpr α)
  | pow (a : QExpr α) (n : Nat)

/-- the value computed by the library in the quotient ring `R` (`none`: an error status or the
    model's fuel) -/
def evalQ (R : Ring α) : QExpr α → Option (BPoly α)
  | .leaf f => reduceIn R f
  | .add a b => match evalQ R a, evalQ R b with
    | some x, some y => some (BPoly.add R.F x y)
    | _, _ => none
  | .sub a b => match evalQ R a, evalQ R b with
    | some x, some y => some (BPoly.sub R.F x y)
    | _, _ => none
  | .mul a b => match evalQ R a, evalQ R b with
    | some x, some y => (match times R x y with | .ok r => r | .error _ => none)
    | _, _ => none
  | .pow a n => match evalQ R a with
    | some x => (match BPoly.pow R x n with | .ok r => r | .error _ => none)
    | none => none

/-- the same expression evaluated in `K[X,Y]` -/
noncomputable def evalP (L : Lawful R.F K) : QExpr α → AddMonoidAlgebra K (ℕ × ℕ)
  | .leaf f => toMv L f
  | .add a b => evalP L a + evalP L b
  | .sub a b => evalP L a - evalP L b
  | .mul a b => evalP L a * evalP L b
  | .pow a n => evalP L a ^ n

variable (R Safe gs) in
/-- leaves are well-formed with word-size exponents, and the guard holds for every reduction made
    while the expression is evaluated -/
def QExpr.Ok (L : Lawful R.F K) : QExpr α → Prop
  | .leaf f => WF L f ∧ Bounded f ∧ Safe none gs divFuel f
  | .add a b => a.Ok L ∧ b.Ok L
  | .sub a b => a.Ok L ∧ b.Ok L
  | .mul a b => a.Ok L ∧ b.Ok L ∧
      ∀ x y, evalQ R a = some x → evalQ R b = some y → TimesSafe R Safe gs x y
  | .pow a n => a.Ok L ∧ Safe none gs divFuel [((0, 0), R.F.one)] ∧
      ∀ x o', evalQ R a = some x → reduceIn R [((0, 0), R.F.one)] = some o' →
        PowSafe R Safe gs 70 n o' x

/-- C13-3: the value computed in the quotient ring is a normal form in the class of the plain
    expression -/
theorem QuotCtx.evalQ_spec (Q : QuotCtx R L Safe gs) (e : QExpr α) (he : e.Ok R Safe gs L)
    {r : BPoly α} (h : evalQ R e = some r) :
    GoodNF L gs r ∧ cls L gs (toMv L r) = cls L gs (evalP L e) := by
  induction e generalizing r with
  | leaf f => exact Q.reduceIn_good he.1 he.2.1 he.2.2 h
  | add a b iha ihb =>
    simp only [evalQ] at h
    split at h
    · rename_i x y hx hy
      cases h
      obtain ⟨⟨wx, bx, nx⟩, tx⟩ := iha he.1 hx
      obtain ⟨⟨wy, by', ny⟩, ty⟩ := ihb he.2 hy
      refine ⟨⟨WF_add L wx wy.cv, ?_, KeysIn_add nx ny⟩, ?_⟩
      · rw [Bounded_iff_KeysIn] at bx by' ⊢; exact KeysIn_add bx by'
      · rw [toMv_add L wx wy.cv]
        show Ideal.Quotient.mk _ (_ + _) = Ideal.Quotient.mk _ (_ + _)
        rw [map_add, map_add]
        exact congrArg₂ _ tx ty
    · cases h
  | sub a b iha ihb =>
    simp only [evalQ] at h
    split at h
    · rename_i x y hx hy
      cases h
      obtain ⟨⟨wx, bx, nx⟩, tx⟩ := iha he.1 hx
      obtain ⟨⟨wy, by', ny⟩, ty⟩ := ihb he.2 hy
      refine ⟨⟨WF_sub L wx wy.cv, ?_, KeysIn_sub nx ny⟩, ?_⟩
      · rw [Bounded_iff_KeysIn] at bx by' ⊢; exact KeysIn_sub bx by'
      · rw [toMv_sub L wx wy.cv]
        show Ideal.Quotient.mk _ (_ - _) = Ideal.Quotient.mk _ (_ - _)
        rw [map_sub, map_sub]
        exact congrArg₂ _ tx ty
    · cases h
  | mul a b iha ihb =>
    simp only [evalQ] at h
    split at h
    · rename_i x y hx hy
      obtain ⟨⟨wx, bx, nx⟩, tx⟩ := iha he.1 hx
      obtain ⟨⟨wy, by', ny⟩, ty⟩ := ihb he.2.1 hy
      split at h
      · rename_i r0 hr0
        subst h
        obtain ⟨c1, c2⟩ := Q.times_spec wx wy by' (he.2.2 x y hx hy) hr0
        refine ⟨c1, ?_⟩
        rw [c2, tx, ty]
        exact (map_mul _ _ _).symm
      · cases h
    · cases h
  | pow a n iha =>
    simp only [evalQ] at h
    split at h
    · rename_i x hx
      obtain ⟨⟨wx, bx, nx⟩, tx⟩ := iha he.1 hx
      split at h
      · rename_i r0 hr0
        subst h
        obtain ⟨c1, c2⟩ := Q.pow_spec wx bx he.2.1 (fun o' ho => he.2.2 x o' hx ho) hr0
        refine ⟨c1, ?_⟩
        rw [c2, tx]
        exact (map_pow _ _ _).symm
      · cases h
    · cases h

end Quot

end BPoly
end Algobra
