/-
  Proofs/Lawful.lean — what it means for a coefficient record `FOps α` to implement a field `K`:
  an embedding of the *valid* (canonical) representations into `K` that every operation respects.
  The generic polynomial theorems (C05–C08, C10–C14) are stated for any lawful record; lawfulness
  of the three concrete records is C01/C02.
-/
import Mathlib.Algebra.Field.Basic
import Algobra.Model.Field

namespace Algobra

/-- `F` implements the field `K` on the representations satisfying `valid`. -/
structure Lawful {α : Type} (F : FOps α) (K : Type) [Field K] where
  embed : α → K
  valid : α → Prop
  inj : ∀ a b, valid a → valid b → embed a = embed b → a = b
  zero_valid : valid F.zero
  one_valid : valid F.one
  embed_zero : embed F.zero = 0
  embed_one : embed F.one = 1
  add_valid : ∀ a b, valid a → valid b → valid (F.add a b)
  embed_add : ∀ a b, valid a → valid b → embed (F.add a b) = embed a + embed b
  sub_valid : ∀ a b, valid a → valid b → valid (F.sub a b)
  embed_sub : ∀ a b, valid a → valid b → embed (F.sub a b) = embed a - embed b
  mul_valid : ∀ a b, valid a → valid b → valid (F.mul a b)
  embed_mul : ∀ a b, valid a → valid b → embed (F.mul a b) = embed a * embed b
  neg_valid : ∀ a, valid a → valid (F.neg a)
  embed_neg : ∀ a, valid a → embed (F.neg a) = - embed a
  inv_some : ∀ a, valid a → embed a ≠ 0 → ∃ i, F.inv a = some i ∧ valid i ∧ embed i = (embed a)⁻¹
  inv_none : ∀ a, valid a → embed a = 0 → F.inv a = none
  isZero_iff : ∀ a, valid a → (F.isZero a = true ↔ embed a = 0)
  isOne_iff : ∀ a, valid a → (F.isOne a = true ↔ embed a = 1)
  beq_iff : ∀ a b, valid a → valid b → (F.beq a b = true ↔ a = b)

namespace Lawful
variable {α : Type} {F : FOps α} {K : Type} [Field K] (L : Lawful F K)

theorem isZero_false_iff (a : α) (h : L.valid a) : F.isZero a = false ↔ L.embed a ≠ 0 := by
  rw [← Bool.not_eq_true, L.isZero_iff a h]

theorem eq_zero_of_embed (a : α) (h : L.valid a) (h0 : L.embed a = 0) : a = F.zero :=
  L.inj a F.zero h L.zero_valid (by rw [h0, L.embed_zero])

end Lawful
end Algobra
