/-
  Proofs/Criterion3.lean — consequences of Buchberger's criterion for the model (part 2):

  * `GB L o I G` : the list `G` is a Gröbner basis of the ideal `I` of `K[X,Y]` (members of `I`,
    well-formed, exact exponents, and the leading-exponent property `Crit.LtProp` for ALL elements
    of `I`, with respect to the mathematical order `tlt o`);
  * `GB.of_criterion` (Buchberger's criterion), `GB.span` (`G` generates `I`), `GB.exact` (the
    model-level Gröbner property), `GB.nf_unique` (normal forms are unique);
  * `GB.transfer` and its instances: normalising (`GB.normalize`), removing a generator with a
    redundant leading exponent (`GB.eraseIdx`), replacing a generator (`GB.set`);
  * the model's transformations keep a Gröbner basis of the same ideal:
    `spanned_dvd` (what `spannedByOthers` answers), `GB.minimized` (`MinimizeBasis`),
    `GB.remByOthers`, `GB.reduceLoop` (`ReduceBasis`);
  * `buchberger_good`, `GB.of_buchberger` (C11 complete), `quotientGens_shape`,
    `GB.of_quotientGens` (the list stored by `Quotient(id)`);
  * the converse of the criterion on the model: `GB.sPairRems_nil`, `GB.decideGroebner`;
    `GB.of_decideGroebner`;
  * minimality: `spanned_of_dvd` (converse of `spanned_dvd`), `MinimalLd`, `minimizeLoop_minimal`,
    `decideMinimal_iff`, `minimized_minimal`, `remByOthers_minimal`, `reduceLoop_minimal`.
-/
import Algobra.Proofs.Criterion2
import Mathlib.Data.List.InsertIdx

namespace Algobra
namespace BPoly

open AddMonoidAlgebra (single)
open Algobra.Order

variable {α : Type} {F : FOps α} {K : Type} [Field K]

/-- `G` is a Gröbner basis of the ideal `I` -/
structure GB (L : Lawful F K) (o : Order) (I : _root_.Ideal (AddMonoidAlgebra K (ℕ × ℕ)))
    (G : List (BPoly α)) : Prop where
  wf : ∀ g ∈ G, WF L g
  ex : ∀ g ∈ G, ∀ d ∈ keys g, Exact o d
  mem : ∀ g ∈ G, toMv L g ∈ I
  ltp : Crit.LtProp (tlt o) (genOf L G) (exOf o G) I

section Basic
variable {L : Lawful F K} {o : Order} {I : _root_.Ideal (AddMonoidAlgebra K (ℕ × ℕ))}
  {G : List (BPoly α)}

/-- a nonzero well-formed generator with exact exponents has its `Ld` as leading exponent -/
theorem gen_ok (hadm : Admissible o) {g : BPoly α} (wg : WF L g) (hne : g ≠ [])
    (hx : ∀ d ∈ keys g, Exact o d) :
    (toMv L g).coeff (ld o g) ≠ 0 ∧ ∀ d, (toMv L g).coeff d ≠ 0 → ¬ tlt o (ld o g) d := by
  obtain ⟨h1, h2⟩ := ld_spec hadm hne hx
  exact ⟨(mem_keys_iff L wg _).1 h1, fun d hd => h2 d ((mem_keys_iff L wg d).2 hd)⟩

theorem ne_nil_of_coeff {g : BPoly α} {d : Deg} (h : (toMv L g).coeff d ≠ 0) : g ≠ [] := by
  rintro rfl; simp at h

/-- Buchberger's criterion, in this vocabulary -/
theorem GB.of_criterion (L : Lawful F K) (hadm : Admissible o)
    (hG : ∀ g ∈ G, WF L g ∧ g ≠ [] ∧ Bounded g) (hGx : ∀ g ∈ G, ∀ d ∈ keys g, Exact o d)
    (hpairs : ∀ (i j : Nat) (_ : i < j) (hj : j < G.length), ∃ s qs,
      sPoly F o (G[i]'(by omega)) G[j] = some s ∧
      quoRemLoop F o none G divFuel s (G.map fun _ => []) [] = some (qs, []) ∧
      (∀ d ∈ keys s, NoOverflow o d) ∧ RunOK F o none G divFuel s) :
    GB L o (Ideal.span ((toMv L) '' {g | g ∈ G})) G := by
  refine ⟨fun g hg => (hG g hg).1, hGx, fun g hg => Ideal.subset_span ⟨g, hg, rfl⟩, ?_⟩
  rw [← range_genOf]
  exact Crit.ltProp_of_criterion (tlt_monOrd hadm)
    (genOK_of L hadm (fun g hg => ⟨(hG g hg).1, (hG g hg).2.1⟩) hGx)
    (sPairsOK_of_model L hadm hG hGx hpairs)

/-- a Gröbner basis of `I` generates `I` -/
theorem GB.span (h : GB L o I G) (hadm : Admissible o) :
    Ideal.span ((toMv L) '' {g | g ∈ G}) = I := by
  rw [← range_genOf]
  exact Crit.span_eq_of_ltProp (tlt_monOrd hadm) h.ltp (fun i => h.mem _ (List.getElem_mem _))

/-- the model-level Gröbner property: `Ld f` is divisible by `Ld g` for a nonzero `g ∈ G` -/
theorem GB.exact (h : GB L o I G) (hadm : Admissible o) {f : BPoly α} (wf : WF L f)
    (hne : f ≠ []) (hfx : ∀ d ∈ keys f, Exact o d) (hmem : toMv L f ∈ I) :
    ∃ g ∈ G, g ≠ [] ∧ subDegs (ld o f) (ld o g) ≠ none := by
  have H := tlt_monOrd hadm
  have hf0 : toMv L f ≠ 0 := fun h0 => hne (eq_nil_of_toMv_eq_zero L wf h0)
  obtain ⟨i, a, g1, -, h1, h2⟩ := h.ltp _ hmem hf0
  obtain ⟨l1, l2⟩ := ld_spec hadm hne hfx
  have hk : a + exOf o G i ∈ keys f := (mem_keys_iff L wf _).2 h1
  have heq : ld o f = a + exOf o G i :=
    H.eq_of_le_of_le (h2 _ ((mem_keys_iff L wf _).1 l1)) (l2 _ hk)
  refine ⟨G[i], List.getElem_mem _, ne_nil_of_coeff g1, ?_⟩
  have : subDegs (ld o f) (ld o G[i]) = some a := by
    rw [subDegs_eq_some_iff, heq, add_comm]; rfl
  rw [this]; exact Option.some_ne_none _

/-- normal forms modulo a Gröbner basis are unique -/
theorem GB.nf_unique (h : GB L o I G) (hadm : Admissible o) {r1 r2 : BPoly α}
    (w1 : WF L r1) (w2 : WF L r2)
    (n1 : ∀ d ∈ keys r1, ∀ g ∈ G, subDegs d (ld o g) = none)
    (n2 : ∀ d ∈ keys r2, ∀ g ∈ G, subDegs d (ld o g) = none)
    (o1 : ∀ d ∈ keys r1, Exact o d) (o2 : ∀ d ∈ keys r2, Exact o d)
    (hm : toMv L r1 - toMv L r2 ∈ I) : toMv L r1 = toMv L r2 := by
  have wd := WF_sub L w1 w2.cv
  have td := toMv_sub L w1 w2.cv
  by_contra hne
  have hd : BPoly.sub F r1 r2 ≠ [] := by
    intro h0
    rw [h0, toMv_nil] at td
    exact hne (sub_eq_zero.1 td.symm)
  have hx : ∀ d ∈ keys (BPoly.sub F r1 r2), Exact o d :=
    KeysIn_sub (P := fun d => Exact o d) o1 o2
  obtain ⟨g, hg, -, hdiv⟩ := h.exact hadm wd hd hx (by rw [td]; exact hm)
  have hld := ld_mem_keys' hadm hd hx
  exact hdiv (KeysIn_sub (P := fun d => ∀ g ∈ G, subDegs d (ld o g) = none) n1 n2 _ hld g hg)

/-- TRANSFER: a list `G'` of well-formed members of `I` with exact exponents such that the leading
    exponent of every nonzero `g ∈ G` is divisible by the leading exponent of a nonzero `g' ∈ G'`
    is again a Gröbner basis of `I` -/
theorem GB.transfer (h : GB L o I G) (hadm : Admissible o) {G' : List (BPoly α)}
    (wf' : ∀ g ∈ G', WF L g) (ex' : ∀ g ∈ G', ∀ d ∈ keys g, Exact o d)
    (mem' : ∀ g ∈ G', toMv L g ∈ I)
    (hdvd : ∀ g ∈ G, g ≠ [] → ∃ g' ∈ G', g' ≠ [] ∧ subDegs (ld o g) (ld o g') ≠ none) :
    GB L o I G' := by
  refine ⟨wf', ex', mem', ?_⟩
  apply h.ltp.mono
  intro i g1 _
  have hne : G[i] ≠ [] := ne_nil_of_coeff g1
  obtain ⟨g', hg', hne', hd⟩ := hdvd _ (List.getElem_mem _) hne
  obtain ⟨i', hi', rfl⟩ := List.getElem_of_mem hg'
  obtain ⟨c, hc⟩ := Option.ne_none_iff_exists'.1 hd
  rw [subDegs_eq_some_iff] at hc
  obtain ⟨k1, k2⟩ := gen_ok (L := L) hadm (wf' _ hg') hne' (ex' _ hg')
  exact ⟨⟨i', hi'⟩, c, by show ld o G[i.1] = c + ld o G'[i']; rw [hc, add_comm], k1, k2⟩

end Basic

/-! ### normalising, removing, replacing generators -/

section Instances
variable {L : Lawful F K} {o : Order} {I : _root_.Ideal (AddMonoidAlgebra K (ℕ × ℕ))}
  {G : List (BPoly α)}

theorem subDegs_self (a : Deg) : subDegs a a ≠ none := by
  have : subDegs a a = some 0 := by rw [subDegs_eq_some_iff, add_zero]
  rw [this]; exact Option.some_ne_none _

theorem ld_eq_foldl_keys (o : Order) (f : BPoly α) :
    ld o f = (keys f).foldl (fun l d => if o.cmp d l = 1 then d else l) (0, 0) := by
  rw [ld_eq_foldl, keys, List.foldl_map]

theorem ld_congr_keys {o : Order} {f g : BPoly α} (h : keys f = keys g) : ld o f = ld o g := by
  rw [ld_eq_foldl_keys, ld_eq_foldl_keys, h]

theorem keys_scale {f : BPoly α} {c : α} (h : F.isZero c = false) :
    keys (scale F f c) = keys f := by
  unfold scale
  rw [if_neg (by rw [h]; simp)]
  unfold keys
  rw [List.map_map]
  exact List.map_congr_left fun x _ => rfl

/-- `Normalize` of a nonzero polynomial with exact exponents: same exponents, a unit multiple -/
theorem normalize_good (L : Lawful F K) (hadm : Admissible o) {g : BPoly α} (wg : WF L g)
    (hne : g ≠ []) (hx : ∀ d ∈ keys g, Exact o d) :
    WF L (normalize F o g) ∧ keys (normalize F o g) = keys g ∧
      toMv L (normalize F o g) = single 0 (L.embed (lc F o g))⁻¹ * toMv L g := by
  have hld := ld_mem_keys' hadm hne hx
  obtain ⟨w, t⟩ := normalize_spec L wg o hld
  refine ⟨w, ?_, t⟩
  have h0 : L.embed (lc F o g) ≠ 0 := coef_ne_zero L wg hld
  obtain ⟨i, e1, e2, e3⟩ := L.inv_some _ (lc_valid L wg.cv o) h0
  unfold normalize
  have hemp : g.isEmpty = false := by
    cases g with
    | nil => exact absurd rfl hne
    | cons _ _ => rfl
  rw [hemp, e1]
  simp only [Bool.false_eq_true, if_false]
  apply keys_scale
  rw [L.isZero_false_iff _ e2, e3]
  exact inv_ne_zero h0

theorem GB.normalize (h : GB L o I G) (hadm : Admissible o) :
    GB L o I (G.map (BPoly.normalize F o)) := by
  have hcase : ∀ g ∈ G, g = [] ∨ (g ≠ [] ∧ WF L (BPoly.normalize F o g) ∧
      keys (BPoly.normalize F o g) = keys g ∧
      toMv L (BPoly.normalize F o g) = single 0 (L.embed (lc F o g))⁻¹ * toMv L g) := by
    intro g hg
    by_cases hne : g = []
    · exact Or.inl hne
    · exact Or.inr ⟨hne, normalize_good L hadm (h.wf g hg) hne (h.ex g hg)⟩
  apply h.transfer hadm
  · intro g' hg'
    obtain ⟨g, hg, rfl⟩ := List.mem_map.1 hg'
    rcases hcase g hg with rfl | ⟨-, w, -, -⟩
    · rw [normalize_nil]; exact WF_nil L
    · exact w
  · intro g' hg'
    obtain ⟨g, hg, rfl⟩ := List.mem_map.1 hg'
    rcases hcase g hg with rfl | ⟨-, -, k, -⟩
    · rw [normalize_nil]; intro d hd; cases hd
    · rw [k]; exact h.ex g hg
  · intro g' hg'
    obtain ⟨g, hg, rfl⟩ := List.mem_map.1 hg'
    rcases hcase g hg with rfl | ⟨-, -, -, t⟩
    · rw [normalize_nil, toMv_nil]; exact I.zero_mem
    · rw [t]; exact I.mul_mem_left _ (h.mem g hg)
  · intro g hg hne
    refine ⟨BPoly.normalize F o g, List.mem_map_of_mem hg, ?_, ?_⟩
    · rcases hcase g hg with rfl | ⟨-, -, k, -⟩
      · exact absurd rfl hne
      · intro h0
        rw [h0] at k
        cases g with
        | nil => exact hne rfl
        | cons x t => simp [keys] at k
    · rcases hcase g hg with rfl | ⟨-, -, k, -⟩
      · exact absurd rfl hne
      · rw [ld_congr_keys k]; exact subDegs_self _

/-- removing a generator whose leading exponent is divisible by that of another nonzero generator -/
theorem GB.eraseIdx (h : GB L o I G) (hadm : Admissible o) {i : Nat} (hi : i < G.length)
    (hj : G[i] = [] ∨ ∃ (j : Nat) (hj : j < G.length), j ≠ i ∧ G[j] ≠ [] ∧
      subDegs (ld o G[i]) (ld o G[j]) ≠ none) :
    GB L o I (G.eraseIdx i) := by
  have hsub := (List.eraseIdx_sublist G i).subset
  apply h.transfer hadm (fun g hg => h.wf g (hsub hg)) (fun g hg => h.ex g (hsub hg))
    (fun g hg => h.mem g (hsub hg))
  intro g hg hne
  obtain ⟨k, hk, rfl⟩ := List.getElem_of_mem hg
  by_cases hki : k = i
  · subst hki
    rcases hj with h0 | ⟨j, hj, hji, hjne, hd⟩
    · exact absurd h0 hne
    · exact ⟨G[j], List.mem_eraseIdx_iff_getElem.2 ⟨j, hj, hji, rfl⟩, hjne, hd⟩
  · exact ⟨G[k], List.mem_eraseIdx_iff_getElem.2 ⟨k, hk, hki, rfl⟩, hne, subDegs_self _⟩

/-- replacing the generator `G[i]` by a member `r` of `I`: allowed when `G[i]` is zero, when its
    leading exponent is redundant, or when `r` has the same leading exponent -/
theorem GB.set (h : GB L o I G) (hadm : Admissible o) {i : Nat} (hi : i < G.length)
    {r : BPoly α} (wr : WF L r) (xr : ∀ d ∈ keys r, Exact o d) (mr : toMv L r ∈ I)
    (hcase : G[i] = [] ∨
      (∃ (j : Nat) (hj : j < G.length), j ≠ i ∧ G[j] ≠ [] ∧
        subDegs (ld o G[i]) (ld o G[j]) ≠ none) ∨
      (r ≠ [] ∧ ld o r = ld o G[i])) :
    GB L o I (G.set i r) := by
  have hmem : ∀ g ∈ G.set i r, g ∈ G ∨ g = r := fun g hg => List.mem_or_eq_of_mem_set hg
  have hin : ∀ (k : Nat) (hk : k < G.length), k ≠ i → G[k] ∈ G.set i r := by
    intro k hk hki
    have : (G.set i r)[k]? = some G[k] := by
      rw [List.getElem?_set_ne (Ne.symm hki)]; simp [hk]
    exact List.mem_of_getElem? this
  have hr : r ∈ G.set i r := by
    have : (G.set i r)[i]? = some r := by simp [hi]
    exact List.mem_of_getElem? this
  apply h.transfer hadm
  · intro g hg
    rcases hmem g hg with hg | rfl
    · exact h.wf g hg
    · exact wr
  · intro g hg
    rcases hmem g hg with hg | rfl
    · exact h.ex g hg
    · exact xr
  · intro g hg
    rcases hmem g hg with hg | rfl
    · exact h.mem g hg
    · exact mr
  · intro g hg hne
    obtain ⟨k, hk, rfl⟩ := List.getElem_of_mem hg
    by_cases hki : k = i
    · subst hki
      rcases hcase with h0 | ⟨j, hj, hji, hjne, hd⟩ | ⟨hrne, hld⟩
      · exact absurd h0 hne
      · exact ⟨G[j], hin j hj hji, hjne, hd⟩
      · exact ⟨r, hr, hrne, by rw [hld]; exact subDegs_self _⟩
    · exact ⟨G[k], hin k hk hki, hne, subDegs_self _⟩

end Instances

/-! ### `MinimizeBasis` -/

section Minimize

/-- the leading term of a nonzero polynomial with exact exponents, as a list -/
theorem lt_good (L : Lawful F K) {o : Order} (hadm : Admissible o) {g : BPoly α} (wg : WF L g)
    (hne : g ≠ []) (hx : ∀ d ∈ keys g, Exact o d) :
    lt F o g = [(ld o g, lc F o g)] ∧ ld o (lt F o g) = ld o g ∧ L.valid (lc F o g) ∧
      L.embed (lc F o g) ≠ 0 := by
  have hld := ld_mem_keys' hadm hne hx
  have v := lc_valid L wg.cv o
  have n : L.embed (lc F o g) ≠ 0 := coef_ne_zero L wg hld
  have e := lt_eq_single F o g ((L.isZero_false_iff _ v).2 n)
  refine ⟨e, ?_, v, n⟩
  rw [e]; exact ld_single hadm _ (hx _ hld)

theorem lt_nil (L : Lawful F K) (o : Order) : lt F o ([] : BPoly α) = [] := by
  have hz : F.isZero (lc F o ([] : BPoly α)) = true :=
    (L.isZero_iff _ L.zero_valid).2 L.embed_zero
  unfold lt setCoef
  rw [if_pos hz]; rfl

/-- what a positive answer of `spannedByOthers` means: `gens[i]` is zero, or its leading exponent
    is divisible by the leading exponent of another NONZERO generator -/
theorem spanned_dvd (L : Lawful F K) {o : Order} (hadm : Admissible o) {gens : List (BPoly α)}
    (hw : ∀ g ∈ gens, WF L g ∧ ∀ d ∈ keys g, Exact o d) {i : Nat}
    (hi : i < gens.length) (h : spannedByOthers F o (gens.map (lt F o)) i = true) :
    gens[i] = [] ∨ ∃ (j : Nat) (hj : j < gens.length), j ≠ i ∧ gens[j] ≠ [] ∧
      subDegs (ld o gens[i]) (ld o gens[j]) ≠ none := by
  by_cases hi0 : gens[i] = []
  · exact Or.inl hi0
  right
  have hgi := hw _ (List.getElem_mem hi)
  obtain ⟨e1, e2, v, n⟩ := lt_good L hadm hgi.1 hi0 hgi.2
  have hp : (gens.map (lt F o)).getD i [] = [(ld o gens[i], lc F o gens[i])] := by
    rw [List.getD_eq_getElem?_getD, List.getElem?_map, List.getElem?_eq_getElem hi]
    simp only [Option.map_some, Option.getD_some]
    exact e1
  have hpl : ld o ([(ld o gens[i], lc F o gens[i])] : BPoly α) = ld o gens[i] := by
    rw [← e1]; exact e2
  unfold spannedByOthers at h
  rw [hp] at h
  cases hq : quoRemLoop F o (some i) (gens.map (lt F o)) 1000 [(ld o gens[i], lc F o gens[i])]
      ((gens.map (lt F o)).map fun _ => []) [] with
  | none => rw [hq] at h; cases h
  | some qr =>
    obtain ⟨q, r⟩ := qr
    rw [hq] at h
    simp only at h
    cases hfd : firstDiv o (ld o gens[i]) (some i) (gens.map (lt F o)) 0 with
    | some x =>
      obtain ⟨j, g, dd⟩ := x
      obtain ⟨-, hgj, hne, hsd⟩ := firstDiv_some _ 0 hfd
      rw [Nat.sub_zero, List.getElem?_map] at hgj
      cases hgj' : gens[j]? with
      | none => rw [hgj'] at hgj; cases hgj
      | some gj =>
        rw [hgj'] at hgj
        simp only [Option.map_some, Option.some.injEq] at hgj
        obtain ⟨hj, rfl⟩ := List.getElem?_eq_some_iff.1 hgj'
        have hgj2 := hw _ (List.getElem_mem hj)
        by_cases hj0 : gens[j] = []
        · -- the first divisor found is a zero generator: the loop spins until the fuel is gone
          exfalso
          rw [hj0, lt_nil L o] at hgj
          subst hgj
          have hst : nextP F o (some i) (gens.map (lt F o)) [(ld o gens[i], lc F o gens[i])]
              = [(ld o gens[i], lc F o gens[i])] := by
            unfold nextP
            rw [hpl, hfd]
            simp only
            apply subShiftScale_of_isZero
            apply lcQuot_isZero L (CV_nil L)
            right; rfl
          rw [quoRemLoop_stuck (by simp) hst] at hq
          cases hq
        · obtain ⟨-, f2, -, -⟩ := lt_good L hadm hgj2.1 hj0 hgj2.2
          refine ⟨j, hj, ?_, hj0, ?_⟩
          · rintro rfl; exact hne rfl
          · rw [← f2, hgj, hsd]; exact Option.some_ne_none _
    | none =>
      exfalso
      rw [show (1000 : Nat) = 998 + 1 + 1 from rfl, quoRemLoop] at hq
      simp only [List.isEmpty_cons, Bool.false_eq_true, if_false] at hq
      rw [hpl, hfd] at hq
      simp only at hq
      have her : erase ([(ld o gens[i], lc F o gens[i])] : BPoly α) (ld o gens[i]) = [] := by
        simp [erase]
      have hco : coef F ([(ld o gens[i], lc F o gens[i])] : BPoly α) (ld o gens[i])
          = lc F o gens[i] := by simp [coef]
      rw [her, hco, quoRemLoop] at hq
      simp only [List.isEmpty_nil, if_true, Option.some.injEq, Prod.mk.injEq] at hq
      obtain ⟨-, rfl⟩ := hq
      have hz : F.isZero (lc F o gens[i]) = false := (L.isZero_false_iff _ v).2 n
      simp [incCoef, hz, has] at h

variable {L : Lawful F K} {o : Order} {I : _root_.Ideal (AddMonoidAlgebra K (ℕ × ℕ))}

/-- every removal made by the loop of `MinimizeBasis` keeps a Gröbner basis of the same ideal -/
theorem GB.minTrace (hadm : Admissible o) {gens lts final : List (BPoly α)}
    (ht : MinTrace F o gens lts final) (hl : lts = gens.map (lt F o)) (h : GB L o I gens) :
    GB L o I final := by
  induction ht with
  | done gens lts => exact h
  | @drop gens lts final i hi hsp _ ih =>
    subst hl
    have hd := spanned_dvd L hadm (fun g hg => ⟨h.wf g hg, h.ex g hg⟩) hi hsp
    exact ih (List.eraseIdx_map _ _ _) (h.eraseIdx hadm hi hd)

/-- `MinimizeBasis` (normalise, then remove generators with redundant leading terms) keeps a
    Gröbner basis of the same ideal -/
theorem GB.minimized {G : List (BPoly α)} (h : GB L o I G) (hadm : Admissible o) :
    GB L o I (BPoly.minimized F o G) :=
  GB.minTrace hadm (minimized_trace G) rfl (h.normalize hadm)

end Minimize

/-! ### `ReduceBasis` -/

section Reduce
variable {L : Lawful F K} {o : Order} {I : _root_.Ideal (AddMonoidAlgebra K (ℕ × ℕ))}

theorem dot_coeff_zero (L : Lawful F K) (e : Deg) :
    ∀ (qs gs : List (BPoly α)),
      (∀ (j : Nat) (q g : BPoly α), qs[j]? = some q → gs[j]? = some g →
        (toMv L q * toMv L g).coeff e = 0) →
      (dot L qs gs).coeff e = 0 := by
  intro qs
  induction qs with
  | nil => intro gs _; simp
  | cons q qs ih =>
    intro gs h
    cases gs with
    | nil => simp
    | cons g gs =>
      rw [dot_cons, AddMonoidAlgebra.coeff_add, Finsupp.add_apply, h 0 q g rfl rfl, zero_add]
      exact ih gs fun j q' g' hq hg => h (j + 1) q' g' (by simpa using hq) (by simpa using hg)

/-- the guard of one division of `ReduceBasis` (as `C11.RunSafe`) -/
def RunSafe' (F : FOps α) (o : Order) : Option Nat → List (BPoly α) → Nat → BPoly α → Prop :=
  fun ignore gs fuel f =>
    Admissible o ∧ (∀ d ∈ keys f, NoOverflow o d) ∧ RunOK F o ignore gs fuel f

/-- one replacement `g_i ↦ rem(g_i; others)` of `ReduceBasis` keeps a Gröbner basis of the same
    ideal -/
theorem GB.remByOthers {G : List (BPoly α)} (h : GB L o I G) (hadm : Admissible o) {i : Nat}
    (hi : i < G.length) (hs : RunSafe' F o (some i) G divFuel (G.getD i [])) {r : BPoly α}
    (hr : BPoly.remByOthers F o G i = some r) : GB L o I (G.set i r) := by
  have T := cmp_isTot o
  have H := tlt_monOrd hadm
  have hgi : G.getD i [] = G[i] := by simp [List.getD_eq_getElem?_getD, hi]
  rw [hgi] at hs
  obtain ⟨-, hno, hrun⟩ := hs
  unfold BPoly.remByOthers at hr
  rw [hgi] at hr
  cases hq : quoRemLoop F o (some i) G divFuel G[i] (G.map fun _ => []) [] with
  | none => rw [hq] at hr; cases hr
  | some pr =>
    obtain ⟨qs, r'⟩ := pr
    rw [hq] at hr
    simp only [Option.map_some, Option.some.injEq] at hr
    subst hr
    have hm : G[i] ∈ G := List.getElem_mem hi
    have wgi := h.wf _ hm
    obtain ⟨-, wr, -, e, hrem, qok⟩ := quoRemLoop_init_spec L hadm (fun g hg => (h.wf g hg).cv)
      wgi hno hrun hq
    obtain ⟨-, -, -, -, hign⟩ := Gb.quoRemLoop_wf L (fun x hx => (h.wf x hx).cv) divFuel _ _ []
      wgi (fun q hq => by obtain ⟨_, _, rfl⟩ := List.mem_map.1 hq; exact WF_nil L) (WF_nil L) hq
    have hqi : qs[i]? = some [] := by
      rw [hign i rfl, List.getElem?_map]; simp [hi]
    have xr : ∀ d ∈ keys r', Exact o d := fun d hd => Or.inr (hrem d hd).1
    have mr : toMv L r' ∈ I := by
      have : toMv L r' = toMv L G[i] - dot L qs G := by rw [e, add_sub_cancel_left]
      rw [this]
      refine I.sub_mem (h.mem _ hm) ?_
      exact qdot_mem L qs G fun j q g _ hg =>
        I.mul_mem_left _ (h.mem g (List.mem_of_getElem? hg))
    apply h.set hadm hi wr xr mr
    by_cases h0 : G[i] = []
    · exact Or.inl h0
    · by_cases hA : ∃ (j : Nat) (hj : j < G.length), j ≠ i ∧ G[j] ≠ [] ∧
          subDegs (ld o G[i]) (ld o G[j]) ≠ none
      · exact Or.inr (Or.inl hA)
      · refine Or.inr (Or.inr ?_)
        have hxi := h.ex _ hm
        obtain ⟨le1, -⟩ := ld_spec hadm h0 hxi
        have hce : (toMv L G[i]).coeff (ld o G[i]) ≠ 0 := (mem_keys_iff L wgi _).1 le1
        have hdz : (dot L qs G).coeff (ld o G[i]) = 0 := by
          apply dot_coeff_zero
          intro j q g hqj hgj
          by_contra hne
          obtain ⟨t, ht, d, hd, hsum⟩ := coeff_mul_ne_zero L hne
          obtain ⟨hj, rfl⟩ := List.getElem?_eq_some_iff.1 hgj
          have hji : j ≠ i := by
            rintro rfl
            rw [hqi] at hqj; cases hqj; cases ht
          have hgne : G[j] ≠ [] := by intro h'; rw [h'] at hd; cases hd
          obtain ⟨hsh, hle⟩ := qok j q _ hqj hgj t ht
          have hmj : G[j] ∈ G := List.getElem_mem hj
          obtain ⟨lj, -⟩ := ld_spec hadm hgne (h.ex _ hmj)
          have hc := cmp_add' o d (ld o G[j]) t (hsh d hd) (hsh _ lj)
          have hle2 : o.cmp (d.1 + t.1, d.2 + t.2) ((ld o G[j]).1 + t.1, (ld o G[j]).2 + t.2) ≤ 0 := by
            rw [hc]; exact ld_ge o _ d hd
          have hsum' : ld o G[i] = (d.1 + t.1, d.2 + t.2) := by
            rw [hsum]; exact Prod.ext (Nat.add_comm _ _) (Nat.add_comm _ _)
          rw [hsum'] at hle
          have heq := T.le_antisymm hle hle2
          apply hA
          refine ⟨j, hj, hji, hgne, ?_⟩
          have : subDegs (ld o G[i]) (ld o G[j]) = some t := by
            rw [subDegs_eq_some_iff, hsum', ← heq]; rfl
          rw [this]; exact Option.some_ne_none _
        have hcr : (toMv L r').coeff (ld o G[i]) ≠ 0 := by
          have := congrArg (fun p => p.coeff (ld o G[i])) e
          simp only [AddMonoidAlgebra.coeff_add, Finsupp.add_apply, hdz, zero_add] at this
          rw [← this]; exact hce
        have hk : ld o G[i] ∈ keys r' := (mem_keys_iff L wr _).2 hcr
        have hrne : r' ≠ [] := by rintro rfl; cases hk
        refine ⟨hrne, ?_⟩
        obtain ⟨lr1, lr2⟩ := ld_spec hadm hrne xr
        have h1 := (cmp_le_iff o (xr _ lr1) (hxi _ le1)).1 (hrem _ lr1).2.1
        exact H.eq_of_le_of_le h1 (lr2 _ hk)

/-- the replacement loop of `ReduceBasis` keeps a Gröbner basis of the same ideal -/
theorem GB.reduceLoop {G G' : List (BPoly α)} (h : GB L o I G) (hadm : Admissible o)
    (hsafe : ReduceSafe F o (RunSafe' F o) (List.range G.length) G)
    (hl : BPoly.reduceLoop F o G = some G') : GB L o I G' ∧ G'.length = G.length := by
  unfold BPoly.reduceLoop at hl
  have key : ∀ (l : List Nat) (g : List (BPoly α)), (∀ i ∈ l, i < g.length) → GB L o I g →
      ReduceSafe F o (RunSafe' F o) l g →
      l.foldl (fun acc i => match acc with
        | none => none
        | some gens => (BPoly.remByOthers F o gens i).map fun r => gens.set i r) (some g) = some G' →
      GB L o I G' ∧ G'.length = g.length := by
    intro l
    induction l with
    | nil =>
      intro g _ hg _ hf
      simp only [List.foldl_nil, Option.some.injEq] at hf
      subst hf; exact ⟨hg, rfl⟩
    | cons i t ih =>
      intro g hlt hg hs hf
      rw [List.foldl_cons] at hf
      cases hr : BPoly.remByOthers F o g i with
      | none =>
        simp only [hr, Option.map_none] at hf
        have : ∀ (t : List Nat), t.foldl (fun acc i => match acc with
            | none => none
            | some gens => (BPoly.remByOthers F o gens i).map fun r => gens.set i r)
            (none : Option (List (BPoly α))) = none := by
          intro t; induction t with
          | nil => rfl
          | cons _ _ ih => rw [List.foldl_cons]; exact ih
        rw [this] at hf; cases hf
      | some r =>
        simp only [hr, Option.map_some] at hf
        have hg' := hg.remByOthers hadm (hlt i List.mem_cons_self) hs.1 hr
        obtain ⟨c1, c2⟩ := ih (g.set i r)
          (fun j hj => by rw [List.length_set]; exact hlt j (List.mem_cons_of_mem _ hj)) hg'
          (hs.2 r hr) hf
        exact ⟨c1, by rw [c2, List.length_set]⟩
  exact key _ G (fun i hi => List.mem_range.1 hi) h hsafe hl

end Reduce

/-! ### `GroebnerBasis()` and `Quotient(id)` -/

section Pipeline
variable {L : Lawful F K} {o : Order}

/-- the division equation under the guard `RunSafe'` -/
theorem divSpec_runSafe' (L : Lawful F K) (o : Order) : DivSpec L o (RunSafe' F o) := by
  intro ignore gs fuel f qs r hf hgs hs h
  exact (quoRemLoop_init_spec L hs.1 (fun g hg => (hgs g hg).cv) hf hs.2.1 hs.2.2 h).2.2.2.1

/-- all generators produced by a run of `GroebnerBasis()` without wrap-around are well-formed,
    nonzero, of word size, with exact exponents — as soon as the input generators are -/
theorem buchberger_good (L : Lawful F K) {fuel : Nat} {gens G : List (BPoly α)}
    (hgens : ∀ g ∈ gens, WF L g ∧ g ≠ [] ∧ Bounded g ∧ ∀ d ∈ keys g, Exact o d)
    (h : buchberger F o fuel gens = some G)
    (hsafe : ∀ gb, gens <+: gb → gb <+: G → RoundSafe F o (RunSafe' F o) gb) :
    ∀ g ∈ G, WF L g ∧ g ≠ [] ∧ Bounded g ∧ ∀ d ∈ keys g, Exact o d := by
  have := buchberger_induct'
    (P := fun gb => gens <+: gb ∧ ∀ g ∈ gb, WF L g ∧ g ≠ [] ∧ Bounded g ∧ ∀ d ∈ keys g, Exact o d)
    h ⟨List.prefix_refl _, hgens⟩ ?_
  · exact this.2
  · rintro gb news ⟨hpre, hgb⟩ hs hpre'
    have hgbG : gb <+: G := (List.prefix_append gb news).trans hpre'
    refine ⟨hpre.trans (List.prefix_append gb news), ?_⟩
    intro g hg
    rcases List.mem_append.1 hg with hg | hg
    · exact hgb g hg
    · obtain ⟨hne, i, j, hij, hj, s, qs, hsp, hq⟩ := sPairRems_mem hs g hg
      have hi' : i < gb.length := by omega
      have hgi := hgb _ (List.getElem_mem hi')
      have hgj := hgb _ (List.getElem_mem hj)
      obtain ⟨ws, -, -⟩ := Gb.sPoly_spec L hgi.1.cv hgj.1.cv hgi.2.2.1 hgj.2.2.1 hsp
      obtain ⟨hadm, hno, hrun⟩ := hsafe gb hpre hgbG i j hij hj s hsp
      obtain ⟨-, wr, -, -, hrem, -⟩ := quoRemLoop_init_spec L hadm (fun x hx => (hgb x hx).1.cv)
        ws hno hrun hq
      refine ⟨wr, hne, ?_, fun d hd => Or.inr (hrem d hd).1⟩
      intro dc hdc
      have := (hrem dc.1 (List.mem_map_of_mem hdc)).1
      exact ⟨this.1, this.2.1⟩

/-- **C11 complete**: the list returned by a run of `GroebnerBasis()` without wrap-around is a
    Gröbner basis of the ideal generated by the input generators -/
theorem GB.of_buchberger (L : Lawful F K) (hadm : Admissible o) {fuel : Nat}
    {gens G : List (BPoly α)}
    (hgens : ∀ g ∈ gens, WF L g ∧ g ≠ [] ∧ Bounded g ∧ ∀ d ∈ keys g, Exact o d)
    (h : buchberger F o fuel gens = some G)
    (hsafe : ∀ gb, gens <+: gb → gb <+: G → RoundSafe F o (RunSafe' F o) gb) :
    GB L o (Ideal.span ((toMv L) '' {g | g ∈ gens})) G := by
  have hgood := buchberger_good L hgens h hsafe
  obtain ⟨-, hsp⟩ := buchberger_same_ideal (divSpec_runSafe' L o)
    (fun g hg => ⟨(hgens g hg).1, (hgens g hg).2.2.1⟩) h hsafe
  have hsp' : Ideal.span ((toMv L) '' {g | g ∈ G}) = Ideal.span ((toMv L) '' {g | g ∈ gens}) := hsp
  rw [← hsp']
  refine GB.of_criterion L hadm (fun g hg => ⟨(hgood g hg).1, (hgood g hg).2.1, (hgood g hg).2.2.1⟩)
    (fun g hg => (hgood g hg).2.2.2) ?_
  intro i j hij hj
  obtain ⟨s, qs, hs, hq⟩ := (sPairRems_nil_iff G).1 (buchberger_spairs_zero h) i j hij hj
  obtain ⟨e, he⟩ := buchberger_extends h
  have := hsafe G ⟨e, he.symm⟩ (List.prefix_refl _) i j hij hj s hs
  exact ⟨s, qs, hs, hq, this.2.1, this.2.2⟩

/-- the shape of `Quotient(id)` on an object not flagged as Gröbner basis:
    `GroebnerBasis`, then the removal loop, then the replacement loop -/
theorem quotientGens_shape {id : Ideal α} {gs : List (BPoly α)} (hfresh : id.isGroebner ≠ 1)
    (hq : quotientGens F o id = some gs) :
    ∃ G, buchberger F o groebnerFuel id.gens = some G ∧
      BPoly.reduceLoop F o (BPoly.minimized F o G) = some gs := by
  unfold quotientGens at hq
  rw [if_neg hfresh] at hq
  cases hg : id.groebnerBasis F o with
  | none => rw [hg] at hq; cases hq
  | some gb =>
    rw [hg] at hq
    simp only at hq
    rcases groebnerBasis_spec hg with ⟨h1, -⟩ | ⟨-, G, hG, rfl⟩
    · exact absurd h1 hfresh
    · refine ⟨G, hG, ?_⟩
      cases hr : Ideal.reduceBasis F o
          ({ gens := G, isGroebner := 1, isMinimal := 0, isReduced := 0 } : Ideal α) with
      | none => rw [hr] at hq; cases hq
      | some pr =>
        obtain ⟨id', res⟩ := pr
        rw [hr] at hq
        simp only [Option.map_some, Option.some.injEq] at hq
        obtain ⟨id1, bg, hq1, hc⟩ := reduceBasis_spec hr
        rw [Effects.isGroebnerQ_of_one F o rfl] at hq1
        simp only [Option.some.injEq, Prod.mk.injEq] at hq1
        obtain ⟨rfl, rfl⟩ := hq1
        rcases hc with ⟨hb, -, -⟩ | ⟨-, -, idm, gens, hM, hl, rfl⟩
        · cases hb
        · rw [if_pos (show (0 : Int) ≠ 1 by decide)] at hM
          rw [minimizeBasis_of_isGroebnerQ_true (Effects.isGroebnerQ_of_one F o rfl)] at hM
          simp only [Option.map_some, Option.some.injEq] at hM
          subst hM
          simp only at hq hl
          rw [← hq]; exact hl

/-- **the generators stored by `Quotient(id)` are a Gröbner basis of `⟨id.gens⟩`** (run without
    wrap-around: the S-polynomial divisions of `GroebnerBasis` and the divisions of `ReduceBasis`) -/
theorem GB.of_quotientGens (L : Lawful F K) (hadm : Admissible o) {id : Ideal α}
    {gs : List (BPoly α)} (hfresh : id.isGroebner ≠ 1)
    (hgens : ∀ g ∈ id.gens, WF L g ∧ g ≠ [] ∧ Bounded g ∧ ∀ d ∈ keys g, Exact o d)
    (hq : quotientGens F o id = some gs)
    (hsafe : ∀ G, buchberger F o groebnerFuel id.gens = some G →
      (∀ gb, id.gens <+: gb → gb <+: G → RoundSafe F o (RunSafe' F o) gb) ∧
      ReduceSafe F o (RunSafe' F o) (List.range (BPoly.minimized F o G).length)
        (BPoly.minimized F o G)) :
    GB L o (Ideal.span ((toMv L) '' {g | g ∈ id.gens})) gs := by
  obtain ⟨G, hG, hl⟩ := quotientGens_shape hfresh hq
  obtain ⟨hs1, hs2⟩ := hsafe G hG
  have h1 := GB.of_buchberger L hadm hgens hG hs1
  exact ((h1.minimized hadm).reduceLoop hadm hs2 hl).1

end Pipeline

/-! ### the converse: on a Gröbner basis every S-polynomial reduces to zero -/

section Converse
variable {L : Lawful F K} {o : Order} {I : _root_.Ideal (AddMonoidAlgebra K (ℕ × ℕ))}

/-- on a Gröbner basis the round of `IsGroebner()` / `GroebnerBasis()` finds no nonzero remainder
    (when its divisions do not wrap around) -/
theorem GB.sPairRems_nil {G news : List (BPoly α)} (h : GB L o I G) (hadm : Admissible o)
    (hb : ∀ g ∈ G, Bounded g) (hsafe : RoundSafe F o (RunSafe' F o) G)
    (hs : sPairRems F o G = some news) : news = [] := by
  cases news with
  | nil => rfl
  | cons r t =>
    exfalso
    obtain ⟨hne, i, j, hij, hj, s, qs, hsp, hq⟩ := sPairRems_mem hs r List.mem_cons_self
    have hi' : i < G.length := by omega
    have mi : G[i] ∈ G := List.getElem_mem hi'
    have mj : G[j] ∈ G := List.getElem_mem hj
    obtain ⟨ws, -, a, b, ts⟩ := Gb.sPoly_spec L (h.wf _ mi).cv (h.wf _ mj).cv (hb _ mi) (hb _ mj) hsp
    obtain ⟨-, hno, hrun⟩ := hsafe i j hij hj s hsp
    obtain ⟨-, wr, -, e, hrem, -⟩ := quoRemLoop_init_spec L hadm (fun x hx => (h.wf x hx).cv)
      ws hno hrun hq
    have mr : toMv L r ∈ I := by
      have : toMv L r = toMv L s - dot L qs G := by rw [e, add_sub_cancel_left]
      rw [this, ts]
      refine I.sub_mem (I.sub_mem (I.mul_mem_left _ (h.mem _ mi)) (I.mul_mem_left _ (h.mem _ mj))) ?_
      exact qdot_mem L qs G fun k q g _ hg =>
        I.mul_mem_left _ (h.mem g (List.mem_of_getElem? hg))
    have xr : ∀ d ∈ keys r, Exact o d := fun d hd => Or.inr (hrem d hd).1
    obtain ⟨g, hg, -, hd⟩ := h.exact hadm wr hne xr mr
    obtain ⟨k, hk, rfl⟩ := List.getElem_of_mem hg
    exact hd ((hrem _ (ld_mem_keys' hadm hne xr)).2.2 k _ (by simp [hk]) (by simp))

theorem GB.decideGroebner {G : List (BPoly α)} (h : GB L o I G) (hadm : Admissible o)
    (hb : ∀ g ∈ G, Bounded g) (hsafe : RoundSafe F o (RunSafe' F o) G) :
    BPoly.decideGroebner F o G ≠ some false := by
  unfold BPoly.decideGroebner
  cases hs : sPairRems F o G with
  | none => simp
  | some news =>
    rw [h.sPairRems_nil hadm hb hsafe hs]
    simp

/-- a positive un-cached `IsGroebner()` decision is Buchberger's criterion -/
theorem GB.of_decideGroebner (L : Lawful F K) (hadm : Admissible o) {G : List (BPoly α)}
    (hG : ∀ g ∈ G, WF L g ∧ g ≠ [] ∧ Bounded g ∧ ∀ d ∈ keys g, Exact o d)
    (hsafe : RoundSafe F o (RunSafe' F o) G) (hd : BPoly.decideGroebner F o G = some true) :
    GB L o (Ideal.span ((toMv L) '' {g | g ∈ G})) G := by
  refine GB.of_criterion L hadm (fun g hg => ⟨(hG g hg).1, (hG g hg).2.1, (hG g hg).2.2.1⟩)
    (fun g hg => (hG g hg).2.2.2) ?_
  unfold BPoly.decideGroebner at hd
  cases hs : sPairRems F o G with
  | none => rw [hs] at hd; cases hd
  | some news =>
    rw [hs] at hd
    simp only [Option.map_some, Option.some.injEq, List.isEmpty_iff] at hd
    subst hd
    intro i j hij hj
    obtain ⟨s, qs, h1, h2⟩ := (sPairRems_nil_iff G).1 hs i j hij hj
    have := hsafe i j hij hj s h1
    exact ⟨s, qs, h1, h2, this.2.1, this.2.2⟩

end Converse

/-! ### minimality: what `IsMinimal()` decides, and that `MinimizeBasis()` achieves it -/

section Minimal

theorem lc_single_of_ld {o : Order} {e : Deg} {c : α} (h : ld o ([(e, c)] : BPoly α) = e) :
    lc F o ([(e, c)] : BPoly α) = c := by
  unfold lc; rw [h]; simp [coef]

theorem firstDiv_exists {o : Order} {pLd : Deg} {ignore : Option Nat} (gs : List (BPoly α))
    (k : Nat) {j : Nat} (hj : j < gs.length) (hig : ignore ≠ some (k + j))
    (hd : subDegs pLd (ld o gs[j]) ≠ none) : ∃ x, firstDiv o pLd ignore gs k = some x := by
  cases hfd : firstDiv o pLd ignore gs k with
  | some x => exact ⟨x, rfl⟩
  | none => exact absurd (firstDiv_none gs k hfd j gs[j] (by simp [hj]) hig) hd

/-- the converse of `spanned_dvd` for nonzero generators of word size -/
theorem spanned_of_dvd (L : Lawful F K) {o : Order} (hadm : Admissible o) {gens : List (BPoly α)}
    (hw : ∀ g ∈ gens, WF L g ∧ g ≠ [] ∧ Bounded g ∧ ∀ d ∈ keys g, Exact o d) {i : Nat}
    (hi : i < gens.length)
    (hex : ∃ (j : Nat) (hj : j < gens.length), j ≠ i ∧
      subDegs (ld o gens[i]) (ld o gens[j]) ≠ none) :
    spannedByOthers F o (gens.map (lt F o)) i = true := by
  have hgi := hw _ (List.getElem_mem hi)
  obtain ⟨e1, e2, v, n⟩ := lt_good L hadm hgi.1 hgi.2.1 hgi.2.2.2
  have hp : (gens.map (lt F o)).getD i [] = [(ld o gens[i], lc F o gens[i])] := by
    rw [List.getD_eq_getElem?_getD, List.getElem?_map, List.getElem?_eq_getElem hi]
    simp only [Option.map_some, Option.getD_some]
    exact e1
  have hpl : ld o ([(ld o gens[i], lc F o gens[i])] : BPoly α) = ld o gens[i] := by
    rw [← e1]; exact e2
  obtain ⟨j, hj, hji, hd⟩ := hex
  have hgj := hw _ (List.getElem_mem hj)
  obtain ⟨-, f2, -, -⟩ := lt_good L hadm hgj.1 hgj.2.1 hgj.2.2.2
  have hjl : j < (gens.map (lt F o)).length := by rw [List.length_map]; exact hj
  obtain ⟨x, hfd⟩ := firstDiv_exists (o := o) (pLd := ld o gens[i]) (ignore := some i)
    (gens.map (lt F o)) 0 hjl (by rw [Nat.zero_add]; intro h; exact hji (Option.some.inj h).symm)
    (by rw [List.getElem_map, f2]; exact hd)
  obtain ⟨j', g, dd⟩ := x
  obtain ⟨-, hgj', -, hsd⟩ := firstDiv_some _ 0 hfd
  rw [Nat.sub_zero, List.getElem?_map] at hgj'
  cases hq' : gens[j']? with
  | none => rw [hq'] at hgj'; cases hgj'
  | some gj =>
    rw [hq'] at hgj'
    simp only [Option.map_some, Option.some.injEq] at hgj'
    obtain ⟨hj', rfl⟩ := List.getElem?_eq_some_iff.1 hq'
    have hg2 := hw _ (List.getElem_mem hj')
    obtain ⟨g1, g2, gv, gn⟩ := lt_good L hadm hg2.1 hg2.2.1 hg2.2.2.2
    rw [g1] at hgj'
    subst hgj'
    -- the single division step cancels the dividend
    have hg2' : ld o ([(ld o gens[j'], lc F o gens[j'])] : BPoly α) = ld o gens[j'] := by
      rw [← g1]; exact g2
    rw [hg2'] at hsd
    have hdd : ld o gens[i] = ld o gens[j'] + dd := (subDegs_eq_some_iff _ _ _).1 hsd
    have wp : WF L ([(ld o gens[i], lc F o gens[i])] : BPoly α) := WF_single L v n
    have wm : WF L ([(ld o gens[j'], lc F o gens[j'])] : BPoly α) := WF_single L gv gn
    have hlcp : lc F o ([(ld o gens[i], lc F o gens[i])] : BPoly α) = lc F o gens[i] :=
      lc_single_of_ld hpl
    have hlcm : lc F o ([(ld o gens[j'], lc F o gens[j'])] : BPoly α) = lc F o gens[j'] :=
      lc_single_of_ld hg2'
    have htv := lcQuot_valid L wp.cv wm.cv o
    have hte := lcQuot_embed L wp.cv wm.cv o (by rw [hlcm]; exact gn)
    rw [hlcp, hlcm] at hte
    have bi := Gb.ld_bounded (o := o) hgi.2.2.1
    have hsh : ShiftOK ([(ld o gens[j'], lc F o gens[j'])] : BPoly α) dd := by
      intro dc hdc
      simp only [List.mem_singleton] at hdc
      subst hdc
      have e1' := congrArg Prod.fst hdd
      have e2' := congrArg Prod.snd hdd
      simp only [Prod.fst_add, Prod.snd_add] at e1' e2'
      simp only
      omega
    obtain ⟨w1, t1⟩ := subShiftScale_spec L dd wp wm.cv htv hsh
    have hnil : subShiftScale F [(ld o gens[i], lc F o gens[i])]
        [(ld o gens[j'], lc F o gens[j'])] dd
        (lcQuot F o [(ld o gens[i], lc F o gens[i])] [(ld o gens[j'], lc F o gens[j'])]) = [] := by
      apply eq_nil_of_toMv_eq_zero L w1
      rw [t1, toMv_single, toMv_single, hte, AddMonoidAlgebra.single_mul_single,
        div_mul_cancel₀ _ gn, add_comm dd, ← hdd, sub_self]
    unfold spannedByOthers
    rw [hp, show (1000 : Nat) = 998 + 1 + 1 from rfl, quoRemLoop]
    simp only [List.isEmpty_cons, Bool.false_eq_true, if_false]
    rw [hpl, hfd]
    simp only
    rw [hnil, quoRemLoop]
    simp

/-- no leading exponent of a generator is divisible by the leading exponent of another one -/
def MinimalLd (o : Order) (G : List (BPoly α)) : Prop :=
  ∀ (i j : Nat) (hi : i < G.length) (hj : j < G.length), j ≠ i →
    subDegs (ld o G[i]) (ld o G[j]) = none

/-- the removal loop of `MinimizeBasis` runs to completion and leaves a list in which no leading
    exponent is divisible by another one -/
theorem minimizeLoop_minimal (L : Lawful F K) {o : Order} (hadm : Admissible o) :
    ∀ (fuel i : Nat) (gens : List (BPoly α)),
      (∀ g ∈ gens, WF L g ∧ g ≠ [] ∧ Bounded g ∧ ∀ d ∈ keys g, Exact o d) →
      gens.length - i < fuel → i ≤ gens.length →
      (∀ (k j : Nat) (hk : k < gens.length) (hj : j < gens.length), k < i → j ≠ k →
        subDegs (ld o gens[k]) (ld o gens[j]) = none) →
      MinimalLd o (minimizeLoop F o fuel i gens (gens.map (lt F o))) := by
  intro fuel
  induction fuel with
  | zero => intro i gens _ h; omega
  | succ n ih =>
    intro i gens hw hfuel hile hP
    rw [minimizeLoop]
    by_cases hge : i ≥ gens.length
    · rw [if_pos hge]
      intro k j hk hj hjk
      exact hP k j hk hj (by omega) hjk
    · rw [if_neg hge]
      have hi : i < gens.length := by omega
      by_cases hsp : spannedByOthers F o (gens.map (lt F o)) i = true
      · rw [if_pos hsp, List.eraseIdx_map]
        have hsub := (List.eraseIdx_sublist gens i).subset
        have hlen : (gens.eraseIdx i).length = gens.length - 1 := List.length_eraseIdx_of_lt hi
        apply ih i (gens.eraseIdx i) (fun g hg => hw g (hsub hg)) (by omega) (by omega)
        intro k j hk hj hki hjk
        rw [List.getElem_eraseIdx, List.getElem_eraseIdx]
        rw [dif_pos hki]
        by_cases hji : j < i
        · rw [dif_pos hji]
          exact hP k j (by omega) (by omega) hki hjk
        · rw [dif_neg hji]
          exact hP k (j + 1) (by omega) (by omega) hki (by omega)
      · rw [if_neg hsp]
        apply ih (i + 1) gens hw (by omega) (by omega)
        intro k j hk hj hki hjk
        by_cases hk' : k < i
        · exact hP k j hk hj hk' hjk
        · have hki' : k = i := by omega
          subst hki'
          by_contra hd
          exact hsp (spanned_of_dvd L hadm hw hk ⟨j, hj, hjk, hd⟩)


/-- being "good" (well-formed, nonzero, word size, exact exponents) and the leading exponents are
    kept by `Normalize` -/
theorem normalize_keeps (L : Lawful F K) {o : Order} (hadm : Admissible o) {g : BPoly α}
    (hg : WF L g ∧ g ≠ [] ∧ Bounded g ∧ ∀ d ∈ keys g, Exact o d) :
    (WF L (normalize F o g) ∧ normalize F o g ≠ [] ∧ Bounded (normalize F o g) ∧
      ∀ d ∈ keys (normalize F o g), Exact o d) ∧ ld o (normalize F o g) = ld o g := by
  obtain ⟨w, k, -⟩ := normalize_good L hadm hg.1 hg.2.1 hg.2.2.2
  refine ⟨⟨w, ?_, ?_, by rw [k]; exact hg.2.2.2⟩, ld_congr_keys k⟩
  · intro h0
    rw [h0] at k
    cases g with
    | nil => exact hg.2.1 rfl
    | cons x t => simp [keys] at k
  · have := hg.2.2.1
    rw [Bounded_iff_KeysIn] at this ⊢
    intro d hd
    rw [k] at hd
    exact this d hd

theorem MinimalLd.map_normalize (L : Lawful F K) {o : Order} (hadm : Admissible o)
    {G : List (BPoly α)} (hG : ∀ g ∈ G, WF L g ∧ g ≠ [] ∧ Bounded g ∧ ∀ d ∈ keys g, Exact o d) :
    MinimalLd o (G.map (normalize F o)) ↔ MinimalLd o G := by
  have hld : ∀ (i : Nat) (hi : i < G.length), ld o (normalize F o G[i]) = ld o G[i] :=
    fun i hi => (normalize_keeps L hadm (hG _ (List.getElem_mem hi))).2
  constructor
  · intro h i j hi hj hji
    have := h i j (by rw [List.length_map]; exact hi) (by rw [List.length_map]; exact hj) hji
    rwa [List.getElem_map, List.getElem_map, hld i hi, hld j hj] at this
  · intro h i j hi hj hji
    rw [List.length_map] at hi hj
    rw [List.getElem_map, List.getElem_map, hld i hi, hld j hj]
    exact h i j hi hj hji

theorem good_map_normalize (L : Lawful F K) {o : Order} (hadm : Admissible o)
    {G : List (BPoly α)} (hG : ∀ g ∈ G, WF L g ∧ g ≠ [] ∧ Bounded g ∧ ∀ d ∈ keys g, Exact o d) :
    ∀ g ∈ G.map (normalize F o), WF L g ∧ g ≠ [] ∧ Bounded g ∧ ∀ d ∈ keys g, Exact o d := by
  intro g' hg'
  obtain ⟨g, hg, rfl⟩ := List.mem_map.1 hg'
  exact (normalize_keeps L hadm (hG g hg)).1

/-- the un-cached decision of `IsMinimal()` says exactly that no leading exponent is divisible by
    another one (good generators) -/
theorem decideMinimal_iff (L : Lawful F K) {o : Order} (hadm : Admissible o) {G : List (BPoly α)}
    (hG : ∀ g ∈ G, WF L g ∧ g ≠ [] ∧ Bounded g ∧ ∀ d ∈ keys g, Exact o d) :
    decideMinimal F o G = true ↔ MinimalLd o G := by
  have hN := good_map_normalize L hadm hG
  rw [← MinimalLd.map_normalize L hadm hG]
  unfold decideMinimal
  rw [leadingTerms_snd, List.all_eq_true]
  simp only [List.length_map, List.mem_range, Bool.not_eq_true']
  constructor
  · intro h i j hi hj hji
    by_contra hd
    have := spanned_of_dvd L hadm hN hi ⟨j, hj, hji, hd⟩
    rw [h i (by rw [List.length_map] at hi; exact hi)] at this
    cases this
  · intro h i hi
    have hi' : i < (G.map (normalize F o)).length := by rw [List.length_map]; exact hi
    by_contra hsp
    have hsp' : spannedByOthers F o ((G.map (normalize F o)).map (lt F o)) i = true := by
      cases hb : spannedByOthers F o ((G.map (normalize F o)).map (lt F o)) i with
      | true => rfl
      | false => exact absurd hb hsp
    rcases spanned_dvd L hadm (fun g hg => ⟨(hN g hg).1, (hN g hg).2.2.2⟩) hi' hsp' with
      h0 | ⟨j, hj, hji, -, hd⟩
    · exact (hN _ (List.getElem_mem hi')).2.1 h0
    · exact hd (h i j hi' hj hji)

/-- after `MinimizeBasis` no leading exponent is divisible by another one -/
theorem minimized_minimal (L : Lawful F K) {o : Order} (hadm : Admissible o) {G : List (BPoly α)}
    (hG : ∀ g ∈ G, WF L g ∧ g ≠ [] ∧ Bounded g ∧ ∀ d ∈ keys g, Exact o d) :
    MinimalLd o (minimized F o G) ∧
    ∀ g ∈ minimized F o G, WF L g ∧ g ≠ [] ∧ Bounded g ∧ ∀ d ∈ keys g, Exact o d := by
  have hN := good_map_normalize L hadm hG
  refine ⟨?_, fun g hg => hN g ((minimized_sublist G).subset hg)⟩
  exact minimizeLoop_minimal L hadm _ 0 _ hN (by omega) (Nat.zero_le _)
    (fun k j _ _ hk _ => absurd hk (Nat.not_lt_zero k))

end Minimal

/-! ### `ReduceBasis` keeps minimality -/

section ReduceMinimal

/-- one replacement of `ReduceBasis` on a list in which no leading exponent divides another one:
    the remainder is nonzero, good, and has the same leading exponent -/
theorem remByOthers_minimal (L : Lawful F K) {o : Order} (hadm : Admissible o)
    {G : List (BPoly α)}
    (hG : ∀ g ∈ G, WF L g ∧ g ≠ [] ∧ Bounded g ∧ ∀ d ∈ keys g, Exact o d)
    (hm : MinimalLd o G) {i : Nat} (hi : i < G.length)
    (hs : RunSafe' F o (some i) G divFuel (G.getD i [])) {r : BPoly α}
    (hr : remByOthers F o G i = some r) :
    (WF L r ∧ r ≠ [] ∧ Bounded r ∧ ∀ d ∈ keys r, Exact o d) ∧ ld o r = ld o G[i] := by
  have T := cmp_isTot o
  have H := tlt_monOrd hadm
  have hgi : G.getD i [] = G[i] := by simp [List.getD_eq_getElem?_getD, hi]
  rw [hgi] at hs
  obtain ⟨-, hno, hrun⟩ := hs
  unfold remByOthers at hr
  rw [hgi] at hr
  cases hq : quoRemLoop F o (some i) G divFuel G[i] (G.map fun _ => []) [] with
  | none => rw [hq] at hr; cases hr
  | some pr =>
    obtain ⟨qs, r'⟩ := pr
    rw [hq] at hr
    simp only [Option.map_some, Option.some.injEq] at hr
    subst hr
    have hmi : G[i] ∈ G := List.getElem_mem hi
    have wgi := (hG _ hmi).1
    obtain ⟨-, wr, -, e, hrem, qok⟩ := quoRemLoop_init_spec L hadm (fun g hg => (hG g hg).1.cv)
      wgi hno hrun hq
    obtain ⟨-, -, -, -, hign⟩ := Gb.quoRemLoop_wf L (fun x hx => (hG x hx).1.cv) divFuel _ _ []
      wgi (fun q hq => by obtain ⟨_, _, rfl⟩ := List.mem_map.1 hq; exact WF_nil L) (WF_nil L) hq
    have hqi : qs[i]? = some [] := by
      rw [hign i rfl, List.getElem?_map]; simp [hi]
    have xr : ∀ d ∈ keys r', Exact o d := fun d hd => Or.inr (hrem d hd).1
    have hxi := (hG _ hmi).2.2.2
    obtain ⟨le1, -⟩ := ld_spec hadm (hG _ hmi).2.1 hxi
    have hce : (toMv L G[i]).coeff (ld o G[i]) ≠ 0 := (mem_keys_iff L wgi _).1 le1
    have hdz : (dot L qs G).coeff (ld o G[i]) = 0 := by
      apply dot_coeff_zero
      intro j q g hqj hgj
      by_contra hne
      obtain ⟨t, ht, d, hd, hsum⟩ := coeff_mul_ne_zero L hne
      obtain ⟨hj, rfl⟩ := List.getElem?_eq_some_iff.1 hgj
      have hji : j ≠ i := by
        rintro rfl
        rw [hqi] at hqj; cases hqj; cases ht
      obtain ⟨hsh, hle⟩ := qok j q _ hqj hgj t ht
      have hmj : G[j] ∈ G := List.getElem_mem hj
      obtain ⟨lj, -⟩ := ld_spec hadm (hG _ hmj).2.1 (hG _ hmj).2.2.2
      have hc := cmp_add' o d (ld o G[j]) t (hsh d hd) (hsh _ lj)
      have hle2 : o.cmp (d.1 + t.1, d.2 + t.2) ((ld o G[j]).1 + t.1, (ld o G[j]).2 + t.2) ≤ 0 := by
        rw [hc]; exact ld_ge o _ d hd
      have hsum' : ld o G[i] = (d.1 + t.1, d.2 + t.2) := by
        rw [hsum]; exact Prod.ext (Nat.add_comm _ _) (Nat.add_comm _ _)
      rw [hsum'] at hle
      have heq := T.le_antisymm hle hle2
      have : subDegs (ld o G[i]) (ld o G[j]) = some t := by
        rw [subDegs_eq_some_iff, hsum', ← heq]; rfl
      rw [hm i j hi hj hji] at this
      cases this
    have hcr : (toMv L r').coeff (ld o G[i]) ≠ 0 := by
      have := congrArg (fun p => p.coeff (ld o G[i])) e
      simp only [AddMonoidAlgebra.coeff_add, Finsupp.add_apply, hdz, zero_add] at this
      rw [← this]; exact hce
    have hk : ld o G[i] ∈ keys r' := (mem_keys_iff L wr _).2 hcr
    have hrne : r' ≠ [] := by rintro rfl; cases hk
    refine ⟨⟨wr, hrne, ?_, xr⟩, ?_⟩
    · intro dc hdc
      have := (hrem dc.1 (List.mem_map_of_mem hdc)).1
      exact ⟨this.1, this.2.1⟩
    · obtain ⟨lr1, lr2⟩ := ld_spec hadm hrne xr
      have h1 := (cmp_le_iff o (xr _ lr1) (hxi _ le1)).1 (hrem _ lr1).2.1
      exact H.eq_of_le_of_le h1 (lr2 _ hk)

theorem MinimalLd.set {o : Order} {G : List (BPoly α)} (hm : MinimalLd o G) {i : Nat}
    (hi : i < G.length) {r : BPoly α} (hr : ld o r = ld o G[i]) : MinimalLd o (G.set i r) := by
  have hld : ∀ (a : Nat) (ha : a < (G.set i r).length),
      ld o (G.set i r)[a] = ld o (G[a]'(by rw [List.length_set] at ha; exact ha)) := by
    intro a ha
    rw [List.getElem_set]
    split
    · rename_i h; subst h; exact hr
    · rfl
  intro a b ha hb hba
  rw [hld a ha, hld b hb]
  rw [List.length_set] at ha hb
  exact hm a b ha hb hba

/-- the replacement loop of `ReduceBasis` on a good list in which no leading exponent divides
    another one keeps both properties -/
theorem reduceLoop_minimal (L : Lawful F K) {o : Order} (hadm : Admissible o)
    {G G' : List (BPoly α)}
    (hG : ∀ g ∈ G, WF L g ∧ g ≠ [] ∧ Bounded g ∧ ∀ d ∈ keys g, Exact o d)
    (hm : MinimalLd o G)
    (hsafe : ReduceSafe F o (RunSafe' F o) (List.range G.length) G)
    (hl : reduceLoop F o G = some G') :
    (∀ g ∈ G', WF L g ∧ g ≠ [] ∧ Bounded g ∧ ∀ d ∈ keys g, Exact o d) ∧ MinimalLd o G' := by
  unfold reduceLoop at hl
  have key : ∀ (l : List Nat) (g : List (BPoly α)), (∀ i ∈ l, i < g.length) →
      (∀ x ∈ g, WF L x ∧ x ≠ [] ∧ Bounded x ∧ ∀ d ∈ keys x, Exact o d) → MinimalLd o g →
      ReduceSafe F o (RunSafe' F o) l g →
      l.foldl (fun acc i => match acc with
        | none => none
        | some gens => (remByOthers F o gens i).map fun r => gens.set i r) (some g) = some G' →
      (∀ x ∈ G', WF L x ∧ x ≠ [] ∧ Bounded x ∧ ∀ d ∈ keys x, Exact o d) ∧ MinimalLd o G' := by
    intro l
    induction l with
    | nil =>
      intro g _ hg hmg _ hf
      simp only [List.foldl_nil, Option.some.injEq] at hf
      subst hf; exact ⟨hg, hmg⟩
    | cons i t ih =>
      intro g hlt hg hmg hs hf
      rw [List.foldl_cons] at hf
      cases hr : remByOthers F o g i with
      | none =>
        simp only [hr, Option.map_none] at hf
        have : ∀ (t : List Nat), t.foldl (fun acc i => match acc with
            | none => none
            | some gens => (remByOthers F o gens i).map fun r => gens.set i r)
            (none : Option (List (BPoly α))) = none := by
          intro t; induction t with
          | nil => rfl
          | cons _ _ ih => rw [List.foldl_cons]; exact ih
        rw [this] at hf; cases hf
      | some r =>
        simp only [hr, Option.map_some] at hf
        have hi := hlt i List.mem_cons_self
        obtain ⟨gr, hld⟩ := remByOthers_minimal L hadm hg hmg hi hs.1 hr
        have hg' : ∀ x ∈ g.set i r, WF L x ∧ x ≠ [] ∧ Bounded x ∧ ∀ d ∈ keys x, Exact o d := by
          intro x hx
          rcases List.mem_or_eq_of_mem_set hx with hx | rfl
          · exact hg x hx
          · exact gr
        exact ih (g.set i r)
          (fun j hj => by rw [List.length_set]; exact hlt j (List.mem_cons_of_mem _ hj)) hg'
          (hmg.set hi hld) (hs.2 r hr) hf
  exact key _ G (fun i hi => List.mem_range.1 hi) hG hm hsafe hl

end ReduceMinimal

end BPoly
end Algobra
