/-
  Proofs/UPolyDiv.lean — division with remainder, gcd, reduction modulo a monic polynomial and
  quotient-ring arithmetic of the list model `Algobra.UPoly` (Model/UPoly.lean), related to
  Mathlib's `K[X]` through `toPoly` (Proofs/UPolyRefine.lean).  Used by Props/C06 and Props/C07.
-/
import Mathlib.Algebra.Polynomial.FieldDivision
import Mathlib.Algebra.Polynomial.EraseLead
import Mathlib.RingTheory.Ideal.Span
import Mathlib.Tactic.LinearCombination
import Algobra.Proofs.UPolyRefine

namespace Algobra
namespace UPoly

open Polynomial

variable {α : Type} {F : FOps α} {K : Type} [Field K] (L : Lawful F K)

/-! ### pure `K[X]` facts -/

/-- cancelling the leading term of `P` by a multiple of `G` lowers the degree -/
theorem degree_cancel_lt {P G : K[X]} (hP : P ≠ 0) (hG : G ≠ 0)
    (hd : G.natDegree ≤ P.natDegree) :
    (P - C (P.leadingCoeff / G.leadingCoeff) * X ^ (P.natDegree - G.natDegree) * G).degree
      < P.degree := by
  have ha : P.leadingCoeff / G.leadingCoeff ≠ 0 :=
    div_ne_zero (leadingCoeff_ne_zero.2 hP) (leadingCoeff_ne_zero.2 hG)
  have hm : C (P.leadingCoeff / G.leadingCoeff) * X ^ (P.natDegree - G.natDegree) ≠ 0 := by
    rw [C_mul_X_pow_eq_monomial]
    exact fun h => ha ((monomial_eq_zero_iff _ _).1 h)
  apply degree_sub_lt_left _ hP
  · rw [leadingCoeff_mul, leadingCoeff_mul, leadingCoeff_C, leadingCoeff_X_pow, mul_one,
      div_mul_cancel₀ _ (leadingCoeff_ne_zero.2 hG)]
  · rw [degree_eq_natDegree hP, degree_eq_natDegree (mul_ne_zero hm hG), natDegree_mul hm hG,
      natDegree_C_mul_X_pow _ _ ha]
    congr 1
    omega

/-- Euclidean quotient and remainder over a field are unique -/
theorem div_mod_unique {f g q r : K[X]} (hg : g ≠ 0) (h : f = q * g + r)
    (hr : r.degree < g.degree) : q = f / g ∧ r = f % g := by
  have hlc : g.leadingCoeff ≠ 0 := leadingCoeff_ne_zero.2 hg
  have hmon := monic_mul_leadingCoeff_inv hg
  have := div_modByMonic_unique (f := f) (g := g * C g.leadingCoeff⁻¹) (C g.leadingCoeff * q) r hmon
    ⟨by
      rw [h, mul_assoc, ← mul_assoc (C _), ← C_mul, inv_mul_cancel₀ hlc, C_1, one_mul]; ring,
     by rw [degree_mul_leadingCoeff_inv _ hg]; exact hr⟩
  constructor
  · rw [div_def, this.1, ← mul_assoc, ← C_mul, inv_mul_cancel₀ hlc, C_1, one_mul]
  · rw [mod_def, this.2]

theorem modByMonic_modByMonic {G : K[X]} (hG : G.Monic) (a : K[X]) : (a %ₘ G) %ₘ G = a %ₘ G :=
  (modByMonic_eq_self_iff hG).2 (degree_modByMonic_lt a hG)

theorem mul_modByMonic_congr {G a a' b b' : K[X]} (h1 : a %ₘ G = a' %ₘ G)
    (h2 : b %ₘ G = b' %ₘ G) : (a * b) %ₘ G = (a' * b') %ₘ G := by
  rw [mul_modByMonic a b, h1, h2, ← mul_modByMonic]

theorem pow_modByMonic_congr {G a a' : K[X]} (h : a %ₘ G = a' %ₘ G) (k : Nat) :
    (a ^ k) %ₘ G = (a' ^ k) %ₘ G := by
  induction k with
  | zero => simp
  | succ k ih => rw [pow_succ, pow_succ]; exact mul_modByMonic_congr ih h

/-! ### `Σ qᵢ·gᵢ` -/

/-- `Σ qᵢ·gᵢ` -/
noncomputable def dot (qs gs : List (UPoly α)) : K[X] :=
  (List.zipWith (fun q g => toPoly L q * toPoly L g) qs gs).sum

@[simp] theorem dot_nil_left (gs : List (UPoly α)) : dot L [] gs = 0 := by simp [dot]

@[simp] theorem dot_nil_right (qs : List (UPoly α)) : dot L qs [] = 0 := by simp [dot]

@[simp] theorem dot_cons (q g : UPoly α) (qs gs : List (UPoly α)) :
    dot L (q :: qs) (g :: gs) = toPoly L q * toPoly L g + dot L qs gs := by simp [dot]

theorem dot_set (qs gs : List (UPoly α)) (k : Nat) (g q' z : UPoly α)
    (hk : k < qs.length) (hg : gs[k]? = some g) :
    dot L (qs.set k q') gs =
      dot L qs gs + (toPoly L q' - toPoly L (qs.getD k z)) * toPoly L g := by
  induction qs generalizing gs k with
  | nil => simp at hk
  | cons q qs ih =>
    cases gs with
    | nil => simp at hg
    | cons g0 gs =>
      cases k with
      | zero =>
        simp only [List.getElem?_cons_zero, Option.some.injEq] at hg
        subst hg
        simp only [List.set_cons_zero, dot_cons, List.getD_cons_zero]
        ring
      | succ k =>
        simp only [List.getElem?_cons_succ] at hg
        simp only [List.length_cons, Nat.add_lt_add_iff_right] at hk
        simp only [List.set_cons_succ, dot_cons, List.getD_cons_succ, ih gs k hk hg]
        ring

theorem dot_map_zero (gs : List (UPoly α)) : dot L (gs.map fun _ => zero F) gs = 0 := by
  induction gs with
  | nil => simp
  | cons g gs ih =>
    rw [List.map_cons, dot_cons, ih, toPoly_zero, zero_mul, add_zero]

/-! ### `firstFit`, `lcQuot` -/

theorem firstFit_some {p : UPoly α} {gs : List (UPoly α)} {i j : Nat} {g : UPoly α}
    (h : firstFit p gs i = some (j, g)) :
    ∃ k, j = i + k ∧ gs[k]? = some g ∧ ld g ≤ ld p := by
  induction gs generalizing i with
  | nil => simp [firstFit] at h
  | cons g0 gs ih =>
    rw [firstFit] at h
    split at h
    · next hge =>
      simp only [Option.some.injEq, Prod.mk.injEq] at h
      obtain ⟨rfl, rfl⟩ := h
      exact ⟨0, rfl, rfl, hge⟩
    · obtain ⟨k, hk, hg, hl⟩ := ih h
      exact ⟨k + 1, by omega, by simpa using hg, hl⟩

theorem firstFit_none {p : UPoly α} {gs : List (UPoly α)} {i : Nat}
    (h : firstFit p gs i = none) : ∀ g ∈ gs, ld p < ld g := by
  induction gs generalizing i with
  | nil => intro g hg; cases hg
  | cons g0 gs ih =>
    rw [firstFit] at h
    split at h
    · cases h
    · next hlt =>
      intro g hg
      rcases List.mem_cons.1 hg with rfl | hg
      · omega
      · exact ih h g hg

/-- `lcQuot` is `lc p / lc g` in `K` (for a nonzero divisor the `none` branch is not taken) -/
theorem lcQuot_spec {p g : UPoly α} (hp : WF L p) (hg : WF L g) (hg0 : toPoly L g ≠ 0) :
    L.valid (lcQuot F p g) ∧
      L.embed (lcQuot F p g) = (toPoly L p).leadingCoeff / (toPoly L g).leadingCoeff := by
  have hvp := lc_valid L hp.1
  have hvg := lc_valid L hg.1
  have hne : L.embed (lc F g) ≠ 0 := by rw [embed_lc L hg]; exact leadingCoeff_ne_zero.2 hg0
  unfold lcQuot
  split
  · next h1 =>
    have h1' := (L.isOne_iff _ hvg).1 h1
    refine ⟨L.mul_valid _ _ hvp hvg, ?_⟩
    rw [L.embed_mul _ _ hvp hvg, ← embed_lc L hg, h1', mul_one, div_one, embed_lc L hp]
  · obtain ⟨i, hi, hiv, hie⟩ := L.inv_some _ hvg hne
    rw [hi]
    refine ⟨L.mul_valid _ _ hvp hiv, ?_⟩
    rw [L.embed_mul _ _ hvp hiv, hie, embed_lc L hp, embed_lc L hg, div_eq_mul_inv]

/-! ### the main loop of `QuoRem` -/

/-- effect of one cancellation step (some divisor fits) -/
theorem quoRem_step_fit {gs : List (UPoly α)} (hgs : ∀ g ∈ gs, WF L g ∧ toPoly L g ≠ 0)
    {p : UPoly α} {qs : List (UPoly α)} (hp : WF L p) (hqs : ∀ q ∈ qs, WF L q)
    (hlen : qs.length = gs.length) {i : Nat} {g : UPoly α}
    (hfit : firstFit p gs 0 = some (i, g)) :
    let t := lcQuot F p g
    let p' := subShiftScale F p g (ld p - ld g) t
    let qs' := qs.set i (incCoef F (qs.getD i (zero F)) (ld p - ld g) t)
    WF L p' ∧ (∀ q ∈ qs', WF L q) ∧ qs'.length = gs.length ∧
      toPoly L p' + dot L qs' gs = toPoly L p + dot L qs gs ∧
      (toPoly L p ≠ 0 → (toPoly L p').degree < (toPoly L p).degree) := by
  intro t p' qs'
  obtain ⟨k, hk, hgk, hld⟩ := firstFit_some hfit
  have hik : i = k := by omega
  subst hik
  have hgmem : g ∈ gs := List.mem_of_getElem? hgk
  obtain ⟨hg, hg0⟩ := hgs g hgmem
  obtain ⟨htv, hte⟩ := lcQuot_spec L hp hg hg0
  have hi : i < qs.length := by
    rw [hlen]; exact (List.getElem?_eq_some_iff.1 hgk).1
  have hqi : WF L (qs.getD i (zero F)) := by
    rw [List.getD_eq_getElem _ _ hi]; exact hqs _ (List.getElem_mem hi)
  have hp' : toPoly L p' = toPoly L p -
      C (L.embed t) * X ^ (ld p - ld g) * toPoly L g :=
    toPoly_subShiftScale L hp hg.1 _ htv
  refine ⟨subShiftScale_wf L hp hg.1 _ htv, ?_, by simp [qs', hlen], ?_, ?_⟩
  · intro q hq
    rcases List.mem_or_eq_of_mem_set hq with h | h
    · exact hqs q h
    · rw [h]; exact incCoef_wf L hqi _ htv
  · rw [dot_set L qs gs i g _ (zero F) hi hgk, toPoly_incCoef L hqi _ htv, hp',
      ← C_mul_X_pow_eq_monomial]
    ring
  · intro hp0
    rw [hp', hte, ld_eq_natDegree L hp, ld_eq_natDegree L hg]
    apply degree_cancel_lt hp0 hg0
    rw [← ld_eq_natDegree L hp, ← ld_eq_natDegree L hg]; exact hld

/-- effect of moving the leading term to the remainder (no divisor fits) -/
theorem quoRem_step_nofit {gs : List (UPoly α)} (hgs : ∀ g ∈ gs, WF L g ∧ toPoly L g ≠ 0)
    {p r : UPoly α} (hp : WF L p) (hr : WF L r)
    (hrdeg : ∀ g ∈ gs, (toPoly L r).degree < (toPoly L g).degree)
    (hfit : firstFit p gs 0 = none) :
    let p' := removeCoef F p (ld p)
    let r' := incCoef F r (ld p) (lc F p)
    WF L p' ∧ WF L r' ∧ toPoly L p' + toPoly L r' = toPoly L p + toPoly L r ∧
      (∀ g ∈ gs, (toPoly L r').degree < (toPoly L g).degree) ∧
      (toPoly L p ≠ 0 → (toPoly L p').degree < (toPoly L p).degree) := by
  intro p' r'
  have hlcv := lc_valid L hp.1
  have hp' : toPoly L p' = toPoly L p -
      monomial (toPoly L p).natDegree (toPoly L p).leadingCoeff := by
    show toPoly L (removeCoef F p (ld p)) = _
    rw [toPoly_removeCoef L hp, ld_eq_natDegree L hp]; rfl
  have hr' : toPoly L r' = toPoly L r +
      monomial (toPoly L p).natDegree (toPoly L p).leadingCoeff := by
    show toPoly L (incCoef F r (ld p) (lc F p)) = _
    rw [toPoly_incCoef L hr _ hlcv, embed_lc L hp, ld_eq_natDegree L hp]
  refine ⟨removeCoef_wf L hp _, incCoef_wf L hr _ hlcv, by rw [hp', hr']; ring, ?_, ?_⟩
  · intro g hg
    obtain ⟨hgw, hg0⟩ := hgs g hg
    have hlt := firstFit_none hfit g hg
    rw [ld_eq_natDegree L hp, ld_eq_natDegree L hgw] at hlt
    rw [hr']
    refine lt_of_le_of_lt (degree_add_le _ _) (max_lt (hrdeg g hg) ?_)
    refine lt_of_le_of_lt (degree_monomial_le _ _) ?_
    rw [degree_eq_natDegree hg0]
    exact_mod_cast hlt
  · intro hp0
    rw [hp', self_sub_monomial_natDegree_leadingCoeff]
    exact degree_eraseLead_lt hp0

/-- correctness of `quoRemLoop` whenever it returns (any fuel): the loop invariant
    `p + Σ qᵢgᵢ + r` is preserved, everything stays well-formed and the remainder only receives
    terms of degree below every divisor. -/
theorem quoRemLoop_spec {gs : List (UPoly α)} (hgs : ∀ g ∈ gs, WF L g ∧ toPoly L g ≠ 0)
    (fuel : Nat) (p : UPoly α) (qs : List (UPoly α)) (r : UPoly α)
    (hp : WF L p) (hqs : ∀ q ∈ qs, WF L q) (hlen : qs.length = gs.length) (hr : WF L r)
    (hrdeg : ∀ g ∈ gs, (toPoly L r).degree < (toPoly L g).degree)
    {qs' : List (UPoly α)} {r' : UPoly α}
    (h : quoRemLoop F gs fuel p qs r = some (qs', r')) :
    toPoly L p + dot L qs gs + toPoly L r = dot L qs' gs + toPoly L r' ∧
      (∀ q ∈ qs', WF L q) ∧ qs'.length = gs.length ∧ WF L r' ∧
      ∀ g ∈ gs, (toPoly L r').degree < (toPoly L g).degree := by
  induction fuel generalizing p qs r with
  | zero => simp [quoRemLoop] at h
  | succ fuel ih =>
    rw [quoRemLoop] at h
    split at h
    · next hz =>
      simp only [Option.some.injEq, Prod.mk.injEq] at h
      obtain ⟨rfl, rfl⟩ := h
      rw [(isZero_iff L hp).1 hz, zero_add]
      exact ⟨rfl, hqs, hlen, hr, hrdeg⟩
    · split at h
      · next i g hfit =>
        obtain ⟨h1, h2, h3, h4, -⟩ := quoRem_step_fit L hgs hp hqs hlen hfit
        obtain ⟨e, r1, r2, r3, r4⟩ := ih _ _ _ h1 h2 h3 hr hrdeg h
        exact ⟨by rw [← e, h4], r1, r2, r3, r4⟩
      · next hfit =>
        obtain ⟨h1, h2, h3, h4, -⟩ := quoRem_step_nofit L hgs hp hr hrdeg hfit
        obtain ⟨e, r1, r2, r3, r4⟩ := ih _ _ _ h1 hqs hlen h2 h4 h
        refine ⟨?_, r1, r2, r3, r4⟩
        rw [← e]; linear_combination -h3

/-- termination: `deg p + 2` iterations suffice -/
theorem quoRemLoop_isSome {gs : List (UPoly α)} (hgs : ∀ g ∈ gs, WF L g ∧ toPoly L g ≠ 0)
    (fuel : Nat) (p : UPoly α) (qs : List (UPoly α)) (r : UPoly α)
    (hp : WF L p) (hqs : ∀ q ∈ qs, WF L q) (hlen : qs.length = gs.length) (hr : WF L r)
    (hrdeg : ∀ g ∈ gs, (toPoly L r).degree < (toPoly L g).degree)
    (hfuel : (toPoly L p).degree < (fuel : WithBot ℕ)) :
    (quoRemLoop F gs (fuel + 1) p qs r).isSome = true := by
  induction fuel generalizing p qs r with
  | zero =>
    have h0 : toPoly L p = 0 := by
      by_contra h0
      rw [degree_eq_natDegree h0] at hfuel
      exact absurd hfuel (by simp)
    rw [quoRemLoop, if_pos ((isZero_iff L hp).2 h0)]; rfl
  | succ fuel ih =>
    rw [quoRemLoop]
    split
    · rfl
    · next hz =>
      have hp0 : toPoly L p ≠ 0 := fun h => hz ((isZero_iff L hp).2 h)
      have key : ∀ P' : K[X], P'.degree < (toPoly L p).degree → P'.degree < (fuel : WithBot ℕ) := by
        intro P' hlt
        by_cases hP' : P' = 0
        · rw [hP', degree_zero]; exact WithBot.bot_lt_coe _
        · rw [degree_eq_natDegree hP'] at hlt ⊢
          rw [degree_eq_natDegree hp0] at hlt hfuel
          have h1 : P'.natDegree < (toPoly L p).natDegree := by exact_mod_cast hlt
          have h2 : (toPoly L p).natDegree < fuel + 1 := by exact_mod_cast hfuel
          exact_mod_cast (by omega : P'.natDegree < fuel)
      split
      · next i g hfit =>
        obtain ⟨h1, h2, h3, -, h5⟩ := quoRem_step_fit L hgs hp hqs hlen hfit
        exact ih _ _ _ h1 h2 h3 hr hrdeg (key _ (h5 hp0))
      · next hfit =>
        obtain ⟨h1, h2, -, h4, h5⟩ := quoRem_step_nofit L hgs hp hr hrdeg hfit
        exact ih _ _ _ h1 hqs hlen h2 h4 (key _ (h5 hp0))

theorem degree_lt_length {f : UPoly α} (hf : WF L f) :
    (toPoly L f).degree < (f.length : WithBot ℕ) := by
  by_cases h0 : toPoly L f = 0
  · rw [h0, degree_zero]; exact WithBot.bot_lt_coe _
  · rw [degree_eq_natDegree h0, length_eq_natDegree_succ L hf]
    exact_mod_cast Nat.lt_succ_self _

/-- more fuel does not change a successful run -/
theorem quoRemLoop_mono {gs : List (UPoly α)} (fuel : Nat) (p : UPoly α) (qs : List (UPoly α))
    (r : UPoly α) {res : List (UPoly α) × UPoly α}
    (h : quoRemLoop F gs fuel p qs r = some res) (fuel' : Nat) (hle : fuel ≤ fuel') :
    quoRemLoop F gs fuel' p qs r = some res := by
  induction fuel generalizing p qs r fuel' with
  | zero => simp [quoRemLoop] at h
  | succ fuel ih =>
    obtain ⟨fuel'', rfl⟩ : ∃ k, fuel' = k + 1 := ⟨fuel' - 1, by omega⟩
    rw [quoRemLoop] at h ⊢
    split
    · next hz => rw [if_pos hz] at h; exact h
    · next hz =>
      rw [if_neg hz] at h
      split
      · next i g hfit =>
        rw [hfit] at h
        exact ih _ _ _ h _ (by omega)
      · next hfit =>
        rw [hfit] at h
        exact ih _ _ _ h _ (by omega)

/-- total correctness of the loop started as `QuoRem` starts it -/
theorem quoRemLoop_total {gs : List (UPoly α)} (hgs : ∀ g ∈ gs, WF L g ∧ toPoly L g ≠ 0)
    {f : UPoly α} (hf : WF L f) (fuel : Nat) (hfuel : f.length < fuel) :
    ∃ qs r, quoRemLoop F gs fuel f (gs.map fun _ => zero F) (zero F) = some (qs, r) := by
  have hrdeg : ∀ g ∈ gs, (toPoly L (zero F)).degree < (toPoly L g).degree := by
    intro g hg
    rw [toPoly_zero, degree_zero]
    exact bot_lt_iff_ne_bot.2 (fun h => (hgs g hg).2 (degree_eq_bot.1 h))
  have h := quoRemLoop_isSome L hgs f.length f (gs.map fun _ => zero F) (zero F) hf
    (by intro q hq; rw [List.mem_map] at hq; obtain ⟨_, _, rfl⟩ := hq; exact wf_zero L)
    (by simp) (wf_zero L) hrdeg (degree_lt_length L hf)
  obtain ⟨res, hres⟩ := Option.isSome_iff_exists.1 h
  exact ⟨res.1, res.2, quoRemLoop_mono _ _ _ _ hres fuel (by omega)⟩

/-! ### `QuoRem` -/

theorem any_isZero_false {gs : List (UPoly α)} (hgs : ∀ g ∈ gs, WF L g)
    (h : gs.any (isZero F) = false) : ∀ g ∈ gs, WF L g ∧ toPoly L g ≠ 0 := by
  intro g hg
  refine ⟨hgs g hg, fun h0 => ?_⟩
  have := (isZero_iff L (hgs g hg)).2 h0
  rw [List.any_eq_false] at h
  exact h g hg this

theorem zero_degree_lt {gs : List (UPoly α)} (hgs : ∀ g ∈ gs, WF L g ∧ toPoly L g ≠ 0) :
    ∀ g ∈ gs, (toPoly L (zero F)).degree < (toPoly L g).degree := by
  intro g hg
  rw [toPoly_zero, degree_zero]
  exact bot_lt_iff_ne_bot.2 (fun h => (hgs g hg).2 (degree_eq_bot.1 h))

theorem quoRem_spec {gs : List (UPoly α)} (hgs : ∀ g ∈ gs, WF L g) {f : UPoly α} (hf : WF L f)
    {fuel : Nat} {qs : List (UPoly α)} {r : UPoly α}
    (h : quoRem F fuel f gs = .ok (some (qs, r))) :
    toPoly L f = dot L qs gs + toPoly L r ∧ qs.length = gs.length ∧ (∀ q ∈ qs, WF L q) ∧
      WF L r ∧ (∀ g ∈ gs, toPoly L g ≠ 0) ∧
      ∀ g ∈ gs, (toPoly L r).degree < (toPoly L g).degree := by
  unfold quoRem at h
  split at h
  · cases h
  · next hany =>
    have hgs' := any_isZero_false L hgs (by simpa using hany)
    simp only [Except.ok.injEq] at h
    obtain ⟨e, h1, h2, h3, h4⟩ := quoRemLoop_spec L hgs' fuel f _ _ hf
      (by intro q hq; rw [List.mem_map] at hq; obtain ⟨_, _, rfl⟩ := hq; exact wf_zero L)
      (by simp) (wf_zero L) (zero_degree_lt L hgs') h
    rw [dot_map_zero, toPoly_zero, add_zero, add_zero] at e
    exact ⟨e, h2, h1, h3, fun g hg => (hgs' g hg).2, h4⟩

theorem quoRem_zero_divisor (fuel : Nat) (f : UPoly α) {gs : List (UPoly α)}
    (h : ∃ g ∈ gs, isZero F g = true) : quoRem F fuel f gs = .error .inputValue := by
  unfold quoRem
  rw [if_pos]
  rw [List.any_eq_true]
  exact h

theorem quoRem_fuel {gs : List (UPoly α)} (hgs : ∀ g ∈ gs, WF L g) {f : UPoly α} (hf : WF L f) :
    quoRem F (quoRemFuel f) f gs ≠ .ok none := by
  unfold quoRem
  split
  · intro h; cases h
  · next hany =>
    have hgs' := any_isZero_false L hgs (by simpa using hany)
    obtain ⟨qs, r, h⟩ := quoRemLoop_total L hgs' hf (quoRemFuel f) (by unfold quoRemFuel; omega)
    rw [h]
    intro h'; cases h'

/-! ### a single divisor: the Euclidean quotient and remainder -/

theorem quoRemLoop_single {r0 r1 : UPoly α} (h0 : WF L r0) (h1 : WF L r1)
    (hne : toPoly L r1 ≠ 0) {fuel : Nat} {qs : List (UPoly α)} {rem : UPoly α}
    (h : quoRemLoop F [r1] fuel r0 [zero F] (zero F) = some (qs, rem)) :
    ∃ q, qs = [q] ∧ WF L q ∧ WF L rem ∧ toPoly L q = toPoly L r0 / toPoly L r1 ∧
      toPoly L rem = toPoly L r0 % toPoly L r1 := by
  have hgs : ∀ g ∈ [r1], WF L g ∧ toPoly L g ≠ 0 := by
    intro g hg; rw [List.mem_singleton] at hg; subst hg; exact ⟨h1, hne⟩
  obtain ⟨e, hq, hlen, hr, hdeg⟩ := quoRemLoop_spec L hgs fuel r0 [zero F] (zero F) h0
    (by intro q hq; rw [List.mem_singleton] at hq; subst hq; exact wf_zero L)
    rfl (wf_zero L) (zero_degree_lt L hgs) h
  match qs, hlen with
  | [q], _ =>
    simp only [dot_cons, dot_nil_left, toPoly_zero, zero_mul, add_zero] at e
    obtain ⟨e1, e2⟩ := div_mod_unique hne e (hdeg r1 (List.mem_singleton_self r1))
    exact ⟨q, rfl, hq q (List.mem_singleton_self q), hr, e1, e2⟩

theorem quoRem_single {f g : UPoly α} (hf : WF L f) (hg : WF L g) {fuel : Nat}
    {qs : List (UPoly α)} {r : UPoly α} (h : quoRem F fuel f [g] = .ok (some (qs, r))) :
    ∃ q, qs = [q] ∧ WF L q ∧ WF L r ∧ toPoly L g ≠ 0 ∧ toPoly L q = toPoly L f / toPoly L g ∧
      toPoly L r = toPoly L f % toPoly L g := by
  unfold quoRem at h
  split at h
  · cases h
  · next hany =>
    have hg0 : toPoly L g ≠ 0 := by
      intro h0
      exact hany (by simpa using (isZero_iff L hg).2 h0)
    simp only [Except.ok.injEq] at h
    obtain ⟨q, h1, h2, h3, h4, h5⟩ := quoRemLoop_single L hf hg hg0 h
    exact ⟨q, h1, h2, h3, hg0, h4, h5⟩

/-! ### `Gcd` -/

theorem degree_lt_of_lt_succ {P P' : K[X]} {fuel : Nat} (hP : P ≠ 0)
    (hfuel : P.degree < ((fuel + 1 : ℕ) : WithBot ℕ)) (hlt : P'.degree < P.degree) :
    P'.degree < (fuel : WithBot ℕ) := by
  by_cases hP' : P' = 0
  · rw [hP', degree_zero]; exact WithBot.bot_lt_coe _
  · rw [degree_eq_natDegree hP'] at hlt ⊢
    rw [degree_eq_natDegree hP] at hlt hfuel
    have h1 : P'.natDegree < P.natDegree := by exact_mod_cast hlt
    have h2 : P.natDegree < fuel + 1 := by exact_mod_cast hfuel
    exact_mod_cast (by omega : P'.natDegree < fuel)

/-- Euclid's loop keeps the ideal `(r0, r1)` -/
theorem gcdLoop_spec (fuel : Nat) (r0 r1 : UPoly α) (h0 : WF L r0) (h1 : WF L r1) {d : UPoly α}
    (h : gcdLoop F fuel r0 r1 = some d) :
    WF L d ∧ Ideal.span {toPoly L d} = Ideal.span {toPoly L r0, toPoly L r1} := by
  induction fuel generalizing r0 r1 with
  | zero => simp [gcdLoop] at h
  | succ fuel ih =>
    rw [gcdLoop] at h
    split at h
    · next hz =>
      simp only [Option.some.injEq] at h
      subst h
      refine ⟨h0, ?_⟩
      rw [(isZero_iff L h1).1 hz, Ideal.span_pair_comm, Ideal.span_insert_zero]
    · next hz =>
      have hne : toPoly L r1 ≠ 0 := fun h' => hz ((isZero_iff L h1).2 h')
      split at h
      · next qs rem hq =>
        obtain ⟨q, -, -, hrem, -, e⟩ := quoRemLoop_single L h0 h1 hne hq
        obtain ⟨hd, hs⟩ := ih r1 rem h1 hrem h
        refine ⟨hd, ?_⟩
        rw [hs, e, EuclideanDomain.mod_eq_sub_mul_div,
          show toPoly L r0 - toPoly L r1 * (toPoly L r0 / toPoly L r1) =
            toPoly L r0 + (-(toPoly L r0 / toPoly L r1)) * toPoly L r1 by ring,
          Ideal.span_pair_add_mul_left, Ideal.span_pair_comm]
      · cases h

theorem gcdLoop_isSome (fuel : Nat) (r0 r1 : UPoly α) (h0 : WF L r0) (h1 : WF L r1)
    (hfuel : (toPoly L r1).degree < (fuel : WithBot ℕ)) :
    (gcdLoop F (fuel + 1) r0 r1).isSome = true := by
  induction fuel generalizing r0 r1 with
  | zero =>
    have h0' : toPoly L r1 = 0 := by
      by_contra h0'
      rw [degree_eq_natDegree h0'] at hfuel
      exact absurd hfuel (by simp)
    rw [gcdLoop, if_pos ((isZero_iff L h1).2 h0')]; rfl
  | succ fuel ih =>
    rw [gcdLoop]
    split
    · rfl
    · next hz =>
      have hne : toPoly L r1 ≠ 0 := fun h' => hz ((isZero_iff L h1).2 h')
      have hgs : ∀ g ∈ [r1], WF L g ∧ toPoly L g ≠ 0 := by
        intro g hg; rw [List.mem_singleton] at hg; subst hg; exact ⟨h1, hne⟩
      obtain ⟨qs, rem, hq⟩ := quoRemLoop_total L hgs h0 (quoRemFuel r0)
        (by unfold quoRemFuel; omega)
      have hq' : quoRemLoop F [r1] (quoRemFuel r0) r0 [zero F] (zero F) = some (qs, rem) := hq
      rw [hq']
      obtain ⟨q, -, -, hrem, -, e⟩ := quoRemLoop_single L h0 h1 hne hq'
      apply ih r1 rem h1 hrem
      apply degree_lt_of_lt_succ hne hfuel
      rw [e]
      exact degree_mod_lt _ hne

theorem gcd2_spec {f g d : UPoly α} (hf : WF L f) (hg : WF L g) (h : gcd2 F f g = some d) :
    WF L d ∧ Ideal.span {toPoly L d} = Ideal.span {toPoly L f, toPoly L g} :=
  gcdLoop_spec L _ f g hf hg h

theorem gcd2_total {f g : UPoly α} (hf : WF L f) (hg : WF L g) : ∃ d, gcd2 F f g = some d := by
  have := gcdLoop_isSome L (g.length + 1) f g hf hg
    (lt_trans (degree_lt_length L hg) (by exact_mod_cast Nat.lt_succ_self _))
  exact Option.isSome_iff_exists.1 this

/-- divisibility form of `gcd2_spec` -/
theorem gcd2_dvd {f g d : UPoly α} (hf : WF L f) (hg : WF L g) (h : gcd2 F f g = some d) :
    toPoly L d ∣ toPoly L f ∧ toPoly L d ∣ toPoly L g ∧
      ∀ e, e ∣ toPoly L f → e ∣ toPoly L g → e ∣ toPoly L d := by
  obtain ⟨-, hs⟩ := gcd2_spec L hf hg h
  refine ⟨?_, ?_, ?_⟩
  · rw [← Ideal.mem_span_singleton, hs]
    exact Ideal.subset_span (by simp)
  · rw [← Ideal.mem_span_singleton, hs]
    exact Ideal.subset_span (by simp)
  · intro e hef heg
    have : toPoly L d ∈ Ideal.span {toPoly L f, toPoly L g} := by
      rw [← hs]; exact Ideal.subset_span rfl
    obtain ⟨a, b, hab⟩ := Ideal.mem_span_pair.1 this
    rw [← hab]
    exact dvd_add (dvd_mul_of_dvd_right hef _) (dvd_mul_of_dvd_right heg _)

/-- the polynomials denoted by a list of coefficient lists -/
def polys (l : List (UPoly α)) : Set K[X] := {P | ∃ g ∈ l, toPoly L g = P}

theorem polys_nil : polys L ([] : List (UPoly α)) = ∅ := by
  ext P; simp [polys]

theorem polys_cons (a : UPoly α) (l : List (UPoly α)) :
    polys L (a :: l) = insert (toPoly L a) (polys L l) := by
  ext P
  simp only [polys, List.mem_cons, exists_eq_or_imp, Set.mem_ofPred_eq, Set.mem_insert_iff]
  constructor
  · rintro (h | h)
    · exact Or.inl h.symm
    · exact Or.inr h
  · rintro (h | h)
    · exact Or.inl h.symm
    · exact Or.inr h

theorem gcd_foldl_none (gs : List (UPoly α)) :
    gs.foldl (fun acc g => acc.bind fun a => gcd2 F a g) none = none := by
  induction gs with
  | nil => rfl
  | cons g gs ih => simpa using ih

theorem gcd_cons (f g : UPoly α) (gs : List (UPoly α)) :
    gcd F f (g :: gs) = (gcd2 F f g).bind fun a => gcd F a gs := by
  unfold gcd
  rw [List.foldl_cons]
  cases h : gcd2 F f g with
  | none => simp [h, gcd_foldl_none]
  | some a => simp [h]

theorem gcd_spec {gs : List (UPoly α)} (hgs : ∀ g ∈ gs, WF L g) {f d : UPoly α} (hf : WF L f)
    (h : gcd F f gs = some d) :
    WF L d ∧ Ideal.span {toPoly L d} = Ideal.span (polys L (f :: gs)) := by
  induction gs generalizing f with
  | nil =>
    simp only [gcd, List.foldl_nil, Option.some.injEq] at h
    subst h
    exact ⟨hf, by rw [polys_cons, polys_nil, insert_empty_eq]⟩
  | cons g gs ih =>
    rw [gcd_cons] at h
    cases h2 : gcd2 F f g with
    | none => rw [h2] at h; cases h
    | some a =>
      rw [h2] at h
      obtain ⟨ha, hs⟩ := gcd2_spec L hf (hgs g List.mem_cons_self) h2
      obtain ⟨hd, hs'⟩ := ih (fun x hx => hgs x (List.mem_cons_of_mem _ hx)) ha h
      refine ⟨hd, ?_⟩
      rw [hs', polys_cons, Ideal.span_insert, hs, polys_cons, polys_cons]
      simp only [Ideal.span_insert, sup_assoc]

theorem gcd_total {gs : List (UPoly α)} (hgs : ∀ g ∈ gs, WF L g) {f : UPoly α} (hf : WF L f) :
    ∃ d, gcd F f gs = some d := by
  induction gs generalizing f with
  | nil => exact ⟨f, rfl⟩
  | cons g gs ih =>
    obtain ⟨a, ha⟩ := gcd2_total L hf (hgs g List.mem_cons_self)
    obtain ⟨hawf, -⟩ := gcd2_spec L hf (hgs g List.mem_cons_self) ha
    obtain ⟨d, hd⟩ := ih (fun x hx => hgs x (List.mem_cons_of_mem _ hx)) hawf
    exact ⟨d, by rw [gcd_cons, ha]; exact hd⟩

theorem newIdeal_spec {gens : List (UPoly α)} (hgens : ∀ g ∈ gens, WF L g) {g : UPoly α}
    (h : newIdeal F gens = some g) :
    WF L g ∧ Ideal.span {toPoly L g} = Ideal.span (polys L gens) ∧
      (toPoly L g = 0 ∨ (toPoly L g).Monic) := by
  match gens, hgens, h with
  | f :: gs, hgens, h =>
    simp only [newIdeal, Option.map_eq_some_iff] at h
    obtain ⟨d, hd, rfl⟩ := h
    obtain ⟨hdw, hs⟩ := gcd_spec L (fun x hx => hgens x (List.mem_cons_of_mem _ hx))
      (hgens f List.mem_cons_self) hd
    refine ⟨normalize_wf L hdw, ?_, ?_⟩
    · rw [← hs, toPoly_normalize L hdw]
      by_cases h0 : toPoly L d = 0
      · rw [h0, mul_zero]
      · exact Ideal.span_singleton_mul_left_unit
          (isUnit_C.2 (IsUnit.mk0 _ (inv_ne_zero (leadingCoeff_ne_zero.2 h0)))) _
    · by_cases h0 : toPoly L d = 0
      · left; rw [toPoly_normalize L hdw, h0, mul_zero]
      · right; exact normalize_monic L hdw h0

theorem newIdeal_total {gens : List (UPoly α)} (hgens : ∀ g ∈ gens, WF L g) (hne : gens ≠ []) :
    ∃ g, newIdeal F gens = some g := by
  match gens, hgens, hne with
  | f :: gs, hgens, _ =>
    obtain ⟨d, hd⟩ := gcd_total L (fun x hx => hgens x (List.mem_cons_of_mem _ hx))
      (hgens f List.mem_cons_self)
    exact ⟨normalize F d, by simp [newIdeal, hd]⟩

/-! ### `Ideal.Reduce`: remainder modulo a monic polynomial -/

theorem degree_lt_of_ld_lt {f g : UPoly α} (hf : WF L f) (hg : WF L g) (h : ld f < ld g) :
    (toPoly L f).degree < (toPoly L g).degree := by
  apply degree_lt_degree
  rwa [natDegree_toPoly L hf, natDegree_toPoly L hg]

theorem reduceLoop_spec {g : UPoly α} (hg : WF L g) (hmon : (toPoly L g).Monic)
    (hdeg : 1 ≤ ld g) (fuel : Nat) (f : UPoly α) (hf : WF L f) (hfuel : ld f < fuel) :
    ∃ f', reduceLoop F g fuel f = some f' ∧ WF L f' ∧
      toPoly L f' = toPoly L f %ₘ toPoly L g ∧ ld f' < ld g := by
  induction fuel generalizing f with
  | zero => omega
  | succ fuel ih =>
    rw [reduceLoop]
    split
    · next hge =>
      have hlcv := lc_valid L hf.1
      have hwf := subShiftScale_wf L hf hg.1 (ld f - ld g) hlcv
      have hP := toPoly_subShiftScale L hf hg.1 (ld f - ld g) hlcv
      generalize subShiftScale F f g (ld f - ld g) (lc F f) = f1 at hwf hP ⊢
      rw [embed_lc L hf, ld_eq_natDegree L hf, ld_eq_natDegree L hg] at hP
      have hnd : (toPoly L g).natDegree ≤ (toPoly L f).natDegree := by
        rw [natDegree_toPoly L hf, natDegree_toPoly L hg]; exact hge
      have hfd : 1 ≤ (toPoly L f).natDegree := by
        rw [natDegree_toPoly L hf]; omega
      have hf0 : toPoly L f ≠ 0 := by
        intro h0; rw [h0, natDegree_zero] at hfd; omega
      have hdd : (toPoly L g).degree ≤ (toPoly L f).degree := by
        rw [degree_eq_natDegree hf0, degree_eq_natDegree hmon.ne_zero]
        exact_mod_cast hnd
      have hlt := div_wf_lemma ⟨hdd, hf0⟩ hmon
      rw [mul_comm (toPoly L g), ← hP] at hlt
      have hld : ld f1 < ld f := by
        rw [ld_eq_natDegree L hwf, ld_eq_natDegree L hf]
        by_cases h0 : toPoly L f1 = 0
        · rw [h0, natDegree_zero]; omega
        · exact natDegree_lt_natDegree h0 hlt
      obtain ⟨f', h1, h2, h3, h4⟩ := ih _ hwf (by omega)
      refine ⟨f', h1, h2, ?_, h4⟩
      rw [h3, hP, sub_modByMonic, mul_self_modByMonic hmon, sub_zero]
    · next hlt =>
      refine ⟨f, rfl, hf, ?_, by omega⟩
      rw [(modByMonic_eq_self_iff hmon).2 (degree_lt_of_ld_lt L hf hg (by omega))]

/-- `reduce` for a monic modulus of degree ≥ 1 -/
theorem reduce_spec {g : UPoly α} (hg : WF L g) (hmon : (toPoly L g).Monic)
    (hdeg : 1 ≤ (toPoly L g).natDegree) {f : UPoly α} (hf : WF L f) :
    ∃ f', reduce F g f = some f' ∧ WF L f' ∧ toPoly L f' = toPoly L f %ₘ toPoly L g ∧
      (toPoly L f').degree < (toPoly L g).degree := by
  rw [natDegree_toPoly L hg] at hdeg
  obtain ⟨f', h1, h2, h3, h4⟩ := reduceLoop_spec L hg hmon hdeg (f.length + 1) f hf
    (by unfold ld; omega)
  refine ⟨f', ?_, h2, h3, degree_lt_of_ld_lt L h2 hg h4⟩
  unfold reduce
  rw [if_neg (by omega)]
  exact h1

theorem reduce_unit {g : UPoly α} (h : ld g = 0) (f : UPoly α) : reduce F g f = some (zero F) := by
  unfold reduce
  rw [if_pos h]

/-- `reduce` is the remainder modulo every monic modulus (degree 0 included: `g = 1`) -/
theorem reduce_monic {g : UPoly α} (hg : WF L g) (hmon : (toPoly L g).Monic) {f : UPoly α}
    (hf : WF L f) :
    ∃ f', reduce F g f = some f' ∧ WF L f' ∧ toPoly L f' = toPoly L f %ₘ toPoly L g := by
  by_cases hd : (toPoly L g).natDegree = 0
  · refine ⟨zero F, reduce_unit (by rw [ld_eq_natDegree L hg]; exact hd) f, wf_zero L, ?_⟩
    have : toPoly L g = 1 := hmon.natDegree_eq_zero.1 hd
    rw [this, modByMonic_one, toPoly_zero]
  · obtain ⟨f', h1, h2, h3, -⟩ := reduce_spec L hg hmon (by omega) hf
    exact ⟨f', h1, h2, h3⟩

/-! ### quotient rings -/

/-- `R` is the quotient ring `K[X]/(g)` for a well-formed monic `g` of degree ≥ 1 -/
structure IsQuot (R : Ring α) (L : Lawful R.F K) (g : UPoly α) : Prop where
  modulus_eq : R.modulus = some g
  wf : WF L g
  monic : (toPoly L g).Monic
  deg : 1 ≤ (toPoly L g).natDegree

section Quot
variable {R : Ring α} {L : Lawful R.F K} {g : UPoly α} (Q : IsQuot R L g)
include Q

theorem reduceIn_spec {f : UPoly α} (hf : WF L f) :
    ∃ f', reduceIn R f = some f' ∧ WF L f' ∧ toPoly L f' = toPoly L f %ₘ toPoly L g ∧
      (toPoly L f').degree < (toPoly L g).degree := by
  unfold reduceIn
  rw [Q.modulus_eq]
  exact reduce_spec L Q.wf Q.monic Q.deg hf

theorem times_spec {f h : UPoly α} (hf : AllValid L f) (hh : AllValid L h) :
    ∃ r, times R f h = some r ∧ WF L r ∧
      toPoly L r = (toPoly L f * toPoly L h) %ₘ toPoly L g ∧
      (toPoly L r).degree < (toPoly L g).degree := by
  unfold times
  rw [← toPoly_mulNoReduce L hf hh]
  exact reduceIn_spec Q (mulNoReduce_wf L hf hh)

end Quot

/-- the accumulation loop of the constructors: coefficient `i` of the list goes to degree `n+i` -/
theorem ofCoefs_fold_spec (cs : List α) (n : Nat) (acc : UPoly α) (hcs : AllValid L cs)
    (hacc : WF L acc) (hhi : ∀ i, n ≤ i → (toPoly L acc).coeff i = 0) :
    WF L (foldCoefsFrom n cs acc fun acc d c => if F.isZero c then acc else setCoef F acc d c) ∧
      toPoly L (foldCoefsFrom n cs acc
        fun acc d c => if F.isZero c then acc else setCoef F acc d c) =
        toPoly L acc + X ^ n * toPoly L cs := by
  induction cs generalizing n acc with
  | nil => simp [hacc]
  | cons c t ih =>
    rw [allValid_cons] at hcs
    rw [foldCoefsFrom_cons]
    have hstep : WF L (if F.isZero c then acc else setCoef F acc n c) ∧
        toPoly L (if F.isZero c then acc else setCoef F acc n c) =
          toPoly L acc + monomial n (L.embed c) := by
      split
      · next hz => rw [(L.isZero_iff c hcs.1).1 hz]; simp [hacc]
      · refine ⟨setCoef_wf L hacc n hcs.1, ?_⟩
        rw [toPoly_setCoef L hacc n hcs.1, ← coeff_toPoly_coef, hhi n (le_refl n), sub_zero]
    obtain ⟨h1, h2⟩ := ih (n + 1) _ hcs.2 hstep.1 (by
      intro i hi
      rw [hstep.2, coeff_add, hhi i (by omega), coeff_monomial, if_neg (by omega), add_zero])
    refine ⟨h1, ?_⟩
    rw [h2, hstep.2, toPoly_cons, ← C_mul_X_pow_eq_monomial, pow_succ]
    ring

/-- the unreduced polynomial built by `Polynomial(coefs)` -/
theorem ofCoefs_unreduced (cs : List α) (hcs : AllValid L cs) :
    WF L (foldCoefs cs (zero F) fun acc d c => if F.isZero c then acc else setCoef F acc d c) ∧
      toPoly L (foldCoefs cs (zero F)
        fun acc d c => if F.isZero c then acc else setCoef F acc d c) = toPoly L cs := by
  have := ofCoefs_fold_spec L cs 0 (zero F) hcs (wf_zero L) (by intro i _; rw [toPoly_zero]; simp)
  rw [foldCoefs_eq]
  refine ⟨this.1, ?_⟩
  rw [this.2, toPoly_zero]; simp

section Quot
variable {R : Ring α} {L : Lawful R.F K} {g : UPoly α} (Q : IsQuot R L g)
include Q

theorem ofCoefs_spec {cs : List α} (hcs : AllValid L cs) :
    ∃ r, ofCoefs R cs = some r ∧ WF L r ∧ toPoly L r = toPoly L cs %ₘ toPoly L g ∧
      (toPoly L r).degree < (toPoly L g).degree := by
  obtain ⟨h1, h2⟩ := ofCoefs_unreduced L cs hcs
  unfold ofCoefs
  rw [← h2]
  exact reduceIn_spec Q h1

theorem one_modByMonic : (1 : K[X]) %ₘ toPoly L g = 1 := by
  rw [modByMonic_eq_self_iff Q.monic, degree_one]
  have h0 : toPoly L g ≠ 0 := Q.monic.ne_zero
  rw [degree_eq_natDegree h0]
  exact_mod_cast Q.deg

/-- square-and-multiply; `out` must already be reduced (it is returned unchanged for `n = 0`) -/
theorem powLoop_spec (fuel n : Nat) (hn : n < 2 ^ fuel) (out b : UPoly α) (hout : WF L out)
    (hb : AllValid L b) (hred : (toPoly L out).degree < (toPoly L g).degree) :
    ∃ r, powLoop R (fuel + 1) n out b = some r ∧ WF L r ∧
      toPoly L r = (toPoly L out * toPoly L b ^ n) %ₘ toPoly L g ∧
      (toPoly L r).degree < (toPoly L g).degree := by
  induction fuel generalizing n out b with
  | zero =>
    have : n = 0 := by simpa using hn
    subst this
    refine ⟨out, by simp [powLoop], hout, ?_, hred⟩
    rw [pow_zero, mul_one, (modByMonic_eq_self_iff Q.monic).2 hred]
  | succ fuel ih =>
    rw [powLoop]
    split
    · next h0 =>
      subst h0
      refine ⟨out, rfl, hout, ?_, hred⟩
      rw [pow_zero, mul_one, (modByMonic_eq_self_iff Q.monic).2 hred]
    · next h0 =>
      obtain ⟨b2, hb2, hb2w, hb2e, -⟩ := times_spec Q hb hb
      have hn2 : n / 2 < 2 ^ fuel := by
        rw [Nat.div_lt_iff_lt_mul (by norm_num), ← pow_succ]; exact hn
      by_cases hodd : n % 2 = 1
      · obtain ⟨o, ho, how, hoe, hod⟩ := times_spec Q hout.1 hb
        simp only [if_pos hodd, ho, hb2]
        obtain ⟨r, h1, h2, h3, h4⟩ := ih (n / 2) hn2 o b2 how hb2w.1 hod
        refine ⟨r, h1, h2, ?_, h4⟩
        rw [h3, hoe, hb2e]
        have hk : toPoly L out * toPoly L b ^ n =
            (toPoly L out * toPoly L b) * (toPoly L b * toPoly L b) ^ (n / 2) := by
          conv_lhs => rw [← Nat.div_add_mod n 2, hodd]
          rw [pow_succ, pow_mul]; ring
        rw [hk]
        exact mul_modByMonic_congr (modByMonic_modByMonic Q.monic _)
          (pow_modByMonic_congr (modByMonic_modByMonic Q.monic _) _)
      · have heven : n % 2 = 0 := by omega
        simp only [if_neg hodd, hb2]
        obtain ⟨r, h1, h2, h3, h4⟩ := ih (n / 2) hn2 out b2 hout hb2w.1 hred
        refine ⟨r, h1, h2, ?_, h4⟩
        rw [h3, hb2e]
        conv_rhs => rw [← Nat.div_add_mod n 2, heven, add_zero, pow_mul]
        exact mul_modByMonic_congr rfl
          (pow_modByMonic_congr (by rw [modByMonic_modByMonic Q.monic, sq]) _)

/-- `Pow`: fuel 70 suffices for every exponent below `2^69` (in particular every `uint`) -/
theorem pow_spec {f : UPoly α} (hf : AllValid L f) {n : Nat} (hn : n < 2 ^ 69) :
    ∃ r, pow R f n = some r ∧ WF L r ∧ toPoly L r = (toPoly L f ^ n) %ₘ toPoly L g ∧
      (toPoly L r).degree < (toPoly L g).degree := by
  have hone : AllValid L [R.F.one] := by
    intro c hc; rw [List.mem_singleton] at hc; subst hc; exact L.one_valid
  obtain ⟨o, ho, how, hoe, hod⟩ := ofCoefs_spec Q hone
  rw [toPoly_singleton, L.embed_one, C_1, one_modByMonic Q] at hoe
  obtain ⟨r, h1, h2, h3, h4⟩ := powLoop_spec Q 69 n hn o f how hf hod
  refine ⟨r, ?_, h2, ?_, h4⟩
  · unfold pow; rw [ho]; exact h1
  · rw [h3, hoe, one_mul]

theorem ofNats_spec (hofNat : ∀ n, L.valid (R.F.ofNat n)) (cs : List Nat) :
    ∃ r, ofNats R cs = some r ∧ WF L r ∧
      toPoly L r = toPoly L (cs.map R.F.ofNat) %ₘ toPoly L g ∧
      (toPoly L r).degree < (toPoly L g).degree := by
  unfold ofNats
  apply ofCoefs_spec Q
  intro c hc
  rw [List.mem_map] at hc
  obtain ⟨n, -, rfl⟩ := hc
  exact hofNat n

theorem ofInts_spec (hofInt : ∀ n, L.valid (R.F.ofInt n)) (cs : List Int) :
    ∃ r, ofInts R cs = some r ∧ WF L r ∧
      toPoly L r = toPoly L (cs.map R.F.ofInt) %ₘ toPoly L g ∧
      (toPoly L r).degree < (toPoly L g).degree := by
  unfold ofInts
  apply ofCoefs_spec Q
  intro c hc
  rw [List.mem_map] at hc
  obtain ⟨n, -, rfl⟩ := hc
  exact hofInt n

end Quot

/-- the polynomial with the given list of coefficients (index = degree) -/
noncomputable def polyOfList : List K → K[X]
  | [] => 0
  | c :: t => C c + X * polyOfList t

theorem toPoly_eq_polyOfList (f : UPoly α) : toPoly L f = polyOfList (f.map L.embed) := by
  induction f with
  | nil => rfl
  | cons c t ih => simp [polyOfList, ih]

theorem coeff_polyOfList (cs : List K) (i : Nat) : (polyOfList cs).coeff i = cs.getD i 0 := by
  induction cs generalizing i with
  | nil => simp [polyOfList]
  | cons c t ih =>
    cases i with
    | zero => simp [polyOfList]
    | succ i => simp [polyOfList, coeff_C_succ, ih]

/-! ### `Equal` decides equality of residue classes on reduced representatives -/

theorem equal_iff_dvd_sub {g r1 r2 : UPoly α} (h1 : WF L r1) (h2 : WF L r2)
    (d1 : (toPoly L r1).degree < (toPoly L g).degree)
    (d2 : (toPoly L r2).degree < (toPoly L g).degree) :
    equal F r1 r2 = true ↔ toPoly L g ∣ toPoly L r1 - toPoly L r2 := by
  rw [equal_iff L h1 h2]
  constructor
  · intro h; rw [h, sub_self]; exact dvd_zero _
  · intro h
    have := eq_zero_of_dvd_of_degree_lt h
      (lt_of_le_of_lt (degree_sub_le _ _) (max_lt d1 d2))
    exact sub_eq_zero.1 this

end UPoly
end Algobra
